#!/usr/bin/env python3
"""Translator for C13: the constants and comparison operators of the bit reader, the bit writer and
the natural-number codec (/repo/src/bit_encoding/{bititer,bitwriter,encode}.rs)
-> lean/SimplicityModel/Gen/BitConsts.lean.

The model (`NatCodec*.lean`, `BitStream.lean`, `BitReader.lean`, `BitOps.lean`) is written by hand;
`Props.C13.gen_matches_model` ties the numbers and operators it is written with to what this file
finds in the source.  A construct that is no longer found is an error (exit 3), never skipped."""
import re, sys, os

REPO = os.environ.get("VERIF_REPO", "/repo")
OUT = os.path.join(os.path.dirname(os.path.abspath(__file__)), "..", "lean", "SimplicityModel", "Gen", "BitConsts.lean")


class TranslateError(Exception):
    pass


def body(text, header, what):
    """the text of the item starting at `header` up to the closing brace at the header's indentation"""
    i = text.find(header)
    if i < 0:
        raise TranslateError(f"cannot find {what} ({header!r})")
    line_start = text.rfind("\n", 0, i) + 1
    indent = text[line_start:i]
    if indent.strip():
        indent = re.match(r"\s*", indent).group(0)
    m = re.search(r"\n" + indent + r"\}", text[i:])
    if not m:
        raise TranslateError(f"cannot find the end of {what}")
    return text[i:i + m.end()]


def one(pattern, text, what):
    ms = re.findall(pattern, text)
    if len(ms) != 1:
        raise TranslateError(f"{what}: expected exactly one match of {pattern!r}, found {len(ms)}")
    return ms[0]


def same(pattern, text, what, count=None):
    ms = re.findall(pattern, text)
    if not ms or len(set(ms)) != 1 or (count is not None and len(ms) != count):
        raise TranslateError(f"{what}: matches of {pattern!r} = {ms}")
    return ms[0]


OPS = {">": "gt", ">=": "ge", "<": "lt", "<=": "le", "!=": "ne", "==": "eq"}


def translate():
    it = open(os.path.join(REPO, "src/bit_encoding/bititer.rs")).read()
    wr = open(os.path.join(REPO, "src/bit_encoding/bitwriter.rs")).read()
    en = open(os.path.join(REPO, "src/bit_encoding/encode.rs")).read()
    it_code = it.split("#[cfg(test)]")[0]
    wr_code = wr.split("#[cfg(test)]")[0]
    en_code = en.split("#[cfg(test)]")[0]
    d = []  # (name, type, value)

    # --- constructors: a fresh reader forces a fetch (read_bits = 8), counts from 0, has no budget
    froms = re.findall(r"BitIter \{\s*iter(?:: [^,]+)?,\s*cached_byte: (\d+),(?:\s*//[^\n]*)*\s*read_bits: (\d+),\s*total_read: (\d+),\s*remaining: ([^,]+),\s*\}", it_code)
    if len(froms) != 4:
        raise TranslateError(f"expected 4 literal BitIter constructors with read_bits given by a number (3 From impls, aligned window), found {len(froms)}")
    if len(set(froms[:3])) != 1 or froms[0][3].strip() != "usize::MAX":
        raise TranslateError(f"the three From constructors differ or have a budget: {froms[:3]}")
    d.append(("NEW_CACHED", "Nat", froms[0][0]))
    d.append(("NEW_READ_BITS", "Nat", froms[0][1]))
    d.append(("NEW_TOTAL", "Nat", froms[0][2]))
    win = body(it_code, "pub fn byte_slice_window", "byte_slice_window")
    if froms[3][:3] != froms[0][:3] or froms[3][3].strip() != "end - start":
        raise TranslateError(f"aligned window constructor: {froms[3]}")
    un = re.findall(r"BitIter \{\s*cached_byte: iter\.by_ref\(\)\.next\(\)\.unwrap\(\),\s*iter,\s*read_bits,\s*total_read: (\d+),\s*remaining: ([^,]+),\s*\}", win)
    if len(un) != 1 or un[0][1].strip() != "end - start":
        raise TranslateError(f"unaligned window constructor: {un}")
    d.append(("WINDOW_TOTAL", "Nat", un[0][0]))
    if not re.search(r"let actual_sl = &sl\[start / 8\.\.end\.div_ceil\(8\)\];", win) or not re.search(r"let read_bits = start % 8;\s*if read_bits == 0 \{", win):
        raise TranslateError("byte_slice_window: slice start/8..ceil(end/8) or the alignment test changed")
    d.append(("WINDOW_BUDGET_IS_END_MINUS_START", "Bool", "true"))

    # --- next
    nx = body(it_code, "fn next(&mut self) -> Option<bool>", "BitIter::next")
    d.append(("NEXT_STOPS_AT_BUDGET", "Nat", one(r"if self\.remaining == (\d+) \{\s*return None;", nx, "budget test of next")))
    d.append(("NEXT_CACHE_BITS", "Nat", one(r"if self\.read_bits < (\d+) \{", nx, "cache test of next")))
    d.append(("NEXT_MASK_BASE", "Nat", one(r"self\.cached_byte & \(1 << \((\d+) - self\.read_bits as u8\)\) != 0", nx, "bit mask of next")))
    incs = re.findall(r"self\.(read_bits|total_read) \+= (\d+);", nx) + re.findall(r"self\.(remaining) -= (\d+);", nx)
    if sorted(incs) != [("read_bits", "1"), ("remaining", "1"), ("total_read", "1")]:
        raise TranslateError(f"next: counter updates {incs}")
    d.append(("NEXT_REFILL_READ_BITS", "Nat", one(r"self\.cached_byte = self\.iter\.next\(\)\?;\s*self\.read_bits = (\d+);", nx, "refill of next")))
    sh = body(it_code, "fn size_hint(&self)", "size_hint")
    m = re.search(r"core::cmp::min\((\d+) - self\.read_bits \+ (\d+) \* n, self\.remaining\)", sh)
    if not m:
        raise TranslateError("size_hint formula changed")
    d.append(("HINT_CACHE_BITS", "Nat", m.group(1)))
    d.append(("HINT_BYTE_BITS", "Nat", m.group(2)))

    # --- read_u2: both calls are made
    u2 = body(it_code, "pub fn read_u2", "read_u2")
    arms = re.findall(r"\(Some\((false|true)\), Some\((false|true)\)\) => Ok\(u2::_(\d)\)", u2)
    if "match (self.next(), self.next())" not in u2 or len(arms) != 4:
        raise TranslateError("read_u2 changed")
    ok = all(int(c) == 2 * (a == "true") + (b == "true") for a, b, c in arms)
    d.append(("U2_IS_BIG_ENDIAN_PAIR", "Bool", "true" if ok else "false"))

    # --- read_u8
    u8 = body(it_code, "pub fn read_u8", "read_u8")
    m = re.search(r"if self\.remaining (<|<=) (\d+) \{\s*return Err", u8)
    if not m:
        raise TranslateError("read_u8 budget test changed")
    d.append(("U8_BUDGET_OP", "String", '"' + OPS[m.group(1)] + '"'))
    d.append(("U8_BUDGET", "Nat", m.group(2)))
    d.append(("U8_TOTAL_INC", "Nat", one(r"self\.total_read \+= (\d+);", u8, "read_u8 total_read")))
    d.append(("U8_BUDGET_DEC", "Nat", one(r"self\.remaining -= (\d+);", u8, "read_u8 remaining")))
    m = re.search(r"Ok\(cached\.checked_shl\(self\.read_bits as u32\)\.unwrap_or\((\d+)\)\s*\+ \(self\.cached_byte >> \((\d+) - self\.read_bits\)\)\)", u8)
    if not m or not re.search(r"let cached = self\.cached_byte;\s*self\.cached_byte = self\.iter\.next\(\)\.ok_or\(EarlyEndOfStreamError\)\?;", u8):
        raise TranslateError("read_u8 shift-and-add changed")
    d.append(("U8_SHL_OVERFLOW_VALUE", "Nat", m.group(1)))
    d.append(("U8_SHR_BASE", "Nat", m.group(2)))

    # --- read_natural
    rn = body(it_code, "pub fn read_natural<N>", "read_natural")
    m = re.search(r"if len (>|>=) (\d+) \{\s*return Err\(DecodeNaturalError::Overflow\);", rn)
    if not m:
        raise TranslateError("read_natural length check changed")
    d.append(("NAT_LEN_OP", "String", '"' + OPS[m.group(1)] + '"'))
    d.append(("NAT_LEN_MAX", "Nat", m.group(2)))
    m = re.search(r"if ret (>|>=) bound \{", rn)
    if not m:
        raise TranslateError("read_natural bound check changed")
    d.append(("NAT_BOUND_OP", "String", '"' + OPS[m.group(1)] + '"'))
    d.append(("NAT_ACC_INIT", "Nat", one(r"let mut n = (\d+)u32;", rn, "accumulator start")))
    d.append(("NAT_ACC_MUL", "Nat", one(r"n = (\d+) \* n \+ bit;", rn, "accumulator step")))
    d.append(("NAT_LEN_INIT", "Nat", one(r"let mut len = (\d+);", rn, "initial length")))
    if not re.search(r"let ret = N::try_from\(n\)\.map_err\(\|_\| DecodeNaturalError::Overflow\)\?;", rn):
        raise TranslateError("read_natural result conversion changed")
    if not re.search(r"Ok\(true\) => recurse_depth \+= 1,\s*Ok\(false\) => break,", rn):
        raise TranslateError("read_natural prefix loop changed")
    d.append(("NAT_TRY_FROM_THEN_BOUND", "Bool", "true" if rn.find("N::try_from(n)") < rn.find("if ret ") else "false"))

    # --- close
    cl = body(it_code, "pub fn close(mut self)", "close")
    m = re.search(r"let n_bits = (\d+) - self\.read_bits;\s*let masked_padding = self\.cached_byte & \(\(1u8 << n_bits\) - 1\);\s*if masked_padding (!=|>|>=|==) (\d+) \{\s*Err\(CloseError::IllegalPadding", cl)
    if not m or not re.search(r"if let Some\(first_byte\) = self\.iter\.next\(\) \{\s*return Err\(CloseError::TrailingBytes \{ first_byte \}\);\s*\}", cl):
        raise TranslateError("close changed")
    d.append(("CLOSE_BITS_BASE", "Nat", m.group(1)))
    d.append(("CLOSE_PAD_OP", "String", '"' + OPS[m.group(2)] + '"'))
    d.append(("CLOSE_PAD_CMP", "Nat", m.group(3)))

    # --- collect_bits
    cb = body(it_code, "fn collect_bits(self) -> (Vec<u8>, usize) {", "collect_bits")
    m = re.search(r"unfinished_byte\.resize\((\d+), (false|true)\);", cb)
    if not m or not re.search(r"if unfinished_byte\.len\(\) == (\d+) \{", cb) or cb.count("fold(0, |acc, &b| acc * 2 + u8::from(b))") != 2:
        raise TranslateError("collect_bits changed")
    d.append(("COLLECT_BYTE_BITS", "Nat", m.group(1)))
    d.append(("COLLECT_PAD_BIT", "Bool", m.group(2)))

    # --- writer
    wb = body(wr_code, "pub fn write_bit", "write_bit")
    d.append(("WRITER_CACHE_BITS", "Nat", one(r"if self\.cache_len < (\d+) \{", wb, "cache test of write_bit")))
    d.append(("WRITER_MASK_BASE", "Nat", one(r"self\.cache \|= 1 << \((\d+) - self\.cache_len\);", wb, "mask of write_bit")))
    incs = re.findall(r"self\.(cache_len|total_written) \+= (\d+);", wb)
    resets = re.findall(r"self\.(cache_len|cache) = (\d+);", wb)
    if sorted(incs) != [("cache_len", "1"), ("total_written", "1")] or sorted(resets) != [("cache", "0"), ("cache_len", "0")]:
        raise TranslateError(f"write_bit: counter updates {incs} {resets}")
    fl = body(wr_code, "pub fn flush_all", "flush_all")
    m = re.search(r"if self\.cache_len (>|>=|!=) (\d+) \{\s*self\.w\.write_all\(&\[self\.cache\]\)\?;\s*self\.cache_len = (\d+);\s*self\.cache = (\d+);", fl)
    if not m:
        raise TranslateError("flush_all changed")
    d.append(("FLUSH_OP", "String", '"' + OPS[m.group(1)] + '"'))
    d.append(("FLUSH_CMP", "Nat", m.group(2)))
    d.append(("FLUSH_CACHE_LEN", "Nat", m.group(3)))
    d.append(("FLUSH_CACHE", "Nat", m.group(4)))
    be = body(wr_code, "pub fn write_bits_be", "write_bits_be")
    d.append(("BE_MSB_FIRST", "Bool", "true" if re.search(r"for i in 0\.\.len \{\s*self\.write_bit\(n & \(1 << \(len - i - 1\)\) != 0\)\?;", be) else "false"))
    wrw = body(wr_code, "fn write(&mut self, buf: &[u8])", "io::Write::write")
    m = re.search(r"for i in 0\.\.(\d+) \{\s*self\.write_bit\(\(b & \(1 << \((\d+) - i\)\)\) != 0\)\?;", wrw)
    if not m:
        raise TranslateError("io::Write::write of BitWriter changed")
    d.append(("WRITE_BYTE_BITS", "Nat", m.group(1)))
    d.append(("WRITE_BYTE_MASK_BASE", "Nat", m.group(2)))

    # --- encode_natural
    e = body(en_code, "pub fn encode_natural", "encode_natural")
    d.append(("ENC_LEN_IS_FLOOR_LOG2", "Bool", "true" if "8 * mem::size_of::<usize>() - n.leading_zeros() as usize - 1" in e else "false"))
    shape = re.search(r"if len == 0 \{\s*w\.write_bit\(false\)\?;\s*break;\s*\} else \{\s*w\.write_bit\(true\)\?;\s*suffix\.push\(\(n, len\)\);\s*n = len;\s*\}", e) and \
        re.search(r"while let Some\(\(bits, len\)\) = suffix\.pop\(\) \{\s*let bits = bits as u64;[^\n]*\s*w\.write_bits_be\(bits, len\)\?;", e)
    d.append(("ENC_TWO_LOOPS", "Bool", "true" if shape else "false"))

    out = ["/- GENERATED by tools/translate_bitconsts.py from /repo/src/bit_encoding/{bititer,bitwriter,encode}.rs.",
           "   Do not edit: rewritten on every run of ./check C13. -/",
           "namespace Gen.BitConsts"]
    for name, ty, val in d:
        out.append(f"def {name} : {ty} := {val}")
    out.append("end Gen.BitConsts")
    return "\n".join(out) + "\n"


if __name__ == "__main__":
    try:
        text = translate()
    except TranslateError as ex:
        print(f"TRANSLATE-ERROR bitconsts: {ex}")
        sys.exit(3)
    except FileNotFoundError as ex:
        print(f"TRANSLATE-ERROR bitconsts: {ex}")
        sys.exit(3)
    old = open(OUT).read() if os.path.exists(OUT) else None
    if old != text:
        os.makedirs(os.path.dirname(OUT), exist_ok=True)
        open(OUT, "w").write(text)
        print("bitconsts: written")
    else:
        print("bitconsts: unchanged")
