#!/usr/bin/env python3
"""Writes MANIFEST.json from lean/props.json (claimed properties) and tools/manifest_meta.json."""
import json, os
ROOT = os.path.join(os.path.dirname(os.path.abspath(__file__)), "..")
props = {f[:-5] for f in os.listdir(os.path.join(ROOT, "lean", "props")) if f.endswith(".json")}
meta = json.load(open(os.path.join(ROOT, "tools", "manifest_meta.json")))
allp = [json.loads(l)["id"] for l in open(os.path.join(ROOT, "properties.jsonl"))]
checks = []
for p in allp:
    if p not in props:
        continue
    m = json.load(open(os.path.join(ROOT, "tools", "meta", p + ".json")))
    checks.append({
        "property_id": p,
        "quick_cmd": f"./check {p} --tier quick",
        "thorough_cmd": f"./check {p} --tier thorough",
        "evidence_file": f"/verif/evidence/{p}.json",
        "replay_cmd_template": "./check replay {path}",
        "engine": "lean-proof+correspondence",
        "level_claimed": {"category": "proof", "text": m["text"], "design_ref": m.get("design_ref", f"DESIGN.md sec. 5 ({p})")},
        "level_note": m["note"],
        "technique": m["technique"],
    })
na = [{"property_id": p, "reason": meta["not_applicable"].get(p, "check not built yet in this tree; no claim is made")} for p in allp if p not in props]
man = {
    "version": 1,
    "setup_cmd": "./check setup",
    "hooks": {
        "guard": "verif-hooks",
        "enable": "cargo feature `verif-hooks` of simplicity-lang, switched on by /verif/harness/Cargo.toml (path dependency on /repo)",
        "baseline_off_cmd": "cd /repo && cargo test --workspace --no-fail-fast --offline",
        "source_commits": meta["hook_commits"],
        "add_only": True,
    },
    "engines": [
        {"name": "lean-proof+correspondence", "path": "/verif/check",
         "serves_properties": [c["property_id"] for c in checks],
         "kind_free_text": "Lean 4 theorems over a hand model (lean/SimplicityModel), tables regenerated from the source by tools/translate_*.py, and a differential correspondence between the compiled Lean driver and the real crate (harness/) on generated operations"},
    ],
    "checks": checks,
    "notes": meta["notes"],
    "not_applicable": na,
}
json.dump(man, open(os.path.join(ROOT, "MANIFEST.json"), "w"), indent=1, ensure_ascii=False)
print(f"MANIFEST.json: {len(checks)} checks, {len(na)} not claimed")
