#!/bin/bash
# try_seed.sh <patch.diff> <CXX> [CXX…]: runs the named checks against a scratch worktree of /repo
# with the patch applied (VERIF_REPO), leaving /repo itself untouched (a background run may be
# using it), and restores the committed evidence files afterwards.
set -u
P="$1"; shift
W=/tmp/rw-seed
if [ ! -d "$W" ]; then git -C /repo worktree add -q --detach "$W" HEAD || exit 2; fi
git -C "$W" checkout -q -- . && git -C "$W" clean -qfd -e target
git -C "$W" apply "$P" || { echo "patch does not apply"; exit 2; }
for c in "$@"; do
  VERIF_REPO="$W" timeout 3000 /verif/check "$c" 2>&1 | tail -2 | cut -c1-220
  git -C /verif checkout -q -- "evidence/$c.json" 2>/dev/null
done
git -C "$W" checkout -q -- .
