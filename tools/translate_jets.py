#!/usr/bin/env python3
"""Translator (C14): the generated jet tables of the Rust side and of libsimplicity -> Lean data.

  src/jet/init/{core,elements,bitcoin}.rs      -> lean/SimplicityModel/Gen/Jets{Core,Elements,Bitcoin}.lean
  simplicity-sys/depend/simplicity/elements/primitive{JetNode,EnumJet,InitTy,EnumTy}.inc,
  decodeElementsJets.inc, ../decodeCoreJets.inc, simplicity-sys/src/c_jets/jets_{wrapper,ffi}.rs,
  depend/jets_wrapper.c                        -> lean/SimplicityModel/Gen/JetsC.lean

Read per family, keyed by the enum variant and written in the enum's declaration order:
  enum variants, `ALL`, `cmr` (32 bytes), `source_ty`/`target_ty` (type-name byte strings), `encode`
  (`(n, len)` arms), `decode` (the nested `decode_bits!` invocation -> trie), `cost`, `Display`,
  `FromStr` (arms in source order), `c_jet_ptr`.
Every `match` must consist of recognised arms only, contain every variant exactly once, and the counts
must equal the length the enum declares for `ALL`; anything else is an error (exit 3), never skipped.

`--rows` prints, instead of writing files, one line per Elements jet whose binding chain
(c_jet_ptr -> jets_wrapper.rs -> jets_ffi.rs link_name -> WRAP_ -> the `.jet` of the C table) is broken."""
import os, re, sys

REPO = os.environ.get("VERIF_REPO", "/repo")
GEN = os.path.join(os.path.dirname(os.path.abspath(__file__)), "..", "lean", "SimplicityModel", "Gen")
CDIR = os.path.join(REPO, "simplicity-sys", "depend", "simplicity")
PFX = "rustsimplicity_0_7_"


class TranslateError(Exception):
    pass


def read(path):
    try:
        return open(path).read()
    except OSError as e:
        raise TranslateError(f"cannot read {path}: {e}")


def strip_comments(s):
    s = re.sub(r"/\*.*?\*/", " ", s, flags=re.S)
    return re.sub(r"//[^\n]*", " ", s)


def match_brace(s, i, o="{", c="}"):
    depth = 0
    for j in range(i, len(s)):
        if s[j] == o:
            depth += 1
        elif s[j] == c:
            depth -= 1
            if depth == 0:
                return j + 1
    raise TranslateError("unbalanced braces")


def key(s):
    k = 1
    for b in s.encode():
        k = k * 256 + b
    return k


def body_after(s, pattern, what):
    """text between the `{` that ends `pattern` and its matching `}`"""
    m = re.search(pattern, s)
    if not m:
        raise TranslateError(f"cannot find {what}")
    if re.search(pattern, s[m.end():]):
        raise TranslateError(f"{what} found twice")
    i = m.end() - 1
    if s[i] != "{":
        raise TranslateError(f"{what}: pattern does not end at an opening brace")
    j = match_brace(s, i)
    return s[i + 1:j - 1]


def arms(body, enum, rhs_re, what, variants):
    """a `match` body made only of `Enum::Variant => <rhs>,` arms -> {variant: match object}"""
    out = {}
    pos = 0
    rx = re.compile(r"\s*%s::(\w+)\s*=>\s*%s\s*,?" % (enum, rhs_re), re.S)
    while True:
        m = rx.match(body, pos)
        if not m:
            break
        if m.group(1) in out:
            raise TranslateError(f"{what}: arm for {enum}::{m.group(1)} appears twice")
        out[m.group(1)] = m
        pos = m.end()
    if body[pos:].strip():
        raise TranslateError(f"{what}: not understood near {body[pos:].strip()[:70]!r}")
    if set(out) != set(variants):
        d = sorted(set(variants) ^ set(out))
        raise TranslateError(f"{what}: arms differ from the enum's variants: {d[:5]}")
    return out


def parse_trie(s, enum, index, what):
    """`{ 0 => A, 1 => B }` | `{}` | `{Enum::V}`  ->  ('node', z, o) | ('empty',) | ('leaf', idx)"""
    pos = [0]

    def ws():
        while pos[0] < len(s) and s[pos[0]].isspace():
            pos[0] += 1

    def expect(tok):
        ws()
        if not s.startswith(tok, pos[0]):
            raise TranslateError(f"{what}: expected {tok!r} near {s[pos[0]:pos[0] + 40]!r}")
        pos[0] += len(tok)

    def node():
        expect("{")
        ws()
        if s.startswith("}", pos[0]):
            pos[0] += 1
            return ("empty",)
        m = re.compile(r"%s::(\w+)\s*\}" % enum).match(s, pos[0])
        if m:
            pos[0] = m.end()
            if m.group(1) not in index:
                raise TranslateError(f"{what}: unknown variant {m.group(1)}")
            return ("leaf", index[m.group(1)])
        expect("0")
        expect("=>")
        z = node()
        expect(",")
        expect("1")
        expect("=>")
        o = node()
        ws()
        if s.startswith(",", pos[0]):
            pos[0] += 1
        expect("}")
        return ("node", z, o)

    t = node()
    ws()
    if pos[0] != len(s):
        raise TranslateError(f"{what}: trailing text {s[pos[0]:pos[0] + 40]!r}")
    return t


def lean_trie(t, ind=2):
    pad = " " * ind
    if t[0] == "empty":
        return ".empty"
    if t[0] == "leaf":
        return f"(.leaf {t[1]})"
    a, b = lean_trie(t[1], ind + 1), lean_trie(t[2], ind + 1)
    if len(a) + len(b) < 60:
        return f"(.node {a} {b})"
    return f"(.node\n{pad}{a}\n{pad}{b})"


def rust_family(fname, enum):
    path = os.path.join(REPO, "src", "jet", "init", fname)
    s = strip_comments(read(path))
    F = {"enum": enum, "file": "src/jet/init/" + fname}
    vb = body_after(s, r"pub enum %s\s*\{" % enum, f"{fname}: enum {enum}")
    variants = [v.strip() for v in vb.split(",") if v.strip()]
    if not all(re.fullmatch(r"[A-Z]\w*", v) for v in variants) or len(set(variants)) != len(variants):
        raise TranslateError(f"{fname}: enum variants not understood")
    m = re.search(r"pub const ALL: \[Self; (\d+)\] = \[(.*?)\];", s, re.S)
    if not m:
        raise TranslateError(f"{fname}: ALL not found")
    all_list = [x.strip() for x in m.group(2).split(",") if x.strip()]
    if int(m.group(1)) != len(variants) or all_list != ["Self::" + v for v in variants]:
        raise TranslateError(f"{fname}: ALL (declared {m.group(1)}, listed {len(all_list)}) is not the enum's {len(variants)} variants in order")
    index = {v: i for i, v in enumerate(variants)}
    F["variants"] = variants
    imp = body_after(s, r"impl Jet for %s\s*\{" % enum, f"{fname}: impl Jet")

    def fn_body(name, sig_re):
        return body_after(imp, r"fn %s%s\s*\{" % (name, sig_re), f"{fname}: fn {name}")

    # cmr
    cb = fn_body("cmr", r"\(&self\)\s*->\s*Cmr")
    if "unimplemented!" in cb:
        if re.sub(r'unimplemented!\("[^"]*"\)', "", cb).strip():
            raise TranslateError(f"{fname}: cmr: unimplemented! mixed with other code")
        F["cmr"] = None
    else:
        mb = body_after(cb, r"let bytes = match self\s*\{", f"{fname}: cmr match")
        rest = cb[cb.index(mb) + len(mb):]
        if not re.fullmatch(r"\s*\}\s*;\s*Cmr::from_byte_array\(bytes\)\s*", rest):
            raise TranslateError(f"{fname}: cmr: tail not understood: {rest.strip()[:60]!r}")
        a = arms(mb, enum, r"\[([^\]]*)\]", f"{fname}: cmr", variants)
        F["cmr"] = {}
        for v, mm in a.items():
            bs = [x.strip() for x in mm.group(2).split(",") if x.strip()]
            if len(bs) != 32 or not all(re.fullmatch(r"0x[0-9a-fA-F]{2}", b) for b in bs):
                raise TranslateError(f"{fname}: cmr of {v}: not 32 bytes")
            F["cmr"][v] = int("".join(b[2:] for b in bs), 16)
    # source / target type names
    for fld, fn in (("src", "source_ty"), ("tgt", "target_ty")):
        b = fn_body(fn, r"\(&self\)\s*->\s*TypeName")
        mb = body_after(b, r"let name: &'static \[u8\] = match self\s*\{", f"{fname}: {fn} match")
        rest = b[b.index(mb) + len(mb):]
        if not re.fullmatch(r"\s*\}\s*;\s*TypeName\(name\)\s*", rest):
            raise TranslateError(f"{fname}: {fn}: tail not understood")
        a = arms(mb, enum, r'b"([^"\\]*)"', f"{fname}: {fn}", variants)
        F[fld] = {v: mm.group(2) for v, mm in a.items()}
        for v, t in F[fld].items():
            if not re.fullmatch(r"[\x21-\x7e]*", t):
                raise TranslateError(f"{fname}: {fn} of {v}: non-printable byte")
    # encode
    b = fn_body("encode", r"\(&self, w: &mut BitWriter<&mut dyn Write>\)\s*->\s*std::io::Result<usize>")
    mb = body_after(b, r"let \(n, len\) = match self\s*\{", f"{fname}: encode match")
    rest = b[b.index(mb) + len(mb):]
    if not re.fullmatch(r"\s*\}\s*;\s*w\.write_bits_be\(n, len\)\s*", rest):
        raise TranslateError(f"{fname}: encode: tail not understood (expected w.write_bits_be(n, len))")
    a = arms(mb, enum, r"\(\s*([0-9_]+)\s*,\s*([0-9_]+)\s*\)", f"{fname}: encode", variants)
    F["enc"] = {v: (int(mm.group(2).replace("_", "")), int(mm.group(3).replace("_", ""))) for v, mm in a.items()}
    for v, (n, ln) in F["enc"].items():
        if ln > 64:
            raise TranslateError(f"{fname}: encode of {v}: length {ln} exceeds the u64 of write_bits_be")
    # decode
    b = fn_body("decode", r"<I: Iterator<Item = u8>>\(bits: &mut BitIter<I>\)\s*->\s*Result<Self, decode::Error>\s*where\s+Self: Sized")
    m = re.fullmatch(r"\s*decode_bits!\(bits,\s*(\{.*\})\s*\)\s*", b, re.S)
    if not m:
        raise TranslateError(f"{fname}: decode is not a single decode_bits!(bits, {{…}}) invocation")
    F["trie"] = parse_trie(m.group(1), enum, index, f"{fname}: decode")
    # cost
    b = fn_body("cost", r"\(&self\)\s*->\s*Cost")
    if "unimplemented!" in b:
        if re.sub(r'unimplemented!\("[^"]*"\)', "", b).strip():
            raise TranslateError(f"{fname}: cost: unimplemented! mixed with other code")
        F["cost"] = None
    else:
        mb = body_after(b, r"match self\s*\{", f"{fname}: cost match")
        if b[b.index(mb) + len(mb):].strip() != "}" or b[:b.index("match self")].strip():
            raise TranslateError(f"{fname}: cost: text around the match not understood")
        a = arms(mb, enum, r"Cost::from_milliweight\(\s*([0-9_]+)\s*\)", f"{fname}: cost", variants)
        F["cost"] = {v: int(mm.group(2).replace("_", "")) for v, mm in a.items()}
    # parse = FromStr
    b = fn_body("parse", r"\(s: &str\)\s*->\s*Result<Self, crate::Error>\s*where\s+Self: Sized")
    if b.strip() != "str::FromStr::from_str(s)":
        raise TranslateError(f"{fname}: parse is no longer str::FromStr::from_str(s)")
    # Display
    d = body_after(s, r"impl fmt::Display for %s\s*\{" % enum, f"{fname}: impl Display")
    db = body_after(d, r"fn fmt\(&self, f: &mut fmt::Formatter\)\s*->\s*fmt::Result\s*\{", f"{fname}: Display::fmt")
    mb = body_after(db, r"match self\s*\{", f"{fname}: Display match")
    if db[db.index(mb) + len(mb):].strip() != "}" or db[:db.index("match self")].strip():
        raise TranslateError(f"{fname}: Display: text around the match not understood")
    a = arms(mb, enum, r'f\.write_str\("([^"\\]*)"\)', f"{fname}: Display", variants)
    F["name"] = {v: mm.group(2) for v, mm in a.items()}
    for v, t in F["name"].items():
        if not re.fullmatch(r"[\x21-\x7e]+", t) or len(t) > 120:
            raise TranslateError(f"{fname}: Display of {v}: name {t!r} not understood")
    # FromStr: arms in source order (the first matching arm wins)
    fs = body_after(s, r"impl str::FromStr for %s\s*\{" % enum, f"{fname}: impl FromStr")
    fb = body_after(fs, r"fn from_str\(s: &str\)\s*->\s*Result<Self, Self::Err>\s*\{", f"{fname}: from_str")
    mb = body_after(fb, r"match s\s*\{", f"{fname}: from_str match")
    if fb[fb.index(mb) + len(mb):].strip() != "}" or fb[:fb.index("match s")].strip():
        raise TranslateError(f"{fname}: from_str: text around the match not understood")
    pos = 0
    parse_arms = []
    rx = re.compile(r'\s*"([^"\\]*)"\s*=>\s*Ok\(%s::(\w+)\)\s*,' % enum)
    while True:
        mm = rx.match(mb, pos)
        if not mm:
            break
        if mm.group(2) not in index:
            raise TranslateError(f"{fname}: from_str: unknown variant {mm.group(2)}")
        parse_arms.append((mm.group(1), index[mm.group(2)]))
        pos = mm.end()
    if not re.fullmatch(r"\s*x\s*=>\s*Err\(crate::Error::InvalidJetName\(x\.to_owned\(\)\)\)\s*,?\s*", mb[pos:]):
        raise TranslateError(f"{fname}: from_str: not understood near {mb[pos:].strip()[:70]!r}")
    F["parse"] = parse_arms
    # c_jet_ptr
    m = re.search(r"pub\(crate\) fn c_jet_ptr\(jet: &%s\)\s*->\s*fn\(&mut CFrameItem, CFrameItem, &(\w+|\(\))\)\s*->\s*bool\s*\{" % enum, s)
    if not m:
        raise TranslateError(f"{fname}: c_jet_ptr not found")
    cb = s[m.end():match_brace(s, m.end() - 1) - 1]
    if "unimplemented!" in cb:
        if re.sub(r'unimplemented!\("[^"]*"\)', "", cb).strip():
            raise TranslateError(f"{fname}: c_jet_ptr: unimplemented! mixed with other code")
        F["cptr"] = None
    else:
        mb = body_after(cb, r"match jet\s*\{", f"{fname}: c_jet_ptr match")
        if cb[cb.index(mb) + len(mb):].strip() != "}" or cb[:cb.index("match jet")].strip():
            raise TranslateError(f"{fname}: c_jet_ptr: text around the match not understood")
        a = arms(mb, enum, r"simplicity_sys::c_jets::jets_wrapper::(\w+)", f"{fname}: c_jet_ptr", variants)
        F["cptr"] = {v: mm.group(2) for v, mm in a.items()}
    return F


def bits_be(n, ln):
    return [(n >> (ln - 1 - i)) & 1 for i in range(ln)]


def lean_str(s):
    return '"' + s.replace("\\", "\\\\").replace('"', '\\"') + '"'


def lean_bits(bs):
    return "[" + ", ".join("true" if b else "false" for b in bs) + "]"


def family_lean(F, ns):
    vs = F["variants"]
    o = []
    o.append(f"/- GENERATED by tools/translate_jets.py from /repo/{F['file']}.  Do not edit: rewritten on every run of ./check.")
    o.append(f"   {len(vs)} jets in the declaration order of `enum {F['enum']}` (= `{F['enum']}::ALL`). -/")
    o.append("import SimplicityModel.JetTable")
    o.append(f"namespace Gen.{ns}")
    o.append("")
    o.append(f"/-- `cmr()` is implemented (not `unimplemented!`) -/\ndef cmrImplemented : Bool := {'true' if F['cmr'] is not None else 'false'}")
    o.append(f"/-- `cost()` is implemented -/\ndef costImplemented : Bool := {'true' if F['cost'] is not None else 'false'}")
    o.append(f"/-- `c_jet_ptr` is implemented -/\ndef cptrImplemented : Bool := {'true' if F['cptr'] is not None else 'false'}")
    o.append("")
    o.append("/-- name (Display), code (the bits `encode` writes), cmr (big-endian 256-bit natural; 0 = unimplemented),")
    o.append("    source and target type names, cost in milliweight (0 = unimplemented) -/")
    o.append("def rows : List JetRow := [")
    rl = []
    for v in vs:
        n, ln = F["enc"][v]
        cmr = F["cmr"][v] if F["cmr"] is not None else 0
        cost = F["cost"][v] if F["cost"] is not None else 0
        rl.append(f"  ⟨{lean_str(F['name'][v])}, {lean_bits(bits_be(n, ln))}, 0x{cmr:064x}, {lean_str(F['src'][v])}, {lean_str(F['tgt'][v])}, {cost}⟩")
    o.append(",\n".join(rl))
    o.append("]")
    o.append("")
    o.append("/-- the enum's variant identifiers -/")
    o.append("def variants : List String := [" + ", ".join(lean_str(v) for v in vs) + "]")
    o.append("")
    o.append("/-- byte keys (`JetTable.keyOfBytes`) of name, source type name, target type name: what the kernel computes with -/")
    o.append("def keys : List (Nat × Nat × Nat) := [")
    o.append(",\n".join(f"  ({key(F['name'][v])}, {key(F['src'][v])}, {key(F['tgt'][v])})" for v in vs))
    o.append("]")
    o.append("")
    o.append("/-- the arms `(n, len)` of `encode` as written in the source -/")
    o.append("def enc : List (Nat × Nat) := [" + ", ".join(f"({F['enc'][v][0]}, {F['enc'][v][1]})" for v in vs) + "]")
    o.append("")
    o.append("/-- the arms of `FromStr::from_str` in source order: key of the string, index of the variant -/")
    o.append("def parseArms : List (Nat × Nat) := [" + ", ".join(f"({key(s)}, {i})" for s, i in F["parse"]) + "]")
    o.append("/-- the same strings, for the driver -/")
    o.append("def parseNames : List String := [" + ", ".join(lean_str(s) for s, _ in F["parse"]) + "]")
    o.append("")
    if F["cptr"] is not None:
        o.append("/-- `c_jet_ptr`: key of the `jets_wrapper` function each variant is bound to -/")
        o.append("def cptr : List Nat := [" + ", ".join(str(key(F["cptr"][v])) for v in vs) + "]")
        o.append("")
    o.append("/-- the nested `decode_bits!` invocation of `decode` -/")
    o.append("def trie : JetTrie :=\n  " + lean_trie(F["trie"], 3))
    o.append("")
    o.append("def family : JetTable.Family := ⟨rows, keys, enc, parseArms, trie⟩")
    o.append(f"end Gen.{ns}")
    return "\n".join(o) + "\n"


# ---------------------------------------------------------------- C side

def c_types():
    et = strip_comments(read(os.path.join(CDIR, "elements", "primitiveEnumTy.inc")))
    names = []
    nxt = 0
    for line in (x.strip() for x in et.split(",") if x.strip()):
        m = re.fullmatch(r"(ty_\w+)(?:\s*=\s*(\d+))?", line)
        if not m or (m.group(2) is not None and int(m.group(2)) != nxt) or m.group(1) in names:
            raise TranslateError(f"primitiveEnumTy.inc: entry {line!r} not understood (values must count up from 0)")
        names.append(m.group(1))
        nxt += 1
    it = strip_comments(read(os.path.join(CDIR, "elements", "primitiveInitTy.inc")))
    defs = {}
    rx = re.compile(r"\s*\(\*bound_var\)\[(ty_\w+)\]\s*=\s*\(unification_var\)\{\s*\.isBound\s*=\s*true\s*,\s*\.bound\s*=\s*\{\s*\.kind\s*=\s*(ONE|SUM|PRODUCT)\s*"
                    r"(?:,\s*\.arg\s*=\s*\{\s*&\(\*bound_var\)\[(ty_\w+)\]\s*,\s*&\(\*bound_var\)\[(ty_\w+)\]\s*\}\s*)?\}\s*\}\s*;")
    pos = 0
    while True:
        m = rx.match(it, pos)
        if not m:
            break
        n, kind, a, b = m.groups()
        if n in defs:
            raise TranslateError(f"primitiveInitTy.inc: {n} bound twice")
        if (kind == "ONE") != (a is None):
            raise TranslateError(f"primitiveInitTy.inc: {n}: arguments do not fit kind {kind}")
        defs[n] = (kind, a, b)
        pos = m.end()
    if it[pos:].strip():
        raise TranslateError(f"primitiveInitTy.inc: not understood near {it[pos:].strip()[:70]!r}")
    if set(defs) != set(names):
        raise TranslateError("primitiveInitTy.inc does not bind exactly the names of primitiveEnumTy.inc")
    # structural form, interned: id -> ('1',) | ('+', id, id) | ('*', id, id); equal ids <=> equal types
    table, nodes = {}, []

    def intern(node):
        if node not in table:
            table[node] = len(nodes)
            nodes.append(node)
        return table[node]

    cache = {}

    def struct(n, seen=()):
        if n in seen:
            raise TranslateError(f"primitiveInitTy.inc: {n} refers to itself")
        if n not in cache:
            k, a, b = defs[n]
            cache[n] = intern(("1",)) if k == "ONE" else intern(("+" if k == "SUM" else "*", struct(a, seen + (n,)), struct(b, seen + (n,))))
        return cache[n]

    unit = intern(("1",))
    w = intern(("+", unit, unit))
    LET = {}
    for i in range(0, 9):
        if i in (0, 3, 4, 5, 6, 8):
            LET[w] = "2csilh"[(0, 3, 4, 5, 6, 8).index(i)]
        w = intern(("*", w, w))
    memo = {}

    def name_of(t):
        """type-name spelling: the letter of type_name.rs where the subtree is that word, else prefix notation"""
        if t not in memo:
            if t in LET:
                memo[t] = LET[t]
            elif nodes[t][0] == "1":
                memo[t] = "1"
            else:
                memo[t] = nodes[t][0] + name_of(nodes[t][1]) + name_of(nodes[t][2])
            if len(memo[t]) > 4000:
                raise TranslateError("a jet's C type has a type name longer than 4000 letters")
        return memo[t]

    return names, defs, {n: struct(n) for n in names}, name_of


def c_decode_tree(path, what):
    """nested `switch (code)` of decode*Jets.inc  ->  {ENUM_NAME: (k1, k2, …)}"""
    s = strip_comments(read(path))
    pos = [0]

    def ws():
        while pos[0] < len(s) and s[pos[0]].isspace():
            pos[0] += 1

    def eat(rx_, err):
        ws()
        m = re.compile(rx_).match(s, pos[0])
        if not m:
            raise TranslateError(f"{what}: expected {err} near {s[pos[0]:pos[0] + 50]!r}")
        pos[0] = m.end()
        return m

    out = {}

    def switch(prefix):
        eat(r"code\s*=\s*rustsimplicity_0_7_decodeUptoMaxInt\(stream\)\s*;", "code = decodeUptoMaxInt(stream);")
        eat(r"if\s*\(code\s*<\s*0\)\s*return\s*\(simplicity_err\)code\s*;", "the error return")
        eat(r"switch\s*\(code\)\s*\{", "switch (code) {")
        seen = set()
        while True:
            ws()
            if s.startswith("}", pos[0]):
                pos[0] += 1
                return
            m = eat(r"case\s+(\d+)\s*:", "case N:")
            k = int(m.group(1))
            if k in seen or k < 1:
                raise TranslateError(f"{what}: case {k} repeated or not positive")
            seen.add(k)
            ws()
            lm = re.compile(r"\*result\s*=\s*(\w+)\s*;\s*return\s+SIMPLICITY_NO_ERROR\s*;").match(s, pos[0])
            if lm:
                pos[0] = lm.end()
                if lm.group(1) in out:
                    raise TranslateError(f"{what}: {lm.group(1)} decoded at two places")
                out[lm.group(1)] = prefix + (k,)
            else:
                switch(prefix + (k,))
                eat(r"break\s*;", "break;")

    eat(r"\{", "{")
    eat(r"int32_t\s+code\s*;", "int32_t code;")
    switch(())
    eat(r"\}", "}")
    ws()
    if pos[0] != len(s):
        raise TranslateError(f"{what}: trailing text")
    return out


def c_side():
    ej = strip_comments(read(os.path.join(CDIR, "elements", "primitiveEnumJet.inc")))
    enum = [x.strip() for x in ej.split(",") if x.strip()]
    if not all(re.fullmatch(r"[A-Z][A-Z0-9_]*", e) for e in enum) or len(set(enum)) != len(enum):
        raise TranslateError("primitiveEnumJet.inc: entries not understood")
    tynames, tydefs, tystruct, name_of = c_types()
    jn = strip_comments(read(os.path.join(CDIR, "elements", "primitiveJetNode.inc")))
    rx = re.compile(r"\s*,?\s*\[(\w+)\]\s*=\s*\{\s*\.tag\s*=\s*JET\s*,\s*\.jet\s*=\s*(\w+)\s*,\s*\.cmr\s*=\s*\{\{([^}]*)\}\}\s*,\s*\.sourceIx\s*=\s*(\w+)\s*,"
                    r"\s*\.targetIx\s*=\s*(\w+)\s*,\s*\.cost\s*=\s*(\d+)\s*\}")
    rows = {}
    pos = 0
    while True:
        m = rx.match(jn, pos)
        if not m:
            break
        name, jet, cmr, si, ti, cost = m.groups()
        if name in rows:
            raise TranslateError(f"primitiveJetNode.inc: [{name}] initialised twice")
        ws_ = [w.strip() for w in cmr.split(",") if w.strip()]
        if len(ws_) != 8 or not all(re.fullmatch(r"0x[0-9a-fA-F]{8}u", w) for w in ws_):
            raise TranslateError(f"primitiveJetNode.inc: cmr of {name} is not eight 32-bit words")
        if si not in tystruct or ti not in tystruct:
            raise TranslateError(f"primitiveJetNode.inc: type index of {name} not in primitiveEnumTy.inc")
        if not jet.startswith(PFX):
            raise TranslateError(f"primitiveJetNode.inc: .jet of {name} lacks the {PFX} prefix")
        rows[name] = dict(jet=jet[len(PFX):], cmr=int("".join(w[2:10] for w in ws_), 16), src=si, tgt=ti, cost=int(cost))
        pos = m.end()
    if jn[pos:].strip():
        raise TranslateError(f"primitiveJetNode.inc: not understood near {jn[pos:].strip()[:70]!r}")
    if set(rows) != set(enum):
        raise TranslateError(f"primitiveJetNode.inc does not initialise exactly the names of primitiveEnumJet.inc: {sorted(set(rows) ^ set(enum))[:5]}")
    core = c_decode_tree(os.path.join(CDIR, "decodeCoreJets.inc"), "decodeCoreJets.inc")
    elem = c_decode_tree(os.path.join(CDIR, "elements", "decodeElementsJets.inc"), "decodeElementsJets.inc")
    if set(core) & set(elem):
        raise TranslateError("a jet is decoded by both decodeCoreJets.inc and decodeElementsJets.inc")
    if set(core) | set(elem) != set(enum):
        raise TranslateError(f"the decode trees do not reach exactly the names of primitiveEnumJet.inc: {sorted((set(core) | set(elem)) ^ set(enum))[:5]}")
    prim = strip_comments(read(os.path.join(CDIR, "elements", "primitive.c")))
    m = re.search(r"static simplicity_err decodePrimitive\(jetName\* result, bitstream\* stream\)\s*\{", prim)
    if not m:
        raise TranslateError("primitive.c: decodePrimitive not found")
    body = prim[m.end():match_brace(prim, m.end() - 1) - 1]
    if not re.fullmatch(r"\s*int32_t bit = read1Bit\(stream\);\s*if \(bit < 0\) return \(simplicity_err\)bit;\s*if \(!bit\) \{\s*#include \"\.\./decodeCoreJets\.inc\"\s*"
                        r"return SIMPLICITY_ERR_DATA_OUT_OF_RANGE;\s*\} else \{\s*#include \"decodeElementsJets\.inc\"\s*return SIMPLICITY_ERR_DATA_OUT_OF_RANGE;\s*\}\s*", body):
        raise TranslateError("primitive.c: decodePrimitive no longer reads one family bit (0 = core tree, 1 = elements tree)")
    paths = {n: (0, core[n]) for n in core}
    paths.update({n: (1, elem[n]) for n in elem})
    return enum, rows, tynames, tydefs, tystruct, name_of, paths


def binding_chain(E):
    """per Elements variant: c_jet_ptr target, the elements_ffi function that wrapper calls, its link_name"""
    sysd = os.path.join(REPO, "simplicity-sys")
    jw = strip_comments(read(os.path.join(sysd, "src", "c_jets", "jets_wrapper.rs")))
    wr = {}
    pos = 0
    hdr = re.match(r"\s*use crate::\{CElementsTxEnv, CFrameItem\};\s*use super::elements_ffi;", jw)
    if not hdr:
        raise TranslateError("jets_wrapper.rs: header not understood")
    pos = hdr.end()
    rx = re.compile(r"\s*pub fn (\w+)(<T>)?\(dst: &mut CFrameItem, src: CFrameItem, (_?env): &(T|CElementsTxEnv)\)\s*->\s*bool\s*\{\s*"
                    r"unsafe\s*\{\s*elements_ffi::(\w+)\(dst, &src, (std::ptr::null\(\)|env)\)\s*\}\s*\}")
    while True:
        m = rx.match(jw, pos)
        if not m:
            break
        if m.group(1) in wr:
            raise TranslateError(f"jets_wrapper.rs: {m.group(1)} defined twice")
        generic = m.group(2) is not None
        if generic != (m.group(6) == "std::ptr::null()") or generic != (m.group(4) == "T"):
            raise TranslateError(f"jets_wrapper.rs: {m.group(1)}: environment handling not understood")
        wr[m.group(1)] = m.group(5)
        pos = m.end()
    if jw[pos:].strip():
        raise TranslateError(f"jets_wrapper.rs: not understood near {jw[pos:].strip()[:70]!r}")
    jf = strip_comments(read(os.path.join(sysd, "src", "c_jets", "jets_ffi.rs")))
    ffi = {}
    for m in re.finditer(r'#\[link_name = "(\w+)"\]\s*pub fn (\w+)\(', jf):
        if m.group(2) in ffi:
            raise TranslateError(f"jets_ffi.rs: {m.group(2)} declared twice")
        ffi[m.group(2)] = m.group(1)
    jc = strip_comments(read(os.path.join(sysd, "depend", "jets_wrapper.c")))
    wraps = re.findall(r"^WRAP_\((\w+)\)\s*$", jc, re.M)
    if len(set(wraps)) != len(wraps):
        raise TranslateError("jets_wrapper.c: a jet is wrapped twice")
    chain = {}
    for v in E["variants"]:
        w = E["cptr"][v]
        f = wr.get(w)
        ln = ffi.get(f) if f else None
        x = ln[len(PFX + "c_"):] if ln and ln.startswith(PFX + "c_") else None
        chain[v] = dict(wrapper=w, ffi=f or "", link=ln or "", wrapped=x if x in wraps else "", x=x or "")
    return chain, wraps


def c_lean(E, C):
    enum, rows, tynames, tydefs, tystruct, name_of, paths = C
    chain, wraps = binding_chain(E)
    o = []
    o.append("/- GENERATED by tools/translate_jets.py from simplicity-sys/depend/simplicity/elements/primitive{EnumJet,JetNode,EnumTy,InitTy}.inc,")
    o.append("   decodeElementsJets.inc, ../decodeCoreJets.inc, primitive.c (decodePrimitive) and, for the binding chain,")
    o.append("   src/jet/init/elements.rs (c_jet_ptr), simplicity-sys/src/c_jets/jets_{wrapper,ffi}.rs, depend/jets_wrapper.c.")
    o.append(f"   Do not edit: rewritten on every run of ./check.  {len(enum)} jets in the order of `enum jetName` (primitiveEnumJet.inc). -/")
    o.append("import SimplicityModel.JetTable")
    o.append("namespace Gen.C")
    o.append("")
    o.append("/-- name = the C function behind `.jet` without the `rustsimplicity_0_7_` prefix; code = [] (see `paths`);")
    o.append("    cmr; source/target type: the C type (`sourceIx`/`targetIx` resolved through primitiveInitTy.inc) spelt as a")
    o.append("    type name with the letters of type_name.rs; cost in milliweight -/")
    o.append("def rows : List JetRow := [")
    o.append(",\n".join(f"  ⟨{lean_str(rows[e]['jet'])}, [], 0x{rows[e]['cmr']:064x}, {lean_str(name_of(tystruct[rows[e]['src']]))}, "
                        f"{lean_str(name_of(tystruct[rows[e]['tgt']]))}, {rows[e]['cost']}⟩" for e in enum))
    o.append("]")
    o.append("")
    o.append("/-- the names of `enum jetName` -/")
    o.append("def enumNames : List String := [" + ", ".join(lean_str(e) for e in enum) + "]")
    o.append("")
    o.append("/-- byte keys of (name, source type name, target type name, enum name lower-cased) -/")
    o.append("def keys : List (Nat × Nat × Nat × Nat) := [")
    o.append(",\n".join(f"  ({key(rows[e]['jet'])}, {key(name_of(tystruct[rows[e]['src']]))}, {key(name_of(tystruct[rows[e]['tgt']]))}, {key(e.lower())})" for e in enum))
    o.append("]")
    o.append("")
    o.append("/-- decodePrimitive: family bit (false = decodeCoreJets.inc, true = decodeElementsJets.inc) and the naturals")
    o.append("    read by the nested `decodeUptoMaxInt` switches on the way to each jet -/")
    o.append("def paths : List (Bool × List Nat) := [")
    o.append(",\n".join(f"  ({'true' if paths[e][0] else 'false'}, [{', '.join(map(str, paths[e][1]))}])" for e in enum))
    o.append("]")
    o.append("")
    o.append("/-- binding chain per Elements variant (order of Gen.Elements.rows): keys of the `jets_wrapper` function")
    o.append("    `c_jet_ptr` returns, the `elements_ffi` function that wrapper calls, the jet name inside its `link_name`")
    o.append("    (`rustsimplicity_0_7_c_<x>`), and `<x>` again when jets_wrapper.c has `WRAP_(<x>)` (else the key of \"\") -/")
    o.append("def chain : List (Nat × Nat × Nat × Nat) := [")
    o.append(",\n".join(f"  ({key(chain[v]['wrapper'])}, {key(chain[v]['ffi'])}, {key(chain[v]['x'])}, {key(chain[v]['wrapped'])})" for v in E["variants"]))
    o.append("]")
    o.append(f"def wrapCount : Nat := {len(wraps)}")
    o.append("end Gen.C")
    return "\n".join(o) + "\n", chain


def write(path, text):
    old = open(path).read() if os.path.exists(path) else None
    if old != text:
        os.makedirs(os.path.dirname(path), exist_ok=True)
        open(path, "w").write(text)
        return True
    return False


def main():
    try:
        core = rust_family("core.rs", "Core")
        elements = rust_family("elements.rs", "Elements")
        bitcoin = rust_family("bitcoin.rs", "Bitcoin")
        C = c_side()
        ctext, chain = c_lean(elements, C)
    except TranslateError as e:
        print(f"TRANSLATE-ERROR jets: {e}")
        sys.exit(3)
    if "--rows" in sys.argv:
        enum, rows = C[0], C[1]
        cjets = {rows[e]["jet"] for e in enum}
        for v in elements["variants"]:
            c, name = chain[v], elements["name"][v]
            if not (c["wrapper"] == name and c["ffi"] == name and c["x"] == name and c["wrapped"] == name and name in cjets):
                print(f"chain\t{name}\tc_jet_ptr={c['wrapper']} wrapper-calls={c['ffi']} link_name={c['link']} WRAP_={c['wrapped'] or '(none)'} c-table={'yes' if name in cjets else 'no'}")
        return
    ch = []
    for F, ns in ((core, "Core"), (elements, "Elements"), (bitcoin, "Bitcoin")):
        if write(os.path.join(GEN, f"Jets{ns}.lean"), family_lean(F, ns)):
            ch.append(ns)
    if write(os.path.join(GEN, "JetsC.lean"), ctext):
        ch.append("C")
    print(f"jets: core {len(core['variants'])} elements {len(elements['variants'])} bitcoin {len(bitcoin['variants'])} C {len(C[0])}; " +
          ("regenerated (changed): " + " ".join(ch) if ch else "unchanged"))


if __name__ == "__main__":
    main()
