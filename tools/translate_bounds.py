#!/usr/bin/env python3
"""Translator: the static resource bounds of /repo — `impl NodeBounds` of src/analysis.rs (one
constructor per combinator: extra cells, extra frames, cost) and the call sites in
`RedeemData::new` of src/node/redeem.rs (which widths each constructor is given) ->
lean/SimplicityModel/Gen/Bounds.lean.

Regenerated on every run.  `SimplicityModel/BoundsTie.lean` proves that the hand-written
`extraCells` / `extraFrames` of the machine model (what C07's theorems are about) and the cost
column of `Prog.annotNode` (C01/C03) are exactly these functions at these arguments, so a
change of a formula in the source breaks a named theorem.  A construct that is no longer
understood is an error (exit 3), never skipped."""
import os, re, sys

REPO = os.environ.get("VERIF_REPO", "/repo")
OUT = os.path.join(os.path.dirname(os.path.abspath(__file__)), "..", "lean", "SimplicityModel", "Gen", "Bounds.lean")
FIELDS = ["extra_cells", "extra_frames", "cost"]


class TranslateError(Exception):
    pass


def block_after(text, start):
    """text[start] is '{' (or '('): return the index just past its matching closer"""
    o = text[start]
    c = {"{": "}", "(": ")"}[o]
    depth = 0
    for i in range(start, len(text)):
        if text[i] == o:
            depth += 1
        elif text[i] == c:
            depth -= 1
            if depth == 0:
                return i + 1
    raise TranslateError("unbalanced brackets")


def strip_comments(s):
    return re.sub(r"//[^\n]*", "", s)


def split_top(s, sep):
    """split at top-level occurrences of the one-character separator"""
    out, depth, cur = [], 0, ""
    for ch in s:
        if ch in "({[":
            depth += 1
        elif ch in ")}]":
            depth -= 1
        if ch == sep and depth == 0:
            out.append(cur)
            cur = ""
        else:
            cur += ch
    out.append(cur)
    return [x.strip() for x in out if x.strip()]


def atom(e, cost, names):
    """one summand of a field expression"""
    e = e.strip()
    if re.fullmatch(r"[0-9_]+", e):
        return e.replace("_", "")
    m = re.fullmatch(r"cmp::max\((.*)\)", e, re.S)
    if m:
        a = split_top(m.group(1), ",")
        if len(a) != 2:
            raise TranslateError(f"cmp::max with {len(a)} arguments: {e!r}")
        return f"(max {expr(a[0], cost, names)} {expr(a[1], cost, names)})"
    if e == "Cost::OVERHEAD":
        return "Gen.Consts.OVERHEAD"
    if e == "Cost::NEVER_EXECUTED":
        return "Gen.Consts.NEVER_EXECUTED"
    m = re.fullmatch(r"Cost::of_type\((.*)\)", e, re.S)
    if m:
        return f"(ofType {expr(m.group(1), False, names)})"
    if e == "jet.cost()" and "jet" in names:
        return "jet_cost"
    if e == "word.len()" and "word" in names:
        return "word_len"
    m = re.fullmatch(r"([a-z_]+)\.(extra_cells|extra_frames|cost)", e)
    if m and m.group(1) in names:
        return f"{m.group(1)}.{m.group(2)}"
    if re.fullmatch(r"[a-z_]+", e) and e in names:
        return e
    raise TranslateError(f"expression not understood: {e!r}")


def expr(e, cost, names):
    """`a + b + c` — `Cost + Cost` saturates at u32::MAX, `usize + usize` is plain"""
    parts = split_top(e, "+")
    if any("-" in re.sub(r"cmp::max\(.*\)", "", p) for p in parts) or "*" in e or "/" in e:
        raise TranslateError(f"operator other than + in a bound: {e!r}")
    terms = [atom(p, cost, names) for p in parts]
    acc = terms[0]
    for t in terms[1:]:
        acc = f"(satAdd {acc} {t})" if cost else f"({acc} + {t})"
    return acc


def struct_literal(body, names):
    m = re.fullmatch(r"NodeBounds\s*\{(.*)\}", body.strip(), re.S)
    if not m:
        return None
    fields = {}
    for f in split_top(m.group(1), ","):
        k, _, v = f.partition(":")
        fields[k.strip()] = v.strip()
    if sorted(fields) != sorted(FIELDS):
        raise TranslateError(f"NodeBounds literal with fields {sorted(fields)}")
    return "⟨" + ", ".join(expr(fields[k], k == "cost", names) for k in FIELDS) + "⟩"


def params(sig):
    """Rust parameter list -> (Lean binders, names)"""
    binders, names = [], []
    for p in split_top(sig, ","):
        name, _, ty = p.partition(":")
        name, ty = name.strip(), ty.strip()
        if ty == "Self":
            binders.append(f"({name} : NB)")
        elif ty == "usize":
            binders.append(f"({name} : Nat)")
        elif ty == "&dyn Jet" and name == "jet":
            binders.append("(jet_cost : Nat)")
        elif ty == "&Word" and name == "word":
            binders.append("(word_len : Nat)")
        else:
            raise TranslateError(f"parameter not understood: {p!r}")
        names.append(name)
    return binders, names


def translate_impl(a):
    m = re.search(r"impl NodeBounds \{", a)
    if not m:
        raise TranslateError("cannot find `impl NodeBounds`")
    end = block_after(a, m.end() - 1)
    body = strip_comments(a[m.end():end - 1])
    out, fns = [], {}
    for cm in re.finditer(r"const ([A-Z_]+): Self = (NodeBounds\s*\{.*?\});", body, re.S):
        lit = struct_literal(cm.group(2), [])
        out.append(f"def {cm.group(1)} : NB := {lit}")
        fns[cm.group(1)] = []
    pos = 0
    while True:
        fm = re.search(r"(?:pub\s+)?(?:const\s+)?fn ([a-z_]+)\s*\(", body[pos:])
        if not fm:
            break
        name = fm.group(1)
        ps = pos + fm.end() - 1
        pe = block_after(body, ps)
        sig = body[ps + 1:pe - 1]
        rest = body[pe:]
        rm = re.match(r"\s*->\s*(NodeBounds|Self)\s*\{", rest)
        if not rm:
            raise TranslateError(f"fn {name}: return type not understood")
        bs = pe + rm.end() - 1
        be = block_after(body, bs)
        fbody = body[bs + 1:be - 1].strip()
        binders, names = params(sig)
        lit = struct_literal(fbody, names)
        if lit is None:
            cm = re.fullmatch(r"Self::from_child\(([a-z_]+)\)", fbody)
            km = re.fullmatch(r"NodeBounds::([A-Z_]+)", fbody)
            if cm and cm.group(1) in names:
                lit = f"from_child {cm.group(1)}"
            elif km and km.group(1) in fns:
                lit = km.group(1)
            else:
                raise TranslateError(f"fn {name}: body not understood: {fbody!r}")
        lname = {"drop": "drop_", "unit": "unit_"}.get(name, name)
        out.append(f"def {lname} {' '.join(binders)} : NB := {lit}".replace("  :", " :"))
        fns[name] = names
        pos = be
    want = ["from_child", "iden", "unit", "injl", "injr", "take", "drop", "comp", "case", "assertl", "assertr", "pair", "disconnect", "witness", "jet", "const_word", "fail"]
    missing = [w for w in want if w not in fns]
    if missing:
        raise TranslateError(f"constructors of NodeBounds not found: {missing}")
    return out, fns


def width(e, kids):
    """`left.arrow.target.bit_width()` / `arrow.source.bit_width()` (and differences of such)"""
    e = e.strip()
    parts = split_top(e, "-")
    if len(parts) == 2:
        return f"({width(parts[0], kids)} - {width(parts[1], kids)})"
    m = re.fullmatch(r"(?:([a-z_]+)\.)?arrow\.(source|target)\.bit_width\(\)", e)
    if m and (m.group(1) is None or m.group(1) in kids):
        who = (m.group(1) + "_arrow") if m.group(1) else "arrow"
        return f"{who}.{m.group(2)}"
    raise TranslateError(f"call-site argument not understood: {e!r}")


def translate_sites(r, fns):
    m = re.search(r"impl RedeemData \{\s*pub fn new\(arrow: FinalArrow, inner: Inner<[^)]*>\) -> Self \{", r)
    if not m:
        raise TranslateError("cannot find RedeemData::new")
    end = block_after(r, m.end() - 1)
    body = strip_comments(r[m.end():end - 1])
    out, seen = [], []
    for am in re.finditer(r"Inner::([A-Za-z]+)(\(([^)]*)\))?\s*=>\s*\(", body):
        kind = am.group(1)
        binders = [b.strip().replace("ref ", "") for b in (am.group(3) or "").split(",") if b.strip()]
        ts = am.end() - 1
        te = block_after(body, ts)
        tup = split_top(body[ts + 1:te - 1], ",")
        if len(tup) != 3:
            raise TranslateError(f"arm {kind}: expected (amr, imr, bounds), found {len(tup)} components")
        cm = re.fullmatch(r"NodeBounds::([a-z_]+)\((.*)\)", tup[2].strip(), re.S)
        if not cm or cm.group(1) not in fns:
            raise TranslateError(f"arm {kind}: bounds expression not understood: {tup[2]!r}")
        fn, args = cm.group(1), split_top(cm.group(2), ",")
        if len(args) != len(fns[fn]):
            raise TranslateError(f"arm {kind}: {fn} called with {len(args)} arguments, defined with {len(fns[fn])}")
        kids = [b for b in binders if b in ("child", "left", "right")]
        largs, lb = [], ["(arrow : Arrow)"]
        for k in kids:
            lb.append(f"({k}_arrow : Arrow) ({k} : NB)")
        for a_ in args:
            a_ = a_.strip()
            bm = re.fullmatch(r"([a-z_]+)\.bounds", a_)
            if bm and bm.group(1) in kids:
                largs.append(bm.group(1))
            elif a_ == "jet.as_ref()" and "jet" in binders:
                lb.append("(jet_cost : Nat)")
                largs.append("jet_cost")
            elif a_ == "val" and "val" in binders:
                lb.append("(word_len : Nat)")
                largs.append("word_len")
            else:
                largs.append(width(a_, kids))
        lfn = {"drop": "drop_", "unit": "unit_"}.get(fn, fn)
        out.append(f"def site_{kind} {' '.join(lb)} : NB := {lfn} {' '.join(largs)}".rstrip())
        seen.append(kind)
    want = ["Iden", "Unit", "InjL", "InjR", "Take", "Drop", "Comp", "Case", "AssertL", "AssertR", "Pair", "Disconnect", "Witness", "Fail", "Jet", "Word"]
    if sorted(seen) != sorted(want):
        raise TranslateError(f"arms of RedeemData::new: found {sorted(seen)}")
    return out


def translate():
    a = open(os.path.join(REPO, "src/analysis.rs")).read()
    r = open(os.path.join(REPO, "src/node/redeem.rs")).read()
    if not re.search(r"impl std::ops::Add for Cost \{\s*type Output = Self;\s*fn add\(self, rhs: Self\) -> Self::Output \{\s*Cost\(self\.0\.saturating_add\(rhs\.0\)\)", a):
        raise TranslateError("`Cost + Cost` is no longer a saturating u32 addition")
    if not re.search(r"pub const fn of_type\(bit_width: usize\) -> Self \{[^}]*Cost\(bit_width as u32\)", a, re.S):
        raise TranslateError("Cost::of_type is no longer the bit width")
    if not re.search(r"pub struct Cost\(u32\);", a):
        raise TranslateError("Cost is no longer a u32 newtype")
    defs, fns = translate_impl(a)
    sites = translate_sites(r, fns)
    out = ["/- GENERATED by tools/translate_bounds.py from /repo/src/analysis.rs (`impl NodeBounds`) and",
           "   /repo/src/node/redeem.rs (`RedeemData::new`).  Do not edit: rewritten on every run of ./check. -/",
           "import SimplicityModel.Gen.Consts",
           "namespace Gen.Bounds",
           "structure NB where",
           "  extra_cells : Nat",
           "  extra_frames : Nat",
           "  cost : Nat",
           "deriving DecidableEq, Repr",
           "/-- bit widths of a node's source and target type -/",
           "structure Arrow where",
           "  source : Nat",
           "  target : Nat",
           "/-- `Cost + Cost`: `u32::saturating_add` -/",
           "def satAdd (a b : Nat) : Nat := min (a + b) 4294967295",
           "/-- `Cost::of_type` -/",
           "def ofType (bit_width : Nat) : Nat := bit_width",
           "/-! `impl NodeBounds` -/"] + defs + ["/-! the bounds component of each arm of `RedeemData::new` -/"] + sites + ["end Gen.Bounds", ""]
    return "\n".join(out)


def main():
    try:
        text = translate()
    except TranslateError as e:
        print(f"TRANSLATE-ERROR bounds: {e}")
        sys.exit(3)
    old = open(OUT).read() if os.path.exists(OUT) else None
    if old != text:
        open(OUT, "w").write(text)
        print(f"translate_bounds: wrote {os.path.relpath(OUT)}")
    else:
        print("translate_bounds: unchanged")


if __name__ == "__main__":
    main()
