#!/usr/bin/env python3
"""Translator (C14): every `extern "C"` function declared in simplicity-sys/src/**/*.rs and the C
function it links to (prototypes and definitions under simplicity-sys/depend, with the `WRAP_` macro
of wrapper.h expanded over jets_wrapper.c)  ->  lean/SimplicityModel/Gen/Externs.lean.

For both sides every parameter type is brought to one normal form in the C vocabulary:

    (pointer depth, base name, ABI class)

* Rust `*mut T`, `*const T`, `&mut T`, `&T` are pointers; C `T*`, `T *const`, `T x[]` are pointers.
  Constness of the pointee is NOT part of the normal form (differences are listed as notes).
* base names: typedefs/aliases are resolved on both sides down to a C standard name
  (`ubounded -> uint_least32_t`, `UWORD -> uint_fast16_t`, `flags_type -> unsigned char`, Rust
  `c_size_t -> size_t`, `c_uchar -> unsigned char`, `usize -> size_t`, `u8 -> unsigned char`,
  `i32 -> int32_t`, …).  Rust struct names are mapped by the convention documented at the top of
  simplicity-sys/src/tests/ffi.rs ("CamelCase, prefixed with C") plus the explicit aliases of
  `STRUCT_ALIASES` below.  Function-pointer typedefs are expanded structurally on both sides.
* ABI class: what the base name is on the reference target of this check (x86-64 Linux, LP64, glibc):
  `ABI_LP64` below.  Two different base names can have the same class (`size_t`/`uint_fast32_t`).

Nothing is skipped: a declaration, type or C prototype that is not understood is an error (exit 3)."""
import glob, os, re, sys

REPO = os.environ.get("VERIF_REPO", "/repo")
SYS = os.path.join(REPO, "simplicity-sys")
OUT = os.path.join(os.path.dirname(os.path.abspath(__file__)), "..", "lean", "SimplicityModel", "Gen", "Externs.lean")


class TranslateError(Exception):
    pass


# ---------------------------------------------------------------- vocabulary

# Rust primitive / alias  ->  C standard name (the crate's own convention: `c_<name>` is C's `<name>`)
RUST_PRIM = {
    "bool": "bool", "u8": "unsigned char", "i32": "int32_t", "u32": "uint32_t", "u64": "uint64_t",
    "i64": "int64_t", "u16": "uint16_t", "usize": "size_t", "isize": "ptrdiff_t",
    "c_void": "void", "c_uchar": "unsigned char", "c_int": "int", "c_uint": "unsigned int", "c_size_t": "size_t",
    "c_uint_fast8_t": "uint_fast8_t", "c_uint_fast16_t": "uint_fast16_t", "c_uint_fast32_t": "uint_fast32_t",
    "c_uint_fast64_t": "uint_fast64_t", "c_uint_least32_t": "uint_least32_t",
}
# Rust type name -> C typedef name where the CamelCase rule does not apply
STRUCT_ALIASES = {
    "SimplicityErr": "simplicity_err", "CTransaction": "elementsTransaction", "CTapEnv": "elementsTapEnv",
    "CRawTransaction": "rawElementsTransaction", "CRawTapEnv": "rawElementsTapEnv", "CRawBuffer": "rawElementsBuffer",
    "CRawInput": "rawElementsInput", "CRawOutput": "rawElementsOutput", "CTypeName": "typeName", "CTag": "tag_t",
}
# ABI class on the reference target (x86-64 Linux, LP64, glibc): (kind, bits)
ABI_LP64 = {
    "bool": "u8b", "unsigned char": "u8", "uint8_t": "u8", "uint_fast8_t": "u8", "uint16_t": "u16", "int": "i32", "int32_t": "i32",
    "unsigned int": "u32", "uint32_t": "u32", "uint_least32_t": "u32", "size_t": "u64", "uint64_t": "u64",
    "uint_fast16_t": "u64", "uint_fast32_t": "u64", "uint_fast64_t": "u64", "int_fast32_t": "i64", "int64_t": "i64",
    "ptrdiff_t": "i64", "void": "void", "simplicity_err": "i32",  # an enum with negative values: int
}
C_WORDS = {"char", "int", "long", "short", "double", "float", "unsigned", "signed", "void", "bool", "_Bool"}


def camel(cname):
    parts = re.split(r"_", cname)
    return "C" + "".join(p[:1].upper() + p[1:] for p in parts)


# ---------------------------------------------------------------- helpers

def strip_c_comments(s):
    s = re.sub(r"/\*.*?\*/", " ", s, flags=re.S)
    return re.sub(r"//[^\n]*", " ", s)


def strip_rust_comments(s):
    s = re.sub(r"/\*.*?\*/", " ", s, flags=re.S)
    return re.sub(r"//[^\n]*", " ", s)


def split_top(p, sep=","):
    out, depth, cur = [], 0, ""
    for ch in p:
        if ch in "(<[{":
            depth += 1
        if ch in ")>]}" and not (ch == ">" and cur.endswith("-")):
            depth -= 1
        if ch == sep and depth == 0:
            out.append(cur.strip())
            cur = ""
        else:
            cur += ch
    if cur.strip():
        out.append(cur.strip())
    return out


def match_brace(s, i, open_="{", close="}"):
    """s[i] == open_; index just after the matching close"""
    depth = 0
    for j in range(i, len(s)):
        if s[j] == open_:
            depth += 1
        elif s[j] == close:
            depth -= 1
            if depth == 0:
                return j + 1
    raise TranslateError("unbalanced braces")


class Ty:
    """normal form: pointer depth, base (C vocabulary, or fn(...)->r), constness per level (note only)"""

    def __init__(self, ptr, base, consts=()):
        self.ptr, self.base, self.consts = ptr, base, tuple(consts)

    def abi(self):
        if self.ptr > 0 or self.base.startswith("fn("):
            return "ptr"
        if self.base in ABI_LP64:
            return ABI_LP64[self.base]
        return "struct " + self.base

    def show(self):
        return "*" * self.ptr + self.base

    def show_const(self):
        return "".join("*const " if c else "*mut " for c in self.consts) + self.base


# ---------------------------------------------------------------- Rust side

def rust_sources():
    return sorted(glob.glob(os.path.join(SYS, "src", "**", "*.rs"), recursive=True))


def rust_aliases(texts):
    """`pub type X = Y;` (non-function) and `pub use … as X;`  (cfg-dependent duplicates of the c_* integer
    aliases are covered by RUST_PRIM and not followed)"""
    al, fn_al = {}, {}
    for t in texts.values():
        for m in re.finditer(r"pub type (\w+)\s*=\s*([^;]+);", t):
            name, rhs = m.group(1), " ".join(m.group(2).split())
            if name in RUST_PRIM:
                continue
            if "fn(" in rhs:
                fn_al[name] = rhs
            else:
                if name in al and al[name] != rhs:
                    raise TranslateError(f"Rust alias {name} defined twice differently")
                al[name] = rhs
        for m in re.finditer(r"pub use [\w:]+::(\w+) as (\w+);", t):
            al[m.group(2)] = m.group(1)
    return al, fn_al


def rust_type(t, al, fn_al, c_structs, depth=0):
    t = " ".join(t.split())
    if depth > 8:
        raise TranslateError(f"Rust type alias cycle at {t}")
    m = re.fullmatch(r"\*(mut|const) (.+)", t)
    if m:
        inner = rust_type(m.group(2), al, fn_al, c_structs, depth)
        return Ty(inner.ptr + 1, inner.base, (m.group(1) == "const",) + inner.consts)
    m = re.fullmatch(r"&(?:'\w+ )?(mut )?(.+)", t)
    if m:
        inner = rust_type(m.group(2), al, fn_al, c_structs, depth)
        return Ty(inner.ptr + 1, inner.base, (m.group(1) is None,) + inner.consts)
    m = re.fullmatch(r"(?:unsafe )?extern \"C\" fn\s*\((.*)\)\s*(?:->\s*(.+))?", t)
    if m:
        ps = [rust_param_type(p, al, fn_al, c_structs) for p in split_top(m.group(1))]
        r = rust_type(m.group(2), al, fn_al, c_structs, depth + 1) if m.group(2) else Ty(0, "void")
        return Ty(0, "fn(" + ",".join(p.show() for p in ps) + ")->" + r.show())
    m = re.fullmatch(r"\[(.+); *(\w+)\]", t)
    if m:
        inner = rust_type(m.group(1), al, fn_al, c_structs, depth)
        return Ty(inner.ptr, inner.base + "[" + m.group(2) + "]", inner.consts)
    name = t.split("::")[-1]
    if not re.fullmatch(r"\w+", name):
        raise TranslateError(f"Rust type not understood: {t!r}")
    if name in RUST_PRIM:
        return Ty(0, RUST_PRIM[name])
    if name in fn_al:
        return rust_type(fn_al[name], al, fn_al, c_structs, depth + 1)
    if name in al:
        return rust_type(al[name], al, fn_al, c_structs, depth + 1)
    if name in STRUCT_ALIASES:
        return Ty(0, STRUCT_ALIASES[name])
    for c in c_structs:
        if camel(c) == name:
            return Ty(0, c)
    raise TranslateError(f"Rust type {name!r} has no known C counterpart")


def rust_param_type(p, al, fn_al, c_structs):
    p = p.strip()
    m = re.fullmatch(r"(?:mut )?(\w+)\s*:\s*(.+)", p, re.S)
    return rust_type(m.group(2) if m else p, al, fn_al, c_structs)


def rust_externs(texts, al, fn_al, c_structs):
    fns, statics = [], []
    for path, t in texts.items():
        rel = os.path.relpath(path, REPO)
        for m in re.finditer(r'extern\s+"C"\s*\{', t):
            end = match_brace(t, m.end() - 1)
            body = t[m.end():end - 1]
            pos = 0
            items = [x.strip() for x in split_top(body, ";") if x.strip()]
            for it in items:
                link = None
                while True:
                    a = re.match(r"#\[([^\]]*)\]\s*", it)
                    if not a:
                        break
                    lm = re.fullmatch(r'link_name\s*=\s*"([^"]+)"', a.group(1).strip())
                    if lm:
                        link = lm.group(1)
                    elif not re.match(r"(allow|cfg|doc)", a.group(1).strip()):
                        raise TranslateError(f"{rel}: attribute not understood: #[{a.group(1)}]")
                    it = it[a.end():]
                f = re.fullmatch(r"(?:pub(?:\([\w:]+\))?\s+)?fn\s+(\w+)\s*\((.*)\)\s*(?:->\s*(.+))?", it, re.S)
                if f:
                    params = [rust_param_type(p, al, fn_al, c_structs) for p in split_top(f.group(2))]
                    pnames = [re.match(r"(?:mut )?(\w+)\s*:", p.strip()).group(1) if re.match(r"(?:mut )?(\w+)\s*:", p.strip()) else "_" for p in split_top(f.group(2))]
                    ret = rust_type(f.group(3), al, fn_al, c_structs) if f.group(3) else Ty(0, "void")
                    fns.append(dict(file=rel, rust=f.group(1), sym=link or f.group(1), params=params, pnames=pnames, ret=ret))
                    continue
                s = re.fullmatch(r"(?:pub(?:\([\w:]+\))?\s+)?static\s+(?:mut\s+)?(\w+)\s*:\s*(.+)", it, re.S)
                if s:
                    statics.append(dict(file=rel, rust=s.group(1), sym=link or s.group(1), ty=rust_type(s.group(2), al, fn_al, c_structs)))
                    continue
                raise TranslateError(f"{rel}: item of an extern block not understood: {it[:80]!r}")
            _ = pos
    return fns, statics


# ---------------------------------------------------------------- C side

def c_sources():
    fs = []
    for ext in ("*.c", "*.h", "*.inc"):
        fs += glob.glob(os.path.join(SYS, "depend", "**", ext), recursive=True)
    return sorted(f for f in fs if "/secp256k1/" not in f)


def expand_wrap(texts):
    """textual expansion of the one function-like macro the bindings go through (wrapper.h: WRAP_)"""
    wh = texts.get(os.path.join(SYS, "depend", "wrapper.h"))
    if wh is None:
        raise TranslateError("depend/wrapper.h not found")
    m = re.search(r"#define\s+WRAP_\((\w+)\)\s*\\\n((?:.*\\\n)*.*)\n", wh)
    if not m:
        raise TranslateError("macro WRAP_ of wrapper.h not understood")
    arg, body = m.group(1), m.group(2).replace("\\\n", "\n")
    jw = os.path.join(SYS, "depend", "jets_wrapper.c")
    src = texts[jw]
    names = re.findall(r"^WRAP_\((\w+)\)\s*$", src, re.M)
    if not names:
        raise TranslateError("no WRAP_ invocation in jets_wrapper.c")
    rest = re.sub(r"^WRAP_\((\w+)\)\s*$", "", src, flags=re.M)
    if "WRAP_" in rest:
        raise TranslateError("WRAP_ used in a form that is not understood")

    def inst(n):
        return re.sub(r"\b%s\b" % arg, n, body.replace("##" + arg, n).replace("## " + arg, n))
    texts[jw] = rest + "\n" + "\n".join(inst(n) for n in names)
    return names, body


def c_typedefs(text):
    simple, fnptr, structs = {}, {}, set()
    for m in re.finditer(r"typedef\s+(?:struct|union|enum)\s*(\w*)\s*\{", text):
        end = match_brace(text, m.end() - 1)
        n = re.match(r"\s*(\w+)\s*;", text[end:])
        if n:
            structs.add(n.group(1))
    for m in re.finditer(r"typedef\s+(?:struct|union|enum)\s+(\w+)\s+(\w+)\s*;", text):
        structs.add(m.group(2))
    for m in re.finditer(r"typedef\s+([\w\s\*]+?)\s*\(\s*\*\s*(\w+)\s*\)\s*\(([^;]*)\)\s*;", text):
        fnptr[m.group(2)] = (m.group(1).strip(), m.group(3))
    for m in re.finditer(r"typedef\s+((?:unsigned |signed |long |short )*\w+)\s+(\w+)\s*;", text):
        if m.group(1).split()[0] in ("struct", "union", "enum"):
            continue
        simple[m.group(2)] = " ".join(m.group(1).split())
    # object-like macros that stand for a standard type (`#define UWORD uint_fast16_t`)
    for m in re.finditer(r"^[ \t]*#[ \t]*define[ \t]+(\w+)[ \t]+((?:unsigned |signed |long |short )*\w+)[ \t]*$", text, re.M):
        if " ".join(m.group(2).split()) in ABI_LP64 and m.group(1) not in simple:
            simple[m.group(1)] = " ".join(m.group(2).split())
    return simple, fnptr, structs


def c_type(t, simple, fnptr, structs, depth=0):
    """C declarator without the parameter name -> Ty"""
    if depth > 8:
        raise TranslateError(f"C typedef cycle at {t}")
    t = " ".join(t.replace("*", " * ").replace("[", " [").split())
    arr = 0
    am = re.search(r"(\[[^\]]*\]\s*)+$", t)
    if am:
        arr = am.group(0).count("[")
        t = t[:am.start()].strip()
    toks = t.split()
    # level 0 = the base type, level k = the k-th pointer (inner to outer); `const` qualifies the level it follows
    # (or the base when it comes first)
    base_toks, lvl_const = [], [False]
    for tk in toks:
        if tk == "*":
            lvl_const.append(False)
        elif tk == "const":
            lvl_const[-1] = True
        elif tk in ("restrict", "volatile", "struct", "enum", "union"):
            continue
        else:
            if len(lvl_const) > 1:
                raise TranslateError(f"C type not understood: {t!r}")
            base_toks.append(tk)
    n = len(lvl_const) - 1
    # outermost pointer first: its pointee is level n-1
    consts = [lvl_const[k] for k in range(n - 1, -1, -1)]
    base = " ".join(base_toks)
    if not base:
        raise TranslateError(f"C type not understood: {t!r}")
    ptr = n + arr
    consts = [False] * arr + consts
    if base in fnptr:
        r, ps = fnptr[base]
        pts = [c_param(p, simple, fnptr, structs)[1] for p in split_top(ps)] if ps.strip() not in ("", "void") else []
        rt = c_type(r, simple, fnptr, structs, depth + 1)
        return Ty(ptr, "fn(" + ",".join(p.show() for p in pts) + ")->" + rt.show(), consts)
    if base in simple:
        inner = c_type(simple[base], simple, fnptr, structs, depth + 1)
        return Ty(ptr + inner.ptr, inner.base, list(consts) + list(inner.consts))
    if base in structs or base in ABI_LP64 or base == "void":
        return Ty(ptr, base, consts)
    raise TranslateError(f"C type {base!r} is not a known typedef, struct or standard name")


def c_param(p, simple, fnptr, structs):
    """`const frameItem* src` -> (name, Ty)"""
    p = " ".join(p.split())
    q = p.replace("*", " * ").replace("[", " [")
    words = [w for w in q.split() if w not in ("*", "const", "restrict", "volatile", "struct", "enum", "union") and not w.startswith("[")]
    name = None
    if len(words) >= 2 and words[-1] not in C_WORDS:
        name = words[-1]
        # remove the last occurrence of the name
        i = p.rfind(name)
        p = (p[:i] + p[i + len(name):]).strip()
    return name, c_type(p, simple, fnptr, structs)


def c_functions(text, wanted, simple, fnptr, structs):
    """all prototypes/definitions at file scope of the wanted symbols: sym -> list of (ret, [(name, Ty)])"""
    found = {}
    for m in re.finditer(r"(?:^|[;}\n])\s*((?:static\s+|extern\s+|inline\s+)*(?:const\s+)?[A-Za-z_][\w ]*?[\s\*]+)(\w+)\s*\(([^;{}()]*(?:\([^()]*\)[^;{}()]*)*)\)\s*([;{])", text):
        ret, name, params = m.group(1), m.group(2), m.group(3)
        if name not in wanted:
            continue
        ret = re.sub(r"\b(static|extern|inline)\b", "", ret).strip()
        if re.search(r"\b(return|else|typedef)\b", ret) or not ret:
            continue
        ps = [] if params.strip() in ("", "void") else [c_param(p, simple, fnptr, structs) for p in split_top(params)]
        found.setdefault(name, []).append((c_type(ret, simple, fnptr, structs), ps))
    return found


def c_objects(text, wanted, simple, fnptr, structs):
    """file-scope objects `const T name = …;` / `const T name[N] = …` of the wanted symbols"""
    found = {}
    for m in re.finditer(r"(?:^|[;}\n])\s*((?:extern\s+|static\s+)*(?:const\s+)?[A-Za-z_][\w ]*?[\s\*]+)(\w+)\s*((?:\[[^\]]*\])*)\s*(=|;)", text):
        ty, name, arr = m.group(1), m.group(2), m.group(3)
        if name not in wanted:
            continue
        ty = re.sub(r"\b(static|extern)\b", "", ty).strip()
        if re.search(r"\b(return|typedef)\b", ty):
            continue
        t = c_type(ty, simple, fnptr, structs)
        if arr:
            t = Ty(t.ptr, t.base + "".join("[" + a.strip() + "]" for a in re.findall(r"\[([^\]]*)\]", arr)), t.consts)
        found.setdefault(name, []).append(t)
    return found


# ---------------------------------------------------------------- output

def key(s):
    k = 1
    for b in s.encode():
        k = k * 256 + b
    return k


ABI_CODE = {"void": 0, "u8b": 1, "u8": 2, "u16": 3, "i32": 4, "u32": 5, "u64": 6, "i64": 7, "ptr": 8}


def abi_code(a):
    return ABI_CODE[a] if a in ABI_CODE else key(a)


def lean_ty(t):
    return f"⟨{t.ptr}, {key(t.base)}, {abi_code(t.abi())}⟩"


def translate():
    rtexts = {p: strip_rust_comments(open(p).read()) for p in rust_sources()}
    ctexts = {p: strip_c_comments(open(p, errors="replace").read()) for p in c_sources()}
    wraps, wrap_body = expand_wrap(ctexts)
    call = re.search(r"rustsimplicity_0_7_##(\w+)\s*\(\s*dst\s*,\s*\*\s*src\s*,\s*env\s*\)", wrap_body)
    if not call:
        raise TranslateError("WRAP_ no longer forwards (dst, *src, env) to rustsimplicity_0_7_<jet>")
    call_ok = call is not None
    ctext = "\n".join(ctexts[p] for p in sorted(ctexts))
    simple, fnptr, structs = c_typedefs(ctext)
    structs |= {"txEnv"}
    al, fn_al = rust_aliases(rtexts)
    fns, statics = rust_externs(rtexts, al, fn_al, structs)
    if not fns:
        raise TranslateError("no extern function found on the Rust side")
    wanted = {f["sym"] for f in fns}
    cf = c_functions(ctext, wanted, simple, fnptr, structs)
    co = c_objects(ctext, {s["sym"] for s in statics}, simple, fnptr, structs)
    # the functions the WRAP_ wrappers forward to: declared with the jet signature?
    jet_decl = c_functions(ctext, {"rustsimplicity_0_7_" + n for n in wraps}, simple, fnptr, structs)

    notes = []
    out = []
    out.append("/- GENERATED by tools/translate_externs.py from simplicity-sys/src/**/*.rs (extern \"C\" blocks) and")
    out.append("   simplicity-sys/depend/**/*.{c,h,inc} (WRAP_ of wrapper.h expanded over jets_wrapper.c).")
    out.append("   Do not edit: rewritten on every run of ./check.  One row per Rust declaration; `c` is the C")
    out.append("   prototype/definition of the linked symbol (`cFound = false`, empty lists when there is none). -/")
    out.append("import SimplicityModel.ExternTable")
    out.append("namespace Gen.Externs")
    out.append("open ExternTable")
    out.append("")
    rows, rets, names = [], [], []
    for f in fns:
        cs = cf.get(f["sym"], [])
        # several C occurrences (prototype + definition) must agree with each other
        sigs = {(tuple((p.ptr, p.base) for _, p in ps), (r.ptr, r.base)) for r, ps in cs}
        if len(sigs) > 1:
            raise TranslateError(f"C declarations of {f['sym']} disagree with each other: {sorted(sigs)}")
        if cs:
            cret, cps = cs[0]
            ctys = [p for _, p in cps]
        else:
            cret, ctys = Ty(0, "void"), []
        rows.append((f, bool(cs), ctys, cret))
        for i, (a, b) in enumerate(zip(f["params"], ctys)):
            if a.ptr == b.ptr and a.consts != b.consts:
                notes.append(f"const: {f['sym']} parameter {i + 1}: Rust {a.show_const()}  C {b.show_const()}")
    report = []
    for f, ok, ctys, cret in rows:
        rs = ", ".join(p.show() for p in f["params"])
        cs_ = ", ".join(p.show() for p in ctys)
        where = f"{f['file']} fn {f['rust']}"
        if not ok:
            report.append(("extern-no-c-prototype", f["sym"], f"{where}: no C prototype or definition of {f['sym']} under simplicity-sys/depend"))
            continue
        if len(ctys) != len(f["params"]):
            report.append(("extern-arity", f["sym"], f"{where}: Rust declares {len(f['params'])} parameters ({rs}), C has {len(ctys)} ({cs_})"))
            continue
        for i, (a, b) in enumerate(zip(f["params"], ctys)):
            pn = f["pnames"][i]
            if a.abi() != b.abi():
                report.append(("extern-param-abi", f["sym"], f"{where}: parameter {i + 1} `{pn}`: Rust {a.show()} is {a.abi()} on x86-64 Linux, C {b.show()} is {b.abi()}"))
            elif not (a.ptr == b.ptr and (a.base == b.base or (a.ptr >= 1 and "void" in (a.base, b.base)))):
                cls = "extern-param-type"
                if (a.base, b.base) == ("size_t", "uint_fast32_t") and a.ptr == 0:
                    cls = "extern-param-size_t-for-uint_fast32_t"
                elif a.base.startswith("fn(") and b.base.startswith("fn(") and a.base.rsplit(")->", 1)[0] == b.base.rsplit(")->", 1)[0]:
                    cls = "extern-param-callback-return"
                report.append((cls, f["sym"], f"{where}: parameter {i + 1} `{pn}`: Rust {a.show()}, C {b.show()}"))
        if (f["ret"].ptr, f["ret"].base) != (cret.ptr, cret.base):
            kind = "note-ret-abi" if f["ret"].abi() != cret.abi() else "note-ret-name"
            report.append((kind, f["sym"], f"{where}: return type Rust {f['ret'].show()} ({f['ret'].abi()}), C {cret.show()} ({cret.abi()})"))
    for n in notes:
        report.append(("note-const", n.split()[1], n))
    out.append("/-- file, Rust name, linked symbol — for messages (same order as `decls`) -/")
    out.append("def names : List (String × String × String) := [")
    out.append(",\n".join(f'  ("{f["file"]}", "{f["rust"]}", "{f["sym"]}")' for f, _, _, _ in rows))
    out.append("]")
    out.append("")
    out.append("/-- parameter types as written (normal form, constness kept) — for messages -/")
    out.append("def shown : List (String × String) := [")
    out.append(",\n".join('  ("' + ", ".join(p.show() for p in f["params"]) + " -> " + f["ret"].show() + '", "' +
                          (", ".join(p.show() for p in ct) + " -> " + cr.show() if ok else "(no C declaration)") + '")' for f, ok, ct, cr in rows))
    out.append("]")
    out.append("")
    out.append("def decls : List ExternRow := [")
    out.append(",\n".join(
        f"  ⟨{key(f['sym'])}, [{', '.join(lean_ty(p) for p in f['params'])}], {lean_ty(f['ret'])}, "
        f"{'true' if ok else 'false'}, [{', '.join(lean_ty(p) for p in ct)}], {lean_ty(cr)}⟩" for f, ok, ct, cr in rows))
    out.append("]")
    out.append("")
    # statics (outside the property's claim, which speaks of functions; compared as an observation)
    srows = []
    for s in statics:
        c = co.get(s["sym"], [])
        cty = c[0] if c else None
        srows.append((s, cty))
        if cty is None:
            report.append(("note-static", s["sym"], f"{s['file']} static {s['rust']}: no C object {s['sym']} found"))
        else:
            cb, rb = re.sub(r"\[[^\]]*\]", "[]", cty.base), re.sub(r"\[[^\]]*\]", "[]", s["ty"].base)
            if (cty.ptr, cb) != (s["ty"].ptr, rb):
                report.append(("note-static", s["sym"], f"{s['file']} static {s['rust']}: Rust {s['ty'].show()}, C {cty.show()}"))
    out.append("/-- extern statics: Rust type vs the C object's type (observation; the property speaks of functions) -/")
    out.append("def statics : List (String × String × String) := [")
    out.append(",\n".join(f'  ("{s["sym"]}", "{s["ty"].show()}", "{c.show() if c else "(no C object)"}")' for s, c in srows))
    out.append("]")
    out.append("")
    out.append("def staticDecls : List StaticRow := [")
    out.append(",\n".join(f"  ⟨{key(s['sym'])}, {lean_ty(s['ty'])}, {'true' if c else 'false'}, {lean_ty(c) if c else '⟨0, 0, 0⟩'}⟩" for s, c in srows))
    out.append("]")
    out.append("")
    out.append(f"/-- WRAP_ forwards `(dst, *src, env)` to `rustsimplicity_0_7_<jet>` -/\ndef wrapForwards : Bool := {'true' if call_ok else 'false'}")
    out.append(f"def wrapCount : Nat := {len(wraps)}")
    # every wrapped C jet is declared `bool f(frameItem* dst, frameItem src, const txEnv* env)`
    bad = []
    for n in wraps:
        d = jet_decl.get("rustsimplicity_0_7_" + n)
        if not d:
            bad.append(n)
            continue
        for r, ps in d:
            sig = [(p.ptr, p.base) for _, p in ps]
            if sig != [(1, "frameItem"), (0, "frameItem"), (1, "txEnv")] or (r.ptr, r.base) != (0, "bool"):
                bad.append(n)
    out.append("/-- wrapped C jets whose own declaration is not `bool f(frameItem* dst, frameItem src, const txEnv* env)` -/")
    out.append("def wrappedNotJetShaped : List String := [" + ", ".join(f'"{b}"' for b in sorted(set(bad))) + "]")
    out.append("")
    out.append("/-- differences in constness only (not part of the compared normal form) -/")
    out.append("def constNotes : List String := [")
    out.append(",\n".join('  "' + n.replace('"', "'") + '"' for n in notes))
    out.append("]")
    out.append("end Gen.Externs")
    if not call_ok or bad:
        report.append(("extern-wrap", "WRAP_", f"wrapper.h WRAP_ forwards correctly: {call_ok}; wrapped jets not declared bool f(frameItem*, frameItem, const txEnv*): {sorted(set(bad))[:5]}"))
    return "\n".join(out) + "\n", len(fns), len(statics), notes, report


def main():
    try:
        text, nf, ns, notes, report = translate()
    except TranslateError as e:
        print(f"TRANSLATE-ERROR externs: {e}")
        sys.exit(3)
    if "--rows" in sys.argv:
        print(f"summary\t{nf}\t{ns}")
        for cls, sym, detail in report:
            print(f"{cls}\t{sym}\t{detail}")
        return
    os.makedirs(os.path.dirname(OUT), exist_ok=True)
    old = open(OUT).read() if os.path.exists(OUT) else None
    if old != text:
        open(OUT, "w").write(text)
        print(f"externs: regenerated (changed) {nf} functions, {ns} statics, {len(notes)} const notes")
    else:
        print(f"externs: unchanged {nf} functions, {ns} statics, {len(notes)} const notes")


if __name__ == "__main__":
    main()
