#!/bin/bash
# confirm_seed.sh <dir with patch.diff, seed_demo.rs> : in a scratch worktree of /repo, checks that
# (SEED_FEATURES='--features x' adds cargo arguments to the demonstration runs)
# the patch applies and compiles, the existing suite passes with it, the demo passes without it and
# fails with it.  Prints one JSON line.
set -u
D="$1"; W=$(mktemp -d /tmp/confirm-XXXXXX); rmdir "$W"
git -C /repo worktree add -q --detach "$W" HEAD || exit 2
export CARGO_NET_OFFLINE=true
mkdir -p "$W/tests"; cp "$D/seed_demo.rs" "$W/tests/seed_demo.rs"
( cd "$W" && cargo test --offline ${SEED_FEATURES:-} --test seed_demo >/tmp/$$.without 2>&1 ); without=$?
( cd "$W" && git apply "$D/patch.diff" ); applied=$?
( cd "$W" && cargo test --offline ${SEED_FEATURES:-} --test seed_demo >/tmp/$$.with 2>&1 ); with=$?
mv "$W/tests/seed_demo.rs" /tmp/$$.demo
( cd "$W" && cargo test --workspace --no-fail-fast --offline >/tmp/$$.suite 2>&1 ); suite=$?
passed=$(grep -E "^test result: ok" /tmp/$$.suite | awk '{s+=$4} END {print s}')
echo "{\"applies\": $([ $applied = 0 ] && echo true || echo false), \"demo_passes_without_change\": $([ $without = 0 ] && echo true || echo false), \"demo_fails_with_change\": $([ $with != 0 ] && echo true || echo false), \"suite_passes_with_change\": $([ $suite = 0 ] && echo true || echo false), \"suite_tests_passed\": ${passed:-0}}"
git -C /repo worktree remove --force "$W"; rm -f /tmp/$$.*
