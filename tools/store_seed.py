#!/usr/bin/env python3
"""store_seed.py <out dir of the seeding agent> <name under seeded/> <confirmation json> <check result text>
Copies patch.diff and seed_demo.rs, and writes meta.json (agent's description + what was confirmed
here + what the check reported)."""
import json, os, shutil, sys
src, name, conf, result = sys.argv[1:5]
dst = os.path.join(os.path.dirname(os.path.dirname(os.path.abspath(__file__))), "seeded", name)
os.makedirs(dst, exist_ok=True)
for f in ("patch.diff", "seed_demo.rs"):
    shutil.copy(os.path.join(src, f), os.path.join(dst, f))
m = json.load(open(os.path.join(src, "meta.json")))
conf = json.loads(conf)
conf["how"] = ("tools/confirm_seed.sh in a scratch worktree of /repo HEAD: cargo test --offline --test seed_demo "
               "without and with the patch; cargo test --workspace --no-fail-fast --offline with the patch")
prop = m["property"]
out = {
    "property": prop,
    "summary": m.get("summary"),
    "needs": m.get("needs"),
    "files": m.get("files"),
    "written_by": "fresh sub-agent given only the property text and a scratch worktree of /repo",
    "confirmed": conf,
    "check_result": result,
    "how_to_run": f"git -C /repo apply /verif/seeded/{name}/patch.diff && ./check {prop}; git -C /repo checkout -- .",
}
json.dump(out, open(os.path.join(dst, "meta.json"), "w"), indent=1)
print("stored", dst)
