#!/usr/bin/env python3
"""Source tie (C20): the inventory of state that outlives a call or is reachable from more than one
thread — Rust `static`s and `thread_local!`s, interior-mutability types in library structs
(Mutex, RwLock, atomics, Cell/RefCell/UnsafeCell/GhostCell, Once*), `unsafe impl Send/Sync`, and
non-const `static` objects of the C sources that are compiled into simplicity-sys — compared with
the inventory the model `lean/SimplicityModel/ConcModel.lean` accounts for.

A new entry means the model's state `{nextName, ctxs, tls}` + "everything else is immutable" is no
longer the whole story: exit 3 with the list, so that the check reports the obligation as broken
(the threaded harness runs anyway and, if the new state is observable, produces the failing input).
Honours VERIF_REPO."""
import os, re, sys

REPO = os.environ.get("VERIF_REPO", "/repo")

# what the model accounts for: (file, kind, name) -> where it lives in the model
EXPECTED = {
    ("src/types/variable.rs", "static", "NEXT_ID"): "G.next (atomic fetch_add; names only displayed)",
    ("src/types/variable.rs", "atomic", "AtomicUsize"): "type of NEXT_ID",
    ("src/types/precomputed.rs", "thread_local-static", "TWO_TWO_N"): "G.tls (memo of a pure function)",
    ("src/types/precomputed.rs", "thread_local-static", "BUFFER8_TWO_N_PLUS_ONE"): "G.tls",
    ("src/types/precomputed.rs", "thread_local-static", "CTX8"): "G.tls",
    ("src/types/precomputed.rs", "cell", "RefCell"): "the thread-local slots",
    ("src/types/context.rs", "lock", "Mutex"): "G.ctxs: one slab per context, behind its own mutex",
    ("src/types/union_bound.rs", "cell", "GhostCell"): "G.ctxs: union-bound cells, writable only with the context's token (held under its mutex)",
    ("src/node/display.rs", "once", "OnceLock"): "per Display wrapper object, created per call (not shared unless the caller shares it)",
    ("src/human_encoding/error.rs", "lock", "Mutex"): "per ErrorSet object",
    ("src/human_encoding/parse/mod.rs", "atomic", "AtomicUsize"): "per parse-tree node of one parse call",
    ("simplicity-sys/depend/simplicity/elements/ops.c", "c-static", "tagName"): "read-only byte strings (never written)",
    ("simplicity-sys/depend/simplicity/bitcoin/ops.c", "c-static", "tagName"): "read-only byte strings (never written)",
    ("simplicity-sys/depend/simplicity/elements/elementsJets.c", "c-static", "taptweak"): "read-only byte string",
    ("simplicity-sys/depend/simplicity/bitcoin/bitcoinJets.c", "c-static", "taptweak"): "read-only byte string",
    ("simplicity-sys/depend/simplicity/sha256.c", "c-global-fnptr", "rustsimplicity_0_7_sha256_compression"): "function pointer, initialised statically to the portable compression, never assigned by the library",
}

RUST_PATTERNS = [
    ("static", re.compile(r"^\s*(?:pub(?:\([a-z]+\))?\s+)?static\s+(?:mut\s+)?([A-Za-z_0-9]+)\s*:")),
    ("lock", re.compile(r"\b(Mutex|RwLock|Condvar)\b")),
    ("atomic", re.compile(r"\b(Atomic(?:Usize|Isize|U8|U16|U32|U64|I8|I16|I32|I64|Bool|Ptr))\b")),
    ("cell", re.compile(r"\b(RefCell|UnsafeCell|GhostCell|Cell)\s*(?:<|::)")),
    ("once", re.compile(r"\b(OnceLock|OnceCell|LazyLock|LazyCell|Once|lazy_static)\b\s*(?:<|::|!)")),
    ("unsafe-send-sync", re.compile(r"unsafe\s+impl(?:<[^>]*>)?\s+(Send|Sync)\b")),
]


def strip_rust(text):
    # library code only: cut at the first test module, drop comments
    cut = text.find("#[cfg(test)]")
    if cut >= 0:
        text = text[:cut]
    text = re.sub(r"/\*.*?\*/", "", text, flags=re.S)
    return [re.sub(r"//.*", "", l) for l in text.split("\n")]


def scan_rust(root, rel, found):
    for d, _, files in os.walk(os.path.join(root, rel)):
        for f in sorted(files):
            if not f.endswith(".rs"):
                continue
            if os.sep + "tests" in d:
                continue  # simplicity-sys/src/tests: test vectors behind the test-utils feature
            path = os.path.join(d, f)
            relp = os.path.relpath(path, root)
            lines = strip_rust(open(path, errors="replace").read())
            in_tl = False
            depth = 0
            in_ext = False
            ext_depth = 0
            for l in lines:
                if "thread_local!" in l:
                    in_tl = True
                    depth = 0
                if re.search(r'extern\s+"C"\s*\{', l):
                    in_ext = True
                    ext_depth = 0
                for kind, pat in RUST_PATTERNS:
                    for m in pat.finditer(l):
                        if kind == "static":
                            # `static` inside an `extern` block declares a foreign *constant* (sizes,
                            # alignments) — those are listed too, as extern-static, and must be c_size_t
                            k = "thread_local-static" if in_tl else "static"
                            if in_ext:
                                # declaration of a foreign object: the C definition is scanned by
                                # scan_c (non-const ones are listed there)
                                continue
                            found.add((relp, k, m.group(1)))
                        else:
                            found.add((relp, kind, m.group(1)))
                if in_tl:
                    depth += l.count("{") - l.count("}")
                    if depth <= 0 and "}" in l:
                        in_tl = False
                if in_ext:
                    ext_depth += l.count("{") - l.count("}")
                    if ext_depth <= 0 and "}" in l:
                        in_ext = False


def scan_c(root, found):
    base = os.path.join(root, "simplicity-sys/depend/simplicity")
    if not os.path.isdir(base):
        return
    for d, _, files in os.walk(base):
        for f in sorted(files):
            if not (f.endswith(".c") or f.endswith(".h") or f.endswith(".inc")):
                continue
            if f in ("test.c",) or "/test" in d or "regression" in f.lower() or f.endswith("Test.c") or "checkSigHashAllTx" in f:
                continue
            path = os.path.join(d, f)
            relp = os.path.relpath(path, root)
            text = re.sub(r"/\*.*?\*/", "", open(path, errors="replace").read(), flags=re.S)
            for l in text.split("\n"):
                l = re.sub(r"//.*", "", l)
                # objects with static storage duration that are not const: `static T a, b[3] = …;`
                m = re.match(r"^\s*static\s+(?!const\b|inline\b|SECP256K1_INLINE\b)([A-Za-z_0-9 \*]+?)\b([A-Za-z_0-9]+)\s*(\[[^\]]*\])?\s*(=|;|,)", l)
                if m and "(" not in l.split("=")[0] and "const" not in l.split("=")[0]:
                    found.add((relp, "c-static", m.group(2)))
                # file-scope function pointers: `T (*name)(…) = …;`
                m = re.match(r"^(?!static\b|typedef\b|extern\b)[A-Za-z_][A-Za-z_0-9 \*]*\(\*\s*([A-Za-z_0-9]+)\s*\)\s*\([^)]*\)\s*(=|;)", l)
                if m:
                    found.add((relp, "c-global-fnptr", m.group(1)))
                # other file-scope non-const definitions (column 0, with an initialiser)
                m = re.match(r"^(?!static\b|typedef\b|extern\b|const\b|return\b|#)([A-Za-z_][A-Za-z_0-9 \*]*?)\b([A-Za-z_0-9]+)\s*(\[[^\]]*\])?\s*=\s*[^=]", l)
                if m and "(" not in l.split("=")[0] and "const" not in l.split("=")[0] and m.group(1).strip():
                    found.add((relp, "c-global", m.group(2)))


def main():
    found = set()
    try:
        scan_rust(REPO, "src", found)
        scan_rust(REPO, "simplicity-sys/src", found)
        scan_c(REPO, found)
    except OSError as e:
        print(f"SOURCE-TIE-ERROR c20_globals: {e}")
        sys.exit(3)
    # generated jet tables (src/jet/init) contain no state; they are scanned like everything else
    new = sorted(found - set(EXPECTED))
    gone = sorted(set(EXPECTED) - found)
    if new or gone:
        print("SOURCE-TIE-ERROR c20_globals: the inventory of shared/global state changed;"
              + (" new: " + "; ".join(f"{f} {k} {n}" for f, k, n in new) if new else "")
              + (" gone: " + "; ".join(f"{f} {k} {n}" for f, k, n in gone) if gone else ""))
        sys.exit(3)
    print(f"c20_globals: {len(found)} entries, all accounted for by the model")


if __name__ == "__main__":
    main()
