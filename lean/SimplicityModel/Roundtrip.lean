import SimplicityModel.Bisim
import SimplicityModel.Human
/-
Spike: C01 (structural half of `roundtrip`) — the node list written by `encode` (post-order walk,
children as indices) passes the decoder's canonical-order check, and decoding it and walking again
reproduces the list.
-/
namespace PO
variable {K : Type} [DecidableEq K] (key : T → Option K)

/-- every node has a sharing identity (redemption programs: the IHR always exists) -/
def KeyTotal : Prop := ∀ t, (key t).isSome

/-- the node list `encode` writes for the handle `d` -/
def encodeList (d : T) : List Sh := (visit key d (fun _ => none) 0).1.map Out.shape

section
variable (d : T) (hc : Congr key) (hk : KeyTotal key)

/-- `t` is a node of the program and `u` is the decoded node at the index where `t`'s class was written -/
def Rel (t u : T) : Prop :=
  Desc d t ∧ ∃ k j, key t = some k ∧ (visit key d (fun _ => none) 0).2.1 k = some j ∧
    u = U (encodeList key d) j

theorem shape_kind (o : Out) (i : Nat) (outs : List Out)
    (hk : ChildOK key outs i o.node.left o.lidx ∧ ChildOK key outs i o.node.right o.ridx) :
    (o.node.left = none → o.shape = .leaf) ∧
    (∀ c, o.node.left = some c → o.node.right = none → ∃ j, o.lidx = some j ∧ o.shape = .un j) ∧
    (∀ c c', o.node.left = some c → o.node.right = some c' →
      ∃ j j', o.lidx = some j ∧ o.ridx = some j' ∧ o.shape = .bin j j') := by
  obtain ⟨h1, h2⟩ := hk
  cases hn : o.node with
  | leaf id => simp [Out.shape, hn, T.left, T.right]
  | un id l =>
    rw [hn] at h1
    simp only [T.left, ChildOK] at h1
    obtain ⟨j, hj, _⟩ := h1
    simp [Out.shape, hn, T.left, T.right, hj]
  | bin id l r =>
    rw [hn] at h1 h2
    simp only [T.left, T.right, ChildOK] at h1 h2
    obtain ⟨j, hj, _⟩ := h1
    obtain ⟨j', hj', _⟩ := h2
    simp [Out.shape, hn, T.left, T.right, hj, hj']

theorem encodeList_wellIdx : WellIdx (encodeList key d) := by
  obtain ⟨hinv, _, _⟩ := visit_root key d
  intro i
  have get : ∀ s, (encodeList key d)[i]? = some s →
      ∃ o, (visit key d (fun _ => none) 0).1[i]? = some o ∧ o.shape = s := by
    intro s hs
    unfold encodeList at hs
    rw [List.getElem?_map] at hs
    cases ho : (visit key d (fun _ => none) 0).1[i]? with
    | none => rw [ho] at hs; cases hs
    | some o => rw [ho] at hs; exact ⟨o, rfl, by simpa using hs⟩
  constructor
  · intro j hj
    obtain ⟨o, ho, hs⟩ := get _ hj
    have hkids := hinv.kids i o ho
    unfold Out.shape at hs
    cases hn : o.node with
    | leaf id => simp [hn] at hs
    | un id l =>
      have h1 := hkids.1; rw [hn] at h1
      simp only [T.left, ChildOK] at h1
      obtain ⟨j', hj', hlt, _⟩ := h1
      simp [hn, hj'] at hs; omega
    | bin id l r =>
      have h1 := hkids.1; have h2 := hkids.2; rw [hn] at h1 h2
      simp only [T.left, T.right, ChildOK] at h1 h2
      obtain ⟨j', hj', _, _⟩ := h1
      obtain ⟨j'', hj'', _, _⟩ := h2
      simp [hn, hj', hj''] at hs
  · intro j k hj
    obtain ⟨o, ho, hs⟩ := get _ hj
    have hkids := hinv.kids i o ho
    unfold Out.shape at hs
    cases hn : o.node with
    | leaf id => simp [hn] at hs
    | un id l =>
      have h1 := hkids.1; rw [hn] at h1
      simp only [T.left, ChildOK] at h1
      obtain ⟨j', hj', _, _⟩ := h1
      simp [hn, hj'] at hs
    | bin id l r =>
      have h1 := hkids.1; have h2 := hkids.2; rw [hn] at h1 h2
      simp only [T.left, T.right, ChildOK] at h1 h2
      obtain ⟨j', hj', hlt, _⟩ := h1
      obtain ⟨j'', hj'', hlt', _⟩ := h2
      simp [hn, hj', hj''] at hs; omega

theorem same_key (hk : KeyTotal key) {a c : T} (h : Same key a c) : key a = key c := by
  rcases h with rfl | ⟨k, h1, h2⟩
  · rfl
  · rw [h1, h2]

/-- everything known about a related pair -/
theorem rel_data (hc : Congr key) {t u : T} (hR : Rel key d t u) :
    ∃ k j o, key t = some k ∧ (visit key d (fun _ => none) 0).2.1 k = some j ∧
      u = U (encodeList key d) j ∧ (visit key d (fun _ => none) 0).1[j]? = some o ∧
      key o.node = some k ∧ SameO key o.node.left t.left ∧ SameO key o.node.right t.right ∧
      (encodeList key d)[j]? = some o.shape := by
  obtain ⟨_, k, j, hkt, hfs, hu⟩ := hR
  obtain ⟨hinv, _, _⟩ := visit_root key d
  obtain ⟨o, ho, hko⟩ := (hinv.seen k j).1 hfs
  have hcg := hc o.node t k hko hkt
  refine ⟨k, j, o, hkt, hfs, hu, ho, hko, hcg.1, hcg.2, ?_⟩
  unfold encodeList
  rw [List.getElem?_map, ho]; rfl

theorem rel_bisim (hc : Congr key) (hk : KeyTotal key) : Bisim key ptr (Rel key d) := by
  obtain ⟨hinv, _, _⟩ := visit_root key d
  have hw := encodeList_wellIdx key d
  refine ⟨?_, ?_, ?_, ?_⟩
  · -- shape
    intro t u hR
    obtain ⟨k, j, o, hkt, hfs, hu, ho, hko, hsl, hsr, hns⟩ := rel_data key d hc hR
    have hkinds := shape_kind key o j _ (hinv.kids j o ho)
    subst hu
    rw [U_eq _ hw, hns]
    cases hol : o.node.left with
    | none =>
      rw [hol] at hsl
      have htl : t.left = none := by cases h : t.left with
        | none => rfl
        | some c => rw [h] at hsl; exact hsl.elim
      have hor : o.node.right = none := by cases hn : o.node <;> simp [hn, T.left, T.right] at hol ⊢
      rw [hor] at hsr
      have htr : t.right = none := by cases h : t.right with
        | none => rfl
        | some c => rw [h] at hsr; exact hsr.elim
      rw [hkinds.1 hol]
      exact ⟨⟨fun _ => rfl, fun _ => htl⟩, ⟨fun _ => rfl, fun _ => htr⟩⟩
    | some oc =>
      rw [hol] at hsl
      have htl : t.left ≠ none := by intro h; rw [h] at hsl; exact hsl
      cases hor : o.node.right with
      | none =>
        rw [hor] at hsr
        have htr : t.right = none := by cases h : t.right with
          | none => rfl
          | some c => rw [h] at hsr; exact hsr.elim
        obtain ⟨lj, _, hsh⟩ := hkinds.2.1 oc hol hor
        rw [hsh]
        exact ⟨⟨fun h => absurd h htl, fun h => by cases h⟩, ⟨fun _ => rfl, fun _ => htr⟩⟩
      | some oc' =>
        rw [hor] at hsr
        have htr : t.right ≠ none := by intro h; rw [h] at hsr; exact hsr
        obtain ⟨lj, rj, _, _, hsh⟩ := hkinds.2.2 oc oc' hol hor
        rw [hsh]
        exact ⟨⟨fun h => absurd h htl, fun h => by cases h⟩, ⟨fun h => absurd h htr, fun h => by cases h⟩⟩
  · -- left
    intro t u c c' hR htl hul
    obtain ⟨k, j, o, hkt, hfs, hu, ho, hko, hsl, hsr, hns⟩ := rel_data key d hc hR
    have hkinds := shape_kind key o j _ (hinv.kids j o ho)
    rw [htl] at hsl
    cases hol : o.node.left with
    | none => rw [hol] at hsl; exact hsl.elim
    | some oc =>
      rw [hol] at hsl
      have hkid := (hinv.kids j o ho).1
      rw [hol] at hkid
      obtain ⟨lj, hlj, _, o2, ho2, hs2⟩ := hkid
      have hc' : c' = U (encodeList key d) lj := by
        subst hu
        rw [U_eq _ hw, hns] at hul
        cases hor : o.node.right with
        | none =>
          obtain ⟨lj', hlj', hsh⟩ := hkinds.2.1 oc hol hor
          rw [hlj] at hlj'; cases hlj'
          rw [hsh] at hul; simpa [T.left] using hul.symm
        | some oc' =>
          obtain ⟨lj', rj, hlj', _, hsh⟩ := hkinds.2.2 oc oc' hol hor
          rw [hlj] at hlj'; cases hlj'
          rw [hsh] at hul; simpa [T.left] using hul.symm
      have hkc : key c = key o2.node := by
        rw [same_key key hk hs2, same_key key hk hsl]
      obtain ⟨k2, hk2⟩ := Option.isSome_iff_exists.1 (hk o2.node)
      refine ⟨hR.1.trans (.left htl (.refl c)), k2, lj, by rw [hkc, hk2], (hinv.seen k2 lj).2 ⟨o2, ho2, hk2⟩, hc'⟩
  · -- right
    intro t u c c' hR htr hur
    obtain ⟨k, j, o, hkt, hfs, hu, ho, hko, hsl, hsr, hns⟩ := rel_data key d hc hR
    have hkinds := shape_kind key o j _ (hinv.kids j o ho)
    rw [htr] at hsr
    cases hor : o.node.right with
    | none => rw [hor] at hsr; exact hsr.elim
    | some oc' =>
      rw [hor] at hsr
      have hkid := (hinv.kids j o ho).2
      rw [hor] at hkid
      obtain ⟨rj, hrj, _, o2, ho2, hs2⟩ := hkid
      have hol : ∃ oc, o.node.left = some oc := by
        cases hn : o.node <;> simp [hn, T.left, T.right] at hor ⊢
      obtain ⟨oc, hol⟩ := hol
      have hc' : c' = U (encodeList key d) rj := by
        subst hu
        rw [U_eq _ hw, hns] at hur
        obtain ⟨lj', rj', _, hrj', hsh⟩ := hkinds.2.2 oc oc' hol hor
        rw [hrj] at hrj'; cases hrj'
        rw [hsh] at hur; simpa [T.right] using hur.symm
      have hkc : key c = key o2.node := by
        rw [same_key key hk hs2, same_key key hk hsr]
      obtain ⟨k2, hk2⟩ := Option.isSome_iff_exists.1 (hk o2.node)
      refine ⟨hR.1.trans (.right htr (.refl c)), k2, rj, by rw [hkc, hk2], (hinv.seen k2 rj).2 ⟨o2, ho2, hk2⟩, hc'⟩
  · -- keys
    intro t u t' u' hR hR'
    obtain ⟨_, k, j, hkt, hfs, hu⟩ := hR
    obtain ⟨_, k', j', hkt', hfs', hu'⟩ := hR'
    subst hu hu'
    simp only [ptr, U_id, Option.some.injEq]
    constructor
    · rintro ⟨kk, h1, h2⟩
      rw [hkt] at h1; rw [hkt'] at h2; cases h1; cases h2
      rw [hfs] at hfs'; cases hfs'
      exact ⟨j, rfl, rfl⟩
    · rintro ⟨jj, h1, h2⟩
      subst h1; subst h2
      obtain ⟨o, ho, hko⟩ := (hinv.seen k _).1 hfs
      obtain ⟨o', ho', hko'⟩ := (hinv.seen k' _).1 hfs'
      rw [ho] at ho'; cases ho'
      rw [hko] at hko'; cases hko'
      exact ⟨k, hkt, hkt'⟩

/-- **C01, structural round trip**: take the node list `encode` writes for a program whose sharing
identities are total and congruent; rebuild the DAG from the list as the decoder does and walk it
with pointer sharing as the decoder's canonical-order check does.  Then every item sits at its own
index (the check passes) and re-encoding the rebuilt DAG gives the same node list. -/
theorem encode_decode_walk (hc : Congr key) (hk : KeyTotal key) :
    let ns := encodeList key d
    let root := (visit key d (fun _ => none) 0).2.2.2
    let P := (visit ptr (U ns root) (fun _ => none) 0).1
    (∀ (i : Nat) (o' : Out), P[i]? = some o' → o'.node.id = i) ∧ P.map Out.shape = ns := by
  intro ns root P
  obtain ⟨hinv, hlen, ⟨o0, ho0, hs0⟩⟩ := visit_root key d
  have hw := encodeList_wellIdx key d
  -- the root pair is related
  obtain ⟨kd, hkd⟩ := Option.isSome_iff_exists.1 (hk d)
  have hko0 : key o0.node = some kd := by rw [same_key key hk hs0, hkd]
  have hR0 : Rel key d d (U ns root) :=
    ⟨.refl d, kd, root, hkd, (hinv.seen kd root).2 ⟨o0, ho0, hko0⟩, rfl⟩
  have hs : SeenRel key ptr (Rel key d) (fun _ => none) (fun _ => none) := by
    intro t u _
    unfold seenBefore
    cases key t <;> cases ptr u <;> rfl
  have st := visit_bisim key ptr (rel_bisim key d hc hk) d (U ns root) _ _ 0 hR0 hs
  have hlenP : P.length = (visit key d (fun _ => none) 0).1.length := by
    have := congrArg List.length st.outs; simpa using this.symm
  have hcanon : ∀ (i : Nat) (o' : Out), P[i]? = some o' → o'.node.id = i := by
    intro i o' ho'
    have hi : i < (visit key d (fun _ => none) 0).1.length := by
      rw [← hlenP]
      rcases Nat.lt_or_ge i P.length with h | h
      · exact h
      · rw [List.getElem?_eq_none h] at ho'; cases ho'
    have ho : (visit key d (fun _ => none) 0).1[i]? = some ((visit key d (fun _ => none) 0).1[i]) :=
      List.getElem?_eq_getElem hi
    obtain ⟨_, k, j, hkt, hfs, hu⟩ := st.nodes i _ o' ho ho'
    have : (visit key d (fun _ => none) 0).2.1 k = some i := (hinv.seen k i).2 ⟨_, ho, hkt⟩
    rw [hfs] at this; cases this
    rw [hu, U_id]
  refine ⟨hcanon, ?_⟩
  apply List.ext_getElem?
  intro i
  rw [List.getElem?_map]
  by_cases hi : i < P.length
  · have ho' : P[i]? = some P[i] := List.getElem?_eq_getElem hi
    have := canonical_reencode ns hw root hcanon i _ ho'
    rw [ho']
    have hns : i < ns.length := by
      show i < (encodeList key d).length
      unfold encodeList; rw [List.length_map, ← hlenP]; exact hi
    rw [List.getElem?_eq_getElem hns] at this ⊢
    simp only [Option.getD_some] at this
    rw [this]; rfl
  · have hns : ¬ i < ns.length := by
      show ¬ i < (encodeList key d).length
      unfold encodeList; rw [List.length_map, ← hlenP]; exact hi
    rw [List.getElem?_eq_none (by omega), List.getElem?_eq_none (by omega)]; rfl

#print axioms encode_decode_walk
end
end PO
