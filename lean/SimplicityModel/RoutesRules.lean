/-
C12 — a solution of the typing constraints gives the typing rule of every node (`NodeRule`), hence
whatever `Prog.infer` accepts elaborates (`infer_elabHyp`, with `elab_total`).
-/
import SimplicityModel.RoutesElab
import SimplicityModel.PrunePlanProps

namespace Routes
open BM4 Prog
open Inf (Eqn)

theorem tyOfInf_tmOfTy (ρ : Nat → Inf.Ty) (t : Ty) : tyOfInf ((tmOfTy t).eval ρ) = t := by
  induction t with
  | one => rfl
  | sum a b iha ihb => simp [tmOfTy, Inf.Tm.eval, tyOfInf, iha, ihb]
  | prod a b iha ihb => simp [tmOfTy, Inf.Tm.eval, tyOfInf, iha, ihb]

theorem arrowsOf_get? (n : Nat) (ρ : Nat → Inf.Ty) {c : Nat} (h : c < n) :
    (arrowsOf n ρ)[c]? = some (tyOfInf (ρ (2 * c)), tyOfInf (ρ (2 * c + 1))) := by
  simp [arrowsOf, h]

theorem srcOf_arrowsOf (n : Nat) (ρ : Nat → Inf.Ty) {i : Nat} (h : i < n) :
    srcOf (arrowsOf n ρ) i = tyOfInf (ρ (2 * i)) := by
  unfold srcOf; rw [arrowsOf_getD n ρ h]

theorem tgtOf_arrowsOf (n : Nat) (ρ : Nat → Inf.Ty) {i : Nat} (h : i < n) :
    tgtOf (arrowsOf n ρ) i = tyOfInf (ρ (2 * i + 1)) := by
  unfold tgtOf; rw [arrowsOf_getD n ρ h]

/-- a solution of the equations of node `i` makes the arrows satisfy the node's typing rule -/
theorem nodeRule_of_eqns {jt : JetTypes} {ρ : Nat → Inf.Ty} {n i : Nat} {nd : Node} {f : Nat}
    {es : List Eqn} {f' : Nat}
    (hn : nodeEqns jt i nd f = some (es, f')) (hs : ∀ e ∈ es, e.1.eval ρ = e.2.eval ρ)
    (hch : ∀ c ∈ nd.children, c < n) (hok : shapeOK nd = true) :
    NodeRule jt (arrowsOf n ρ) (tyOfInf (ρ (2 * i))) (tyOfInf (ρ (2 * i + 1))) nd := by
  cases nd with
  | iden =>
    simp only [nodeEqns, Option.some.injEq, Prod.mk.injEq] at hn
    obtain ⟨rfl, rfl⟩ := hn
    simp only [List.mem_cons, List.not_mem_nil, or_false, forall_eq, src, tgt, Inf.Tm.eval] at hs
    simp only [NodeRule, hs]
  | unit =>
    simp only [nodeEqns, Option.some.injEq, Prod.mk.injEq] at hn
    obtain ⟨rfl, rfl⟩ := hn
    simp only [List.mem_cons, List.not_mem_nil, or_false, forall_eq, src, tgt, Inf.Tm.eval] at hs
    simp only [NodeRule, hs, tyOfInf]
  | injl c =>
    simp only [nodeEqns, Option.some.injEq, Prod.mk.injEq] at hn
    obtain ⟨rfl, rfl⟩ := hn
    simp only [List.mem_cons, List.not_mem_nil, or_false, forall_eq_or_imp, forall_eq, src, tgt,
      Inf.Tm.eval] at hs
    obtain ⟨h1, h2⟩ := hs
    have hc : c < n := hch c (by simp [Node.children])
    exact ⟨_, tyOfInf (ρ f), by rw [arrowsOf_get? n ρ hc, h1], by rw [h2]; rfl⟩
  | injr c =>
    simp only [nodeEqns, Option.some.injEq, Prod.mk.injEq] at hn
    obtain ⟨rfl, rfl⟩ := hn
    simp only [List.mem_cons, List.not_mem_nil, or_false, forall_eq_or_imp, forall_eq, src, tgt,
      Inf.Tm.eval] at hs
    obtain ⟨h1, h2⟩ := hs
    have hc : c < n := hch c (by simp [Node.children])
    exact ⟨_, tyOfInf (ρ f), by rw [arrowsOf_get? n ρ hc, h1], by rw [h2]; rfl⟩
  | take c =>
    simp only [nodeEqns, Option.some.injEq, Prod.mk.injEq] at hn
    obtain ⟨rfl, rfl⟩ := hn
    simp only [List.mem_cons, List.not_mem_nil, or_false, forall_eq_or_imp, forall_eq, src, tgt,
      Inf.Tm.eval] at hs
    obtain ⟨h1, h2⟩ := hs
    have hc : c < n := hch c (by simp [Node.children])
    exact ⟨_, tyOfInf (ρ f), by rw [arrowsOf_get? n ρ hc, h2], by rw [h1]; rfl⟩
  | drop c =>
    simp only [nodeEqns, Option.some.injEq, Prod.mk.injEq] at hn
    obtain ⟨rfl, rfl⟩ := hn
    simp only [List.mem_cons, List.not_mem_nil, or_false, forall_eq_or_imp, forall_eq, src, tgt,
      Inf.Tm.eval] at hs
    obtain ⟨h1, h2⟩ := hs
    have hc : c < n := hch c (by simp [Node.children])
    exact ⟨_, tyOfInf (ρ f), by rw [arrowsOf_get? n ρ hc, h2], by rw [h1]; rfl⟩
  | comp x y =>
    simp only [nodeEqns, Option.some.injEq, Prod.mk.injEq] at hn
    obtain ⟨rfl, rfl⟩ := hn
    simp only [List.mem_cons, List.not_mem_nil, or_false, forall_eq_or_imp, forall_eq, src, tgt,
      Inf.Tm.eval] at hs
    obtain ⟨h1, h2, h3⟩ := hs
    have hx : x < n := hch x (by simp [Node.children])
    have hy : y < n := hch y (by simp [Node.children])
    exact ⟨tyOfInf (ρ (2 * x + 1)), by rw [arrowsOf_get? n ρ hx, h2],
      by rw [arrowsOf_get? n ρ hy, h3, h1]⟩
  | case x y =>
    simp only [nodeEqns, Option.some.injEq, Prod.mk.injEq] at hn
    obtain ⟨rfl, rfl⟩ := hn
    simp only [List.mem_cons, List.not_mem_nil, or_false, forall_eq_or_imp, forall_eq, src, tgt,
      Inf.Tm.eval] at hs
    obtain ⟨h1, h2, h3, h4, h5⟩ := hs
    have hx : x < n := hch x (by simp [Node.children])
    have hy : y < n := hch y (by simp [Node.children])
    refine ⟨tyOfInf (ρ f), tyOfInf (ρ (f + 1)), tyOfInf (ρ (f + 2)), ?_, ?_, ?_⟩
    · rw [arrowsOf_get? n ρ hx, h1, h3]; rfl
    · rw [arrowsOf_get? n ρ hy, h2, h4]; rfl
    · rw [h5]; rfl
  | assertl x hh =>
    simp only [nodeEqns, Option.some.injEq, Prod.mk.injEq] at hn
    obtain ⟨rfl, rfl⟩ := hn
    simp only [List.mem_cons, List.not_mem_nil, or_false, forall_eq_or_imp, forall_eq, src, tgt,
      Inf.Tm.eval] at hs
    obtain ⟨h1, h3, h5⟩ := hs
    have hx : x < n := hch x (by simp [Node.children])
    refine ⟨tyOfInf (ρ f), tyOfInf (ρ (f + 1)), tyOfInf (ρ (f + 2)), ?_, ?_⟩
    · rw [arrowsOf_get? n ρ hx, h1, h3]; rfl
    · rw [h5]; rfl
  | assertr hh y =>
    simp only [nodeEqns, Option.some.injEq, Prod.mk.injEq] at hn
    obtain ⟨rfl, rfl⟩ := hn
    simp only [List.mem_cons, List.not_mem_nil, or_false, forall_eq_or_imp, forall_eq, src, tgt,
      Inf.Tm.eval] at hs
    obtain ⟨h2, h4, h5⟩ := hs
    have hy : y < n := hch y (by simp [Node.children])
    refine ⟨tyOfInf (ρ f), tyOfInf (ρ (f + 1)), tyOfInf (ρ (f + 2)), ?_, ?_⟩
    · rw [arrowsOf_get? n ρ hy, h2, h4]; rfl
    · rw [h5]; rfl
  | pair x y =>
    simp only [nodeEqns, Option.some.injEq, Prod.mk.injEq] at hn
    obtain ⟨rfl, rfl⟩ := hn
    simp only [List.mem_cons, List.not_mem_nil, or_false, forall_eq_or_imp, forall_eq, src, tgt,
      Inf.Tm.eval] at hs
    obtain ⟨h1, h2, h3⟩ := hs
    have hx : x < n := hch x (by simp [Node.children])
    have hy : y < n := hch y (by simp [Node.children])
    refine ⟨tyOfInf (ρ (2 * x + 1)), tyOfInf (ρ (2 * y + 1)), ?_, ?_, ?_⟩
    · rw [arrowsOf_get? n ρ hx, h2]
    · rw [arrowsOf_get? n ρ hy, h2, h1]
    · rw [h3]; rfl
  | disconnect x oy =>
    cases oy with
    | none => simp [shapeOK] at hok
    | some y =>
      simp only [nodeEqns, Option.some.injEq, Prod.mk.injEq] at hn
      obtain ⟨rfl, rfl⟩ := hn
      simp only [List.mem_cons, List.not_mem_nil, or_false, forall_eq_or_imp, forall_eq, src, tgt,
        Inf.Tm.eval] at hs
      obtain ⟨h1, h2, h3, h4⟩ := hs
      have hx : x < n := hch x (by simp [Node.children])
      have hy : y < n := hch y (by simp [Node.children])
      refine ⟨tyOfInf (ρ (f + 1)), tyOfInf (ρ (2 * y)), tyOfInf (ρ (2 * y + 1)), ?_, ?_, ?_⟩
      · rw [arrowsOf_get? n ρ hx, h1, h2, h3]
        simp only [tyOfInf, tyOfInf_tmOfTy]
      · rw [arrowsOf_get? n ρ hy]
      · rw [h4]; rfl
  | witness => trivial
  | fail en => trivial
  | word k bits =>
    simp only [nodeEqns, Option.some.injEq, Prod.mk.injEq] at hn
    obtain ⟨rfl, rfl⟩ := hn
    simp only [List.mem_cons, List.not_mem_nil, or_false, forall_eq_or_imp, forall_eq, src, tgt,
      Inf.Tm.eval] at hs
    obtain ⟨h1, h2⟩ := hs
    refine ⟨by rw [h1]; rfl, by rw [h2, tyOfInf_tmOfTy], ?_⟩
    simpa [shapeOK] using hok
  | jet name =>
    simp only [nodeEqns, Option.map_eq_some_iff, Prod.mk.injEq] at hn
    obtain ⟨⟨s, t⟩, hj, rfl, rfl⟩ := hn
    simp only [List.mem_cons, List.not_mem_nil, or_false, forall_eq_or_imp, forall_eq, src, tgt,
      Inf.Tm.eval] at hs
    obtain ⟨h1, h2⟩ := hs
    simp only [NodeRule, h1, h2, tyOfInf_tmOfTy, hj]
  | hidden hh => trivial

/-! ### every node's equations are among the constraints -/

theorem go_mem {jt : JetTypes} : ∀ (nodes : List Node) (i f : Nat) (acc E : List Eqn),
    constraints.go jt i nodes f acc = some E →
    (∀ e ∈ acc, e ∈ E) ∧ ∀ (k : Nat) (nd : Node), nodes[k]? = some nd →
      ∃ f0 es f1, nodeEqns jt (i + k) nd f0 = some (es, f1) ∧ ∀ e ∈ es, e ∈ E
  | [], i, f, acc, E, h => by
    simp only [constraints.go, Option.some.injEq] at h
    subst h
    exact ⟨fun _ hm => hm, fun k nd hk => by simp at hk⟩
  | nd :: rest, i, f, acc, E, h => by
    simp only [constraints.go, Option.bind_eq_bind, Option.bind_eq_some_iff] at h
    obtain ⟨⟨es, f'⟩, hn, hgo⟩ := h
    obtain ⟨hacc, hrest⟩ := go_mem rest (i + 1) f' (acc ++ es) E hgo
    refine ⟨fun e hm => hacc e (List.mem_append_left _ hm), ?_⟩
    intro k nd' hk
    cases k with
    | zero =>
      simp only [List.getElem?_cons_zero, Option.some.injEq] at hk
      subst hk
      exact ⟨f, es, f', hn, fun e hm => hacc e (List.mem_append_right _ hm)⟩
    | succ k =>
      simp only [List.getElem?_cons_succ] at hk
      obtain ⟨f0, es0, f1, h0, hsub⟩ := hrest k nd' hk
      refine ⟨f0, es0, f1, ?_, hsub⟩
      have : i + (k + 1) = i + 1 + k := by omega
      rw [this]; exact h0

theorem planOKFrom_get : ∀ (l : List Node) (k : Nat), planOKFrom k l = true →
    ∀ (j : Nat) (nd : Node), l[j]? = some nd → nodeOK (k + j) nd = true
  | [], _, _, j, nd, h => by simp at h
  | x :: rest, k, hok, j, nd, h => by
    simp only [planOKFrom, Bool.and_eq_true] at hok
    cases j with
    | zero =>
      simp only [List.getElem?_cons_zero, Option.some.injEq] at h
      subst h; exact hok.1
    | succ j =>
      simp only [List.getElem?_cons_succ] at h
      have := planOKFrom_get rest (k + 1) hok.2 j nd h
      have e : k + (j + 1) = k + 1 + j := by omega
      rw [e]; exact this

theorem planOK_node {p : Plan} (hok : planOK p = true) {i : Nat} {nd : Node} (h : p[i]? = some nd) :
    nodeOK i nd = true := by
  simp only [planOK, Bool.and_eq_true] at hok
  have := planOKFrom_get p.toList 0 hok.2 i nd (by simpa using h)
  simpa using this

theorem planOK_pos {p : Plan} (hok : planOK p = true) : 0 < p.size := by
  simp only [planOK, Bool.and_eq_true, bne_iff_ne, ne_eq] at hok
  omega

theorem nodeOK_shape {i : Nat} {nd : Node} (h : nodeOK i nd = true) : shapeOK nd = true := by
  simp only [nodeOK, Bool.and_eq_true] at h
  cases nd with
  | disconnect a oy => cases oy <;> simp_all [shapeOK]
  | word n bits => simpa [shapeOK] using h.2
  | hidden hh => simp at h
  | _ => rfl

theorem nodeOK_children {i : Nat} {nd : Node} (h : nodeOK i nd = true) : ∀ c ∈ nd.children, c < i := by
  simp only [nodeOK, Bool.and_eq_true, List.all_eq_true, decide_eq_true_eq] at h
  exact h.1

/-- what `infer` returns: the arrows of a solution `ρ` of all constraints -/
theorem infer_sol {jt : JetTypes} {p : Plan} {program : Bool} {ar : Arrows}
    (h : infer jt p program = .ok ar) :
    ∃ ρ E, constraints jt p program = some E ∧ Inf.Sol ρ E ∧ ar = arrowsOf p.size ρ := by
  unfold infer at h
  cases hc : constraints jt p program with
  | none => rw [hc] at h; cases h
  | some E =>
    rw [hc] at h
    simp only at h
    cases hu : Inf.unify unifyFuel E [] with
    | ok S =>
      rw [hu] at h
      simp only [InferRes.ok.injEq] at h
      exact ⟨Inf.closeUnit S, E, rfl, (Inf.unify_least _ _ _ hu).1, h.symm⟩
    | clash => rw [hu] at h; cases h
    | occurs => rw [hu] at h; cases h
    | fuel => rw [hu] at h; cases h

/-- **an accepted, well-formed plan satisfies the typing rule at every node**, and a program's root
is `1 → 1` -/
theorem infer_rules {jt : JetTypes} {p : Plan} {program : Bool} {ar : Arrows}
    (h : infer jt p program = .ok ar) (hok : planOK p = true) :
    ar.size = p.size ∧
    (∀ i nd, p[i]? = some nd → NodeRule jt ar (srcOf ar i) (tgtOf ar i) nd) ∧
    (program = true → srcOf ar (p.size - 1) = .one ∧ tgtOf ar (p.size - 1) = .one) := by
  obtain ⟨ρ, E, hc, hsol, rfl⟩ := infer_sol h
  simp only [constraints, Option.bind_eq_bind, Option.bind_eq_some_iff, Option.pure_def,
    Option.some.injEq] at hc
  obtain ⟨es, hgo, hE⟩ := hc
  obtain ⟨_, hmem⟩ := go_mem p.toList 0 (2 * p.size) [] es hgo
  have hpos := planOK_pos hok
  refine ⟨by simp [arrowsOf], ?_, ?_⟩
  · intro i nd hnd
    have hi : i < p.size := by
      rcases Nat.lt_or_ge i p.size with hlt | hge
      · exact hlt
      · rw [Array.getElem?_eq_none hge] at hnd; cases hnd
    obtain ⟨f0, es0, f1, h0, hsub⟩ := hmem i nd (by simpa using hnd)
    rw [Nat.zero_add] at h0
    have hnok := planOK_node hok hnd
    rw [srcOf_arrowsOf _ _ hi, tgtOf_arrowsOf _ _ hi]
    refine nodeRule_of_eqns h0 ?_ ?_ (nodeOK_shape hnok)
    · intro e he
      apply hsol
      rw [← hE]
      cases program
      · simpa using hsub e he
      · simp only [if_true]; exact List.mem_append_left _ (hsub e he)
    · intro c hc
      have := nodeOK_children hnok c hc
      omega
  · intro hp
    subst hp
    simp only [if_true] at hE
    have h1 := hsol (src (p.size - 1), .one) (by rw [← hE]; simp)
    have h2 := hsol (tgt (p.size - 1), .one) (by rw [← hE]; simp)
    simp only [src, tgt, Inf.Tm.eval] at h1 h2
    rw [srcOf_arrowsOf _ _ (by omega), tgtOf_arrowsOf _ _ (by omega), h1, h2]
    exact ⟨rfl, rfl⟩

end Routes
