/-
Spike: C16 — the threshold choice of `Policy::satisfy_internal`: sort the children by cost
(unsatisfied children cost `CONSENSUS_MAX`), keep the first `k`, succeed iff all kept are satisfied.
-/
namespace Thresh

def MAX : Nat := 4000050000

/-- a child result: (cost, satisfied) -/
abbrev Item := Nat × Bool

/-- unsatisfied children are given cost `MAX`; satisfied ones cost less -/
def Wf (items : List Item) : Prop := ∀ it ∈ items, (it.2 = true ↔ it.1 < MAX) ∧ it.1 ≤ MAX

def le (a b : Item) : Bool := decide (a.1 ≤ b.1)

/-- `indices.sort_by_key(cost); indices.truncate(k); all selected ok` -/
def selectedOk (k : Nat) (items : List Item) : Bool := ((items.mergeSort le).take k).all (·.2)

theorem le_trans' (a b c : Item) (h1 : le a b = true) (h2 : le b c = true) : le a c = true := by
  simp only [le, decide_eq_true_eq] at *; omega
theorem le_total' (a b : Item) : (le a b || le b a) = true := by
  simp only [le, Bool.or_eq_true, decide_eq_true_eq]; omega

/-- **threshold choice**: the selection succeeds iff at least `min k n` children are satisfied -/
theorem selectedOk_iff (k : Nat) (items : List Item) (hw : Wf items) :
    selectedOk k items = true ↔ min k items.length ≤ items.countP (·.2) := by
  unfold selectedOk
  have hperm := List.mergeSort_perm items le
  have hsorted := List.pairwise_mergeSort le_trans' le_total' items
  generalize items.mergeSort le = s at *
  have hlen : s.length = items.length := hperm.length_eq
  have hcount : s.countP (·.2) = items.countP (·.2) := hperm.countP_eq _
  have hws : ∀ it ∈ s, (it.2 = true ↔ it.1 < MAX) ∧ it.1 ≤ MAX := fun it h => hw it (hperm.mem_iff.1 h)
  rw [← hcount, ← hlen]
  constructor
  · intro h
    have h1 : (s.take k).countP (·.2) = (s.take k).length := by
      rw [List.countP_eq_length]
      intro a ha
      exact (List.all_eq_true.1 h) a ha
    have h2 : (s.take k).countP (·.2) ≤ s.countP (·.2) := (List.take_sublist k s).countP_le
    rw [List.length_take] at h1
    omega
  · intro h
    rw [List.all_eq_true]
    intro x hx
    cases hx2 : x.2 with
    | true => rfl
    | false =>
      exfalso
      obtain ⟨a, b, hab⟩ := List.append_of_mem hx
      have hs : s = a ++ x :: (b ++ s.drop k) := by
        conv => lhs; rw [← List.take_append_drop k s, hab]
        simp
      have hxmax : x.1 = MAX := by
        have hx' := hws x (by rw [hs]; simp)
        have : ¬ x.1 < MAX := fun hlt => by have := hx'.1.2 hlt; rw [hx2] at this; cases this
        omega
      have htail : (x :: (b ++ s.drop k)).countP (·.2) = 0 := by
        rw [List.countP_eq_zero]
        intro y hy
        rw [hs] at hsorted
        have hp := (List.pairwise_append.1 hsorted).2.1
        have hy' := hws y (by rw [hs]; simp only [List.mem_append]; exact .inr hy)
        rcases List.mem_cons.1 hy with rfl | hy2
        · simp [hx2]
        · have := (List.pairwise_cons.1 hp).1 y hy2
          simp only [le, decide_eq_true_eq] at this
          intro hyt
          have := hy'.1.1 hyt
          omega
      have hc : s.countP (·.2) ≤ a.length := by
        conv => lhs; rw [hs]
        rw [List.countP_append, htail, Nat.add_zero]
        exact List.countP_le_length
      have hk : a.length < (s.take k).length := by rw [hab]; simp
      rw [List.length_take] at hk
      omega

/-- specification: a threshold is met iff at least `k` children are satisfied -/
def thrSat (k : Nat) (items : List Item) : Bool := decide (k ≤ items.countP (·.2))

/-- the selection agrees with the specification whenever `k ≤ n`; for `k > n` the selection may
succeed (all children satisfied) but then exactly `n < k` witness bits are set and the compiled
program's final `eq_32(sum, k)` fails, which `Policy::satisfy` reports as `AssemblyFailed` -/
theorem selectedOk_spec (k : Nat) (items : List Item) (hw : Wf items) (hk : k ≤ items.length) :
    selectedOk k items = thrSat k items := by
  have := selectedOk_iff k items hw
  rw [Nat.min_eq_left hk] at this
  unfold thrSat
  cases h : selectedOk k items with
  | true => simp [this.1 h]
  | false =>
    have : ¬ k ≤ items.countP (·.2) := fun hc => by rw [this.2 hc] at h; cases h
    simp [this]

#print axioms selectedOk_spec
end Thresh
