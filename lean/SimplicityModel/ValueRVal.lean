/-
C10 / C11 — `RVal`, the model of `Value` / `ValueRef` (buffer, bit offset, type), with the
operations of `src/value.rs`, and the proof that each one refines the bit-level operation of
`ValueBits.lean` on the view of the value — for any well-formed argument, whatever its buffer
holds outside the value's own bits and whatever its offset.
-/
import SimplicityModel.ValueBuf

namespace Vl
open Bytes (getBit setBit)

structure RVal where
  buf : List Nat
  off : Nat
  ty : Ty
deriving Repr

namespace RVal

/-- the value's own bits: `bit_width` bits from the offset -/
def bits (r : RVal) : List Bool := window r.buf r.off r.ty.bw
/-- the view of the value: what the bit-level layer talks about -/
def view (r : RVal) : BV := ⟨r.ty, r.bits⟩
/-- the buffer covers the value, and holds bytes -/
def WF (r : RVal) : Prop := r.off + r.ty.bw ≤ 8 * r.buf.length ∧ BytesOK r.buf
/-- the value denotes the abstract element `x` -/
def Den (r : RVal) (x : Val) : Prop := r.WF ∧ r.view.Den x

@[simp] theorem view_ty (r : RVal) : r.view.ty = r.ty := rfl
theorem view_wf (r : RVal) : r.view.WF := by simp [BV.WF, view, bits]

/-! ### accessors -/

/-- `ValueRef::first_bit`: `inner.get(bit_offset / 8).map(|x| x & mask == mask)` -/
def firstBit (r : RVal) : Option Bool :=
  if r.off / 8 < r.buf.length then some (getBit r.buf r.off) else none

/-- `ValueRef::as_left` -/
def asLeft (r : RVal) : Option RVal :=
  if r.firstBit = some false then
    match r.ty with
    | .sum a b => some ⟨r.buf, r.off + (1 + max a.bw b.bw) - a.bw, a⟩
    | _ => none
  else none

/-- `ValueRef::as_right` -/
def asRight (r : RVal) : Option RVal :=
  if r.firstBit = some true then
    match r.ty with
    | .sum a b => some ⟨r.buf, r.off + (1 + max a.bw b.bw) - b.bw, b⟩
    | _ => none
  else none

/-- `ValueRef::as_product` -/
def asProduct (r : RVal) : Option (RVal × RVal) :=
  match r.ty with
  | .prod a b => some (⟨r.buf, r.off, a⟩, ⟨r.buf, r.off + a.bw, b⟩)
  | _ => none

/-! ### constructors -/

/-- `Value::unit` -/
def unit : RVal := ⟨[], 0, .one⟩

/-- `Value::left(inner, right)` -/
def left (v : RVal) (b : Ty) : RVal :=
  let total := max v.ty.bw b.bw
  let c := bufProduct none (total - v.ty.bw) (some (v.buf, v.off)) v.ty.bw
  let s := rightShift1 c.1 c.2 false
  ⟨s.1, s.2, .sum v.ty b⟩

/-- `Value::right(left, inner)` -/
def right (a : Ty) (v : RVal) : RVal :=
  let total := max a.bw v.ty.bw
  let c := bufProduct none (total - v.ty.bw) (some (v.buf, v.off)) v.ty.bw
  let s := rightShift1 c.1 c.2 true
  ⟨s.1, s.2, .sum a v.ty⟩

/-- `Value::product(left, right)` -/
def product (l r : RVal) : RVal :=
  let p := bufProduct (some (l.buf, l.off)) l.ty.bw (some (r.buf, r.off)) r.ty.bw
  ⟨p.1, p.2, .prod l.ty r.ty⟩

/-- `Value::zero(ty)` -/
def zero (t : Ty) : RVal := ⟨List.replicate ((t.bw + 7) / 8) 0, 0, t⟩

/-- `Value::u1 … u512`: the bytes as given; `u1/u2/u4` sit at the low end of their byte -/
def word (n : Nat) (bytes : List Nat) : RVal :=
  ⟨bytes, if n < 3 then 8 - 2 ^ n else 0, Ty.word n⟩

/-! ### the padded iterator -/

/-- one item of `RawByteIter` -/
def rawByte (r : RVal) (y : Nat) : Nat :=
  if r.off % 8 = 0 then r.buf.getD (r.off / 8 + y) 0
  else
    let ret1 := r.buf.getD (r.off / 8 + y) 0
    let ret2 := r.buf.getD (r.off / 8 + y + 1) 0
    let bo := r.off % 8
    ((ret1 <<< bo) % 256) ||| (ret2 >>> (8 - bo))

/-- `RawByteIter`: bytes while `8 * yielded < bit_width` -/
def rawBytes (r : RVal) : List Nat := (List.range ((r.ty.bw + 7) / 8)).map r.rawByte

/-- the bits of a byte, most significant first -/
def byteBits (b : Nat) : List Bool := (List.range 8).map fun k => b.testBit (7 - k)
/-- `BitIter` over a byte iterator -/
def bitsOfBytes : List Nat → List Bool
  | [] => []
  | b :: bs => byteBits b ++ bitsOfBytes bs

/-- `ValueRef::iter_padded`: `BitIter::new(raw_byte_iter()).take(bit_width)` -/
def iterPadded (r : RVal) : List Bool := (bitsOfBytes r.rawBytes).take r.ty.bw

/-! ### the compact iterator -/

theorem asLeft_size {r l : RVal} (h : r.asLeft = some l) : l.ty.size < r.ty.size := by
  unfold asLeft at h
  split at h
  · split at h
    · next a b e => cases h; simp [e, Ty.size]; omega
    · cases h
  · cases h

theorem asRight_size {r l : RVal} (h : r.asRight = some l) : l.ty.size < r.ty.size := by
  unfold asRight at h
  split at h
  · split at h
    · next a b e => cases h; simp [e, Ty.size]; omega
    · cases h
  · cases h

theorem asProduct_size {r l x : RVal} (h : r.asProduct = some (l, x)) :
    l.ty.size < r.ty.size ∧ x.ty.size < r.ty.size := by
  unfold asProduct at h
  split at h
  · next a b e => cases h; simp [e, Ty.size]; omega
  · cases h

/-- `CompactBitsIter`: zero-width values yield nothing; a left value yields `0` and its payload,
a right value `1` and its payload, a product its two halves; (the explicit stack of the Rust
iterator is this recursion) -/
def iterCompact (r : RVal) : List Bool :=
  if r.ty.bw = 0 then [] else
  match h : r.asLeft with
  | some l => false :: l.iterCompact
  | none =>
    match h2 : r.asRight with
    | some x => true :: x.iterCompact
    | none =>
      match h3 : r.asProduct with
      | some (l, x) => l.iterCompact ++ x.iterCompact
      | none => []
termination_by r.ty.size
decreasing_by
  · exact asLeft_size h
  · exact asRight_size h2
  · exact (asProduct_size h3).1
  · exact (asProduct_size h3).2

/-- `Value::compact_len` -/
def compactLen (r : RVal) : Nat := r.iterCompact.length
/-- `Value::padded_len` -/
def paddedLen (r : RVal) : Nat := r.ty.bw

/-! ### decoders -/

/-- a byte from up to eight bits, most significant first (`last |= 1 << (7 - i)`) -/
def packAt (i : Nat) : List Bool → Nat
  | [] => 0
  | b :: bs => (if b then 1 <<< (7 - i) else 0) ||| packAt (i + 1) bs
def packByte (bs : List Bool) : Nat := packAt 0 bs

/-- `Value::from_padded_bits`: `bit_width / 8` whole bytes (`read_u8`), then the remaining bits
into one more byte, which is pushed even when there are none -/
def fromPaddedBits (t : Ty) (inp : List Bool) : Option (RVal × List Bool) :=
  if inp.length < t.bw then none else
  let full := (List.range (t.bw / 8)).map fun k => packByte ((inp.drop (8 * k)).take 8)
  let last := packByte ((inp.drop (8 * (t.bw / 8))).take (t.bw % 8))
  some (⟨full ++ [last], 0, t⟩, inp.drop t.bw)

/-- `Value::from_compact_bits` (the explicit stack of the Rust function is this recursion) -/
def fromCompactBits : Ty → List Bool → Option (RVal × List Bool)
  | .one, inp => fromPaddedBits .one inp
  | .sum a b, inp =>
    if (Ty.sum a b).hasPadding = false then fromPaddedBits (.sum a b) inp else
    match inp with
    | [] => none
    | false :: r => (fromCompactBits a r).map fun (v, r') => (v.left b, r')
    | true :: r => (fromCompactBits b r).map fun (v, r') => (RVal.right a v, r')
  | .prod a b, inp =>
    if (Ty.prod a b).hasPadding = false then fromPaddedBits (.prod a b) inp else
    match fromCompactBits a inp with
    | none => none
    | some (x, r) => (fromCompactBits b r).map fun (y, r') => (x.product y, r')

/-! ### prune -/

/-- `Value::prune` (the task stack of the Rust function is this recursion) -/
def prune : Ty → RVal → Option RVal
  | .one, v => if v.ty = .one then some v else some unit
  | .sum a b, v =>
    if v.ty = .sum a b then some v else
    match v.asLeft with
    | some l => (prune a l).map fun w => w.left b
    | none =>
      match v.asRight with
      | some r => (prune b r).map fun w => RVal.right a w
      | none => none
  | .prod a b, v =>
    if v.ty = .prod a b then some v else
    match v.asProduct with
    | none => none
    | some (l, r) =>
      match prune a l, prune b r with
      | some x, some y => some (x.product y)
      | _, _ => none

/-! ## refinement -/

theorem firstBit_of_wf {r : RVal} (h : r.WF) (hw : 0 < r.ty.bw) : r.firstBit = some (getBit r.buf r.off) := by
  unfold firstBit
  have := h.1
  rw [if_pos (by omega)]

theorem bits_sum {r : RVal} {a b : Ty} (e : r.ty = .sum a b) :
    r.bits = getBit r.buf r.off :: window r.buf (r.off + 1) (max a.bw b.bw) := by
  simp only [bits, e, Ty.bw]
  rw [show 1 + max a.bw b.bw = max a.bw b.bw + 1 by omega, window_succ]

theorem asLeft_refines {r : RVal} (h : r.WF) :
    (r.asLeft.map view = r.view.asLeft) ∧ ∀ l, r.asLeft = some l → l.WF ∧ l.buf = r.buf := by
  obtain ⟨buf, off, ty⟩ := r
  cases ty with
  | one =>
    refine ⟨?_, ?_⟩
    · simp only [asLeft, BV.asLeft, view]; split <;> rfl
    · intro l hl; simp only [asLeft] at hl; split at hl <;> cases hl
  | prod a b =>
    refine ⟨?_, ?_⟩
    · simp only [asLeft, BV.asLeft, view]; split <;> rfl
    · intro l hl; simp only [asLeft] at hl; split at hl <;> cases hl
  | sum a b =>
    have fb := firstBit_of_wf h (by simp [Ty.bw]; omega)
    have hb := bits_sum (r := ⟨buf, off, .sum a b⟩) rfl
    simp only at fb hb
    have hcov := h.1
    simp only [Ty.bw] at hcov
    cases hg : getBit buf off with
    | true =>
      refine ⟨?_, ?_⟩
      · simp [asLeft, fb, hg, BV.asLeft, view, hb]
      · intro l hl; simp [asLeft, fb, hg] at hl
    | false =>
      refine ⟨?_, ?_⟩
      · simp only [asLeft, fb, hg, if_true, Option.map_some, BV.asLeft, view, hb]
        congr 2
        simp only [bits]
        have e1 : max a.bw b.bw = padL a b + a.bw := by simp [padL]; omega
        rw [e1, window_drop]
        congr 1; simp [padL]; omega
      · intro l hl
        simp only [asLeft, fb, hg, if_true, Option.some.injEq] at hl
        subst hl
        exact ⟨⟨by simp only; omega, h.2⟩, rfl⟩

theorem asRight_refines {r : RVal} (h : r.WF) :
    (r.asRight.map view = r.view.asRight) ∧ ∀ l, r.asRight = some l → l.WF ∧ l.buf = r.buf := by
  obtain ⟨buf, off, ty⟩ := r
  cases ty with
  | one =>
    refine ⟨?_, ?_⟩
    · simp only [asRight, BV.asRight, view]; split <;> rfl
    · intro l hl; simp only [asRight] at hl; split at hl <;> cases hl
  | prod a b =>
    refine ⟨?_, ?_⟩
    · simp only [asRight, BV.asRight, view]; split <;> rfl
    · intro l hl; simp only [asRight] at hl; split at hl <;> cases hl
  | sum a b =>
    have fb := firstBit_of_wf h (by simp [Ty.bw]; omega)
    have hb := bits_sum (r := ⟨buf, off, .sum a b⟩) rfl
    simp only at fb hb
    have hcov := h.1
    simp only [Ty.bw] at hcov
    cases hg : getBit buf off with
    | false =>
      refine ⟨?_, ?_⟩
      · simp [asRight, fb, hg, BV.asRight, view, hb]
      · intro l hl; simp [asRight, fb, hg] at hl
    | true =>
      refine ⟨?_, ?_⟩
      · simp only [asRight, fb, hg, if_true, Option.map_some, BV.asRight, view, hb]
        congr 2
        simp only [bits]
        have e1 : max a.bw b.bw = padR a b + b.bw := by simp [padR]; omega
        rw [e1, window_drop]
        congr 1; simp [padR]; omega
      · intro l hl
        simp only [asRight, fb, hg, if_true, Option.some.injEq] at hl
        subst hl
        exact ⟨⟨by simp only; omega, h.2⟩, rfl⟩

theorem asProduct_refines {r : RVal} (h : r.WF) :
    (r.asProduct.map fun p => (p.1.view, p.2.view)) = r.view.asProduct ∧
    ∀ l x, r.asProduct = some (l, x) → l.WF ∧ x.WF ∧ l.buf = r.buf ∧ x.buf = r.buf := by
  obtain ⟨buf, off, ty⟩ := r
  cases ty with
  | one => exact ⟨rfl, by intro l x hl; cases hl⟩
  | sum a b => exact ⟨rfl, by intro l x hl; cases hl⟩
  | prod a b =>
    have hcov := h.1
    simp only [Ty.bw] at hcov
    refine ⟨?_, ?_⟩
    · simp only [asProduct, Option.map_some, BV.asProduct, view, bits, Ty.bw, window_take, window_drop]
    · intro l x hl
      simp only [asProduct, Option.some.injEq, Prod.mk.injEq] at hl
      obtain ⟨rfl, rfl⟩ := hl
      exact ⟨⟨by simp only; omega, h.2⟩, ⟨by simp only; omega, h.2⟩, rfl, rfl⟩

/-! #### constructors -/

theorem unit_wf : unit.WF := ⟨by simp [unit, Ty.bw], by intro x hx; cases hx⟩
theorem unit_view : unit.view = BV.unit := rfl

theorem left_refines {v : RVal} (h : v.WF) (b : Ty) : (v.left b).view = v.view.left b ∧ (v.left b).WF := by
  have hp := bufProduct_spec none (max v.ty.bw b.bw - v.ty.bw) (some (v.buf, v.off)) v.ty.bw trivial ⟨h.1, h.2⟩
  simp only at hp
  obtain ⟨p1, p2, p3⟩ := hp
  have hs := rightShift1_spec _ _ (max v.ty.bw b.bw - v.ty.bw + v.ty.bw) false p2 p3
  simp only at hs
  obtain ⟨s1, s2, s3⟩ := hs
  have e : 1 + max v.ty.bw b.bw = max v.ty.bw b.bw - v.ty.bw + v.ty.bw + 1 := by omega
  refine ⟨?_, ?_, s3⟩
  · simp only [view, left, bits, BV.left, Ty.bw, e, s1, p1, optWindow, padL]
  · simp only [left, Ty.bw, e]; exact s2

theorem right_refines (a : Ty) {v : RVal} (h : v.WF) :
    (RVal.right a v).view = BV.right a v.view ∧ (RVal.right a v).WF := by
  have hp := bufProduct_spec none (max a.bw v.ty.bw - v.ty.bw) (some (v.buf, v.off)) v.ty.bw trivial ⟨h.1, h.2⟩
  simp only at hp
  obtain ⟨p1, p2, p3⟩ := hp
  have hs := rightShift1_spec _ _ (max a.bw v.ty.bw - v.ty.bw + v.ty.bw) true p2 p3
  simp only at hs
  obtain ⟨s1, s2, s3⟩ := hs
  have e : 1 + max a.bw v.ty.bw = max a.bw v.ty.bw - v.ty.bw + v.ty.bw + 1 := by omega
  refine ⟨?_, ?_, s3⟩
  · simp only [view, right, bits, BV.right, Ty.bw, e, s1, p1, optWindow, padR]
  · simp only [right, Ty.bw, e]; exact s2

theorem product_refines {l r : RVal} (hl : l.WF) (hr : r.WF) :
    (l.product r).view = l.view.product r.view ∧ (l.product r).WF := by
  have hp := bufProduct_spec (some (l.buf, l.off)) l.ty.bw (some (r.buf, r.off)) r.ty.bw ⟨hl.1, hl.2⟩ ⟨hr.1, hr.2⟩
  simp only at hp
  obtain ⟨p1, p2, p3⟩ := hp
  refine ⟨?_, ?_, p3⟩
  · simp only [view, product, bits, BV.product, Ty.bw, p1, optWindow]
  · simp only [product, Ty.bw]; exact p2

theorem zero_refines (t : Ty) : (zero t).view = BV.zero t ∧ (zero t).WF := by
  refine ⟨?_, ?_, bytesOK_replicate _⟩
  · simp only [view, zero, bits, BV.zero, window_replicate_zero]
  · simp only [zero, List.length_replicate]; omega

/-! #### the padded iterator -/

theorem bitsOfBytes_length : ∀ (bs : List Nat), (bitsOfBytes bs).length = 8 * bs.length
  | [] => rfl
  | b :: bs => by simp [bitsOfBytes, byteBits, bitsOfBytes_length bs]; omega

theorem bitsOfBytes_getElem? : ∀ (bs : List Nat) (i : Nat),
    (bitsOfBytes bs)[i]? = (bs[i / 8]?).map fun b => b.testBit (7 - i % 8)
  | [], i => by simp [bitsOfBytes]
  | b :: bs, i => by
    simp only [bitsOfBytes]
    by_cases hi : i < 8
    · rw [List.getElem?_append_left (by simp [byteBits]; exact hi)]
      have h0 : i / 8 = 0 := by omega
      have h1 : i % 8 = i := by omega
      simp [h0, h1, byteBits, hi]
    · rw [List.getElem?_append_right (by simp [byteBits]; omega)]
      have hl : (byteBits b).length = 8 := by simp [byteBits]
      rw [hl, bitsOfBytes_getElem? bs (i - 8)]
      have h0 : i / 8 = (i - 8) / 8 + 1 := by omega
      have h1 : i % 8 = (i - 8) % 8 := by omega
      rw [h0, h1]; simp

/-- item `y` of the raw byte iterator holds bits `8y .. 8y+8` of the value -/
theorem rawByte_testBit (r : RVal) (hb : BytesOK r.buf) (y k : Nat) (hk : k < 8) :
    (r.rawByte y).testBit (7 - k) = getBit r.buf (r.off + 8 * y + k) := by
  unfold rawByte getBit
  by_cases h0 : r.off % 8 = 0
  · simp only [h0, if_true]
    have e1 : (r.off + 8 * y + k) / 8 = r.off / 8 + y := by omega
    have e2 : (r.off + 8 * y + k) % 8 = k := by omega
    rw [e1, e2]
  · simp only [h0, if_false]
    have hbo : r.off % 8 < 8 := Nat.mod_lt _ (by decide)
    rw [Nat.testBit_or, Nat.testBit_shiftRight]
    have h256 : (256 : Nat) = 2 ^ 8 := by decide
    rw [h256, Nat.testBit_mod_two_pow, Nat.testBit_shiftLeft]
    by_cases hc : k + r.off % 8 < 8
    · have e1 : (r.off + 8 * y + k) / 8 = r.off / 8 + y := by omega
      have e2 : (r.off + 8 * y + k) % 8 = k + r.off % 8 := by omega
      rw [e1, e2]
      have z : (r.buf.getD (r.off / 8 + y + 1) 0).testBit (8 - r.off % 8 + (7 - k)) = false :=
        testBit_lt_256 (bytesOK_getD hb _) (by omega)
      rw [z]
      have d1 : 7 - k < 8 := by omega
      have d2 : 7 - k ≥ r.off % 8 := by omega
      simp only [d1, d2, decide_true, Bool.true_and, Bool.or_false]
      congr 1; omega
    · have e1 : (r.off + 8 * y + k) / 8 = r.off / 8 + y + 1 := by omega
      have e2 : (r.off + 8 * y + k) % 8 = k + r.off % 8 - 8 := by omega
      rw [e1, e2]
      have d2 : ¬ (7 - k ≥ r.off % 8) := by omega
      simp only [d2, decide_false, Bool.false_and, Bool.and_false, Bool.false_or]
      congr 1; omega

/-- **`iter_padded` yields exactly the value's own bits** -/
theorem iterPadded_eq_bits {r : RVal} (h : r.WF) : r.iterPadded = r.bits := by
  unfold iterPadded bits
  apply eq_window
  · rw [List.length_take, bitsOfBytes_length]; simp [rawBytes]; omega
  · intro i hi
    rw [List.getElem?_take_of_lt hi, bitsOfBytes_getElem?]
    have hy : i / 8 < (r.ty.bw + 7) / 8 := by omega
    simp only [rawBytes, List.getElem?_map, List.getElem?_range hy, Option.map_some]
    rw [rawByte_testBit r h.2 _ _ (Nat.mod_lt _ (by decide))]
    congr 2; omega

/-! #### the compact iterator -/

theorem strip_bw_zero : ∀ (t : Ty) (bs : List Bool), t.bw = 0 → strip t bs = []
  | .one, _, _ => rfl
  | .sum a b, _, h => by simp [Ty.bw] at h
  | .prod a b, bs, h => by
    simp only [Ty.bw] at h
    simp [strip, strip_bw_zero a _ (by omega), strip_bw_zero b _ (by omega)]

theorem iterCompact_zero {r : RVal} (hz : r.ty.bw = 0) : r.iterCompact = [] := by
  rw [iterCompact]; simp [hz]

theorem iterCompact_left {r l : RVal} (hz : ¬ r.ty.bw = 0) (h : r.asLeft = some l) :
    r.iterCompact = false :: l.iterCompact := by
  rw [iterCompact]
  simp only [hz, if_false]
  split
  · next l' hl' => rw [h] at hl'; cases hl'; rfl
  · next hl' => rw [h] at hl'; cases hl'

theorem iterCompact_right {r x : RVal} (hz : ¬ r.ty.bw = 0) (h1 : r.asLeft = none) (h : r.asRight = some x) :
    r.iterCompact = true :: x.iterCompact := by
  rw [iterCompact]
  simp only [hz, if_false]
  split
  · next l' hl' => rw [h1] at hl'; cases hl'
  · split
    · next l' hl' => rw [h] at hl'; cases hl'; rfl
    · next hl' => rw [h] at hl'; cases hl'

theorem iterCompact_prod {r l x : RVal} (hz : ¬ r.ty.bw = 0) (h1 : r.asLeft = none) (h2 : r.asRight = none)
    (h : r.asProduct = some (l, x)) : r.iterCompact = l.iterCompact ++ x.iterCompact := by
  rw [iterCompact]
  simp only [hz, if_false]
  split
  · next l' hl' => rw [h1] at hl'; cases hl'
  · split
    · next l' hl' => rw [h2] at hl'; cases hl'
    · split
      · next l' x' hl' => rw [h] at hl'; cases hl'; rfl
      · next hl' => rw [h] at hl'; cases hl'

theorem bits_sub_left (buf : List Nat) (off : Nat) (a b : Ty) :
    (⟨buf, off + (1 + max a.bw b.bw) - a.bw, a⟩ : RVal).bits =
      (window buf (off + 1) (max a.bw b.bw)).drop (padL a b) := by
  simp only [bits]
  have e1 : max a.bw b.bw = padL a b + a.bw := by simp [padL]; omega
  rw [e1, window_drop]
  congr 1; simp [padL]; omega

theorem bits_sub_right (buf : List Nat) (off : Nat) (a b : Ty) :
    (⟨buf, off + (1 + max a.bw b.bw) - b.bw, b⟩ : RVal).bits =
      (window buf (off + 1) (max a.bw b.bw)).drop (padR a b) := by
  simp only [bits]
  have e1 : max a.bw b.bw = padR a b + b.bw := by simp [padR]; omega
  rw [e1, window_drop]
  congr 1; simp [padR]; omega

/-- **`iter_compact` is the padded form with the sum padding removed** -/
theorem iterCompact_eq_strip : ∀ (n : Nat) (r : RVal), r.ty.size ≤ n → r.WF →
    r.iterCompact = strip r.ty r.bits
  | 0, r, hn, _ => by cases h : r.ty <;> simp [h, Ty.size] at hn <;> omega
  | n + 1, r, hn, h => by
    by_cases hz : r.ty.bw = 0
    · rw [iterCompact_zero hz, strip_bw_zero _ _ hz]
    · obtain ⟨buf, off, ty⟩ := r
      cases ty with
      | one => simp [Ty.bw] at hz
      | sum a b =>
        have fb := firstBit_of_wf h (by simp [Ty.bw]; omega)
        have hb := bits_sum (r := ⟨buf, off, .sum a b⟩) rfl
        simp only at hb fb
        simp only [Ty.size] at hn
        cases hg : getBit buf off with
        | false =>
          have hl : asLeft ⟨buf, off, .sum a b⟩ = some ⟨buf, off + (1 + max a.bw b.bw) - a.bw, a⟩ := by
            simp [asLeft, fb, hg]
          have hw := ((asLeft_refines h).2 _ hl).1
          rw [iterCompact_left hz hl, iterCompact_eq_strip n _ (by simp only; omega) hw, hb, hg,
            bits_sub_left]
          simp only [strip]
        | true =>
          have hl : asLeft ⟨buf, off, .sum a b⟩ = none := by simp [asLeft, fb, hg]
          have hr : asRight ⟨buf, off, .sum a b⟩ = some ⟨buf, off + (1 + max a.bw b.bw) - b.bw, b⟩ := by
            simp [asRight, fb, hg]
          have hw := ((asRight_refines h).2 _ hr).1
          rw [iterCompact_right hz hl hr, iterCompact_eq_strip n _ (by simp only; omega) hw, hb, hg,
            bits_sub_right]
          simp only [strip]
      | prod a b =>
        simp only [Ty.size] at hn
        have hnl : asLeft ⟨buf, off, .prod a b⟩ = none := by
          simp only [asLeft]; split <;> rfl
        have hnr : asRight ⟨buf, off, .prod a b⟩ = none := by
          simp only [asRight]; split <;> rfl
        have hp : asProduct ⟨buf, off, .prod a b⟩ = some (⟨buf, off, a⟩, ⟨buf, off + a.bw, b⟩) := rfl
        have hw := (asProduct_refines h).2 _ _ hp
        rw [iterCompact_prod hz hnl hnr hp, iterCompact_eq_strip n _ (by simp only; omega) hw.1,
          iterCompact_eq_strip n _ (by simp only; omega) hw.2.1]
        simp only [strip, bits, Ty.bw, window_take, window_drop]

theorem iterCompact_view {r : RVal} (h : r.WF) : r.iterCompact = r.view.iterCompact :=
  iterCompact_eq_strip _ r (Nat.le_refl _) h

end RVal
end Vl
