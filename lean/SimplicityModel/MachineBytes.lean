import SimplicityModel.Machine4 -- (spike: module Spk.Machine4 = spikes/Machine.lean)
import SimplicityModel.Bytes
/-
Spike: C05 byte layer — the machine on a byte buffer (`Vec<u8>`, bit `i` = bit `7 - i%8` of byte
`i/8`, `Frame::write_bit` as `|= mask` / `&= !mask`) simulates the machine on a cell function.
-/
namespace BM4
open Bytes

structure BM where
  data : List Nat
  next : Nat
  read : List Frame
  write : List Frame
  fcap : Nat

def BM.cap (bm : BM) : Nat := 8 * bm.data.length

/-- abstraction: the cell function of a byte buffer -/
def abs (bm : BM) : M := ⟨getBit bm.data, bm.next, bm.read, bm.write, bm.cap, bm.fcap⟩

def writeBitB (b : Bool) (bm : BM) : Except Err BM :=
  match bm.write with
  | [] => .error .crash
  | w :: ws =>
    if w.cursor < bm.cap then
      .ok { bm with data := setBit bm.data w.cursor b, write := { w with cursor := w.cursor + 1 } :: ws }
    else .error .crash

def writeBitsB : List Bool → BM → Except Err BM
  | [], bm => .ok bm
  | b :: bs, bm => do let bm ← writeBitB b bm; writeBitsB bs bm

def skipB (n : Nat) (bm : BM) : Except Err BM :=
  if n = 0 then .ok bm else
  match bm.write with
  | [] => .error .crash
  | w :: ws => .ok { bm with write := { w with cursor := w.cursor + n } :: ws }

def fwdB (n : Nat) (bm : BM) : Except Err BM :=
  if n = 0 then .ok bm else
  match bm.read with
  | [] => .error .crash
  | r :: rs => .ok { bm with read := { r with cursor := r.cursor + n } :: rs }

def backB (n : Nat) (bm : BM) : Except Err BM :=
  if n = 0 then .ok bm else
  match bm.read with
  | [] => .error .crash
  | r :: rs => .ok { bm with read := { r with cursor := r.cursor - n } :: rs }

/-- `Frame::copy_from` on bytes -/
def copyData (data : List Nat) (src dst : Nat) : Nat → List Nat
  | 0 => data
  | n+1 => copyData (setBit data dst (getBit data src)) (src + 1) (dst + 1) n

def copyB (n : Nat) (bm : BM) : Except Err BM :=
  if n = 0 then .ok bm else
  match bm.read, bm.write with
  | r :: _, w :: ws =>
    if r.cursor + n ≤ bm.cap ∧ w.cursor + n ≤ bm.cap then
      .ok { bm with data := copyData bm.data r.cursor w.cursor n,
                    write := { w with cursor := w.cursor + n } :: ws }
    else .error .crash
  | _, _ => .error .crash

def newWriteB (n : Nat) (bm : BM) : Except Err BM :=
  if bm.next + n ≤ bm.cap ∧ bm.write.length + bm.read.length < bm.fcap then
    .ok { bm with write := ⟨bm.next, bm.next, n⟩ :: bm.write, next := bm.next + n }
  else .error .crash

def moveWriteToReadB (bm : BM) : Except Err BM :=
  match bm.write with
  | [] => .error .crash
  | w :: ws => .ok { bm with write := ws, read := { w with cursor := w.start } :: bm.read }

def dropReadB (bm : BM) : Except Err BM :=
  match bm.read with
  | [] => .error .crash
  | r :: rs => if bm.next - r.len = r.start then .ok { bm with read := rs, next := bm.next - r.len }
               else .error .crash

def peekB (bm : BM) : Except Err Bool :=
  match bm.read with
  | [] => .error .crash
  | r :: _ => if r.cursor < bm.cap then .ok (getBit bm.data r.cursor) else .error .crash

def rcurB (bm : BM) : Nat := match bm.read with | [] => 0 | r :: _ => r.cursor

def runB : {a b : Ty} → Term a b → BM → Except Err BM
  | a, _, .iden, m => copyB a.bw m
  | _, _, .unit, m => .ok m
  | _, _, @Term.injl _ b c t, m => do
      let m ← writeBitB false m
      let m ← skipB (padL b c) m
      runB t m
  | _, _, @Term.injr _ b c t, m => do
      let m ← writeBitB true m
      let m ← skipB (padR b c) m
      runB t m
  | _, _, .take t, m => runB t m
  | _, _, @Term.drop a _ _ t, m => do
      let m ← fwdB a.bw m
      let m ← runB t m
      backB a.bw m
  | _, _, @Term.comp _ b _ s t, m => do
      let m ← newWriteB b.bw m
      let m ← runB s m
      let m ← moveWriteToReadB m
      let m ← runB t m
      dropReadB m
  | _, _, @Term.case a b _ _ s t, m => do
      let bit ← peekB m
      if bit then do
        let m ← fwdB (1 + padR a b) m
        let m ← runB t m
        backB (1 + padR a b) m
      else do
        let m ← fwdB (1 + padL a b) m
        let m ← runB s m
        backB (1 + padL a b) m
  | _, _, .pair s t, m => do
      let m ← runB s m
      runB t m
  | _, _, .fail, _ => .error .fail
  | _, b, .witness w, m => writeBitsB (padded b w) m
  | _, _, @Term.assertl a b _ _ s, m => do
      let bit ← peekB m
      if bit then .error .fail
      else do
        let m ← fwdB (1 + padL a b) m
        let m ← runB s m
        backB (1 + padL a b) m
  | _, _, @Term.assertr a b _ _ t, m => do
      let bit ← peekB m
      if bit then do
        let m ← fwdB (1 + padR a b) m
        let m ← runB t m
        backB (1 + padR a b) m
      else .error .fail
  | _, b, .word w, m => writeBitsB (padded b w) m
  | a, _, .jet jf _, m =>
      if (a.bw ≠ 0 ∧ m.read = []) ∨ m.cap < rcurB m + a.bw then .error .crash else
      match jf (slice (getBit m.data) (rcurB m) a.bw) with
      | none => .error .fail
      | some out => writeBitsB out m
  | _, _, @Term.disconnect a b c _ w cw s t, m => do
      let m ← newWriteB (w.bw + a.bw) m
      let m ← writeBitsB (padded w cw) m
      let m ← copyB a.bw m
      let m ← moveWriteToReadB m
      let m ← newWriteB (b.bw + c.bw) m
      let m ← runB s m
      let m ← moveWriteToReadB m
      let m ← copyB b.bw m
      let m ← fwdB b.bw m
      let m ← runB t m
      let m ← dropReadB m
      dropReadB m

/-! ### simulation -/

theorem setBit_length (data : List Nat) (i : Nat) (b : Bool) : (setBit data i b).length = data.length := by
  simp [setBit]

theorem getBit_setBit_fun (data : List Nat) (i : Nat) (b : Bool) (h : i < 8 * data.length) :
    getBit (setBit data i b) = upd (getBit data) i b := by
  funext j
  rw [getBit_setBit data i j b (by omega)]
  rfl

theorem copyData_spec : ∀ (n : Nat) (data : List Nat) (src dst : Nat), dst + n ≤ 8 * data.length →
    (copyData data src dst n).length = data.length ∧
    getBit (copyData data src dst n) = copyCells (getBit data) src dst n
  | 0, data, _, _, _ => ⟨rfl, rfl⟩
  | n+1, data, src, dst, h => by
    simp only [copyData, copyCells]
    have ih := copyData_spec n (setBit data dst (getBit data src)) (src + 1) (dst + 1)
      (by rw [setBit_length]; omega)
    rw [setBit_length] at ih
    refine ⟨ih.1, ?_⟩
    rw [ih.2, getBit_setBit_fun data dst _ (by omega)]

/-- simulation relation as an equation: mapping `abs` over the byte-level result gives the
cell-level result -/
def Sim (x : Except Err BM) (y : Except Err M) : Prop := x.map abs = y

theorem Sim.bind {x : Except Err BM} {y : Except Err M} {f : BM → Except Err BM} {g : M → Except Err M}
    (h : Sim x y) (hf : ∀ bm, Sim (f bm) (g (abs bm))) : Sim (x >>= f) (y >>= g) := by
  unfold Sim at *
  cases x with
  | error e => subst h; rfl
  | ok bm => subst h; exact hf bm

theorem sim_writeBit (b : Bool) (bm : BM) : Sim (writeBitB b bm) (writeBit b (abs bm)) := by
  unfold Sim writeBitB writeBit
  cases hw : bm.write with
  | nil => simp [abs, hw]; rfl
  | cons w ws =>
    simp only [abs, hw]
    by_cases hc : w.cursor < bm.cap
    · simp only [hc, if_true]
      show Except.ok (abs _) = _
      simp only [abs, BM.cap, setBit_length]
      rw [getBit_setBit_fun _ _ _ (by simpa [BM.cap] using hc)]
    · simp only [hc, if_false]; rfl

theorem sim_writeBits : ∀ (bs : List Bool) (bm : BM), Sim (writeBitsB bs bm) (writeBits bs (abs bm))
  | [], _ => rfl
  | b :: bs, bm => by
    simp only [writeBitsB, writeBits]
    exact (sim_writeBit b bm).bind (fun bm' => sim_writeBits bs bm')

theorem sim_skip (n : Nat) (bm : BM) : Sim (skipB n bm) (skip n (abs bm)) := by
  unfold Sim skipB skip
  by_cases h : n = 0
  · simp [h]; rfl
  · simp only [h, if_false]
    cases hw : bm.write <;> simp [abs, hw] <;> rfl

theorem sim_fwd (n : Nat) (bm : BM) : Sim (fwdB n bm) (fwd n (abs bm)) := by
  unfold Sim fwdB fwd
  by_cases h : n = 0
  · simp [h]; rfl
  · simp only [h, if_false]
    cases hw : bm.read <;> simp [abs, hw] <;> rfl

theorem sim_back (n : Nat) (bm : BM) : Sim (backB n bm) (back n (abs bm)) := by
  unfold Sim backB back
  by_cases h : n = 0
  · simp [h]; rfl
  · simp only [h, if_false]
    cases hw : bm.read <;> simp [abs, hw] <;> rfl

theorem sim_copy (n : Nat) (bm : BM) : Sim (copyB n bm) (copy n (abs bm)) := by
  unfold Sim copyB copy
  by_cases h : n = 0
  · simp [h]; rfl
  · simp only [h, if_false]
    cases hr : bm.read with
    | nil => simp [abs, hr]; rfl
    | cons r rs =>
      cases hw : bm.write with
      | nil => simp [abs, hr, hw]; rfl
      | cons w ws =>
        simp only [abs, hr, hw]
        by_cases hc : r.cursor + n ≤ bm.cap ∧ w.cursor + n ≤ bm.cap
        · simp only [hc, and_self, if_true]
          have := copyData_spec n bm.data r.cursor w.cursor (by simpa [BM.cap] using hc.2)
          show Except.ok (abs _) = _
          simp only [abs, BM.cap, this.1, this.2]
        · simp only [hc, if_false]; rfl

theorem sim_newWrite (n : Nat) (bm : BM) : Sim (newWriteB n bm) (newWrite n (abs bm)) := by
  unfold Sim newWriteB newWrite
  by_cases h : bm.next + n ≤ bm.cap ∧ bm.write.length + bm.read.length < bm.fcap
  · simp only [abs, h, and_self, if_true]; rfl
  · simp only [abs, h, if_false]; rfl

theorem sim_move (bm : BM) : Sim (moveWriteToReadB bm) (moveWriteToRead (abs bm)) := by
  unfold Sim moveWriteToReadB moveWriteToRead
  cases hw : bm.write <;> simp [abs, hw] <;> rfl

theorem sim_drop (bm : BM) : Sim (dropReadB bm) (dropRead (abs bm)) := by
  unfold Sim dropReadB dropRead
  cases hr : bm.read with
  | nil => simp [abs, hr]; rfl
  | cons r rs =>
    simp only [abs, hr]
    by_cases h : bm.next - r.len = r.start
    · simp only [h, if_true]; rfl
    · simp only [h, if_false]; rfl

theorem peek_abs (bm : BM) : peekB bm = peek (abs bm) := by
  unfold peekB peek
  cases hr : bm.read <;> simp [abs, hr]

theorem Sim.bindBool {x : Except Err Bool} {f : Bool → Except Err BM} {g : Bool → Except Err M}
    (hf : ∀ b, Sim (f b) (g b)) : Sim (x >>= f) (x >>= g) := by
  cases x with
  | error e => rfl
  | ok b => exact hf b

/-- **C05, byte layer**: the machine on bytes and the machine on cells compute the same thing -/
theorem sim_run : ∀ {a b : Ty} (t : Term a b) (bm : BM), Sim (runB t bm) (run t (abs bm)) := by
  intro a b t
  induction t with
  | iden => intro bm; exact sim_copy _ bm
  | unit => intro bm; rfl
  | injl t ih =>
    intro bm; simp only [runB, run]
    exact (sim_writeBit _ bm).bind fun bm1 => (sim_skip _ bm1).bind fun bm2 => ih bm2
  | injr t ih =>
    intro bm; simp only [runB, run]
    exact (sim_writeBit _ bm).bind fun bm1 => (sim_skip _ bm1).bind fun bm2 => ih bm2
  | take t ih => intro bm; exact ih bm
  | drop t ih =>
    intro bm; simp only [runB, run]
    exact (sim_fwd _ bm).bind fun bm1 => (ih bm1).bind fun bm2 => sim_back _ bm2
  | comp s t ihs iht =>
    intro bm; simp only [runB, run]
    exact (sim_newWrite _ bm).bind fun bm1 => (ihs bm1).bind fun bm2 => (sim_move bm2).bind fun bm3 =>
      (iht bm3).bind fun bm4 => sim_drop bm4
  | case s t ihs iht =>
    intro bm; simp only [runB, run]
    rw [peek_abs]
    apply Sim.bindBool
    intro bit
    cases bit with
    | true => exact (sim_fwd _ bm).bind fun bm1 => (iht bm1).bind fun bm2 => sim_back _ bm2
    | false => exact (sim_fwd _ bm).bind fun bm1 => (ihs bm1).bind fun bm2 => sim_back _ bm2
  | pair s t ihs iht =>
    intro bm; simp only [runB, run]
    exact (ihs bm).bind fun bm1 => iht bm1
  | fail => intro bm; rfl
  | witness w => intro bm; exact sim_writeBits _ bm
  | word w => intro bm; exact sim_writeBits _ bm
  | assertl s ih =>
    intro bm; simp only [runB, run]
    rw [peek_abs]
    apply Sim.bindBool
    intro bit
    cases bit with
    | true => rfl
    | false => exact (sim_fwd _ bm).bind fun bm1 => (ih bm1).bind fun bm2 => sim_back _ bm2
  | assertr t ih =>
    intro bm; simp only [runB, run]
    rw [peek_abs]
    apply Sim.bindBool
    intro bit
    cases bit with
    | false => rfl
    | true => exact (sim_fwd _ bm).bind fun bm1 => (ih bm1).bind fun bm2 => sim_back _ bm2
  | jet jf f =>
    intro bm
    simp only [runB, run]
    have h1 : rcurB bm = rcur (abs bm) := rfl
    have h2 : bm.cap = (abs bm).cap := rfl
    have h3 : bm.read = (abs bm).read := rfl
    rw [h1, h2, h3]
    split
    · rfl
    · show Sim (match jf (slice (abs bm).cells _ _) with | none => _ | some out => _) _
      cases jf (slice (abs bm).cells (rcur (abs bm)) _) with
      | none => rfl
      | some out => exact sim_writeBits out bm
  | disconnect w cw s t ihs iht =>
    intro bm; simp only [runB, run]
    exact (sim_newWrite _ bm).bind fun bm1 => (sim_writeBits _ bm1).bind fun bm2 =>
      (sim_copy _ bm2).bind fun bm3 => (sim_move bm3).bind fun bm4 => (sim_newWrite _ bm4).bind fun bm5 =>
      (ihs bm5).bind fun bm6 => (sim_move bm6).bind fun bm7 => (sim_copy _ bm7).bind fun bm8 =>
      (sim_fwd _ bm8).bind fun bm9 => (iht bm9).bind fun bm10 => (sim_drop bm10).bind fun bm11 =>
      sim_drop bm11

#print axioms sim_run
end BM4
