/-
The digests as functions of the view: every digest jet but `transaction_id` depends on the supplied
data only through `envView` (`specD_view`), `sig_all_hash` only through the view without the script
signatures (`sigAll_of_signed`).
-/
import SimplicityModel.EnvDigestCommit
namespace Env

theorem specTx_view (e : EnvArgs) :
    specTx e = txDigestsOf ((envView e).ins.map InView.pieces) ((envView e).outs.map OutView.pieces)
      (envView e).version (envView e).lockTime (txidOf e.tx) := by
  simp only [specTx, envView, List.map_map]
  rfl

theorem specTap_view (e : EnvArgs) : specTap e = (envView e).tap := rfl

theorem d0Bytes_txid (g : D0) (hg : g ≠ .transactionId) (ins outs v l t1 t2 tap sa) :
    d0Bytes g (txDigestsOf ins outs v l t1) tap sa = d0Bytes g (txDigestsOf ins outs v l t2) tap sa := by
  cases g <;> first | rfl | exact absurd rfl hg

theorem specSigAll_view (e : EnvArgs) : specSigAll e = (envView e).sigAll := by
  simp only [specSigAll, EnvView.sigAll, specTap_view, specTx_view]
  rfl

/-- every digest jet but `transaction_id` is a function of the view -/
theorem specD_view (q : DQuery) (hq : q ≠ .nullary .transactionId) (e : EnvArgs) :
    specD q e = viewD q (envView e) := by
  cases q with
  | nullary g =>
    have hg : g ≠ .transactionId := fun h => hq (by rw [h])
    simp only [specD, viewD, specSigAll_view, specTap_view, specTx_view, EnvView.tx]
    rw [d0Bytes_txid g hg]
  | input g i =>
    simp only [specD, viewD, envView, List.getElem?_map, Option.map_map]
    rfl
  | outputHash i =>
    simp only [specD, viewD, envView, List.getElem?_map, Option.map_map]
    rfl

theorem signed_tx_txHash (v : EnvView) : v.signed.tx.txHash = v.tx.txHash := by
  simp only [EnvView.tx, EnvView.signed, txDigestsOf, List.map_map, List.flatMap_map]
  rfl

theorem signed_sigAll (v : EnvView) : v.signed.sigAll = v.sigAll := by
  simp only [EnvView.sigAll, signed_tx_txHash]
  rfl

/-- `sig_all_hash` depends on nothing but the view without the script signatures -/
theorem sigAll_of_signed (e1 e2 : EnvArgs) (h : (envView e1).signed = (envView e2).signed) :
    specSigAll e1 = specSigAll e2 := by
  rw [specSigAll_view, specSigAll_view, ← signed_sigAll, h, signed_sigAll]

/-! ### the bits a jet writes determine the bytes -/

theorem natBits_length (w n : Nat) : (natBits w n).length = w := by simp [natBits]

theorem byteBits_inj {a b : UInt8} (h : byteBits a = byteBits b) : a = b := by
  apply UInt8.toNat_inj.mp
  apply Nat.eq_of_testBit_eq
  intro j
  by_cases hj : j < 8
  · have := congrArg (fun l => l[7 - j]?) h
    simp only [byteBits, natBits, List.getElem?_map] at this
    rw [List.getElem?_range (by omega)] at this
    simp only [Option.map_some, Option.some.injEq] at this
    have e : 8 - 1 - (7 - j) = j := by omega
    rw [e] at this
    exact this
  · have ha : a.toNat < 2 ^ j := Nat.lt_of_lt_of_le a.toNat_lt (Nat.pow_le_pow_right (by decide) (by omega : 8 ≤ j))
    have hb : b.toNat < 2 ^ j := Nat.lt_of_lt_of_le b.toNat_lt (Nat.pow_le_pow_right (by decide) (by omega : 8 ≤ j))
    rw [Nat.testBit_lt_two_pow ha, Nat.testBit_lt_two_pow hb]

theorem bytesBits_inj {x y : Bytes} (h : bytesBits x = bytesBits y) : x = y := by
  have hm := flatMap_code (prefixCode_fixed 8) byteBits (fun b => natBits_length 8 _)
    (fun b hb => by have := natBits_length 8 b.toNat; rw [byteBits] at hb; rw [hb] at this; exact absurd this (by decide)) x y h
  obtain ⟨hlen, hget⟩ := map_eq_get hm
  exact List.ext_getElem hlen fun i h1 h2 => byteBits_inj (hget i h1 h2)


end Env
