/-
Helper lemmas for the digest theorems of `Props/C15.lean`: the pieces the C side takes from what
`c_env.rs` marshalled are the pieces of the view of the supplied data (`inPieces_marshal`,
`outPieces_marshal`), hence all cached digests agree (`cBuildD_marshalD`).
`Sha256.hash` and `compressIV` are never unfolded.
-/
import SimplicityModel.EnvLemmas
import SimplicityModel.EnvDigest
namespace Env

theorem be64_eq (v : UInt64) : be64 v = beNat64 v.toNat := rfl

theorem shaConfAsset_cconfOf (c : Conf) : shaConfAsset (cconfOf c) = serializeConf 0x0a c := by
  cases c with
  | null => rfl
  | explicit d => rfl
  | confidential odd x => cases odd <;> rfl

theorem shaConfNonce_cconfOf (c : Conf) : shaConfNonce (cconfOf c) = serializeConf 0x02 c := by
  cases c with
  | null => rfl
  | explicit d => rfl
  | confidential odd x => cases odd <;> rfl

theorem shaConfAmt_camtOf (a : Amount) : shaConfAmt (camtOf a) = digAmount a.norm := by
  cases a with
  | null => rfl
  | explicit v => rfl
  | confidential odd x => cases odd <;> rfl

theorem norm_isConfidential (a : Amount) : a.norm.isConfidential = a.isConfidential := by
  cases a <;> rfl

theorem explicit0_dig : shaConfAmt explicit0 = digAmount (.explicit 0) := rfl

theorem issKind_cases (i : TxIn) : i.issKind = .none ∨ i.issKind = .new ∨ i.issKind = .reissuance := by
  cases i.issKind <;> simp

theorem inPieces_marshal (p : TxIn × Utxo) :
    cInPieces (copyInput (marshalInput p)) = (inView p).pieces := by
  obtain ⟨i, u⟩ := p
  have hiss : (copyInput (marshalInput (i, u))).issuance = cissOf i := copyIssuance_marshal (i, u)
  simp only [cInPieces, InView.pieces, InPieces.mk.injEq, cIssEntropy, cIssAssetId, cIssTokenId, hiss]
  refine ⟨?_, ?_, ?_, ?_, ?_, ?_, ?_, ?_, ?_, ?_, ?_⟩
  · cases h : i.peginGenesis <;> simp [copyInput, marshalInput, inView, h, optPiece]
  · simp [copyInput, marshalInput, inView, copy_asset, copy_amt, shaConfAsset_cconfOf, shaConfAmt_camtOf]
  · rfl
  · rfl
  · cases h : getAnnex i.scriptWitness <;> simp [copyInput, marshalInput, inView, h, optPiece]
  · rfl
  · rcases issKind_cases i with h | h | h <;>
      simp [inView, TxIn.issView, cissOf, InView.assetId, InView.entropy, h,
        IssView.entropy, IssView.amount, shaConfAmt_camtOf, copyInput, marshalInput]
  · rcases issKind_cases i with h | h | h <;>
      simp [inView, TxIn.issView, cissOf, InView.tokenId, InView.entropy, h,
        IssView.entropy, IssView.amount, shaConfAmt_camtOf, copyInput, marshalInput,
        camtOf_isConfidential, norm_isConfidential, explicit0_dig]
  · rcases issKind_cases i with h | h | h <;>
      simp [inView, TxIn.issView, cissOf, h, emptyHash, proofShown, IssView.proofs, apply_ite Sha256.hash]
  · rcases issKind_cases i with h | h | h <;> simp [inView, TxIn.issView, cissOf, h]
  · rcases issKind_cases i with h | h | h <;>
      simp [inView, TxIn.issView, cissOf, InView.assetId, InView.tokenId, InView.entropy, h,
        IssView.entropy, IssView.amount, copyInput, marshalInput, camtOf_isConfidential,
        norm_isConfidential]

theorem outPieces_marshal (o : TxOut) : cOutPieces (copyOutput (marshalOutput o)) = (outView o).pieces := by
  simp [cOutPieces, OutView.pieces, copyOutput, marshalOutput, outView, copy_asset, copy_amt, copy_nonce,
    shaConfAsset_cconfOf, shaConfNonce_cconfOf, shaConfAmt_camtOf, cconfOf_isConfidential,
    camtOf_isConfidential, proofShown]

theorem txDigests_marshal (e : EnvArgs) (txid : Bytes) :
    (cDigests (cBuild (marshal e)) txid).tx =
      txDigestsOf (e.shown.map fun p => (inView p).pieces) (e.tx.outputs.map fun o => (outView o).pieces)
        e.tx.version e.tx.lockTime txid := by
  simp only [cDigests, cBuild, marshal, buildTx, EnvArgs.shown, List.map_map]
  congr 1
  · apply List.map_congr_left; intro p _; exact inPieces_marshal p
  · apply List.map_congr_left; intro o _; exact outPieces_marshal o

theorem path_marshal (e : EnvArgs) :
    (buildTap (marshal e).tap).path = e.controlBlock.merkleBranch.map (·.bytes) := by
  simp only [buildTap, marshal, ControlBlock.serialize]
  apply List.ext_getElem
  · simp
  · intro i h1 h2
    have hi : i < e.controlBlock.merkleBranch.length := by simpa using h2
    simp only [List.getElem_map, List.getElem_range]
    rw [← flatten_chunk _ _ hi]
    have : 33 + 32 * i = (e.controlBlock.internalKey.bytes.length + 32 * i) + 1 := by
      rw [e.controlBlock.internalKey.len]; omega
    rw [this, List.drop_succ_cons, List.drop_append,
      List.drop_of_length_le (by omega), Nat.add_sub_cancel_left, List.nil_append]

theorem tapDigests_marshal (e : EnvArgs) (txid : Bytes) :
    (cDigests (cBuild (marshal e)) txid).tap = specTap e := by
  simp only [cDigests, cBuild, specTap]
  rw [path_marshal]
  have hk : (buildTap (marshal e).tap).internalKey = e.controlBlock.internalKey.bytes := by
    simp only [buildTap, marshal, ControlBlock.serialize, List.drop_succ_cons, List.drop_zero]
    rw [List.take_left' e.controlBlock.internalKey.len]
  have hv : (buildTap (marshal e).tap).leafVersion = e.controlBlock.leafVersion := by
    simp only [buildTap, marshal, ControlBlock.serialize, List.headD_cons]
    rw [leaf_version _ _ e.controlBlock.even]
  rw [hk, hv]
  rfl

theorem cBuildD_marshalD (e : EnvArgs) :
    (cBuildD (marshalD e)).tx = specTx e ∧ (cBuildD (marshalD e)).tap = specTap e ∧
    (cBuildD (marshalD e)).sigAllHash = specSigAll e ∧ (cBuildD (marshalD e)).env = cBuild (marshal e) := by
  have h1 := txDigests_marshal e (txidOf e.tx)
  have h2 := tapDigests_marshal e (txidOf e.tx)
  refine ⟨h1, h2, ?_, rfl⟩
  show Sha256.hash (sigAllPre _ (cDigests (cBuild (marshal e)) (txidOf e.tx)).tx.txHash
    (cDigests (cBuild (marshal e)) (txidOf e.tx)).tap.tapEnvHash _) = _
  rw [h1, h2]
  rfl

end Env
