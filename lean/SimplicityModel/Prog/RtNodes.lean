/-
C01, general round trip, structure: from the run of the encoder on an arbitrary plan whose identity
roots separate its nodes (`IhrFaithful`) to the node correspondence `NodeMap` between the plan and the
plan that `convert` rebuilds from the written node list.
-/
import SimplicityModel.Prog.RtBytes
import SimplicityModel.Prog.RtTypes
import SimplicityModel.Prog.RtAnnots
set_option linter.unusedSimpArgs false
namespace Prog
open Wire PO
variable {J : Type}

/-- **identity roots separate the nodes of the plan**: two nodes with one identity root have the same
kind and payload, children with pairwise equal identity roots, the same arrow and — witness nodes —
the same witness bits.  This is what collision-freedom of SHA-256 gives for kind, payload, arrow,
witness value and the identity Merkle roots of the children (the identity root commits to them);
that the *identity roots* (i.e. also the arrows) of the children agree is in addition the condition
that nodes merged by the encoder have their children merged as well. -/
def IhrFaithful (p : Plan) (arrows : Array (BM4.Ty × BM4.Ty)) (an : Array Annot)
    (wit : Nat → Option (List Bool)) : Prop :=
  ∀ (i i' : Nat) (nd nd' : Node), p[i]? = some nd → p[i']? = some nd' →
    (an.getD i default).ihr = (an.getD i' default).ihr →
    nd.shape = nd'.shape ∧
    (∀ (k c c' : Nat), nd.children[k]? = some c → nd'.children[k]? = some c' →
      (an.getD c default).ihr = (an.getD c' default).ihr) ∧
    arrows.getD i (.one, .one) = arrows.getD i' (.one, .one) ∧
    (nd = .witness → wit i = wit i')

/-- reachable from the root -/
inductive PlanReach (p : Plan) : Nat → Prop
  | root : PlanReach p (p.size - 1)
  | child {i c : Nat} {nd : Node} : PlanReach p i → p[i]? = some nd → c ∈ nd.children → PlanReach p c

theorem encKey_even (p : Plan) (an : Array Annot) (i : Nat) (hi : i < an.size) :
    encKey p an true (2 * i) = some (false, (an.getD i default).ihr) := by
  unfold encKey
  rw [if_neg (by omega), two_mul_div, Array.getElem?_eq_getElem hi]
  simp [Array.getD, hi]

theorem encKey_odd (p : Plan) (an : Array Annot) (i a h : Nat)
    (hp : p[i]? = some (.assertl a h) ∨ p[i]? = some (.assertr h a)) :
    encKey p an true (2 * i + 1) = some (true, h) := by
  unfold encKey
  rw [if_pos (by omega), two_mul_succ_div]
  rcases hp with hp | hp <;> rw [hp]

/-- the children of a plan node in the encoder's DAG -/
def encChOf (i : Nat) : Node → List Nat
  | .assertl a _ => [2 * a, 2 * i + 1]
  | .assertr _ b => [2 * i + 1, 2 * b]
  | nd => nd.children.map (2 * ·)

theorem encChildren_even (p : Plan) (i : Nat) (nd : Node) (hp : p[i]? = some nd) :
    encChildren p true (2 * i) = encChOf i nd := by
  unfold encChildren
  rw [if_neg (by omega), two_mul_div, hp]
  cases nd
  case disconnect a b => cases b <;> simp [encChOf, Node.children]
  all_goals simp [encChOf, Node.children]

theorem mem_encChildren (p : Plan) (i : Nat) (nd : Node) (c : Nat) (hp : p[i]? = some nd)
    (hc : c ∈ nd.children) : 2 * c ∈ encChildren p true (2 * i) := by
  rw [encChildren_even p i nd hp]
  cases nd
  case disconnect a b => cases b <;> simp [encChOf, Node.children] at hc ⊢ <;> omega
  all_goals (simp [encChOf, Node.children] at hc ⊢)
  all_goals omega

theorem encCongr_of_faithful {p : Plan} {arrows : Array (BM4.Ty × BM4.Ty)} {an : Array Annot}
    {wit : Nat → Option (List Bool)} (hsz : an.size = p.size) (hb : PlanBackward p)
    (hf : IhrFaithful p arrows an wit) : EncCongr p an := by
  intro t t' ht ht' hk
  obtain ⟨k, hkt⟩ := Option.isSome_iff_exists.mp (encKey_total p an hsz t ht)
  have hkt' : encKey p an true t' = some k := by rw [← hk]; exact hkt
  have hpar : t % 2 = 1 ↔ t' % 2 = 1 := by
    rw [← encKey_fst p an t k hkt, ← encKey_fst p an t' k hkt']
  by_cases h2 : t % 2 = 1
  · have h2' := hpar.mp h2
    simp [encChildren, h2, h2']
  · have h2' : ¬ t' % 2 = 1 := fun h => h2 (hpar.mpr h)
    obtain ⟨i, rfl⟩ : ∃ i, t = 2 * i := ⟨t / 2, by omega⟩
    obtain ⟨i', rfl⟩ : ∃ i', t' = 2 * i' := ⟨t' / 2, by omega⟩
    have hi : i < p.size := by
      rcases ht with ⟨_, h⟩ | ⟨h, _⟩
      · rwa [two_mul_div] at h
      · omega
    have hi' : i' < p.size := by
      rcases ht' with ⟨_, h⟩ | ⟨h, _⟩
      · rwa [two_mul_div] at h
      · omega
    rw [encKey_even p an i (by omega), encKey_even p an i' (by omega)] at hk
    simp only [Option.some.injEq, Prod.mk.injEq, true_and] at hk
    have hp : p[i]? = some p[i] := Array.getElem?_eq_getElem hi
    have hp' : p[i']? = some p[i'] := Array.getElem?_eq_getElem hi'
    obtain ⟨hsh, hkids, _, _⟩ := hf i i' _ _ hp hp' hk
    have hbk := hb i _ hp
    have hbk' := hb i' _ hp'
    rw [encChildren_even p i _ hp, encChildren_even p i' _ hp']
    have ev : ∀ c c', c < i → c' < i' → (an.getD c default).ihr = (an.getD c' default).ihr →
        encKey p an true (2 * c) = encKey p an true (2 * c') := by
      intro c c' h1 h2 e
      rw [encKey_even p an c (by omega), encKey_even p an c' (by omega), e]
    generalize p[i] = nd at hp hsh hkids hbk
    generalize p[i'] = nd' at hp' hsh hkids hbk'
    cases nd
    case disconnect a b =>
      cases nd' <;> simp [Node.shape, Node.mapCh] at hsh
      rename_i a' b'
      cases b with
      | none =>
        cases b' with
        | some _ => simp at hsh
        | none =>
          simp [Node.children] at hbk hbk'
          have h0 := hkids 0 a a' (by simp [Node.children]) (by simp [Node.children])
          simp [encChOf, Node.children, ev a a' hbk hbk' h0]
      | some b =>
        cases b' with
        | none => simp at hsh
        | some b' =>
          simp [Node.children] at hbk hbk'
          have h0 := hkids 0 a a' (by simp [Node.children]) (by simp [Node.children])
          have h1 := hkids 1 b b' (by simp [Node.children]) (by simp [Node.children])
          simp [encChOf, Node.children, ev a a' hbk.1 hbk'.1 h0, ev b b' hbk.2 hbk'.2 h1]
    case iden | unit | witness | hidden h | fail e | word n bits | jet name =>
      cases nd' <;> simp [Node.shape, Node.mapCh] at hsh
      all_goals simp [encChOf, Node.children]
    case injl c | injr c | take c | drop c =>
      cases nd' <;> simp [Node.shape, Node.mapCh] at hsh
      rename_i c'
      simp [Node.children] at hbk hbk'
      have h0 := hkids 0 c c' (by simp [Node.children]) (by simp [Node.children])
      simp [encChOf, Node.children, ev c c' hbk hbk' h0]
    case comp a b | case a b | pair a b =>
      cases nd' <;> simp [Node.shape, Node.mapCh] at hsh
      rename_i a' b'
      simp [Node.children] at hbk hbk'
      have h0 := hkids 0 a a' (by simp [Node.children]) (by simp [Node.children])
      have h1 := hkids 1 b b' (by simp [Node.children]) (by simp [Node.children])
      simp [encChOf, Node.children, ev a a' hbk.1 hbk'.1 h0, ev b b' hbk.2 hbk'.2 h1]
    case assertl a x =>
      cases nd' <;> simp [Node.shape, Node.mapCh] at hsh
      rename_i a' x'
      subst hsh
      simp [Node.children] at hbk hbk'
      have h0 := hkids 0 a a' (by simp [Node.children]) (by simp [Node.children])
      simp [encChOf, ev a a' hbk hbk' h0, encKey_odd p an i a x (.inl hp), encKey_odd p an i' a' x (.inl hp')]
    case assertr x b =>
      cases nd' <;> simp [Node.shape, Node.mapCh] at hsh
      rename_i x' b'
      subst hsh
      simp [Node.children] at hbk hbk'
      have h0 := hkids 0 b b' (by simp [Node.children]) (by simp [Node.children])
      simp [encChOf, ev b b' hbk hbk' h0, encKey_odd p an i b x (.inr hp), encKey_odd p an i' b' x (.inr hp')]

#print axioms encCongr_of_faithful

/-- the wire node of a plan node whose children's classes are at the positions `φ` and whose hidden
pseudo-node (assertions) is at position `hid` -/
def wireNd (ofName : String → Option J) (φ : Nat → Nat) (hid : Nat) : Node → Option (WNode J)
  | .iden => some .iden
  | .unit => some .unit
  | .witness => some .witness
  | .injl c => some (.injl (φ c))
  | .injr c => some (.injr (φ c))
  | .take c => some (.take (φ c))
  | .drop c => some (.drop (φ c))
  | .comp a b => some (.comp (φ a) (φ b))
  | .case a b => some (.case (φ a) (φ b))
  | .pair a b => some (.pair (φ a) (φ b))
  | .assertl a _ => some (.case (φ a) hid)
  | .assertr _ b => some (.case hid (φ b))
  | .disconnect a (some b) => some (.disc (φ a) (φ b))
  | .disconnect a none => some (.disc1 (φ a))
  | .fail e => some (.fail (bytesBits e))
  | .word n bits => some (.word n bits)
  | .jet name => (ofName name).map .jet
  | .hidden _ => none

/-- the wire node written for an item whose node has the kind of plan node `i` and whose child
references are the positions `f` of the children of `i` is `wireNd` of node `i` -/
theorem wireOf_class (ofName : String → Option J) (p : Plan) (f : Nat → Nat) (o : WOut) (n : WNode J)
    (i i₀ : Nat) (nd nd₀ : Node) (ho : o.node = 2 * i₀) (hp0 : p[i₀]? = some nd₀)
    (hsh : nd₀.shape = nd.shape) (hw : wireOf ofName p o = some n)
    (hch : wch n = (encChOf i nd).map f) :
    wireNd ofName (fun c => f (2 * c)) (f (2 * i + 1)) nd = some n := by
  rcases o with ⟨node, index, li, ri⟩
  simp only at ho
  subst ho
  unfold wireOf at hw
  simp only [two_mul_mod, two_mul_div, hp0] at hw
  rw [if_neg (by omega)] at hw
  cases nd₀
  case disconnect a b =>
    cases nd <;> simp [Node.shape, Node.mapCh] at hsh
    rename_i a' b'
    cases b with
    | none =>
      cases b' with
      | some _ => simp at hsh
      | none =>
        rcases li with _ | li <;> simp at hw
        subst hw
        simp [wch, encChOf, Node.children] at hch
        simp [wireNd, hch]
    | some b =>
      cases b' with
      | none => simp at hsh
      | some b' =>
        rcases li with _ | li <;> rcases ri with _ | ri <;> simp at hw <;> subst hw <;>
          simp [wch, encChOf, Node.children] at hch
        simp [wireNd, hch]
  case jet name =>
    cases nd <;> simp [Node.shape, Node.mapCh] at hsh
    subst hsh
    simp at hw
    obtain ⟨j, hj, rfl⟩ := hw
    simp [wireNd, hj]
  case hidden h => simp at hw
  case iden | unit | witness =>
    cases nd <;> simp [Node.shape, Node.mapCh] at hsh
    simp at hw; subst hw
    simp [wireNd]
  case fail e =>
    cases nd <;> simp [Node.shape, Node.mapCh] at hsh
    subst hsh
    simp at hw; subst hw
    simp [wireNd]
  case word k bits =>
    cases nd <;> simp [Node.shape, Node.mapCh] at hsh
    obtain ⟨rfl, rfl⟩ := hsh
    simp at hw; subst hw
    simp [wireNd]
  case injl c | injr c | take c | drop c =>
    cases nd <;> simp [Node.shape, Node.mapCh] at hsh
    rcases li with _ | li <;> simp at hw
    subst hw
    simp [wch, encChOf, Node.children] at hch
    simp [wireNd, hch]
  case comp a b | case a b | pair a b =>
    cases nd <;> simp [Node.shape, Node.mapCh] at hsh
    rcases li with _ | li <;> rcases ri with _ | ri <;> simp at hw
    subst hw
    simp [wch, encChOf, Node.children] at hch
    simp [wireNd, hch]
  case assertl a x | assertr x b =>
    cases nd <;> simp [Node.shape, Node.mapCh] at hsh
    rcases li with _ | li <;> rcases ri with _ | ri <;> simp at hw
    subst hw
    simp [wch, encChOf, Node.children] at hch
    simp [wireNd, hch]

/-- conversion of `wireNd` of a node: the node with mapped children, given which positions hold
hidden nodes -/
theorem convNode_wireNd (nameOf : J → String) (ofName : String → Option J)
    (hnm : ∀ name j, ofName name = some j → nameOf j = name)
    (A : Array (WNode J)) (φ : Nat → Nat) (hid : Nat) (nd nd' : Node) (n : WNode J)
    (hn : wireNd ofName φ hid nd = some n) (hc : convNode nameOf A n = .ok nd')
    (hvis : ∀ c ∈ nd.children, hiddenAt A (φ c) = none)
    (hhid : ∀ a h, nd = .assertl a h ∨ nd = .assertr h a → hiddenAt A hid = some h)
    (hfail : ∀ e, nd = .fail e → ∀ b ∈ e, b < 256) :
    nd' = nd.mapCh φ := by
  have spec := convNode_spec nameOf A n nd' hc
  cases nd
  case disconnect a b =>
    cases b <;> simp [wireNd] at hn <;> subst hn <;> simp at spec <;> simp [Node.mapCh, spec]
  case jet name =>
    simp [wireNd] at hn
    obtain ⟨j, hj, rfl⟩ := hn
    simp at spec
    simp [Node.mapCh, spec, hnm name j hj]
  case hidden h => simp [wireNd] at hn
  case fail e =>
    simp [wireNd] at hn; subst hn
    simp at spec
    simp [Node.mapCh, spec, bitsBytes_bytesBits e (hfail e rfl)]
  case case a b =>
    simp [wireNd] at hn; subst hn
    simp at spec
    have h1 := hvis a (by simp [Node.children])
    have h2 := hvis b (by simp [Node.children])
    rcases spec with ⟨rfl, _, _⟩ | ⟨r, _, _, h⟩ | ⟨r, _, h, _⟩
    · rfl
    · rw [h2] at h; cases h
    · rw [h1] at h; cases h
  case assertl a x =>
    simp [wireNd] at hn; subst hn
    simp at spec
    have h1 := hvis a (by simp [Node.children])
    have h2 := hhid a x (.inl rfl)
    rcases spec with ⟨_, _, h⟩ | ⟨r, rfl, _, h⟩ | ⟨r, _, h, _⟩
    · rw [h2] at h; cases h
    · rw [h2] at h; cases h; rfl
    · rw [h1] at h; cases h
  case assertr x b =>
    simp [wireNd] at hn; subst hn
    simp at spec
    have h1 := hvis b (by simp [Node.children])
    have h2 := hhid b x (.inr rfl)
    rcases spec with ⟨_, h, _⟩ | ⟨r, _, _, h⟩ | ⟨r, rfl, h, _⟩
    · rw [h2] at h; cases h
    · rw [h1] at h; cases h
    · rw [h2] at h; cases h; rfl
  all_goals (simp [wireNd] at hn; subst hn; simp at spec; simp [Node.mapCh, spec])

theorem wireNd_not_hidden (ofName : String → Option J) (φ : Nat → Nat) (hid : Nat) (nd : Node)
    (n : WNode J) (hn : wireNd ofName φ hid nd = some n) : ∀ r, n ≠ .hidden r := by
  intro r e
  subst e
  cases nd
  case disconnect a b => cases b <;> simp [wireNd] at hn
  all_goals simp [wireNd] at hn

#print axioms wireOf_class
#print axioms convNode_wireNd

/-- the plan node that represents position `j` of the written list -/
def repOf (outs : Array WOut) (j : Nat) : Nat := ((outs.toList[j]?).map (·.node)).getD 0 / 2

/-- **the node correspondence of the round trip**: for a plan all of whose nodes are reachable from the
root and whose identity roots separate its nodes, the encoder succeeds only with a node list `N`
that `convert` turns into a plan `q` related to `p` by `NodeMap` along `g i` = the position at which
the class of node `i` was written. -/
theorem enc_nodeMap (jc : JetCode J) (nameOf : J → String) (ofName : String → Option J)
    (hnm : ∀ name j, ofName name = some j → nameOf j = name)
    (p : Plan) (arrows : Array (BM4.Ty × BM4.Ty)) (an : Array Annot) (wit : Nat → Option (List Bool))
    (hsz : an.size = p.size) (hpos : 0 < p.size) (hb : PlanBackward p) (hpl : PayloadOk p)
    (hh : HashOk p) (hfb : ∀ (i : Nat) (e : List Nat), p[i]? = some (.fail e) → ∀ b ∈ e, b < 256)
    (hf : IhrFaithful p arrows an wit) (hall : ∀ i, i < p.size → PlanReach p i)
    (pb wb : List Bool) (he : encode jc ofName p an true wit = some (pb, wb)) :
    let S := (walk (encChildren p true) (encKey p an true) (2 * p.size + 2) (2 * (p.size - 1)) ⟨#[], [], 0⟩).1
    let g := fun i => clsPos (encKey p an true) S (2 * i)
    let r := repOf S.outs
    ∃ (N : List (WNode J)) (q : Plan),
      S.outs.toList.mapM (wireOf ofName p) = some N ∧ pb = padToByte (encProgram jc N) ∧ N ≠ [] ∧
      NodesOk 0 N ∧ canonicalOk N.toArray = true ∧ N.length = S.outs.size ∧
      convert nameOf N.toArray = .ok q ∧ q.size = N.length ∧
      NodeMap p q g r ∧
      (∀ i i', i < p.size → i' < p.size →
        (g i = g i' ↔ (an.getD i default).ihr = (an.getD i' default).ihr)) ∧
      PlanBackward q ∧
      (∀ (j : Nat) (o : WOut), S.outs.toList[j]? = some o →
        (o.node % 2 = 0 → r j < p.size ∧ g (r j) = j ∧ o.node = 2 * r j) ∧
        (o.node % 2 = 1 → ∃ h, q[j]? = some (.hidden h))) ∧
      N.length ≤ 2 * p.size ∧ (∀ (i h : Nat), p[i]? ≠ some (.hidden h)) := by
  have hcong := encCongr_of_faithful hsz hb hf
  intro S g r
  obtain ⟨N, hm, hpb, hne, hok, hcan, _, hrootpos, hrootcls, hcls⟩ :=
    enc_structure jc ofName p an wit hsz hpos hb hpl hcong pb wb he
  obtain ⟨q, hq⟩ := enc_convert nameOf ofName p an hsz hpos hb hh hcong N hm
  obtain ⟨hqsz, hqnode, hqroot, _⟩ := convert_spec nameOf N.toArray q hq
  have hqsz' : q.size = N.length := by simpa using hqsz
  have htot := encKey_total p an hsz
  have hcl : ∀ t, EncDom p t → ∀ c ∈ encChildren p true t, EncDom p c :=
    fun t ht c hc => ((encDom_children p hb t ht).2 c hc).1
  have hlen : ∀ t, EncDom p t → (encChildren p true t).length ≤ 2 := fun t ht => (encDom_children p hb t ht).1
  have hrk : ∀ t, EncDom p t → ∀ c ∈ encChildren p true t, encRk c < encRk t :=
    fun t ht c hc => ((encDom_children p hb t ht).2 c hc).2
  have hroot : EncDom p (2 * (p.size - 1)) := .inl ⟨two_mul_mod _, by rw [two_mul_div]; omega⟩
  have hfuel : encRk (2 * (p.size - 1)) < 2 * p.size + 2 := by
    unfold encRk; rw [if_pos (two_mul_mod _)]; omega
  obtain ⟨hOpos, hg, _, _, hitems⟩ := walk_self_canonical htot hcl hlen hrk hcong
    (2 * p.size + 2) (2 * (p.size - 1)) hroot hfuel
  change Good (encChildren p true) (encKey p an true) (EncDom p) S at hg
  change ∀ (j : Nat) (o : WOut), S.outs.toList[j]? = some o →
    clsPos (encKey p an true) S o.node = j ∧ o.index = j at hitems
  obtain ⟨hNlen, hNget⟩ := mapM_some_inv _ _ _ hm
  have hNlen' : N.length = S.outs.size := by simpa using hNlen
  have hdom : ∀ i, i < p.size → EncDom p (2 * i) :=
    fun i hi => .inl ⟨two_mul_mod _, by rw [two_mul_div]; exact hi⟩
  have hlt_of : ∀ (i : Nat) (nd : Node), p[i]? = some nd → i < p.size := by
    intro i nd hp
    rcases Nat.lt_or_ge i p.size with h | h
    · exact h
    · rw [Array.getElem?_eq_none h] at hp; cases hp
  -- every plan node's class was recorded
  have hrec : ∀ i, i < p.size → ∃ j, Cls (encKey p an true) S (2 * i) j := by
    have : ∀ i, PlanReach p i → i < p.size → ∃ j, Cls (encKey p an true) S (2 * i) j := by
      intro i h
      induction h with
      | root => intro _; exact hrootcls
      | @child i' c nd _ hp hc ih =>
        intro _
        have hi' := hlt_of i' nd hp
        exact (hcls (2 * i') (hdom i' hi') (ih hi')).2.2.2 (2 * c) (mem_encChildren p i' nd c hp hc)
    exact fun i hi => this i (hall i hi) hi
  have hgcls : ∀ i, i < p.size → Cls (encKey p an true) S (2 * i) (g i) := by
    intro i hi
    obtain ⟨j, hj⟩ := hrec i hi
    have : g i = j := clsPos_of_cls rfl (htot _ (hdom i hi)) hj
    rw [this]; exact hj
  -- the representative of a class
  have hrep : ∀ i, i < p.size → ∃ o, S.outs.toList[g i]? = some o ∧ o.node % 2 = 0 ∧ o.node / 2 < p.size ∧
      (an.getD (o.node / 2) default).ihr = (an.getD i default).ihr := by
    intro i hi
    have hk := encKey_even p an i (by omega)
    obtain ⟨o, ho, hko⟩ := hg.seen _ (g i) (hgcls i hi _ hk)
    have hpar : ¬ o.node % 2 = 1 := by
      intro h
      have := (encKey_fst p an o.node _ hko).mpr h
      simp at this
    have hDo := (hg.kids (g i) o ho).1
    have hlt : o.node / 2 < p.size := by
      rcases hDo with ⟨_, h⟩ | ⟨h, _⟩
      · exact h
      · omega
    refine ⟨o, ho, by omega, hlt, ?_⟩
    have : o.node = 2 * (o.node / 2) := by omega
    rw [this, encKey_even p an _ (by omega)] at hko
    simpa using hko
  -- the wire node at the position of a class
  have hwire : ∀ i nd, p[i]? = some nd → ∃ n, N[g i]? = some n ∧
      wireNd ofName g (clsPos (encKey p an true) S (2 * i + 1)) nd = some n := by
    intro i nd hp
    have hi := hlt_of i nd hp
    obtain ⟨_, hwc, ⟨o, n, ho, hko, hn, hwn⟩, _⟩ := hcls (2 * i) (hdom i hi) (hrec i hi)
    obtain ⟨o', ho', hpar, hlt, hihr⟩ := hrep i hi
    have : o' = o := by
      have h1 : S.outs.toList[g i]? = some o := ho
      rw [ho'] at h1; exact Option.some.inj h1
    subst this
    have hp0 : p[o'.node / 2]? = some p[o'.node / 2] := Array.getElem?_eq_getElem hlt
    obtain ⟨hsh, _, _, _⟩ := hf _ _ _ _ hp0 hp hihr
    refine ⟨n, hn, ?_⟩
    refine wireOf_class ofName p (clsPos (encKey p an true) S) o' n i (o'.node / 2) nd _ (by omega) hp0 hsh hwn ?_
    rw [wireChildren_eq] at hwc
    have hA : N.toArray[clsPos (encKey p an true) S (2 * i)]? = some n := by simpa using hn
    rw [hA, encChildren_even p i nd hp] at hwc
    exact hwc
  -- visible and hidden positions
  have hvis : ∀ i, i < p.size → hiddenAt N.toArray (g i) = none := by
    intro i hi
    obtain ⟨n, hn, hw⟩ := hwire i _ (Array.getElem?_eq_getElem hi)
    have hA : N.toArray[g i]? = some n := by simpa using hn
    have := wireNd_not_hidden _ _ _ _ _ hw
    unfold hiddenAt
    rw [hA]
    cases n
    case hidden r => exact absurd rfl (this r)
    all_goals rfl
  have hhidden : ∀ (i a h : Nat), (p[i]? = some (.assertl a h) ∨ p[i]? = some (.assertr h a)) →
      hiddenAt N.toArray (clsPos (encKey p an true) S (2 * i + 1)) = some h := by
    intro i a h hp
    have hi : i < p.size := by rcases hp with hp | hp <;> exact hlt_of _ _ hp
    have hdom' : EncDom p (2 * i + 1) := .inr ⟨two_mul_succ_mod i, a, h, by rw [two_mul_succ_div]; exact hp⟩
    have hmem : 2 * i + 1 ∈ encChildren p true (2 * i) := by
      rcases hp with hp | hp <;> rw [encChildren_even p i _ hp] <;> simp [encChOf]
    have hrec' := (hcls (2 * i) (hdom i hi) (hrec i hi)).2.2.2 _ hmem
    obtain ⟨_, _, ⟨o, n, ho, hko, hn, hwn⟩, _⟩ := hcls (2 * i + 1) hdom' hrec'
    rw [encKey_odd p an i a h hp] at hko
    have hodd : o.node % 2 = 1 := (encKey_fst p an o.node _ hko).mp rfl
    have hnh : n = .hidden (natBits256 h) := by
      unfold wireOf at hwn
      rw [if_pos hodd] at hwn
      unfold encKey at hko
      rw [if_pos hodd] at hko
      split at hwn
      · next a' h' hp' => rw [hp'] at hko; simp at hko hwn; rw [← hwn, hko]
      · next h' a' hp' => rw [hp'] at hko; simp at hko hwn; rw [← hwn, hko]
      · cases hwn
    subst hnh
    have hA : N.toArray[clsPos (encKey p an true) S (2 * i + 1)]? = some (.hidden (natBits256 h)) := by
      simpa using hn
    rw [hiddenAt_hidden hA, bitsNat_natBits256 h (by rcases hp with hp | hp <;> exact hh i a h (by simp [hp]))]
  -- images
  have himg : ∀ i nd, p[i]? = some nd → q[g i]? = some (nd.mapCh g) := by
    intro i nd hp
    have hi := hlt_of i nd hp
    obtain ⟨n, hn, hw⟩ := hwire i nd hp
    have hA : N.toArray[g i]? = some n := by simpa using hn
    obtain ⟨nd', hq', hc⟩ := hqnode (g i) n hA
    rw [hq']
    congr 1
    refine convNode_wireNd nameOf ofName hnm N.toArray g _ nd nd' n hw hc ?_ ?_ ?_
    · intro c hc'
      exact hvis c (by have := hb i nd hp c hc'; omega)
    · intro a h hnd
      exact hhidden i a h (by rcases hnd with rfl | rfl <;> simp [hp])
    · intro e hnd
      exact hfb i e (by rw [hp, hnd])
  -- positions
  have hpos' : ∀ (j : Nat) (o : WOut), S.outs.toList[j]? = some o →
      (o.node % 2 = 0 → r j < p.size ∧ g (r j) = j ∧ o.node = 2 * r j) ∧
      (o.node % 2 = 1 → ∃ h, q[j]? = some (.hidden h)) := by
    intro j o ho
    have hrj : r j = o.node / 2 := by
      show repOf S.outs j = _
      unfold repOf
      rw [ho]; rfl
    have hDo := (hg.kids j o ho).1
    have hfj := (hitems j o ho).1
    constructor
    · intro h0
      have hlt : o.node / 2 < p.size := by
        rcases hDo with ⟨_, h⟩ | ⟨h, _⟩
        · exact h
        · omega
      refine ⟨by rw [hrj]; exact hlt, ?_, by rw [hrj]; omega⟩
      show clsPos (encKey p an true) S (2 * r j) = j
      rw [hrj, show 2 * (o.node / 2) = o.node by omega]
      exact hfj
    · intro h1
      obtain ⟨n, hn, hwn⟩ := hNget j o ho
      obtain ⟨rr, rfl⟩ := (wireOf_hidden_iff o n hwn).mpr h1
      have hA : N.toArray[j]? = some (.hidden rr) := by simpa using hn
      obtain ⟨nd', hq', hc⟩ := hqnode j _ hA
      simp only [convNode, Except.ok.injEq] at hc
      exact ⟨_, by rw [hq', ← hc]⟩
  have hsur : ∀ j nd', q[j]? = some nd' → (∃ h, nd' = .hidden h) ∨ (r j < p.size ∧ g (r j) = j) := by
    intro j nd' hq'
    have hj : j < S.outs.toList.length := by
      rcases Nat.lt_or_ge j q.size with h | h
      · simp only [Array.length_toList]; omega
      · rw [Array.getElem?_eq_none h] at hq'; cases hq'
    have ho := List.getElem?_eq_getElem hj
    obtain ⟨h0, h1⟩ := hpos' j _ ho
    rcases Nat.mod_two_eq_zero_or_one (S.outs.toList[j]).node with e | e
    · exact .inr ⟨(h0 e).1, (h0 e).2.1⟩
    · obtain ⟨h, hh'⟩ := h1 e
      rw [hq'] at hh'
      exact .inl ⟨h, Option.some.inj hh'⟩
  have M : NodeMap p q g r := ⟨himg, hsur, by
    show clsPos (encKey p an true) S (2 * (p.size - 1)) = q.size - 1
    rw [hqsz']; exact hrootpos⟩
  refine ⟨N, q, hm, hpb, hne, hok, hcan, hNlen', hq, hqsz', M, ?_, ?_, hpos', ?_, ?_⟩
  · -- classes and identity roots
    intro i i' hi hi'
    constructor
    · intro e
      have hk := encKey_even p an i (by omega)
      have hk' := encKey_even p an i' (by omega)
      obtain ⟨o, ho, hko⟩ := hg.seen _ (g i) (hgcls i hi _ hk)
      obtain ⟨o', ho', hko'⟩ := hg.seen _ (g i') (hgcls i' hi' _ hk')
      rw [e, ho'] at ho
      cases ho
      rw [hko'] at hko
      simpa using hko.symm
    · intro e
      show clsPos (encKey p an true) S (2 * i) = clsPos (encKey p an true) S (2 * i')
      unfold clsPos
      rw [encKey_even p an i (by omega), encKey_even p an i' (by omega), e]
  · -- children of `q` are earlier
    intro j nd' hq' c hc
    rcases hsur j nd' hq' with ⟨h, rfl⟩ | ⟨hr, hgr⟩
    · simp [Node.children] at hc
    · have hp : p[r j]? = some p[r j] := Array.getElem?_eq_getElem hr
      have := himg (r j) _ hp
      rw [hgr, hq'] at this
      cases this
      rw [mapCh_children] at hc
      obtain ⟨c0, hc0, rfl⟩ := List.mem_map.mp hc
      obtain ⟨_, _, _, _, _, hk⟩ := rep_children htot hcl hlen hcong hg (2 * r j) (g (r j)) (hdom _ hr)
        (hgcls _ hr)
      have := (hk (2 * c0) (mem_encChildren p (r j) _ c0 hp hc0)).2
      rw [hgr] at this
      exact this
  · -- at most one item per node of the encoder's DAG
    rw [hNlen']
    refine pigeon_fn (2 * p.size) S.outs.size (fun j => ((S.outs.toList[j]?).map (·.node)).getD 0) ?_ ?_
    · intro j hj
      have hj' : j < S.outs.toList.length := by simpa using hj
      simp only [List.getElem?_eq_getElem hj', Option.map_some, Option.getD_some]
      have hDo := (hg.kids j _ (List.getElem?_eq_getElem hj')).1
      rcases hDo with ⟨_, h⟩ | ⟨_, a, h, hp⟩
      · omega
      · have : (S.outs.toList[j]).node / 2 < p.size := by
          rcases hp with hp | hp <;> exact hlt_of _ _ hp
        omega
    · intro j j' hj hj' e
      have h1 : j < S.outs.toList.length := by simpa using hj
      have h2 : j' < S.outs.toList.length := by simpa using hj'
      simp only [List.getElem?_eq_getElem h1, List.getElem?_eq_getElem h2, Option.map_some,
        Option.getD_some] at e
      have a := (hitems j _ (List.getElem?_eq_getElem h1)).1
      have b := (hitems j' _ (List.getElem?_eq_getElem h2)).1
      rw [e] at a
      omega
  · intro i h hp
    obtain ⟨n, _, hw⟩ := hwire i _ hp
    simp [wireNd] at hw

#print axioms enc_nodeMap
end Prog
