/-
The witness reader `Prog.readWitnesses` (C02/C01 assembly): what it accepts is the concatenation of
the compact encodings of the values it returns, one per witness node, in index order, followed by
exactly the rest.
-/
import SimplicityModel.Prog.Codec

namespace Prog
open BM4

/-- whatever `decCompact` accepts is the compact encoding of the value it returns -/
theorem decCompact_canonical : ∀ (t : Ty) (bs : List Bool) (v : Val) (r : List Bool),
    decCompact t bs = some (v, r) → bs = compact v ++ r
  | .one, bs, v, r, h => by
    simp only [decCompact, Option.some.injEq, Prod.mk.injEq] at h
    obtain ⟨rfl, rfl⟩ := h; rfl
  | .sum _ _, [], v, r, h => by simp [decCompact] at h
  | .sum a _, false :: bs, v, r, h => by
    simp only [decCompact] at h
    cases hd : decCompact a bs with
    | none => rw [hd] at h; cases h
    | some p =>
      obtain ⟨v', r'⟩ := p
      rw [hd] at h
      simp only [Option.map_some, Option.some.injEq, Prod.mk.injEq] at h
      obtain ⟨rfl, rfl⟩ := h
      have := decCompact_canonical a bs v' r' hd
      simp [compact, this]
  | .sum _ b, true :: bs, v, r, h => by
    simp only [decCompact] at h
    cases hd : decCompact b bs with
    | none => rw [hd] at h; cases h
    | some p =>
      obtain ⟨v', r'⟩ := p
      rw [hd] at h
      simp only [Option.map_some, Option.some.injEq, Prod.mk.injEq] at h
      obtain ⟨rfl, rfl⟩ := h
      have := decCompact_canonical b bs v' r' hd
      simp [compact, this]
  | .prod a b, bs, v, r, h => by
    simp only [decCompact, bind, Option.bind] at h
    cases hd : decCompact a bs with
    | none => rw [hd] at h; cases h
    | some p =>
      obtain ⟨x, r1⟩ := p
      rw [hd] at h
      simp only at h
      cases hd2 : decCompact b r1 with
      | none => rw [hd2] at h; cases h
      | some q =>
        obtain ⟨y, r2⟩ := q
        rw [hd2] at h
        simp only [pure, Option.some.injEq, Prod.mk.injEq] at h
        obtain ⟨rfl, rfl⟩ := h
        have h1 := decCompact_canonical a bs x r1 hd
        have h2 := decCompact_canonical b r1 y r2 hd2
        simp [compact, h1, h2]

theorem filterMap_congr' {α β : Type} {f g : α → Option β} : ∀ {l : List α}, (∀ a ∈ l, f a = g a) →
    l.filterMap f = l.filterMap g := by
  intro l
  induction l with
  | nil => intro _; rfl
  | cons a l ih =>
    intro h
    rw [List.filterMap_cons, List.filterMap_cons, h a (by simp), ih (fun b hb => h b (by simp [hb]))]

/-- the indices of the witness nodes of a node list that starts at index `i` -/
def wIdx : List Node → Nat → List Nat
  | [], _ => []
  | nd :: rest, i =>
    match nd with
    | .witness => i :: wIdx rest (i + 1)
    | _ => wIdx rest (i + 1)

theorem wIdx_ge : ∀ (l : List Node) (i : Nat), ∀ j ∈ wIdx l i, i ≤ j := by
  intro l
  induction l with
  | nil => intro i j h; cases h
  | cons nd rest ih =>
    intro i j h
    unfold wIdx at h
    cases nd
    case witness =>
      simp only [List.mem_cons] at h
      rcases h with rfl | h
      · exact Nat.le_refl _
      · have := ih (i + 1) j h; omega
    all_goals (have := ih (i + 1) j h; omega)

theorem wIdx_nodup : ∀ (l : List Node) (i : Nat), (wIdx l i).Nodup := by
  intro l
  induction l with
  | nil => intro i; exact List.nodup_nil
  | cons nd rest ih =>
    intro i
    unfold wIdx
    cases nd
    case witness =>
      refine List.nodup_cons.mpr ⟨?_, ih (i + 1)⟩
      intro h
      have := wIdx_ge rest (i + 1) i h
      omega
    all_goals exact ih (i + 1)

/-- **the witness reader is canonical**: the returned pairs are the witness indices in order with
the compact bits of their values, and the input is their concatenation followed by the rest -/
theorem readGo_spec (arrows : Array (Ty × Ty)) : ∀ (l : List Node) (i : Nat) (bits : List Bool)
    (ws : List (Nat × List Bool)) (r : List Bool), readGo arrows l i bits = .ok (ws, r) →
    ws.map (·.1) = wIdx l i ∧ bits = (ws.map (·.2)).flatten ++ r := by
  intro l
  induction l with
  | nil =>
    intro i bits ws r h
    simp only [readGo, Except.ok.injEq, Prod.mk.injEq] at h
    obtain ⟨rfl, rfl⟩ := h
    simp [wIdx]
  | cons nd rest ih =>
    intro i bits ws r h
    unfold readGo at h
    unfold wIdx
    cases nd
    case witness =>
      simp only at h ⊢
      cases hd : decCompact (arrows.getD i (.one, .one)).2 bits with
      | none => rw [hd] at h; cases h
      | some p =>
        obtain ⟨v, r1⟩ := p
        rw [hd] at h
        simp only at h
        cases hr : readGo arrows rest (i + 1) r1 with
        | error e => rw [hr] at h; cases h
        | ok q =>
          obtain ⟨ws', r'⟩ := q
          rw [hr] at h
          simp only [Except.ok.injEq, Prod.mk.injEq] at h
          obtain ⟨rfl, rfl⟩ := h
          obtain ⟨h1, h2⟩ := ih (i + 1) r1 ws' r' hr
          have h3 := decCompact_canonical _ _ _ _ hd
          simp [h1, h3, h2]
    all_goals exact ih (i + 1) bits ws r h

/-- looking a witness index up in the reader's result gives its own bits -/
theorem lookup_self : ∀ (ws : List (Nat × List Bool)), (ws.map (·.1)).Nodup →
    (ws.map (·.1)).filterMap (fun i => (ws.find? (·.1 = i)).map (·.2)) = ws.map (·.2) := by
  intro ws
  induction ws with
  | nil => intro _; rfl
  | cons e ws ih =>
    intro h
    simp only [List.map_cons] at h
    obtain ⟨hnot, hnd⟩ := List.nodup_cons.mp h
    simp only [List.map_cons, List.filterMap_cons, List.find?_cons, decide_true, Option.map_some]
    congr 1
    rw [← ih hnd]
    apply filterMap_congr'
    intro i hi
    have : ¬ e.1 = i := fun e' => hnot (e' ▸ hi)
    simp [this]

/-- the witness bits the encoder collects by walking the indices `s, s+1, …` -/
theorem filterMap_wIdx (W : Nat → Option (List Bool)) : ∀ (l : List Node) (s : Nat),
    (List.range' s l.length).filterMap
      (fun j => match l[j - s]? with | some Node.witness => W j | _ => none) =
    (wIdx l s).filterMap W := by
  intro l
  induction l with
  | nil => intro s; rfl
  | cons nd rest ih =>
    intro s
    have htail : (List.range' (s + 1) rest.length).filterMap
        (fun j => match (nd :: rest)[j - s]? with | some Node.witness => W j | _ => none) =
        (wIdx rest (s + 1)).filterMap W := by
      rw [← ih (s + 1)]
      apply filterMap_congr'
      intro j hj
      have hj' := (List.mem_range'_1.mp hj).1
      have : j - s = (j - (s + 1)) + 1 := by omega
      rw [this, List.getElem?_cons_succ]
    simp only [List.length_cons, List.range'_succ, List.filterMap_cons, Nat.sub_self,
      List.getElem?_cons_zero, htail]
    cases nd <;> simp [wIdx, List.filterMap_cons]

#print axioms readGo_spec

end Prog
