/-
Bit-string conversions used by the program codec (C02/C01 assembly): a hidden node's 256-bit root
and a fail node's 512-bit entropy survive the passage through numbers / bytes in the plan.
-/
import SimplicityModel.Prog.Codec

namespace Prog

theorem foldl_bits (bs : List Bool) (acc : Nat) :
    bs.foldl (fun acc b => acc * 2 + (if b then 1 else 0)) acc = acc * 2 ^ bs.length + bitsNat bs := by
  induction bs generalizing acc with
  | nil => simp [bitsNat]
  | cons b bs ih =>
    unfold bitsNat
    simp only [List.foldl_cons, List.length_cons]
    rw [ih, ih (0 * 2 + _)]
    simp only [bitsNat, Nat.zero_mul, Nat.zero_add, Nat.pow_succ]
    rw [Nat.add_mul, Nat.add_assoc, Nat.mul_assoc, Nat.mul_comm 2]

theorem bitsNat_cons (b : Bool) (bs : List Bool) :
    bitsNat (b :: bs) = 2 ^ bs.length * (if b then 1 else 0) + bitsNat bs := by
  have := foldl_bits bs (0 * 2 + (if b then 1 else 0))
  unfold bitsNat at this ⊢
  simp only [List.foldl_cons]
  rw [this, Nat.zero_mul, Nat.zero_add, Nat.mul_comm]

theorem bitsNat_lt (bs : List Bool) : bitsNat bs < 2 ^ bs.length := by
  induction bs with
  | nil => simp [bitsNat]
  | cons b bs ih =>
    rw [bitsNat_cons, List.length_cons, Nat.pow_succ]
    cases b <;> simp <;> omega

/-- bit `k` (from the least significant end) of `bitsNat bs` is the `k`-th bit from the end -/
theorem testBit_bitsNat (bs : List Bool) (k : Nat) (hk : k < bs.length) :
    (bitsNat bs).testBit k = bs[bs.length - 1 - k] := by
  induction bs with
  | nil => simp at hk
  | cons b bs ih =>
    rw [bitsNat_cons, Nat.testBit_two_pow_mul_add _ (bitsNat_lt bs)]
    simp only [List.length_cons] at hk ⊢
    by_cases h : k < bs.length
    · rw [if_pos h, ih h]
      have e : bs.length + 1 - 1 - k = (bs.length - 1 - k) + 1 := by omega
      simp only [e, List.getElem_cons_succ]
    · rw [if_neg h]
      have e : k = bs.length := by omega
      subst e
      simp only [Nat.sub_self, Nat.add_sub_cancel]
      cases b <;> simp

theorem decide_shift_eq_testBit (y k : Nat) : decide ((y >>> k) % 2 = 1) = y.testBit k := by
  rw [Nat.shiftRight_eq_div_pow, Nat.testBit_eq_decide_div_mod_eq]

/-- reading the bits of `bitsNat bs` back, most significant first -/
theorem bits_of_bitsNat (bs : List Bool) (n : Nat) (hn : bs.length = n) :
    (List.range n).map (fun i => decide ((bitsNat bs >>> (n - 1 - i)) % 2 = 1)) = bs := by
  subst hn
  apply List.ext_getElem
  · simp
  · intro i h1 h2
    simp only [List.getElem_map, List.getElem_range, decide_shift_eq_testBit]
    rw [testBit_bitsNat bs _ (by omega)]
    congr 1
    omega

/-- a hidden root survives `bitsNat` / `natBits256` -/
theorem natBits256_bitsNat (r : List Bool) (h : r.length = 256) : natBits256 (bitsNat r) = r := by
  have := bits_of_bitsNat r 256 h
  unfold natBits256
  simpa using this

theorem bitsOfBytes_cons (b : Nat) (rest : List Nat) :
    Drv.bitsOfBytes (b :: rest) =
      (List.range 8).map (fun i => decide ((b >>> (7 - i)) % 2 = 1)) ++ Drv.bitsOfBytes rest := rfl

theorem bitsOfBytes_packBitsAux : ∀ (f : Nat) (bs : List Bool), bs.length % 8 = 0 → bs.length / 8 ≤ f →
    Drv.bitsOfBytes (packBitsAux f bs) = bs := by
  intro f
  induction f with
  | zero =>
    intro bs h8 hf
    have : bs.length = 0 := by omega
    have : bs = [] := List.length_eq_zero_iff.mp this
    subst this
    rfl
  | succ f ih =>
    intro bs h8 hf
    unfold packBitsAux
    by_cases he : bs.isEmpty = true
    · rw [if_pos he]
      have : bs = [] := List.isEmpty_iff.mp he
      subst this; rfl
    · rw [if_neg he]
      have hlen : 8 ≤ bs.length := by
        have : bs.length ≠ 0 := fun h0 => he (List.isEmpty_iff.mpr (List.length_eq_zero_iff.mp h0))
        omega
      rw [bitsOfBytes_cons, ih (bs.drop 8) (by simp; omega) (by simp; omega)]
      have hmin : min 8 bs.length = 8 := by omega
      have htake : (bs.take 8).length = 8 := by simp; omega
      have hb : (bs.take 8).foldl (fun acc b => acc * 2 + (if b then 1 else 0)) 0 * 2 ^ (8 - min 8 bs.length)
          = bitsNat (bs.take 8) := by
        rw [hmin]; simp [bitsNat]
      rw [hb]
      have := bits_of_bitsNat (bs.take 8) 8 htake
      simp only [show (8 : Nat) - 1 = 7 from rfl] at this
      rw [this, List.take_append_drop]

/-- a fail node's entropy survives `bitsBytes` / `bytesBits` -/
theorem bytesBits_bitsBytes (e : List Bool) (h : e.length % 8 = 0) : bytesBits (bitsBytes e) = e := by
  unfold bytesBits bitsBytes packBits
  exact bitsOfBytes_packBitsAux _ e h (by omega)

#print axioms natBits256_bitsNat
#print axioms bytesBits_bitsBytes

end Prog
