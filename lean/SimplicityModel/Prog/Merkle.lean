/-
Merkle roots recomputed from scratch with real SHA-256: every IV is the BIP-340 tagged-hash
midstate of its tag string (the definition; the constants in `src/merkle/*.rs` are regenerated into
`Gen/Ivs.lean` and compared with these), roots are 256-bit naturals.
-/
import SimplicityModel.Prog.Basic
import SimplicityModel.Sha2

namespace Prog
open Sha2

/-- SHA-256 of a tag string, as a 256-bit natural -/
def tagHash (s : String) : Nat := natOfBytes (sha256 (strBytes s))

/-- the midstate after the block `h ‖ h` -/
def ivOfHash (h : Nat) : Nat := update2 (natOfState H0) h h

/-- BIP-340 tagged-hash midstate of a tag string -/
def tag (s : String) : Nat := ivOfHash (tagHash s)

theorem tag_eq_tagIV (s : String) : tag s = tagIV (strBytes s) := rfl

/-! commitment roots -/
def cmrIV (name : String) : Nat := tag ("Simplicity\x1fCommitment\x1f" ++ name)
def ivIden := cmrIV "iden"
def ivUnit := cmrIV "unit"
def ivInjl := cmrIV "injl"
def ivInjr := cmrIV "injr"
def ivTake := cmrIV "take"
def ivDrop := cmrIV "drop"
def ivComp := cmrIV "comp"
def ivCase := cmrIV "case"
def ivPair := cmrIV "pair"
def ivDisconnect := cmrIV "disconnect"
def ivWitness := cmrIV "witness"
def ivFail := cmrIV "fail"
def ivIdentity := tag "Simplicity\x1fIdentity"
def ivJet := tag "Simplicity\x1fJet"

/-! type roots -/
def ivTyUnit := tag "Simplicity\x1fType\x1funit"
def ivTySum := tag "Simplicity\x1fType\x1fsum"
def ivTyProd := tag "Simplicity\x1fType\x1fprod"

def tmr : BM4.Ty → Nat
  | .one => ivTyUnit
  | .sum a b => update2 ivTySum (tmr a) (tmr b)
  | .prod a b => update2 ivTyProd (tmr a) (tmr b)

/-- TMR of `2^(2^n)` without unfolding the tree -/
def tmrWord : Nat → Nat
  | 0 => update2 ivTySum ivTyUnit ivTyUnit
  | n+1 => let t := tmrWord n; update2 ivTyProd t t

def cmrBit (b : Bool) : Nat := update2 (if b then ivInjr else ivInjl) 0 ivUnit

/-- root of the balanced `pair` tree over the bit CMRs (`Cmr::const_word`'s stack) -/
def wordTree : Nat → List Bool → Nat × List Bool
  | 0, b :: bs => (cmrBit b, bs)
  | 0, [] => (0, [])
  | n+1, bs =>
    let (l, r1) := wordTree n bs
    let (r, r2) := wordTree n r1
    (update2 ivPair l r, r2)

/-- `Cmr::const_word` -/
def cmrWord (n : Nat) (bits : List Bool) : Nat :=
  let root := (wordTree n bits).1
  let pass1 := update2 ivIdentity 0 root
  let pass2 := update2 pass1 ivTyUnit (tmrWord n)
  update2 ivJet (2 ^ n) pass2

def failBlock (e : List Nat) : Nat × Nat := (natOfBytes (e.take 32), natOfBytes (e.drop 32))

/-- commitment root of one node from the roots of its children, over an arbitrary compression
step `upd iv left right`, IV table `ivn` (by combinator name) and word-root function -/
def cmrNodeG (upd : Nat → Nat → Nat → Nat) (ivn : String → Nat) (wordCmr : Nat → List Bool → Nat)
    (jetCmr : String → Option Nat) (cm : Nat → Nat) : Node → Option Nat
  | .iden => some (ivn "iden")
  | .unit => some (ivn "unit")
  | .injl c => some (upd (ivn "injl") 0 (cm c))
  | .injr c => some (upd (ivn "injr") 0 (cm c))
  | .take c => some (upd (ivn "take") 0 (cm c))
  | .drop c => some (upd (ivn "drop") 0 (cm c))
  | .comp a b => some (upd (ivn "comp") (cm a) (cm b))
  | .case a b => some (upd (ivn "case") (cm a) (cm b))
  | .pair a b => some (upd (ivn "pair") (cm a) (cm b))
  | .assertl a h => some (upd (ivn "case") (cm a) h)
  | .assertr h b => some (upd (ivn "case") h (cm b))
  | .disconnect a _ => some (upd (ivn "disconnect") 0 (cm a))
  | .witness => some (ivn "witness")
  | .fail e => some (upd (ivn "fail") (failBlock e).1 (failBlock e).2)
  | .word n bits => some (wordCmr n bits)
  | .jet name => jetCmr name
  | .hidden h => some h

/-- the IVs, computed once -/
def ivTable (s : String) : Nat :=
  if s = "iden" then ivIden else if s = "unit" then ivUnit else if s = "injl" then ivInjl
  else if s = "injr" then ivInjr else if s = "take" then ivTake else if s = "drop" then ivDrop
  else if s = "comp" then ivComp else if s = "case" then ivCase else if s = "pair" then ivPair
  else if s = "disconnect" then ivDisconnect else if s = "witness" then ivWitness
  else if s = "fail" then ivFail else cmrIV s

/-- commitment root of one node with SHA-256 -/
def cmrNode (jetCmr : String → Option Nat) (cm : Nat → Nat) (nd : Node) : Option Nat :=
  cmrNodeG update2 ivTable cmrWord jetCmr cm nd

def cmrsGoG (node : (Nat → Nat) → Node → Option Nat) : List Node → Array Nat → Option (Array Nat)
  | [], acc => some acc
  | nd :: rest, acc =>
    match node (fun i => acc.getD i 0) nd with
    | some c => cmrsGoG node rest (acc.push c)
    | none => none

def cmrsGo (jetCmr : String → Option Nat) : List Node → Array Nat → Option (Array Nat) :=
  cmrsGoG (cmrNode jetCmr)

/-- commitment roots of all nodes of a plan -/
def cmrs (jetCmr : String → Option Nat) (p : Plan) : Option (Array Nat) :=
  cmrsGo jetCmr p.toList #[]

def hex32 (n : Nat) : String := Drv.showHex (bytesOfNat n 32)

end Prog
