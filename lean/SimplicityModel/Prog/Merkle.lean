/-
Merkle roots recomputed from scratch with real SHA-256: every IV is the BIP-340 tagged-hash
midstate of its tag string (the definition; the constants in `src/merkle/*.rs` are regenerated into
`Gen/Ivs.lean` and compared with these), roots are 256-bit naturals.
-/
import SimplicityModel.Prog.Basic
import SimplicityModel.Sha2

namespace Prog
open Sha2

def tag (s : String) : Nat := tagIV (strBytes s)

/-! commitment roots -/
def cmrIV (name : String) : Nat := tag ("Simplicity\x1fCommitment\x1f" ++ name)
def ivIden := cmrIV "iden"
def ivUnit := cmrIV "unit"
def ivInjl := cmrIV "injl"
def ivInjr := cmrIV "injr"
def ivTake := cmrIV "take"
def ivDrop := cmrIV "drop"
def ivComp := cmrIV "comp"
def ivCase := cmrIV "case"
def ivPair := cmrIV "pair"
def ivDisconnect := cmrIV "disconnect"
def ivWitness := cmrIV "witness"
def ivFail := cmrIV "fail"
def ivIdentity := tag "Simplicity\x1fIdentity"
def ivJet := tag "Simplicity\x1fJet"

/-! type roots -/
def ivTyUnit := tag "Simplicity\x1fType\x1funit"
def ivTySum := tag "Simplicity\x1fType\x1fsum"
def ivTyProd := tag "Simplicity\x1fType\x1fprod"

def tmr : BM4.Ty → Nat
  | .one => ivTyUnit
  | .sum a b => update2 ivTySum (tmr a) (tmr b)
  | .prod a b => update2 ivTyProd (tmr a) (tmr b)

/-- TMR of `2^(2^n)` without unfolding the tree -/
def tmrWord : Nat → Nat
  | 0 => update2 ivTySum ivTyUnit ivTyUnit
  | n+1 => let t := tmrWord n; update2 ivTyProd t t

def cmrBit (b : Bool) : Nat := update2 (if b then ivInjr else ivInjl) 0 ivUnit

/-- root of the balanced `pair` tree over the bit CMRs (`Cmr::const_word`'s stack) -/
def wordTree : Nat → List Bool → Nat × List Bool
  | 0, b :: bs => (cmrBit b, bs)
  | 0, [] => (0, [])
  | n+1, bs =>
    let (l, r1) := wordTree n bs
    let (r, r2) := wordTree n r1
    (update2 ivPair l r, r2)

/-- `Cmr::const_word` -/
def cmrWord (n : Nat) (bits : List Bool) : Nat :=
  let root := (wordTree n bits).1
  let pass1 := update2 ivIdentity 0 root
  let pass2 := update2 pass1 ivTyUnit (tmrWord n)
  update2 ivJet (2 ^ n) pass2

def failBlock (e : List Nat) : Nat × Nat := (natOfBytes (e.take 32), natOfBytes (e.drop 32))

/-- commitment root of one node from the roots of its children -/
def cmrNode (jetCmr : String → Option Nat) (cm : Nat → Nat) : Node → Option Nat
  | .iden => some ivIden
  | .unit => some ivUnit
  | .injl c => some (update2 ivInjl 0 (cm c))
  | .injr c => some (update2 ivInjr 0 (cm c))
  | .take c => some (update2 ivTake 0 (cm c))
  | .drop c => some (update2 ivDrop 0 (cm c))
  | .comp a b => some (update2 ivComp (cm a) (cm b))
  | .case a b => some (update2 ivCase (cm a) (cm b))
  | .pair a b => some (update2 ivPair (cm a) (cm b))
  | .assertl a h => some (update2 ivCase (cm a) h)
  | .assertr h b => some (update2 ivCase h (cm b))
  | .disconnect a _ => some (update2 ivDisconnect 0 (cm a))
  | .witness => some ivWitness
  | .fail e => let (l, r) := failBlock e; some (update2 ivFail l r)
  | .word n bits => some (cmrWord n bits)
  | .jet name => jetCmr name
  | .hidden h => some h

def cmrsGo (jetCmr : String → Option Nat) : List Node → Array Nat → Option (Array Nat)
  | [], acc => some acc
  | nd :: rest, acc =>
    match cmrNode jetCmr (fun i => acc.getD i 0) nd with
    | some c => cmrsGo jetCmr rest (acc.push c)
    | none => none

/-- commitment roots of all nodes of a plan -/
def cmrs (jetCmr : String → Option Nat) (p : Plan) : Option (Array Nat) :=
  cmrsGo jetCmr p.toList #[]

def hex32 (n : Nat) : String := Drv.showHex (bytesOfNat n 32)

end Prog
