/-
C01, general round trip, annotations: `annotNode` depends on a node only through its kind and
payload, its own arrow and witness bits, and the arrows and annotations of its children
(`annotNode_congr2`); `Prog.annots` characterised node by node (`annots_spec`, `annots_intro`) with
the arrow-independent type-root function `tmr`.
-/
import SimplicityModel.Prog.RtCache
import SimplicityModel.Prog.RtConstraints
import SimplicityModel.Prog.EncSelf
set_option linter.unusedSimpArgs false
namespace Prog

theorem shape_mapCh (g : Nat → Nat) (nd : Node) : (nd.mapCh g).shape = nd.shape := by
  cases nd
  case disconnect a b => cases b <;> rfl
  all_goals rfl

/-- **`annotNode` is a function of the kind and payload, the node's arrow and witness bits, and the
arrows and annotations of the children** -/
theorem annotNode_congr2 (tm : BM4.Ty → Nat) (jc jk : String → Option Nat)
    (arr arr' : Nat → BM4.Ty × BM4.Ty) (wit wit' : Nat → Option (List Bool)) (an an' : Nat → Annot)
    (i i' : Nat) (nd nd' : Node) (hsh : nd.shape = nd'.shape) (ha : arr i = arr' i')
    (hw : nd = .witness → wit i = wit' i')
    (hc : ∀ (k c c' : Nat), nd.children[k]? = some c → nd'.children[k]? = some c' →
      arr c = arr' c' ∧ an c = an' c') :
    annotNode tm jc jk arr wit an i nd = annotNode tm jc jk arr' wit' an' i' nd' := by
  cases nd
  case disconnect a b =>
    cases nd' <;> simp [Node.shape, Node.mapCh] at hsh
    rename_i a' b'
    cases b with
    | none =>
      cases b' with
      | some _ => simp at hsh
      | none =>
        have h0 := hc 0 a a' (by simp [Node.children]) (by simp [Node.children])
        simp [annotNode, h0]
    | some b =>
      cases b' with
      | none => simp at hsh
      | some b' =>
        have h0 := hc 0 a a' (by simp [Node.children]) (by simp [Node.children])
        have h1 := hc 1 b b' (by simp [Node.children]) (by simp [Node.children])
        simp [annotNode, h0, h1, ← ha]
  case witness =>
    cases nd' <;> simp [Node.shape, Node.mapCh] at hsh
    simp [annotNode, ← ha, ← hw rfl]
  case iden | unit | hidden h =>
    cases nd' <;> simp [Node.shape, Node.mapCh] at hsh
    all_goals (try subst hsh)
    all_goals simp [annotNode, ← ha]
  case fail e | word n bits | jet name =>
    cases nd' <;> simp [Node.shape, Node.mapCh] at hsh
    all_goals (first | (obtain ⟨rfl, rfl⟩ := hsh) | subst hsh)
    all_goals simp [annotNode, ← ha]
  case injl c | injr c | take c | drop c =>
    cases nd' <;> simp [Node.shape, Node.mapCh] at hsh
    rename_i c'
    have h0 := hc 0 c c' (by simp [Node.children]) (by simp [Node.children])
    simp [annotNode, h0, ← ha]
  case comp a b | case a b | pair a b =>
    cases nd' <;> simp [Node.shape, Node.mapCh] at hsh
    rename_i a' b'
    have h0 := hc 0 a a' (by simp [Node.children]) (by simp [Node.children])
    have h1 := hc 1 b b' (by simp [Node.children]) (by simp [Node.children])
    simp [annotNode, h0, h1, ← ha]
  case assertl a x =>
    cases nd' <;> simp [Node.shape, Node.mapCh] at hsh
    rename_i a' x'
    subst hsh
    have h0 := hc 0 a a' (by simp [Node.children]) (by simp [Node.children])
    simp [annotNode, h0, ← ha]
  case assertr x b =>
    cases nd' <;> simp [Node.shape, Node.mapCh] at hsh
    rename_i x' b'
    subst hsh
    have h0 := hc 0 b b' (by simp [Node.children]) (by simp [Node.children])
    simp [annotNode, h0, ← ha]

/-- the same, for a node and its image under a node map -/
theorem annotNode_mapCh (tm : BM4.Ty → Nat) (jc jk : String → Option Nat)
    (arr arr' : Nat → BM4.Ty × BM4.Ty) (wit wit' : Nat → Option (List Bool)) (an an' : Nat → Annot)
    (g : Nat → Nat) (i j : Nat) (nd : Node) (ha : arr i = arr' j)
    (hw : nd = .witness → wit i = wit' j)
    (hc : ∀ c ∈ nd.children, arr c = arr' (g c) ∧ an c = an' (g c)) :
    annotNode tm jc jk arr wit an i nd = annotNode tm jc jk arr' wit' an' j (nd.mapCh g) := by
  refine annotNode_congr2 tm jc jk arr arr' wit wit' an an' i j nd _ (shape_mapCh g nd).symm ha hw ?_
  intro k c c' h1 h2
  rw [mapCh_children, List.getElem?_map, h1] at h2
  simp only [Option.map_some, Option.some.injEq] at h2
  subst h2
  exact hc c (List.mem_of_getElem? h1)

/-- what `annots` computes, node by node -/
def AnnotOk (jc jk : String → Option Nat) (p : Plan) (arrows : Array (BM4.Ty × BM4.Ty))
    (wit : Nat → Option (List Bool)) (an : Array Annot) : Prop :=
  an.size = p.size ∧ ∀ i nd, p[i]? = some nd →
    annotNode tmr jc jk (fun j => arrows.getD j (.one, .one)) wit (fun j => an.getD j default) i nd =
      some (an.getD i default)

theorem annots_eq_go (jc jk : String → Option Nat) (p : Plan) (arrows : Array (BM4.Ty × BM4.Ty))
    (wit : Nat → Option (List Bool)) :
    annots jc jk p arrows wit = annots.go jc jk arrows wit tmr 0 p.toList #[] := by
  unfold annots
  have : (fun t => match (tmrCache arrows)[t]? with | some v => v | none => tmrF t) = tmr :=
    funext (annots_tm_eq arrows)
  exact congrArg (fun tm => annots.go jc jk arrows wit tm 0 p.toList #[]) this

theorem annotNode_congr_an (jc jk : String → Option Nat) (arr : Nat → BM4.Ty × BM4.Ty)
    (wit : Nat → Option (List Bool)) (an an' : Nat → Annot) (i : Nat) (nd : Node)
    (h : ∀ c ∈ nd.children, an c = an' c) :
    annotNode tmr jc jk arr wit an i nd = annotNode tmr jc jk arr wit an' i nd := by
  refine annotNode_congr2 tmr jc jk arr arr wit wit an an' i i nd nd rfl rfl (fun _ => rfl) ?_
  intro k c c' h1 h2
  rw [h1] at h2; cases h2
  exact ⟨rfl, h c (List.mem_of_getElem? h1)⟩

theorem annots_go_spec (jc jk : String → Option Nat) (p : Plan) (hb : PlanBackward p)
    (arrows : Array (BM4.Ty × BM4.Ty)) (wit : Nat → Option (List Bool)) :
    ∀ (nodes : List Node) (i : Nat) (acc r : Array Annot), acc.size = i →
      (∀ k, nodes[k]? = p[i + k]?) →
      annots.go jc jk arrows wit tmr i nodes acc = some r →
      r.size = i + nodes.length ∧ (∀ j, j < i → r.getD j default = acc.getD j default) ∧
      ∀ k nd, nodes[k]? = some nd →
        annotNode tmr jc jk (fun j => arrows.getD j (.one, .one)) wit (fun j => r.getD j default) (i + k) nd =
          some (r.getD (i + k) default) := by
  intro nodes
  induction nodes with
  | nil =>
    intro i acc r hsz _ h
    simp only [annots.go, Option.some.injEq] at h
    subst h
    exact ⟨by simp [hsz], fun _ _ => rfl, fun k nd hk => by simp at hk⟩
  | cons nd rest ih =>
    intro i acc r hsz hn h
    simp only [annots.go, bind, Option.bind] at h
    cases ha : annotNode tmr jc jk (fun j => arrows.getD j (.one, .one)) wit (fun j => acc.getD j default) i nd with
    | none => rw [ha] at h; cases h
    | some a =>
      rw [ha] at h
      simp only at h
      obtain ⟨h1, h2, h3⟩ := ih (i + 1) (acc.push a) r (by simp [hsz])
        (fun k => by
          have := hn (k + 1)
          simp only [List.getElem?_cons_succ] at this
          rw [this]; congr 1; omega) h
      have hpi : p[i]? = some nd := by
        have := hn 0
        simpa using this.symm
      have hlow : ∀ j, j < i → r.getD j default = acc.getD j default := by
        intro j hj
        rw [h2 j (by omega)]
        simp only [Array.getD_eq_getD_getElem?, Array.getElem?_push]
        rw [if_neg (by omega)]
      have hri : r.getD i default = a := by
        rw [h2 i (by omega)]
        subst hsz
        simp [Array.getD_eq_getD_getElem?, Array.getElem?_push]
      refine ⟨by simp only [List.length_cons]; omega, hlow, ?_⟩
      intro k nd' hk
      cases k with
      | zero =>
        simp only [List.getElem?_cons_zero, Option.some.injEq] at hk
        subst hk
        rw [Nat.add_zero, hri, ← ha]
        exact annotNode_congr_an jc jk _ wit _ _ i nd (fun c hc => hlow c (hb i nd hpi c hc))
      | succ k =>
        simp only [List.getElem?_cons_succ] at hk
        have := h3 k nd' hk
        rw [show i + 1 + k = i + (k + 1) by omega] at this
        exact this

/-- **what `annots` returns satisfies the node-by-node specification** -/
theorem annots_spec (jc jk : String → Option Nat) (p : Plan) (hb : PlanBackward p)
    (arrows : Array (BM4.Ty × BM4.Ty)) (wit : Nat → Option (List Bool)) (an : Array Annot)
    (h : annots jc jk p arrows wit = some an) : AnnotOk jc jk p arrows wit an := by
  rw [annots_eq_go] at h
  obtain ⟨h1, _, h3⟩ := annots_go_spec jc jk p hb arrows wit p.toList 0 #[] an rfl (fun k => by simp) h
  refine ⟨by simpa using h1, ?_⟩
  intro i nd hp
  have := h3 i nd (by simpa using hp)
  simpa using this

theorem annots_go_intro (jc jk : String → Option Nat) (p : Plan) (hb : PlanBackward p)
    (arrows : Array (BM4.Ty × BM4.Ty)) (wit : Nat → Option (List Bool)) (an : Array Annot)
    (H : AnnotOk jc jk p arrows wit an) :
    ∀ (nodes : List Node) (i : Nat) (acc : Array Annot), acc.size = i →
      (∀ k, nodes[k]? = p[i + k]?) → i + nodes.length = p.size →
      (∀ j, j < i → acc.getD j default = an.getD j default) →
      annots.go jc jk arrows wit tmr i nodes acc = some an := by
  intro nodes
  induction nodes with
  | nil =>
    intro i acc hsz _ hlen hag
    simp only [annots.go, Option.some.injEq]
    apply Array.ext
    · rw [hsz, H.1]; simpa using hlen
    · intro j h1 h2
      have := hag j (by omega)
      simp only [Array.getD_eq_getD_getElem?, Array.getElem?_eq_getElem h1,
        Array.getElem?_eq_getElem h2, Option.getD_some] at this
      exact this
  | cons nd rest ih =>
    intro i acc hsz hn hlen hag
    have hpi : p[i]? = some nd := by
      have := hn 0
      simpa using this.symm
    have ha : annotNode tmr jc jk (fun j => arrows.getD j (.one, .one)) wit (fun j => acc.getD j default) i nd =
        some (an.getD i default) := by
      rw [← H.2 i nd hpi]
      exact annotNode_congr_an jc jk _ wit _ _ i nd (fun c hc => hag c (hb i nd hpi c hc))
    simp only [annots.go, bind, Option.bind, ha]
    apply ih (i + 1) _ (by simp [hsz])
      (fun k => by
        have := hn (k + 1)
        simp only [List.getElem?_cons_succ] at this
        rw [this]; congr 1; omega)
      (by simp only [List.length_cons] at hlen; omega)
    intro j hj
    simp only [Array.getD_eq_getD_getElem?, Array.getElem?_push]
    by_cases e : j = acc.size
    · rw [if_pos e]; subst e; rw [hsz]; simp [Array.getD_eq_getD_getElem?]
    · rw [if_neg e]
      have := hag j (by omega)
      simpa [Array.getD_eq_getD_getElem?] using this

/-- **an array satisfying the node-by-node specification is what `annots` returns** -/
theorem annots_intro (jc jk : String → Option Nat) (p : Plan) (hb : PlanBackward p)
    (arrows : Array (BM4.Ty × BM4.Ty)) (wit : Nat → Option (List Bool)) (an : Array Annot)
    (H : AnnotOk jc jk p arrows wit an) : annots jc jk p arrows wit = some an := by
  rw [annots_eq_go]
  exact annots_go_intro jc jk p hb arrows wit an H p.toList 0 #[] rfl (fun k => by simp) (by simp)
    (fun j hj => by omega)

#print axioms annots_spec
#print axioms annots_intro
end Prog
