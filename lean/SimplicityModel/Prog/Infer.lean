/-
Typing constraints of a plan (one rule per combinator: exactly the arrows of `src/types/arrow.rs`)
and their solution by the reference unifier of `Infer.lean` (`unify_good`, `unify_least`: an `ok`
answer is the least solution = the principal solution with the remaining variables set to unit;
`clash`/`occurs` mean there is no finite solution).
-/
import SimplicityModel.Prog.Basic
import SimplicityModel.Infer

namespace Prog
open Inf (Tm Eqn Res)

def tmOfTy : BM4.Ty → Tm
  | .one => .one
  | .sum a b => .sum (tmOfTy a) (tmOfTy b)
  | .prod a b => .prod (tmOfTy a) (tmOfTy b)

def tyOfInf : Inf.Ty → BM4.Ty
  | .one => .one
  | .sum a b => .sum (tyOfInf a) (tyOfInf b)
  | .prod a b => .prod (tyOfInf a) (tyOfInf b)

def infOfTy : BM4.Ty → Inf.Ty
  | .one => .one
  | .sum a b => .sum (infOfTy a) (infOfTy b)
  | .prod a b => .prod (infOfTy a) (infOfTy b)

theorem tyOfInf_infOfTy (t : BM4.Ty) : tyOfInf (infOfTy t) = t := by
  induction t with
  | one => rfl
  | sum a b iha ihb => simp [infOfTy, tyOfInf, iha, ihb]
  | prod a b iha ihb => simp [infOfTy, tyOfInf, iha, ihb]

def src (i : Nat) : Tm := .var (2 * i)
def tgt (i : Nat) : Tm := .var (2 * i + 1)

/-- source and target types of jets, by name -/
abbrev JetTypes := String → Option (BM4.Ty × BM4.Ty)

/-- the equations contributed by node `i`; `f` is the next fresh variable -/
def nodeEqns (jt : JetTypes) (i : Nat) (nd : Node) (f : Nat) : Option (List Eqn × Nat) :=
  match nd with
  | .iden => some ([(src i, tgt i)], f)
  | .unit => some ([(tgt i, .one)], f)
  | .injl c => some ([(src i, src c), (tgt i, .sum (tgt c) (.var f))], f + 1)
  | .injr c => some ([(src i, src c), (tgt i, .sum (.var f) (tgt c))], f + 1)
  | .take c => some ([(src i, .prod (src c) (.var f)), (tgt i, tgt c)], f + 1)
  | .drop c => some ([(src i, .prod (.var f) (src c)), (tgt i, tgt c)], f + 1)
  | .comp a b => some ([(tgt a, src b), (src i, src a), (tgt i, tgt b)], f)
  | .case a b =>
    some ([(src a, .prod (.var f) (.var (f+2))), (src b, .prod (.var (f+1)) (.var (f+2))),
           (tgt i, tgt a), (tgt i, tgt b),
           (src i, .prod (.sum (.var f) (.var (f+1))) (.var (f+2)))], f + 3)
  | .assertl a _ =>
    some ([(src a, .prod (.var f) (.var (f+2))), (tgt i, tgt a),
           (src i, .prod (.sum (.var f) (.var (f+1))) (.var (f+2)))], f + 3)
  | .assertr _ b =>
    some ([(src b, .prod (.var (f+1)) (.var (f+2))), (tgt i, tgt b),
           (src i, .prod (.sum (.var f) (.var (f+1))) (.var (f+2)))], f + 3)
  | .pair a b => some ([(src a, src b), (src i, src a), (tgt i, .prod (tgt a) (tgt b))], f)
  | .disconnect a (some b) =>
    some ([(src a, .prod (tmOfTy (wordTy 8)) (.var f)), (tgt a, .prod (.var (f+1)) (src b)),
           (src i, .var f), (tgt i, .prod (.var (f+1)) (tgt b))], f + 2)
  | .disconnect a none =>
    some ([(src a, .prod (tmOfTy (wordTy 8)) (.var f)), (tgt a, .prod (.var (f+1)) (.var (f+2))),
           (src i, .var f), (tgt i, .prod (.var (f+1)) (.var (f+3)))], f + 4)
  | .witness => some ([], f)
  | .fail _ => some ([], f)
  | .word n _ => some ([(src i, .one), (tgt i, tmOfTy (wordTy n))], f)
  | .jet name => (jt name).map fun (s, t) => ([(src i, tmOfTy s), (tgt i, tmOfTy t)], f)
  | .hidden _ => some ([], f)

/-- all equations of a plan (node order), plus `root : 1 → 1` for programs -/
def constraints (jt : JetTypes) (p : Plan) (program : Bool) : Option (List Eqn) :=
  let rec go (i : Nat) (nodes : List Node) (f : Nat) (acc : List Eqn) : Option (List Eqn) :=
    match nodes with
    | [] => some acc
    | nd :: rest => do
      let (es, f') ← nodeEqns jt i nd f
      go (i + 1) rest f' (acc ++ es)
  do
    let es ← go 0 p.toList (2 * p.size) []
    let r := p.size - 1
    pure (if program then es ++ [(src r, .one), (tgt r, .one)] else es)

inductive InferRes
  | ok (arrows : Array (BM4.Ty × BM4.Ty))
  | typeError   -- clash: two different constructors must be equal
  | occurs      -- a type would have to contain itself
  | badPlan     -- unknown jet
  | fuel        -- the driver's fuel did not suffice (never a verdict)

def unifyFuel : Nat := 100000000

def infer (jt : JetTypes) (p : Plan) (program : Bool) : InferRes :=
  match constraints jt p program with
  | none => .badPlan
  | some es =>
    match Inf.unify unifyFuel es [] with
    | .ok S =>
      let ρ := Inf.closeUnit S
      .ok ((Array.range p.size).map fun i => (tyOfInf (ρ (2 * i)), tyOfInf (ρ (2 * i + 1))))
    | .clash => .typeError
    | .occurs => .occurs
    | .fuel => .fuel

end Prog
