/-
Termination of the construction phase of `inferUB` (every `Arrow::…` constructor, i.e. every
`unify`/`bind_product`/allocation, and `set_arrow_to_program`) with an explicit fuel bound.
-/
import SimplicityModel.Prog.InferUB
import SimplicityModel.UnionBoundTermOps

set_option linter.unusedSimpArgs false
set_option linter.unusedVariables false

namespace Prog
open UB

/-- height (+1) of a complete type a node introduces -/
def tyH (t : BM4.Ty) : Nat := Ty.height (infOfTy t) + 1

def nodeH (jt : JetTypes) : Node → Nat
  | .word n _ => tyH (wordTy n)
  | .jet name => match jt name with
    | some (s, t) => max (tyH s) (tyH t)
    | none => 1
  | .disconnect _ _ => tyH (wordTy 8)
  | _ => 1

/-- the tallest complete type the constructors of a plan introduce (jets, words, `2^256`) -/
def planH (jt : JetTypes) (p : Plan) : Nat :=
  p.toList.foldl (fun m nd => max m (nodeH jt nd)) 1

theorem foldl_max_ge (f : Node → Nat) : ∀ (l : List Node) (m : Nat),
    m ≤ l.foldl (fun m nd => max m (f nd)) m ∧ ∀ nd ∈ l, f nd ≤ l.foldl (fun m nd => max m (f nd)) m
  | [], m => ⟨Nat.le_refl _, fun nd h => by cases h⟩
  | x :: l, m => by
    obtain ⟨h1, h2⟩ := foldl_max_ge f l (max m (f x))
    simp only [List.foldl_cons]
    refine ⟨by omega, fun nd hnd => ?_⟩
    simp only [List.mem_cons] at hnd
    rcases hnd with rfl | hnd
    · omega
    · exact h2 nd hnd

theorem planH_ge (jt : JetTypes) (p : Plan) {i : Nat} {nd : Node} (h : p[i]? = some nd) :
    1 ≤ planH jt p ∧ nodeH jt nd ≤ planH jt p := by
  obtain ⟨h1, h2⟩ := foldl_max_ge (nodeH jt) p.toList 1
  refine ⟨h1, h2 nd ?_⟩
  obtain ⟨hlt, hget⟩ := Array.getElem?_eq_some_iff.1 h
  rw [← hget]; exact Array.getElem_mem_toList hlt

theorem nodeOps_bound (jt : JetTypes) (nd : Node) (k : Nat) (arrow : Nat → Option ElemArrow)
    (ops : List Op) (ar : ElemArrow) (hops : nodeOps jt arrow k nd = some (ops, ar)) (Hm : Nat)
    (h1 : 1 ≤ Hm) (hH : nodeH jt nd ≤ Hm) : ops.length ≤ 10 ∧ ∀ op ∈ ops, OpH Hm op := by
  cases nd with
  | jet name =>
    simp only [nodeOps] at hops
    cases hj : jt name with
    | none => simp [hj] at hops
    | some st =>
      obtain ⟨s, t⟩ := st
      simp only [hj, Option.map_some, Option.some.injEq, Prod.mk.injEq] at hops
      obtain ⟨rfl, rfl⟩ := hops
      simp only [nodeH, hj] at hH
      simp [OpH, tyH] at hH ⊢
      omega
  | disconnect a ob =>
    simp only [nodeH, tyH] at hH
    cases ob with
    | none =>
      simp only [nodeOps, Bind.bind, Option.bind] at hops
      cases harr : arrow a with
      | none => simp [harr] at hops
      | some aa =>
        simp [harr, forDisconnectOps] at hops
        obtain ⟨rfl, rfl⟩ := hops
        simp [OpH]; omega
    | some b =>
      simp only [nodeOps, Bind.bind, Option.bind] at hops
      cases harr : arrow a with
      | none => simp [harr] at hops
      | some aa =>
        cases hbrr : arrow b with
        | none => simp [harr, hbrr] at hops
        | some bb =>
          simp [harr, hbrr, forDisconnectOps] at hops
          obtain ⟨rfl, rfl⟩ := hops
          simp [OpH]; omega
  | word w bits =>
    simp only [nodeOps, Option.some.injEq, Prod.mk.injEq] at hops
    obtain ⟨rfl, rfl⟩ := hops
    simp only [nodeH, tyH] at hH
    simp [OpH, Ty.height]; omega
  | iden | unit | witness | fail _ | hidden _ =>
    simp only [nodeOps, Option.some.injEq, Prod.mk.injEq] at hops
    obtain ⟨rfl, rfl⟩ := hops
    simp [OpH, Ty.height]
    try omega
  | injl c | injr c | take c | drop c | assertl c _ | assertr _ c =>
    simp only [nodeOps, Bind.bind, Option.bind] at hops
    cases harr : arrow c with
    | none => simp [harr] at hops
    | some aa =>
      simp [harr, forCaseOps] at hops
      obtain ⟨rfl, rfl⟩ := hops
      simp [OpH]
  | comp a b | pair a b | case a b =>
    simp only [nodeOps, Bind.bind, Option.bind] at hops
    cases harr : arrow a with
    | none => simp [harr] at hops
    | some aa =>
      cases hbrr : arrow b with
      | none => simp [harr, hbrr] at hops
      | some bb =>
        simp [harr, hbrr, forCaseOps] at hops
        obtain ⟨rfl, rfl⟩ := hops
        simp [OpH]

theorem construct_total (F : Nat) (jt : JetTypes) (p : Plan) (Hm : Nat) (hHm : planH jt p ≤ Hm) :
    ∀ (order : List Nat) (st : Built), TInv st.ctx Hm →
      st.ctx.elems.size + st.ctx.slab.size + 20 * order.length + Hm + 3 ≤ F →
      construct F jt p st order ≠ .error .fuel ∧
      ∀ st', construct F jt p st order = .ok st' → TInv st'.ctx Hm ∧
        st'.ctx.elems.size ≤ st.ctx.elems.size + 10 * order.length ∧
        st'.ctx.slab.size ≤ st.ctx.slab.size + 10 * order.length
  | [], st, t, _ => ⟨(fun h => by cases h), (fun st' h => by cases h; exact ⟨t, Nat.le_refl _, Nat.le_refl _⟩)⟩
  | i :: rest, st, t, hF => by
    simp only [List.length_cons] at hF
    unfold construct
    split
    · exact ⟨(fun h => by cases h), (fun st' h => by cases h)⟩
    · next nd hnd =>
      split
      · exact ⟨(fun h => by cases h), (fun st' h => by cases h)⟩
      · next ops ar hops =>
        obtain ⟨hp1, hp2⟩ := planH_ge jt p hnd
        obtain ⟨hlen, hopH⟩ := nodeOps_bound jt nd _ _ ops ar hops Hm (by omega) (by omega)
        obtain ⟨n1, s1⟩ := runOps_total (F := F) ops t (by omega) hopH
        split
        · next e he =>
          refine ⟨fun h => ?_, fun st' h => by cases h⟩
          cases e <;> first | exact n1 he | (simp [UBRes.ofErr] at h)
        · next c1 h1 =>
          obtain ⟨t1, e1, e2⟩ := s1 c1 h1
          obtain ⟨n2, s2⟩ := construct_total F jt p Hm hHm rest
            { ctx := c1, arrows := st.arrows.setIfInBounds i (some ar) } t1 (by simp only; omega)
          refine ⟨n2, fun st' h => ?_⟩
          obtain ⟨t2, e3, e4⟩ := s2 st' h
          simp only [List.length_cons] at e3 e4 ⊢
          exact ⟨t2, by omega, by omega⟩

/-- **(c) the construction phase terminates**: with fuel `20·|order| + planH + 9` no `unify`,
`bind`, `bind_product`, `root_element` or allocation of a run of `inferUB` runs out of fuel -/
theorem buildAll_total (F : Nat) (jt : JetTypes) (p : Plan) (order : List Nat) (program : Bool)
    (hF : 20 * order.length + planH jt p + 9 ≤ F) : buildAll F jt p order program ≠ .error .fuel := by
  have hp1 : 1 ≤ planH jt p := (foldl_max_ge (nodeH jt) p.toList 1).1
  have hmax : max 1 (planH jt p) = planH jt p := Nat.max_eq_right hp1
  unfold buildAll
  obtain ⟨n1, s1⟩ := construct_total F jt p (max 1 (planH jt p)) (Nat.le_max_right _ _) order
    { ctx := {}, arrows := Array.replicate p.size none } (tinv_empty _)
    (by simp only [show ({} : Ctx).elems.size = 0 from rfl, show ({} : Ctx).slab.size = 0 from rfl]; omega)
  rw [hmax] at s1
  split
  · next r hr => exact fun h => by cases h; exact n1 hr
  · next st hst =>
    obtain ⟨t, e1, e2⟩ := s1 st hst
    simp only [show ({} : Ctx).elems.size = 0 from rfl, show ({} : Ctx).slab.size = 0 from rfl] at e1 e2
    split
    · exact fun h => by cases h
    · next rootArrow hroot =>
      cases program with
      | false => simp
      | true =>
        simp only [if_true]
        obtain ⟨n2, _⟩ := runOps_total (F := F) (programOps rootArrow st.ctx.elems.size) t
          (by simp [programOps]; omega) (fun op hop => by
            simp [programOps] at hop
            rcases hop with rfl | rfl | rfl <;> simp [OpH, Ty.height] <;> omega)
        split
        · next e he =>
          intro h
          cases e <;> first | exact n2 he | (simp [UBRes.ofErr] at h)
        · exact fun h => by cases h

end Prog
