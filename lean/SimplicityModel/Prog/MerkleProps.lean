/-
The bridge for C09: the commitment roots the driver computes with SHA-256 (`Prog.cmrs`) are the
abstract root function `Cmr.cmr` of the *committed structure* of each node (`commitOf`: combinators,
jets and words, fail entropy, hidden roots — no witness data, no types, no disconnected branch),
instantiated with the SHA-256 compression function and tag hashes.  Hence `cmr_hide` and `cmr_inj`
speak about exactly the numbers that are compared with the implementation.
-/
import SimplicityModel.Prog.Merkle
import SimplicityModel.Cmr

namespace Prog
open Sha2

def tagStr : Cmr.Tag → String
  | .l .iden => "iden" | .l .unit => "unit" | .l .witness => "witness"
  | .u .injl => "injl" | .u .injr => "injr" | .u .take => "take" | .u .drop => "drop"
  | .u .disconnect => "disconnect"
  | .b .comp => "comp" | .b .case => "case" | .b .pair => "pair"
  | .fail => "fail"

/-- jets by name and constant words: the leaves whose roots come from a table / from `cmrWord` -/
inductive JW
  | jet (name : String)
  | word (n : Nat) (bits : List Bool)
deriving DecidableEq

/-- the SHA-256 instance of the abstract parameters; `jc` = the jet table -/
def shaParams (jc : String → Nat) : Cmr.Params where
  H := Nat
  compress := fun s b => update2 s b.1 b.2
  init := natOfState H0
  zero := 0
  tagHash := fun t => natOfBytes (sha256 (strBytes ("Simplicity\x1fCommitment\x1f" ++ tagStr t)))
  J := JW
  jetCmr := fun
    | .jet n => jc n
    | .word n b => cmrWord n b

theorem iv_eq (jc : String → Nat) (t : Cmr.Tag) : Cmr.iv (shaParams jc) t = cmrIV (tagStr t) := by
  simp only [Cmr.iv, shaParams, cmrIV, tag, tagIV]

/-- the committed structure of node `i` of a plan (fuel ≥ i + 1) -/
def commitOf (jc : String → Nat) (p : Plan) : Nat → Nat → Cmr.C (shaParams jc)
  | 0, _ => .leaf .unit
  | f+1, i =>
    match p[i]? with
    | some .iden => .leaf .iden
    | some .unit => .leaf .unit
    | some .witness => .leaf .witness
    | some (.injl c) => .un .injl (commitOf jc p f c)
    | some (.injr c) => .un .injr (commitOf jc p f c)
    | some (.take c) => .un .take (commitOf jc p f c)
    | some (.drop c) => .un .drop (commitOf jc p f c)
    | some (.disconnect a _) => .un .disconnect (commitOf jc p f a)
    | some (.comp a b) => .bin .comp (commitOf jc p f a) (commitOf jc p f b)
    | some (.case a b) => .bin .case (commitOf jc p f a) (commitOf jc p f b)
    | some (.pair a b) => .bin .pair (commitOf jc p f a) (commitOf jc p f b)
    | some (.assertl a h) => .bin .case (commitOf jc p f a) (.hidden h)
    | some (.assertr h b) => .bin .case (.hidden h) (commitOf jc p f b)
    | some (.fail e) => .fail (failBlock e).1 (failBlock e).2
    | some (.word n bits) => .jet (.word n bits)
    | some (.jet name) => .jet (.jet name)
    | some (.hidden h) => .hidden h
    | none => .leaf .unit

/-- children refer strictly backwards -/
def WellIdx (p : Plan) : Prop := ∀ (i : Nat) (nd : Node), p[i]? = some nd → ∀ c ∈ nd.children, c < i

theorem commitOf_fuel2 (jc : String → Nat) (p : Plan) (hw : WellIdx p) :
    ∀ (n i f g : Nat), i ≤ n → i < f → i < g → commitOf jc p f i = commitOf jc p g i := by
  intro n
  induction n with
  | zero =>
    intro i f g hi hf hg
    have : i = 0 := by omega
    subst this
    obtain ⟨f', rfl⟩ : ∃ f', f = f' + 1 := ⟨f - 1, by omega⟩
    obtain ⟨g', rfl⟩ : ∃ g', g = g' + 1 := ⟨g - 1, by omega⟩
    simp only [commitOf]
    cases hp : p[0]? with
    | none => rfl
    | some nd =>
      have hc := hw 0 nd hp
      cases nd <;> simp only [Node.children, List.mem_cons, List.mem_singleton, List.not_mem_nil,
        or_false, forall_eq_or_imp, forall_eq] at hc <;> first | rfl | omega
  | succ n ih =>
    intro i f g hi hf hg
    obtain ⟨f', rfl⟩ : ∃ f', f = f' + 1 := ⟨f - 1, by omega⟩
    obtain ⟨g', rfl⟩ : ∃ g', g = g' + 1 := ⟨g - 1, by omega⟩
    simp only [commitOf]
    cases hp : p[i]? with
    | none => rfl
    | some nd =>
      have hc := hw i nd hp
      have sub : ∀ c, c < i → commitOf jc p f' c = commitOf jc p g' c :=
        fun c hci => ih c f' g' (by omega) (by omega) (by omega)
      cases nd with
      | iden | unit | witness | fail _ | word _ _ | jet _ | hidden _ => rfl
      | injl c | injr c | take c | drop c =>
        simp only [Node.children, List.mem_singleton, forall_eq] at hc
        simp only [sub _ hc]
      | assertl c _ | assertr _ c =>
        simp only [Node.children, List.mem_singleton, forall_eq] at hc
        simp only [sub _ hc]
      | comp a b | case a b | pair a b =>
        simp only [Node.children, List.mem_cons, List.mem_singleton, List.not_mem_nil, or_false,
          forall_eq_or_imp, forall_eq] at hc
        simp only [sub _ hc.1, sub _ hc.2]
      | disconnect a b =>
        cases b with
        | none =>
          simp only [Node.children, List.mem_singleton, forall_eq] at hc
          simp only [sub _ hc]
        | some b =>
          simp only [Node.children, List.mem_cons, List.mem_singleton, List.not_mem_nil, or_false,
            forall_eq_or_imp, forall_eq] at hc
          simp only [sub _ hc.1]

theorem commitOf_fuel (jc : String → Nat) (p : Plan) (hw : WellIdx p) (f i : Nat) (h : i < f) :
    commitOf jc p f i = commitOf jc p (i + 1) i :=
  commitOf_fuel2 jc p hw i i f (i + 1) (Nat.le_refl _) h (Nat.lt_succ_self _)

/-- root of node `i` according to the abstract construction -/
def rootOf (jc : String → Nat) (p : Plan) (i : Nat) : Nat :=
  Cmr.cmr (shaParams jc) (commitOf jc p (i + 1) i)

/-- one node: the driver's `cmrNode`, given the roots of the children, is the abstract root -/
theorem cmrNode_eq (jc : String → Nat) (p : Plan) (hw : WellIdx p) (i : Nat) (nd : Node)
    (hp : p[i]? = some nd) (cm : Nat → Nat) (hcm : ∀ c, c < i → cm c = rootOf jc p c) :
    cmrNode (fun n => some (jc n)) cm nd = some (rootOf jc p i) := by
  have hc := hw i nd hp
  have fuel : ∀ c, c < i → Cmr.cmr (shaParams jc) (commitOf jc p i c) = rootOf jc p c := by
    intro c hci; unfold rootOf; rw [commitOf_fuel jc p hw i c hci]
  unfold rootOf
  simp only [commitOf, hp]
  cases nd with
  | iden | unit | witness => rfl
  | fail e => rfl
  | word n bits => rfl
  | jet name => rfl
  | hidden h => rfl
  | injl c | injr c | take c | drop c =>
    simp only [Node.children, List.mem_singleton, forall_eq] at hc
    simp only [cmrNode, Cmr.cmr, fuel _ hc, hcm _ hc]; rfl
  | assertl c h | assertr h c =>
    simp only [Node.children, List.mem_singleton, forall_eq] at hc
    simp only [cmrNode, Cmr.cmr, fuel _ hc, hcm _ hc]; rfl
  | comp a b | case a b | pair a b =>
    simp only [Node.children, List.mem_cons, List.mem_singleton, List.not_mem_nil, or_false,
      forall_eq_or_imp, forall_eq] at hc
    simp only [cmrNode, Cmr.cmr, fuel _ hc.1, fuel _ hc.2, hcm _ hc.1, hcm _ hc.2]; rfl
  | disconnect a b =>
    have ha : a < i := by
      cases b <;> simp only [Node.children, List.mem_cons, List.mem_singleton, List.not_mem_nil,
        or_false, forall_eq_or_imp, forall_eq] at hc
      · exact hc
      · exact hc.1
    simp only [cmrNode, Cmr.cmr, fuel _ ha, hcm _ ha]; rfl

theorem cmrsGo_eq (jc : String → Nat) (p : Plan) (hw : WellIdx p) :
    ∀ (rest pre : List Node) (acc cs : Array Nat), p.toList = pre ++ rest → pre.length = acc.size →
      (∀ j, j < acc.size → acc.getD j 0 = rootOf jc p j) →
      cmrsGo (fun n => some (jc n)) rest acc = some cs →
      cs.size = acc.size + rest.length ∧ ∀ j, j < cs.size → cs.getD j 0 = rootOf jc p j := by
  intro rest
  induction rest with
  | nil =>
    intro pre acc cs _ _ hinv h
    simp only [cmrsGo, Option.some.injEq] at h
    subst h
    exact ⟨by simp, hinv⟩
  | cons nd rest ih =>
    intro pre acc cs hsplit hlen hinv h
    have hp : p[acc.size]? = some nd := by
      have : p.toList[acc.size]? = some nd := by
        rw [hsplit, ← hlen]; simp
      simpa using this
    have hn := cmrNode_eq jc p hw acc.size nd hp (fun i => acc.getD i 0) hinv
    simp only [cmrsGo, hn] at h
    have := ih (pre ++ [nd]) (acc.push (rootOf jc p acc.size)) cs
      (by rw [hsplit]; simp) (by simp [hlen])
      (by
        intro j hj
        simp only [Array.size_push] at hj
        by_cases hjs : j < acc.size
        · have := hinv j hjs
          simp only [Array.getD_eq_getD_getElem?, Array.getElem?_push] at this ⊢
          rw [if_neg (by omega)]; exact this
        · have : j = acc.size := by omega
          subst this
          simp [Array.getD_eq_getD_getElem?])
      h
    constructor
    · rw [this.1]; simp; omega
    · exact this.2

/-- **The roots the driver computes are the abstract roots of the committed structure.** -/
theorem cmrs_eq (jc : String → Nat) (p : Plan) (hw : WellIdx p) (cs : Array Nat)
    (h : cmrs (fun n => some (jc n)) p = some cs) :
    cs.size = p.size ∧ ∀ i, i < p.size → cs.getD i 0 = rootOf jc p i := by
  have := cmrsGo_eq jc p hw p.toList [] #[] cs (by simp) rfl (by intro j hj; simp at hj) h
  constructor
  · simpa using this.1
  · intro i hi; exact this.2 i (by rw [this.1]; simpa using hi)

end Prog
