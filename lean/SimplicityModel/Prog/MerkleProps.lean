/-
The bridge for C09: the commitment roots the driver computes with SHA-256 (`Prog.cmrs`) are the
abstract root function `Cmr.cmr` of the *committed structure* of each node (`commitOf`: combinators,
jets and words, fail entropy, hidden roots — no witness data, no types, no disconnected branch),
instantiated with the SHA-256 compression step and tag hashes.  Hence `cmr_hide` and `cmr_inj`
speak about exactly the numbers that are compared with the implementation.

Everything is proved over arbitrary hash operations (`upd`, `init`, `th`, an IV table `ivn` with
`ivn name = upd init (th name) (th name)`), so no proof ever evaluates SHA-256; the SHA-256 instance
is obtained at the end by instantiation.
-/
import SimplicityModel.Prog.Merkle
import SimplicityModel.Cmr

namespace Prog

def tagStr : Cmr.Tag → String
  | .l .iden => "iden" | .l .unit => "unit" | .l .witness => "witness"
  | .u .injl => "injl" | .u .injr => "injr" | .u .take => "take" | .u .drop => "drop"
  | .u .disconnect => "disconnect"
  | .b .comp => "comp" | .b .case => "case" | .b .pair => "pair"
  | .fail => "fail"

/-- jets by name and constant words: the leaves whose roots come from a table / from `cmrWord` -/
inductive JW
  | jet (name : String)
  | word (n : Nat) (bits : List Bool)
deriving DecidableEq

section Generic
variable (upd : Nat → Nat → Nat → Nat) (init : Nat) (th : String → Nat) (ivn : String → Nat)
  (wordCmr : Nat → List Bool → Nat) (jc : String → Nat)

/-- the abstract parameters built from the hash operations; `jc` = the jet table -/
def params : Cmr.Params where
  H := Nat
  compress := fun s b => upd s b.1 b.2
  init := init
  zero := 0
  tagHash := fun t => th (tagStr t)
  J := JW
  jetCmr := fun
    | .jet n => jc n
    | .word n b => wordCmr n b

/-- the IV table is the table of tagged midstates -/
def IvOk : Prop := ∀ t : Cmr.Tag, ivn (tagStr t) = upd init (th (tagStr t)) (th (tagStr t))

theorem iv_eq (h : IvOk upd init th ivn) (t : Cmr.Tag) :
    Cmr.iv (params upd init th wordCmr jc) t = ivn (tagStr t) := (h t).symm

abbrev PP := params upd init th wordCmr jc

/-- the committed structure of node `i` of a plan (fuel ≥ i + 1) -/
def commitOf (p : Plan) : Nat → Nat → Cmr.C (params upd init th wordCmr jc)
  | 0, _ => .leaf .unit
  | f+1, i =>
    match p[i]? with
    | some .iden => .leaf .iden
    | some .unit => .leaf .unit
    | some .witness => .leaf .witness
    | some (.injl c) => .un .injl (commitOf p f c)
    | some (.injr c) => .un .injr (commitOf p f c)
    | some (.take c) => .un .take (commitOf p f c)
    | some (.drop c) => .un .drop (commitOf p f c)
    | some (.disconnect a _) => .un .disconnect (commitOf p f a)
    | some (.comp a b) => .bin .comp (commitOf p f a) (commitOf p f b)
    | some (.case a b) => .bin .case (commitOf p f a) (commitOf p f b)
    | some (.pair a b) => .bin .pair (commitOf p f a) (commitOf p f b)
    | some (.assertl a h) => .bin .case (commitOf p f a) (.hidden h)
    | some (.assertr h b) => .bin .case (.hidden h) (commitOf p f b)
    | some (.fail e) => .fail (failBlock e).1 (failBlock e).2
    | some (.word n bits) => .jet (.word n bits)
    | some (.jet name) => .jet (.jet name)
    | some (.hidden h) => .hidden h
    | none => .leaf .unit

/-- children refer strictly backwards -/
def WellIdx (p : Plan) : Prop := ∀ (i : Nat) (nd : Node), p[i]? = some nd → ∀ c ∈ nd.children, c < i

theorem commitOf_fuel2 (p : Plan) (hw : WellIdx p) :
    ∀ (n i f g : Nat), i ≤ n → i < f → i < g →
      commitOf upd init th wordCmr jc p f i = commitOf upd init th wordCmr jc p g i := by
  intro n
  induction n with
  | zero =>
    intro i f g hi hf hg
    have : i = 0 := by omega
    subst this
    obtain ⟨f', rfl⟩ : ∃ f', f = f' + 1 := ⟨f - 1, by omega⟩
    obtain ⟨g', rfl⟩ : ∃ g', g = g' + 1 := ⟨g - 1, by omega⟩
    simp only [commitOf]
    cases hp : p[0]? with
    | none => rfl
    | some nd =>
      have hc := hw 0 nd hp
      have sub : ∀ c, c < 0 → commitOf upd init th wordCmr jc p f' c = commitOf upd init th wordCmr jc p g' c :=
        fun c hci => absurd hci (Nat.not_lt_zero c)
      cases nd with
      | iden | unit | witness | fail _ | word _ _ | jet _ | hidden _ => rfl
      | injl c | injr c | take c | drop c =>
        simp only [Node.children, List.mem_singleton, forall_eq] at hc
        simp only [sub _ hc]
      | assertl c _ | assertr _ c =>
        simp only [Node.children, List.mem_singleton, forall_eq] at hc
        simp only [sub _ hc]
      | comp a b | case a b | pair a b =>
        simp only [Node.children, List.mem_cons, List.mem_singleton, List.not_mem_nil, or_false,
          forall_eq_or_imp, forall_eq] at hc
        simp only [sub _ hc.1, sub _ hc.2]
      | disconnect a b =>
        cases b with
        | none =>
          simp only [Node.children, List.mem_singleton, forall_eq] at hc
          simp only [sub _ hc]
        | some b =>
          simp only [Node.children, List.mem_cons, List.mem_singleton, List.not_mem_nil, or_false,
            forall_eq_or_imp, forall_eq] at hc
          simp only [sub _ hc.1]

  | succ n ih =>
    intro i f g hi hf hg
    obtain ⟨f', rfl⟩ : ∃ f', f = f' + 1 := ⟨f - 1, by omega⟩
    obtain ⟨g', rfl⟩ : ∃ g', g = g' + 1 := ⟨g - 1, by omega⟩
    simp only [commitOf]
    cases hp : p[i]? with
    | none => rfl
    | some nd =>
      have hc := hw i nd hp
      have sub : ∀ c, c < i → commitOf upd init th wordCmr jc p f' c = commitOf upd init th wordCmr jc p g' c :=
        fun c hci => ih c f' g' (by omega) (by omega) (by omega)
      cases nd with
      | iden | unit | witness | fail _ | word _ _ | jet _ | hidden _ => rfl
      | injl c | injr c | take c | drop c =>
        simp only [Node.children, List.mem_singleton, forall_eq] at hc
        simp only [sub _ hc]
      | assertl c _ | assertr _ c =>
        simp only [Node.children, List.mem_singleton, forall_eq] at hc
        simp only [sub _ hc]
      | comp a b | case a b | pair a b =>
        simp only [Node.children, List.mem_cons, List.mem_singleton, List.not_mem_nil, or_false,
          forall_eq_or_imp, forall_eq] at hc
        simp only [sub _ hc.1, sub _ hc.2]
      | disconnect a b =>
        cases b with
        | none =>
          simp only [Node.children, List.mem_singleton, forall_eq] at hc
          simp only [sub _ hc]
        | some b =>
          simp only [Node.children, List.mem_cons, List.mem_singleton, List.not_mem_nil, or_false,
            forall_eq_or_imp, forall_eq] at hc
          simp only [sub _ hc.1]

theorem commitOf_fuel (p : Plan) (hw : WellIdx p) (f i : Nat) (h : i < f) :
    commitOf upd init th wordCmr jc p f i = commitOf upd init th wordCmr jc p (i + 1) i :=
  commitOf_fuel2 upd init th wordCmr jc p hw i i f (i + 1) (Nat.le_refl _) h (Nat.lt_succ_self _)

/-- root of node `i` according to the abstract construction -/
def rootOf (p : Plan) (i : Nat) : Nat :=
  Cmr.cmr (params upd init th wordCmr jc) (commitOf upd init th wordCmr jc p (i + 1) i)

/-- one node: the generic `cmrNodeG`, given the roots of the children, is the abstract root -/
theorem cmrNodeG_eq (hiv : IvOk upd init th ivn) (p : Plan) (hw : WellIdx p) (i : Nat) (nd : Node)
    (hp : p[i]? = some nd) (cm : Nat → Nat)
    (hcm : ∀ c, c < i → cm c = rootOf upd init th wordCmr jc p c) :
    cmrNodeG upd ivn wordCmr (fun n => some (jc n)) cm nd = some (rootOf upd init th wordCmr jc p i) := by
  have hc := hw i nd hp
  have fuel : ∀ c, c < i → Cmr.cmr (params upd init th wordCmr jc) (commitOf upd init th wordCmr jc p i c)
      = rootOf upd init th wordCmr jc p c := by
    intro c hci; unfold rootOf; rw [commitOf_fuel upd init th wordCmr jc p hw i c hci]
  have iv := iv_eq upd init th ivn wordCmr jc hiv
  unfold rootOf
  simp only [commitOf, hp]
  cases nd with
  | iden => simp only [cmrNodeG, Cmr.cmr, iv, tagStr]
  | unit => simp only [cmrNodeG, Cmr.cmr, iv, tagStr]
  | witness => simp only [cmrNodeG, Cmr.cmr, iv, tagStr]
  | fail e =>
    simp only [cmrNodeG, Cmr.cmr, iv, tagStr]
    try rfl
  | word n bits =>
    simp only [cmrNodeG, Cmr.cmr]
    try rfl
  | jet name =>
    simp only [cmrNodeG, Cmr.cmr]
    try rfl
  | hidden h => simp only [cmrNodeG, Cmr.cmr]
  | injl c | injr c | take c | drop c =>
    simp only [Node.children, List.mem_singleton, forall_eq] at hc
    simp only [cmrNodeG, Cmr.cmr, fuel _ hc, hcm _ hc, iv, tagStr]
    try rfl
  | assertl c h | assertr h c =>
    simp only [Node.children, List.mem_singleton, forall_eq] at hc
    simp only [cmrNodeG, Cmr.cmr, fuel _ hc, hcm _ hc, iv, tagStr]
    try rfl
  | comp a b | case a b | pair a b =>
    simp only [Node.children, List.mem_cons, List.mem_singleton, List.not_mem_nil, or_false,
      forall_eq_or_imp, forall_eq] at hc
    simp only [cmrNodeG, Cmr.cmr, fuel _ hc.1, fuel _ hc.2, hcm _ hc.1, hcm _ hc.2, iv, tagStr]
    try rfl
  | disconnect a b =>
    have ha : a < i := by
      cases b <;> simp only [Node.children, List.mem_cons, List.mem_singleton, List.not_mem_nil,
        or_false, forall_eq_or_imp, forall_eq] at hc
      · exact hc
      · exact hc.1
    simp only [cmrNodeG, Cmr.cmr, fuel _ ha, hcm _ ha, iv, tagStr]
    try rfl

theorem cmrsGoG_eq (hiv : IvOk upd init th ivn) (p : Plan) (hw : WellIdx p) :
    ∀ (rest pre : List Node) (acc cs : Array Nat), p.toList = pre ++ rest → pre.length = acc.size →
      (∀ j, j < acc.size → acc.getD j 0 = rootOf upd init th wordCmr jc p j) →
      cmrsGoG (cmrNodeG upd ivn wordCmr (fun n => some (jc n))) rest acc = some cs →
      cs.size = acc.size + rest.length ∧ ∀ j, j < cs.size → cs.getD j 0 = rootOf upd init th wordCmr jc p j := by
  intro rest
  induction rest with
  | nil =>
    intro pre acc cs _ _ hinv h
    simp only [cmrsGoG, Option.some.injEq] at h
    subst h
    exact ⟨by simp, hinv⟩
  | cons nd rest ih =>
    intro pre acc cs hsplit hlen hinv h
    have hp : p[acc.size]? = some nd := by
      have : p.toList[acc.size]? = some nd := by
        rw [hsplit, ← hlen]; simp
      simpa using this
    have hn := cmrNodeG_eq upd init th ivn wordCmr jc hiv p hw acc.size nd hp (fun i => acc.getD i 0) hinv
    simp only [cmrsGoG, hn] at h
    have := ih (pre ++ [nd]) (acc.push (rootOf upd init th wordCmr jc p acc.size)) cs
      (by rw [hsplit]; simp) (by simp [hlen])
      (by
        intro j hj
        simp only [Array.size_push] at hj
        by_cases hjs : j < acc.size
        · have := hinv j hjs
          simp only [Array.getD_eq_getD_getElem?, Array.getElem?_push] at this ⊢
          rw [if_neg (by omega)]; exact this
        · have : j = acc.size := by omega
          subst this
          simp [Array.getD_eq_getD_getElem?])
      h
    constructor
    · rw [this.1]; simp; omega
    · exact this.2

end Generic

/-! ### the SHA-256 instance -/

/-- the IV table of the driver is the table of SHA-256 tagged midstates -/
theorem ivTable_ok : IvOk Sha2.update2 (Sha2.natOfState Sha2.H0)
    (fun s => tagHash ("Simplicity\x1fCommitment\x1f" ++ s)) ivTable := by
  intro t
  cases t with
  | l k => cases k <;> rfl
  | u k => cases k <;> rfl
  | b k => cases k <;> rfl
  | fail => rfl

/-- the SHA-256 instance of the abstract parameters; `jc` = the jet table -/
abbrev shaParams (jc : String → Nat) : Cmr.Params :=
  params Sha2.update2 (Sha2.natOfState Sha2.H0) (fun s => tagHash ("Simplicity\x1fCommitment\x1f" ++ s)) cmrWord jc

abbrev shaCommitOf (jc : String → Nat) (p : Plan) (f i : Nat) : Cmr.C (shaParams jc) :=
  commitOf Sha2.update2 (Sha2.natOfState Sha2.H0) (fun s => tagHash ("Simplicity\x1fCommitment\x1f" ++ s)) cmrWord jc p f i

/-- **The roots the driver computes are the abstract roots of the committed structure.** -/
theorem cmrs_eq (jc : String → Nat) (p : Plan) (hw : WellIdx p) (cs : Array Nat)
    (h : cmrs (fun n => some (jc n)) p = some cs) :
    cs.size = p.size ∧ ∀ i, i < p.size → cs.getD i 0 =
      Cmr.cmr (shaParams jc) (shaCommitOf jc p (i + 1) i) := by
  have := cmrsGoG_eq Sha2.update2 (Sha2.natOfState Sha2.H0)
    (fun s => tagHash ("Simplicity\x1fCommitment\x1f" ++ s)) ivTable cmrWord jc ivTable_ok p hw
    p.toList [] #[] cs (by simp) rfl (by intro j hj; simp at hj) h
  constructor
  · simpa using this.1
  · intro i hi; exact this.2 i (by rw [this.1]; simpa using hi)

end Prog
