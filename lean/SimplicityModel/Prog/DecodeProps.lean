/-
C02/C01 assembly, decoder side: what an accepting run of `Prog.decodeRedeem` went through
(`decodeRedeem_inv`) and what it establishes about the wire list, the converted plan and the
annotations (`decodeRedeem_facts`: the hypotheses of `Prog.encode_decoded`).
-/
import SimplicityModel.Prog.CodecProps
namespace Prog
open Wire PO

/-- the identity roots the decoder compares -/
def ihrList (plan : Plan) (an : Array Annot) : List Nat :=
  (List.range plan.size).filterMap fun i =>
    match plan[i]? with
    | some (.hidden _) => none
    | _ => (an[i]?).map (·.ihr)

/-- **what an accepting run of `decodeRedeem` went through** -/
theorem decodeRedeem_inv (tb : Tables) (prog wit : List Bool) (d : Decoded)
    (h : decodeRedeem tb prog wit = .ok d) :
    ∃ ns rest wrest,
      decProgram tb.jc prog = .ok (ns, rest) ∧ closeOk rest = true ∧
      canonicalOk ns.toArray = true ∧ convert tb.nameOf ns.toArray = .ok d.plan ∧
      (∀ nd ∈ d.plan.toList, ∀ a, nd ≠ .disconnect a none) ∧
      infer tb.jetTy d.plan true = .ok d.arrows ∧
      readWitnesses d.plan d.arrows wit = .ok (d.wits, wrest) ∧ closeOk wrest = true ∧
      annots tb.jetCmr tb.jetCost d.plan d.arrows (fun i => (d.wits.find? (·.1 = i)).map (·.2)) = some d.annots ∧
      (ihrList d.plan d.annots).eraseDups.length = (ihrList d.plan d.annots).length := by
  unfold decodeRedeem at h
  cases hp : decProgram tb.jc prog with
  | error e => rw [hp] at h; cases e <;> simp [bind, Except.bind, throw, throwThe, MonadExceptOf.throw] at h
  | ok x =>
    obtain ⟨ns, rest⟩ := x
    rw [hp] at h
    simp only [bind, Except.bind, pure, Except.pure, throw, throwThe, MonadExceptOf.throw] at h
    have hcl : closeOk rest = true := by
      cases hc : closeOk rest with
      | true => rfl
      | false => rw [hc] at h; simp at h
    simp only [hcl, Bool.not_true, Bool.false_eq_true, if_false] at h
    by_cases hz : ns.toArray.size = 0
    · simp [hz] at h
    rw [if_neg hz] at h
    have hcan : canonicalOk ns.toArray = true := by
      cases hc : canonicalOk ns.toArray with
      | true => rfl
      | false => rw [hc] at h; simp at h
    simp only [hcan, Bool.not_true, Bool.false_eq_true, if_false] at h
    cases hcv : convert tb.nameOf ns.toArray with
    | error e => rw [hcv] at h; cases h
    | ok plan =>
      rw [hcv] at h
      simp only at h
      split at h
      · cases h
      rename_i hany
      have hdisc : ∀ nd ∈ plan.toList, ∀ a, nd ≠ .disconnect a none := by
        intro nd hnd a e
        subst e
        apply hany
        obtain ⟨i, hi, he⟩ := List.mem_iff_getElem.mp hnd
        refine Array.any_eq_true.mpr ⟨i, by simpa using hi, ?_⟩
        have : plan[i]'(by simpa using hi) = Node.disconnect a none := by simpa using he
        rw [this]
      cases hinf : infer tb.jetTy plan true with
      | ok arrows =>
        rw [hinf] at h
        simp only at h
        cases hrw : readWitnesses plan arrows wit with
        | error e => rw [hrw] at h; cases h
        | ok wr =>
          obtain ⟨ws, wrest⟩ := wr
          rw [hrw] at h
          simp only at h
          have hcl2 : closeOk wrest = true := by
            cases hc : closeOk wrest with
            | true => rfl
            | false => rw [hc] at h; simp at h
          simp only [hcl2, Bool.not_true, Bool.false_eq_true, if_false] at h
          cases han : annots tb.jetCmr tb.jetCost plan arrows
              (fun i => Option.map (fun x => x.snd) (List.find? (fun x => decide (x.fst = i)) ws)) with
          | none => rw [han] at h; cases h
          | some an =>
            rw [han] at h
            simp only at h
            split at h
            · cases h
            · next hne =>
              simp only [Except.ok.injEq] at h
              subst h
              refine ⟨ns, rest, wrest, rfl, hcl, hcan, hcv, hdisc, hinf, hrw, hcl2, han, ?_⟩
              exact Decidable.not_not.mp hne
      | typeError => rw [hinf] at h; cases h
      | occurs => rw [hinf] at h; cases h
      | badPlan => rw [hinf] at h; cases h
      | fuel => rw [hinf] at h; cases h
theorem annots_go_size (tm : BM4.Ty → Nat) (jetCmr jetCost : String → Option Nat)
    (arrows : Array (BM4.Ty × BM4.Ty)) (wit : Nat → Option (List Bool)) :
    ∀ (nodes : List Node) (i : Nat) (acc r : Array Annot),
      annots.go jetCmr jetCost arrows wit tm i nodes acc = some r → r.size = acc.size + nodes.length := by
  intro nodes
  induction nodes with
  | nil => intro i acc r h; simp only [annots.go, Option.some.injEq] at h; subst h; simp
  | cons nd rest ih =>
    intro i acc r h
    simp only [annots.go, bind, Option.bind] at h
    split at h
    · cases h
    · next a _ =>
      have := ih _ _ _ h
      simp only [Array.size_push, List.length_cons] at this ⊢
      omega

theorem annots_size (jetCmr jetCost : String → Option Nat) (p : Plan)
    (arrows : Array (BM4.Ty × BM4.Ty)) (wit : Nat → Option (List Bool)) (an : Array Annot)
    (h : annots jetCmr jetCost p arrows wit = some an) : an.size = p.size := by
  unfold annots at h
  have := annots_go_size _ jetCmr jetCost arrows wit _ _ _ _ h
  simpa using this

theorem conv_not_hidden {J : Type} (nameOf : J → String) (A : Array (WNode J)) (n : WNode J) (nd : Node)
    (h : convNode nameOf A n = .ok nd) (hn : ∀ r, n ≠ .hidden r) : ∀ x, nd ≠ .hidden x := by
  have spec := convNode_spec nameOf A n nd h
  intro x hx
  subst hx
  cases n <;> simp at spec
  exact absurd rfl (hn _)

theorem padToByte_eq (x rest bs : List Bool) (hb : bs = x ++ rest) (h8 : bs.length % 8 = 0)
    (hc : closeOk rest = true) : padToByte x = bs := by
  unfold closeOk at hc
  simp only [Bool.and_eq_true, decide_eq_true_eq, List.all_eq_true, beq_iff_eq] at hc
  have hr : rest = List.replicate rest.length false := List.eq_replicate_iff.mpr ⟨rfl, hc.2⟩
  subst hb
  simp only [List.length_append] at h8
  unfold padToByte
  rw [hr]
  have := hc.1
  congr 2
  omega

theorem ihrList_entry (plan : Plan) (an : Array Annot) (i : Nat) (nd : Node) (a : Annot)
    (hp : plan[i]? = some nd) (hn : ∀ x, nd ≠ .hidden x) (ha : an[i]? = some a) :
    (match plan[i]? with
      | some (.hidden _) => none
      | _ => (an[i]?).map (·.ihr)) = some a.ihr := by
  rw [hp, ha]
  cases nd <;> first | rfl | exact absurd rfl (hn _)

/-- the facts `DecFacts` from their sources: a backward-referencing node list, its conversion, the
size of the annotation array, duplicate-free identity roots -/
theorem decFacts_mk {J : Type} (nameOf : J → String) (ns : List (WNode J)) (plan : Plan)
    (an : Array Annot) (hne : ns ≠ []) (hok : NodesOk 0 ns)
    (hcv : convert nameOf ns.toArray = .ok plan) (hansz : an.size = plan.size)
    (hihr : (ihrList plan an).eraseDups.length = (ihrList plan an).length) :
    DecFacts nameOf ns.toArray plan an ∧ WellIdx (shapes ns.toArray) ∧
      0 < ns.toArray.size ∧ hiddenAt ns.toArray (ns.toArray.size - 1) = none := by
  obtain ⟨hsize, hnode, hroot, hdist⟩ := convert_spec nameOf ns.toArray plan hcv
  have hlen : 0 < ns.length := List.length_pos_iff.mpr hne
  have hw : WellIdx (shapes ns.toArray) := by
    intro i
    have := wellIdx_of_nodesOk ns 0 hok i
    simpa [shapes] using this
  refine ⟨?_, hw, by simpa using hlen, hroot⟩
  refine ⟨⟨hsize, by rw [hansz, hsize], hnode, ?_, hdist⟩, ?_⟩
  · intro i n hi
    have := ok_of_nodesOk ns 0 hok i n (by simpa using hi)
    simpa using this
  · intro i j a b hvi hvj hai haj hab
    have hnd := ListAux.nodup_of_eraseDups_length _ hihr
    have hi : i < plan.size := by
      rw [← hansz]
      rcases Nat.lt_or_ge i an.size with h' | h'
      · exact h'
      · rw [Array.getElem?_eq_none h'] at hai; cases hai
    have hj : j < plan.size := by
      rw [← hansz]
      rcases Nat.lt_or_ge j an.size with h' | h'
      · exact h'
      · rw [Array.getElem?_eq_none h'] at haj; cases haj
    have entry : ∀ (k : Nat) (c : Annot), k < plan.size → hiddenAt ns.toArray k = none →
        an[k]? = some c →
        (match plan[k]? with
          | some (.hidden _) => none
          | _ => (an[k]?).map (·.ihr)) = some c.ihr := by
      intro k c hk hv hc
      obtain ⟨n, hA⟩ : ∃ n, ns.toArray[k]? = some n :=
        ⟨ns.toArray[k]'(by rw [← hsize]; exact hk), Array.getElem?_eq_getElem _⟩
      obtain ⟨nd, hpk, hcn⟩ := hnode k n hA
      refine ihrList_entry plan an k nd c hpk ?_ hc
      refine conv_not_hidden nameOf ns.toArray n nd hcn ?_
      intro r hr
      subst hr
      rw [hiddenAt_hidden hA] at hv; cases hv
    exact ListAux.filterMap_nodup_inj _ (List.range plan.size) hnd List.nodup_range
      i (List.mem_range.mpr hi) j (List.mem_range.mpr hj) a.ihr (entry i a hi hvi hai)
      (by rw [hab]; exact entry j b hj hvj haj)

/-- **what an accepting run of `decodeRedeem` establishes** about the wire list, the plan and the
annotations: the hypotheses of `encode_decoded` -/
theorem decodeRedeem_facts (tb : Tables) (prog wit : List Bool) (d : Decoded)
    (h : decodeRedeem tb prog wit = .ok d) :
    ∃ ns rest wrest,
      prog = encProgram tb.jc ns ++ rest ∧ closeOk rest = true ∧
      DecFacts tb.nameOf ns.toArray d.plan d.annots ∧ WellIdx (shapes ns.toArray) ∧
      0 < ns.toArray.size ∧ hiddenAt ns.toArray (ns.toArray.size - 1) = none ∧
      canonicalOk ns.toArray = true ∧
      readWitnesses d.plan d.arrows wit = .ok (d.wits, wrest) ∧ closeOk wrest = true := by
  obtain ⟨ns, rest, wrest, hp, hcl, hcan, hcv, _, _, hrw, hcl2, han, hihr⟩ := decodeRedeem_inv tb prog wit d h
  obtain ⟨hprog, hne, _, hok⟩ := decProgram_canonical tb.jc prog ns rest hp
  have hansz := annots_size _ _ _ _ _ _ han
  obtain ⟨F, hw, hpos, hroot⟩ := decFacts_mk tb.nameOf ns d.plan d.annots hne hok hcv hansz hihr
  exact ⟨ns, rest, wrest, hprog, hcl, F, hw, hpos, hroot, hcan, hrw, hcl2⟩

end Prog
