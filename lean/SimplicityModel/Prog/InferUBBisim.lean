/-
`ub_ref_bisim`: for a construction order in which every node occurs exactly once, the equations of a
run of `inferUB` and `Prog.constraints` have the same solutions on the arrows of the nodes.
-/
import SimplicityModel.Prog.InferUBGlue

set_option linter.unusedSimpArgs false
set_option linter.unusedVariables false

namespace Prog
open UB Inf

theorem replicate_join_none (n j : Nat) :
    ((Array.replicate n (none : Option ElemArrow))[j]?).join = none := by
  rw [Array.getElem?_replicate]
  split <;> rfl

theorem ub_ref_bisim (jt : JetTypes) (p : Plan) (order : List Nat) (program : Bool)
    {E : List Eqn} {ea : Array (Option ElemArrow)} {es : List Eqn}
    (hE : ubEqns jt p order program = some (E, ea)) (hc : constraints jt p program = some es)
    (hnd : order.Nodup) (hall : ∀ i, i < p.size → i ∈ order) :
    (∀ ρ, Sol ρ E → ∃ ρ', Sol ρ' es ∧
      ∀ (i : Nat) s t, (ea[i]?).join = some (s, t) → ρ' (2 * i) = ρ s ∧ ρ' (2 * i + 1) = ρ t) ∧
    (∀ ρ', Sol ρ' es → ∃ ρ, Sol ρ E ∧
      ∀ (i : Nat) s t, (ea[i]?).join = some (s, t) → ρ s = ρ' (2 * i) ∧ ρ t = ρ' (2 * i + 1)) := by
  unfold ubEqns at hE
  split at hE
  · cases hE
  · next E0 arrows0 k0 hcon =>
    split at hE
    · cases hE
    · next rootArrow hroot =>
      simp only [Option.some.injEq, Prod.mk.injEq] at hE
      obtain ⟨hEeq, rfl⟩ := hE
      have hsz0 : (Array.replicate p.size (none : Option ElemArrow)).size = p.size := by simp
      obtain ⟨rs, rt⟩ := rootArrow
      constructor
      · -- from the run's equations to the constraint set
        intro ρ hρ
        have hρ0 : Sol ρ E0 := by
          rw [← hEeq] at hρ
          split at hρ
          · exact ((sol_append ρ _ _).1 hρ).1
          · exact hρ
        obtain ⟨hsz', _, hrec⟩ := ub_rules jt p ρ order _ 0 E0 arrows0 k0 hcon hnd
          (fun j _ => replicate_join_none _ _) hsz0 hρ0
        let σ : Nat → Inf.Ty × Inf.Ty := fun j =>
          match (arrows0[j]?).join with
          | some (s, t) => (ρ s, ρ t)
          | none => (.one, .one)
        have hσ : ∀ (j : Nat) s t, (arrows0[j]?).join = some (s, t) → σ j = (ρ s, ρ t) := by
          intro j s t hj; simp only [σ, hj]
        have hnode : ∀ (i : Nat) (nd : Node), p[i]? = some nd →
            (∀ c ∈ nd.children, c < p.size) ∧ NodeRule jt p.size i nd (fb jt p i) σ := by
          intro i nd hi
          have hlt : i < p.size := by
            rcases Nat.lt_or_ge i p.size with h' | h'
            · exact h'
            · rw [Array.getElem?_eq_none h'] at hi; cases hi
          obtain ⟨nd', hnd', _, hch, hr⟩ := hrec i (hall i hlt)
          rw [hi] at hnd'; cases hnd'
          exact ⟨hch, hr _ σ (fb_ge jt p i) hσ⟩
        obtain ⟨ρ', hag, hsols⟩ := ref_glue jt p σ (fun i nd h => (hnode i nd h).1)
          (fun i nd h => (hnode i nd h).2) p.size
        have hagree : ∀ (i : Nat) s t, (arrows0[i]?).join = some (s, t) →
            ρ' (2 * i) = ρ s ∧ ρ' (2 * i + 1) = ρ t := by
          intro i s t hi
          have hlt : i < p.size := hsz' ▸ lt_size_of_join hi
          have := hag i hlt
          rw [hσ i s t hi] at this
          exact this
        refine ⟨ρ', (constraints_spec jt p program es hc ρ').2 ⟨fun i nd hi => ?_, fun hp => ?_⟩, hagree⟩
        · have hlt : i < p.size := by
            rcases Nat.lt_or_ge i p.size with h' | h'
            · exact h'
            · rw [Array.getElem?_eq_none h'] at hi; cases hi
          exact hsols i hlt nd hi
        · subst hp
          rw [← hEeq] at hρ
          simp only [if_true, sol_append] at hρ
          have h3 := hρ.2
          simp [programOps, opsEqns, opEqn, Sol, Tm.eval, tmOfInf] at h3
          obtain ⟨e1, e2⟩ := hagree (p.size - 1) rs rt hroot
          rw [e1, e2, h3.2.1, h3.2.2, h3.1]
          exact ⟨rfl, rfl⟩
      · -- from the constraint set to the run's equations
        intro ρ' hρ'
        obtain ⟨hnodes, hprog⟩ := (constraints_spec jt p program es hc ρ').1 hρ'
        let σ : Nat → Inf.Ty × Inf.Ty := fun j => (ρ' (2 * j), ρ' (2 * j + 1))
        have hrules : ∀ (i : Nat) (nd : Node), p[i]? = some nd →
            NodeRule jt p.size i nd (fb jt p i) σ := by
          intro i nd hi
          obtain ⟨es_i, f', h1, h2⟩ := hnodes i nd hi
          exact ⟨es_i, f', h1, ρ', fun j _ => ⟨rfl, rfl⟩, h2⟩
        obtain ⟨ρ, _, hsolE, _, hsz', hvars, hfin⟩ :=
          ub_glue jt p σ (fb jt p) (fb_ge jt p) hrules order _ 0 E0 arrows0 k0 hcon hsz0
            (fun j s t hj => by rw [replicate_join_none] at hj; cases hj) (fun _ => .one)
            (fun j s t hj => by rw [replicate_join_none] at hj; cases hj)
        cases program with
        | false =>
          simp only [Bool.false_eq_true, if_false] at hEeq
          subst hEeq
          refine ⟨ρ, hsolE, fun i s t hi => ?_⟩
          have := (hfin i s t hi).2.2
          simp only [σ, Prod.mk.injEq] at this
          exact ⟨this.1.symm, this.2.symm⟩
        | true =>
          simp only [if_true] at hEeq
          subst hEeq
          obtain ⟨hr1, hr2⟩ := hprog rfl
          obtain ⟨hrs, hrt, hroot'⟩ := hfin (p.size - 1) rs rt hroot
          simp only [σ, Prod.mk.injEq] at hroot'
          refine ⟨fun x => if x = k0 then .one else ρ x, ?_, fun i s t hi => ?_⟩
          · rw [sol_append]
            constructor
            · refine (sol_congr (fun e he v hv => ?_)).2 hsolE
              have := hvars e he v hv
              have hne : v ≠ k0 := by omega
              simp only [hne, if_false]
            · have h1 : rs ≠ k0 := by omega
              have h2 : rt ≠ k0 := by omega
              simp [programOps, opsEqns, opEqn, Sol, Tm.eval, tmOfInf, h1, h2]
              rw [← hroot'.1, ← hroot'.2, hr1, hr2]
              exact ⟨rfl, rfl⟩
          · obtain ⟨hs, ht, hst⟩ := hfin i s t hi
            have h1 : s ≠ k0 := by omega
            have h2 : t ≠ k0 := by omega
            simp only [σ, Prod.mk.injEq] at hst
            simp only [h1, h2, if_false]
            exact ⟨hst.1.symm, hst.2.symm⟩

/-- every node of the construction order has an element arrow at the end -/
theorem constructEqns_arrows (jt : JetTypes) (p : Plan) :
    ∀ (order : List Nat) (arrows : Array (Option ElemArrow)) (k : Nat) (E : List Eqn)
      (arrows' : Array (Option ElemArrow)) (k' : Nat),
      constructEqns jt p arrows k order = some (E, arrows', k') → arrows.size = p.size →
      (∀ (j : Nat), (arrows[j]?).join ≠ none → (arrows'[j]?).join ≠ none) ∧
      ∀ i ∈ order, (arrows'[i]?).join ≠ none
  | [], arrows, k, E, arrows', k', h, _ => by
    simp only [constructEqns, Option.some.injEq, Prod.mk.injEq] at h
    obtain ⟨rfl, rfl, rfl⟩ := h
    exact ⟨fun _ h => h, fun i hi => by cases hi⟩
  | i :: rest, arrows, k, E, arrows', k', h, hsz => by
    unfold constructEqns at h
    split at h
    · cases h
    · next nd hnd =>
      split at h
      · cases h
      · next ops ar hops =>
        split at h
        · cases h
        · next E' arrows'' k'' hrest =>
          simp only [Option.some.injEq, Prod.mk.injEq] at h
          obtain ⟨rfl, rfl, rfl⟩ := h
          have hi : i < arrows.size := by
            rw [hsz]
            rcases Nat.lt_or_ge i p.size with h' | h'
            · exact h'
            · rw [Array.getElem?_eq_none h'] at hnd; cases hnd
          obtain ⟨hkeep, hrec⟩ := constructEqns_arrows jt p rest _ _ E' arrows'' k'' hrest (by simp [hsz])
          refine ⟨fun j hj => hkeep j ?_, fun j hj => ?_⟩
          · rw [join_set]; split
            · simp
            · exact hj
          · simp only [List.mem_cons] at hj
            rcases hj with rfl | hj
            · exact hkeep j (by rw [join_set]; simp [hi])
            · exact hrec j hj

end Prog
