/-
C01, general round trip, payloads: fail entropy given as bytes and assertion hashes given as numbers
survive the wire format (`bytesBits`/`bitsBytes`, `natBits256`/`bitsNat`) in the direction
plan → wire → plan.
-/
import SimplicityModel.Prog.EncConvert
namespace Prog

theorem byte_bits : ∀ b, b < 256 →
    bitsNat ((List.range 8).map fun i => decide ((b >>> (7 - i)) % 2 = 1)) = b := by
  decide +kernel

theorem packBitsAux_bitsOfBytes : ∀ (e : List Nat) (f : Nat), (∀ b ∈ e, b < 256) → e.length ≤ f →
    packBitsAux f (Drv.bitsOfBytes e) = e
  | [], f, _, _ => by cases f <;> rfl
  | b :: rest, 0, _, h => by simp at h
  | b :: rest, f + 1, hb, h => by
    rw [bitsOfBytes_cons]
    unfold packBitsAux
    have hne : ((List.range 8).map (fun i => decide ((b >>> (7 - i)) % 2 = 1)) ++ Drv.bitsOfBytes rest).isEmpty = false := by
      simp
    rw [hne]
    simp only [Bool.false_eq_true, if_false]
    have hl : ((List.range 8).map (fun i => decide ((b >>> (7 - i)) % 2 = 1))).length = 8 := by simp
    rw [List.take_left' hl, List.drop_left' hl]
    have hmin : min 8 ((List.range 8).map (fun i => decide ((b >>> (7 - i)) % 2 = 1)) ++ Drv.bitsOfBytes rest).length = 8 := by
      rw [List.length_append, hl]; omega
    rw [hmin]
    have := byte_bits b (hb b (by simp))
    unfold bitsNat at this
    rw [this, packBitsAux_bitsOfBytes rest f (fun x hx => hb x (by simp [hx])) (by simpa using h)]
    simp

/-- fail entropy given as bytes survives `bytesBits` / `bitsBytes` -/
theorem bitsBytes_bytesBits (e : List Nat) (hb : ∀ b ∈ e, b < 256) : bitsBytes (bytesBits e) = e := by
  unfold bytesBits bitsBytes packBits
  exact packBitsAux_bitsOfBytes e _ hb (by rw [bitsOfBytes_len]; omega)

/-- a 256-bit hash survives `natBits256` / `bitsNat` -/
theorem bitsNat_natBits256 (h : Nat) (hh : h < 2 ^ 256) : bitsNat (natBits256 h) = h := by
  apply natBits256_inj _ _ _ hh
  · exact natBits256_bitsNat _ (natBits256_length h)
  · have := bitsNat_lt (natBits256 h)
    rw [natBits256_length] at this
    exact this

#print axioms bitsBytes_bytesBits
#print axioms bitsNat_natBits256
end Prog

namespace Prog

/-- pigeonhole: an injective map of `[0, m)` into `[0, b)` needs `m ≤ b` -/
theorem pigeon_fn : ∀ (b m : Nat) (φ : Nat → Nat), (∀ j, j < m → φ j < b) →
    (∀ j j', j < m → j' < m → φ j = φ j' → j = j') → m ≤ b := by
  intro b
  induction b with
  | zero =>
    intro m φ h _
    rcases Nat.eq_zero_or_pos m with h0 | h0
    · omega
    · have := h 0 h0; omega
  | succ b ih =>
    intro m φ hlt hinj
    rcases Nat.eq_zero_or_pos m with h0 | h0
    · omega
    · obtain ⟨m', rfl⟩ : ∃ m', m = m' + 1 := ⟨m - 1, by omega⟩
      have := ih m' (fun j => if φ j = b then φ m' else φ j) ?_ ?_
      · omega
      · intro j hj
        show (if φ j = b then φ m' else φ j) < b
        split
        · next e =>
          have h1 := hlt m' (by omega)
          have : φ m' ≠ b := by
            intro e'
            have := hinj j m' (by omega) (by omega) (by rw [e, e'])
            omega
          omega
        · next e => have := hlt j (by omega); omega
      · intro j j' hj hj' e
        have e : (if φ j = b then φ m' else φ j) = (if φ j' = b then φ m' else φ j') := e
        split at e <;> split at e
        · next e1 e2 => exact hinj j j' (by omega) (by omega) (by rw [e1, e2])
        · next e1 e2 =>
          have := hinj m' j' (by omega) (by omega) e
          omega
        · next e1 e2 =>
          have := hinj j m' (by omega) (by omega) e
          omega
        · exact hinj j j' (by omega) (by omega) e

end Prog
