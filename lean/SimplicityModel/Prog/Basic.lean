/-
Program plans: the untyped DAG description shared with the Rust harness (`harness/src/gen/mod.rs`),
types and values in their line-protocol text forms.  Types and values are `BM4.Ty` / `BM4.Val`
(the ones `run_spec` is proved about).
-/
import SimplicityModel.Machine4
import SimplicityModel.Driver.Util

namespace Prog
open BM4

/-- `2^(2^n)` -/
def wordTy : Nat → Ty
  | 0 => .sum .one .one
  | n+1 => .prod (wordTy n) (wordTy n)

/-- `some n` iff the type is `2^(2^n)` -/
def isWord : Ty → Option Nat
  | .sum .one .one => some 0
  | .prod a b => match isWord a, isWord b with
    | some n, some m => if n = m then some (n+1) else none
    | _, _ => none
  | _ => none

/-- canonical text of a type: `1`, `+AB`, `*AB`, `wN.` whenever the type is a word type -/
def tyText (t : Ty) : String :=
  match isWord t with
  | some n => s!"w{n}."
  | none => match t with
    | .one => "1"
    | .sum a b => "+" ++ tyText a ++ tyText b
    | .prod a b => "*" ++ tyText a ++ tyText b

/-- parser for the text form (fuel = length) -/
def parseTyAux : Nat → List Char → Option (Ty × List Char)
  | 0, _ => none
  | _+1, [] => none
  | f+1, c :: cs =>
    if c = '1' then some (.one, cs)
    else if c = '+' then do
      let (a, r) ← parseTyAux f cs; let (b, r) ← parseTyAux f r; pure (.sum a b, r)
    else if c = '*' then do
      let (a, r) ← parseTyAux f cs; let (b, r) ← parseTyAux f r; pure (.prod a b, r)
    else if c = 'w' then
      let ds := cs.takeWhile (· ≠ '.')
      let r := cs.dropWhile (· ≠ '.')
      match (String.ofList ds).toNat?, r with
      | some n, _ :: r => if n ≤ 20 then some (wordTy n, r) else none
      | _, _ => none
    else none

def parseTy (s : String) : Option Ty :=
  match parseTyAux (s.length + 1) s.toList with
  | some (t, []) => some t
  | _ => none

/-- compact encoding (sum tags and leaf data, no padding) -/
def compact : Val → List Bool
  | .unit => []
  | .inl v => false :: compact v
  | .inr v => true :: compact v
  | .pair a b => compact a ++ compact b

/-- decode a compact encoding at a type; returns the rest -/
def decCompact : Ty → List Bool → Option (Val × List Bool)
  | .one, bs => some (.unit, bs)
  | .sum _ _, [] => none
  | .sum a _, false :: bs => (decCompact a bs).map fun (v, r) => (.inl v, r)
  | .sum _ b, true :: bs => (decCompact b bs).map fun (v, r) => (.inr v, r)
  | .prod a b, bs => do
      let (x, r) ← decCompact a bs
      let (y, r) ← decCompact b r
      pure (.pair x y, r)

/-- decode a padded encoding (any padding content) -/
def decPadded : Ty → List Bool → Option (Val × List Bool)
  | .one, bs => some (.unit, bs)
  | .sum _ _, [] => none
  | .sum a b, false :: bs => (decPadded a (bs.drop (padL a b))).map fun (v, r) => (.inl v, r)
  | .sum a b, true :: bs => (decPadded b (bs.drop (padR a b))).map fun (v, r) => (.inr v, r)
  | .prod a b, bs => do
      let (x, r) ← decPadded a bs
      let (y, r) ← decPadded b r
      pure (.pair x y, r)

def valOfCompact (t : Ty) (bs : List Bool) : Option Val :=
  match decCompact t bs with
  | some (v, []) => some v
  | _ => none

/-- the nodes of a plan; children are indices of earlier nodes -/
inductive Node
  | iden | unit
  | injl (c : Nat) | injr (c : Nat) | take (c : Nat) | drop (c : Nat)
  | comp (a b : Nat) | case (a b : Nat) | pair (a b : Nat)
  | assertl (a : Nat) (h : Nat) | assertr (h : Nat) (b : Nat)
  | disconnect (a : Nat) (b : Option Nat)
  | witness
  | fail (e : List Nat)
  | word (n : Nat) (bits : List Bool)
  | jet (name : String)
  /-- a hidden node of the wire format (only ever the child of a case node); in plans that were
  converted for type inference it is an unreferenced placeholder that keeps wire indices aligned -/
  | hidden (h : Nat)
deriving Repr, BEq, Inhabited

abbrev Plan := Array Node

def Node.children : Node → List Nat
  | .injl c | .injr c | .take c | .drop c | .assertl c _ | .assertr _ c => [c]
  | .comp a b | .case a b | .pair a b => [a, b]
  | .disconnect a (some b) => [a, b]
  | .disconnect a none => [a]
  | _ => []

private def idx? (i : Nat) (s : String) : Option Nat := do
  let n ← s.toNat?
  if n < i then some n else none

private def hash? (s : String) : Option Nat := do
  let bs ← Drv.hexBytes? s
  if bs.length = 32 then some (bs.foldl (fun acc b => acc * 256 + b) 0) else none

/-- one node token (`comp,3,6`), node index `i` (children must be earlier) -/
def parseNode (i : Nat) (tok : String) : Option Node :=
  match tok.splitOn "," with
  | ["iden"] => some .iden
  | ["unit"] => some .unit
  | ["injl", c] => .injl <$> idx? i c
  | ["injr", c] => .injr <$> idx? i c
  | ["take", c] => .take <$> idx? i c
  | ["drop", c] => .drop <$> idx? i c
  | ["comp", a, b] => .comp <$> idx? i a <*> idx? i b
  | ["case", a, b] => .case <$> idx? i a <*> idx? i b
  | ["pair", a, b] => .pair <$> idx? i a <*> idx? i b
  | ["assertl", a, h] => .assertl <$> idx? i a <*> hash? h
  | ["assertr", h, b] => .assertr <$> hash? h <*> idx? i b
  | ["disc", a, "-"] => (fun a => .disconnect a none) <$> idx? i a
  | ["disc", a, b] => (fun a b => .disconnect a (some b)) <$> idx? i a <*> idx? i b
  | ["wit"] => some .witness
  | ["fail", e] => do let bs ← Drv.hexBytes? e; if bs.length = 64 then some (.fail bs) else none
  | ["word", n, bits] => do
      let n ← n.toNat?; let bs ← Drv.bits? bits
      if n ≤ 20 ∧ bs.length = 2 ^ n then some (.word n bs) else none
  | ["jet", name] => some (.jet name)
  | ["hidden", h] => .hidden <$> hash? h
  | _ => none

/-- `<n> <node_0> … <node_{n-1}> rest…` -/
def parsePlan (toks : List String) : Option (Plan × List String) :=
  match toks with
  | [] => none
  | n :: rest => do
    let n ← n.toNat?
    if rest.length < n ∨ n = 0 then none else
    let rec go (i : Nat) (ts : List String) (acc : Array Node) (fuel : Nat) : Option (Array Node) :=
      match fuel, ts with
      | 0, _ => some acc
      | f+1, t :: ts => do let nd ← parseNode i t; go (i+1) ts (acc.push nd) f
      | _+1, [] => none
    let p ← go 0 (rest.take n) #[] n
    pure (p, rest.drop n)

end Prog
