/-
C01, general round trip, assembly: for a plan all of whose nodes are reachable from the root, well
typed, annotated, with well-typed witness bits and identity roots that separate its nodes, the plan
`q` that `convert` rebuilds from the node list the encoder wrote is — with the arrows, annotations
and witness bits of `p` transported along the node map — a program in the decoder's canonical form
(`CanonicalPlan`), and the encoder's witness stream is that of `q`.  `Prog.roundtrip_canonical` then
gives the decoder's answer.
-/
import SimplicityModel.Prog.RtCmr
import SimplicityModel.Prog.RoundtripProps
set_option linter.unusedSimpArgs false
namespace Prog
open Wire PO

/-- nodes with one identity root have one annotation (identity Merkle root, annotated root, cost) -/
theorem annot_const {jc jk : String → Option Nat} {p : Plan} {arrows : Array (BM4.Ty × BM4.Ty)}
    {wit : Nat → Option (List Bool)} {an : Array Annot} (hb : PlanBackward p)
    (H : AnnotOk jc jk p arrows wit an) (hf : IhrFaithful p arrows an wit) :
    ∀ (m i i' : Nat), i < m → i' < m → i < p.size → i' < p.size →
      (an.getD i default).ihr = (an.getD i' default).ihr → an.getD i default = an.getD i' default := by
  intro m
  induction m with
  | zero => intro i i' h; omega
  | succ m ih =>
    intro i i' him him' hi hi' e
    have hp : p[i]? = some p[i] := Array.getElem?_eq_getElem hi
    have hp' : p[i']? = some p[i'] := Array.getElem?_eq_getElem hi'
    obtain ⟨hsh, hkids, harr, hwit⟩ := hf i i' _ _ hp hp' e
    have e1 := H.2 i _ hp
    have e2 := H.2 i' _ hp'
    have := annotNode_congr2 tmr jc jk (fun j => arrows.getD j (.one, .one)) (fun j => arrows.getD j (.one, .one))
      wit wit (fun j => an.getD j default) (fun j => an.getD j default) i i' p[i] p[i'] hsh harr hwit
      (by
        intro k c c' h1 h2
        have hc := hb i _ hp c (List.mem_of_getElem? h1)
        have hc' := hb i' _ hp' c' (List.mem_of_getElem? h2)
        have hk := hkids k c c' h1 h2
        have hpc : p[c]? = some p[c] := Array.getElem?_eq_getElem (by omega)
        have hpc' : p[c']? = some p[c'] := Array.getElem?_eq_getElem (by omega)
        exact ⟨(hf c c' _ _ hpc hpc' hk).2.2.1, ih c c' (by omega) (by omega) (by omega) (by omega) hk⟩)
    rw [e1, e2] at this
    exact Option.some.inj this

theorem eraseDups_of_nodup : ∀ (l : List Nat), l.Nodup → l.eraseDups = l
  | [], _ => by simp
  | a :: l, h => by
    obtain ⟨h1, h2⟩ := List.nodup_cons.mp h
    rw [List.eraseDups_cons]
    have : l.filter (fun b => !b == a) = l := by
      apply List.filter_eq_self.mpr
      intro b hb
      have : b ≠ a := fun e => h1 (e ▸ hb)
      simp [this]
    rw [this, eraseDups_of_nodup l h2]

theorem wIdx_mem : ∀ (l : List Node) (i j : Nat), j ∈ wIdx l i → i ≤ j ∧ l[j - i]? = some .witness := by
  intro l
  induction l with
  | nil => intro i j h; cases h
  | cons nd rest ih =>
    intro i j h
    have tail : j ∈ wIdx rest (i + 1) → i ≤ j ∧ (nd :: rest)[j - i]? = some .witness := by
      intro h'
      obtain ⟨h1, h2⟩ := ih (i + 1) j h'
      refine ⟨by omega, ?_⟩
      rw [show j - i = (j - (i + 1)) + 1 by omega, List.getElem?_cons_succ]
      exact h2
    unfold wIdx at h
    cases nd
    case witness =>
      simp only [List.mem_cons] at h
      rcases h with rfl | h
      · simp
      · exact tail h
    all_goals exact tail h

/-- the annotations of `p` transported to `q`: hidden placeholders get their root, the other nodes
the annotation of their representative -/
def anOf (q : Plan) (an : Array Annot) (r : Nat → Nat) : Array Annot :=
  (Array.range q.size).map fun j =>
    match q[j]? with
    | some (Node.hidden h) => ⟨h, h, h, 0, false⟩
    | _ => an.getD (r j) default

theorem hidden_match' {α : Type} (nd : Node) (A : Nat → α) (B : α) (h : ∀ x, nd ≠ .hidden x) :
    (match (some nd : Option Node) with | some (Node.hidden x) => A x | _ => B) = B := by
  cases nd
  case hidden x => exact absurd rfl (h x)
  all_goals rfl

theorem anOf_size (q : Plan) (an : Array Annot) (r : Nat → Nat) : (anOf q an r).size = q.size := by
  simp [anOf]

theorem anOf_getD (q : Plan) (an : Array Annot) (r : Nat → Nat) (j : Nat) (hj : j < q.size) :
    (anOf q an r).getD j default =
      match q[j]? with
      | some (Node.hidden h) => ⟨h, h, h, 0, false⟩
      | _ => an.getD (r j) default := by
  unfold anOf
  rw [Array.getD_eq_getD_getElem?, Array.getElem?_eq_getElem (by simpa using hj)]
  simp only [Array.getElem_map, Array.getElem_range, Option.getD_some]

theorem padToByte_len8 (bs : List Bool) : (padToByte bs).length % 8 = 0 := by
  simp [padToByte]; omega

/-- **the decoded plan of an arbitrary encoded plan is in the decoder's canonical form**, with the
arrows, annotations and witness bits of the original along the node map -/
theorem enc_canonical (tb : Tables) (hnm : ∀ name j, tb.ofName name = some j → tb.nameOf j = name)
    (p : Plan) (arrows : Array (BM4.Ty × BM4.Ty)) (an : Array Annot) (wit : Nat → Option (List Bool))
    (hpos : 0 < p.size) (hlt : p.size < 2 ^ 31) (hb : PlanBackward p) (hpl : PayloadOk p)
    (hh : HashOk p) (hfb : ∀ (i : Nat) (e : List Nat), p[i]? = some (.fail e) → ∀ b ∈ e, b < 256)
    (hopen : ∀ (i a : Nat), p[i]? ≠ some (Node.disconnect a none))
    (hall : ∀ i, i < p.size → PlanReach p i)
    (hinf : infer tb.jetTy p true = .ok arrows)
    (han : annots tb.jetCmr tb.jetCost p arrows wit = some an)
    (hwt : ∀ i, p[i]? = some .witness → ∃ bits v, wit i = some bits ∧
      decCompact (arrows.getD i (.one, .one)).2 bits = some (v, []))
    (hf : IhrFaithful p arrows an wit)
    (hfuel : ∀ (N : List (WNode tb.J)) (q : Plan),
      (walk (encChildren p true) (encKey p an true) (2 * p.size + 2) (2 * (p.size - 1))
        ⟨#[], [], 0⟩).1.outs.toList.mapM (wireOf tb.ofName p) = some N →
      convert tb.nameOf N.toArray = .ok q →
      ∀ E', constraints tb.jetTy q true = some E' → Inf.unify unifyFuel E' [] ≠ .fuel)
    (pb wb : List Bool) (he : encode tb.jc tb.ofName p an true wit = some (pb, wb)) :
    ∃ (N : List (WNode tb.J)) (q : Plan) (arrows' : Array (BM4.Ty × BM4.Ty)) (g r : Nat → Nat),
      CanonicalPlan tb N q arrows' (anOf q an r) (fun j => wit (r j)) ∧
      pb = padToByte (encProgram tb.jc N) ∧
      wb = padToByte ((wIdx q.toList 0).filterMap (fun j => wit (r j))).flatten ∧
      NodeMap p q g r ∧
      (∀ i, i < p.size → arrows'.getD (g i) (.one, .one) = arrows.getD i (.one, .one) ∧
        (anOf q an r).getD (g i) default = an.getD i default ∧
        (p[i]? = some .witness → wit (r (g i)) = wit i)) ∧
      PlanBackward q ∧ (∀ (i h : Nat), p[i]? ≠ some (Node.hidden h)) ∧
      (∀ i, i < p.size → r (g i) < p.size →
        (an.getD (r (g i)) default).ihr = (an.getD i default).ihr) := by
  have hsz := annots_size _ _ _ _ _ _ han
  have HA := annots_spec tb.jetCmr tb.jetCost p hb arrows wit an han
  obtain ⟨N, q, hm, hpb, hne, hok, hcan, hNlen, hq, hqsz, M, hclsiff, hbq, hposn, hbound, hnohid⟩ :=
    enc_nodeMap tb.jc tb.nameOf tb.ofName hnm p arrows an wit hsz hpos hb hpl hh hfb hf hall pb wb he
  have hwb : wb = padToByte ((walk (encChildren p true) (encKey p an true) (2 * p.size + 2) (2 * (p.size - 1))
      ⟨#[], [], 0⟩).1.outs.toList.filterMap fun o =>
      if o.node % 2 = 0 then
        match p[o.node / 2]? with
        | some Node.witness => wit (o.node / 2)
        | _ => none
      else none).flatten := by
    unfold encode at he
    have hm' := hm
    generalize (walk (encChildren p true) (encKey p an true) (2 * p.size + 2) (2 * (p.size - 1))
      ⟨#[], [], 0⟩) = w at hm' he
    obtain ⟨st, x⟩ := w
    simp only at he hm' ⊢
    rw [hm'] at he
    simp only [Option.bind_eq_bind, Option.bind_some, Option.pure_def, Option.some.injEq,
      Prod.mk.injEq] at he
    exact he.2.symm
  have hfu := hfuel N q hm hq
  generalize hS : (walk (encChildren p true) (encKey p an true) (2 * p.size + 2) (2 * (p.size - 1))
    ⟨#[], [], 0⟩).1 = S at hm hNlen M hclsiff hposn hwb
  generalize hgdef : (fun i => clsPos (encKey p an true) S (2 * i)) = g at M hclsiff hposn
  generalize hrdef : repOf S.outs = r at M hposn
  have hlt_of : ∀ (i : Nat) (nd : Node), p[i]? = some nd → i < p.size := by
    intro i nd hp
    rcases Nat.lt_or_ge i p.size with h | h
    · exact h
    · rw [Array.getElem?_eq_none h] at hp; cases hp
  have hqlt : ∀ (j : Nat) (nd : Node), q[j]? = some nd → j < q.size := by
    intro i nd hp
    rcases Nat.lt_or_ge i q.size with h | h
    · exact h
    · rw [Array.getElem?_eq_none h] at hp; cases hp
  -- types
  obtain ⟨arrows', hinf', harr'⟩ := reinfer_along tb.jetTy p q g r arrows hpos hb M hopen hinf
    (fun i i' nd nd' hp hp' e =>
      (hf i i' nd nd' hp hp' ((hclsiff i i' (hlt_of _ _ hp) (hlt_of _ _ hp')).mp e)).1)
    (fun i i' hi hi' e =>
      (hf i i' _ _ (Array.getElem?_eq_getElem hi) (Array.getElem?_eq_getElem hi')
        ((hclsiff i i' hi hi').mp e)).2.2.1)
    hfu
  -- a non-hidden node of `q` is the image of its representative
  have hrepq : ∀ j nd', q[j]? = some nd' → (∀ x, nd' ≠ .hidden x) →
      r j < p.size ∧ g (r j) = j ∧ nd' = (p[r j]?.getD .unit).mapCh g := by
    intro j nd' hq' hnh
    rcases M.sur j nd' hq' with ⟨h, rfl⟩ | ⟨hr, hgr⟩
    · exact absurd rfl (hnh h)
    · have hp : p[r j]? = some p[r j] := Array.getElem?_eq_getElem hr
      have := M.img (r j) _ hp
      rw [hgr, hq'] at this
      refine ⟨hr, hgr, ?_⟩
      rw [hp]; exact Option.some.inj this
  have himg_nh : ∀ (i : Nat) (nd : Node), p[i]? = some nd → ∀ x, nd.mapCh g ≠ .hidden x := by
    intro i nd hp x e
    exact hnohid i x (by rw [hp, mapCh_hidden g _ x e])
  -- annotations along the map
  have hkey : ∀ i, i < p.size → (anOf q an r).getD (g i) default = an.getD i default := by
    intro i hi
    have hp : p[i]? = some p[i] := Array.getElem?_eq_getElem hi
    have hq' := M.img i _ hp
    rw [anOf_getD q an r (g i) (M.lt hi), hq', hidden_match' _ _ _ (himg_nh i _ hp)]
    obtain ⟨hr, hgr, _⟩ := hrepq (g i) _ hq' (himg_nh i _ hp)
    exact annot_const hb HA hf (p.size) _ _ hr hi hr hi ((hclsiff _ _ hr hi).mp hgr)
  have hAq : AnnotOk tb.jetCmr tb.jetCost q arrows' (fun j => wit (r j)) (anOf q an r) := by
    refine ⟨anOf_size q an r, ?_⟩
    intro j nd' hq'
    have hj := hqlt j nd' hq'
    rw [anOf_getD q an r j hj, hq']
    by_cases hnh : ∀ x, nd' ≠ .hidden x
    · obtain ⟨hr, hgr, rfl⟩ := hrepq j nd' hq' hnh
      have hp : p[r j]? = some p[r j] := Array.getElem?_eq_getElem hr
      rw [hp] at hnh ⊢
      simp only [Option.getD_some] at hnh ⊢
      rw [hidden_match' _ _ _ hnh, ← HA.2 (r j) _ hp]
      symm
      refine annotNode_mapCh tmr tb.jetCmr tb.jetCost _ _ wit _ _ _ g (r j) j _ ?_ (fun _ => rfl) ?_
      · show arrows.getD (r j) (.one, .one) = arrows'.getD j (.one, .one)
        have := harr' (r j) hr
        rw [hgr] at this
        exact this.symm
      · intro c hc
        have hci : c < p.size := by have := hb (r j) _ hp c hc; omega
        exact ⟨(harr' c hci).symm, (hkey c hci).symm⟩
    · have : ∃ x, nd' = .hidden x := by
        apply Classical.byContradiction
        intro h
        exact hnh (fun x e => h ⟨x, e⟩)
      obtain ⟨x, rfl⟩ := this
      simp [annotNode]
  -- the canonical plan
  have hcanon : CanonicalPlan tb N q arrows' (anOf q an r) (fun j => wit (r j)) := by
    refine ⟨hne, by omega, hok, hcan, hq, ?_, hinf', ?_, annots_intro _ _ q hbq arrows' _ _ hAq, ?_⟩
    · intro nd' hmem a e
      subst e
      obtain ⟨j, hj, hget⟩ := List.mem_iff_getElem.mp hmem
      have hq' : q[j]? = some (Node.disconnect a none) := by
        rw [← Array.getElem?_toList, List.getElem?_eq_getElem hj, hget]
      obtain ⟨hr, _, e⟩ := hrepq j _ hq' (fun x e => by cases e)
      rw [Array.getElem?_eq_getElem hr] at e
      simp only [Option.getD_some] at e
      obtain ⟨a', ha'⟩ := mapCh_open g _ a e.symm
      exact hopen (r j) a' (by rw [Array.getElem?_eq_getElem hr, ha'])
    · intro j hj
      obtain ⟨_, hw⟩ := wIdx_mem q.toList 0 j hj
      have hq' : q[j]? = some .witness := by simpa using hw
      obtain ⟨hr, hgr, e⟩ := hrepq j _ hq' (fun x e => by cases e)
      rw [Array.getElem?_eq_getElem hr] at e
      simp only [Option.getD_some] at e
      have hpw := mapCh_witness g _ e.symm
      obtain ⟨bits, v, hb1, hb2⟩ := hwt (r j) (by rw [Array.getElem?_eq_getElem hr, hpw])
      refine ⟨bits, v, hb1, ?_⟩
      have := (harr' (r j) hr)
      rw [hgr] at this
      rw [this]; exact hb2
    · -- identity roots of the non-hidden nodes of `q` are pairwise different
      have hnd : (ihrList q (anOf q an r)).Nodup := by
        unfold ihrList
        refine List.Pairwise.filterMap _ ?_ (List.nodup_range (n := q.size))
        intro a a' hne' b hb' b' hb''
        intro ebb
        subst ebb
        apply hne'
        have ext : ∀ (j : Nat) (y : Nat), (match q[j]? with
            | some (.hidden _) => none
            | _ => ((anOf q an r)[j]?).map (·.ihr)) = some y →
            r j < p.size ∧ g (r j) = j ∧ (an.getD (r j) default).ihr = y := by
          intro j y hy
          have hj : j < q.size := by
            rcases Nat.lt_or_ge j q.size with h | h
            · exact h
            · rw [Array.getElem?_eq_none h, Array.getElem?_eq_none (by rw [anOf_size]; exact h)] at hy
              simp at hy
          have hq' : q[j]? = some q[j] := Array.getElem?_eq_getElem hj
          have hnh : ∀ x, q[j] ≠ .hidden x := by
            intro x e
            rw [hq', e] at hy
            simp at hy
          obtain ⟨hr, hgr, _⟩ := hrepq j _ hq' hnh
          refine ⟨hr, hgr, ?_⟩
          have hg' := anOf_getD q an r j hj
          rw [hq', hidden_match' _ _ _ hnh] at hg'
          rw [hq'] at hy
          have hy' : ((anOf q an r)[j]?).map (·.ihr) = some y := by
            generalize q[j] = nd at hnh hy
            cases nd
            case hidden x => exact absurd rfl (hnh x)
            all_goals exact hy
          rw [Array.getD_eq_getD_getElem?] at hg'
          cases hx : (anOf q an r)[j]? with
          | none => rw [hx] at hy'; simp at hy'
          | some v =>
            rw [hx] at hy' hg'
            simp only [Option.map_some, Option.some.injEq, Option.getD_some] at hy' hg'
            rw [← hg', hy']
        obtain ⟨h1, h2, h3⟩ := ext a b hb'
        obtain ⟨h1', h2', h3'⟩ := ext a' b hb''
        have := (hclsiff (r a) (r a') h1 h1').mpr (by rw [h3, h3'])
        rw [h2, h2'] at this
        exact this
      rw [eraseDups_of_nodup _ hnd]
  have hclsr : ∀ i, i < p.size → r (g i) < p.size →
      (an.getD (r (g i)) default).ihr = (an.getD i default).ihr := by
    intro i hi hr
    have hq' := M.img i _ (Array.getElem?_eq_getElem hi)
    obtain ⟨_, hgr, _⟩ := hrepq (g i) _ hq' (himg_nh i _ (Array.getElem?_eq_getElem hi))
    exact (hclsiff _ _ hr hi).mp hgr
  refine ⟨N, q, arrows', g, r, hcanon, hpb, ?_, M, ?_, hbq, hnohid, hclsr⟩
  · -- the witness stream
    rw [hwb]
    congr 2
    rw [ListAux.filterMap_eq_range _
      (fun j => match q.toList[j - 0]? with
        | some Node.witness => wit (r j) | _ => none) _ 0]
    · have hlen : S.outs.toList.length = q.toList.length := by
        simp only [Array.length_toList]; omega
      rw [hlen]
      exact filterMap_wIdx (fun j => wit (r j)) q.toList 0
    · intro j o ho
      obtain ⟨h0, h1⟩ := hposn j o ho
      simp only [Nat.zero_add, Nat.sub_zero, Array.getElem?_toList]
      rcases Nat.mod_two_eq_zero_or_one o.node with e | e
      · obtain ⟨hr, hgr, hon⟩ := h0 e
        have hp : p[r j]? = some p[r j] := Array.getElem?_eq_getElem hr
        have hq' := M.img (r j) _ hp
        rw [hgr] at hq'
        rw [if_pos e, hq', show o.node / 2 = r j by omega, hp]
        generalize p[r j] = nd
        cases nd
        case disconnect a b => cases b <;> rfl
        all_goals rfl
      · obtain ⟨h, hq'⟩ := h1 e
        rw [if_neg (by omega), hq']
  · intro i hi
    refine ⟨harr' i hi, hkey i hi, ?_⟩
    intro hpw
    have hq' := M.img i _ hpw
    obtain ⟨hr, hgr, _⟩ := hrepq (g i) _ hq' (fun x e => by simp [Node.mapCh] at e)
    have hp0 : p[r (g i)]? = some p[r (g i)] := Array.getElem?_eq_getElem hr
    obtain ⟨hsh, _, _, hw⟩ := hf _ _ _ _ hp0 hpw ((hclsiff _ _ hr hi).mp hgr)
    apply hw
    generalize p[r (g i)] = nd at hsh
    cases nd <;> simp [Node.shape, Node.mapCh] at hsh ⊢

#print axioms enc_canonical
end Prog

namespace Prog
open Wire PO

/-- the plan that the decoder rebuilds from the node list the encoder writes for `p` (redeem mode) -/
def reencodedPlan (tb : Tables) (p : Plan) (an : Array Annot) : Option Plan :=
  match (walk (encChildren p true) (encKey p an true) (2 * p.size + 2) (2 * (p.size - 1))
      ⟨#[], [], 0⟩).1.outs.toList.mapM (wireOf tb.ofName p) with
  | some N =>
    match convert tb.nameOf N.toArray with
    | .ok q => some q
    | .error _ => none
  | none => none

end Prog

namespace Prog
open Wire PO

/-- **round trip of an arbitrary plan, assembled** -/
theorem roundtrip_general (tb : Tables) (hof : ∀ j, tb.ofName (tb.nameOf j) = some j)
    (hnm : ∀ name j, tb.ofName name = some j → tb.nameOf j = name)
    (p : Plan) (arrows : Array (BM4.Ty × BM4.Ty)) (an : Array Annot) (wit : Nat → Option (List Bool))
    (hpos : 0 < p.size) (hlt : p.size < 2 ^ 31) (hb : PlanBackward p) (hpl : PayloadOk p)
    (hh : HashOk p) (hfb : ∀ (i : Nat) (e : List Nat), p[i]? = some (.fail e) → ∀ b ∈ e, b < 256)
    (hopen : ∀ (i a : Nat), p[i]? ≠ some (Node.disconnect a none))
    (hall : ∀ i, i < p.size → PlanReach p i)
    (hinf : infer tb.jetTy p true = .ok arrows)
    (han : annots tb.jetCmr tb.jetCost p arrows wit = some an)
    (hwt : ∀ i, p[i]? = some .witness → ∃ bits v, wit i = some bits ∧
      decCompact (arrows.getD i (.one, .one)).2 bits = some (v, []))
    (hf : IhrFaithful p arrows an wit)
    (hfuel : ∀ q, reencodedPlan tb p an = some q → infer tb.jetTy q true ≠ .fuel)
    (pb wb : List Bool) (he : encode tb.jc tb.ofName p an true wit = some (pb, wb)) :
    ∃ (d : Decoded) (f : Nat → Nat),
      decodeRedeem tb pb wb = .ok d ∧
      f (p.size - 1) = d.plan.size - 1 ∧
      (∀ i nd, p[i]? = some nd →
        d.plan[f i]? = some (nd.mapCh f) ∧
        d.arrows.getD (f i) (.one, .one) = arrows.getD i (.one, .one) ∧
        d.annots.getD (f i) default = an.getD i default ∧
        (nd = .witness → (d.wits.find? (·.1 = f i)).map (·.2) = wit i)) ∧
      (∀ j nd', d.plan[j]? = some nd' → (∃ h, nd' = .hidden h) ∨ ∃ i, i < p.size ∧ f i = j) ∧
      (∀ cp, cmrs tb.jetCmr p = some cp → ∃ cq, cmrs tb.jetCmr d.plan = some cq ∧
        ∀ i, i < p.size → cq.getD (f i) 0 = cp.getD i 0) ∧
      encode tb.jc tb.ofName d.plan d.annots true (fun i => (d.wits.find? (·.1 = i)).map (·.2)) =
        some (pb, wb) := by
  obtain ⟨N, q, arrows', g, r, hcanon, hpb, hwb, M, hmap, hbq, hnohid, hcls⟩ :=
    enc_canonical tb hnm p arrows an wit hpos hlt hb hpl hh hfb hopen hall hinf han hwt hf
      (by
        intro N q hm hq E' hE' hu
        apply hfuel q
        · unfold reencodedPlan
          rw [hm]
          simp only [hq]
        · unfold infer
          rw [hE']
          simp only [hu])
      pb wb he
  obtain ⟨_, hdec⟩ := Prog.roundtrip_canonical tb hof N q arrows' _ _ hcanon
  rw [← hpb, ← hwb] at hdec
  have hcmr : ∀ cp, cmrs tb.jetCmr p = some cp → ∃ cq, cmrs tb.jetCmr q = some cq ∧
      ∀ i, i < p.size → cq.getD (g i) 0 = cp.getD i 0 := by
    intro cp hcp
    refine cmrs_along tb.jetCmr M hb hbq hnohid cp hcp ?_
    intro i hi hr
    exact cmr_const hb (cmrs_spec tb.jetCmr p hb cp hcp) hf p.size _ _ hr hi hr hi (hcls i hi hr)
  refine ⟨_, g, hdec, M.root, ?_, ?_, hcmr, ?_⟩
  · intro i nd hp
    have hi : i < p.size := by
      rcases Nat.lt_or_ge i p.size with h | h
      · exact h
      · rw [Array.getElem?_eq_none h] at hp; cases hp
    obtain ⟨h1, h2, h3⟩ := hmap i hi
    refine ⟨M.img i nd hp, h1, h2, ?_⟩
    intro hnd
    subst hnd
    obtain ⟨bits, v, hb1, _⟩ := hwt i hp
    have hq' := M.img i _ hp
    have hmem : g i ∈ wIdx q.toList 0 := by
      have := mem_wIdx q.toList 0 (g i) (by simpa [Node.mapCh] using hq')
      simpa using this
    rw [hb1]
    refine lookup_filterMap (fun j => wit (r j)) _ (g i) bits hmem (by rw [h3 hp, hb1]) ?_
    intro k hk
    obtain ⟨b, _, hbk, _⟩ := hcanon.wit_typed k hk
    simp [hbk]
  · intro j nd' hq'
    rcases M.sur j nd' hq' with h | ⟨hr, hgr⟩
    · exact .inl h
    · exact .inr ⟨r j, hr, hgr⟩
  · obtain ⟨ns, rest, wrest, hprog, hcl, F, hw, hne, hroot, hcan, hrw, hcl2⟩ :=
      decodeRedeem_facts tb pb wb _ hdec
    obtain ⟨hws, hwit⟩ := readGo_spec _ _ 0 wb _ wrest hrw
    rw [encode_decoded tb.jc F hof hw hne hroot hcan _ hws]
    rw [padToByte_eq _ rest pb hprog (by rw [hpb]; exact padToByte_len8 _) hcl,
      padToByte_eq _ wrest wb hwit (by rw [hwb]; exact padToByte_len8 _) hcl2]

#print axioms roundtrip_general
end Prog

namespace Prog

/-- the identity root that `annotNode` computes is the hash of the identity Merkle root and the arrow -/
theorem annotNode_ihr (tm : BM4.Ty → Nat) (jc jk : String → Option Nat) (arr : Nat → BM4.Ty × BM4.Ty)
    (wit : Nat → Option (List Bool)) (anf : Nat → Annot) (i : Nat) (nd : Node) (x : Annot)
    (h : annotNode tm jc jk arr wit anf i nd = some x) (hnh : ∀ y, nd ≠ .hidden y)
    (hopen : ∀ a, nd ≠ .disconnect a none) (hw : nd = .witness → (wit i).isSome) :
    x.ihr = ihrOf tm x.imr (arr i) := by
  unfold annotNode at h
  generalize arr i = ar at h ⊢
  obtain ⟨a, b⟩ := ar
  simp only at h
  cases nd
  case hidden y => exact absurd rfl (hnh y)
  case disconnect u v =>
    cases v with
    | none => exact absurd rfl (hopen u)
    | some v =>
      simp only at h
      split at h
      · simp only [Option.some.injEq] at h; rw [← h]
      · cases h
  case witness =>
    obtain ⟨bits, hb⟩ := Option.isSome_iff_exists.mp (hw rfl)
    simp only [hb, Option.some.injEq] at h
    rw [← h]
  case jet name =>
    simp only [bind, Option.bind] at h
    cases h1 : jc name with
    | none => rw [h1] at h; cases h
    | some c =>
      cases h2 : jk name with
      | none => rw [h1, h2] at h; cases h
      | some k =>
        rw [h1, h2] at h
        simp only [pure, Option.some.injEq] at h
        rw [← h]
  all_goals
    simp only at h
    first
      | (simp only [Option.some.injEq] at h; rw [← h])
      | (split at h
         · simp only [Option.some.injEq] at h; rw [← h]
         · cases h)

/-- **`IhrFaithful` layer by layer**: identity roots separate the nodes of an annotated plan as soon as
(1) the last hashing step of the identity root — `ihrOf`: two SHA-256 compressions over the identity
Merkle root and the type Merkle roots of source and target — has no collision among the nodes of the
plan, (2) the identity Merkle root has no collision among the nodes of the plan (equal roots: same
kind and payload, children with pairwise equal identity Merkle roots, equal witness bits), and
(3) nodes with one identity root have children with pairwise equal arrows (implied by (1) for every
combinator except for the type between the halves of `comp` and the source of the right child of
`disconnect`, which the identity root does not commit to). -/
theorem ihrFaithful_of_layers {jc jk : String → Option Nat} {p : Plan}
    {arrows : Array (BM4.Ty × BM4.Ty)} {wit : Nat → Option (List Bool)} {an : Array Annot}
    (hb : PlanBackward p) (H : AnnotOk jc jk p arrows wit an)
    (hnh : ∀ (i x : Nat), p[i]? ≠ some (Node.hidden x))
    (hopen : ∀ (i a : Nat), p[i]? ≠ some (Node.disconnect a none))
    (hwit : ∀ i, p[i]? = some .witness → (wit i).isSome)
    (h1 : ∀ i i', i < p.size → i' < p.size →
      ihrOf tmr (an.getD i default).imr (arrows.getD i (.one, .one)) =
        ihrOf tmr (an.getD i' default).imr (arrows.getD i' (.one, .one)) →
      (an.getD i default).imr = (an.getD i' default).imr ∧
        arrows.getD i (.one, .one) = arrows.getD i' (.one, .one))
    (h2 : ∀ (i i' : Nat) (nd nd' : Node), p[i]? = some nd → p[i']? = some nd' →
      (an.getD i default).imr = (an.getD i' default).imr →
      nd.shape = nd'.shape ∧
      (∀ (k c c' : Nat), nd.children[k]? = some c → nd'.children[k]? = some c' →
        (an.getD c default).imr = (an.getD c' default).imr) ∧
      (nd = .witness → wit i = wit i'))
    (h3 : ∀ (i i' : Nat) (nd nd' : Node), p[i]? = some nd → p[i']? = some nd' →
      (an.getD i default).ihr = (an.getD i' default).ihr →
      ∀ (k c c' : Nat), nd.children[k]? = some c → nd'.children[k]? = some c' →
        arrows.getD c (.one, .one) = arrows.getD c' (.one, .one)) :
    IhrFaithful p arrows an wit := by
  have hlt_of : ∀ (i : Nat) (nd : Node), p[i]? = some nd → i < p.size := by
    intro i nd hp
    rcases Nat.lt_or_ge i p.size with h | h
    · exact h
    · rw [Array.getElem?_eq_none h] at hp; cases hp
  have hihr : ∀ (i : Nat) (nd : Node), p[i]? = some nd →
      (an.getD i default).ihr = ihrOf tmr (an.getD i default).imr (arrows.getD i (.one, .one)) := by
    intro i nd hp
    have := annotNode_ihr tmr jc jk (fun j => arrows.getD j (.one, .one)) wit (fun j => an.getD j default)
      i nd (an.getD i default) (H.2 i nd hp) (fun y e => hnh i y (by rw [hp, e]))
      (fun a e => hopen i a (by rw [hp, e])) (fun e => hwit i (by rw [hp, e]))
    exact this
  intro i i' nd nd' hp hp' e
  have e' := e
  rw [hihr i nd hp, hihr i' nd' hp'] at e'
  obtain ⟨himr, harr⟩ := h1 i i' (hlt_of _ _ hp) (hlt_of _ _ hp') e'
  obtain ⟨hsh, hkids, hw⟩ := h2 i i' nd nd' hp hp' himr
  refine ⟨hsh, ?_, harr, hw⟩
  intro k c c' hc hc'
  have hci : c < p.size := by
    have := hb i nd hp c (List.mem_of_getElem? hc)
    have := hlt_of _ _ hp
    omega
  have hci' : c' < p.size := by
    have := hb i' nd' hp' c' (List.mem_of_getElem? hc')
    have := hlt_of _ _ hp'
    omega
  rw [hihr c _ (Array.getElem?_eq_getElem hci), hihr c' _ (Array.getElem?_eq_getElem hci'),
    hkids k c c' hc hc', h3 i i' nd nd' hp hp' e k c c' hc hc']

#print axioms ihrFaithful_of_layers
end Prog
