/-
Simulation of the index walk `Prog.walk` between a DAG with extra leaves and the same DAG without
them (C02/C01 assembly, commitment time).  The decoder's wire DAG and the encoder's DAG have hidden
nodes (leaves below `case`); the DAG of `CommitNode`'s sharing check has not.  If `ψ` maps the
ordinary nodes (`D`) of the big DAG `(ch2, key2)` to the nodes of the small DAG `(ch1, key1)` so
that the children of `ψ t` are the images of the ordinary children of `t`, sharing keys correspond,
and the extra nodes (`E`) are leaves whose keys are not keys of ordinary nodes, then the small walk
yields exactly the images of the ordinary items of the big walk, in the same order.
-/
import SimplicityModel.Prog.WalkExt

namespace Prog

variable {K1 K2 : Type} [DecidableEq K1] [DecidableEq K2]

structure SkipHyp (ψ : Nat → Nat) (D : Nat → Prop) (E : Nat → Bool) (ch1 ch2 : Nat → List Nat)
    (key1 : Nat → Option K1) (key2 : Nat → Option K2) (rk1 rk2 : Nat → Nat) : Prop where
  ch : ∀ t, D t → ch1 (ψ t) = ((ch2 t).filter (fun c => !E c)).map ψ
  len : ∀ t, D t → (ch2 t).length ≤ 2
  notE : ∀ t, D t → E t = false
  closed : ∀ t, D t → ∀ c ∈ ch2 t, E c = false → D c
  one : ∀ t, D t → ∀ c, ch2 t = [c] → E c = false
  two : ∀ t, D t → ∀ l r, ch2 t = [l, r] → E l = false ∨ E r = false
  leaf : ∀ e, E e = true → ch2 e = []
  isSome : ∀ t, D t → (key1 (ψ t)).isSome = (key2 t).isSome
  inj : ∀ t t', D t → D t' → ∀ k1 k1' k2 k2', key1 (ψ t) = some k1 → key1 (ψ t') = some k1' →
    key2 t = some k2 → key2 t' = some k2' → (k1 = k1' ↔ k2 = k2')
  ekey : ∀ e t, E e = true → D t → ∀ k, key2 t = some k → key2 e ≠ some k
  rk1 : ∀ t, D t → ∀ c ∈ ch2 t, E c = false → rk1 (ψ c) < rk1 (ψ t)
  rk2 : ∀ t, D t → ∀ c ∈ ch2 t, rk2 c < rk2 t

/-- the small state holds the images of the ordinary items of the big state -/
structure Skip (ψ : Nat → Nat) (D : Nat → Prop) (E : Nat → Bool)
    (key1 : Nat → Option K1) (key2 : Nat → Option K2) (s1 : WalkSt K1) (s2 : WalkSt K2) : Prop where
  nodes : s1.outs.toList.map (·.node) = ((s2.outs.toList.map (·.node)).filter (fun c => !E c)).map ψ
  seen : ∀ t, D t → ∀ k1 k2, key1 (ψ t) = some k1 → key2 t = some k2 →
    (seenLook s1.seen k1).isSome = (seenLook s2.seen k2).isSome

theorem opt_cases {α β : Type} (a : Option α) (b : Option β) (h : a.isSome = b.isSome) :
    (a = none ∧ b = none) ∨ (∃ x y, a = some x ∧ b = some y) := by
  cases a <;> cases b <;> simp_all

section
variable {ψ : Nat → Nat} {D : Nat → Prop} {E : Nat → Bool} {ch1 ch2 : Nat → List Nat}
  {key1 : Nat → Option K1} {key2 : Nat → Option K2} {rk1 rk2 : Nat → Nat}

theorem before_skip (H : SkipHyp ψ D E ch1 ch2 key1 key2 rk1 rk2) {s1 : WalkSt K1} {s2 : WalkSt K2}
    (h : Skip ψ D E key1 key2 s1 s2) (c : Nat) (hc : D c) :
    (walkBefore key1 (ψ c) s1).isSome = (walkBefore key2 c s2).isSome := by
  unfold walkBefore
  have hs := H.isSome c hc
  rcases opt_cases _ _ hs with ⟨h1, h2⟩ | ⟨k1, k2, h1, h2⟩
  · rw [h1, h2]; rfl
  · rw [h1, h2]; simp only [Option.bind_some]; exact h.seen c hc k1 k2 h1 h2

theorem fin_skip (H : SkipHyp ψ D E ch1 ch2 key1 key2 rk1 rk2) {s1 : WalkSt K1} {s2 : WalkSt K2}
    (h : Skip ψ D E key1 key2 s1 s2) (t : Nat) (ht : D t) (li ri li' ri' : Option Nat) :
    Skip ψ D E key1 key2 (walkFin key1 (ψ t) li ri s1).1 (walkFin key2 t li' ri' s2).1 := by
  unfold walkFin
  have hE := H.notE t ht
  have push : (s1.outs.push ⟨ψ t, s1.idx, li, ri⟩).toList.map (·.node) =
      (((s2.outs.push ⟨t, s2.idx, li', ri'⟩).toList.map (·.node)).filter (fun c => !E c)).map ψ := by
    simp [h.nodes, List.filter_append, hE]
  rcases opt_cases _ _ (H.isSome t ht) with ⟨h1, h2⟩ | ⟨k1, k2, h1, h2⟩
  · rw [h1, h2]
    exact ⟨push, h.seen⟩
  · rw [h1, h2]
    simp only []
    rcases opt_cases _ _ (h.seen t ht k1 k2 h1 h2) with ⟨e1, e2⟩ | ⟨x, y, e1, e2⟩
    · rw [e1, e2]
      refine ⟨push, ?_⟩
      intro t' ht' k1' k2' h1' h2'
      simp only [seenLook_cons]
      have := H.inj t' t ht' ht k1' k1 k2' k2 h1' h1 h2' h2
      by_cases e : k1' = k1
      · simp [e, this.mp e]
      · have e' : ¬ k2' = k2 := fun x => e (this.mpr x)
        simp only [e, e', if_false]
        exact h.seen t' ht' k1' k2' h1' h2'
    · rw [e1, e2]
      exact h

/-- the final step at an extra node does not change the correspondence -/
theorem extra_fin_skip (H : SkipHyp ψ D E ch1 ch2 key1 key2 rk1 rk2) {s1 : WalkSt K1} {s2 : WalkSt K2}
    (h : Skip ψ D E key1 key2 s1 s2) (e : Nat) (he : E e = true) (li ri : Option Nat) :
    Skip ψ D E key1 key2 s1 (walkFin key2 e li ri s2).1 := by
  unfold walkFin
  have push : s1.outs.toList.map (·.node) =
      (((s2.outs.push ⟨e, s2.idx, li, ri⟩).toList.map (·.node)).filter (fun c => !E c)).map ψ := by
    simp [h.nodes, List.filter_append, he]
  cases hk : key2 e with
  | none => exact ⟨push, h.seen⟩
  | some k =>
    simp only []
    cases hs : seenLook s2.seen k with
    | some i => exact h
    | none =>
      refine ⟨push, ?_⟩
      intro t ht k1 k2 h1 h2
      simp only [seenLook_cons]
      have : ¬ k2 = k := fun x => H.ekey e t he ht k2 h2 (x ▸ hk)
      rw [if_neg this]
      exact h.seen t ht k1 k2 h1 h2

theorem extra_walk_skip (H : SkipHyp ψ D E ch1 ch2 key1 key2 rk1 rk2) {s1 : WalkSt K1} {s2 : WalkSt K2}
    (h : Skip ψ D E key1 key2 s1 s2) (e : Nat) (he : E e = true) (f : Nat) :
    Skip ψ D E key1 key2 s1 (walk ch2 key2 (f+1) e s2).1 := by
  rw [walk_succ, H.leaf e he]
  exact extra_fin_skip H h e he none none

/-- **simulation with skipped leaves** -/
theorem walk_skip (H : SkipHyp ψ D E ch1 ch2 key1 key2 rk1 rk2) :
    ∀ (f2 f1 t : Nat) (s1 : WalkSt K1) (s2 : WalkSt K2), D t → rk1 (ψ t) < f1 → rk2 t < f2 →
      Skip ψ D E key1 key2 s1 s2 →
      Skip ψ D E key1 key2 (walk ch1 key1 f1 (ψ t) s1).1 (walk ch2 key2 f2 t s2).1 := by
  intro f2
  induction f2 with
  | zero => intro f1 t s1 s2 _ _ h; omega
  | succ f2 ih =>
    intro f1 t s1 s2 ht hr1 hr2 h
    obtain ⟨f1, rfl⟩ : ∃ g, f1 = g + 1 := ⟨f1 - 1, by omega⟩
    rw [walk_succ, walk_succ, H.ch t ht]
    have hcl := H.closed t ht
    have hk1 := H.rk1 t ht
    have hk2 := H.rk2 t ht
    have hlen := H.len t ht
    match hc : ch2 t with
    | [] => simp only [List.filter_nil, List.map_nil]; exact fin_skip H h t ht _ _ _ _
    | [l] =>
      rw [hc] at hcl hk1 hk2
      have hEl := H.one t ht l hc
      have hl : D l := hcl l (by simp) hEl
      simp only [List.filter_cons, hEl, Bool.not_false, if_true, List.filter_nil, List.map_cons, List.map_nil]
      rcases opt_cases _ _ (before_skip H h l hl) with ⟨b1, b2⟩ | ⟨x, y, b1, b2⟩
      · rw [b1, b2]
        simp only []
        have hs := ih f1 l s1 s2 hl (by have := hk1 l (by simp) hEl; omega)
          (by have := hk2 l (by simp); omega) h
        exact fin_skip H hs t ht _ _ _ _
      · rw [b1, b2]
        exact fin_skip H h t ht _ _ _ _
    | [l, r] =>
      rw [hc] at hcl hk1 hk2
      have hl2 := hk2 l (by simp)
      have hr2' := hk2 r (by simp)
      obtain ⟨f2, rfl⟩ : ∃ g, f2 = g + 1 := ⟨f2 - 1, by omega⟩
      cases hEl : E l with
      | false =>
        have hl : D l := hcl l (by simp) hEl
        have hl1 := hk1 l (by simp) hEl
        cases hEr : E r with
        | false =>
          have hr : D r := hcl r (by simp) hEr
          have hr1' := hk1 r (by simp) hEr
          simp only [List.filter_cons, hEl, hEr, Bool.not_false, if_true, List.filter_nil, List.map_cons, List.map_nil]
          rcases opt_cases _ _ (before_skip H h l hl) with ⟨bl1, bl2⟩ | ⟨xl, yl, bl1, bl2⟩ <;>
            rcases opt_cases _ _ (before_skip H h r hr) with ⟨br1, br2⟩ | ⟨xr, yr, br1, br2⟩ <;>
            rw [bl1, bl2, br1, br2] <;> simp only []
          · have hs := ih f1 l s1 s2 hl (by omega) (by omega) h
            have hs' := ih f1 r _ _ hr (by omega) (by omega) hs
            exact fin_skip H hs' t ht _ _ _ _
          · have hs := ih f1 l s1 s2 hl (by omega) (by omega) h
            exact fin_skip H hs t ht _ _ _ _
          · have hs := ih f1 r s1 s2 hr (by omega) (by omega) h
            exact fin_skip H hs t ht _ _ _ _
          · exact fin_skip H h t ht _ _ _ _
        | true =>
          simp only [List.filter_cons, hEl, hEr, Bool.not_false, Bool.not_true, if_true, Bool.false_eq_true,
            if_false, List.filter_nil, List.map_cons, List.map_nil]
          rcases opt_cases _ _ (before_skip H h l hl) with ⟨bl1, bl2⟩ | ⟨xl, yl, bl1, bl2⟩ <;>
            rw [bl1, bl2] <;> simp only [] <;> cases walkBefore key2 r s2 <;> simp only []
          · have hs := ih f1 l s1 s2 hl (by omega) (by omega) h
            exact fin_skip H (extra_walk_skip H hs r hEr f2) t ht _ _ _ _
          · have hs := ih f1 l s1 s2 hl (by omega) (by omega) h
            exact fin_skip H hs t ht _ _ _ _
          · exact fin_skip H (extra_walk_skip H h r hEr f2) t ht _ _ _ _
          · exact fin_skip H h t ht _ _ _ _
      | true =>
        have hEr : E r = false := by
          rcases H.two t ht l r hc with h' | h'
          · rw [hEl] at h'; cases h'
          · exact h'
        have hr : D r := hcl r (by simp) hEr
        have hr1' := hk1 r (by simp) hEr
        simp only [List.filter_cons, hEl, hEr, Bool.not_false, Bool.not_true, if_true, Bool.false_eq_true,
          if_false, List.filter_nil, List.map_cons, List.map_nil]
        rcases opt_cases _ _ (before_skip H h r hr) with ⟨br1, br2⟩ | ⟨xr, yr, br1, br2⟩ <;>
          rw [br1, br2] <;> simp only [] <;> cases walkBefore key2 l s2 <;> simp only []
        · have hs := ih f1 r s1 _ hr (by omega) (by omega) (extra_walk_skip H h l hEl f2)
          exact fin_skip H hs t ht _ _ _ _
        · have hs := ih f1 r s1 s2 hr (by omega) (by omega) h
          exact fin_skip H hs t ht _ _ _ _
        · exact fin_skip H (extra_walk_skip H h l hEl f2) t ht _ _ _ _
        · exact fin_skip H h t ht _ _ _ _
    | l :: r :: x :: rest => rw [hc] at hlen; simp at hlen
end

#print axioms walk_skip

end Prog
