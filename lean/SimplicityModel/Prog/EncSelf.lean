/-
C01, structural stage of the redemption-time round trip for *arbitrary* plans (not only those in the
decoder's canonical form): the node list that `Prog.encode` writes for a plan with backward child
references whose sharing identities are congruent is well formed, is read back by the node-list
decoder, and passes the decoder's canonical-order check; its node `f t` (the position of the class
of `t`) has the children `f` of the children of `t`.
-/
import SimplicityModel.Prog.WalkSelf
import SimplicityModel.Prog.CodecProps
set_option linter.unusedSimpArgs false
namespace Prog
open Wire PO
variable {J : Type}

/-- the nodes of the encoder's DAG: plan nodes `2*i`, hidden pseudo-nodes `2*j+1` of assertions -/
def EncDom (p : Plan) (t : Nat) : Prop :=
  (t % 2 = 0 ∧ t / 2 < p.size) ∨
  (t % 2 = 1 ∧ ∃ a h, p[t / 2]? = some (.assertl a h) ∨ p[t / 2]? = some (.assertr h a))

/-- children are earlier nodes -/
def PlanBackward (p : Plan) : Prop := ∀ (i : Nat) (nd : Node), p[i]? = some nd → ∀ c ∈ nd.children, c < i

/-- the sharing identities are a congruence on the encoder's DAG: nodes with one identity have
children with pairwise equal identities (true of identity roots up to SHA-256 collisions) -/
def EncCongr (p : Plan) (an : Array Annot) : Prop :=
  ∀ t t', EncDom p t → EncDom p t' → encKey p an true t = encKey p an true t' →
    (encChildren p true t).map (encKey p an true) = (encChildren p true t').map (encKey p an true)

def encRk (t : Nat) : Nat := if t % 2 = 0 then t + 1 else t - 1

theorem encDom_children (p : Plan) (hb : PlanBackward p) (t : Nat) (ht : EncDom p t) :
    (encChildren p true t).length ≤ 2 ∧
    ∀ c ∈ encChildren p true t, EncDom p c ∧ encRk c < encRk t := by
  rcases ht with ⟨h2, hlt⟩ | ⟨h2, _⟩
  · obtain ⟨i, rfl⟩ : ∃ i, t = 2 * i := ⟨t / 2, by omega⟩
    rw [two_mul_div] at hlt
    have hp : p[i]? = some p[i] := Array.getElem?_eq_getElem hlt
    have hbk := hb i _ hp
    have even : ∀ c, c < i → EncDom p (2 * c) ∧ encRk (2 * c) < encRk (2 * i) := by
      intro c hc
      refine ⟨.inl ⟨two_mul_mod c, by rw [two_mul_div]; omega⟩, ?_⟩
      unfold encRk
      rw [if_pos (two_mul_mod c), if_pos (two_mul_mod i)]; omega
    have odd : (∃ a h, p[i]? = some (.assertl a h) ∨ p[i]? = some (.assertr h a)) →
        EncDom p (2 * i + 1) ∧ encRk (2 * i + 1) < encRk (2 * i) := by
      intro h
      refine ⟨.inr ⟨two_mul_succ_mod i, by rw [two_mul_succ_div]; exact h⟩, ?_⟩
      unfold encRk
      rw [if_neg (by rw [two_mul_succ_mod]; decide), if_pos (two_mul_mod i)]; omega
    unfold encChildren
    rw [two_mul_mod, two_mul_div, hp]
    simp only [show ¬ (0 = 1) by omega, if_false]
    generalize p[i] = nd at hp hbk
    cases nd
    case disconnect a b =>
      cases b with
      | none => simp [Node.children] at hbk ⊢; exact even a hbk
      | some b => simp [Node.children] at hbk ⊢; exact ⟨even a hbk.1, even b hbk.2⟩
    case assertl a h =>
      simp [Node.children] at hbk ⊢
      exact ⟨even a hbk, odd ⟨a, h, .inl hp⟩⟩
    case assertr h b =>
      simp [Node.children] at hbk ⊢
      exact ⟨odd ⟨b, h, .inr hp⟩, even b hbk⟩
    all_goals (simp [Node.children] at hbk ⊢)
    all_goals first | exact even _ hbk | exact ⟨even _ hbk.1, even _ hbk.2⟩
  · have : encChildren p true t = [] := by simp [encChildren, h2]
    rw [this]; simp

theorem encKey_total (p : Plan) (an : Array Annot) (hsz : an.size = p.size) (t : Nat) (ht : EncDom p t) :
    (encKey p an true t).isSome := by
  rcases ht with ⟨h2, hlt⟩ | ⟨h2, a, h, hp | hp⟩
  · unfold encKey
    rw [if_neg (by omega), Array.getElem?_eq_getElem (by omega : t / 2 < an.size)]
    rfl
  · unfold encKey; rw [if_pos h2, hp]; rfl
  · unfold encKey; rw [if_pos h2, hp]; rfl

/-- the child references of a wire node -/
def wch : WNode J → List Nat
  | .injl c | .injr c | .take c | .drop c | .disc1 c => [c]
  | .comp a b | .case a b | .pair a b | .disc a b => [a, b]
  | _ => []

theorem wireChildren_eq (ns : Array (WNode J)) (i : Nat) :
    wireChildren ns i = match ns[i]? with | some n => wch n | none => [] := by
  unfold wireChildren
  cases ns[i]? with
  | none => rfl
  | some n => cases n <;> rfl

/-- payloads of the plan that the wire format can carry -/
def PayloadOk (p : Plan) : Prop := ∀ (i : Nat) (nd : Node), p[i]? = some nd →
  match nd with
  | .fail e => e.length = 64
  | .word n bits => n < 32 ∧ bits.length = 2 ^ n
  | _ => True

theorem natBits256_length (n : Nat) : (natBits256 n).length = 256 := by simp [natBits256]

theorem bitsOfBytes_len (bs : List Nat) : (Drv.bitsOfBytes bs).length = 8 * bs.length := by
  induction bs with
  | nil => rfl
  | cons b bs ih => rw [bitsOfBytes_cons, List.length_append, ih]; simp; omega

/-- the wire node written for an item whose child indices are in order has those child indices as
child references, and is well formed at the item's position -/
theorem wireOf_children {ofName : String → Option J} {p : Plan} {key : Nat → Option (Bool × Nat)}
    {S : WalkSt (Bool × Nat)} (hpl : PayloadOk p) (o : WOut) (n : WNode J)
    (hw : wireOf ofName p o = some n) (hk : KidsOK (encChildren p true) key S o) :
    wch n = kidsList o ∧ n.Ok o.index := by
  obtain ⟨node, index, li, ri⟩ := o
  unfold wireOf at hw
  unfold KidsOK at hk
  simp only at hw hk
  by_cases h2 : node % 2 = 1
  · rw [if_pos h2] at hw
    have hch : encChildren p true node = [] := by simp [encChildren, h2]
    rw [hch] at hk
    simp only at hk
    split at hw
    · cases hw; exact ⟨by simp [wch, kidsList, hk.1, hk.2], natBits256_length _⟩
    · cases hw; exact ⟨by simp [wch, kidsList, hk.1, hk.2], natBits256_length _⟩
    · cases hw
  · rw [if_neg h2] at hw
    unfold encChildren at hk
    rw [if_neg h2] at hk
    cases hp : p[node / 2]? with
    | none => rw [hp] at hw; simp at hw
    | some nd =>
      have hpay := hpl _ _ hp
      rw [hp] at hw hk
      cases nd
      case disconnect a b =>
        cases b with
        | none =>
          simp only at hk
          obtain ⟨hr, i, hl, hlt, _⟩ := hk
          subst hr hl
          simp at hw; subst hw
          exact ⟨rfl, hlt⟩
        | some b =>
          simp only [if_true] at hk
          obtain ⟨i, j, hl, hr, hlt, hrt, _⟩ := hk
          subst hl hr
          simp at hw; subst hw
          exact ⟨rfl, hlt, hrt⟩
      case fail e =>
        simp only at hk hpay
        simp at hw; subst hw
        refine ⟨by simp [wch, kidsList, hk.1, hk.2], ?_⟩
        show (bytesBits e).length = 512
        unfold bytesBits
        rw [bitsOfBytes_len, hpay]
      case word k bits =>
        simp only at hk hpay
        simp at hw; subst hw
        exact ⟨by simp [wch, kidsList, hk.1, hk.2], hpay⟩
      case jet name =>
        simp only at hk
        simp at hw
        obtain ⟨j, _, rfl⟩ := hw
        exact ⟨by simp [wch, kidsList, hk.1, hk.2], trivial⟩
      case hidden h => simp at hw
      case iden | unit | witness =>
        simp only at hk
        simp at hw; subst hw
        exact ⟨by simp [wch, kidsList, hk.1, hk.2], trivial⟩
      case injl c | injr c | take c | drop c =>
        simp only at hk
        obtain ⟨hr, i, hl, hlt, _⟩ := hk
        subst hr hl
        simp at hw; subst hw
        exact ⟨rfl, hlt⟩
      case comp a b | case a b | pair a b | assertl a b | assertr a b =>
        simp only at hk
        obtain ⟨i, j, hl, hr, hlt, hrt, _⟩ := hk
        subst hl hr
        simp at hw; subst hw
        exact ⟨rfl, hlt, hrt⟩

/-- `mapM` in `Option`, element by element (converse of `ListAux.mapM_eq_some`) -/
theorem mapM_some_inv {α β : Type} (f : α → Option β) : ∀ (l : List α) (m : List β), l.mapM f = some m →
    m.length = l.length ∧ ∀ (i : Nat) (a : α), l[i]? = some a → ∃ b, m[i]? = some b ∧ f a = some b := by
  intro l
  induction l with
  | nil => intro m h; simp at h; subst h; simp
  | cons a l ih =>
    intro m h
    rw [List.mapM_cons] at h
    cases hf : f a with
    | none => rw [hf] at h; simp at h
    | some b =>
      rw [hf] at h
      cases hl : l.mapM f with
      | none => rw [hl] at h; simp at h
      | some m' =>
        rw [hl] at h
        simp at h
        subst h
        obtain ⟨h1, h2⟩ := ih m' hl
        refine ⟨by simp [h1], ?_⟩
        intro i x hx
        cases i with
        | zero => simp at hx; subst hx; exact ⟨b, by simp, hf⟩
        | succ i => simp at hx ⊢; exact h2 i x hx

theorem nodesOk_of_forall : ∀ (l : List (WNode J)) (start : Nat),
    (∀ (i : Nat) (n : WNode J), l[i]? = some n → n.Ok (start + i)) → NodesOk start l
  | [], _, _ => trivial
  | n :: l, start, h => ⟨by simpa using h 0 n (by simp), nodesOk_of_forall l (start + 1) (fun i m hm => by
      have := h (i + 1) m (by simpa using hm)
      have e : start + 1 + i = start + (i + 1) := by omega
      rw [e]; exact this)⟩

/-- **the node list the encoder writes, for any plan with backward references and congruent sharing
identities**: it is well formed (so the node-list decoder reads it back and `close` accepts the
padding), it passes the decoder's canonical-order check, the root is its last node, and the node
`f t` at the position of the class of `t` has the children `f` of the children of `t` — the
structural half of `decode (encode p) ≅ p` along the node map `f`. -/
theorem enc_structure (jc : JetCode J) (ofName : String → Option J) (p : Plan) (an : Array Annot)
    (wit : Nat → Option (List Bool)) (hsz : an.size = p.size) (hpos : 0 < p.size)
    (hb : PlanBackward p) (hpl : PayloadOk p) (hcong : EncCongr p an) (pb wb : List Bool)
    (he : encode jc ofName p an true wit = some (pb, wb)) :
    let S := (walk (encChildren p true) (encKey p an true) (2 * p.size + 2) (2 * (p.size - 1)) ⟨#[], [], 0⟩).1
    let f := clsPos (encKey p an true) S
    ∃ N : List (WNode J), S.outs.toList.mapM (wireOf ofName p) = some N ∧
      pb = padToByte (encProgram jc N) ∧ N ≠ [] ∧ NodesOk 0 N ∧
      canonicalOk N.toArray = true ∧
      (N.length < 2 ^ 32 → ∃ rest, decProgram jc pb = .ok (N, rest) ∧ closeOk rest = true) ∧
      f (2 * (p.size - 1)) = N.length - 1 ∧
      (∃ i, Cls (encKey p an true) S (2 * (p.size - 1)) i) ∧
      (∀ t, EncDom p t → (∃ i, Cls (encKey p an true) S t i) →
        f t < N.length ∧ wireChildren N.toArray (f t) = (encChildren p true t).map f ∧
        (∃ o n, S.outs.toList[f t]? = some o ∧ encKey p an true o.node = encKey p an true t ∧
          N[f t]? = some n ∧ wireOf ofName p o = some n) ∧
        ∀ c ∈ encChildren p true t, ∃ i, Cls (encKey p an true) S c i) := by
  intro S f
  have htot := encKey_total p an hsz
  have hcl : ∀ t, EncDom p t → ∀ c ∈ encChildren p true t, EncDom p c :=
    fun t ht c hc => ((encDom_children p hb t ht).2 c hc).1
  have hlen : ∀ t, EncDom p t → (encChildren p true t).length ≤ 2 := fun t ht => (encDom_children p hb t ht).1
  have hrk : ∀ t, EncDom p t → ∀ c ∈ encChildren p true t, encRk c < encRk t :=
    fun t ht c hc => ((encDom_children p hb t ht).2 c hc).2
  have hroot : EncDom p (2 * (p.size - 1)) := .inl ⟨two_mul_mod _, by rw [two_mul_div]; omega⟩
  have hwsc : 0 < S.outs.size ∧ Good (encChildren p true) (encKey p an true) (EncDom p) S ∧
      f (2 * (p.size - 1)) = S.outs.size - 1 ∧
      (walk (writtenCh S.outs) (fun i => some i) (S.outs.size + 1) (S.outs.size - 1) ⟨#[], [], 0⟩).1.outs.toList =
        S.outs.toList.map (mapNode f) ∧
      ∀ (j : Nat) (o : WOut), S.outs.toList[j]? = some o → f o.node = j ∧ o.index = j :=
    walk_self_canonical htot hcl hlen hrk hcong
      (2 * p.size + 2) (2 * (p.size - 1)) hroot (by unfold encRk; rw [if_pos (two_mul_mod _)]; omega)
  obtain ⟨hOpos, hg, hrootpos, hwalk, hitems⟩ := hwsc
  -- the node list
  unfold encode at he
  cases hm : S.outs.toList.mapM (wireOf ofName p) with
  | none =>
    exfalso
    have : (walk (encChildren p true) (encKey p an true) (2 * p.size + 2) (2 * (p.size - 1)) ⟨#[], [], 0⟩).1.outs.toList.mapM
        (wireOf ofName p) = none := hm
    generalize walk (encChildren p true) (encKey p an true) (2 * p.size + 2) (2 * (p.size - 1)) ⟨#[], [], 0⟩ = w at he this
    obtain ⟨st, x⟩ := w
    simp only at he this
    rw [this] at he
    simp at he
  | some N =>
    have hpb : pb = padToByte (encProgram jc N) := by
      have : (walk (encChildren p true) (encKey p an true) (2 * p.size + 2) (2 * (p.size - 1)) ⟨#[], [], 0⟩).1.outs.toList.mapM
          (wireOf ofName p) = some N := hm
      generalize walk (encChildren p true) (encKey p an true) (2 * p.size + 2) (2 * (p.size - 1)) ⟨#[], [], 0⟩ = w at he this
      obtain ⟨st, x⟩ := w
      simp only at he this
      rw [this] at he
      simp only [Option.bind_eq_bind, Option.bind_some, Option.pure_def, Option.some.injEq, Prod.mk.injEq] at he
      exact he.1.symm
    obtain ⟨hNlen, hNget⟩ := mapM_some_inv _ _ _ hm
    have hNlen' : N.length = S.outs.size := by simpa using hNlen
    have hne : N ≠ [] := by
      intro e; rw [e] at hNlen'
      simp only [List.length_nil] at hNlen'; omega
    -- item by item
    have hitem : ∀ (j : Nat) (n : WNode J), N[j]? = some n → ∃ o, S.outs.toList[j]? = some o ∧
        wireOf ofName p o = some n ∧ wch n = kidsList o ∧ n.Ok j := by
      intro j n hn
      have hj : j < S.outs.toList.length := by
        rcases Nat.lt_or_ge j N.length with h' | h'
        · rw [hNlen] at h'; exact h'
        · rw [List.getElem?_eq_none h'] at hn; cases hn
      obtain ⟨b, hb', hwb⟩ := hNget j _ (List.getElem?_eq_getElem hj)
      rw [hn] at hb'; cases hb'
      have ho := List.getElem?_eq_getElem hj
      obtain ⟨hch, hok⟩ := wireOf_children hpl _ n hwb (hg.kids j _ ho).2
      rw [hg.pos j _ ho] at hok
      exact ⟨_, ho, hwb, hch, hok⟩
    have hok : NodesOk 0 N := nodesOk_of_forall N 0 (fun i n hn => by
      obtain ⟨_, _, _, _, h⟩ := hitem i n hn
      simpa using h)
    have hwc : wireChildren N.toArray = writtenCh S.outs := by
      funext j
      rw [wireChildren_eq]
      unfold writtenCh
      simp only [List.getElem?_toArray]
      cases hn : N[j]? with
      | none =>
        have : S.outs.size ≤ j := by
          rcases Nat.lt_or_ge j N.length with h' | h'
          · rw [List.getElem?_eq_getElem h'] at hn; cases hn
          · omega
        rw [Array.getElem?_eq_none this]
      | some n =>
        obtain ⟨o, ho, _, hch, _⟩ := hitem j n hn
        rw [← Array.getElem?_toList, ho]
        exact hch
    have hcan : canonicalOk N.toArray = true := by
      unfold canonicalOk
      simp only [List.size_toArray, hNlen', hwc]
      have hw' := hwalk
      generalize walk (writtenCh S.outs) (fun i => some i) (S.outs.size + 1) (S.outs.size - 1) ⟨#[], [], 0⟩ = w at hw'
      obtain ⟨st, x⟩ := w
      simp only at hw' ⊢
      simp only [Bool.and_eq_true, beq_iff_eq, List.all_eq_true]
      refine ⟨by have := congrArg List.length hw'; simpa using this, ?_⟩
      intro o ho
      rw [hw'] at ho
      obtain ⟨o', ho', rfl⟩ := List.mem_map.mp ho
      obtain ⟨j, hj, hget⟩ := List.mem_iff_getElem.mp ho'
      have := hitems j o' (by rw [List.getElem?_eq_getElem hj, hget])
      simp only [mapNode]
      omega
    refine ⟨N, rfl, hpb, hne, hok, hcan, ?_, by rw [hNlen']; exact hrootpos, ?_, ?_⟩
    · intro hlt
      refine ⟨List.replicate ((8 - (encProgram jc N).length % 8) % 8) false, ?_, ?_⟩
      · rw [hpb]; unfold padToByte
        exact decProgram_encProgram jc N hne hlt hok _
      · unfold closeOk
        simp only [List.length_replicate, Bool.and_eq_true, decide_eq_true_eq, List.all_eq_true]
        refine ⟨by omega, ?_⟩
        intro b hb'
        simp [List.eq_of_mem_replicate hb']
    · obtain ⟨kr, hkr⟩ := Option.isSome_iff_exists.mp (htot _ hroot)
      have hlast : S.outs.toList[S.outs.size - 1]? = some (S.outs.toList[S.outs.size - 1]'(by simp only [Array.length_toList]; omega)) :=
        List.getElem?_eq_getElem _
      refine ⟨S.outs.size - 1, ?_⟩
      intro k hk
      have hp : clsPos (encKey p an true) S (2 * (p.size - 1)) = S.outs.size - 1 := hrootpos
      unfold clsPos at hp
      rw [hk] at hp
      simp only at hp
      cases hs : seenLook S.seen k with
      | some i => rw [hs] at hp; simp at hp; rw [hp]
      | none =>
        exfalso
        -- the root's class was recorded by its own walk
        obtain ⟨_, hcr⟩ := walk_good htot hcl hrk (2 * p.size + 2) (2 * (p.size - 1)) ⟨#[], [], 0⟩ hroot
          (by unfold encRk; rw [if_pos (two_mul_mod _)]; omega) (good_empty _ _ _)
        have : seenLook S.seen k = some _ := hcr k hk
        rw [hs] at this; cases this
    · intro t ht ⟨i, hi⟩
      obtain ⟨hp, o, ho, hko, hw, hkids⟩ := rep_children htot hcl hlen hcong hg t i ht hi
      have hilt : i < N.length := by
        rw [hNlen]
        rcases Nat.lt_or_ge i S.outs.toList.length with h' | h'
        · exact h'
        · rw [List.getElem?_eq_none h'] at ho; cases ho
      obtain ⟨n, hn, hwn⟩ := hNget i o ho
      have hft : f t = i := hp
      rw [hft]
      exact ⟨hilt, by rw [hwc]; exact hw, ⟨o, n, ho, hko, hn, hwn⟩, fun c hc => (hkids c hc).1⟩

#print axioms enc_structure

end Prog
