/-
Facts tying the driver-level definitions of `Prog/Elab.lean` to the proved model:
`evalK` refines `eval` (it only adds the failure kind), the instrumented run is the plain run.
-/
import SimplicityModel.Prog.Elab

namespace Prog
open BM4

def okOpt {α} : Except Fail α → Option α
  | .ok a => some a
  | .error _ => none

@[simp] theorem okOpt_ok {α} (a : α) : okOpt (.ok a : Except Fail α) = some a := rfl
@[simp] theorem okOpt_error {α} (e : Fail) : okOpt (.error e : Except Fail α) = none := rfl

theorem okOpt_map {α β} (f : α → β) (x : Except Fail α) : okOpt (x.map f) = (okOpt x).map f := by
  cases x <;> rfl

theorem okOpt_bind {α β} (x : Except Fail α) (f : α → Except Fail β) :
    okOpt (x.bind f) = (okOpt x).bind fun a => okOpt (f a) := by
  cases x <;> rfl

/-- the evaluator with failure kinds computes exactly `eval` (success and value), it only names the
reason of a failure -/
theorem evalK_eval : ∀ {a b : Ty} (t : Term a b) (v : Val), okOpt (evalK t v) = eval t v := by
  intro a b t
  induction t with
  | iden => intro v; simp [evalK, eval]
  | unit => intro v; simp [evalK, eval]
  | injl t ih => intro v; simp [evalK, eval, okOpt_map, ih]
  | injr t ih => intro v; simp [evalK, eval, okOpt_map, ih]
  | take t ih => intro v; cases v <;> simp [evalK, eval, ih]
  | drop t ih => intro v; cases v <;> simp [evalK, eval, ih]
  | comp s t ihs iht => intro v; simp [evalK, eval, okOpt_bind, ihs, iht]
  | case s t ihs iht =>
    intro v
    cases v with
    | pair x z => cases x <;> simp [evalK, eval, ihs, iht]
    | _ => simp [evalK, eval]
  | pair s t ihs iht =>
    intro v
    simp only [evalK, eval, okOpt_bind, ihs]
    congr 1; funext x; simp [okOpt_map, iht]
  | fail => intro v; simp [evalK, eval]
  | witness w => intro v; simp [evalK, eval]
  | assertl s ih =>
    intro v
    cases v with
    | pair x z => cases x <;> simp [evalK, eval, ih]
    | _ => simp [evalK, eval]
  | assertr t ih =>
    intro v
    cases v with
    | pair x z => cases x <;> simp [evalK, eval, ih]
    | _ => simp [evalK, eval]
  | jet jf f => intro v; simp only [evalK, eval]; cases f v <;> rfl
  | word w => intro v; simp [evalK, eval]
  | disconnect w cw s t ihs iht =>
    intro v
    simp only [evalK, eval, okOpt_bind, ihs]
    congr 1; funext x
    cases x <;> simp [okOpt_map, iht]

end Prog

namespace Prog
open BM4

abbrev fstE (x : Except Err (M × Marks)) : Except Err M := x.map Prod.fst

theorem fstE_bind_plain (op : Except Err M) (g : M → Except Err (M × Marks)) (g' : M → Except Err M)
    (hg : ∀ m, fstE (g m) = g' m) : fstE (op >>= g) = op >>= g' := by
  cases op with
  | error e => rfl
  | ok m => exact hg m

theorem fstE_bind (x : Except Err (M × Marks)) (y : Except Err M) (hx : fstE x = y)
    (g : M × Marks → Except Err (M × Marks)) (g' : M → Except Err M)
    (hg : ∀ p, fstE (g p) = g' p.1) : fstE (x >>= g) = y >>= g' := by
  subst hx
  cases x with
  | error e => rfl
  | ok p => exact hg p

theorem fstE_bind_bool (op : Except Err Bool) (g : Bool → Except Err (M × Marks)) (g' : Bool → Except Err M)
    (hg : ∀ b, fstE (g b) = g' b) : fstE (op >>= g) = op >>= g' := by
  cases op with
  | error e => rfl
  | ok m => exact hg m

theorem fstE_tail (op : Except Err M) (k : Marks) : fstE (op >>= fun m => pure (m, k)) = op := by
  cases op <;> rfl

theorem fstE_pure (m : M) (k : Marks) : fstE (pure (m, k)) = pure m := rfl

theorem fstE_newWriteM (n : Nat) (m : M) (k : Marks) : fstE (newWriteM n m k) = newWrite n m := by
  unfold newWriteM
  cases h : newWrite n m <;> rfl

/-- the instrumented interpreter is the interpreter: dropping the marks gives `run` -/
theorem runM_run : ∀ {a b : Ty} (t : Term a b) (m : M) (k : Marks), fstE (runM t m k) = run t m := by
  intro a b t
  induction t with
  | iden => intro m k; simp only [runM, run]; exact fstE_tail _ _
  | unit => intro m k; rfl
  | injl t ih =>
    intro m k; simp only [runM, run]
    exact fstE_bind_plain _ _ _ fun _ => fstE_bind_plain _ _ _ fun _ => ih _ _
  | injr t ih =>
    intro m k; simp only [runM, run]
    exact fstE_bind_plain _ _ _ fun _ => fstE_bind_plain _ _ _ fun _ => ih _ _
  | take t ih => intro m k; simp only [runM, run]; exact ih _ _
  | drop t ih =>
    intro m k; simp only [runM, run]
    exact fstE_bind_plain _ _ _ fun _ => fstE_bind _ _ (ih _ _) _ _ fun p =>
      fstE_tail _ _
  | comp s t ihs iht =>
    intro m k; simp only [runM, run]
    exact fstE_bind _ _ (fstE_newWriteM _ _ _) _ _ fun p =>
      fstE_bind _ _ (ihs _ _) _ _ fun p => fstE_bind_plain _ _ _ fun _ =>
      fstE_bind _ _ (iht _ _) _ _ fun p => fstE_tail _ _
  | case s t ihs iht =>
    intro m k; simp only [runM, run]
    refine fstE_bind_bool _ _ _ fun bit => ?_
    cases bit
    · exact fstE_bind_plain _ _ _ fun _ => fstE_bind _ _ (ihs _ _) _ _ fun p =>
        fstE_tail _ _
    · exact fstE_bind_plain _ _ _ fun _ => fstE_bind _ _ (iht _ _) _ _ fun p =>
        fstE_tail _ _
  | pair s t ihs iht =>
    intro m k; simp only [runM, run]
    exact fstE_bind _ _ (ihs _ _) _ _ fun p => iht _ _
  | fail => intro m k; rfl
  | witness w => intro m k; simp only [runM, run]; exact fstE_tail _ _
  | assertl s ih =>
    intro m k; simp only [runM, run]
    refine fstE_bind_bool _ _ _ fun bit => ?_
    cases bit
    · exact fstE_bind_plain _ _ _ fun _ => fstE_bind _ _ (ih _ _) _ _ fun p =>
        fstE_tail _ _
    · rfl
  | assertr t ih =>
    intro m k; simp only [runM, run]
    refine fstE_bind_bool _ _ _ fun bit => ?_
    cases bit
    · rfl
    · exact fstE_bind_plain _ _ _ fun _ => fstE_bind _ _ (ih _ _) _ _ fun p =>
        fstE_tail _ _
  | jet jf f =>
    intro m k; simp only [runM, run]
    split
    · rfl
    · cases jf (slice m.cells (rcur m) _) with
      | none => rfl
      | some out => exact fstE_tail _ _
  | word w => intro m k; simp only [runM, run]; exact fstE_tail _ _
  | disconnect w cw s t ihs iht =>
    intro m k; simp only [runM, run]
    exact fstE_bind _ _ (fstE_newWriteM _ _ _) _ _ fun p =>
      fstE_bind_plain _ _ _ fun _ => fstE_bind_plain _ _ _ fun _ => fstE_bind_plain _ _ _ fun _ =>
      fstE_bind _ _ (fstE_newWriteM _ _ _) _ _ fun p =>
      fstE_bind _ _ (ihs _ _) _ _ fun p => fstE_bind_plain _ _ _ fun _ =>
      fstE_bind_plain _ _ _ fun _ => fstE_bind_plain _ _ _ fun _ =>
      fstE_bind _ _ (iht _ _) _ _ fun p => fstE_bind_plain _ _ _ fun _ =>
      fstE_tail _ _

end Prog
