/-
The DAG that a walk under a total, congruent sharing key *writes* (item `j` with the recorded child
indices as children) is in canonical order: the pointer-sharing walk over it, from the last item,
yields item `j` at position `j`, for every `j` (C01, structural half of the round trip, stated for
the index walk `Prog.walk` that the encoder runs).
-/
import SimplicityModel.Prog.WalkGood

namespace Prog

variable {K : Type} [DecidableEq K]

/-- the recorded child indices of an item -/
def kidsList (o : WOut) : List Nat :=
  match o.lidx, o.ridx with
  | some i, some j => [i, j]
  | some i, none => [i]
  | _, _ => []

/-- the children function of the written DAG -/
def writtenCh (O : Array WOut) (j : Nat) : List Nat :=
  match O[j]? with
  | some o => kidsList o
  | none => []

/-- proper descendants in an index DAG -/
inductive DescP (ch : Nat → List Nat) : Nat → Nat → Prop
  | child {t c} : c ∈ ch t → DescP ch t c
  | step {t c d} : c ∈ ch t → DescP ch c d → DescP ch t d

section
variable {ch : Nat → List Nat} {key : Nat → Option K} {D : Nat → Prop} {rk : Nat → Nat}

theorem DescP.dom (hcl : ∀ t, D t → ∀ c ∈ ch t, D c) {t d : Nat} (h : DescP ch t d) (ht : D t) : D d := by
  induction h with
  | child hc => exact hcl _ ht _ hc
  | step hc _ ih => exact ih (hcl _ ht _ hc)

theorem DescP.trans {a b c : Nat} (h1 : DescP ch a b) (h2 : DescP ch b c) : DescP ch a c := by
  induction h1 with
  | child hc => exact .step hc h2
  | step hc _ ih => exact .step hc (ih h2)

omit [DecidableEq K] in
/-- under a congruent key in a ranked DAG, a node and a proper descendant have different keys -/
theorem key_ne_desc (hcl : ∀ t, D t → ∀ c ∈ ch t, D c)
    (hrk : ∀ t, D t → ∀ c ∈ ch t, rk c < rk t)
    (hcong : ∀ t t', D t → D t' → key t = key t' → (ch t).map key = (ch t').map key) :
    ∀ (n t c : Nat), rk t < n → D t → DescP ch t c → key t ≠ key c := by
  intro n
  induction n with
  | zero => intro t c h; omega
  | succ n ih =>
    intro t c hn ht hd he
    have hc : D c := hd.dom hcl ht
    have hm := hcong t c ht hc he
    -- the first step of the path
    obtain ⟨t1, ht1, hrest⟩ : ∃ t1, t1 ∈ ch t ∧ (t1 = c ∨ DescP ch t1 c) := by
      cases hd with
      | child h => exact ⟨c, h, .inl rfl⟩
      | step h h' => exact ⟨_, h, .inr h'⟩
    -- the child of `c` at the same place
    obtain ⟨i, hi, hti⟩ := List.mem_iff_getElem.mp ht1
    have hlen : (ch t).length = (ch c).length := by
      have := congrArg List.length hm; simpa using this
    have hi' : i < (ch c).length := by omega
    have hkeys : key (ch t)[i] = key (ch c)[i] := by
      have h1 : ((ch t).map key)[i]? = ((ch c).map key)[i]? := by rw [hm]
      rw [List.getElem?_map, List.getElem?_map, List.getElem?_eq_getElem hi, List.getElem?_eq_getElem hi'] at h1
      simpa using h1
    have hc1 : (ch c)[i] ∈ ch c := List.getElem_mem hi'
    have hdesc : DescP ch t1 (ch c)[i] := by
      rcases hrest with rfl | h'
      · exact .child hc1
      · exact h'.trans (.child hc1)
    rw [hti] at hkeys
    exact ih t1 _ (by have := hrk t ht t1 ht1; omega) (hcl t ht t1 ht1) hdesc hkeys

/-- the position of the class of a node in the final state -/
def clsPos (key : Nat → Option K) (S : WalkSt K) (t : Nat) : Nat :=
  match key t with
  | some k => (seenLook S.seen k).getD 0
  | none => 0

theorem clsPos_of_cls {S : WalkSt K} {c c' i : Nat} (he : key c = key c') (hs : (key c').isSome)
    (h : Cls key S c' i) : clsPos key S c = i := by
  obtain ⟨k, hk⟩ := Option.isSome_iff_exists.mp hs
  unfold clsPos
  rw [he, hk]
  simp only []
  rw [h k hk]; rfl

theorem cls_of_key_eq {S : WalkSt K} {c c' i : Nat} (he : key c = key c') (h : Cls key S c' i) :
    Cls key S c i := fun k hk => h k (he ▸ hk)

/-- the item that represents the class of a recorded node, and what it says about the node's
children -/
theorem rep_children (htot : ∀ t, D t → (key t).isSome) (hcl : ∀ t, D t → ∀ c ∈ ch t, D c)
    (hlen : ∀ t, D t → (ch t).length ≤ 2)
    (hcong : ∀ t t', D t → D t' → key t = key t' → (ch t).map key = (ch t').map key)
    {S : WalkSt K} (hg : Good ch key D S) (t i : Nat) (ht : D t) (hc : Cls key S t i) :
    clsPos key S t = i ∧ ∃ o, S.outs.toList[i]? = some o ∧ key o.node = key t ∧
      writtenCh S.outs i = (ch t).map (clsPos key S) ∧
      ∀ c ∈ ch t, (∃ i', Cls key S c i') ∧ clsPos key S c < i := by
  obtain ⟨k, hk⟩ := Option.isSome_iff_exists.mp (htot t ht)
  refine ⟨clsPos_of_cls rfl (htot t ht) hc, ?_⟩
  obtain ⟨o, ho, hko⟩ := hg.seen k i (hc k hk)
  obtain ⟨hDo, hkids⟩ := hg.kids i o ho
  have hpos := hg.pos i o ho
  have hm := hcong t o.node ht hDo (by rw [hk, hko])
  have hchD := hcl o.node hDo
  have hl2 := hlen o.node hDo
  refine ⟨o, ho, by rw [hk, hko], ?_⟩
  have hw : writtenCh S.outs i = kidsList o := by
    unfold writtenCh
    rw [← Array.getElem?_toList, ho]
  rw [hw]
  unfold KidsOK at hkids
  match hco : ch o.node with
  | [] =>
    rw [hco] at hkids hm
    have : ch t = [] := by simpa using hm
    rw [this]
    exact ⟨by simp [kidsList, hkids.1, hkids.2], by intro c hc'; cases hc'⟩
  | [l] =>
    rw [hco] at hkids hm hchD
    obtain ⟨hr, i', hli, hlt, hcls⟩ := hkids
    obtain ⟨l', hl', hkl⟩ : ∃ l', ch t = [l'] ∧ key l' = key l := by
      match hct : ch t with
      | [] => rw [hct] at hm; simp at hm
      | [l'] => rw [hct] at hm; exact ⟨l', rfl, by simpa using hm⟩
      | _ :: _ :: _ => rw [hct] at hm; simp at hm
    rw [hl']
    have hp := clsPos_of_cls hkl (htot l (hchD l (by simp))) hcls
    refine ⟨by simp [kidsList, hli, hr, hp], ?_⟩
    intro c hc'
    simp only [List.mem_singleton] at hc'
    subst hc'
    exact ⟨⟨i', cls_of_key_eq hkl hcls⟩, by omega⟩
  | l :: r :: rest =>
    rw [hco] at hkids hm hchD hl2
    have hrest : rest = [] := by
      cases rest with
      | nil => rfl
      | cons _ _ => simp at hl2
    subst hrest
    obtain ⟨i', j', hli, hri, hlt, hrt, hcl', hcr'⟩ := hkids
    obtain ⟨l', r', hl', hkl, hkr⟩ : ∃ l' r', ch t = [l', r'] ∧ key l' = key l ∧ key r' = key r := by
      match hct : ch t with
      | [] => rw [hct] at hm; simp at hm
      | [_] => rw [hct] at hm; simp at hm
      | [l', r'] => rw [hct] at hm; simp at hm; exact ⟨l', r', rfl, hm.1, hm.2⟩
      | _ :: _ :: _ :: _ => rw [hct] at hm; simp at hm
    rw [hl']
    have hp1 := clsPos_of_cls hkl (htot l (hchD l (by simp))) hcl'
    have hp2 := clsPos_of_cls hkr (htot r (hchD r (by simp))) hcr'
    refine ⟨by simp [kidsList, hli, hri, hp1, hp2], ?_⟩
    intro c hc'
    simp only [List.mem_cons, List.not_mem_nil, or_false] at hc'
    rcases hc' with rfl | rfl
    · exact ⟨⟨i', cls_of_key_eq hkl hcl'⟩, by omega⟩
    · exact ⟨⟨j', cls_of_key_eq hkr hcr'⟩, by omega⟩

/-- **the written DAG is in canonical order** -/
theorem walk_self_canonical (htot : ∀ t, D t → (key t).isSome) (hcl : ∀ t, D t → ∀ c ∈ ch t, D c)
    (hlen : ∀ t, D t → (ch t).length ≤ 2) (hrk : ∀ t, D t → ∀ c ∈ ch t, rk c < rk t)
    (hcong : ∀ t t', D t → D t' → key t = key t' → (ch t).map key = (ch t').map key)
    (f root : Nat) (hroot : D root) (hf : rk root < f) :
    let S := (walk ch key f root ⟨#[], [], 0⟩).1
    0 < S.outs.size ∧ Good ch key D S ∧ clsPos key S root = S.outs.size - 1 ∧
    (walk (writtenCh S.outs) (fun i => some i) (S.outs.size + 1) (S.outs.size - 1) ⟨#[], [], 0⟩).1.outs.toList =
      S.outs.toList.map (mapNode (clsPos key S)) ∧
    ∀ (j : Nat) (o : WOut), S.outs.toList[j]? = some o → clsPos key S o.node = j ∧ o.index = j := by
  intro S
  obtain ⟨hg, hcr⟩ := walk_good htot hcl hrk f root ⟨#[], [], 0⟩ hroot hf (good_empty ch key D)
  -- the root is yielded last
  obtain ⟨f', rfl⟩ : ∃ g, f = g + 1 := ⟨f - 1, by omega⟩
  obtain ⟨pre, last, hO, hlast, _⟩ := walk_root_last ch key (fun x => D x ∧ DescP ch root x)
    (fun t ht c hc => ⟨hcl t ht.1 c hc, ht.2.trans (.child hc)⟩) f' root
    (fun c hc => ⟨hcl root hroot c hc, .child hc⟩)
    (fun x hx k hk e => key_ne_desc hcl hrk hcong (rk root + 1) root x (by omega) hroot hx.2 (by rw [hk, e]))
  have hsz : S.outs.size = pre.length + 1 := by
    have := congrArg List.length hO
    simpa using this
  have hlastget : S.outs.toList[S.outs.size - 1]? = some last := by
    rw [hO, hsz]
    simp
  obtain ⟨kr, hkr⟩ := Option.isSome_iff_exists.mp (htot root hroot)
  have hrootcls : Cls key S root (S.outs.size - 1) := by
    intro k hk
    exact hg.item _ last hlastget k (by rw [hlast]; exact hk)
  have hrootpos : clsPos key S root = S.outs.size - 1 := clsPos_of_cls rfl (htot root hroot) hrootcls
  have items : ∀ (j : Nat) (o : WOut), S.outs.toList[j]? = some o → clsPos key S o.node = j ∧ o.index = j := by
    intro j o ho
    have hDo := (hg.kids j o ho).1
    refine ⟨clsPos_of_cls rfl (htot _ hDo) (fun k hk => hg.item j o ho k hk), hg.pos j o ho⟩
  refine ⟨by omega, hg, hrootpos, ?_, items⟩
  -- simulation of the pointer walk over the written DAG by the key walk
  have H : SimHyp (clsPos key S) (fun t => D t ∧ ∃ i, Cls key S t i) (writtenCh S.outs) ch
      (fun i => some i) key (fun i => i) rk := {
    ch := fun t ht => by
      obtain ⟨i, hi⟩ := ht.2
      obtain ⟨hp, o, _, _, hw, _⟩ := rep_children htot hcl hlen hcong hg t i ht.1 hi
      rw [hp]; exact hw
    closed := fun t ht c hc => by
      obtain ⟨i, hi⟩ := ht.2
      obtain ⟨_, o, _, _, _, hkids⟩ := rep_children htot hcl hlen hcong hg t i ht.1 hi
      exact ⟨hcl t ht.1 c hc, (hkids c hc).1⟩
    isSome := fun t ht => by rw [htot t ht.1]; rfl
    inj := by
      intro t t' ht ht' k1 k1' k2 k2' h1 h1' h2 h2'
      cases h1; cases h1'
      obtain ⟨i, hi⟩ := ht.2
      obtain ⟨i', hi'⟩ := ht'.2
      obtain ⟨hp, o, ho, hko, _, _⟩ := rep_children htot hcl hlen hcong hg t i ht.1 hi
      obtain ⟨hp', o', ho', hko', _, _⟩ := rep_children htot hcl hlen hcong hg t' i' ht'.1 hi'
      rw [hp, hp']
      constructor
      · intro e
        subst e
        rw [ho] at ho'; cases ho'
        rw [hko, h2] at hko'
        rw [h2'] at hko'
        cases hko'; rfl
      · intro e
        subst e
        have a := hi k2 h2
        have b := hi' k2 h2'
        rw [a] at b; cases b; rfl
    rk1 := fun t ht c hc => by
      obtain ⟨i, hi⟩ := ht.2
      obtain ⟨hp, o, _, _, _, hkids⟩ := rep_children htot hcl hlen hcong hg t i ht.1 hi
      rw [hp]; exact (hkids c hc).2
    rk2 := fun t ht c hc => hrk t ht.1 c hc }
  have hsim := walk_sim H (f' + 1) (S.outs.size + 1) root ⟨#[], [], 0⟩ ⟨#[], [], 0⟩
    ⟨hroot, _, hrootcls⟩ (by rw [hrootpos]; omega) hf
    ⟨by simp, rfl, by simp, by intro t _ k1 k2 _ _; rfl⟩
  rw [hrootpos] at hsim
  exact hsim.1.outs

#print axioms walk_self_canonical
end

end Prog
