/-
The state of a single run of the index walk `Prog.walk` under a *total* sharing key (C01, encoder
side): items are numbered by position, the tracker maps exactly the keys of the yielded nodes to
their positions, and every item records, for each child, the (earlier) position at which the child's
sharing class was yielded.
-/
import SimplicityModel.Prog.WalkExt

namespace Prog

variable {K : Type} [DecidableEq K]

/-- `i` is the position of the class of node `c` -/
def Cls (key : Nat → Option K) (s : WalkSt K) (c i : Nat) : Prop :=
  ∀ k, key c = some k → seenLook s.seen k = some i

/-- the recorded child indices of an item are the positions of the classes of its children -/
def KidsOK (ch : Nat → List Nat) (key : Nat → Option K) (s : WalkSt K) (o : WOut) : Prop :=
  match ch o.node with
  | [] => o.lidx = none ∧ o.ridx = none
  | [l] => o.ridx = none ∧ ∃ i, o.lidx = some i ∧ i < o.index ∧ Cls key s l i
  | l :: r :: _ => ∃ i j, o.lidx = some i ∧ o.ridx = some j ∧ i < o.index ∧ j < o.index ∧
      Cls key s l i ∧ Cls key s r j

structure Good (ch : Nat → List Nat) (key : Nat → Option K) (D : Nat → Prop) (s : WalkSt K) : Prop where
  idx : s.idx = s.outs.size
  pos : ∀ (j : Nat) (o : WOut), s.outs.toList[j]? = some o → o.index = j
  seen : ∀ (k : K) (i : Nat), seenLook s.seen k = some i →
    ∃ o, s.outs.toList[i]? = some o ∧ key o.node = some k
  item : ∀ (j : Nat) (o : WOut), s.outs.toList[j]? = some o → ∀ k, key o.node = some k →
    seenLook s.seen k = some j
  kids : ∀ (j : Nat) (o : WOut), s.outs.toList[j]? = some o → D o.node ∧ KidsOK ch key s o

theorem good_empty (ch : Nat → List Nat) (key : Nat → Option K) (D : Nat → Prop) :
    Good ch key D ⟨#[], [], 0⟩ :=
  ⟨rfl, (by intro j o h; simp at h), (by intro k i h; cases h), (by intro j o h; simp at h),
    (by intro j o h; simp at h)⟩

theorem Cls.mono {key : Nat → Option K} {s s' : WalkSt K} {c i : Nat}
    (hm : ∀ k i, seenLook s.seen k = some i → seenLook s'.seen k = some i) (h : Cls key s c i) :
    Cls key s' c i := fun k hk => hm k i (h k hk)

theorem KidsOK.mono {ch : Nat → List Nat} {key : Nat → Option K} {s s' : WalkSt K} {o : WOut}
    (hm : ∀ k i, seenLook s.seen k = some i → seenLook s'.seen k = some i) (h : KidsOK ch key s o) :
    KidsOK ch key s' o := by
  unfold KidsOK at h ⊢
  split at h
  · exact h
  · obtain ⟨h1, i, h2, h3, h4⟩ := h
    exact ⟨h1, i, h2, h3, h4.mono hm⟩
  · obtain ⟨i, j, h1, h2, h3, h4, h5, h6⟩ := h
    exact ⟨i, j, h1, h2, h3, h4, h5.mono hm, h6.mono hm⟩

/-- a class position is the position of an item -/
theorem Good.cls_lt {ch : Nat → List Nat} {key : Nat → Option K} {D : Nat → Prop} {s : WalkSt K}
    (h : Good ch key D s) {c i : Nat} (hk : (key c).isSome) (hc : Cls key s c i) : i < s.outs.size := by
  obtain ⟨k, hk⟩ := Option.isSome_iff_exists.mp hk
  obtain ⟨o, ho, _⟩ := h.seen k i (hc k hk)
  rcases Nat.lt_or_ge i s.outs.toList.length with h' | h'
  · simpa using h'
  · rw [List.getElem?_eq_none h'] at ho; cases ho

/-- what the final step needs to know about the child indices it is given -/
def KidsArg (ch : Nat → List Nat) (key : Nat → Option K) (s : WalkSt K) (t : Nat) (li ri : Option Nat) : Prop :=
  match ch t with
  | [] => li = none ∧ ri = none
  | [l] => ri = none ∧ ∃ i, li = some i ∧ Cls key s l i
  | l :: r :: _ => ∃ i j, li = some i ∧ ri = some j ∧ Cls key s l i ∧ Cls key s r j

/-- the final step keeps the state good and returns the position of the node's class -/
theorem good_fin {ch : Nat → List Nat} {key : Nat → Option K} {D : Nat → Prop}
    (htot : ∀ t, D t → (key t).isSome) (hcl : ∀ t, D t → ∀ c ∈ ch t, D c)
    {s : WalkSt K} (h : Good ch key D s) (t : Nat) (ht : D t) (li ri : Option Nat)
    (hk : KidsArg ch key s t li ri) :
    Good ch key D (walkFin key t li ri s).1 ∧ Cls key (walkFin key t li ri s).1 t (walkFin key t li ri s).2 := by
  obtain ⟨k, hkt⟩ := Option.isSome_iff_exists.mp (htot t ht)
  unfold walkFin
  rw [hkt]
  simp only []
  cases hs : seenLook s.seen k with
  | some i =>
    refine ⟨h, ?_⟩
    intro k' hk'
    rw [hkt] at hk'; cases hk'; exact hs
  | none =>
    simp only []
    have hm : ∀ k' i, seenLook s.seen k' = some i → seenLook ((k, s.idx) :: s.seen) k' = some i := by
      intro k' i hi
      rw [seenLook_cons]
      by_cases e : k' = k
      · subst e; rw [hs] at hi; cases hi
      · rw [if_neg e]; exact hi
    have hsz : s.outs.toList.length = s.idx := by simp [h.idx]
    have getp : ∀ (j : Nat) (o : WOut), (s.outs.push ⟨t, s.idx, li, ri⟩).toList[j]? = some o →
        s.outs.toList[j]? = some o ∨ (j = s.idx ∧ o = ⟨t, s.idx, li, ri⟩) := by
      intro j o ho
      simp only [Array.toList_push] at ho
      rcases Nat.lt_or_ge j s.outs.toList.length with hj | hj
      · rw [List.getElem?_append_left hj] at ho; exact .inl ho
      · rw [List.getElem?_append_right hj] at ho
        have : j - s.outs.toList.length = 0 := by
          rcases Nat.eq_zero_or_pos (j - s.outs.toList.length) with h0 | h0
          · exact h0
          · rw [List.getElem?_eq_none (by simp only [List.length_cons, List.length_nil]; omega)] at ho; cases ho
        rw [this] at ho
        simp only [List.getElem?_cons_zero, Option.some.injEq] at ho
        exact .inr ⟨by omega, ho.symm⟩
    have getold : ∀ (j : Nat) (o : WOut), s.outs.toList[j]? = some o →
        (s.outs.push ⟨t, s.idx, li, ri⟩).toList[j]? = some o := by
      intro j o ho
      simp only [Array.toList_push]
      have hj : j < s.outs.toList.length := by
        rcases Nat.lt_or_ge j s.outs.toList.length with h' | h'
        · exact h'
        · rw [List.getElem?_eq_none h'] at ho; cases ho
      rw [List.getElem?_append_left hj]; exact ho
    have getnew : (s.outs.push ⟨t, s.idx, li, ri⟩).toList[s.idx]? = some ⟨t, s.idx, li, ri⟩ := by
      simp only [Array.toList_push]
      rw [List.getElem?_append_right (by omega)]
      simp [hsz]
    refine ⟨⟨by simp [h.idx], ?_, ?_, ?_, ?_⟩, ?_⟩
    · intro j o ho
      rcases getp j o ho with ho | ⟨rfl, rfl⟩
      · exact h.pos j o ho
      · rfl
    · intro k' i hi
      rw [seenLook_cons] at hi
      by_cases e : k' = k
      · subst e
        rw [if_pos rfl] at hi
        cases hi
        exact ⟨_, getnew, hkt⟩
      · rw [if_neg e] at hi
        obtain ⟨o, ho, hko⟩ := h.seen k' i hi
        exact ⟨o, getold i o ho, hko⟩
    · intro j o ho k' hk'
      rcases getp j o ho with ho | ⟨rfl, rfl⟩
      · exact hm k' j (h.item j o ho k' hk')
      · simp only at hk'
        rw [hkt] at hk'; cases hk'
        simp [seenLook_cons]
    · intro j o ho
      rcases getp j o ho with ho | ⟨rfl, rfl⟩
      · exact ⟨(h.kids j o ho).1, (h.kids j o ho).2.mono hm⟩
      · refine ⟨ht, ?_⟩
        unfold KidsOK
        unfold KidsArg at hk
        simp only
        have hchD := hcl t ht
        split
        · next e => rw [e] at hk; exact hk
        · next l e =>
          rw [e] at hk hchD
          obtain ⟨h1, i, h2, h3⟩ := hk
          have := h.cls_lt (htot l (hchD l (by simp))) h3
          have := h.idx
          exact ⟨h1, i, h2, by omega, h3.mono hm⟩
        · next l r rest e =>
          rw [e] at hk hchD
          obtain ⟨i, j, h1, h2, h3, h4⟩ := hk
          have hi := h.cls_lt (htot l (hchD l (by simp))) h3
          have hj := h.cls_lt (htot r (hchD r (by simp))) h4
          have := h.idx
          exact ⟨i, j, h1, h2, by omega, by omega, h3.mono hm, h4.mono hm⟩
    · intro k' hk'
      rw [hkt] at hk'; cases hk'
      simp [seenLook_cons]

theorem kidsArg_nil {ch : Nat → List Nat} {key : Nat → Option K} {s : WalkSt K} {t : Nat}
    (hc : ch t = []) : KidsArg ch key s t none none := by
  unfold KidsArg; rw [hc]; exact ⟨rfl, rfl⟩

theorem kidsArg_one {ch : Nat → List Nat} {key : Nat → Option K} {s : WalkSt K} {t l i : Nat}
    (hc : ch t = [l]) (h : Cls key s l i) : KidsArg ch key s t (some i) none := by
  unfold KidsArg; rw [hc]; exact ⟨rfl, i, rfl, h⟩

theorem kidsArg_two {ch : Nat → List Nat} {key : Nat → Option K} {s : WalkSt K} {t l r i j : Nat}
    {rest : List Nat} (hc : ch t = l :: r :: rest) (h1 : Cls key s l i) (h2 : Cls key s r j) :
    KidsArg ch key s t (some i) (some j) := by
  unfold KidsArg; rw [hc]; exact ⟨i, j, rfl, rfl, h1, h2⟩

theorem before_cls {key : Nat → Option K} {s : WalkSt K} {c i : Nat}
    (h : walkBefore key c s = some i) : Cls key s c i := by
  intro k hk
  unfold walkBefore at h
  rw [hk] at h
  exact h

/-- **a walk under a total key keeps the state good** and returns the position of the class of its
node -/
theorem walk_good {ch : Nat → List Nat} {key : Nat → Option K} {D : Nat → Prop} {rk : Nat → Nat}
    (htot : ∀ t, D t → (key t).isSome) (hcl : ∀ t, D t → ∀ c ∈ ch t, D c)
    (hrk : ∀ t, D t → ∀ c ∈ ch t, rk c < rk t) :
    ∀ (f t : Nat) (st : WalkSt K), D t → rk t < f → Good ch key D st →
      Good ch key D (walk ch key f t st).1 ∧ Cls key (walk ch key f t st).1 t (walk ch key f t st).2 := by
  intro f
  induction f with
  | zero => intro t st _ h; omega
  | succ f ih =>
    intro t st ht hf h
    have hD := hcl t ht
    have hR := hrk t ht
    have mono : ∀ (c : Nat) (s : WalkSt K), D c → ∀ k i, seenLook s.seen k = some i →
        seenLook (walk ch key f c s).1.seen k = some i :=
      fun c s hc => (walk_ext ch key D hcl f c s hc).mono
    rw [walk_succ]
    match hc : ch t with
    | [] => exact good_fin htot hcl h t ht none none (kidsArg_nil hc)
    | [l] =>
      rw [hc] at hD hR
      have hl := hD l (by simp)
      simp only []
      cases hb : walkBefore key l st with
      | some i => exact good_fin htot hcl h t ht _ _ (kidsArg_one hc (before_cls hb))
      | none =>
        simp only []
        obtain ⟨g1, c1⟩ := ih l st hl (by have := hR l (by simp); omega) h
        exact good_fin htot hcl g1 t ht _ _ (kidsArg_one hc c1)
    | l :: r :: rest =>
      rw [hc] at hD hR
      have hl := hD l (by simp)
      have hr := hD r (by simp)
      have hl' := hR l (by simp)
      have hr' := hR r (by simp)
      simp only []
      cases hbl : walkBefore key l st with
      | some li =>
        cases hbr : walkBefore key r st with
        | some ri => exact good_fin htot hcl h t ht _ _ (kidsArg_two hc (before_cls hbl) (before_cls hbr))
        | none =>
          simp only []
          obtain ⟨g1, c1⟩ := ih r st hr (by omega) h
          exact good_fin htot hcl g1 t ht _ _ (kidsArg_two hc ((before_cls hbl).mono (mono r st hr)) c1)
      | none =>
        cases hbr : walkBefore key r st with
        | some ri =>
          simp only []
          obtain ⟨g1, c1⟩ := ih l st hl (by omega) h
          exact good_fin htot hcl g1 t ht _ _ (kidsArg_two hc c1 ((before_cls hbr).mono (mono l st hl)))
        | none =>
          simp only []
          obtain ⟨g1, c1⟩ := ih l st hl (by omega) h
          obtain ⟨g2, c2⟩ := ih r _ hr (by omega) g1
          exact good_fin htot hcl g2 t ht _ _ (kidsArg_two hc (c1.mono (mono r _ hr)) c2)

#print axioms walk_good

end Prog
