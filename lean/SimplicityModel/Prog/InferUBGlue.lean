/-
Gluing the per-node tie (`InferUBTie.lean`) over a whole plan: the equations of a run of `inferUB`
(`ubEqns`, any construction order) and the constraint set of the specification (`Prog.constraints`)
have the same solutions on the arrows of the nodes.
-/
import SimplicityModel.Prog.InferUBTie

set_option linter.unusedSimpArgs false
set_option linter.unusedVariables false

namespace Prog
open UB Inf

/-- variables of an equation -/
def eqVar (e : Eqn) (v : Nat) : Prop := e.1.occurs v = true ∨ e.2.occurs v = true

theorem sol_congr {ρ ρ' : Nat → Inf.Ty} {E : List Eqn}
    (h : ∀ e ∈ E, ∀ v, eqVar e v → ρ v = ρ' v) : Sol ρ E ↔ Sol ρ' E := by
  have key : ∀ e ∈ E, (e.1.eval ρ = e.2.eval ρ ↔ e.1.eval ρ' = e.2.eval ρ') := by
    intro e he
    rw [eval_congr e.1 (fun y hy => h e he y (.inl hy)), eval_congr e.2 (fun y hy => h e he y (.inr hy))]
  exact ⟨fun s e he => (key e he).1 (s e he), fun s e he => (key e he).2 (s e he)⟩

/-- the operations of a node only mention the children's arrow elements and the new elements -/
theorem nodeOps_vars (jt : JetTypes) (nd : Node) (k : Nat) (arrow : Nat → Option ElemArrow)
    (ops : List Op) (ar : ElemArrow) (hops : nodeOps jt arrow k nd = some (ops, ar))
    (hch : ∀ c s t, arrow c = some (s, t) → c ∈ nd.children → s < k ∧ t < k) :
    k ≤ opsCount k ops ∧ ar.1 < opsCount k ops ∧ ar.2 < opsCount k ops ∧
    ∀ e ∈ opsEqns k ops, ∀ v, eqVar e v → v < opsCount k ops := by
  have one : ∀ c, c ∈ nd.children → ∀ (P : Nat → Nat → Prop), (∀ s t, s < k → t < k → P s t) →
      ∀ a, arrow c = some a → P a.1 a.2 := fun c hc P hP a ha => by
    obtain ⟨s, t⟩ := a
    exact hP s t (hch c s t ha hc).1 (hch c s t ha hc).2
  cases nd with
  | iden | unit | witness | fail _ | hidden _ | word _ _ =>
    simp only [nodeOps, Option.some.injEq, Prod.mk.injEq] at hops
    obtain ⟨rfl, rfl⟩ := hops
    simp [opsEqns, opEqn, opsCount, eqVar, Tm.occurs, tmOfInf_occurs]
    try (repeat' refine And.intro ?_ ?_)
    all_goals (intros; omega)
  | jet name =>
    simp only [nodeOps] at hops
    cases hj : jt name with
    | none => simp [hj] at hops
    | some st =>
      obtain ⟨s, t⟩ := st
      simp only [hj, Option.map_some, Option.some.injEq, Prod.mk.injEq] at hops
      obtain ⟨rfl, rfl⟩ := hops
      simp [opsEqns, opEqn, opsCount, eqVar, Tm.occurs, tmOfInf_occurs]
      try (repeat' refine And.intro ?_ ?_)
      all_goals (intros; omega)
  | injl c | injr c | take c | drop c | assertl c _ | assertr _ c =>
    simp only [nodeOps, Bind.bind, Option.bind] at hops
    cases harr : arrow c with
    | none => simp [harr] at hops
    | some aa =>
      obtain ⟨cs, ct⟩ := aa
      obtain ⟨hcs, hct⟩ := hch c cs ct harr (by simp [Node.children])
      simp [harr, forCaseOps, forDisconnectOps] at hops
      obtain ⟨rfl, rfl⟩ := hops
      simp [opsEqns, opEqn, opsCount, eqVar, Tm.occurs, tmOfInf_occurs, Nat.add_assoc]
      repeat' refine And.intro ?_ ?_
      all_goals (intros; omega)
  | comp a b | pair a b | case a b =>
    simp only [nodeOps, Bind.bind, Option.bind] at hops
    cases harr : arrow a with
    | none => simp [harr] at hops
    | some aa =>
      obtain ⟨as, at'⟩ := aa
      cases hbrr : arrow b with
      | none => simp [harr, hbrr] at hops
      | some bb =>
        obtain ⟨bs, bt⟩ := bb
        obtain ⟨has, hat⟩ := hch a as at' harr (by simp [Node.children])
        obtain ⟨hbs, hbt⟩ := hch b bs bt hbrr (by simp [Node.children])
        simp [harr, hbrr, forCaseOps, forDisconnectOps] at hops
        obtain ⟨rfl, rfl⟩ := hops
        simp [opsEqns, opEqn, opsCount, eqVar, Tm.occurs, tmOfInf_occurs, Nat.add_assoc]
        repeat' refine And.intro ?_ ?_
        all_goals (intros; omega)
  | disconnect a ob =>
    cases ob with
    | none =>
      simp only [nodeOps, Bind.bind, Option.bind] at hops
      cases harr : arrow a with
      | none => simp [harr] at hops
      | some aa =>
        obtain ⟨cs, ct⟩ := aa
        obtain ⟨hcs, hct⟩ := hch a cs ct harr (by simp [Node.children])
        simp [harr, forCaseOps, forDisconnectOps] at hops
        obtain ⟨rfl, rfl⟩ := hops
        simp [opsEqns, opEqn, opsCount, eqVar, Tm.occurs, tmOfInf_occurs, Nat.add_assoc]
        repeat' refine And.intro ?_ ?_
        all_goals (intros; omega)
    | some b =>
      simp only [nodeOps, Bind.bind, Option.bind] at hops
      cases harr : arrow a with
      | none => simp [harr] at hops
      | some aa =>
        obtain ⟨as, at'⟩ := aa
        cases hbrr : arrow b with
        | none => simp [harr, hbrr] at hops
        | some bb =>
          obtain ⟨bs, bt⟩ := bb
          obtain ⟨has, hat⟩ := hch a as at' harr (by simp [Node.children])
          obtain ⟨hbs, hbt⟩ := hch b bs bt hbrr (by simp [Node.children])
          simp [harr, hbrr, forCaseOps, forDisconnectOps] at hops
          obtain ⟨rfl, rfl⟩ := hops
          simp [opsEqns, opEqn, opsCount, eqVar, Tm.occurs, tmOfInf_occurs, Nat.add_assoc]
          repeat' refine And.intro ?_ ?_
          all_goals (intros; omega)

/-- the specification equations of a node only mention the node's and its children's `src`/`tgt`
variables and the node's own fresh variables -/
theorem nodeEqns_vars (jt : JetTypes) (n i : Nat) (nd : Node) (f : Nat) (es : List Eqn) (f' : Nat)
    (h : nodeEqns jt i nd f = some (es, f')) (hi : i < n) (hch : ∀ c ∈ nd.children, c < n) :
    f ≤ f' ∧ ∀ e ∈ es, ∀ v, eqVar e v → (v < 2 * n ∨ (f ≤ v ∧ v < f')) := by
  cases nd with
  | jet name =>
    simp only [nodeEqns] at h
    cases hj : jt name with
    | none => simp [hj] at h
    | some st =>
      obtain ⟨s, t⟩ := st
      simp only [hj, Option.map_some, Option.some.injEq, Prod.mk.injEq] at h
      obtain ⟨rfl, rfl⟩ := h
      simp [eqVar, Tm.occurs, tmOfTy_occurs, src, tgt]
      repeat' refine And.intro ?_ ?_
      all_goals (intros; omega)
  | disconnect a ob =>
    cases ob with
    | none =>
      simp only [nodeEqns, Option.some.injEq, Prod.mk.injEq] at h
      obtain ⟨rfl, rfl⟩ := h
      have := hch a (by simp [Node.children])
      simp [eqVar, Tm.occurs, tmOfTy_occurs, src, tgt]
      repeat' refine And.intro ?_ ?_
      all_goals (intros; omega)
    | some b =>
      simp only [nodeEqns, Option.some.injEq, Prod.mk.injEq] at h
      obtain ⟨rfl, rfl⟩ := h
      have := hch a (by simp [Node.children])
      have := hch b (by simp [Node.children])
      simp [eqVar, Tm.occurs, tmOfTy_occurs, src, tgt]
      repeat' refine And.intro ?_ ?_
      all_goals (intros; omega)
  | iden | unit | witness | fail _ | hidden _ | word _ _ =>
    simp only [nodeEqns, Option.some.injEq, Prod.mk.injEq] at h
    obtain ⟨rfl, rfl⟩ := h
    simp [eqVar, Tm.occurs, tmOfTy_occurs, src, tgt]
    try (repeat' refine And.intro ?_ ?_)
    all_goals (intros; omega)
  | injl c | injr c | take c | drop c | assertl c _ | assertr _ c =>
    simp only [nodeEqns, Option.some.injEq, Prod.mk.injEq] at h
    obtain ⟨rfl, rfl⟩ := h
    have := hch c (by simp [Node.children])
    simp [eqVar, Tm.occurs, tmOfTy_occurs, src, tgt]
    repeat' refine And.intro ?_ ?_
    all_goals (intros; omega)
  | comp a b | pair a b | case a b =>
    simp only [nodeEqns, Option.some.injEq, Prod.mk.injEq] at h
    obtain ⟨rfl, rfl⟩ := h
    have := hch a (by simp [Node.children])
    have := hch b (by simp [Node.children])
    simp [eqVar, Tm.occurs, tmOfTy_occurs, src, tgt]
    repeat' refine And.intro ?_ ?_
    all_goals (intros; omega)

/-! ### the union-bound side, along the construction order -/

theorem join_set (arrows : Array (Option ElemArrow)) (i : Nat) (ar : ElemArrow) (j : Nat) :
    ((arrows.setIfInBounds i (some ar))[j]?).join =
      if i = j ∧ i < arrows.size then some ar else (arrows[j]?).join := by
  rw [Array.getElem?_setIfInBounds]
  by_cases h : i = j
  · subst h
    by_cases h2 : i < arrows.size
    · simp [h2]
    · simp [h2, Array.getElem?_eq_none (Nat.le_of_not_lt h2)]
  · simp [h]

theorem lt_size_of_join {arrows : Array (Option ElemArrow)} {j : Nat} {a : ElemArrow}
    (h : (arrows[j]?).join = some a) : j < arrows.size := by
  rcases Nat.lt_or_ge j arrows.size with h' | h'
  · exact h'
  · rw [Array.getElem?_eq_none h'] at h; cases h

/-- arrows that satisfy every node's rule extend to a solution of the run's equations -/
theorem ub_glue (jt : JetTypes) (p : Plan) (σ : Nat → Inf.Ty × Inf.Ty) (fbase : Nat → Nat)
    (hfb : ∀ i, 2 * p.size ≤ fbase i)
    (hrules : ∀ i nd, p[i]? = some nd → NodeRule jt p.size i nd (fbase i) σ) :
    ∀ (order : List Nat) (arrows : Array (Option ElemArrow)) (k : Nat) (E : List Eqn)
      (arrows' : Array (Option ElemArrow)) (k' : Nat),
      constructEqns jt p arrows k order = some (E, arrows', k') → arrows.size = p.size →
      (∀ (j : Nat) s t, (arrows[j]?).join = some (s, t) → s < k ∧ t < k) →
      ∀ ρ₀ : Nat → Inf.Ty, (∀ (j : Nat) s t, (arrows[j]?).join = some (s, t) → σ j = (ρ₀ s, ρ₀ t)) →
      ∃ ρ : Nat → Inf.Ty, (∀ x, x < k → ρ x = ρ₀ x) ∧ Sol ρ E ∧ k ≤ k' ∧ arrows'.size = p.size ∧
        (∀ e ∈ E, ∀ v, eqVar e v → v < k') ∧
        (∀ (j : Nat) s t, (arrows'[j]?).join = some (s, t) → s < k' ∧ t < k' ∧ σ j = (ρ s, ρ t))
  | [], arrows, k, E, arrows', k', h, hsz, hinv, ρ₀, hag => by
    simp only [constructEqns, Option.some.injEq, Prod.mk.injEq] at h
    obtain ⟨rfl, rfl, rfl⟩ := h
    exact ⟨ρ₀, fun _ _ => rfl, sol_nil _, Nat.le_refl _, hsz, (fun e he => by cases he),
      fun j s t hj => ⟨(hinv j s t hj).1, (hinv j s t hj).2, hag j s t hj⟩⟩
  | i :: rest, arrows, k, E, arrows', k', h, hsz, hinv, ρ₀, hag => by
    unfold constructEqns at h
    split at h
    · cases h
    · next nd hnd =>
      split at h
      · cases h
      · next ops ar hops =>
        split at h
        · cases h
        · next E' arrows'' k'' hrest =>
          simp only [Option.some.injEq, Prod.mk.injEq] at h
          obtain ⟨rfl, rfl, rfl⟩ := h
          have hi : i < p.size := by
            rcases Nat.lt_or_ge i p.size with h' | h'
            · exact h'
            · rw [Array.getElem?_eq_none h'] at hnd; cases hnd
          have hchk : ∀ (c : Nat) s t, (arrows[c]?).join = some (s, t) → c ∈ nd.children → s < k ∧ t < k :=
            fun c s t hc _ => hinv c s t hc
          obtain ⟨hk1, har1, har2, hvars⟩ := nodeOps_vars jt nd k _ ops ar hops hchk
          obtain ⟨ρ₁, hold, hsol1, hown⟩ := node_rule_to_ub jt p.size i nd (fbase i) σ k _ ops ar ρ₀
            (hfb i) hi (hrules i nd hnd) hops
            (fun c s t hc _ => ⟨hsz ▸ lt_size_of_join hc, (hinv c s t hc).1, (hinv c s t hc).2, hag c s t hc⟩)
          have hsz1 : (arrows.setIfInBounds i (some ar)).size = p.size := by simp [hsz]
          have hinv1 : ∀ (j : Nat) s t, ((arrows.setIfInBounds i (some ar))[j]?).join = some (s, t) →
              s < opsCount k ops ∧ t < opsCount k ops := by
            intro j s t hj
            rw [join_set] at hj
            split at hj
            · cases hj; exact ⟨har1, har2⟩
            · have := hinv j s t hj; omega
          have hag1 : ∀ (j : Nat) s t, ((arrows.setIfInBounds i (some ar))[j]?).join = some (s, t) →
              σ j = (ρ₁ s, ρ₁ t) := by
            intro j s t hj
            rw [join_set] at hj
            split at hj
            · next hij => cases hj; rw [← hij.1]; exact hown
            · have := hinv j s t hj
              rw [hold s this.1, hold t this.2]; exact hag j s t hj
          obtain ⟨ρ, hρ1, hsolE, hkk, hsz', hvE, hfin⟩ :=
            ub_glue jt p σ fbase hfb hrules rest _ _ E' arrows'' k'' hrest hsz1 hinv1 ρ₁ hag1
          refine ⟨ρ, fun x hx => (hρ1 x (by omega)).trans (hold x hx), ?_, by omega, hsz', ?_, hfin⟩
          · rw [sol_append]
            refine ⟨(sol_congr (fun e he v hv => ?_)).2 hsol1, hsolE⟩
            exact hρ1 v (hvars e he v hv)
          · intro e he v hv
            rw [List.mem_append] at he
            rcases he with he | he
            · have := hvars e he v hv; omega
            · exact hvE e he v hv

theorem nodeOps_children (jt : JetTypes) (nd : Node) (k : Nat) (arrow : Nat → Option ElemArrow)
    (r : List Op × ElemArrow) (hops : nodeOps jt arrow k nd = some r) :
    ∀ c ∈ nd.children, arrow c ≠ none := by
  intro c hc hnone
  cases nd with
  | iden | unit | witness | fail _ | hidden _ | word _ _ | jet _ => simp [Node.children] at hc
  | injl a | injr a | take a | drop a | assertl a _ | assertr _ a =>
    simp [Node.children] at hc; subst hc
    simp [nodeOps, hnone, Bind.bind, Option.bind] at hops
  | comp a b | pair a b | case a b =>
    simp [Node.children] at hc
    rcases hc with rfl | rfl
    · simp [nodeOps, hnone, Bind.bind, Option.bind] at hops
    · cases ha : arrow a <;> simp [nodeOps, hnone, ha, Bind.bind, Option.bind] at hops
  | disconnect a ob =>
    cases ob with
    | none =>
      simp [Node.children] at hc; subst hc
      simp [nodeOps, hnone, Bind.bind, Option.bind] at hops
    | some b =>
      simp [Node.children] at hc
      rcases hc with rfl | rfl
      · simp [nodeOps, hnone, Bind.bind, Option.bind] at hops
      · cases ha : arrow a <;> simp [nodeOps, hnone, ha, Bind.bind, Option.bind] at hops

/-- a solution of the run's equations gives arrows that satisfy every constructed node's rule -/
theorem ub_rules (jt : JetTypes) (p : Plan) (ρ : Nat → Inf.Ty) :
    ∀ (order : List Nat) (arrows : Array (Option ElemArrow)) (k : Nat) (E : List Eqn)
      (arrows' : Array (Option ElemArrow)) (k' : Nat),
      constructEqns jt p arrows k order = some (E, arrows', k') → order.Nodup →
      (∀ (j : Nat), j ∈ order → (arrows[j]?).join = none) → arrows.size = p.size → Sol ρ E →
      arrows'.size = p.size ∧ (∀ (j : Nat), j ∉ order → arrows'[j]? = arrows[j]?) ∧
      ∀ i ∈ order, ∃ nd, p[i]? = some nd ∧ (arrows'[i]?).join ≠ none ∧ (∀ c ∈ nd.children, c < p.size) ∧
        ∀ f σ, 2 * p.size ≤ f → (∀ (j : Nat) s t, (arrows'[j]?).join = some (s, t) → σ j = (ρ s, ρ t)) →
          NodeRule jt p.size i nd f σ
  | [], arrows, k, E, arrows', k', h, _, _, hsz, _ => by
    simp only [constructEqns, Option.some.injEq, Prod.mk.injEq] at h
    obtain ⟨rfl, rfl, rfl⟩ := h
    exact ⟨hsz, fun _ _ => rfl, (fun i hi => by cases hi)⟩
  | i :: rest, arrows, k, E, arrows', k', h, hnd, hnone, hsz, hsol => by
    unfold constructEqns at h
    split at h
    · cases h
    · next nd hpnd =>
      split at h
      · cases h
      · next ops ar hops =>
        split at h
        · cases h
        · next E' arrows'' k'' hrest =>
          simp only [Option.some.injEq, Prod.mk.injEq] at h
          obtain ⟨rfl, rfl, rfl⟩ := h
          rw [sol_append] at hsol
          have hi : i < p.size := by
            rcases Nat.lt_or_ge i p.size with h' | h'
            · exact h'
            · rw [Array.getElem?_eq_none h'] at hpnd; cases hpnd
          obtain ⟨hirest, hndrest⟩ := List.nodup_cons.1 hnd
          have hsz1 : (arrows.setIfInBounds i (some ar)).size = p.size := by simp [hsz]
          have hnone1 : ∀ (j : Nat), j ∈ rest → ((arrows.setIfInBounds i (some ar))[j]?).join = none := by
            intro j hj
            rw [join_set]
            have : i ≠ j := by rintro rfl; exact hirest hj
            simp [this]
            exact hnone j (List.mem_cons_of_mem _ hj)
          obtain ⟨hsz', hframe, hrec⟩ :=
            ub_rules jt p ρ rest _ _ E' arrows'' k'' hrest hndrest hnone1 hsz1 hsol.2
          refine ⟨hsz', fun j hj => ?_, fun j hj => ?_⟩
          · simp only [List.mem_cons, not_or] at hj
            rw [hframe j hj.2, Array.getElem?_setIfInBounds, if_neg (Ne.symm hj.1)]
          · simp only [List.mem_cons] at hj
            rcases hj with rfl | hj
            · have hself : arrows''[j]? = some (some ar) := by
                rw [hframe j hirest, Array.getElem?_setIfInBounds, if_pos rfl, if_pos (hsz ▸ hi)]
              have hchildren : ∀ c ∈ nd.children, c < p.size ∧ c ∉ j :: rest := by
                intro c hc
                have hne := nodeOps_children jt nd k _ _ hops c hc
                cases hcc : (arrows[c]?).join with
                | none => exact absurd hcc hne
                | some a =>
                  refine ⟨hsz ▸ lt_size_of_join hcc, fun hmem => ?_⟩
                  rw [hnone c hmem] at hcc; cases hcc
              refine ⟨nd, hpnd, by rw [hself]; simp, fun c hc => (hchildren c hc).1, fun f σ hf hσ => ?_⟩
              refine node_ub_to_rule jt p.size j nd f σ k _ ops ar ρ hf hi hops hsol.1 ?_ ?_
              · intro c s t hc hcm
                obtain ⟨hclt, hcn⟩ := hchildren c hcm
                refine ⟨hclt, hσ c s t ?_⟩
                simp only [List.mem_cons, not_or] at hcn
                rw [hframe c hcn.2, Array.getElem?_setIfInBounds, if_neg (Ne.symm hcn.1)]
                exact hc
              · exact hσ j ar.1 ar.2 (by rw [hself]; rfl)
            · exact hrec j hj

/-! ### the specification side, along the node order -/

theorem nodeEqns_mono (jt : JetTypes) (i : Nat) (nd : Node) (f : Nat) (es : List Eqn) (f' : Nat)
    (h : nodeEqns jt i nd f = some (es, f')) : f ≤ f' := by
  cases nd with
  | jet name =>
    simp only [nodeEqns] at h
    cases hj : jt name with
    | none => simp [hj] at h
    | some st => simp [hj] at h; omega
  | disconnect a ob => cases ob <;> (simp [nodeEqns] at h; omega)
  | _ => simp [nodeEqns] at h; omega

/-- the first fresh variable of node `i` in `Prog.constraints` -/
def fb (jt : JetTypes) (p : Plan) : Nat → Nat
  | 0 => 2 * p.size
  | i+1 => match p[i]? with
    | some nd => match nodeEqns jt i nd (fb jt p i) with
      | some (_, f') => f'
      | none => fb jt p i
    | none => fb jt p i

theorem fb_step_le (jt : JetTypes) (p : Plan) (i : Nat) : fb jt p i ≤ fb jt p (i + 1) := by
  show _ ≤ (match p[i]? with
    | some nd => match nodeEqns jt i nd (fb jt p i) with
      | some (_, f') => f'
      | none => fb jt p i
    | none => fb jt p i)
  split
  · split
    · next es f' h => exact nodeEqns_mono _ _ _ _ _ _ h
    · exact Nat.le_refl _
  · exact Nat.le_refl _

theorem fb_mono (jt : JetTypes) (p : Plan) {i j : Nat} (h : i ≤ j) : fb jt p i ≤ fb jt p j := by
  induction h with
  | refl => exact Nat.le_refl _
  | step _ ih => exact Nat.le_trans ih (fb_step_le jt p _)

theorem fb_ge (jt : JetTypes) (p : Plan) (i : Nat) : 2 * p.size ≤ fb jt p i :=
  fb_mono jt p (Nat.zero_le i)

theorem fb_succ {jt : JetTypes} {p : Plan} {i : Nat} {nd : Node} {es : List Eqn} {f' : Nat}
    (hnd : p[i]? = some nd) (h : nodeEqns jt i nd (fb jt p i) = some (es, f')) :
    fb jt p (i + 1) = f' := by
  show (match p[i]? with
    | some nd => match nodeEqns jt i nd (fb jt p i) with
      | some (_, f') => f'
      | none => fb jt p i
    | none => fb jt p i) = f'
  simp [hnd, h]

theorem go_spec (jt : JetTypes) (p : Plan) : ∀ (nodes : List Node) (i f : Nat) (acc es : List Eqn),
    constraints.go jt i nodes f acc = some es →
    (∀ m nd, nodes[m]? = some nd → p[i + m]? = some nd) → f = fb jt p i →
    ∀ ρ' : Nat → Inf.Ty, Sol ρ' es ↔ (Sol ρ' acc ∧ ∀ m nd, nodes[m]? = some nd →
      ∃ es_m f', nodeEqns jt (i + m) nd (fb jt p (i + m)) = some (es_m, f') ∧ Sol ρ' es_m)
  | [], i, f, acc, es, h, _, _, ρ' => by
    simp only [constraints.go, Option.some.injEq] at h
    subst h
    exact ⟨fun s => ⟨s, fun m nd hm => by simp at hm⟩, fun s => s.1⟩
  | nd :: rest, i, f, acc, es, h, hp, hf, ρ' => by
    simp only [constraints.go, Bind.bind, Option.bind] at h
    cases hne : nodeEqns jt i nd f with
    | none => simp [hne] at h
    | some r =>
      obtain ⟨es0, f'⟩ := r
      simp only [hne] at h
      have hnd : p[i]? = some nd := by simpa using hp 0 nd rfl
      have hf' : f' = fb jt p (i + 1) := (fb_succ hnd (hf ▸ hne)).symm
      have ih := go_spec jt p rest (i + 1) f' (acc ++ es0) es h
        (fun m nd' hm => by have := hp (m + 1) nd' (by simpa using hm); rwa [Nat.add_assoc, Nat.add_comm 1 m]) hf' ρ'
      rw [ih, sol_append]
      constructor
      · rintro ⟨⟨ha, h0⟩, hrest⟩
        refine ⟨ha, fun m nd' hm => ?_⟩
        cases m with
        | zero =>
          simp at hm; subst hm
          exact ⟨es0, f', by rw [Nat.add_zero, ← hf]; exact hne, h0⟩
        | succ m =>
          have := hrest m nd' (by simpa using hm)
          rwa [Nat.add_assoc, Nat.add_comm 1 m] at this
      · rintro ⟨ha, hall⟩
        refine ⟨⟨ha, ?_⟩, fun m nd' hm => ?_⟩
        · obtain ⟨es', f'', h1, h2⟩ := hall 0 nd rfl
          rw [Nat.add_zero, ← hf, hne] at h1
          cases h1; exact h2
        · have := hall (m + 1) nd' (by simpa using hm)
          rwa [Nat.add_assoc, Nat.add_comm 1 m]

theorem constraints_spec (jt : JetTypes) (p : Plan) (program : Bool) (es : List Eqn)
    (h : constraints jt p program = some es) (ρ' : Nat → Inf.Ty) :
    Sol ρ' es ↔ ((∀ i nd, p[i]? = some nd →
        ∃ es_i f', nodeEqns jt i nd (fb jt p i) = some (es_i, f') ∧ Sol ρ' es_i) ∧
      (program = true → ρ' (2 * (p.size - 1)) = .one ∧ ρ' (2 * (p.size - 1) + 1) = .one)) := by
  unfold constraints at h
  simp only [Bind.bind, Option.bind] at h
  cases hgo : constraints.go jt 0 p.toList (2 * p.size) [] with
  | none => simp [hgo] at h
  | some es0 =>
    simp only [hgo, pure, Option.some.injEq] at h
    have key := go_spec jt p p.toList 0 (2 * p.size) [] es0 hgo
      (fun m nd hm => by simpa using hm) rfl ρ'
    have hnodes : Sol ρ' es0 ↔ (∀ i nd, p[i]? = some nd →
        ∃ es_i f', nodeEqns jt i nd (fb jt p i) = some (es_i, f') ∧ Sol ρ' es_i) := by
      rw [key]
      constructor
      · rintro ⟨_, hall⟩ i nd hi
        have := hall i nd (by simpa using hi)
        simpa using this
      · intro hall
        refine ⟨sol_nil _, fun m nd hm => ?_⟩
        have := hall m nd (by simpa using hm)
        simpa using this
    subst h
    cases program with
    | false => simp [hnodes]
    | true =>
      simp only [if_true, sol_append, hnodes, forall_const]
      simp [Sol, src, tgt, Tm.eval]

theorem agree_lt {n : Nat} {ρ' ρ'' : Nat → Inf.Ty} {σ : Nat → Inf.Ty × Inf.Ty} (h1 : Agree n ρ' σ)
    (h2 : Agree n ρ'' σ) {v : Nat} (hv : v < 2 * n) : ρ' v = ρ'' v := by
  have hj : v / 2 < n := by omega
  have : v = 2 * (v / 2) ∨ v = 2 * (v / 2) + 1 := by omega
  rcases this with h | h
  · rw [h, (h1 _ hj).1, (h2 _ hj).1]
  · rw [h, (h1 _ hj).2, (h2 _ hj).2]

/-- arrows that satisfy every node's rule extend to a solution of the whole constraint set -/
theorem ref_glue (jt : JetTypes) (p : Plan) (σ : Nat → Inf.Ty × Inf.Ty)
    (hplan : ∀ (i : Nat) (nd : Node), p[i]? = some nd → ∀ c ∈ nd.children, c < p.size)
    (hrules : ∀ (i : Nat) (nd : Node), p[i]? = some nd → NodeRule jt p.size i nd (fb jt p i) σ) :
    ∀ m, ∃ ρ' : Nat → Inf.Ty, Agree p.size ρ' σ ∧ ∀ i, i < m → ∀ nd, p[i]? = some nd →
      ∃ es f', nodeEqns jt i nd (fb jt p i) = some (es, f') ∧ Sol ρ' es
  | 0 => ⟨enc σ, fun j _ => ⟨enc_src σ j, enc_tgt σ j⟩, fun i hi => absurd hi (Nat.not_lt_zero _)⟩
  | m+1 => by
    obtain ⟨ρ', hag, hprev⟩ := ref_glue jt p σ hplan hrules m
    cases hpm : p[m]? with
    | none =>
      refine ⟨ρ', hag, fun i hi nd hnd => ?_⟩
      rcases Nat.lt_succ_iff_lt_or_eq.1 hi with h | rfl
      · exact hprev i h nd hnd
      · rw [hpm] at hnd; cases hnd
    | some ndm =>
      have hm : m < p.size := by
        rcases Nat.lt_or_ge m p.size with h' | h'
        · exact h'
        · rw [Array.getElem?_eq_none h'] at hpm; cases hpm
      obtain ⟨esm, fm', hesm, ρm, hagm, hsolm⟩ := hrules m ndm hpm
      have hfb := fb_ge jt p m
      refine ⟨fun v => if fb jt p m ≤ v ∧ v < fm' then ρm v else ρ' v, fun j hj => ?_, fun i hi nd hnd => ?_⟩
      · have h1 : ¬ (fb jt p m ≤ 2 * j ∧ 2 * j < fm') := by omega
        have h2 : ¬ (fb jt p m ≤ 2 * j + 1 ∧ 2 * j + 1 < fm') := by omega
        simp only [h1, h2, if_false]
        exact hag j hj
      · rcases Nat.lt_succ_iff_lt_or_eq.1 hi with h | rfl
        · obtain ⟨es, f', hes, hsol⟩ := hprev i h nd hnd
          have hi' : i < p.size := by omega
          obtain ⟨_, hvars⟩ := nodeEqns_vars jt p.size i nd _ es f' hes hi' (hplan i nd hnd)
          have hle : f' ≤ fb jt p m := by
            rw [← fb_succ hnd hes]; exact fb_mono jt p h
          refine ⟨es, f', hes, (sol_congr (fun e he v hv => ?_)).2 hsol⟩
          have := hvars e he v hv
          have hn : ¬ (fb jt p m ≤ v ∧ v < fm') := by omega
          simp only [hn, if_false]
        · rw [hpm] at hnd; cases hnd
          obtain ⟨_, hvars⟩ := nodeEqns_vars jt p.size i ndm _ esm fm' hesm hm (hplan i ndm hpm)
          refine ⟨esm, fm', hesm, (sol_congr (fun e he v hv => ?_)).2 hsolm⟩
          rcases hvars e he v hv with h | h
          · have hn : ¬ (fb jt p i ≤ v ∧ v < fm') := by omega
            simp only [hn, if_false]
            exact agree_lt hag hagm h
          · simp only [h, and_self, if_true]

end Prog
