/-
Simulation between two runs of the index walk `Prog.walk` (C02/C01 assembly): if a map `φ` sends
the nodes of a DAG `(ch2, key2)` to the nodes of a DAG `(ch1, key1)` so that children correspond
and two nodes have equal sharing keys on one side exactly when they have on the other, then the two
walks yield the same items (up to `φ` on the node field) with the same indices and child indices.

Used with `(ch1, key1)` = the decoder's wire DAG under pointer sharing and `(ch2, key2)` = the
encoder's DAG of the converted plan (plan nodes and hidden pseudo-nodes) under identity-root sharing.
-/
import SimplicityModel.Prog.Codec

namespace Prog

/-- the final step of `walk` at node `t` with child indices `li`, `ri` -/
def walkFin {K} [DecidableEq K] (key : Nat → Option K) (t : Nat) (li ri : Option Nat)
    (s : WalkSt K) : WalkSt K × Nat :=
  match key t with
  | none => ({ s with outs := s.outs.push ⟨t, s.idx, li, ri⟩, idx := s.idx + 1 }, s.idx)
  | some k =>
    match seenLook s.seen k with
    | some i => (s, i)
    | none => ({ outs := s.outs.push ⟨t, s.idx, li, ri⟩, seen := (k, s.idx) :: s.seen, idx := s.idx + 1 }, s.idx)

/-- the look-up of a child before descending -/
def walkBefore {K} [DecidableEq K] (key : Nat → Option K) (c : Nat) (s : WalkSt K) : Option Nat :=
  (key c).bind (seenLook s.seen)

/-- one unfolding of `walk`, with the local helpers named -/
theorem walk_succ {K} [DecidableEq K] (ch : Nat → List Nat) (key : Nat → Option K) (f t : Nat)
    (st : WalkSt K) :
    walk ch key (f+1) t st =
      match ch t with
      | [] => walkFin key t none none st
      | [l] =>
        match walkBefore key l st with
        | some i => walkFin key t (some i) none st
        | none => walkFin key t (some (walk ch key f l st).2) none (walk ch key f l st).1
      | l :: r :: _ =>
        match walkBefore key l st, walkBefore key r st with
        | some li, some ri => walkFin key t (some li) (some ri) st
        | some li, none => walkFin key t (some li) (some (walk ch key f r st).2) (walk ch key f r st).1
        | none, some ri => walkFin key t (some (walk ch key f l st).2) (some ri) (walk ch key f l st).1
        | none, none =>
          walkFin key t (some (walk ch key f l st).2)
            (some (walk ch key f r (walk ch key f l st).1).2)
            (walk ch key f r (walk ch key f l st).1).1 := by
  rfl

theorem seenLook_cons {K} [DecidableEq K] (s : SeenL K) (k k' : K) (i : Nat) :
    seenLook ((k, i) :: s) k' = if k' = k then some i else seenLook s k' := by
  unfold seenLook
  by_cases h : k = k'
  · subst h; simp
  · have h' : ¬ k' = k := fun e => h e.symm
    simp [h, h']

variable {K1 K2 : Type} [DecidableEq K1] [DecidableEq K2]

/-- what relates the two DAGs -/
structure SimHyp (φ : Nat → Nat) (D : Nat → Prop) (ch1 ch2 : Nat → List Nat)
    (key1 : Nat → Option K1) (key2 : Nat → Option K2) (rk1 rk2 : Nat → Nat) : Prop where
  ch : ∀ t, D t → ch1 (φ t) = (ch2 t).map φ
  closed : ∀ t, D t → ∀ c ∈ ch2 t, D c
  isSome : ∀ t, D t → (key1 (φ t)).isSome = (key2 t).isSome
  inj : ∀ t t', D t → D t' → ∀ k1 k1' k2 k2', key1 (φ t) = some k1 → key1 (φ t') = some k1' →
    key2 t = some k2 → key2 t' = some k2' → (k1 = k1' ↔ k2 = k2')
  rk1 : ∀ t, D t → ∀ c ∈ ch2 t, rk1 (φ c) < rk1 (φ t)
  rk2 : ∀ t, D t → ∀ c ∈ ch2 t, rk2 c < rk2 t

def mapNode (φ : Nat → Nat) (o : WOut) : WOut := { o with node := φ o.node }

/-- the two walk states agree -/
structure Sim (φ : Nat → Nat) (D : Nat → Prop) (key1 : Nat → Option K1) (key2 : Nat → Option K2)
    (s1 : WalkSt K1) (s2 : WalkSt K2) : Prop where
  outs : s1.outs.toList = s2.outs.toList.map (mapNode φ)
  idx : s1.idx = s2.idx
  dom : ∀ o ∈ s2.outs.toList, D o.node
  seen : ∀ t, D t → ∀ k1 k2, key1 (φ t) = some k1 → key2 t = some k2 →
    seenLook s1.seen k1 = seenLook s2.seen k2

theorem before_sim {φ : Nat → Nat} {D : Nat → Prop} {ch1 ch2 : Nat → List Nat}
    {key1 : Nat → Option K1} {key2 : Nat → Option K2} {rk1 rk2 : Nat → Nat}
    (H : SimHyp φ D ch1 ch2 key1 key2 rk1 rk2) {s1 : WalkSt K1} {s2 : WalkSt K2}
    (h : Sim φ D key1 key2 s1 s2) (c : Nat) (hc : D c) :
    walkBefore key1 (φ c) s1 = walkBefore key2 c s2 := by
  unfold walkBefore
  have hs := H.isSome c hc
  cases h1 : key1 (φ c) with
  | none =>
    cases h2 : key2 c with
    | none => rfl
    | some k2 => rw [h1, h2] at hs; cases hs
  | some k1 =>
    cases h2 : key2 c with
    | none => rw [h1, h2] at hs; cases hs
    | some k2 => simp only [Option.bind_some]; exact h.seen c hc k1 k2 h1 h2

theorem fin_sim {φ : Nat → Nat} {D : Nat → Prop} {ch1 ch2 : Nat → List Nat}
    {key1 : Nat → Option K1} {key2 : Nat → Option K2} {rk1 rk2 : Nat → Nat}
    (H : SimHyp φ D ch1 ch2 key1 key2 rk1 rk2) {s1 : WalkSt K1} {s2 : WalkSt K2}
    (h : Sim φ D key1 key2 s1 s2) (t : Nat) (ht : D t) (li ri : Option Nat) :
    Sim φ D key1 key2 (walkFin key1 (φ t) li ri s1).1 (walkFin key2 t li ri s2).1 ∧
      (walkFin key1 (φ t) li ri s1).2 = (walkFin key2 t li ri s2).2 := by
  unfold walkFin
  have hs := H.isSome t ht
  cases h1 : key1 (φ t) with
  | none =>
    cases h2 : key2 t with
    | some k2 => rw [h1, h2] at hs; cases hs
    | none =>
      simp only []
      refine ⟨⟨?_, by simp [h.idx], ?_, h.seen⟩, h.idx⟩
      · simp [h.outs, h.idx, mapNode]
      · intro o ho
        simp only [Array.toList_push, List.mem_append, List.mem_singleton] at ho
        rcases ho with ho | rfl
        · exact h.dom o ho
        · exact ht
  | some k1 =>
    cases h2 : key2 t with
    | none => rw [h1, h2] at hs; cases hs
    | some k2 =>
      simp only []
      rw [h.seen t ht k1 k2 h1 h2]
      cases hl : seenLook s2.seen k2 with
      | some i => exact ⟨h, rfl⟩
      | none =>
        simp only []
        refine ⟨⟨?_, by simp [h.idx], ?_, ?_⟩, h.idx⟩
        · simp [h.outs, h.idx, mapNode]
        · intro o ho
          simp only [Array.toList_push, List.mem_append, List.mem_singleton] at ho
          rcases ho with ho | rfl
          · exact h.dom o ho
          · exact ht
        · intro t' ht' k1' k2' h1' h2'
          rw [seenLook_cons, seenLook_cons, h.idx, h.seen t' ht' k1' k2' h1' h2']
          have := H.inj t' t ht' ht k1' k1 k2' k2 h1' h1 h2' h2
          by_cases e : k1' = k1
          · simp [e, this.mp e]
          · have e' : ¬ k2' = k2 := fun x => e (this.mpr x)
            simp [e, e']

/-- **simulation**: related states, related nodes, enough fuel on both sides ⇒ related results -/
theorem walk_sim {φ : Nat → Nat} {D : Nat → Prop} {ch1 ch2 : Nat → List Nat}
    {key1 : Nat → Option K1} {key2 : Nat → Option K2} {rk1 rk2 : Nat → Nat}
    (H : SimHyp φ D ch1 ch2 key1 key2 rk1 rk2) :
    ∀ (f2 f1 t : Nat) (s1 : WalkSt K1) (s2 : WalkSt K2), D t → rk1 (φ t) < f1 → rk2 t < f2 →
      Sim φ D key1 key2 s1 s2 →
      Sim φ D key1 key2 (walk ch1 key1 f1 (φ t) s1).1 (walk ch2 key2 f2 t s2).1 ∧
        (walk ch1 key1 f1 (φ t) s1).2 = (walk ch2 key2 f2 t s2).2 := by
  intro f2
  induction f2 with
  | zero => intro f1 t s1 s2 _ _ h; omega
  | succ f2 ih =>
    intro f1 t s1 s2 ht hr1 hr2 h
    obtain ⟨f1, rfl⟩ : ∃ g, f1 = g + 1 := ⟨f1 - 1, by omega⟩
    rw [walk_succ, walk_succ, H.ch t ht]
    have hcl := H.closed t ht
    have hk1 := H.rk1 t ht
    have hk2 := H.rk2 t ht
    match hc : ch2 t with
    | [] => simp only [List.map_nil]; exact fin_sim H h t ht none none
    | [l] =>
      rw [hc] at hcl hk1 hk2
      have hl : D l := hcl l (by simp)
      simp only [List.map_cons, List.map_nil]
      rw [before_sim H h l hl]
      cases walkBefore key2 l s2 with
      | some i => exact fin_sim H h t ht (some i) none
      | none =>
        simp only []
        obtain ⟨hs, hi⟩ := ih f1 l s1 s2 hl (by have := hk1 l (by simp); omega)
          (by have := hk2 l (by simp); omega) h
        rw [hi]
        exact fin_sim H hs t ht _ none
    | l :: r :: rest =>
      rw [hc] at hcl hk1 hk2
      have hl : D l := hcl l (by simp)
      have hr : D r := hcl r (by simp)
      have hl1 := hk1 l (by simp)
      have hl2 := hk2 l (by simp)
      have hr1' := hk1 r (by simp)
      have hr2' := hk2 r (by simp)
      simp only [List.map_cons]
      rw [before_sim H h l hl, before_sim H h r hr]
      cases walkBefore key2 l s2 with
      | some li =>
        cases walkBefore key2 r s2 with
        | some ri => exact fin_sim H h t ht (some li) (some ri)
        | none =>
          simp only []
          obtain ⟨hs, hi⟩ := ih f1 r s1 s2 hr (by omega) (by omega) h
          rw [hi]
          exact fin_sim H hs t ht _ _
      | none =>
        cases walkBefore key2 r s2 with
        | some ri =>
          simp only []
          obtain ⟨hs, hi⟩ := ih f1 l s1 s2 hl (by omega) (by omega) h
          rw [hi]
          exact fin_sim H hs t ht _ _
        | none =>
          simp only []
          obtain ⟨hs, hi⟩ := ih f1 l s1 s2 hl (by omega) (by omega) h
          obtain ⟨hs', hi'⟩ := ih f1 r _ _ hr (by omega) (by omega) hs
          rw [hi, hi']
          exact fin_sim H hs' t ht _ _

#print axioms walk_sim

end Prog
