/-
C01, general round trip, jet table: the Elements jet table prints the name it was read from
(`nameOf (ofName s) = s`; the converse `ofName (nameOf j) = j` is `JetsE.ofName_nameOf`).
-/
import SimplicityModel.Prog.JetsElementsProps
namespace Prog

/-- the first matching arm of a checked `FromStr` table is the arm of that name -/
theorem parseStr_sound (s : String) : ∀ (n : Nat) (arms : List (Nat × Nat)) (ks : List Nat),
    JetTable.checkArmsFrom n arms ks = true → ∀ i, JetTable.parseStr arms s = some i →
    n ≤ i ∧ ∃ h : i - n < ks.length, s = JetTable.strOfKey (ks[i - n]'h)
  | _, [], _, _, i, h => by simp [JetTable.parseStr] at h
  | _, _ :: _, [], hc, _, _ => by simp [JetTable.checkArmsFrom] at hc
  | n, (k, a) :: r, k' :: ks, hc, i, h => by
    simp only [JetTable.checkArmsFrom, Bool.and_eq_true, decide_eq_true_eq] at hc
    simp only [JetTable.parseStr] at h
    by_cases e : s = JetTable.strOfKey k
    · rw [if_pos e] at h
      cases h
      refine ⟨by omega, ?_⟩
      rw [hc.1.2]
      refine ⟨by simp, ?_⟩
      simp [e, hc.1.1]
    · rw [if_neg e] at h
      obtain ⟨h1, h2, h3⟩ := parseStr_sound s (n + 1) r ks hc.2 i h
      refine ⟨by omega, ?_⟩
      have : i - n = (i - (n + 1)) + 1 := by omega
      refine ⟨by simp only [List.length_cons]; omega, ?_⟩
      simp only [this, List.getElem_cons_succ]
      exact h3

/-- the Elements jet table prints the name it was read from -/
theorem JetsE.nameOf_ofName (name : String) (j : JetsE.J) (h : JetsE.ofName name = some j) :
    JetsE.nameOf j = name := by
  unfold JetsE.ofName at h
  cases hp : JetsE.F.parse name with
  | none => rw [hp] at h; cases h
  | some i =>
    rw [hp] at h
    simp only at h
    split at h
    · next hi =>
      cases h
      have hrows : i < JetsE.F.rows.length := by
        simpa [JetTable.Family.codes] using hi
      obtain ⟨_, h2, h3⟩ := parseStr_sound name 0 _ _ C14.Elements.checked.arms i hp
      show JetsE.F.display i = name
      rw [JetTable.Family.display_eq C14.Elements.checked i hrows, h3]
      simp
    · cases h

#print axioms JetsE.nameOf_ofName
end Prog
