/-
What the decoder's canonical-order check `Prog.canonicalOk` says about the items of the index walk
itself (C02 assembly): there are exactly `ns.size` items, item `i` is node `i` with index `i`, and
its recorded child indices are the child references of node `i`.
-/
import SimplicityModel.Prog.WalkProps

namespace Prog
open PO Wire

/-- the recorded child indices of an item agree with a shape -/
def kidsMatch (o : WOut) : Sh → Prop
  | .leaf => True
  | .un j => o.lidx = some j
  | .bin j k => o.lidx = some j ∧ o.ridx = some k

/-- **the items of an accepted walk**: item `i` is `⟨i, i, children of node i⟩` -/
theorem canonicalOk_outs {J : Type} (ns : Array (WNode J)) (hw : WellIdx (shapes ns))
    (hne : 0 < ns.size) (hc : canonicalOk ns = true) :
    let outs := (walk (wireChildren ns) (fun i => some i) (ns.size + 1) (ns.size - 1) ⟨#[], [], 0⟩).1.outs
    outs.size = ns.size ∧
    ∀ (i : Nat) (o : WOut), outs.toList[i]? = some o →
      o.node = i ∧ o.index = i ∧ kidsMatch o (((shapes ns)[i]?).getD Sh.leaf) := by
  intro outs
  have hb := walk_eq_visit (K := Nat) (shapes ns) hw (fun i => some i) (ns.size - 1) (ns.size - 1)
    (ns.size + 1) ⟨#[], [], 0⟩ (Nat.le_refl _) (by omega)
  simp only [] at hb
  have hk : keyT (fun i => some i) = ptr := rfl
  rw [hk, seenF_nil, chOfSh_shapes] at hb
  obtain ⟨hrep, _⟩ := hb
  have houts : outs.toList =
      (visit ptr (U (shapes ns) (ns.size - 1)) (fun _ => none) 0).1.map toW := by
    show (walk (wireChildren ns) (fun i => some i) (ns.size + 1) (ns.size - 1) ⟨#[], [], 0⟩).1.outs.toList = _
    rw [hrep.outs]
    simp
  have hcan := canonicalOk_visit ns hw hc
  have hall := canonicalOk_all_used ns hw hc
  have hre := canonicalOk_reencode ns hw hc
  obtain ⟨hinv, _, _⟩ := visit_root ptr (U (shapes ns) (ns.size - 1))
  refine ⟨?_, ?_⟩
  · have : outs.toList.length = ns.size := by rw [houts, List.length_map, hall]; omega
    simpa using this
  · intro i o ho
    rw [houts, List.getElem?_map] at ho
    cases hv : (visit ptr (U (shapes ns) (ns.size - 1)) (fun _ => none) 0).1[i]? with
    | none => rw [hv] at ho; cases ho
    | some o' =>
      rw [hv] at ho
      simp only [Option.map_some, Option.some.injEq] at ho
      subst ho
      have hid := hcan i o' hv
      have hidx := hinv.idx i o' hv
      have hsh := hre i o' hv
      have hmem : o' ∈ (visit ptr (U (shapes ns) (ns.size - 1)) (fun _ => none) 0).1 :=
        List.mem_of_getElem? hv
      have hdesc := visit_desc ptr (U (shapes ns) (ns.size - 1)) (fun _ => none) 0 o' hmem
      have hU := desc_U (shapes ns) hw hdesc (by rw [U_id])
      rw [hid, U_eq (shapes ns) hw] at hU
      refine ⟨hid, hidx, ?_⟩
      rw [hsh]
      unfold Out.shape
      cases hn : (shapes ns)[i]? with
      | none =>
        rw [hn] at hU; simp only [] at hU; rw [hU]; trivial
      | some s =>
        rw [hn] at hU
        rw [hn] at hsh
        simp only [Option.getD_some] at hsh
        cases s with
        | leaf => simp only [] at hU; rw [hU]; trivial
        | un j =>
          simp only [] at hU
          unfold Out.shape at hsh
          rw [hU] at hsh ⊢
          simp only [toW]
          cases hl : o'.lidx with
          | none => rw [hl] at hsh; cases hsh
          | some j' =>
            rw [hl] at hsh
            simp only [Sh.un.injEq] at hsh
            simp only [kidsMatch]
        | bin j k =>
          simp only [] at hU
          unfold Out.shape at hsh
          rw [hU] at hsh ⊢
          simp only [toW]
          cases hl : o'.lidx with
          | none => rw [hl] at hsh; cases hsh
          | some j' =>
            cases hr : o'.ridx with
            | none => rw [hl, hr] at hsh; cases hsh
            | some k' =>
              rw [hl, hr] at hsh
              simp only [Sh.bin.injEq] at hsh
              simp only [kidsMatch, and_self]

#print axioms canonicalOk_outs

end Prog
