/-
C01, general round trip, types: if `g` maps the nodes of a plan `p` onto the (non-hidden) nodes of a
plan `q`, node kinds and child references being preserved (`NodeMap`), nodes identified by `g` have
the same kind and the same inferred arrow, and no disconnect node of `p` is open, then inference on
`q` — unless its fuel runs out — succeeds and returns at `g i` the arrow inferred for node `i` of `p`
(`reinfer_along`).  The variable map `sigma` sends `src/tgt i` to `src/tgt (g i)` and the `k`-th fresh
variable of node `i` to the `k`-th fresh variable of node `g i`.
-/
import SimplicityModel.Prog.RtConstraints
import SimplicityModel.Prog.EncSelf
set_option linter.unusedSimpArgs false
namespace Prog
open Inf (Tm Eqn)

/-- the node correspondence between a plan `p` and the plan `q` decoded from its encoding: node `i`
of `p` becomes node `g i` of `q`, of the same kind, with `g`-mapped children; every node of `q` is a
hidden placeholder or the image of its representative `r j`; the root goes to the root -/
structure NodeMap (p q : Plan) (g r : Nat → Nat) : Prop where
  img : ∀ i nd, p[i]? = some nd → q[g i]? = some (nd.mapCh g)
  sur : ∀ j nd', q[j]? = some nd' → (∃ h, nd' = .hidden h) ∨ (r j < p.size ∧ g (r j) = j)
  root : g (p.size - 1) = q.size - 1

theorem NodeMap.lt {p q : Plan} {g r : Nat → Nat} (M : NodeMap p q g r) {i : Nat} (hi : i < p.size) :
    g i < q.size := by
  have := M.img i p[i] (Array.getElem?_eq_getElem hi)
  rcases Nat.lt_or_ge (g i) q.size with h | h
  · exact h
  · rw [Array.getElem?_eq_none h] at this; cases this

theorem NodeMap.nfAt_eq {p q : Plan} {g r : Nat → Nat} (M : NodeMap p q g r) {i : Nat} (hi : i < p.size) :
    nfAt q (g i) = nfAt p i := by
  have h1 : p[i]? = some p[i] := Array.getElem?_eq_getElem hi
  have := M.img i p[i] h1
  unfold Prog.nfAt
  rw [this, h1]
  exact nfresh_mapCh g _

open Classical in
/-- the variable map induced by a node map -/
noncomputable def sigma (p q : Plan) (g : Nat → Nat) (x : Nat) : Nat :=
  if x < 2 * p.size then 2 * g (x / 2) + x % 2
  else if h : ∃ i, i < p.size ∧ frOf p i ≤ x ∧ x < frOf p i + nfAt p i then
    frOf q (g h.choose) + (x - frOf p h.choose)
  else frOf q q.size + x

theorem sigma_src (p q : Plan) (g : Nat → Nat) (i : Nat) (hi : i < p.size) :
    sigma p q g (2 * i) = 2 * g i := by
  unfold sigma
  rw [if_pos (by omega)]
  have : 2 * i / 2 = i := by omega
  rw [this]; omega

theorem sigma_tgt (p q : Plan) (g : Nat → Nat) (i : Nat) (hi : i < p.size) :
    sigma p q g (2 * i + 1) = 2 * g i + 1 := by
  unfold sigma
  rw [if_pos (by omega)]
  have : (2 * i + 1) / 2 = i := by omega
  rw [this]; omega

theorem sigma_fresh (p q : Plan) (g : Nat → Nat) (i k : Nat) (hi : i < p.size) (hk : k < nfAt p i) :
    sigma p q g (frOf p i + k) = frOf q (g i) + k := by
  unfold sigma
  have hge := frOf_ge p i
  rw [if_neg (by omega)]
  have h : ∃ i', i' < p.size ∧ frOf p i' ≤ frOf p i + k ∧ frOf p i + k < frOf p i' + nfAt p i' :=
    ⟨i, hi, by omega, by omega⟩
  rw [dif_pos h]
  obtain ⟨h1, h2, h3⟩ := h.choose_spec
  obtain ⟨e1, e2⟩ := frOf_disjoint p i h.choose k (frOf p i + k - frOf p h.choose) hk (by omega) (by omega)
  rw [← e1] at e2 ⊢
  omega

/-- where `sigma` sends a variable: node variables, fresh variables of a node, anything else -/
theorem sigma_class {p q : Plan} {g r : Nat → Nat} (M : NodeMap p q g r) (x : Nat) :
    (x < 2 * p.size ∧ sigma p q g x = 2 * g (x / 2) + x % 2 ∧ sigma p q g x < 2 * q.size) ∨
    (∃ i k, i < p.size ∧ k < nfAt p i ∧ x = frOf p i + k ∧ sigma p q g x = frOf q (g i) + k ∧
      2 * q.size ≤ sigma p q g x ∧ sigma p q g x < frOf q q.size) ∨
    (2 * p.size ≤ x ∧ (¬ ∃ i, i < p.size ∧ frOf p i ≤ x ∧ x < frOf p i + nfAt p i) ∧
      sigma p q g x = frOf q q.size + x) := by
  by_cases h1 : x < 2 * p.size
  · left
    have hs : sigma p q g x = 2 * g (x / 2) + x % 2 := by unfold sigma; rw [if_pos h1]
    have := M.lt (show x / 2 < p.size by omega)
    exact ⟨h1, hs, by rw [hs]; omega⟩
  · by_cases h2 : ∃ i, i < p.size ∧ frOf p i ≤ x ∧ x < frOf p i + nfAt p i
    · right; left
      obtain ⟨i, hi, ha, hb⟩ := h2
      have hs := sigma_fresh p q g i (x - frOf p i) hi (by omega)
      rw [show frOf p i + (x - frOf p i) = x by omega] at hs
      have hlt := M.lt hi
      have hm := frOf_mono q (g i) q.size hlt
      rw [M.nfAt_eq hi] at hm
      have hge := frOf_ge q (g i)
      exact ⟨i, x - frOf p i, hi, by omega, by omega, hs, by omega, by omega⟩
    · right; right
      refine ⟨by omega, h2, ?_⟩
      unfold sigma
      rw [if_neg h1, dif_neg h2]

/-- **re-inference along a node map** -/
theorem reinfer_along (jt : JetTypes) (p q : Plan) (g r : Nat → Nat) (arrows : Array (BM4.Ty × BM4.Ty))
    (hpos : 0 < p.size) (hb : PlanBackward p) (M : NodeMap p q g r)
    (hopen : ∀ (i a : Nat), p[i]? ≠ some (Node.disconnect a none))
    (hinf : infer jt p true = .ok arrows)
    (hshape : ∀ i i' nd nd', p[i]? = some nd → p[i']? = some nd' → g i = g i' → nd.shape = nd'.shape)
    (harr : ∀ i i', i < p.size → i' < p.size → g i = g i' →
      arrows.getD i (.one, .one) = arrows.getD i' (.one, .one))
    (hfuel : ∀ E', constraints jt q true = some E' → Inf.unify unifyFuel E' [] ≠ .fuel) :
    ∃ arrows', infer jt q true = .ok arrows' ∧
      ∀ i, i < p.size → arrows'.getD (g i) (.one, .one) = arrows.getD i (.one, .one) := by
  obtain ⟨E, S, hE, hS, harrows⟩ := infer_ok_inv hinf
  have hsol := (Inf.unify_least _ _ _ hS).1
  have hsome := constraints_nodes_some hE
  -- the per-node correspondence of equations
  have hnode : ∀ i nd, p[i]? = some nd →
      nodeEqns jt (g i) (nd.mapCh g) (frOf q (g i)) =
        (nodeEqns jt i nd (frOf p i)).map fun x => (x.1.map (renE (sigma p q g)), frOf q (g i) + nfresh nd) := by
    intro i nd hp
    have hi : i < p.size := by
      rcases Nat.lt_or_ge i p.size with h | h
      · exact h
      · rw [Array.getElem?_eq_none h] at hp; cases hp
    refine nodeEqns_rename (sigma p q g) g i (g i) nd (frOf p i) (frOf q (g i)) (sigma_src p q g i hi)
      (sigma_tgt p q g i hi) ?_ ?_
    · intro c hc
      have hci : c < p.size := by have := hb i nd hp c hc; omega
      exact ⟨sigma_src p q g c hci, sigma_tgt p q g c hci⟩
    · intro k hk
      exact sigma_fresh p q g i k hi (by unfold nfAt; rw [hp]; exact hk)
  -- the constraints of `q` exist
  obtain ⟨E', hE'⟩ : ∃ E', constraints jt q true = some E' := by
    apply constraints_exists
    intro j nd' hq
    rcases M.sur j nd' hq with ⟨h, rfl⟩ | ⟨hr, hgr⟩
    · rfl
    · have hp : p[r j]? = some p[r j] := Array.getElem?_eq_getElem hr
      have := M.img (r j) _ hp
      rw [hgr, hq] at this
      cases this
      have h2 := hnode (r j) _ hp
      rw [hgr] at h2
      rw [h2]
      have := hsome (r j) _ hp
      obtain ⟨x, hx⟩ := Option.isSome_iff_exists.mp this
      rw [hx]; rfl
  have hroot : g (p.size - 1) = q.size - 1 := M.root
  have hrs : (sigma p q g) (2 * (p.size - 1)) = 2 * (q.size - 1) := by
    rw [sigma_src p q g _ (by omega), hroot]
  have hrt : (sigma p q g) (2 * (p.size - 1) + 1) = 2 * (q.size - 1) + 1 := by
    rw [sigma_tgt p q g _ (by omega), hroot]
  -- into
  have himg : ∀ e ∈ E, (e.1.rename (sigma p q g), e.2.rename (sigma p q g)) ∈ E' := by
    intro e he
    rw [constraints_mem hE'] 
    rcases (constraints_mem hE e).mp he with ⟨k, nd, es, f', hp, hn, hm⟩ | rfl | rfl
    · left
      have h2 := hnode k nd hp
      rw [hn] at h2
      exact ⟨g k, _, _, _, M.img k nd hp, h2, List.mem_map.mpr ⟨e, hm, rfl⟩⟩
    · right; left
      simp only [src, Tm.rename, hrs]
    · right; right
      simp only [tgt, Tm.rename, hrt]
  -- onto
  have hsur : ∀ e' ∈ E', ∃ e ∈ E, e' = (e.1.rename (sigma p q g), e.2.rename (sigma p q g)) := by
    intro e' he'
    rcases (constraints_mem hE' e').mp he' with ⟨j, nd', es', f', hq, hn, hm⟩ | rfl | rfl
    · rcases M.sur j nd' hq with ⟨h, rfl⟩ | ⟨hr, hgr⟩
      · simp [nodeEqns] at hn
        rw [hn.1] at hm; cases hm
      · have hp : p[r j]? = some p[r j] := Array.getElem?_eq_getElem hr
        have hq' := M.img (r j) _ hp
        rw [hgr, hq] at hq'
        cases hq'
        have h2 := hnode (r j) _ hp
        rw [hgr, hn] at h2
        obtain ⟨x, hx⟩ := Option.isSome_iff_exists.mp (hsome (r j) _ hp)
        rw [hx] at h2
        simp only [Option.map_some, Option.some.injEq, Prod.mk.injEq] at h2
        rw [h2.1] at hm
        obtain ⟨e, he, rfl⟩ := List.mem_map.mp hm
        exact ⟨e, (constraints_mem hE e).mpr (.inl ⟨r j, _, x.1, x.2, hp, hx, he⟩), rfl⟩
    · exact ⟨(src (p.size - 1), .one), (constraints_mem hE _).mpr (.inr (.inl rfl)), by
        simp only [src, Tm.rename, hrs]⟩
    · exact ⟨(tgt (p.size - 1), .one), (constraints_mem hE _).mpr (.inr (.inr rfl)), by
        simp only [tgt, Tm.rename, hrt]⟩
  -- arrows of `p` in terms of the solution
  have harrow : ∀ i, i < p.size → arrows.getD i (.one, .one) =
      (tyOfInf (Inf.closeUnit S (2 * i)), tyOfInf (Inf.closeUnit S (2 * i + 1))) := by
    intro i hi
    rw [harrows]
    exact arrows_getD _ _ _ hi
  have hρ : ∀ i i', i < p.size → i' < p.size → g i = g i' →
      Inf.closeUnit S (2 * i) = Inf.closeUnit S (2 * i') ∧
      Inf.closeUnit S (2 * i + 1) = Inf.closeUnit S (2 * i' + 1) := by
    intro i i' hi hi' e
    have := harr i i' hi hi' e
    rw [harrow i hi, harrow i' hi'] at this
    simp only [Prod.mk.injEq] at this
    exact ⟨tyOfInf_inj this.1, tyOfInf_inj this.2⟩
  -- variables identified by (sigma p q g) had equal types
  have hwd : ∀ x x', (sigma p q g) x = (sigma p q g) x' → Inf.closeUnit S x = Inf.closeUnit S x' := by
    intro x x' e
    have hfq := frOf_ge q q.size
    rcases sigma_class M x with ⟨hx, hs, hlt⟩ | ⟨i, k, hi, hk, rfl, hs, hge, hlt⟩ | ⟨hx, hno, hs⟩ <;>
    rcases sigma_class M x' with ⟨hx', hs', hlt'⟩ | ⟨i', k', hi', hk', rfl, hs', hge', hlt'⟩ | ⟨hx', hno', hs'⟩
    · -- node variables
      have e' : 2 * g (x / 2) + x % 2 = 2 * g (x' / 2) + x' % 2 := by rw [← hs, ← hs']; exact e
      have hg : g (x / 2) = g (x' / 2) := by omega
      have hb' : x % 2 = x' % 2 := by omega
      obtain ⟨h1, h2⟩ := hρ (x / 2) (x' / 2) (by omega) (by omega) hg
      rcases Nat.mod_two_eq_zero_or_one x with h0 | h0
      · have a : x = 2 * (x / 2) := by omega
        have b : x' = 2 * (x' / 2) := by omega
        rw [a, b]; exact h1
      · have a : x = 2 * (x / 2) + 1 := by omega
        have b : x' = 2 * (x' / 2) + 1 := by omega
        rw [a, b]; exact h2
    · exfalso; have : (sigma p q g) x = (sigma p q g) (frOf p i' + k') := e; omega
    · exfalso; have : (sigma p q g) x = (sigma p q g) x' := e; omega
    · exfalso; have : (sigma p q g) (frOf p i + k) = (sigma p q g) x' := e; omega
    · -- fresh variables
      have e' : frOf q (g i) + k = frOf q (g i') + k' := by rw [← hs, ← hs']; exact e
      obtain ⟨hg, hkk⟩ := frOf_disjoint q (g i) (g i') k k' (by rw [M.nfAt_eq hi]; exact hk)
        (by rw [M.nfAt_eq hi']; exact hk') e'
      subst hkk
      have hp : p[i]? = some p[i] := Array.getElem?_eq_getElem hi
      have hp' : p[i']? = some p[i'] := Array.getElem?_eq_getElem hi'
      obtain ⟨x1, hx1⟩ := Option.isSome_iff_exists.mp (hsome i _ hp)
      obtain ⟨x2, hx2⟩ := Option.isSome_iff_exists.mp (hsome i' _ hp')
      obtain ⟨h1, h2⟩ := hρ i i' hi hi' hg
      refine fresh_det (Inf.closeUnit S) i i' p[i] p[i'] (frOf p i) (frOf p i') x1.1 x2.1 x1.2 x2.2
        (hshape i i' _ _ hp hp' hg) (fun a ha => hopen i a (by rw [hp, ha])) hx1 hx2
        (fun e he => hsol e ((constraints_mem hE e).mpr (.inl ⟨i, _, x1.1, x1.2, hp, hx1, he⟩)))
        (fun e he => hsol e ((constraints_mem hE e).mpr (.inl ⟨i', _, x2.1, x2.2, hp', hx2, he⟩)))
        h1 h2 k (by unfold nfAt at hk; rw [hp] at hk; exact hk)
    · exfalso; have : (sigma p q g) (frOf p i + k) = (sigma p q g) x' := e; omega
    · exfalso; have : (sigma p q g) x = (sigma p q g) x' := e; omega
    · exfalso; have : (sigma p q g) x = (sigma p q g) (frOf p i' + k') := e; omega
    · have : (sigma p q g) x = (sigma p q g) x' := e
      have : x = x' := by omega
      rw [this]
  -- the unifier on `E'`
  have hne := hfuel E' hE'
  cases hu : Inf.unify unifyFuel E' [] with
  | fuel => exact absurd hu hne
  | clash => exact (Inf.renaming_accepts (sigma p q g) hsur hS hwd (.inl hu)).elim
  | occurs => exact (Inf.renaming_accepts (sigma p q g) hsur hS hwd (.inr hu)).elim
  | ok S' =>
    have hleast := Inf.least_of_renaming (sigma p q g) himg hsur hS hu hwd
    refine ⟨(Array.range q.size).map fun i =>
      (tyOfInf (Inf.closeUnit S' (2 * i)), tyOfInf (Inf.closeUnit S' (2 * i + 1))),
      by unfold infer; rw [hE']; simp only [hu], ?_⟩
    intro i hi
    rw [arrows_getD _ _ _ (M.lt hi), harrow i hi]
    have a := hleast (2 * i)
    have b := hleast (2 * i + 1)
    have a' : (sigma p q g) (2 * i) = 2 * g i := sigma_src p q g i hi
    have b' : (sigma p q g) (2 * i + 1) = 2 * g i + 1 := sigma_tgt p q g i hi
    rw [a'] at a; rw [b'] at b
    rw [a, b]

#print axioms reinfer_along
end Prog
