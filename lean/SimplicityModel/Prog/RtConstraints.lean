/-
C01, general round trip, types: the constraint list `Prog.constraints` node by node with explicit
fresh-variable offsets (`frOf`), the equations of a node under a node map `g` and a variable map `σ`
(`nodeEqns_rename`), and the fact that the fresh variables of a node are determined by the node's
own arrow (`fresh_det`).
-/
import SimplicityModel.Prog.Infer
import SimplicityModel.Prog.InferRename
set_option linter.unusedSimpArgs false
namespace Prog
open Inf (Tm Eqn)

/-- the number of fresh type variables a node introduces -/
def nfresh : Node → Nat
  | .injl _ | .injr _ | .take _ | .drop _ => 1
  | .case _ _ | .assertl _ _ | .assertr _ _ => 3
  | .disconnect _ (some _) => 2
  | .disconnect _ none => 4
  | _ => 0

theorem nodeEqns_fresh {jt : JetTypes} {i : Nat} {nd : Node} {f : Nat} {es : List Eqn} {f' : Nat}
    (h : nodeEqns jt i nd f = some (es, f')) : f' = f + nfresh nd := by
  cases nd
  case disconnect a b => cases b <;> simp [nodeEqns, nfresh] at h ⊢ <;> omega
  case jet name =>
    simp only [nodeEqns, Option.map_eq_some_iff] at h
    obtain ⟨⟨s, t⟩, _, h⟩ := h
    simp at h
    simp [nfresh, h.2]
  all_goals (simp [nodeEqns, nfresh] at h ⊢; omega)

def nfAt (p : Plan) (j : Nat) : Nat := match p[j]? with | some nd => nfresh nd | none => 0

/-- the first fresh variable of node `i` -/
def frOf (p : Plan) : Nat → Nat
  | 0 => 2 * p.size
  | i+1 => frOf p i + nfAt p i

theorem frOf_mono (p : Plan) : ∀ (i j : Nat), i < j → frOf p i + nfAt p i ≤ frOf p j := by
  intro i j h
  induction j with
  | zero => omega
  | succ j ih =>
    simp only [frOf]
    by_cases e : i = j
    · subst e; omega
    · have := ih (by omega); omega

theorem frOf_ge (p : Plan) (i : Nat) : 2 * p.size ≤ frOf p i := by
  induction i with
  | zero => simp [frOf]
  | succ i ih => simp only [frOf]; omega

/-- the fresh ranges of different nodes are disjoint -/
theorem frOf_disjoint (p : Plan) (i j k l : Nat) (hk : k < nfAt p i) (hl : l < nfAt p j)
    (e : frOf p i + k = frOf p j + l) : i = j ∧ k = l := by
  rcases Nat.lt_trichotomy i j with h | h | h
  · have := frOf_mono p i j h; omega
  · subst h; exact ⟨rfl, by omega⟩
  · have := frOf_mono p j i h; omega

theorem go_spec {jt : JetTypes} (p : Plan) : ∀ (nodes : List Node) (i f : Nat) (acc E : List Eqn),
    (∀ k, nodes[k]? = p[i + k]?) → f = frOf p i →
    constraints.go jt i nodes f acc = some E →
    ∀ e, e ∈ E ↔ e ∈ acc ∨ ∃ k nd es f', i ≤ k ∧ p[k]? = some nd ∧
      nodeEqns jt k nd (frOf p k) = some (es, f') ∧ e ∈ es
  | [], i, f, acc, E, hn, hf, h => by
    simp only [constraints.go, Option.some.injEq] at h
    subst h
    intro e
    refine ⟨fun h => .inl h, ?_⟩
    rintro (h | ⟨k, nd, es, f', hk, hp, _, _⟩)
    · exact h
    · have := hn (k - i)
      rw [show i + (k - i) = k by omega, hp] at this
      simp at this
  | nd :: rest, i, f, acc, E, hn, hf, h => by
    simp only [constraints.go, Option.bind_eq_bind, Option.bind_eq_some_iff] at h
    obtain ⟨⟨es, f'⟩, hne, hgo⟩ := h
    have hpi : p[i]? = some nd := by
      have := hn 0
      simpa using this.symm
    have hf' : f' = frOf p (i + 1) := by
      rw [nodeEqns_fresh hne, hf]
      simp [frOf, nfAt, hpi]
    have ih := go_spec p rest (i + 1) f' (acc ++ es) E
      (fun k => by
        have := hn (k + 1)
        simp only [List.getElem?_cons_succ] at this
        rw [this]; congr 1; omega) hf' hgo
    intro e
    rw [ih e]
    constructor
    · rintro (h | ⟨k, nd', es', f'', hk, hp, hq, hm⟩)
      · rcases List.mem_append.mp h with h | h
        · exact .inl h
        · exact .inr ⟨i, nd, es, f', Nat.le_refl _, hpi, by rw [← hf]; exact hne, h⟩
      · exact .inr ⟨k, nd', es', f'', by omega, hp, hq, hm⟩
    · rintro (h | ⟨k, nd', es', f'', hk, hp, hq, hm⟩)
      · exact .inl (List.mem_append_left _ h)
      · by_cases e' : k = i
        · subst e'
          rw [hpi] at hp
          cases hp
          rw [← hf, hne] at hq
          cases hq
          exact .inl (List.mem_append_right _ hm)
        · exact .inr ⟨k, nd', es', f'', by omega, hp, hq, hm⟩

theorem go_exists {jt : JetTypes} (p : Plan) : ∀ (nodes : List Node) (i f : Nat) (acc : List Eqn),
    (∀ k, nodes[k]? = p[i + k]?) → f = frOf p i →
    (∀ k nd, p[k]? = some nd → (nodeEqns jt k nd (frOf p k)).isSome) →
    ∃ E, constraints.go jt i nodes f acc = some E
  | [], i, f, acc, hn, hf, hall => ⟨acc, rfl⟩
  | nd :: rest, i, f, acc, hn, hf, hall => by
    have hpi : p[i]? = some nd := by
      have := hn 0
      simpa using this.symm
    obtain ⟨⟨es, f'⟩, hne⟩ := Option.isSome_iff_exists.mp (hall i nd hpi)
    have hf' : f' = frOf p (i + 1) := by
      rw [nodeEqns_fresh hne]
      simp [frOf, nfAt, hpi]
    obtain ⟨E, hE⟩ := go_exists p rest (i + 1) f' (acc ++ es)
      (fun k => by
        have := hn (k + 1)
        simp only [List.getElem?_cons_succ] at this
        rw [this]; congr 1; omega) hf' hall
    refine ⟨E, ?_⟩
    simp only [constraints.go, Option.bind_eq_bind]
    rw [hf, hne]
    exact hE

/-- **the constraints of a program, node by node** -/
theorem constraints_mem {jt : JetTypes} {p : Plan} {E : List Eqn}
    (h : constraints jt p true = some E) (e : Eqn) :
    e ∈ E ↔ (∃ k nd es f', p[k]? = some nd ∧ nodeEqns jt k nd (frOf p k) = some (es, f') ∧ e ∈ es) ∨
      e = (src (p.size - 1), .one) ∨ e = (tgt (p.size - 1), .one) := by
  simp only [constraints, Option.bind_eq_bind, Option.bind_eq_some_iff, Option.pure_def,
    Option.some.injEq, if_true] at h
  obtain ⟨es, hgo, rfl⟩ := h
  have := go_spec p p.toList 0 (2 * p.size) [] es (fun k => by simp) rfl hgo e
  simp only [List.mem_append, this, List.not_mem_nil, false_or, Nat.zero_le, true_and,
    List.mem_cons, or_false]

theorem constraints_exists {jt : JetTypes} {p : Plan}
    (hall : ∀ k nd, p[k]? = some nd → (nodeEqns jt k nd (frOf p k)).isSome) :
    ∃ E, constraints jt p true = some E := by
  obtain ⟨E, hE⟩ := go_exists p p.toList 0 (2 * p.size) [] (fun k => by simp) rfl hall
  refine ⟨E ++ [(src (p.size - 1), .one), (tgt (p.size - 1), .one)], ?_⟩
  simp only [constraints, Option.bind_eq_bind, hE, Option.bind_some, Option.pure_def, if_true]

/-! ### a node under a node map -/

/-- the same node with its child references mapped -/
def Node.mapCh (g : Nat → Nat) : Node → Node
  | .injl c => .injl (g c)
  | .injr c => .injr (g c)
  | .take c => .take (g c)
  | .drop c => .drop (g c)
  | .comp a b => .comp (g a) (g b)
  | .case a b => .case (g a) (g b)
  | .pair a b => .pair (g a) (g b)
  | .assertl a h => .assertl (g a) h
  | .assertr h b => .assertr h (g b)
  | .disconnect a b => .disconnect (g a) (b.map g)
  | nd => nd

theorem mapCh_children (g : Nat → Nat) (nd : Node) : (nd.mapCh g).children = nd.children.map g := by
  cases nd
  case disconnect a b => cases b <;> rfl
  all_goals rfl

theorem nfresh_mapCh (g : Nat → Nat) (nd : Node) : nfresh (nd.mapCh g) = nfresh nd := by
  cases nd
  case disconnect a b => cases b <;> rfl
  all_goals rfl

theorem tmOfTy_rename (σ : Nat → Nat) : ∀ t : BM4.Ty, (tmOfTy t).rename σ = tmOfTy t
  | .one => rfl
  | .sum a b => by simp [tmOfTy, Tm.rename, tmOfTy_rename σ a, tmOfTy_rename σ b]
  | .prod a b => by simp [tmOfTy, Tm.rename, tmOfTy_rename σ a, tmOfTy_rename σ b]

def renE (σ : Nat → Nat) (e : Eqn) : Eqn := (e.1.rename σ, e.2.rename σ)

/-- **the equations of a node under a node map `g` and a compatible variable map `σ`** -/
theorem nodeEqns_rename {jt : JetTypes} (σ g : Nat → Nat) (i j : Nat) (nd : Node) (fr fr' : Nat)
    (hs : σ (2 * i) = 2 * j) (ht : σ (2 * i + 1) = 2 * j + 1)
    (hc : ∀ c ∈ nd.children, σ (2 * c) = 2 * g c ∧ σ (2 * c + 1) = 2 * g c + 1)
    (hf : ∀ k, k < nfresh nd → σ (fr + k) = fr' + k) :
    nodeEqns jt j (nd.mapCh g) fr' =
      (nodeEqns jt i nd fr).map fun x => (x.1.map (renE σ), fr' + nfresh nd) := by
  have hf0 : nfresh nd > 0 → σ fr = fr' := fun h => by simpa using hf 0 h
  cases nd
  case disconnect a b =>
    cases b with
    | none =>
      have c1 := hc a (by simp [Node.children])
      have f0 := hf 0 (by simp [nfresh]); have f1 := hf 1 (by simp [nfresh])
      have f2 := hf 2 (by simp [nfresh]); have f3 := hf 3 (by simp [nfresh])
      simp only [Nat.add_zero] at f0
      simp [nodeEqns, Node.mapCh, renE, src, tgt, Tm.rename, nfresh, hs, ht, c1, f0, f1, f2, f3, tmOfTy_rename]
    | some b =>
      have c1 := hc a (by simp [Node.children]); have c2 := hc b (by simp [Node.children])
      have f0 := hf 0 (by simp [nfresh]); have f1 := hf 1 (by simp [nfresh])
      simp only [Nat.add_zero] at f0
      simp [nodeEqns, Node.mapCh, renE, src, tgt, Tm.rename, nfresh, hs, ht, c1, c2, f0, f1, tmOfTy_rename]
  case jet name =>
    cases hj : jt name with
    | none => simp [nodeEqns, Node.mapCh, hj]
    | some st =>
      simp [nodeEqns, Node.mapCh, hj, renE, src, tgt, Tm.rename, nfresh, hs, ht, tmOfTy_rename]
  case iden | unit | witness | fail e | hidden h =>
    simp [nodeEqns, Node.mapCh, renE, src, tgt, Tm.rename, nfresh, hs, ht]
  case word n bits =>
    simp [nodeEqns, Node.mapCh, renE, src, tgt, Tm.rename, nfresh, hs, ht, tmOfTy_rename]
  case injl c | injr c | take c | drop c =>
    have c1 := hc c (by simp [Node.children])
    have f0 := hf 0 (by simp [nfresh])
    simp only [Nat.add_zero] at f0
    simp [nodeEqns, Node.mapCh, renE, src, tgt, Tm.rename, nfresh, hs, ht, c1, f0]
  case comp a b | pair a b =>
    have c1 := hc a (by simp [Node.children]); have c2 := hc b (by simp [Node.children])
    simp [nodeEqns, Node.mapCh, renE, src, tgt, Tm.rename, nfresh, hs, ht, c1, c2]
  case case a b =>
    have c1 := hc a (by simp [Node.children]); have c2 := hc b (by simp [Node.children])
    have f0 := hf 0 (by simp [nfresh]); have f1 := hf 1 (by simp [nfresh]); have f2 := hf 2 (by simp [nfresh])
    simp only [Nat.add_zero] at f0
    simp [nodeEqns, Node.mapCh, renE, src, tgt, Tm.rename, nfresh, hs, ht, c1, c2, f0, f1, f2]
  case assertl a h =>
    have c1 := hc a (by simp [Node.children])
    have f0 := hf 0 (by simp [nfresh]); have f1 := hf 1 (by simp [nfresh]); have f2 := hf 2 (by simp [nfresh])
    simp only [Nat.add_zero] at f0
    simp [nodeEqns, Node.mapCh, renE, src, tgt, Tm.rename, nfresh, hs, ht, c1, f0, f1, f2]
  case assertr h b =>
    have c1 := hc b (by simp [Node.children])
    have f0 := hf 0 (by simp [nfresh]); have f1 := hf 1 (by simp [nfresh]); have f2 := hf 2 (by simp [nfresh])
    simp only [Nat.add_zero] at f0
    simp [nodeEqns, Node.mapCh, renE, src, tgt, Tm.rename, nfresh, hs, ht, c1, f0, f1, f2]

/-- the kind and payload of a node (child references erased) -/
def Node.shape (nd : Node) : Node := nd.mapCh (fun _ => 0)

theorem tyOfInf_inj : ∀ {a b : Inf.Ty}, tyOfInf a = tyOfInf b → a = b
  | .one, .one, _ => rfl
  | .one, .sum _ _, h => by simp [tyOfInf] at h
  | .one, .prod _ _, h => by simp [tyOfInf] at h
  | .sum _ _, .one, h => by simp [tyOfInf] at h
  | .prod _ _, .one, h => by simp [tyOfInf] at h
  | .sum _ _, .prod _ _, h => by simp [tyOfInf] at h
  | .prod _ _, .sum _ _, h => by simp [tyOfInf] at h
  | .sum a b, .sum c d, h => by
    simp only [tyOfInf, BM4.Ty.sum.injEq] at h
    rw [tyOfInf_inj h.1, tyOfInf_inj h.2]
  | .prod a b, .prod c d, h => by
    simp only [tyOfInf, BM4.Ty.prod.injEq] at h
    rw [tyOfInf_inj h.1, tyOfInf_inj h.2]

/-- **the fresh variables of a node are determined by the node's own arrow**: two nodes of one kind
(no open disconnect) whose source and target types agree in a solution have equal types at
corresponding fresh variables -/
theorem fresh_det {jt : JetTypes} (ρ : Nat → Inf.Ty) (i i' : Nat) (nd nd' : Node) (fr fr' : Nat)
    (es es' : List Eqn) (f1 f1' : Nat) (hsh : nd.shape = nd'.shape)
    (hopen : ∀ a, nd ≠ .disconnect a none)
    (h : nodeEqns jt i nd fr = some (es, f1)) (h' : nodeEqns jt i' nd' fr' = some (es', f1'))
    (hs : Inf.Sol ρ es) (hs' : Inf.Sol ρ es')
    (e1 : ρ (2 * i) = ρ (2 * i')) (e2 : ρ (2 * i + 1) = ρ (2 * i' + 1)) :
    ∀ k, k < nfresh nd → ρ (fr + k) = ρ (fr' + k) := by
  intro k hk
  cases nd
  case disconnect a b =>
    cases b with
    | none => exact absurd rfl (hopen a)
    | some b =>
      cases nd' <;> simp [Node.shape, Node.mapCh] at hsh
      rename_i a' b'
      cases b' with
      | none => simp at hsh
      | some b' =>
        simp only [nodeEqns, Option.some.injEq, Prod.mk.injEq] at h h'
        obtain ⟨rfl, _⟩ := h
        obtain ⟨rfl, _⟩ := h'
        simp only [Inf.Sol, List.mem_cons, List.not_mem_nil, or_false, forall_eq_or_imp, forall_eq,
          src, tgt, Tm.eval] at hs hs'
        obtain ⟨_, _, s3, s4⟩ := hs
        obtain ⟨_, _, s3', s4'⟩ := hs'
        rw [e1, s3'] at s3
        rw [e2, s4'] at s4
        simp only [Inf.Ty.prod.injEq] at s4
        simp only [nfresh] at hk
        have : k = 0 ∨ k = 1 := by omega
        rcases this with rfl | rfl
        · exact s3.symm
        · exact s4.1.symm
  case injl c | injr c =>
    cases nd' <;> simp [Node.shape, Node.mapCh] at hsh
    simp only [nodeEqns, Option.some.injEq, Prod.mk.injEq] at h h'
    obtain ⟨rfl, _⟩ := h
    obtain ⟨rfl, _⟩ := h'
    simp only [Inf.Sol, List.mem_cons, List.not_mem_nil, or_false, forall_eq_or_imp, forall_eq,
      src, tgt, Tm.eval] at hs hs'
    obtain ⟨_, s2⟩ := hs
    obtain ⟨_, s2'⟩ := hs'
    rw [e2, s2'] at s2
    simp only [Inf.Ty.sum.injEq] at s2
    simp only [nfresh] at hk
    have : k = 0 := by omega
    subst this
    first | exact s2.2.symm | exact s2.1.symm
  case take c | drop c =>
    cases nd' <;> simp [Node.shape, Node.mapCh] at hsh
    simp only [nodeEqns, Option.some.injEq, Prod.mk.injEq] at h h'
    obtain ⟨rfl, _⟩ := h
    obtain ⟨rfl, _⟩ := h'
    simp only [Inf.Sol, List.mem_cons, List.not_mem_nil, or_false, forall_eq_or_imp, forall_eq,
      src, tgt, Tm.eval] at hs hs'
    obtain ⟨s1, _⟩ := hs
    obtain ⟨s1', _⟩ := hs'
    rw [e1, s1'] at s1
    simp only [Inf.Ty.prod.injEq] at s1
    simp only [nfresh] at hk
    have : k = 0 := by omega
    subst this
    first | exact s1.2.symm | exact s1.1.symm
  case case a b =>
    cases nd' <;> simp [Node.shape, Node.mapCh] at hsh
    simp only [nodeEqns, Option.some.injEq, Prod.mk.injEq] at h h'
    obtain ⟨rfl, _⟩ := h
    obtain ⟨rfl, _⟩ := h'
    simp only [Inf.Sol, List.mem_cons, List.not_mem_nil, or_false, forall_eq_or_imp, forall_eq,
      src, tgt, Tm.eval] at hs hs'
    obtain ⟨_, _, _, _, s5⟩ := hs
    obtain ⟨_, _, _, _, s5'⟩ := hs'
    rw [e1, s5'] at s5
    simp only [Inf.Ty.prod.injEq, Inf.Ty.sum.injEq] at s5
    simp only [nfresh] at hk
    have : k = 0 ∨ k = 1 ∨ k = 2 := by omega
    rcases this with rfl | rfl | rfl
    · exact s5.1.1.symm
    · exact s5.1.2.symm
    · exact s5.2.symm
  case assertl a x | assertr x b =>
    cases nd' <;> simp [Node.shape, Node.mapCh] at hsh
    simp only [nodeEqns, Option.some.injEq, Prod.mk.injEq] at h h'
    obtain ⟨rfl, _⟩ := h
    obtain ⟨rfl, _⟩ := h'
    simp only [Inf.Sol, List.mem_cons, List.not_mem_nil, or_false, forall_eq_or_imp, forall_eq,
      src, tgt, Tm.eval] at hs hs'
    obtain ⟨_, _, s5⟩ := hs
    obtain ⟨_, _, s5'⟩ := hs'
    rw [e1, s5'] at s5
    simp only [Inf.Ty.prod.injEq, Inf.Ty.sum.injEq] at s5
    simp only [nfresh] at hk
    have : k = 0 ∨ k = 1 ∨ k = 2 := by omega
    rcases this with rfl | rfl | rfl
    · exact s5.1.1.symm
    · exact s5.1.2.symm
    · exact s5.2.symm
  all_goals (simp [nfresh] at hk)

#print axioms constraints_mem
#print axioms nodeEqns_rename
#print axioms fresh_det
end Prog

namespace Prog
open Inf (Tm Eqn)

theorem go_nodes_some {jt : JetTypes} (p : Plan) : ∀ (nodes : List Node) (i f : Nat) (acc E : List Eqn),
    (∀ k, nodes[k]? = p[i + k]?) → f = frOf p i →
    constraints.go jt i nodes f acc = some E →
    ∀ k nd, i ≤ k → p[k]? = some nd → (nodeEqns jt k nd (frOf p k)).isSome
  | [], i, f, acc, E, hn, hf, h => by
    intro k nd hk hp
    have := hn (k - i)
    rw [show i + (k - i) = k by omega, hp] at this
    simp at this
  | nd :: rest, i, f, acc, E, hn, hf, h => by
    simp only [constraints.go, Option.bind_eq_bind, Option.bind_eq_some_iff] at h
    obtain ⟨⟨es, f'⟩, hne, hgo⟩ := h
    have hpi : p[i]? = some nd := by
      have := hn 0
      simpa using this.symm
    have hf' : f' = frOf p (i + 1) := by
      rw [nodeEqns_fresh hne, hf]
      simp [frOf, nfAt, hpi]
    have ih := go_nodes_some p rest (i + 1) f' (acc ++ es) E
      (fun k => by
        have := hn (k + 1)
        simp only [List.getElem?_cons_succ] at this
        rw [this]; congr 1; omega) hf' hgo
    intro k nd' hk hp
    by_cases e : k = i
    · subst e
      rw [hpi] at hp; cases hp
      rw [← hf, hne]; rfl
    · exact ih k nd' (by omega) hp

theorem constraints_nodes_some {jt : JetTypes} {p : Plan} {E : List Eqn}
    (h : constraints jt p true = some E) :
    ∀ k nd, p[k]? = some nd → (nodeEqns jt k nd (frOf p k)).isSome := by
  simp only [constraints, Option.bind_eq_bind, Option.bind_eq_some_iff, Option.pure_def,
    Option.some.injEq, if_true] at h
  obtain ⟨es, hgo, _⟩ := h
  exact fun k nd hp => go_nodes_some p p.toList 0 (2 * p.size) [] es (fun k => by simp) rfl hgo k nd (Nat.zero_le _) hp

/-- what an accepting run of `infer` went through -/
theorem infer_ok_inv {jt : JetTypes} {p : Plan} {arrows : Array (BM4.Ty × BM4.Ty)}
    (h : infer jt p true = .ok arrows) :
    ∃ E S, constraints jt p true = some E ∧ Inf.unify unifyFuel E [] = .ok S ∧
      arrows = (Array.range p.size).map fun i =>
        (tyOfInf (Inf.closeUnit S (2 * i)), tyOfInf (Inf.closeUnit S (2 * i + 1))) := by
  unfold infer at h
  cases hc : constraints jt p true with
  | none => rw [hc] at h; cases h
  | some E =>
    rw [hc] at h
    simp only at h
    cases hu : Inf.unify unifyFuel E [] with
    | ok S =>
      rw [hu] at h
      simp only [InferRes.ok.injEq] at h
      exact ⟨E, S, rfl, hu, h.symm⟩
    | clash => rw [hu] at h; cases h
    | occurs => rw [hu] at h; cases h
    | fuel => rw [hu] at h; cases h

theorem arrows_getD (ρ : Nat → Inf.Ty) (n i : Nat) (hi : i < n) :
    ((Array.range n).map fun i => (tyOfInf (ρ (2 * i)), tyOfInf (ρ (2 * i + 1)))).getD i (.one, .one) =
      (tyOfInf (ρ (2 * i)), tyOfInf (ρ (2 * i + 1))) := by
  simp [Array.getD, hi]

end Prog
