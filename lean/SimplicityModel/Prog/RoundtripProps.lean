/-
C01 assembly: the forward direction of the decoder pipeline (`decodeRedeem_intro`), the witness
reader on well-typed compact values, the dependence of the annotations on the witness assignment,
and the assembled round trip `roundtrip_canonical` for plans in the decoder's canonical form.
-/
import SimplicityModel.Prog.DecodeProps
namespace Prog
open Wire PO

/-- **an accepting run of `decodeRedeem`, stage by stage** (converse of `decodeRedeem_inv`) -/
theorem decodeRedeem_intro (tb : Tables) (prog wit : List Bool) (ns : List (WNode tb.J))
    (rest wrest : List Bool) (plan : Plan) (arrows : Array (BM4.Ty × BM4.Ty))
    (ws : List (Nat × List Bool)) (an : Array Annot)
    (hp : decProgram tb.jc prog = .ok (ns, rest)) (hcl : closeOk rest = true) (hne : ns ≠ [])
    (hcan : canonicalOk ns.toArray = true) (hcv : convert tb.nameOf ns.toArray = .ok plan)
    (hdisc : ∀ nd ∈ plan.toList, ∀ a, nd ≠ .disconnect a none)
    (hinf : infer tb.jetTy plan true = .ok arrows)
    (hrw : readWitnesses plan arrows wit = .ok (ws, wrest)) (hcl2 : closeOk wrest = true)
    (han : annots tb.jetCmr tb.jetCost plan arrows (fun i => (ws.find? (·.1 = i)).map (·.2)) = some an)
    (hihr : (ihrList plan an).eraseDups.length = (ihrList plan an).length) :
    decodeRedeem tb prog wit = .ok ⟨plan, arrows, ws, an⟩ := by
  unfold decodeRedeem
  rw [hp]
  have hsz : ¬ ns.toArray.size = 0 := by
    simp only [List.size_toArray]
    exact fun h => hne (List.length_eq_zero_iff.mp h)
  simp only [bind, Except.bind, pure, Except.pure, throw, throwThe, MonadExceptOf.throw, hcl, hcan,
    Bool.not_true, Bool.false_eq_true, if_false, hsz, hcv, hinf, hrw, hcl2, han]
  split
  · next hany =>
    exfalso
    obtain ⟨i, hi, hf⟩ := Array.any_eq_true.mp hany
    have hmem : plan[i] ∈ plan.toList := Array.mem_toList_iff.mpr (Array.getElem_mem hi)
    have := hdisc _ hmem
    generalize plan[i] = nd at hf this
    cases nd <;> simp at hf
  · split
    · next hne' => exact absurd hihr hne'
    · rfl
theorem decCompact_append : ∀ (t : BM4.Ty) (bs : List Bool) (v : BM4.Val) (r0 r : List Bool),
    decCompact t bs = some (v, r0) → decCompact t (bs ++ r) = some (v, r0 ++ r)
  | .one, bs, v, r0, r, h => by
    simp only [decCompact, Option.some.injEq, Prod.mk.injEq] at h ⊢
    obtain ⟨rfl, rfl⟩ := h; exact ⟨rfl, rfl⟩
  | .sum _ _, [], v, r0, r, h => by simp [decCompact] at h
  | .sum a _, false :: bs, v, r0, r, h => by
    simp only [decCompact, List.cons_append] at h ⊢
    cases hd : decCompact a bs with
    | none => rw [hd] at h; cases h
    | some p =>
      obtain ⟨v', r'⟩ := p
      rw [hd] at h
      simp only [Option.map_some, Option.some.injEq, Prod.mk.injEq] at h
      obtain ⟨rfl, rfl⟩ := h
      rw [decCompact_append a bs v' r' r hd]; rfl
  | .sum _ b, true :: bs, v, r0, r, h => by
    simp only [decCompact, List.cons_append] at h ⊢
    cases hd : decCompact b bs with
    | none => rw [hd] at h; cases h
    | some p =>
      obtain ⟨v', r'⟩ := p
      rw [hd] at h
      simp only [Option.map_some, Option.some.injEq, Prod.mk.injEq] at h
      obtain ⟨rfl, rfl⟩ := h
      rw [decCompact_append b bs v' r' r hd]; rfl
  | .prod a b, bs, v, r0, r, h => by
    simp only [decCompact, bind, Option.bind] at h ⊢
    cases hd : decCompact a bs with
    | none => rw [hd] at h; cases h
    | some p =>
      obtain ⟨x, r1⟩ := p
      rw [hd] at h
      simp only at h
      cases hd2 : decCompact b r1 with
      | none => rw [hd2] at h; cases h
      | some q =>
        obtain ⟨y, r2⟩ := q
        rw [hd2] at h
        simp only [pure, Option.some.injEq, Prod.mk.injEq] at h
        obtain ⟨rfl, rfl⟩ := h
        rw [decCompact_append a bs x r1 r hd]
        simp only
        rw [decCompact_append b r1 y r2 r hd2]
        rfl

/-- a decoded value's own compact encoding decodes to it, with nothing left -/
theorem decCompact_self : ∀ (t : BM4.Ty) (bs : List Bool) (v : BM4.Val) (r : List Bool),
    decCompact t bs = some (v, r) → decCompact t (compact v) = some (v, [])
  | .one, bs, v, r, h => by
    simp only [decCompact, Option.some.injEq, Prod.mk.injEq] at h
    obtain ⟨rfl, rfl⟩ := h; rfl
  | .sum _ _, [], v, r, h => by simp [decCompact] at h
  | .sum a _, false :: bs, v, r, h => by
    simp only [decCompact] at h
    cases hd : decCompact a bs with
    | none => rw [hd] at h; cases h
    | some p =>
      obtain ⟨v', r'⟩ := p
      rw [hd] at h
      simp only [Option.map_some, Option.some.injEq, Prod.mk.injEq] at h
      obtain ⟨rfl, rfl⟩ := h
      simp only [compact, decCompact, decCompact_self a bs v' r' hd, Option.map_some]
  | .sum _ b, true :: bs, v, r, h => by
    simp only [decCompact] at h
    cases hd : decCompact b bs with
    | none => rw [hd] at h; cases h
    | some p =>
      obtain ⟨v', r'⟩ := p
      rw [hd] at h
      simp only [Option.map_some, Option.some.injEq, Prod.mk.injEq] at h
      obtain ⟨rfl, rfl⟩ := h
      simp only [compact, decCompact, decCompact_self b bs v' r' hd, Option.map_some]
  | .prod a b, bs, v, r, h => by
    simp only [decCompact, bind, Option.bind] at h
    cases hd : decCompact a bs with
    | none => rw [hd] at h; cases h
    | some p =>
      obtain ⟨x, r1⟩ := p
      rw [hd] at h
      simp only at h
      cases hd2 : decCompact b r1 with
      | none => rw [hd2] at h; cases h
      | some q =>
        obtain ⟨y, r2⟩ := q
        rw [hd2] at h
        simp only [pure, Option.some.injEq, Prod.mk.injEq] at h
        obtain ⟨rfl, rfl⟩ := h
        have h1 := decCompact_append a _ x [] (compact y) (decCompact_self a bs x r1 hd)
        have h2 := decCompact_self b r1 y r2 hd2
        simp only [List.nil_append] at h1
        simp only [compact, decCompact, bind, Option.bind, h1, h2, pure]

/-- every pair the witness reader returns is `(index, compact bits of a value of the node's type)` -/
theorem readGo_entries (arrows : Array (BM4.Ty × BM4.Ty)) : ∀ (l : List Node) (i : Nat) (bits : List Bool)
    (ws : List (Nat × List Bool)) (r : List Bool), readGo arrows l i bits = .ok (ws, r) →
    ∀ e ∈ ws, ∃ v, decCompact (arrows.getD e.1 (.one, .one)).2 e.2 = some (v, []) := by
  intro l
  induction l with
  | nil =>
    intro i bits ws r h
    simp only [readGo, Except.ok.injEq, Prod.mk.injEq] at h
    obtain ⟨rfl, rfl⟩ := h
    intro e he; cases he
  | cons nd rest ih =>
    intro i bits ws r h
    unfold readGo at h
    cases nd
    case witness =>
      simp only at h
      cases hd : decCompact (arrows.getD i (.one, .one)).2 bits with
      | none => rw [hd] at h; cases h
      | some p =>
        obtain ⟨v, r1⟩ := p
        rw [hd] at h
        simp only at h
        cases hr : readGo arrows rest (i + 1) r1 with
        | error e => rw [hr] at h; cases h
        | ok q =>
          obtain ⟨ws', r'⟩ := q
          rw [hr] at h
          simp only [Except.ok.injEq, Prod.mk.injEq] at h
          obtain ⟨rfl, rfl⟩ := h
          intro e he
          rcases List.mem_cons.mp he with rfl | he'
          · exact ⟨v, decCompact_self _ _ _ _ hd⟩
          · exact ih (i + 1) r1 ws' r' hr e he'
    all_goals exact ih (i + 1) bits ws r h

theorem find_of_nodup_keys : ∀ (ws : List (Nat × List Bool)), (ws.map (·.1)).Nodup →
    ∀ e ∈ ws, ws.find? (·.1 = e.1) = some e := by
  intro ws
  induction ws with
  | nil => intro _ e he; cases he
  | cons w ws ih =>
    intro h e he
    simp only [List.map_cons] at h
    obtain ⟨hnot, hnd⟩ := List.nodup_cons.mp h
    rcases List.mem_cons.mp he with rfl | he'
    · simp
    · have : ¬ w.1 = e.1 := fun e' => hnot (e' ▸ List.mem_map.mpr ⟨e, he', rfl⟩)
      simp only [List.find?_cons, this, decide_false]
      exact ih hnd e he'

/-- what the witness reader returns is a well-typed witness assignment (looked up by index) -/
theorem readGo_wit_typed (arrows : Array (BM4.Ty × BM4.Ty)) (l : List Node) (i : Nat) (bits : List Bool)
    (ws : List (Nat × List Bool)) (r : List Bool) (h : readGo arrows l i bits = .ok (ws, r)) :
    ∀ j ∈ wIdx l i, ∃ b v, (ws.find? (·.1 = j)).map (·.2) = some b ∧
      decCompact (arrows.getD j (.one, .one)).2 b = some (v, []) := by
  obtain ⟨hk, _⟩ := readGo_spec arrows l i bits ws r h
  intro j hj
  rw [← hk] at hj
  obtain ⟨e, he, rfl⟩ := List.mem_map.mp hj
  obtain ⟨v, hv⟩ := readGo_entries arrows l i bits ws r h e he
  have := find_of_nodup_keys ws (by rw [hk]; exact wIdx_nodup _ _) e he
  exact ⟨e.2, v, by rw [this]; rfl, hv⟩

/-- the witness reader reads back well-typed compact values, whatever follows -/
theorem readGo_forward (arrows : Array (BM4.Ty × BM4.Ty)) (wit : Nat → Option (List Bool)) :
    ∀ (l : List Node) (i : Nat) (r : List Bool),
    (∀ j ∈ wIdx l i, ∃ bits v, wit j = some bits ∧
      decCompact (arrows.getD j (.one, .one)).2 bits = some (v, [])) →
    readGo arrows l i (((wIdx l i).filterMap wit).flatten ++ r) =
      .ok ((wIdx l i).filterMap (fun j => (wit j).map (fun b => (j, b))), r) := by
  intro l
  induction l with
  | nil => intro i r _; rfl
  | cons nd rest ih =>
    intro i r h
    cases nd
    case witness =>
      simp only [wIdx] at h ⊢
      obtain ⟨bits, v, hw, hd⟩ := h i (by simp)
      have hc := decCompact_canonical _ _ _ _ hd
      simp only [List.append_nil] at hc
      have ha := decCompact_append _ _ _ _ (((wIdx rest (i + 1)).filterMap wit).flatten ++ r) hd
      simp only [List.nil_append] at ha
      simp only [List.filterMap_cons, hw, Option.map_some, List.flatten_cons, List.append_assoc, readGo, ha]
      rw [ih (i + 1) r (fun j hj => h j (by simp [hj]))]
      simp only [hc]
    all_goals exact ih (i + 1) r h

theorem mem_wIdx : ∀ (l : List Node) (i k : Nat), l[k]? = some .witness → i + k ∈ wIdx l i := by
  intro l
  induction l with
  | nil => intro i k h; simp at h
  | cons nd rest ih =>
    intro i k h
    cases k with
    | zero =>
      simp only [List.getElem?_cons_zero, Option.some.injEq] at h
      subst h
      simp [wIdx]
    | succ k =>
      simp only [List.getElem?_cons_succ] at h
      have := ih (i + 1) k h
      have e : i + 1 + k = i + (k + 1) := by omega
      rw [e] at this
      cases nd <;> simp [wIdx, this]

theorem lookup_filterMap (wit : Nat → Option (List Bool)) : ∀ (ks : List Nat) (j : Nat) (bits : List Bool),
    j ∈ ks → wit j = some bits → (∀ k ∈ ks, (wit k).isSome) →
    ((ks.filterMap (fun k => (wit k).map (fun b => (k, b)))).find? (·.1 = j)).map (·.2) = some bits := by
  intro ks
  induction ks with
  | nil => intro j bits h; cases h
  | cons k ks ih =>
    intro j bits hj hw hall
    obtain ⟨b, hb⟩ := Option.isSome_iff_exists.mp (hall k (by simp))
    simp only [List.filterMap_cons, hb, Option.map_some, List.find?_cons]
    by_cases e : k = j
    · subst e; rw [hb] at hw; cases hw; simp
    · simp only [e, decide_false]
      rcases List.mem_cons.mp hj with rfl | hj'
      · exact absurd rfl e
      · exact ih j bits hj' hw (fun k' hk' => hall k' (by simp [hk']))

theorem annotNode_congr (tm : BM4.Ty → Nat) (jetCmr jetCost : String → Option Nat)
    (arr : Nat → BM4.Ty × BM4.Ty) (wit wit' : Nat → Option (List Bool)) (an : Nat → Annot)
    (i : Nat) (nd : Node) (h : nd = .witness → wit i = wit' i) :
    annotNode tm jetCmr jetCost arr wit an i nd = annotNode tm jetCmr jetCost arr wit' an i nd := by
  cases nd
  case witness => simp only [annotNode, h rfl]
  case disconnect a b => cases b <;> rfl
  all_goals rfl

theorem annots_go_congr (tm : BM4.Ty → Nat) (jetCmr jetCost : String → Option Nat)
    (arrows : Array (BM4.Ty × BM4.Ty)) (wit wit' : Nat → Option (List Bool)) :
    ∀ (nodes : List Node) (i : Nat) (acc : Array Annot),
      (∀ k, nodes[k]? = some .witness → wit (i + k) = wit' (i + k)) →
      annots.go jetCmr jetCost arrows wit tm i nodes acc = annots.go jetCmr jetCost arrows wit' tm i nodes acc := by
  intro nodes
  induction nodes with
  | nil => intro i acc _; rfl
  | cons nd rest ih =>
    intro i acc h
    simp only [annots.go]
    rw [annotNode_congr tm jetCmr jetCost _ wit wit' _ i nd (fun e => by
      have := h 0 (by simp [e]); simpa using this)]
    cases annotNode tm jetCmr jetCost (fun j => arrows.getD j (.one, .one)) wit'
      (fun j => acc.getD j default) i nd with
    | none => rfl
    | some a =>
      simp only [bind, Option.bind]
      exact ih (i + 1) (acc.push a) (fun k hk => by
        have := h (k + 1) (by simpa using hk)
        have e : i + 1 + k = i + (k + 1) := by omega
        rw [e]; exact this)

/-- the annotations depend on the witness assignment only at the witness nodes -/
theorem annots_congr (jetCmr jetCost : String → Option Nat) (p : Plan)
    (arrows : Array (BM4.Ty × BM4.Ty)) (wit wit' : Nat → Option (List Bool))
    (h : ∀ k, p[k]? = some .witness → wit k = wit' k) :
    annots jetCmr jetCost p arrows wit = annots jetCmr jetCost p arrows wit' := by
  unfold annots
  exact annots_go_congr _ jetCmr jetCost arrows wit wit' p.toList 0 #[] (fun k hk => by
    simpa using h k (by simpa using hk))

theorem closeOk_replicate (k : Nat) (hk : k < 8) : closeOk (List.replicate k false) = true := by
  unfold closeOk
  simp only [List.length_replicate, Bool.and_eq_true, decide_eq_true_eq, List.all_eq_true]
  refine ⟨hk, ?_⟩
  intro b hb
  simp [List.eq_of_mem_replicate hb]

/-- what makes a typed, annotated plan with witness values a program *in the decoder's canonical
form*, witnessed by the wire node list `N` (which the theorem shows to be the encoder's own node
list): `N` is a well-formed node list in canonical order whose conversion is the plan, no disconnect
node is open, the plan is well typed with these arrows, every witness node carries the compact bits
of a value of its target type, the annotations are those of the plan, and the identity roots of the
(non-hidden) nodes are pairwise different. -/
structure CanonicalPlan (tb : Tables) (N : List (WNode tb.J)) (p : Plan)
    (arrows : Array (BM4.Ty × BM4.Ty)) (an : Array Annot) (wit : Nat → Option (List Bool)) : Prop where
  nodes_ne : N ≠ []
  nodes_lt : N.length < 2 ^ 32
  nodes_ok : NodesOk 0 N
  canonical : canonicalOk N.toArray = true
  conv : convert tb.nameOf N.toArray = .ok p
  closed_disc : ∀ nd ∈ p.toList, ∀ a, nd ≠ .disconnect a none
  typed : infer tb.jetTy p true = .ok arrows
  wit_typed : ∀ j ∈ wIdx p.toList 0, ∃ bits v, wit j = some bits ∧
    decCompact (arrows.getD j (.one, .one)).2 bits = some (v, [])
  annots : annots tb.jetCmr tb.jetCost p arrows wit = some an
  ihr_distinct : (ihrList p an).eraseDups.length = (ihrList p an).length

/-- **round trip, assembled** (about the functions the driver runs): for a program in canonical
form, the encoder succeeds, writes the node list `N` and the witness values in index order, and the
decoder accepts the two byte strings and returns the same plan, arrows, annotations (hence roots)
and witness values. -/
theorem roundtrip_canonical (tb : Tables) (hof : ∀ j, tb.ofName (tb.nameOf j) = some j)
    (N : List (WNode tb.J)) (p : Plan) (arrows : Array (BM4.Ty × BM4.Ty)) (an : Array Annot)
    (wit : Nat → Option (List Bool)) (H : CanonicalPlan tb N p arrows an wit) :
    encode tb.jc tb.ofName p an true wit =
      some (padToByte (encProgram tb.jc N), padToByte ((wIdx p.toList 0).filterMap wit).flatten) ∧
    decodeRedeem tb (padToByte (encProgram tb.jc N))
        (padToByte ((wIdx p.toList 0).filterMap wit).flatten) =
      .ok ⟨p, arrows, (wIdx p.toList 0).filterMap (fun j => (wit j).map (fun b => (j, b))), an⟩ := by
  have hansz := annots_size _ _ _ _ _ _ H.annots
  obtain ⟨F, hw, hpos, hroot⟩ := decFacts_mk tb.nameOf N p an H.nodes_ne H.nodes_ok H.conv hansz H.ihr_distinct
  have henc := encode_converted tb.jc F hof hw hpos hroot H.canonical wit
  refine ⟨henc, ?_⟩
  have hall : ∀ k ∈ wIdx p.toList 0, (wit k).isSome := by
    intro k hk
    obtain ⟨bits, _, hb, _⟩ := H.wit_typed k hk
    simp [hb]
  refine decodeRedeem_intro tb _ _ N (List.replicate ((8 - (encProgram tb.jc N).length % 8) % 8) false)
    (List.replicate ((8 - ((wIdx p.toList 0).filterMap wit).flatten.length % 8) % 8) false)
    p arrows _ an ?_ (closeOk_replicate _ (by omega)) H.nodes_ne H.canonical H.conv H.closed_disc H.typed
    ?_ (closeOk_replicate _ (by omega)) ?_ H.ihr_distinct
  · unfold padToByte
    exact decProgram_encProgram tb.jc N H.nodes_ne H.nodes_lt H.nodes_ok _
  · unfold readWitnesses padToByte
    exact readGo_forward arrows wit p.toList 0 _ H.wit_typed
  · rw [← H.annots]
    apply annots_congr
    intro k hk
    have hm := mem_wIdx p.toList 0 k (by simpa using hk)
    rw [Nat.zero_add] at hm
    obtain ⟨bits, _, hb, _⟩ := H.wit_typed k hm
    rw [hb]
    exact lookup_filterMap wit _ k bits hm hb hall

#print axioms decodeRedeem_intro
#print axioms roundtrip_canonical
end Prog
