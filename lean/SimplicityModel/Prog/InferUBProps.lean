/-
`inferUB` (the transcribed union-bound algorithm run over a plan in construction order) against the
equations its operations stand for (`ubEqns`, over the element indices as type variables):
an accepted run returns the least solution, a rejected run means there is no solution.
-/
import SimplicityModel.Prog.InferUB
import SimplicityModel.UnionBoundReader

namespace Prog
open UB Inf

/-- the equations of the operations `construct` performs, the element arrows it records and the
number of elements it allocates — computed without running the algorithm -/
def constructEqns (jt : JetTypes) (p : Plan) :
    Array (Option ElemArrow) → Nat → List Nat → Option (List Eqn × Array (Option ElemArrow) × Nat)
  | arrows, k, [] => some ([], arrows, k)
  | arrows, k, i :: rest =>
    match p[i]? with
    | none => none
    | some nd =>
      match nodeOps jt (fun c => (arrows[c]?).join) k nd with
      | none => none
      | some (ops, ar) =>
        match constructEqns jt p (arrows.setIfInBounds i (some ar)) (opsCount k ops) rest with
        | none => none
        | some (E, arrows', k') => some (opsEqns k ops ++ E, arrows', k')

/-- all equations of a run of `inferUB` (with `set_arrow_to_program` for programs) and the element
arrows of the constructed nodes -/
def ubEqns (jt : JetTypes) (p : Plan) (order : List Nat) (program : Bool) :
    Option (List Eqn × Array (Option ElemArrow)) :=
  match constructEqns jt p (Array.replicate p.size none) 0 order with
  | none => none
  | some (E, arrows, k) =>
    match (arrows[p.size - 1]?).join with
    | none => none
    | some rootArrow =>
      some (if program then E ++ opsEqns k (programOps rootArrow k) else E, arrows)

def ConstructGood (c : Ctx) (E : List Eqn) (arrows' : Array (Option ElemArrow)) (k' : Nat) :
    Except UBRes Built → Prop
  | .ok st' => WF st'.ctx ∧ st'.arrows = arrows' ∧ st'.ctx.elems.size = k' ∧
      ∀ ρ, SolSt ρ st'.ctx ↔ (SolSt ρ c ∧ Sol ρ E)
  | .error .typeError => ∀ ρ, ¬ (SolSt ρ c ∧ Sol ρ E)
  | .error .occurs => False
  | .error (.ok _ _) => False
  | .error _ => True

theorem construct_good (F : Nat) (jt : JetTypes) (p : Plan) : ∀ (order : List Nat) (st : Built)
    (E : List Eqn) (arrows' : Array (Option ElemArrow)) (k' : Nat), WF st.ctx →
    constructEqns jt p st.arrows st.ctx.elems.size order = some (E, arrows', k') →
    ConstructGood st.ctx E arrows' k' (construct F jt p st order)
  | [], st, E, arrows', k', w, h => by
    simp only [constructEqns, Option.some.injEq, Prod.mk.injEq] at h
    obtain ⟨rfl, rfl, rfl⟩ := h
    exact ⟨w, rfl, rfl, fun ρ => ⟨fun s => ⟨s, sol_nil ρ⟩, fun s => s.1⟩⟩
  | i :: rest, st, E, arrows', k', w, h => by
    unfold constructEqns at h
    unfold construct
    split at h
    · cases h
    · next nd hnd =>
      simp only [hnd]
      split at h
      · cases h
      · next ops ar hops =>
        simp only [hops]
        split at h
        · cases h
        · next E' arrows'' k'' hrest =>
          simp only [Option.some.injEq, Prod.mk.injEq] at h
          obtain ⟨rfl, rfl, rfl⟩ := h
          have g := runOps_good F ops w
          generalize runOps F st.ctx ops = res at g
          match res, g with
          | .ok c1, ⟨w1, hsz, hs⟩ =>
            dsimp only
            have ih := construct_good F jt p rest
              { ctx := c1, arrows := st.arrows.setIfInBounds i (some ar) } E' arrows'' k'' w1
              (by rw [hsz]; exact hrest)
            generalize construct F jt p { ctx := c1, arrows := st.arrows.setIfInBounds i (some ar) } rest = res2 at ih
            match res2, ih with
            | .ok st', ⟨w2, ha, hk, hs2⟩ =>
              refine ⟨w2, ha, hk, fun ρ => ?_⟩
              rw [hs2 ρ, hs ρ, sol_append, and_assoc]
            | .error .typeError, ih =>
              intro ρ hρ
              rw [sol_append] at hρ
              exact ih ρ ⟨(hs ρ).2 ⟨hρ.1, hρ.2.1⟩, hρ.2.2⟩
            | .error .occurs, ih => exact ih
            | .error (.ok _ _), ih => exact ih
            | .error .badPlan, _ => trivial
            | .error .fuel, _ => trivial
            | .error .panic, _ => trivial
          | .error .bind, g =>
            intro ρ hρ
            rw [sol_append] at hρ
            exact g ρ ⟨hρ.1, hρ.2.1⟩
          | .error .occurs, g => exact g
          | .error .fuel, _ => trivial
          | .error .panic, _ => trivial

/-! ### the finalisation passes -/

def NodesGood (arrows : Array (Option ElemArrow)) (c : Ctx) (is : List Nat) :
    UB.M (Ctx × List (Nat × Inf.Ty × Inf.Ty)) → Prop
  | .ok (c', out) => FChain c c' ∧
      (∀ r ∈ out, ∃ s t, (arrows[r.1]?).join = some (s, t) ∧ CompleteAt c' s r.2.1 ∧
        CompleteAt c' t r.2.2) ∧
      (∀ i ∈ is, (arrows[i]?).join ≠ none → ∃ r ∈ out, r.1 = i)
  | .error .occurs => ∀ ρ, ¬ SuperSol ρ c
  | .error .bind => False
  | .error _ => True

theorem finalizeNodes_good (F : Nat) (arrows : Array (Option ElemArrow)) : ∀ (is : List Nat) {c : Ctx},
    WF c → NodesGood arrows c is (finalizeNodes F arrows c is)
  | [], c, w => ⟨FChain.refl w, (fun r hr => by cases hr), (fun i hi => by cases hi)⟩
  | i :: rest, c, w => by
    unfold finalizeNodes
    split
    · next hnone =>
      have ih := finalizeNodes_good F arrows rest w
      generalize finalizeNodes F arrows c rest = res at ih
      match res, ih with
      | .ok (c', out), ⟨h1, h2, h3⟩ =>
        refine ⟨h1, h2, fun j hj hne => ?_⟩
        simp only [List.mem_cons] at hj
        rcases hj with rfl | hj
        · exact absurd hnone hne
        · exact h3 j hj hne
      | .error .occurs, ih => exact ih
      | .error .bind, ih => exact ih
      | .error .fuel, _ => trivial
      | .error .panic, _ => trivial
    · next s t hst =>
      have g1 := typeFinalize_good F w s
      generalize typeFinalize F c s = r1 at g1
      match r1, g1 with
      | .error .occurs, g1 => exact g1
      | .error .bind, g1 => exact g1
      | .error .fuel, _ => trivial
      | .error .panic, _ => trivial
      | .ok (c1, fs), g1 =>
        dsimp only
        have T1 : TFin c s c1 fs := g1
        have g2 := typeFinalize_good F T1.wf t
        generalize typeFinalize F c1 t = r2 at g2
        match r2, g2 with
        | .error .occurs, g2 => exact fun ρ hρ => g2 ρ ((T1.sup ρ hρ).1)
        | .error .bind, g2 => exact g2
        | .error .fuel, _ => trivial
        | .error .panic, _ => trivial
        | .ok (c2, ft), g2 =>
          dsimp only
          have T2 : TFin c1 t c2 ft := g2
          have ih := finalizeNodes_good F arrows rest T2.wf
          generalize finalizeNodes F arrows c2 rest = res at ih
          have ch12 := T1.chain.trans T2.chain
          match res, ih with
          | .ok (c', out), ⟨h1, h2, h3⟩ =>
            refine ⟨ch12.trans h1, fun r hr => ?_, fun j hj hne => ?_⟩
            · simp only [List.mem_cons] at hr
              rcases hr with rfl | hr
              · exact ⟨s, t, hst, (T1.val.fin T2.fin).fin h1.fin, T2.val.fin h1.fin⟩
              · exact h2 r hr
            · simp only [List.mem_cons] at hj
              rcases hj with rfl | hj
              · exact ⟨_, List.mem_cons_self, rfl⟩
              · obtain ⟨r, hr, hri⟩ := h3 j hj hne
                exact ⟨r, List.mem_cons_of_mem _ hr, hri⟩
          | .error .occurs, ih => exact fun ρ hρ => ih ρ (ch12.sup ρ hρ)
          | .error .bind, ih => exact ih
          | .error .fuel, _ => trivial
          | .error .panic, _ => trivial

theorem finalizeElems_good (F : Nat) : ∀ (xs : List Nat) {c c' : Ctx}, WF c →
    finalizeElems F c xs = .ok c' →
    FChain c c' ∧ ∀ x ∈ xs, ∃ t, CompleteAt c' x t ∧ ∀ ρ, SuperSol ρ c → Le t (ρ x)
  | [], c, c', w, h => by
    simp only [finalizeElems, Except.ok.injEq] at h
    subst h
    exact ⟨FChain.refl w, fun x hx => by cases hx⟩
  | x :: rest, c, c', w, h => by
    unfold finalizeElems at h
    have g1 := typeFinalize_good F w x
    generalize typeFinalize F c x = r1 at g1 h
    match r1, g1 with
    | .error _, _ => cases h
    | .ok (c1, t), g1 =>
      dsimp only at h
      have T1 : TFin c x c1 t := g1
      obtain ⟨h1, h2⟩ := finalizeElems_good F rest T1.wf h
      refine ⟨T1.chain.trans h1, fun y hy => ?_⟩
      simp only [List.mem_cons] at hy
      rcases hy with rfl | hy
      · exact ⟨t, T1.val.fin h1.fin, fun ρ hρ => (T1.sup ρ hρ).2⟩
      · obtain ⟨t', ht', hle⟩ := h2 y hy
        exact ⟨t', ht', fun ρ hρ => hle ρ ((T1.sup ρ hρ).1)⟩

theorem allFinal_spec {c : Ctx} (h : allFinal c = true) : AllFinal c := by
  intro e b ⟨i, hi, hd⟩
  unfold allFinal at h
  rw [List.all_eq_true] at h
  have hmem : i ∈ c.elems.toList := by
    obtain ⟨hlt, hget⟩ := Array.getElem?_eq_some_iff.1 hi
    rw [← hget]; exact Array.getElem_mem_toList hlt
  have := h i hmem
  rw [hd] at this
  dsimp only at this
  split at this
  · next d hs => exact ⟨d, hs⟩
  · cases this

/-! ### construction -/

def BuildGood (E : List Eqn) (ea : Array (Option ElemArrow)) : Except UBRes Built → Prop
  | .ok st => WF st.ctx ∧ st.arrows = ea ∧ ∀ ρ, SolSt ρ st.ctx ↔ Sol ρ E
  | .error .typeError => ∀ ρ, ¬ Sol ρ E
  | .error .occurs => False
  | .error (.ok _ _) => False
  | .error _ => True

theorem buildAll_good (F : Nat) (jt : JetTypes) (p : Plan) (order : List Nat) (program : Bool)
    {E : List Eqn} {ea : Array (Option ElemArrow)} (hE : ubEqns jt p order program = some (E, ea)) :
    BuildGood E ea (buildAll F jt p order program) := by
  unfold ubEqns at hE
  split at hE
  · cases hE
  · next E0 arrows0 k0 hc =>
    have g := construct_good F jt p order { ctx := {}, arrows := Array.replicate p.size none }
      E0 arrows0 k0 wf_empty hc
    unfold buildAll
    generalize construct F jt p { ctx := {}, arrows := Array.replicate p.size none } order = res at g
    match res, g with
    | .error .typeError, g =>
      intro ρ hρ
      split at hE
      · cases hE
      · simp only [Option.some.injEq, Prod.mk.injEq] at hE
        obtain ⟨rfl, _⟩ := hE
        refine g ρ ⟨solSt_empty ρ, ?_⟩
        split at hρ
        · exact ((sol_append ρ _ _).1 hρ).1
        · exact hρ
    | .error .occurs, g => exact g
    | .error (.ok _ _), g => exact g
    | .error .badPlan, _ => trivial
    | .error .fuel, _ => trivial
    | .error .panic, _ => trivial
    | .ok st, ⟨w, ha, hk, hs⟩ =>
      dsimp only
      rw [ha]
      split at hE
      · cases hE
      · next rootArrow hroot =>
        simp only [Option.some.injEq, Prod.mk.injEq] at hE
        obtain ⟨rfl, rfl⟩ := hE
        simp only [hroot]
        have hs0 : ∀ ρ, SolSt ρ st.ctx ↔ Sol ρ E0 := fun ρ =>
          (hs ρ).trans ⟨fun h => h.2, fun h => ⟨solSt_empty ρ, h⟩⟩
        cases program with
        | false => exact ⟨w, ha, hs0⟩
        | true =>
          simp only [if_true]
          have g2 := runOps_good F (programOps rootArrow st.ctx.elems.size) w
          rw [hk] at g2 ⊢
          generalize runOps F st.ctx (programOps rootArrow k0) = res2 at g2
          match res2, g2 with
          | .ok c, ⟨w2, _, hs2⟩ =>
            refine ⟨w2, rfl, fun ρ => ?_⟩
            rw [hs2 ρ, hs0 ρ, sol_append]
          | .error .bind, g2 =>
            intro ρ hρ
            rw [sol_append] at hρ
            exact g2 ρ ⟨(hs0 ρ).2 hρ.1, hρ.2⟩
          | .error .occurs, g2 => exact g2
          | .error .fuel, _ => trivial
          | .error .panic, _ => trivial

/-! ### finalisation -/

def FinalGood (p : Plan) (st : Built) : UBRes → Prop
  | .ok arrows cov => cov = true → ∃ ρ₀ : Nat → Inf.Ty, SolSt ρ₀ st.ctx ∧
      (∀ ρ, SolSt ρ st.ctx → ∀ x, Le (ρ₀ x) (ρ x)) ∧ arrows.size = p.size ∧
      ∀ i s t, i < p.size → (st.arrows[i]?).join = some (s, t) →
        arrows[i]? = some (some (tyOfInf (ρ₀ s), tyOfInf (ρ₀ t)))
  | .occurs => ∀ ρ, ¬ SolSt ρ st.ctx
  | .typeError => False
  | _ => True

theorem finalizeAll_good (F : Nat) (p : Plan) (st : Built) (w : WF st.ctx) :
    FinalGood p st (finalizeAll F p st) := by
  unfold finalizeAll
  have g1 := finalizeNodes_good F st.arrows (postOrder p (p.size + 1) (p.size - 1) []) w
  generalize finalizeNodes F st.arrows st.ctx (postOrder p (p.size + 1) (p.size - 1) []) = r1 at g1
  match r1, g1 with
  | .error .occurs, g1 => exact fun ρ s => g1 ρ s.super
  | .error .bind, g1 => exact g1
  | .error .fuel, _ => trivial
  | .error .panic, _ => trivial
  | .ok (cB, _), ⟨chB, _, _⟩ =>
    dsimp only
    have g2 := finalizeNodes_good F st.arrows (List.range p.size) chB.wf
    generalize finalizeNodes F st.arrows cB (List.range p.size) = r2 at g2
    match r2, g2 with
    | .error .occurs, g2 => exact fun ρ s => g2 ρ (chB.sup ρ s.super)
    | .error .bind, g2 => exact g2
    | .error .fuel, _ => trivial
    | .error .panic, _ => trivial
    | .ok (cC, out), ⟨chC, hout, hall⟩ =>
      dsimp only
      intro hcov
      unfold covered at hcov
      split at hcov
      · next cD hD =>
        obtain ⟨chD, helems⟩ := finalizeElems_good F _ chC.wf hD
        have ch := (chB.trans chC).trans chD
        have hfin := allFinal_spec hcov
        have k : KInv st.ctx cD := ch.kinv _ (KInv.refl _)
        refine ⟨reader cD, reader_solves k hfin, fun ρ s x => ?_, by simp, fun i s t hi hst => ?_⟩
        · by_cases hx : x < cC.elems.size
          · obtain ⟨tx, hat, hle⟩ := helems x (List.mem_range.2 hx)
            rw [reader_value hat]
            exact hle ρ ((chB.trans chC).sup ρ s.super)
          · have : cD.elems.size ≤ x := by rw [chD.fin.mono.esize]; omega
            rw [reader_out_of_range this]; exact Le.one _
        · obtain ⟨r, hr, hri⟩ := hall i (List.mem_range.2 hi) (by rw [hst]; exact fun h => by cases h)
          have hsome : (out.find? (·.1 = i)).isSome := by
            rw [List.find?_isSome]; exact ⟨r, hr, by simpa using hri⟩
          obtain ⟨r', hr'⟩ := Option.isSome_iff_exists.1 hsome
          have hmem := List.mem_of_find?_eq_some hr'
          have hr'i : r'.1 = i := by simpa using List.find?_some hr'
          obtain ⟨s', t', hst', hcs, hct⟩ := hout r' hmem
          rw [hr'i, hst] at hst'
          cases hst'
          simp only [List.getElem?_toArray, List.getElem?_map, List.getElem?_range hi, Option.map_some, hr']
          rw [reader_value (hcs.fin chD.fin), reader_value (hct.fin chD.fin)]
      · cases hcov

/-! ### the algorithm against the equations of its own operations -/

/-- **(a)** an accepted (and covered) run returns, at every constructed node, the value of the
*least* solution `ρ₀` of the equations its operations stand for -/
theorem inferUB_least (F : Nat) (jt : JetTypes) (p : Plan) (order : List Nat) (program : Bool)
    {arrows : Array (Option (BM4.Ty × BM4.Ty))} {E : List Eqn} {ea : Array (Option ElemArrow)}
    (h : inferUBWith F jt p order program = .ok arrows true)
    (hE : ubEqns jt p order program = some (E, ea)) :
    ∃ ρ₀ : Nat → Inf.Ty, Sol ρ₀ E ∧ (∀ ρ, Sol ρ E → ∀ x, Le (ρ₀ x) (ρ x)) ∧ arrows.size = p.size ∧
      ∀ i s t, i < p.size → (ea[i]?).join = some (s, t) →
        arrows[i]? = some (some (tyOfInf (ρ₀ s), tyOfInf (ρ₀ t))) := by
  unfold inferUBWith at h
  have gb := buildAll_good F jt p order program hE
  generalize buildAll F jt p order program = rb at gb h
  match rb, gb with
  | .error r, g =>
    dsimp only at h
    subst h
    exact g.elim
  | .ok st, ⟨w, ha, hs⟩ =>
    dsimp only at h
    have gf := finalizeAll_good F p st w
    rw [h] at gf
    obtain ⟨ρ₀, h1, h2, h3, h4⟩ := gf rfl
    exact ⟨ρ₀, (hs ρ₀).1 h1, fun ρ hρ => h2 ρ ((hs ρ).2 hρ), h3, fun i s t hi hst => h4 i s t hi (by rw [ha]; exact hst)⟩

/-- **(b)** a rejected run (`Error::Bind` or `Error::OccursCheck`) means that the equations have no
solution at all (clash or cycle) -/
theorem inferUB_rejects_only_unsolvable (F : Nat) (jt : JetTypes) (p : Plan) (order : List Nat)
    (program : Bool) {E : List Eqn} {ea : Array (Option ElemArrow)}
    (h : inferUBWith F jt p order program = .typeError ∨ inferUBWith F jt p order program = .occurs)
    (hE : ubEqns jt p order program = some (E, ea)) : ∀ ρ, ¬ Sol ρ E := by
  unfold inferUBWith at h
  have gb := buildAll_good F jt p order program hE
  generalize buildAll F jt p order program = rb at gb h
  match rb, gb with
  | .error .typeError, gb => exact gb
  | .error .occurs, gb => exact gb.elim
  | .error (.ok _ _), gb => exact gb.elim
  | .error .badPlan, _ => rcases h with h | h <;> cases h
  | .error .fuel, _ => rcases h with h | h <;> cases h
  | .error .panic, _ => rcases h with h | h <;> cases h
  | .ok st, ⟨w, ha, hs⟩ =>
    dsimp only at h
    have gf := finalizeAll_good F p st w
    intro ρ hρ
    rcases h with h | h
    · rw [h] at gf; exact gf
    · rw [h] at gf; exact gf ρ ((hs ρ).2 hρ)

end Prog
