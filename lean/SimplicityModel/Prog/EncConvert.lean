/-
C01, conversion stage of the redemption-time round trip for arbitrary plans: `Prog.convert` accepts
the node list that `Prog.encode` writes (hidden nodes occur only below `case` nodes, never both
children, never as the root, pairwise different), so — with `Prog.convert_spec` — the decoder obtains
a plan whose node at the position of an item is the conversion of the wire node written for it.
-/
import SimplicityModel.Prog.EncSelf
import SimplicityModel.Prog.CommitProps
set_option linter.unusedSimpArgs false
namespace Prog
open Wire PO
variable {J : Type}

theorem natBits256_inj (a b : Nat) (ha : a < 2 ^ 256) (hb : b < 2 ^ 256)
    (h : natBits256 a = natBits256 b) : a = b := by
  apply Nat.eq_of_testBit_eq
  intro i
  by_cases hi : i < 256
  · have h1 : (natBits256 a)[255 - i]? = (natBits256 b)[255 - i]? := by rw [h]
    unfold natBits256 at h1
    rw [List.getElem?_map, List.getElem?_map, List.getElem?_range (by omega)] at h1
    simp only [Option.map_some, Option.some.injEq] at h1
    have e : 255 - (255 - i) = i := by omega
    rw [e] at h1
    simp only [Nat.testBit, Nat.shiftRight_eq_div_pow, Nat.one_and_eq_mod_two] at h1 ⊢
    have ha' : a / 2 ^ i % 2 = 0 ∨ a / 2 ^ i % 2 = 1 := by omega
    have hb' : b / 2 ^ i % 2 = 0 ∨ b / 2 ^ i % 2 = 1 := by omega
    rcases ha' with x | x <;> rcases hb' with y | y <;> simp [x, y] at h1 ⊢
  · rw [Nat.testBit_lt_two_pow (Nat.lt_of_lt_of_le ha (Nat.pow_le_pow_right (by decide) (by omega))),
      Nat.testBit_lt_two_pow (Nat.lt_of_lt_of_le hb (Nat.pow_le_pow_right (by decide) (by omega)))]

/-- the conversion loop succeeds when every node converts and the hidden roots are new and pairwise
different -/
theorem convertGo_intro (nameOf : J → String) (A : Array (WNode J)) :
    ∀ (l : List (WNode J)) (seen : List Nat),
      (∀ n ∈ l, ∃ nd, convNode nameOf A n = .ok nd) →
      (∀ (i : Nat) (r : List Bool), l[i]? = some (.hidden r) → bitsNat r ∉ seen) →
      (∀ (i j : Nat) (r r' : List Bool), l[i]? = some (.hidden r) → l[j]? = some (.hidden r') →
        bitsNat r = bitsNat r' → i = j) →
      ∃ out, convertGo nameOf A l seen = .ok out := by
  intro l
  induction l with
  | nil => intro seen _ _ _; exact ⟨[], rfl⟩
  | cons n rest ih =>
    intro seen hconv hnew hdist
    obtain ⟨nd, hnd⟩ := hconv n (by simp)
    have hrest : ∀ seen', (∀ x, x ∈ seen' → x ∈ seen ∨ ∃ r, n = .hidden r ∧ x = bitsNat r) →
        ∃ out, convertGo nameOf A rest seen' = .ok out := by
      intro seen' hs
      refine ih seen' (fun m hm => hconv m (by simp [hm])) ?_ ?_
      · intro i r hi hin
        rcases hs _ hin with h | ⟨r0, hn, he⟩
        · exact hnew (i + 1) r (by simpa using hi) h
        · have := hdist 0 (i + 1) r0 r (by simp [hn]) (by simpa using hi) he.symm
          omega
      · intro i j r r' hi hj he
        have := hdist (i + 1) (j + 1) r r' (by simpa using hi) (by simpa using hj) he
        omega
    simp only [convertGo, hnd]
    cases n with
    | hidden r0 =>
      have hnot : seen.contains (bitsNat r0) = false := by
        cases hc : seen.contains (bitsNat r0) with
        | false => rfl
        | true => exact absurd (List.contains_iff_mem.mp hc) (hnew 0 r0 (by simp))
      simp only [hnot, Bool.false_eq_true, if_false]
      obtain ⟨out, ho⟩ := hrest (bitsNat r0 :: seen) (by
        intro x hx
        rcases List.mem_cons.mp hx with rfl | hx
        · exact .inr ⟨r0, rfl, rfl⟩
        · exact .inl hx)
      rw [ho]; exact ⟨_, rfl⟩
    | _ =>
      obtain ⟨out, ho⟩ := hrest seen (fun x hx => .inl hx)
      simp only [ho]; exact ⟨_, rfl⟩

/-- **conversion succeeds** when every node converts, the hidden roots are pairwise different and
the last node is not hidden -/
theorem convert_intro (nameOf : J → String) (A : Array (WNode J))
    (hconv : ∀ (i : Nat) (n : WNode J), A[i]? = some n → ∃ nd, convNode nameOf A n = .ok nd)
    (hdist : ∀ (i j : Nat) (r r' : List Bool), A[i]? = some (.hidden r) → A[j]? = some (.hidden r') →
      bitsNat r = bitsNat r' → i = j)
    (hroot : hiddenAt A (A.size - 1) = none) : ∃ q, convert nameOf A = .ok q := by
  obtain ⟨out, ho⟩ := convertGo_intro nameOf A A.toList []
    (fun n hn => by
      obtain ⟨i, hi, he⟩ := List.mem_iff_getElem.mp hn
      exact hconv i n (by rw [← Array.getElem?_toList, List.getElem?_eq_getElem hi, he]))
    (fun _ _ _ h => by cases h)
    (fun i j r r' hi hj => hdist i j r r' (by simpa using hi) (by simpa using hj))
  unfold convert
  rw [ho]
  simp only [hroot, Option.isSome_none, Bool.false_eq_true, if_false]
  exact ⟨_, rfl⟩

#print axioms convert_intro

/-- the wire node written for an item is a hidden node exactly for the hidden pseudo-nodes -/
theorem wireOf_hidden_iff {ofName : String → Option J} {p : Plan} (o : WOut) (n : WNode J)
    (hw : wireOf ofName p o = some n) : (∃ r, n = .hidden r) ↔ o.node % 2 = 1 := by
  unfold wireOf at hw
  by_cases h2 : o.node % 2 = 1
  · rw [if_pos h2] at hw
    refine ⟨fun _ => h2, fun _ => ?_⟩
    split at hw
    · cases hw; exact ⟨_, rfl⟩
    · cases hw; exact ⟨_, rfl⟩
    · cases hw
  · rw [if_neg h2] at hw
    refine ⟨fun ⟨r, hr⟩ => ?_, fun h => absurd h h2⟩
    subst hr
    exfalso
    split at hw <;> first | cases hw | (simp at hw)

theorem encKey_fst (p : Plan) (an : Array Annot) (t : Nat) (k : Bool × Nat)
    (h : encKey p an true t = some k) : (k.1 = true ↔ t % 2 = 1) := by
  by_cases h2 : t % 2 = 1
  · exact ⟨fun _ => h2, fun _ => encKey_odd_fst p an true t h2 k h⟩
  · refine ⟨fun hk => ?_, fun h' => absurd h' h2⟩
    exfalso
    unfold encKey at h
    rw [if_neg h2] at h
    split at h
    · simp at h; rw [← h] at hk; cases hk
    · cases h

/-- hashes of assertions are 256-bit numbers -/
def HashOk (p : Plan) : Prop := ∀ (i a h : Nat),
  (p[i]? = some (.assertl a h) ∨ p[i]? = some (.assertr h a)) → h < 2 ^ 256

/-- **`convert` accepts the node list the encoder writes** (redeem mode; any plan with backward
references, wire-size payloads, 256-bit assertion hashes and congruent sharing identities) -/
theorem enc_convert (nameOf : J → String) (ofName : String → Option J) (p : Plan) (an : Array Annot)
    (hsz : an.size = p.size) (hpos : 0 < p.size)
    (hb : PlanBackward p) (hh : HashOk p) (hcong : EncCongr p an) (N : List (WNode J))
    (hm : (walk (encChildren p true) (encKey p an true) (2 * p.size + 2) (2 * (p.size - 1))
      ⟨#[], [], 0⟩).1.outs.toList.mapM (wireOf ofName p) = some N) :
    ∃ q, convert nameOf N.toArray = .ok q := by
  have htot := encKey_total p an hsz
  have hcl : ∀ t, EncDom p t → ∀ c ∈ encChildren p true t, EncDom p c :=
    fun t ht c hc => ((encDom_children p hb t ht).2 c hc).1
  have hlen : ∀ t, EncDom p t → (encChildren p true t).length ≤ 2 := fun t ht => (encDom_children p hb t ht).1
  have hrk : ∀ t, EncDom p t → ∀ c ∈ encChildren p true t, encRk c < encRk t :=
    fun t ht c hc => ((encDom_children p hb t ht).2 c hc).2
  have hroot : EncDom p (2 * (p.size - 1)) := .inl ⟨two_mul_mod _, by rw [two_mul_div]; omega⟩
  have hfuel : encRk (2 * (p.size - 1)) < 2 * p.size + 2 := by
    unfold encRk; rw [if_pos (two_mul_mod _)]; omega
  obtain ⟨hOpos, hg, hrootpos, _, _⟩ := walk_self_canonical htot hcl hlen hrk hcong
    (2 * p.size + 2) (2 * (p.size - 1)) hroot hfuel
  obtain ⟨_, hcr⟩ := walk_good htot hcl hrk (2 * p.size + 2) (2 * (p.size - 1)) ⟨#[], [], 0⟩ hroot hfuel
    (good_empty _ _ _)
  generalize hS : (walk (encChildren p true) (encKey p an true) (2 * p.size + 2) (2 * (p.size - 1))
    ⟨#[], [], 0⟩).1 = S at hm hOpos hg hrootpos hcr
  obtain ⟨hNlen, hNget⟩ := mapM_some_inv _ _ _ hm
  have hNlen' : N.length = S.outs.size := by simpa using hNlen
  -- items and wire nodes correspond
  have hget : ∀ (j : Nat) (n : WNode J), N.toArray[j]? = some n →
      ∃ o, S.outs.toList[j]? = some o ∧ wireOf ofName p o = some n := by
    intro j n hn
    have hn' : N[j]? = some n := by simpa using hn
    have hj : j < S.outs.toList.length := by
      rcases Nat.lt_or_ge j N.length with h' | h'
      · rw [hNlen] at h'; exact h'
      · rw [List.getElem?_eq_none h'] at hn'; cases hn'
    obtain ⟨b, hb', hwb⟩ := hNget j _ (List.getElem?_eq_getElem hj)
    rw [hn'] at hb'; cases hb'
    exact ⟨_, List.getElem?_eq_getElem hj, hwb⟩
  -- whether the node at the position of a class is hidden
  have hhid : ∀ (c i : Nat), EncDom p c → Cls (encKey p an true) S c i →
      (c % 2 = 0 → hiddenAt N.toArray i = none) ∧ (c % 2 = 1 → (hiddenAt N.toArray i).isSome) := by
    intro c i hc hcls
    obtain ⟨k, hk⟩ := Option.isSome_iff_exists.mp (htot c hc)
    obtain ⟨o, ho, hko⟩ := hg.seen k i (hcls k hk)
    obtain ⟨n, hn, hwn⟩ := hNget i o ho
    have hpar : o.node % 2 = 1 ↔ c % 2 = 1 := by
      rw [← encKey_fst p an _ k hko, ← encKey_fst p an _ k hk]
    have hiff := wireOf_hidden_iff o n hwn
    have hA : N.toArray[i]? = some n := by simpa using hn
    constructor
    · intro hc0
      unfold hiddenAt
      rw [hA]
      cases n
      case hidden r => exact absurd (hpar.mp (hiff.mp ⟨r, rfl⟩)) (by omega)
      all_goals rfl
    · intro hc1
      obtain ⟨r, rfl⟩ := hiff.mpr (hpar.mpr hc1)
      rw [hiddenAt_hidden hA]; rfl
  apply convert_intro
  · -- every node converts
    intro j n hn
    obtain ⟨o, ho, hwn⟩ := hget j n hn
    obtain ⟨hDo, hkids⟩ := hg.kids j o ho
    obtain ⟨node, index, li, ri⟩ := o
    simp only at hDo
    by_cases h2 : node % 2 = 1
    · obtain ⟨r, rfl⟩ := (wireOf_hidden_iff _ n hwn).mpr h2
      exact ⟨_, rfl⟩
    · have hchD := hcl node hDo
      unfold wireOf at hwn
      unfold KidsOK at hkids
      simp only at hwn hkids
      rw [if_neg h2] at hwn
      unfold encChildren at hkids hchD
      rw [if_neg h2] at hkids hchD
      have vis : ∀ c i, c ∈ ([] : List Nat) ∨ True → EncDom p (2 * c) → Cls (encKey p an true) S (2 * c) i →
          needVisible N.toArray i = .ok () := by
        intro c i _ hc hcls
        unfold needVisible
        rw [(hhid (2 * c) i hc hcls).1 (two_mul_mod c)]; rfl
      cases hp : p[node / 2]? with
      | none => rw [hp] at hwn; simp at hwn
      | some nd =>
        rw [hp] at hwn hkids hchD
        cases nd
        case disconnect a b =>
          cases b with
          | none =>
            simp only at hkids hchD
            obtain ⟨hr, i, hl, _, hc1⟩ := hkids
            subst hr hl
            simp at hwn; subst hwn
            simp [convNode, vis a i (.inr trivial) (hchD _ (by simp)) hc1]
          | some b =>
            simp only [if_true] at hkids hchD
            obtain ⟨i, j', hl, hr, _, _, hc1, hc2⟩ := hkids
            subst hl hr
            simp at hwn; subst hwn
            simp [convNode, vis a i (.inr trivial) (hchD _ (by simp)) hc1,
              vis b j' (.inr trivial) (hchD _ (by simp)) hc2]
        case hidden h => simp at hwn
        case iden | unit | witness | fail e | word k bits =>
          simp at hwn; subst hwn; exact ⟨_, rfl⟩
        case jet name =>
          simp at hwn
          obtain ⟨j0, _, rfl⟩ := hwn
          exact ⟨_, rfl⟩
        case injl c | injr c | take c | drop c =>
          simp only at hkids hchD
          obtain ⟨hr, i, hl, _, hc1⟩ := hkids
          subst hr hl
          simp at hwn; subst hwn
          simp [convNode, vis c i (.inr trivial) (hchD _ (by simp)) hc1]
        case comp a b | pair a b =>
          simp only at hkids hchD
          obtain ⟨i, j', hl, hr, _, _, hc1, hc2⟩ := hkids
          subst hl hr
          simp at hwn; subst hwn
          simp [convNode, vis a i (.inr trivial) (hchD _ (by simp)) hc1,
            vis b j' (.inr trivial) (hchD _ (by simp)) hc2]
        case case a b =>
          simp only at hkids hchD
          obtain ⟨i, j', hl, hr, _, _, hc1, hc2⟩ := hkids
          subst hl hr
          simp at hwn; subst hwn
          have h1 := (hhid (2 * a) i (hchD _ (by simp)) hc1).1 (two_mul_mod a)
          have h2' := (hhid (2 * b) j' (hchD _ (by simp)) hc2).1 (two_mul_mod b)
          simp [convNode, h1, h2']
        case assertl a h =>
          simp only at hkids hchD
          obtain ⟨i, j', hl, hr, _, _, hc1, hc2⟩ := hkids
          subst hl hr
          simp at hwn; subst hwn
          have h1 := (hhid (2 * a) i (hchD _ (by simp)) hc1).1 (two_mul_mod a)
          have h2' := (hhid (node + 1) j' (hchD _ (by simp)) hc2).2 (by omega)
          obtain ⟨x, hx⟩ := Option.isSome_iff_exists.mp h2'
          simp [convNode, h1, hx]
        case assertr h b =>
          simp only at hkids hchD
          obtain ⟨i, j', hl, hr, _, _, hc1, hc2⟩ := hkids
          subst hl hr
          simp at hwn; subst hwn
          have h1 := (hhid (node + 1) i (hchD _ (by simp)) hc1).2 (by omega)
          have h2' := (hhid (2 * b) j' (hchD _ (by simp)) hc2).1 (two_mul_mod b)
          obtain ⟨x, hx⟩ := Option.isSome_iff_exists.mp h1
          simp [convNode, h2', hx]
  · -- hidden roots are pairwise different
    intro i j r r' hi hj he
    obtain ⟨o, ho, hwo⟩ := hget i _ hi
    obtain ⟨o', ho', hwo'⟩ := hget j _ hj
    have hodd := (wireOf_hidden_iff o _ hwo).mp ⟨r, rfl⟩
    have hodd' := (wireOf_hidden_iff o' _ hwo').mp ⟨r', rfl⟩
    -- the hashes
    have hash : ∀ (o : WOut) (r : List Bool), o.node % 2 = 1 → wireOf ofName p o = some (.hidden r) →
        ∃ h, h < 2 ^ 256 ∧ r = natBits256 h ∧ encKey p an true o.node = some (true, h) := by
      intro o r h2 hw
      unfold wireOf at hw
      rw [if_pos h2] at hw
      unfold encKey
      rw [if_pos h2]
      split at hw
      · next a h hp => simp at hw; exact ⟨h, hh _ a h (.inl hp), hw.symm, by first | rfl | rw [hp]⟩
      · next h a hp => simp at hw; exact ⟨h, hh _ a h (.inr hp), hw.symm, by first | rfl | rw [hp]⟩
      · cases hw
    obtain ⟨h, hlt, hr, hk⟩ := hash o r hodd hwo
    obtain ⟨h', hlt', hr', hk'⟩ := hash o' r' hodd' hwo'
    have e1 : r = r' := by
      have a := natBits256_bitsNat r (by rw [hr]; exact natBits256_length _)
      have b := natBits256_bitsNat r' (by rw [hr']; exact natBits256_length _)
      rw [← a, ← b, he]
    have e2 : h = h' := natBits256_inj h h' hlt hlt' (by rw [← hr, ← hr', e1])
    subst e2
    have a := hg.item i o ho _ hk
    have b := hg.item j o' ho' _ hk'
    rw [a] at b; cases b; rfl
  · -- the root is not hidden
    have hcls : Cls (encKey p an true) S (2 * (p.size - 1)) (S.outs.size - 1) := by
      intro k hk
      have hp := hrootpos
      unfold clsPos at hp
      rw [hk] at hp
      simp only at hp
      have := hcr k hk
      rw [this] at hp
      simp at hp
      rw [this, hp]
    have := (hhid _ _ hroot hcls).1 (two_mul_mod _)
    simpa [hNlen'] using this

#print axioms enc_convert

end Prog
