/-
The two transcriptions of `src/types/arrow.rs` agree: the equations of the operations a node
constructor performs on the union-bound context (`nodeOps`, over element indices) and the equations
of the specification (`nodeEqns`, over `src i`/`tgt i`/fresh variables) have the same solutions on
the arrows of the nodes.  Per node kind, then glued over a whole plan in any construction order.
-/
import SimplicityModel.Prog.InferUBProps

set_option linter.unusedSimpArgs false
set_option linter.unusedVariables false

namespace Prog
open UB Inf

/-- an assignment of arrows to nodes as an assignment of the variables `src j = 2j`, `tgt j = 2j+1` -/
def enc (σ : Nat → Inf.Ty × Inf.Ty) (v : Nat) : Inf.Ty :=
  if v % 2 = 0 then (σ (v / 2)).1 else (σ (v / 2)).2

@[simp] theorem enc_src (σ : Nat → Inf.Ty × Inf.Ty) (j : Nat) : enc σ (2 * j) = (σ j).1 := by
  simp [enc]

@[simp] theorem enc_tgt (σ : Nat → Inf.Ty × Inf.Ty) (j : Nat) : enc σ (2 * j + 1) = (σ j).2 := by
  have h1 : (2 * j + 1) % 2 = 1 := by omega
  have h2 : (2 * j + 1) / 2 = j := by omega
  simp [enc, h1, h2]

/-- `ρ'` gives the nodes `j < n` the arrows `σ j` -/
def Agree (n : Nat) (ρ' : Nat → Inf.Ty) (σ : Nat → Inf.Ty × Inf.Ty) : Prop :=
  ∀ j, j < n → ρ' (2 * j) = (σ j).1 ∧ ρ' (2 * j + 1) = (σ j).2

/-- the typing rule of node `i` holds for the arrows `σ`: its specification equations (fresh
variables from `f`) have a solution that gives the nodes the arrows `σ` -/
def NodeRule (jt : JetTypes) (n i : Nat) (nd : Node) (f : Nat) (σ : Nat → Inf.Ty × Inf.Ty) : Prop :=
  ∃ es f', nodeEqns jt i nd f = some (es, f') ∧ ∃ ρ', Agree n ρ' σ ∧ Sol ρ' es

/-- arrows `σ` on the node variables, `φ` on the fresh variables `f, f+1, …` -/
def glueRef (n f : Nat) (σ : Nat → Inf.Ty × Inf.Ty) (φ : Nat → Inf.Ty) (v : Nat) : Inf.Ty :=
  if v < 2 * n then enc σ v else φ (v - f)

theorem glueRef_agree (n f : Nat) (σ) (φ) : Agree n (glueRef n f σ φ) σ := by
  intro j hj
  have h1 : 2 * j < 2 * n := by omega
  have h2 : 2 * j + 1 < 2 * n := by omega
  simp [glueRef, h1, h2]

theorem glueRef_src {n f : Nat} {σ φ} {j : Nat} (hj : j < n) : glueRef n f σ φ (2 * j) = (σ j).1 :=
  ((glueRef_agree n f σ φ) j hj).1

theorem glueRef_tgt {n f : Nat} {σ φ} {j : Nat} (hj : j < n) : glueRef n f σ φ (2 * j + 1) = (σ j).2 :=
  ((glueRef_agree n f σ φ) j hj).2

theorem glueRef_fresh {n f : Nat} {σ φ} (hf : 2 * n ≤ f) (m : Nat) : glueRef n f σ φ (f + m) = φ m := by
  have h1 : ¬ f + m < 2 * n := by omega
  simp [glueRef, h1]

theorem glueRef_fresh0 {n f : Nat} {σ φ} (hf : 2 * n ≤ f) : glueRef n f σ φ f = φ 0 :=
  glueRef_fresh (m := 0) hf

/-- old elements from `ρ₀`, the new elements `k, k+1, …` from `ψ` -/
def glueUB (k : Nat) (ρ₀ : Nat → Inf.Ty) (ψ : Nat → Inf.Ty) (x : Nat) : Inf.Ty :=
  if x < k then ρ₀ x else ψ (x - k)

theorem glueUB_old {k : Nat} {ρ₀ ψ} {x : Nat} (h : x < k) : glueUB k ρ₀ ψ x = ρ₀ x := by
  simp [glueUB, h]

theorem glueUB_new {k : Nat} {ρ₀ ψ} (m : Nat) : glueUB k ρ₀ ψ (k + m) = ψ m := by
  have : ¬ k + m < k := by omega
  simp [glueUB, this]

theorem glueUB_new0 {k : Nat} {ρ₀ ψ} : glueUB k ρ₀ ψ k = ψ 0 := glueUB_new (k := k) 0

theorem tmOfTy_eval (ρ : Nat → Inf.Ty) (t : BM4.Ty) : (tmOfTy t).eval ρ = infOfTy t := by
  induction t with
  | one => rfl
  | sum a b iha ihb => simp [tmOfTy, infOfTy, Tm.eval, iha, ihb]
  | prod a b iha ihb => simp [tmOfTy, infOfTy, Tm.eval, iha, ihb]

theorem tmOfTy_occurs (t : BM4.Ty) (v : Nat) : (tmOfTy t).occurs v = false := by
  induction t with
  | one => rfl
  | sum a b iha ihb => simp [tmOfTy, Tm.occurs, iha, ihb]
  | prod a b iha ihb => simp [tmOfTy, Tm.occurs, iha, ihb]

theorem tmOfInf_occurs (t : Inf.Ty) (v : Nat) : (tmOfInf t).occurs v = false := by
  induction t with
  | one => rfl
  | sum a b iha ihb => simp [tmOfInf, Tm.occurs, iha, ihb]
  | prod a b iha ihb => simp [tmOfInf, Tm.occurs, iha, ihb]

/-! ### one node: operations on the context ⟷ specification equations

The per-kind content of the tie: the two transcriptions of each `Arrow::…` constructor describe the
same relation between the arrows of the children and the arrow of the node. -/

/-- a solution of the operations' equations gives arrows that satisfy the node's typing rule -/
theorem node_ub_to_rule (jt : JetTypes) (n i : Nat) (nd : Node) (f : Nat) (σ : Nat → Inf.Ty × Inf.Ty)
    (k : Nat) (arrow : Nat → Option ElemArrow) (ops : List Op) (ar : ElemArrow) (ρ : Nat → Inf.Ty)
    (hf : 2 * n ≤ f) (hi : i < n)
    (hops : nodeOps jt arrow k nd = some (ops, ar))
    (hsol : Sol ρ (opsEqns k ops))
    (hch : ∀ c s t, arrow c = some (s, t) → c ∈ nd.children → c < n ∧ σ c = (ρ s, ρ t))
    (hown : σ i = (ρ ar.1, ρ ar.2)) :
    NodeRule jt n i nd f σ := by
  cases nd with
  | iden =>
    simp only [nodeOps, Option.some.injEq, Prod.mk.injEq] at hops
    obtain ⟨rfl, rfl⟩ := hops
    refine ⟨_, _, rfl, glueRef n f σ (fun _ => .one), glueRef_agree _ _ _ _, ?_⟩
    simp [Sol, src, tgt, Tm.eval, tmOfTy_eval, glueRef_src hi, glueRef_tgt hi, glueRef_fresh0 hf, glueRef_fresh hf, hown]
  | unit =>
    simp only [nodeOps, Option.some.injEq, Prod.mk.injEq] at hops
    obtain ⟨rfl, rfl⟩ := hops
    simp [opsEqns, opEqn, Sol, Tm.eval, tmOfInf] at hsol
    refine ⟨_, _, rfl, glueRef n f σ (fun _ => .one), glueRef_agree _ _ _ _, ?_⟩
    simp [Sol, src, tgt, Tm.eval, tmOfTy_eval, glueRef_src hi, glueRef_tgt hi, glueRef_fresh0 hf, glueRef_fresh hf, hown, hsol]
  | witness =>
    refine ⟨_, _, rfl, glueRef n f σ (fun _ => .one), glueRef_agree _ _ _ _, ?_⟩
    simp [Sol]
  | fail e =>
    refine ⟨_, _, rfl, glueRef n f σ (fun _ => .one), glueRef_agree _ _ _ _, ?_⟩
    simp [Sol]
  | hidden h =>
    refine ⟨_, _, rfl, glueRef n f σ (fun _ => .one), glueRef_agree _ _ _ _, ?_⟩
    simp [Sol]
  | word w bits =>
    simp only [nodeOps, Option.some.injEq, Prod.mk.injEq] at hops
    obtain ⟨rfl, rfl⟩ := hops
    simp [opsEqns, opEqn, Sol, Tm.eval, tmOfInf] at hsol
    refine ⟨_, _, rfl, glueRef n f σ (fun _ => .one), glueRef_agree _ _ _ _, ?_⟩
    simp [Sol, src, tgt, Tm.eval, tmOfTy_eval, glueRef_src hi, glueRef_tgt hi, glueRef_fresh0 hf, glueRef_fresh hf, hown, hsol]
  | jet name =>
    simp only [nodeOps] at hops
    cases hj : jt name with
    | none => simp [hj] at hops
    | some st =>
      obtain ⟨s, t⟩ := st
      simp only [hj, Option.map_some, Option.some.injEq, Prod.mk.injEq] at hops
      obtain ⟨rfl, rfl⟩ := hops
      simp [opsEqns, opEqn, Sol, Tm.eval] at hsol
      refine ⟨[(src i, tmOfTy s), (tgt i, tmOfTy t)], f, by simp [nodeEqns, hj], glueRef n f σ (fun _ => .one), glueRef_agree _ _ _ _, ?_⟩
      simp [Sol, src, tgt, Tm.eval, tmOfTy_eval, glueRef_src hi, glueRef_tgt hi, glueRef_fresh0 hf, glueRef_fresh hf, hown, hsol]
  | injl c =>
    simp only [nodeOps] at hops
    cases harr : arrow c with
    | none => simp [harr] at hops
    | some a =>
      obtain ⟨cs, ct⟩ := a
      simp only [harr, Option.map_some, Option.some.injEq, Prod.mk.injEq] at hops
      obtain ⟨rfl, rfl⟩ := hops
      obtain ⟨hc, hσc⟩ := hch c cs ct harr (by simp [Node.children])
      simp [opsEqns, opEqn, Sol, Tm.eval] at hsol
      refine ⟨_, _, rfl, glueRef n f σ (fun _ => ρ k), glueRef_agree _ _ _ _, ?_⟩
      simp [Sol, src, tgt, Tm.eval, tmOfTy_eval, glueRef_src hi, glueRef_tgt hi, glueRef_fresh0 hf, glueRef_fresh hf, hown, glueRef_src hc, glueRef_tgt hc, hσc, hsol]
  | injr c =>
    simp only [nodeOps] at hops
    cases harr : arrow c with
    | none => simp [harr] at hops
    | some a =>
      obtain ⟨cs, ct⟩ := a
      simp only [harr, Option.map_some, Option.some.injEq, Prod.mk.injEq] at hops
      obtain ⟨rfl, rfl⟩ := hops
      obtain ⟨hc, hσc⟩ := hch c cs ct harr (by simp [Node.children])
      simp [opsEqns, opEqn, Sol, Tm.eval] at hsol
      refine ⟨_, _, rfl, glueRef n f σ (fun _ => ρ k), glueRef_agree _ _ _ _, ?_⟩
      simp [Sol, src, tgt, Tm.eval, tmOfTy_eval, glueRef_src hi, glueRef_tgt hi, glueRef_fresh0 hf, glueRef_fresh hf, hown, glueRef_src hc, glueRef_tgt hc, hσc, hsol]
  | take c =>
    simp only [nodeOps] at hops
    cases harr : arrow c with
    | none => simp [harr] at hops
    | some a =>
      obtain ⟨cs, ct⟩ := a
      simp only [harr, Option.map_some, Option.some.injEq, Prod.mk.injEq] at hops
      obtain ⟨rfl, rfl⟩ := hops
      obtain ⟨hc, hσc⟩ := hch c cs ct harr (by simp [Node.children])
      simp [opsEqns, opEqn, Sol, Tm.eval] at hsol
      refine ⟨_, _, rfl, glueRef n f σ (fun _ => ρ k), glueRef_agree _ _ _ _, ?_⟩
      simp [Sol, src, tgt, Tm.eval, tmOfTy_eval, glueRef_src hi, glueRef_tgt hi, glueRef_fresh0 hf, glueRef_fresh hf, hown, glueRef_src hc, glueRef_tgt hc, hσc, hsol]
  | drop c =>
    simp only [nodeOps] at hops
    cases harr : arrow c with
    | none => simp [harr] at hops
    | some a =>
      obtain ⟨cs, ct⟩ := a
      simp only [harr, Option.map_some, Option.some.injEq, Prod.mk.injEq] at hops
      obtain ⟨rfl, rfl⟩ := hops
      obtain ⟨hc, hσc⟩ := hch c cs ct harr (by simp [Node.children])
      simp [opsEqns, opEqn, Sol, Tm.eval] at hsol
      refine ⟨_, _, rfl, glueRef n f σ (fun _ => ρ k), glueRef_agree _ _ _ _, ?_⟩
      simp [Sol, src, tgt, Tm.eval, tmOfTy_eval, glueRef_src hi, glueRef_tgt hi, glueRef_fresh0 hf, glueRef_fresh hf, hown, glueRef_src hc, glueRef_tgt hc, hσc, hsol]
  | comp a b =>
    simp only [nodeOps, Bind.bind, Option.bind] at hops
    cases harr : arrow a with
    | none => simp [harr] at hops
    | some aa =>
      obtain ⟨as, at'⟩ := aa
      cases hbrr : arrow b with
      | none => simp [harr, hbrr] at hops
      | some bb =>
        obtain ⟨bs, bt⟩ := bb
        simp [harr, hbrr, forCaseOps, forDisconnectOps] at hops
        obtain ⟨rfl, rfl⟩ := hops
        obtain ⟨ha, hσa⟩ := hch a as at' harr (by simp [Node.children])
        obtain ⟨hb, hσb⟩ := hch b bs bt hbrr (by simp [Node.children])
        simp [opsEqns, opEqn, Sol, Tm.eval, Nat.add_assoc, tmOfInf_eval] at hsol
        refine ⟨_, _, rfl, glueRef n f σ (fun _ => .one), glueRef_agree _ _ _ _, ?_⟩
        simp [Sol, src, tgt, Tm.eval, tmOfTy_eval, glueRef_src hi, glueRef_tgt hi, glueRef_fresh0 hf, glueRef_fresh hf, hown, glueRef_src ha, glueRef_tgt ha, glueRef_src hb, glueRef_tgt hb, hσa, hσb, hsol]
  | pair a b =>
    simp only [nodeOps, Bind.bind, Option.bind] at hops
    cases harr : arrow a with
    | none => simp [harr] at hops
    | some aa =>
      obtain ⟨as, at'⟩ := aa
      cases hbrr : arrow b with
      | none => simp [harr, hbrr] at hops
      | some bb =>
        obtain ⟨bs, bt⟩ := bb
        simp [harr, hbrr, forCaseOps, forDisconnectOps] at hops
        obtain ⟨rfl, rfl⟩ := hops
        obtain ⟨ha, hσa⟩ := hch a as at' harr (by simp [Node.children])
        obtain ⟨hb, hσb⟩ := hch b bs bt hbrr (by simp [Node.children])
        simp [opsEqns, opEqn, Sol, Tm.eval, Nat.add_assoc, tmOfInf_eval] at hsol
        refine ⟨_, _, rfl, glueRef n f σ (fun _ => .one), glueRef_agree _ _ _ _, ?_⟩
        simp [Sol, src, tgt, Tm.eval, tmOfTy_eval, glueRef_src hi, glueRef_tgt hi, glueRef_fresh0 hf, glueRef_fresh hf, hown, glueRef_src ha, glueRef_tgt ha, glueRef_src hb, glueRef_tgt hb, hσa, hσb, hsol]
  | case a b =>
    simp only [nodeOps, Bind.bind, Option.bind] at hops
    cases harr : arrow a with
    | none => simp [harr] at hops
    | some aa =>
      obtain ⟨as, at'⟩ := aa
      cases hbrr : arrow b with
      | none => simp [harr, hbrr] at hops
      | some bb =>
        obtain ⟨bs, bt⟩ := bb
        simp [harr, hbrr, forCaseOps, forDisconnectOps] at hops
        obtain ⟨rfl, rfl⟩ := hops
        obtain ⟨ha, hσa⟩ := hch a as at' harr (by simp [Node.children])
        obtain ⟨hb, hσb⟩ := hch b bs bt hbrr (by simp [Node.children])
        simp [opsEqns, opEqn, Sol, Tm.eval, Nat.add_assoc, tmOfInf_eval] at hsol
        refine ⟨_, _, rfl, glueRef n f σ (fun m => if m = 0 then ρ k else if m = 1 then ρ (k + 1) else ρ (k + 2)), glueRef_agree _ _ _ _, ?_⟩
        simp [Sol, src, tgt, Tm.eval, tmOfTy_eval, glueRef_src hi, glueRef_tgt hi, glueRef_fresh0 hf, glueRef_fresh hf, hown, glueRef_src ha, glueRef_tgt ha, glueRef_src hb, glueRef_tgt hb, hσa, hσb, hsol]
        exact hsol.2.2.2.1.symm.trans hsol.2.2.2.2.2
  | assertl a h =>
    simp only [nodeOps, Bind.bind, Option.bind] at hops
    cases harr : arrow a with
    | none => simp [harr] at hops
    | some aa =>
      obtain ⟨as, at'⟩ := aa
      simp [harr, forCaseOps, forDisconnectOps] at hops
      obtain ⟨rfl, rfl⟩ := hops
      obtain ⟨ha, hσa⟩ := hch a as at' harr (by simp [Node.children])
      simp [opsEqns, opEqn, Sol, Tm.eval, Nat.add_assoc, tmOfInf_eval] at hsol
      refine ⟨_, _, rfl, glueRef n f σ (fun m => if m = 0 then ρ k else if m = 1 then ρ (k + 1) else ρ (k + 2)), glueRef_agree _ _ _ _, ?_⟩
      simp [Sol, src, tgt, Tm.eval, tmOfTy_eval, glueRef_src hi, glueRef_tgt hi, glueRef_fresh0 hf, glueRef_fresh hf, hown, glueRef_src ha, glueRef_tgt ha, hσa, hsol]
  | assertr h a =>
    simp only [nodeOps, Bind.bind, Option.bind] at hops
    cases harr : arrow a with
    | none => simp [harr] at hops
    | some aa =>
      obtain ⟨as, at'⟩ := aa
      simp [harr, forCaseOps, forDisconnectOps] at hops
      obtain ⟨rfl, rfl⟩ := hops
      obtain ⟨ha, hσa⟩ := hch a as at' harr (by simp [Node.children])
      simp [opsEqns, opEqn, Sol, Tm.eval, Nat.add_assoc, tmOfInf_eval] at hsol
      refine ⟨_, _, rfl, glueRef n f σ (fun m => if m = 0 then ρ k else if m = 1 then ρ (k + 1) else ρ (k + 2)), glueRef_agree _ _ _ _, ?_⟩
      simp [Sol, src, tgt, Tm.eval, tmOfTy_eval, glueRef_src hi, glueRef_tgt hi, glueRef_fresh0 hf, glueRef_fresh hf, hown, glueRef_src ha, glueRef_tgt ha, hσa, hsol]
  | disconnect a ob =>
    cases ob with
    | some b =>
      simp only [nodeOps, Bind.bind, Option.bind] at hops
      cases harr : arrow a with
      | none => simp [harr] at hops
      | some aa =>
        obtain ⟨as, at'⟩ := aa
        cases hbrr : arrow b with
        | none => simp [harr, hbrr] at hops
        | some bb =>
          obtain ⟨bs, bt⟩ := bb
          simp [harr, hbrr, forCaseOps, forDisconnectOps] at hops
          obtain ⟨rfl, rfl⟩ := hops
          obtain ⟨ha, hσa⟩ := hch a as at' harr (by simp [Node.children])
          obtain ⟨hb, hσb⟩ := hch b bs bt hbrr (by simp [Node.children])
          simp [opsEqns, opEqn, Sol, Tm.eval, Nat.add_assoc, tmOfInf_eval] at hsol
          refine ⟨_, _, rfl, glueRef n f σ (fun m => if m = 0 then ρ k else ρ (k + 1)), glueRef_agree _ _ _ _, ?_⟩
          simp [Sol, src, tgt, Tm.eval, tmOfTy_eval, glueRef_src hi, glueRef_tgt hi, glueRef_fresh0 hf, glueRef_fresh hf, hown, glueRef_src ha, glueRef_tgt ha, glueRef_src hb, glueRef_tgt hb, hσa, hσb, hsol]
    | none =>
      simp only [nodeOps, Bind.bind, Option.bind] at hops
      cases harr : arrow a with
      | none => simp [harr] at hops
      | some aa =>
        obtain ⟨as, at'⟩ := aa
        simp [harr, forCaseOps, forDisconnectOps] at hops
        obtain ⟨rfl, rfl⟩ := hops
        obtain ⟨ha, hσa⟩ := hch a as at' harr (by simp [Node.children])
        simp [opsEqns, opEqn, Sol, Tm.eval, Nat.add_assoc, tmOfInf_eval] at hsol
        refine ⟨_, _, rfl, glueRef n f σ (fun m => if m = 0 then ρ (k + 2) else if m = 1 then ρ (k + 3) else if m = 2 then ρ k else ρ (k + 1)), glueRef_agree _ _ _ _, ?_⟩
        simp [Sol, src, tgt, Tm.eval, tmOfTy_eval, glueRef_src hi, glueRef_tgt hi, glueRef_fresh0 hf, glueRef_fresh hf, hown, glueRef_src ha, glueRef_tgt ha, hσa, hsol]

/-- arrows that satisfy the node's typing rule extend any assignment of the existing elements to a
solution of the operations' equations on the new elements -/
theorem node_rule_to_ub (jt : JetTypes) (n i : Nat) (nd : Node) (f : Nat) (σ : Nat → Inf.Ty × Inf.Ty)
    (k : Nat) (arrow : Nat → Option ElemArrow) (ops : List Op) (ar : ElemArrow) (ρ₀ : Nat → Inf.Ty)
    (hf : 2 * n ≤ f) (hi : i < n)
    (hrule : NodeRule jt n i nd f σ)
    (hops : nodeOps jt arrow k nd = some (ops, ar))
    (hch : ∀ c s t, arrow c = some (s, t) → c ∈ nd.children →
      c < n ∧ s < k ∧ t < k ∧ σ c = (ρ₀ s, ρ₀ t)) :
    ∃ ρ₁ : Nat → Inf.Ty, (∀ x, x < k → ρ₁ x = ρ₀ x) ∧ Sol ρ₁ (opsEqns k ops) ∧
      σ i = (ρ₁ ar.1, ρ₁ ar.2) := by
  cases nd with
  | iden =>
    obtain ⟨es, f', hes, ρ', hag, hs⟩ := hrule
    simp only [nodeEqns, Option.some.injEq, Prod.mk.injEq] at hes
    obtain ⟨rfl, rfl⟩ := hes
    simp [Sol, Tm.eval, src, tgt, tmOfTy_eval, (hag i hi).1, (hag i hi).2] at hs
    simp only [nodeOps, Option.some.injEq, Prod.mk.injEq] at hops
    obtain ⟨rfl, rfl⟩ := hops
    refine ⟨glueUB k ρ₀ (fun _ => (σ i).1), fun x hx => glueUB_old hx, ?_, ?_⟩
    · simp [opsEqns, opEqn, Sol, Tm.eval, Nat.add_assoc, tmOfInf_eval, glueUB_new, glueUB_new0, hs]
    · simp [glueUB_new, glueUB_new0, hs, Prod.ext_iff]
  | unit =>
    obtain ⟨es, f', hes, ρ', hag, hs⟩ := hrule
    simp only [nodeEqns, Option.some.injEq, Prod.mk.injEq] at hes
    obtain ⟨rfl, rfl⟩ := hes
    simp [Sol, Tm.eval, src, tgt, tmOfTy_eval, (hag i hi).1, (hag i hi).2] at hs
    simp only [nodeOps, Option.some.injEq, Prod.mk.injEq] at hops
    obtain ⟨rfl, rfl⟩ := hops
    refine ⟨glueUB k ρ₀ (fun m => if m = 0 then (σ i).1 else .one), fun x hx => glueUB_old hx, ?_, ?_⟩
    · simp [opsEqns, opEqn, Sol, Tm.eval, Nat.add_assoc, tmOfInf_eval, glueUB_new, glueUB_new0, hs]
    · simp [glueUB_new, glueUB_new0, hs, Prod.ext_iff]
  | witness =>
    obtain ⟨es, f', hes, ρ', hag, hs⟩ := hrule
    simp only [nodeEqns, Option.some.injEq, Prod.mk.injEq] at hes
    obtain ⟨rfl, rfl⟩ := hes
    simp [Sol, Tm.eval, src, tgt, tmOfTy_eval, (hag i hi).1, (hag i hi).2] at hs
    simp only [nodeOps, Option.some.injEq, Prod.mk.injEq] at hops
    obtain ⟨rfl, rfl⟩ := hops
    refine ⟨glueUB k ρ₀ (fun m => if m = 0 then (σ i).1 else (σ i).2), fun x hx => glueUB_old hx, ?_, ?_⟩
    · simp [opsEqns, opEqn, Sol, Tm.eval, Nat.add_assoc, tmOfInf_eval, glueUB_new, glueUB_new0, hs]
    · simp [glueUB_new, glueUB_new0, hs, Prod.ext_iff]
  | fail e =>
    obtain ⟨es, f', hes, ρ', hag, hs⟩ := hrule
    simp only [nodeEqns, Option.some.injEq, Prod.mk.injEq] at hes
    obtain ⟨rfl, rfl⟩ := hes
    simp [Sol, Tm.eval, src, tgt, tmOfTy_eval, (hag i hi).1, (hag i hi).2] at hs
    simp only [nodeOps, Option.some.injEq, Prod.mk.injEq] at hops
    obtain ⟨rfl, rfl⟩ := hops
    refine ⟨glueUB k ρ₀ (fun m => if m = 0 then (σ i).1 else (σ i).2), fun x hx => glueUB_old hx, ?_, ?_⟩
    · simp [opsEqns, opEqn, Sol, Tm.eval, Nat.add_assoc, tmOfInf_eval, glueUB_new, glueUB_new0, hs]
    · simp [glueUB_new, glueUB_new0, hs, Prod.ext_iff]
  | hidden h =>
    obtain ⟨es, f', hes, ρ', hag, hs⟩ := hrule
    simp only [nodeEqns, Option.some.injEq, Prod.mk.injEq] at hes
    obtain ⟨rfl, rfl⟩ := hes
    simp [Sol, Tm.eval, src, tgt, tmOfTy_eval, (hag i hi).1, (hag i hi).2] at hs
    simp only [nodeOps, Option.some.injEq, Prod.mk.injEq] at hops
    obtain ⟨rfl, rfl⟩ := hops
    refine ⟨glueUB k ρ₀ (fun m => if m = 0 then (σ i).1 else (σ i).2), fun x hx => glueUB_old hx, ?_, ?_⟩
    · simp [opsEqns, opEqn, Sol, Tm.eval, Nat.add_assoc, tmOfInf_eval, glueUB_new, glueUB_new0, hs]
    · simp [glueUB_new, glueUB_new0, hs, Prod.ext_iff]
  | word w bits =>
    obtain ⟨es, f', hes, ρ', hag, hs⟩ := hrule
    simp only [nodeEqns, Option.some.injEq, Prod.mk.injEq] at hes
    obtain ⟨rfl, rfl⟩ := hes
    simp [Sol, Tm.eval, src, tgt, tmOfTy_eval, (hag i hi).1, (hag i hi).2] at hs
    simp only [nodeOps, Option.some.injEq, Prod.mk.injEq] at hops
    obtain ⟨rfl, rfl⟩ := hops
    refine ⟨glueUB k ρ₀ (fun m => if m = 0 then .one else infOfTy (wordTy w)), fun x hx => glueUB_old hx, ?_, ?_⟩
    · simp [opsEqns, opEqn, Sol, Tm.eval, Nat.add_assoc, tmOfInf_eval, glueUB_new, glueUB_new0, hs]
    · simp [glueUB_new, glueUB_new0, hs, Prod.ext_iff]
  | jet name =>
    obtain ⟨es, f', hes, ρ', hag, hs⟩ := hrule
    simp only [nodeOps] at hops
    cases hj : jt name with
    | none => simp [hj] at hops
    | some st =>
      obtain ⟨s, t⟩ := st
      simp only [nodeEqns, hj, Option.map_some, Option.some.injEq, Prod.mk.injEq] at hes
      obtain ⟨rfl, rfl⟩ := hes
      simp [Sol, Tm.eval, src, tgt, tmOfTy_eval, (hag i hi).1, (hag i hi).2] at hs
      simp only [hj, Option.map_some, Option.some.injEq, Prod.mk.injEq] at hops
      obtain ⟨rfl, rfl⟩ := hops
      refine ⟨glueUB k ρ₀ (fun m => if m = 0 then infOfTy s else infOfTy t), fun x hx => glueUB_old hx, ?_, ?_⟩
      · simp [opsEqns, opEqn, Sol, Tm.eval, Nat.add_assoc, tmOfInf_eval, glueUB_new, glueUB_new0, hs]
      · simp [glueUB_new, glueUB_new0, hs, Prod.ext_iff]
  | injl c =>
    obtain ⟨es, f', hes, ρ', hag, hs⟩ := hrule
    simp only [nodeEqns, Option.some.injEq, Prod.mk.injEq] at hes
    obtain ⟨rfl, rfl⟩ := hes
    simp only [nodeOps, Bind.bind, Option.bind] at hops
    cases harr : arrow c with
    | none => simp [harr] at hops
    | some aa =>
      obtain ⟨cs, ct⟩ := aa
      simp [harr, forCaseOps, forDisconnectOps] at hops
      obtain ⟨rfl, rfl⟩ := hops
      obtain ⟨hc, hcs, hct, hσc⟩ := hch c cs ct harr (by simp [Node.children])
      simp [Sol, Tm.eval, src, tgt, tmOfTy_eval, (hag i hi).1, (hag i hi).2, (hag c hc).1, (hag c hc).2, hσc] at hs
      refine ⟨glueUB k ρ₀ (fun m => if m = 0 then ρ' f else (σ i).2), fun x hx => glueUB_old hx, ?_, ?_⟩
      · simp [opsEqns, opEqn, Sol, Tm.eval, Nat.add_assoc, tmOfInf_eval, glueUB_new, glueUB_new0, glueUB_old hcs, glueUB_old hct, hs]
      · simp [Nat.add_assoc, glueUB_new, glueUB_new0, glueUB_old hcs, glueUB_old hct, hs, Prod.ext_iff]
  | injr c =>
    obtain ⟨es, f', hes, ρ', hag, hs⟩ := hrule
    simp only [nodeEqns, Option.some.injEq, Prod.mk.injEq] at hes
    obtain ⟨rfl, rfl⟩ := hes
    simp only [nodeOps, Bind.bind, Option.bind] at hops
    cases harr : arrow c with
    | none => simp [harr] at hops
    | some aa =>
      obtain ⟨cs, ct⟩ := aa
      simp [harr, forCaseOps, forDisconnectOps] at hops
      obtain ⟨rfl, rfl⟩ := hops
      obtain ⟨hc, hcs, hct, hσc⟩ := hch c cs ct harr (by simp [Node.children])
      simp [Sol, Tm.eval, src, tgt, tmOfTy_eval, (hag i hi).1, (hag i hi).2, (hag c hc).1, (hag c hc).2, hσc] at hs
      refine ⟨glueUB k ρ₀ (fun m => if m = 0 then ρ' f else (σ i).2), fun x hx => glueUB_old hx, ?_, ?_⟩
      · simp [opsEqns, opEqn, Sol, Tm.eval, Nat.add_assoc, tmOfInf_eval, glueUB_new, glueUB_new0, glueUB_old hcs, glueUB_old hct, hs]
      · simp [Nat.add_assoc, glueUB_new, glueUB_new0, glueUB_old hcs, glueUB_old hct, hs, Prod.ext_iff]
  | take c =>
    obtain ⟨es, f', hes, ρ', hag, hs⟩ := hrule
    simp only [nodeEqns, Option.some.injEq, Prod.mk.injEq] at hes
    obtain ⟨rfl, rfl⟩ := hes
    simp only [nodeOps, Bind.bind, Option.bind] at hops
    cases harr : arrow c with
    | none => simp [harr] at hops
    | some aa =>
      obtain ⟨cs, ct⟩ := aa
      simp [harr, forCaseOps, forDisconnectOps] at hops
      obtain ⟨rfl, rfl⟩ := hops
      obtain ⟨hc, hcs, hct, hσc⟩ := hch c cs ct harr (by simp [Node.children])
      simp [Sol, Tm.eval, src, tgt, tmOfTy_eval, (hag i hi).1, (hag i hi).2, (hag c hc).1, (hag c hc).2, hσc] at hs
      refine ⟨glueUB k ρ₀ (fun m => if m = 0 then ρ' f else (σ i).1), fun x hx => glueUB_old hx, ?_, ?_⟩
      · simp [opsEqns, opEqn, Sol, Tm.eval, Nat.add_assoc, tmOfInf_eval, glueUB_new, glueUB_new0, glueUB_old hcs, glueUB_old hct, hs]
      · simp [Nat.add_assoc, glueUB_new, glueUB_new0, glueUB_old hcs, glueUB_old hct, hs, Prod.ext_iff]
  | drop c =>
    obtain ⟨es, f', hes, ρ', hag, hs⟩ := hrule
    simp only [nodeEqns, Option.some.injEq, Prod.mk.injEq] at hes
    obtain ⟨rfl, rfl⟩ := hes
    simp only [nodeOps, Bind.bind, Option.bind] at hops
    cases harr : arrow c with
    | none => simp [harr] at hops
    | some aa =>
      obtain ⟨cs, ct⟩ := aa
      simp [harr, forCaseOps, forDisconnectOps] at hops
      obtain ⟨rfl, rfl⟩ := hops
      obtain ⟨hc, hcs, hct, hσc⟩ := hch c cs ct harr (by simp [Node.children])
      simp [Sol, Tm.eval, src, tgt, tmOfTy_eval, (hag i hi).1, (hag i hi).2, (hag c hc).1, (hag c hc).2, hσc] at hs
      refine ⟨glueUB k ρ₀ (fun m => if m = 0 then ρ' f else (σ i).1), fun x hx => glueUB_old hx, ?_, ?_⟩
      · simp [opsEqns, opEqn, Sol, Tm.eval, Nat.add_assoc, tmOfInf_eval, glueUB_new, glueUB_new0, glueUB_old hcs, glueUB_old hct, hs]
      · simp [Nat.add_assoc, glueUB_new, glueUB_new0, glueUB_old hcs, glueUB_old hct, hs, Prod.ext_iff]
  | assertl a h =>
    obtain ⟨es, f', hes, ρ', hag, hs⟩ := hrule
    simp only [nodeEqns, Option.some.injEq, Prod.mk.injEq] at hes
    obtain ⟨rfl, rfl⟩ := hes
    simp only [nodeOps, Bind.bind, Option.bind] at hops
    cases harr : arrow a with
    | none => simp [harr] at hops
    | some aa =>
      obtain ⟨cs, ct⟩ := aa
      simp [harr, forCaseOps, forDisconnectOps] at hops
      obtain ⟨rfl, rfl⟩ := hops
      obtain ⟨hc, hcs, hct, hσc⟩ := hch a cs ct harr (by simp [Node.children])
      simp [Sol, Tm.eval, src, tgt, tmOfTy_eval, (hag i hi).1, (hag i hi).2, (hag a hc).1, (hag a hc).2, hσc] at hs
      refine ⟨glueUB k ρ₀ (fun m => if m = 0 then ρ' f else if m = 1 then ρ' (f + 1) else if m = 2 then ρ' (f + 2) else if m = 3 then .sum (ρ' f) (ρ' (f + 1)) else if m = 4 then (σ i).1 else (σ i).2), fun x hx => glueUB_old hx, ?_, ?_⟩
      · simp [opsEqns, opEqn, Sol, Tm.eval, Nat.add_assoc, tmOfInf_eval, glueUB_new, glueUB_new0, glueUB_old hcs, glueUB_old hct, hs]
      · simp [Nat.add_assoc, glueUB_new, glueUB_new0, glueUB_old hcs, glueUB_old hct, hs, Prod.ext_iff]
  | assertr h a =>
    obtain ⟨es, f', hes, ρ', hag, hs⟩ := hrule
    simp only [nodeEqns, Option.some.injEq, Prod.mk.injEq] at hes
    obtain ⟨rfl, rfl⟩ := hes
    simp only [nodeOps, Bind.bind, Option.bind] at hops
    cases harr : arrow a with
    | none => simp [harr] at hops
    | some aa =>
      obtain ⟨cs, ct⟩ := aa
      simp [harr, forCaseOps, forDisconnectOps] at hops
      obtain ⟨rfl, rfl⟩ := hops
      obtain ⟨hc, hcs, hct, hσc⟩ := hch a cs ct harr (by simp [Node.children])
      simp [Sol, Tm.eval, src, tgt, tmOfTy_eval, (hag i hi).1, (hag i hi).2, (hag a hc).1, (hag a hc).2, hσc] at hs
      refine ⟨glueUB k ρ₀ (fun m => if m = 0 then ρ' f else if m = 1 then ρ' (f + 1) else if m = 2 then ρ' (f + 2) else if m = 3 then .sum (ρ' f) (ρ' (f + 1)) else if m = 4 then (σ i).1 else (σ i).2), fun x hx => glueUB_old hx, ?_, ?_⟩
      · simp [opsEqns, opEqn, Sol, Tm.eval, Nat.add_assoc, tmOfInf_eval, glueUB_new, glueUB_new0, glueUB_old hcs, glueUB_old hct, hs]
      · simp [Nat.add_assoc, glueUB_new, glueUB_new0, glueUB_old hcs, glueUB_old hct, hs, Prod.ext_iff]
  | comp a b =>
    obtain ⟨es, f', hes, ρ', hag, hs⟩ := hrule
    simp only [nodeEqns, Option.some.injEq, Prod.mk.injEq] at hes
    obtain ⟨rfl, rfl⟩ := hes
    simp only [nodeOps, Bind.bind, Option.bind] at hops
    cases harr : arrow a with
    | none => simp [harr] at hops
    | some aa =>
      obtain ⟨as, at'⟩ := aa
      cases hbrr : arrow b with
      | none => simp [harr, hbrr] at hops
      | some bb =>
        obtain ⟨bs, bt⟩ := bb
        simp [harr, hbrr, forCaseOps, forDisconnectOps] at hops
        obtain ⟨rfl, rfl⟩ := hops
        obtain ⟨ha, has, hat, hσa⟩ := hch a as at' harr (by simp [Node.children])
        obtain ⟨hb, hbs, hbt, hσb⟩ := hch b bs bt hbrr (by simp [Node.children])
        simp [Sol, Tm.eval, src, tgt, tmOfTy_eval, (hag i hi).1, (hag i hi).2, (hag a ha).1, (hag a ha).2, (hag b hb).1, (hag b hb).2, hσa, hσb] at hs
        refine ⟨glueUB k ρ₀ (fun _ => .one), fun x hx => glueUB_old hx, ?_, ?_⟩
        · simp [opsEqns, opEqn, Sol, Tm.eval, Nat.add_assoc, tmOfInf_eval, glueUB_new, glueUB_new0, glueUB_old has, glueUB_old hat, glueUB_old hbs, glueUB_old hbt, hs]
        · simp [glueUB_new, glueUB_new0, glueUB_old has, glueUB_old hat, glueUB_old hbs, glueUB_old hbt, hs, Prod.ext_iff]
  | pair a b =>
    obtain ⟨es, f', hes, ρ', hag, hs⟩ := hrule
    simp only [nodeEqns, Option.some.injEq, Prod.mk.injEq] at hes
    obtain ⟨rfl, rfl⟩ := hes
    simp only [nodeOps, Bind.bind, Option.bind] at hops
    cases harr : arrow a with
    | none => simp [harr] at hops
    | some aa =>
      obtain ⟨as, at'⟩ := aa
      cases hbrr : arrow b with
      | none => simp [harr, hbrr] at hops
      | some bb =>
        obtain ⟨bs, bt⟩ := bb
        simp [harr, hbrr, forCaseOps, forDisconnectOps] at hops
        obtain ⟨rfl, rfl⟩ := hops
        obtain ⟨ha, has, hat, hσa⟩ := hch a as at' harr (by simp [Node.children])
        obtain ⟨hb, hbs, hbt, hσb⟩ := hch b bs bt hbrr (by simp [Node.children])
        simp [Sol, Tm.eval, src, tgt, tmOfTy_eval, (hag i hi).1, (hag i hi).2, (hag a ha).1, (hag a ha).2, (hag b hb).1, (hag b hb).2, hσa, hσb] at hs
        refine ⟨glueUB k ρ₀ (fun _ => (σ i).2), fun x hx => glueUB_old hx, ?_, ?_⟩
        · simp [opsEqns, opEqn, Sol, Tm.eval, Nat.add_assoc, tmOfInf_eval, glueUB_new, glueUB_new0, glueUB_old has, glueUB_old hat, glueUB_old hbs, glueUB_old hbt, hs]
        · simp [glueUB_new, glueUB_new0, glueUB_old has, glueUB_old hat, glueUB_old hbs, glueUB_old hbt, hs, Prod.ext_iff]
  | case a b =>
    obtain ⟨es, f', hes, ρ', hag, hs⟩ := hrule
    simp only [nodeEqns, Option.some.injEq, Prod.mk.injEq] at hes
    obtain ⟨rfl, rfl⟩ := hes
    simp only [nodeOps, Bind.bind, Option.bind] at hops
    cases harr : arrow a with
    | none => simp [harr] at hops
    | some aa =>
      obtain ⟨as, at'⟩ := aa
      cases hbrr : arrow b with
      | none => simp [harr, hbrr] at hops
      | some bb =>
        obtain ⟨bs, bt⟩ := bb
        simp [harr, hbrr, forCaseOps, forDisconnectOps] at hops
        obtain ⟨rfl, rfl⟩ := hops
        obtain ⟨ha, has, hat, hσa⟩ := hch a as at' harr (by simp [Node.children])
        obtain ⟨hb, hbs, hbt, hσb⟩ := hch b bs bt hbrr (by simp [Node.children])
        simp [Sol, Tm.eval, src, tgt, tmOfTy_eval, (hag i hi).1, (hag i hi).2, (hag a ha).1, (hag a ha).2, (hag b hb).1, (hag b hb).2, hσa, hσb] at hs
        refine ⟨glueUB k ρ₀ (fun m => if m = 0 then ρ' f else if m = 1 then ρ' (f + 1) else if m = 2 then ρ' (f + 2) else if m = 3 then .sum (ρ' f) (ρ' (f + 1)) else if m = 4 then (σ i).1 else (σ i).2), fun x hx => glueUB_old hx, ?_, ?_⟩
        · simp [opsEqns, opEqn, Sol, Tm.eval, Nat.add_assoc, tmOfInf_eval, glueUB_new, glueUB_new0, glueUB_old has, glueUB_old hat, glueUB_old hbs, glueUB_old hbt, hs]
          exact hs.2.2.1.symm.trans hs.2.2.2.1
        · simp [glueUB_new, glueUB_new0, glueUB_old has, glueUB_old hat, glueUB_old hbs, glueUB_old hbt, hs, Prod.ext_iff]
  | disconnect a ob =>
    cases ob with
    | some b =>
      obtain ⟨es, f', hes, ρ', hag, hs⟩ := hrule
      simp only [nodeEqns, Option.some.injEq, Prod.mk.injEq] at hes
      obtain ⟨rfl, rfl⟩ := hes
      simp only [nodeOps, Bind.bind, Option.bind] at hops
      cases harr : arrow a with
      | none => simp [harr] at hops
      | some aa =>
        obtain ⟨as, at'⟩ := aa
        cases hbrr : arrow b with
        | none => simp [harr, hbrr] at hops
        | some bb =>
          obtain ⟨bs, bt⟩ := bb
          simp [harr, hbrr, forCaseOps, forDisconnectOps] at hops
          obtain ⟨rfl, rfl⟩ := hops
          obtain ⟨ha, has, hat, hσa⟩ := hch a as at' harr (by simp [Node.children])
          obtain ⟨hb, hbs, hbt, hσb⟩ := hch b bs bt hbrr (by simp [Node.children])
          simp [Sol, Tm.eval, src, tgt, tmOfTy_eval, (hag i hi).1, (hag i hi).2, (hag a ha).1, (hag a ha).2, (hag b hb).1, (hag b hb).2, hσa, hσb] at hs
          refine ⟨glueUB k ρ₀ (fun m => if m = 0 then ρ' f else if m = 1 then ρ' (f + 1) else if m = 2 then infOfTy (wordTy 8) else (σ i).2), fun x hx => glueUB_old hx, ?_, ?_⟩
          · simp [opsEqns, opEqn, Sol, Tm.eval, Nat.add_assoc, tmOfInf_eval, glueUB_new, glueUB_new0, glueUB_old has, glueUB_old hat, glueUB_old hbs, glueUB_old hbt, hs]
          · simp [glueUB_new, glueUB_new0, glueUB_old has, glueUB_old hat, glueUB_old hbs, glueUB_old hbt, hs, Prod.ext_iff]
    | none =>
      obtain ⟨es, f', hes, ρ', hag, hs⟩ := hrule
      simp only [nodeEqns, Option.some.injEq, Prod.mk.injEq] at hes
      obtain ⟨rfl, rfl⟩ := hes
      simp only [nodeOps, Bind.bind, Option.bind] at hops
      cases harr : arrow a with
      | none => simp [harr] at hops
      | some aa =>
        obtain ⟨cs, ct⟩ := aa
        simp [harr, forCaseOps, forDisconnectOps] at hops
        obtain ⟨rfl, rfl⟩ := hops
        obtain ⟨hc, hcs, hct, hσc⟩ := hch a cs ct harr (by simp [Node.children])
        simp [Sol, Tm.eval, src, tgt, tmOfTy_eval, (hag i hi).1, (hag i hi).2, (hag a hc).1, (hag a hc).2, hσc] at hs
        refine ⟨glueUB k ρ₀ (fun m => if m = 0 then ρ' (f + 2) else if m = 1 then ρ' (f + 3) else if m = 2 then ρ' f else if m = 3 then ρ' (f + 1) else if m = 4 then infOfTy (wordTy 8) else (σ i).2), fun x hx => glueUB_old hx, ?_, ?_⟩
        · simp [opsEqns, opEqn, Sol, Tm.eval, Nat.add_assoc, tmOfInf_eval, glueUB_new, glueUB_new0, glueUB_old hcs, glueUB_old hct, hs]
        · simp [Nat.add_assoc, glueUB_new, glueUB_new0, glueUB_old hcs, glueUB_old hct, hs, Prod.ext_iff]

end Prog
