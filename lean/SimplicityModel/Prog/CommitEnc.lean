/-
C02/C01 assembly at commitment time, program side: on the plan converted from a wire node list that
`Prog.decodeCommit` accepted (no binary disconnect, the root's identity root fresh), the encoder
`Prog.encode` in commit mode re-traces the list.
-/
import SimplicityModel.Prog.CommitProps
import SimplicityModel.Prog.RoundtripProps
set_option linter.unusedSimpArgs false
namespace Prog
open Wire PO
variable {J : Type}

/-- the sharing key of a node of the encoder's DAG at commitment time -/
theorem enc_key_commit {nameOf : J → String} {A : Array (WNode J)} {plan : Plan} {an : Array Annot}
    (F : DecFacts0 nameOf A plan an) (t : Nat) (ht : EncD A t) :
    (∃ i, t = 2 * i ∧ i < A.size ∧ hiddenAt A i = none ∧ encPhi A t = i ∧
      encKey plan an false t = (commitKey an i).map (fun k => (false, k))) ∨
    (t % 2 = 1 ∧ ∃ r, hiddenAt A (encPhi A t) = some r ∧ encKey plan an false t = some (true, r)) := by
  rcases ht with ⟨h2, hlt, hvis⟩ | ⟨h2, a, b, hA, hh⟩
  · obtain ⟨i, rfl⟩ : ∃ i, t = 2 * i := ⟨t / 2, by omega⟩
    rw [two_mul_div] at hlt hvis
    exact .inl ⟨i, rfl, hlt, hvis, encPhi_even A i, encKey_even_false plan an i⟩
  · obtain ⟨i, rfl⟩ : ∃ i, t = 2 * i + 1 := ⟨t / 2, by omega⟩
    rw [two_mul_succ_div] at hA
    obtain ⟨r, hr, hk⟩ := enc_key_odd (plan := plan) F i a b hA hh
    exact .inr ⟨h2, r, hr, by rw [encKey_odd_mode plan an false _ h2]; exact hk⟩

/-- the decoder's wire DAG under pointer sharing against the encoder's DAG at commitment time:
the hypotheses of `walk_simK`, given that the identity roots of the shareable visible nodes are
pairwise different -/
theorem enc_simHypK {nameOf : J → String} {A : Array (WNode J)} {plan : Plan} {an : Array Annot}
    (F : DecFacts0 nameOf A plan an) (hnb : noBinDisc plan = true)
    (hinj : ∀ i i' k, i < A.size → i' < A.size → hiddenAt A i = none → hiddenAt A i' = none →
      commitKey an i = some k → commitKey an i' = some k → i = i') :
    SimHypK (encPhi A) (EncD A) (fun c => !decide (c % 2 = 1)) (wireChildren A) (encChildren plan false)
      (fun i => some i) (encKey plan an false) (fun i => i)
      (fun t => if t % 2 = 0 then t + 1 else t - 1) where
  ch := fun t ht => by rw [encChildren_false_eq plan hnb]; exact enc_ch F t ht
  closed := fun t ht c hc => by
    rw [encChildren_false_eq plan hnb] at hc; exact (enc_closed F t ht c hc).1
  total1 := fun _ _ => rfl
  inj := by
    intro t t' ht ht' k1 k1' k2 k2' h1 h1' h2 h2'
    simp only [Option.some.injEq] at h1 h1'
    subst h1 h1'
    rcases enc_key_commit (plan := plan) (an := an) F t ht with ⟨i, rfl, hlt, hv, hphi, hk⟩ | ⟨hodd, r, hv, hk⟩ <;>
      rcases enc_key_commit (plan := plan) (an := an) F t' ht' with ⟨i', rfl, hlt', hv', hphi', hk'⟩ | ⟨hodd', r', hv', hk'⟩
    · rw [hk] at h2; rw [hk'] at h2'
      rw [hphi, hphi']
      cases hc : commitKey an i with
      | none => rw [hc] at h2; cases h2
      | some x =>
        cases hc' : commitKey an i' with
        | none => rw [hc'] at h2'; cases h2'
        | some x' =>
          rw [hc] at h2; rw [hc'] at h2'
          cases h2; cases h2'
          constructor
          · intro e; subst e; rw [hc] at hc'; cases hc'; rfl
          · intro e
            simp only [Prod.mk.injEq, true_and] at e
            subst e
            exact hinj i i' x hlt hlt' hv hv' hc hc'
    · rw [hk'] at h2'
      cases h2'
      rw [hk] at h2
      cases hc : commitKey an i with
      | none => rw [hc] at h2; cases h2
      | some x =>
        rw [hc] at h2; cases h2
        constructor
        · intro e; rw [hphi] at e; rw [← e, hv] at hv'; cases hv'
        · intro e; cases e
    · rw [hk] at h2
      cases h2
      rw [hk'] at h2'
      cases hc : commitKey an i' with
      | none => rw [hc] at h2'; cases h2'
      | some x =>
        rw [hc] at h2'; cases h2'
        constructor
        · intro e; rw [hphi'] at e; rw [e, hv'] at hv; cases hv
        · intro e; cases e
    · rw [hk] at h2; rw [hk'] at h2'
      cases h2; cases h2'
      constructor
      · intro e; rw [e] at hv; rw [hv] at hv'; cases hv'; rfl
      · intro e
        simp only [Prod.mk.injEq, true_and] at e
        obtain ⟨rb, hrb, e1⟩ := hiddenAt_some hv
        obtain ⟨rb', hrb', e2⟩ := hiddenAt_some hv'
        exact F.hdist _ _ rb rb' hrb hrb' (by rw [e1, e2, e])
  klInj := by
    intro t t' ht ht' hkl he
    simp only [Option.some.injEq] at he
    rcases enc_key_commit (plan := plan) (an := an) F t ht with ⟨i, rfl, hlt, hv, hphi, hk⟩ | ⟨hodd, r, hv, hk⟩
    · rcases enc_key_commit (plan := plan) (an := an) F t' ht' with ⟨i', rfl, hlt', hv', hphi', hk'⟩ | ⟨hodd', r', hv', hk'⟩
      · rw [hphi, hphi'] at he; rw [he]
      · rw [he, hphi, hv] at hv'; cases hv'
    · rw [hk] at hkl; cases hkl
  klq := by
    intro t ht hkl
    rcases enc_key_commit (plan := plan) (an := an) F t ht with ⟨i, rfl, _⟩ | ⟨hodd, r, hv, hk⟩
    · simp [two_mul_mod]
    · rw [hk] at hkl; cases hkl
  rk1 := fun t ht c hc => by
    rw [encChildren_false_eq plan hnb] at hc; exact (enc_closed F t ht c hc).2.1
  rk2 := fun t ht c hc => by
    rw [encChildren_false_eq plan hnb] at hc; exact (enc_closed F t ht c hc).2.2

/-- **the encoder's commit-mode walk re-traces the accepted node list** -/
theorem enc_walk_items_commit {nameOf : J → String} {A : Array (WNode J)} {plan : Plan} {an : Array Annot}
    (F : DecFacts0 nameOf A plan an) (hnb : noBinDisc plan = true) (hw : WellIdx (shapes A))
    (hne : 0 < A.size) (hroot : hiddenAt A (A.size - 1) = none) (hc : canonicalOk A = true)
    (hf : rootFresh plan an = true) (hsh : sharedOk plan an = true) :
    let outs := (walk (encChildren plan false) (encKey plan an false) (2 * plan.size + 2)
      (2 * (plan.size - 1)) ⟨#[], [], 0⟩).1.outs
    outs.size = A.size ∧
    ∀ (i : Nat) (o : WOut), outs.toList[i]? = some o →
      EncD A o.node ∧ encPhi A o.node = i ∧ o.index = i ∧
        kidsMatch o (((shapes A)[i]?).getD Sh.leaf) := by
  have hL1 := commit_key_eq_ptr F hnb hw hne hroot hc hf hsh
  have hL1' := commit_key_nodes (an := an) F hnb hne hroot
  obtain ⟨_, hkeys, _⟩ := (walk_ext (commitChildren plan) (commitKey an) (fun _ => True)
    (fun _ _ _ _ => trivial) (plan.size + 1) (plan.size - 1) ⟨#[], [], 0⟩ trivial).from_empty
  -- identity roots of shareable visible nodes are pairwise different
  have hinj : ∀ i i' k, i < A.size → i' < A.size → hiddenAt A i = none → hiddenAt A i' = none →
      commitKey an i = some k → commitKey an i' = some k → i = i' := by
    intro i i' k hi hi' hv hv' hk hk'
    have mem : ∀ j, j < A.size → hiddenAt A j = none → ∃ o ∈ (walk (commitChildren plan) (commitKey an)
        (plan.size + 1) (plan.size - 1) ⟨#[], [], 0⟩).1.outs.toList, o.node = j := by
      intro j hj hvj
      have : j ∈ (List.range A.size).filter (fun c => !hid A c) :=
        List.mem_filter.mpr ⟨List.mem_range.mpr hj, by simp [hid_false.mpr hvj]⟩
      rw [← hL1] at this
      obtain ⟨o, ho, e⟩ := List.mem_map.mp this
      exact ⟨o, ho, e⟩
    obtain ⟨o, ho, rfl⟩ := mem i hi hv
    obtain ⟨o', ho', rfl⟩ := mem i' hi' hv'
    have := filterMap_nodup_eq (fun o : WOut => commitKey an o.node) _ hkeys o ho o' ho' k hk hk'
    rw [this]
  rw [F.size] at hL1 hL1' ⊢
  intro outs
  have H := enc_simHypK F hnb hinj
  have hD : EncD A (2 * (A.size - 1)) := by
    refine .inl ⟨two_mul_mod _, ?_, ?_⟩ <;> rw [two_mul_div]
    · omega
    · exact hroot
  have hsim := walk_simK H (2 * A.size + 2) (A.size + 1) (2 * (A.size - 1)) ⟨#[], [], 0⟩
    ⟨#[], [], 0⟩ hD (by simp only [encPhi_even]; omega)
    (by simp only [two_mul_mod, if_true]; omega)
    ⟨by simp, rfl, by simp, by intro t _ k1 k2 _ _; rfl, by intro t _ _ k1 _ h; cases h⟩
  rcases hsim with ⟨hs, _⟩ | hd
  · rw [encPhi_even] at hs
    obtain ⟨hsz, hit⟩ := canonicalOk_outs A hw hne hc
    have houts' : (walk (wireChildren A) (fun i => some i) (A.size + 1) (A.size - 1) ⟨#[], [], 0⟩).1.outs.toList
        = outs.toList.map (mapNode (encPhi A)) := hs.outs
    refine ⟨?_, ?_⟩
    · have : outs.toList.length = A.size := by
        have := congrArg List.length houts'
        simp only [List.length_map, Array.length_toList] at this
        simp only [Array.length_toList]
        omega
      simpa using this
    · intro i o ho
      have h1 := hit i (mapNode (encPhi A) o) (by rw [houts', List.getElem?_map, ho]; rfl)
      rw [kidsMatch_mapNode] at h1
      exact ⟨hs.dom o (List.mem_of_getElem? ho), h1.1, h1.2.1, h1.2.2⟩
  · exfalso
    apply hd
    have hnd : ((List.range A.size).filter (fun c => !hid A c)).Nodup := List.nodup_range.filter _
    rw [← hL1, hL1'] at hnd
    exact List.Pairwise.of_map (fun x => x / 2) (fun a b h e => h (by rw [e])) hnd

/-- **the encoder re-writes the accepted node list** (commit mode) -/
theorem enc_nodes_commit {nameOf : J → String} {ofName : String → Option J} {A : Array (WNode J)}
    {plan : Plan} {an : Array Annot} (F : DecFacts0 nameOf A plan an)
    (hof : ∀ j, ofName (nameOf j) = some j) (hnb : noBinDisc plan = true) (hw : WellIdx (shapes A))
    (hne : 0 < A.size) (hroot : hiddenAt A (A.size - 1) = none) (hc : canonicalOk A = true)
    (hf : rootFresh plan an = true) (hsh : sharedOk plan an = true) :
    (walk (encChildren plan false) (encKey plan an false) (2 * plan.size + 2)
      (2 * (plan.size - 1)) ⟨#[], [], 0⟩).1.outs.toList.mapM (wireOf ofName plan) = some A.toList := by
  obtain ⟨hsz, hit⟩ := enc_walk_items_commit F hnb hw hne hroot hc hf hsh
  apply ListAux.mapM_eq_some
  · simpa using hsz
  · intro i o ho
    obtain ⟨hD, hphi, _, hk⟩ := hit i o ho
    obtain ⟨n, hA, hwo⟩ := wireOf_item F hof o i hD hphi hk
    exact ⟨n, by simpa using hA, hwo⟩

/-- the witness bit strings the encoder collects (commit mode) are those of the witness nodes in
increasing index -/
theorem enc_wits_commit {nameOf : J → String} {A : Array (WNode J)}
    {plan : Plan} {an : Array Annot} (F : DecFacts0 nameOf A plan an)
    (hnb : noBinDisc plan = true) (hw : WellIdx (shapes A)) (hne : 0 < A.size)
    (hroot : hiddenAt A (A.size - 1) = none) (hc : canonicalOk A = true)
    (hf : rootFresh plan an = true) (hsh : sharedOk plan an = true)
    (W : Nat → Option (List Bool)) :
    (walk (encChildren plan false) (encKey plan an false) (2 * plan.size + 2)
      (2 * (plan.size - 1)) ⟨#[], [], 0⟩).1.outs.toList.filterMap (fun o =>
        if o.node % 2 = 0 then
          match plan[o.node / 2]? with
          | some Node.witness => W (o.node / 2)
          | _ => none
        else none) = (wIdx plan.toList 0).filterMap W := by
  obtain ⟨hsz, hit⟩ := enc_walk_items_commit F hnb hw hne hroot hc hf hsh
  rw [ListAux.filterMap_eq_range _
    (fun j => match plan.toList[j - 0]? with
      | some Node.witness => W j | _ => none) _ 0]
  · have hlen : (walk (encChildren plan false) (encKey plan an false) (2 * plan.size + 2)
        (2 * (plan.size - 1)) ⟨#[], [], 0⟩).1.outs.toList.length = plan.toList.length := by
      simp only [Array.length_toList]; rw [hsz, F.size]
    rw [hlen]
    exact filterMap_wIdx W plan.toList 0
  · intro i o ho
    obtain ⟨hD, hphi, _, _⟩ := hit i o ho
    simp only [Nat.zero_add, Nat.sub_zero, Array.getElem?_toList]
    rcases hD with ⟨h2, hlt, hvis⟩ | ⟨h2, a, b, hA, hh⟩
    · obtain ⟨i', hi'⟩ : ∃ i', o.node = 2 * i' := ⟨o.node / 2, by omega⟩
      rw [hi', encPhi_even] at hphi
      subst hphi
      rw [hi', two_mul_div, if_pos (two_mul_mod _)]
    · obtain ⟨j, hj⟩ : ∃ j, o.node = 2 * j + 1 := ⟨o.node / 2, by omega⟩
      rw [hj, two_mul_succ_div] at hA
      obtain ⟨r, hr, _⟩ := enc_key_odd (plan := plan) F j a b hA hh
      rw [← hj, hphi] at hr
      obtain ⟨rb, hrb, _⟩ := hiddenAt_some hr
      obtain ⟨nd, hp, hcn⟩ := F.node i _ hrb
      have spec := convNode_spec nameOf A _ nd hcn
      simp only at spec
      rw [if_neg (by omega), hp, spec]

/-- **the commit-mode encoder on a converted plan** that passed the sharing check: it writes the
accepted node list (byte padded); the witness stream holds whatever the assignment `W` gives for the
witness nodes, in index order -/
theorem encode_converted_commit {nameOf : J → String} {ofName : String → Option J} (jc : JetCode J)
    {A : Array (WNode J)} {plan : Plan} {an : Array Annot} (F : DecFacts0 nameOf A plan an)
    (hof : ∀ j, ofName (nameOf j) = some j) (hnb : noBinDisc plan = true) (hw : WellIdx (shapes A))
    (hne : 0 < A.size) (hroot : hiddenAt A (A.size - 1) = none) (hc : canonicalOk A = true)
    (hf : rootFresh plan an = true) (hsh : sharedOk plan an = true)
    (W : Nat → Option (List Bool)) :
    encode jc ofName plan an false W =
      some (padToByte (encProgram jc A.toList), padToByte ((wIdx plan.toList 0).filterMap W).flatten) := by
  have h1 := enc_nodes_commit (ofName := ofName) F hof hnb hw hne hroot hc hf hsh
  have h2 := enc_wits_commit F hnb hw hne hroot hc hf hsh W
  unfold encode
  generalize walk (encChildren plan false) (encKey plan an false) (2 * plan.size + 2)
    (2 * (plan.size - 1)) ⟨#[], [], 0⟩ = w at h1 h2
  obtain ⟨st, x⟩ := w
  simp only at h1 h2 ⊢
  rw [h1]
  simp only [Option.bind_eq_bind, Option.bind_some, Option.pure_def, Option.some.injEq, Prod.mk.injEq, true_and]
  exact congrArg (fun l => padToByte l.flatten) h2

/-- **an accepting run of `decodeCommit`, stage by stage** (converse of `decodeCommit_inv`) -/
theorem decodeCommit_intro (tb : Tables) (prog : List Bool) (ns : List (WNode tb.J))
    (rest : List Bool) (plan : Plan) (arrows : Array (BM4.Ty × BM4.Ty)) (an : Array Annot) (cm : Array Nat)
    (hp : decProgram tb.jc prog = .ok (ns, rest)) (hcl : closeOk rest = true) (hne : ns ≠ [])
    (hcan : canonicalOk ns.toArray = true) (hcv : convert tb.nameOf ns.toArray = .ok plan)
    (hinf : infer tb.jetTy plan true = .ok arrows)
    (han : annots tb.jetCmr tb.jetCost plan arrows (fun _ => none) = some an)
    (hsh : sharedOk plan an = true) (hcm : cmrs tb.jetCmr plan = some cm) :
    decodeCommit tb prog = .ok (plan, cm) := by
  unfold decodeCommit
  rw [hp]
  have hsz : ¬ ns.toArray.size = 0 := by
    simp only [List.size_toArray]
    exact fun h => hne (List.length_eq_zero_iff.mp h)
  simp only [bind, Except.bind, pure, Except.pure, throw, throwThe, MonadExceptOf.throw, hcl, hcan,
    Bool.not_true, Bool.false_eq_true, if_false, hsz, hcv, hinf, han, hcm]
  split
  · next hne' =>
    exfalso
    simp only [Bool.not_eq_true', Bool.not_eq_false] at hne'
    have : sharedOk plan an = false := hne'
    rw [hsh] at this; cases this
  · rfl

/-- **what an accepting run of `decodeCommit` establishes**: the hypotheses of
`encode_converted_commit` except the two that the decoder does not check (no binary disconnect, the
root's identity root fresh) -/
theorem decodeCommit_facts (tb : Tables) (prog : List Bool) (p : Plan) (cm : Array Nat)
    (h : decodeCommit tb prog = .ok (p, cm)) :
    ∃ ns rest arrows an,
      prog = encProgram tb.jc ns ++ rest ∧ closeOk rest = true ∧
      ns ≠ [] ∧ ns.length < 2 ^ 32 ∧ NodesOk 0 ns ∧ convert tb.nameOf ns.toArray = .ok p ∧
      DecFacts0 tb.nameOf ns.toArray p an ∧ WellIdx (shapes ns.toArray) ∧
      0 < ns.toArray.size ∧ hiddenAt ns.toArray (ns.toArray.size - 1) = none ∧
      canonicalOk ns.toArray = true ∧
      infer tb.jetTy p true = .ok arrows ∧
      annots tb.jetCmr tb.jetCost p arrows (fun _ => none) = some an ∧
      sharedOk p an = true ∧ cmrs tb.jetCmr p = some cm := by
  obtain ⟨ns, rest, arrows, an, hp, hcl, hcan, hcv, hinf, han, hsh, hcm⟩ := decodeCommit_inv tb prog p cm h
  obtain ⟨hprog, hne, hlt, hok⟩ := decProgram_canonical tb.jc prog ns rest hp
  have hansz := annots_size _ _ _ _ _ _ han
  obtain ⟨F, hw, hpos, hroot⟩ := decFacts0_mk tb.nameOf ns p an hne hok hcv hansz
  exact ⟨ns, rest, arrows, an, hprog, hcl, hne, hlt, hok, hcv, F, hw, hpos, hroot, hcan, hinf, han, hsh, hcm⟩

/-- what makes a plan with arrows, commitment-time annotations and commitment roots a program *in the
commitment-time decoder's canonical form*, witnessed by the wire node list `N`: `N` is a well-formed
node list in canonical order whose conversion is the plan; no disconnect node has both children; the
plan is well typed as a 1 → 1 program with these arrows; the annotations and commitment roots are
those of the plan; the sharing check `is_shared_as::<MaxSharing>` passes; the root's identity root is
fresh. -/
structure CanonicalCommitPlan (tb : Tables) (N : List (WNode tb.J)) (p : Plan)
    (arrows : Array (BM4.Ty × BM4.Ty)) (an : Array Annot) (cm : Array Nat) : Prop where
  nodes_ne : N ≠ []
  nodes_lt : N.length < 2 ^ 32
  nodes_ok : NodesOk 0 N
  canonical : canonicalOk N.toArray = true
  conv : convert tb.nameOf N.toArray = .ok p
  no_bin_disc : noBinDisc p = true
  typed : infer tb.jetTy p true = .ok arrows
  annots : annots tb.jetCmr tb.jetCost p arrows (fun _ => none) = some an
  shared : sharedOk p an = true
  root_fresh : rootFresh p an = true
  cmrs : cmrs tb.jetCmr p = some cm

/-- **commitment-time round trip, assembled** (about the functions the driver runs): for a program
in canonical form the commit-mode encoder writes the node list `N`, and `decodeCommit` accepts these
bytes and returns the same plan and the same commitment roots. -/
theorem roundtrip_commit_canonical (tb : Tables) (hof : ∀ j, tb.ofName (tb.nameOf j) = some j)
    (N : List (WNode tb.J)) (p : Plan) (arrows : Array (BM4.Ty × BM4.Ty)) (an : Array Annot)
    (cm : Array Nat) (H : CanonicalCommitPlan tb N p arrows an cm) (wit : Nat → Option (List Bool)) :
    encode tb.jc tb.ofName p an false wit =
      some (padToByte (encProgram tb.jc N), padToByte ((wIdx p.toList 0).filterMap wit).flatten) ∧
    decodeCommit tb (padToByte (encProgram tb.jc N)) = .ok (p, cm) := by
  have hansz := annots_size _ _ _ _ _ _ H.annots
  obtain ⟨F, hw, hpos, hroot⟩ := decFacts0_mk tb.nameOf N p an H.nodes_ne H.nodes_ok H.conv hansz
  refine ⟨encode_converted_commit tb.jc F hof H.no_bin_disc hw hpos hroot H.canonical H.root_fresh
    H.shared wit, ?_⟩
  refine decodeCommit_intro tb _ N (List.replicate ((8 - (encProgram tb.jc N).length % 8) % 8) false)
    p arrows an cm ?_ (closeOk_replicate _ (by omega)) H.nodes_ne H.canonical H.conv H.typed H.annots
    H.shared H.cmrs
  unfold padToByte
  exact decProgram_encProgram tb.jc N H.nodes_ne H.nodes_lt H.nodes_ok _

/-- whatever `decodeCommit` returns is in canonical form, provided no disconnect node has both
children and the root's identity root is fresh -/
theorem decodedCommit_is_canonical (tb : Tables) (prog : List Bool) (p : Plan) (cm : Array Nat)
    (h : decodeCommit tb prog = .ok (p, cm)) :
    ∃ N arrows an, infer tb.jetTy p true = .ok arrows ∧
      annots tb.jetCmr tb.jetCost p arrows (fun _ => none) = some an ∧
      (noBinDisc p = true → rootFresh p an = true → CanonicalCommitPlan tb N p arrows an cm) := by
  obtain ⟨ns, rest, arrows, an, _, _, hne, hlt, hok, hcv, _, _, _, _, hcan, hinf, han, hsh, hcm⟩ :=
    decodeCommit_facts tb prog p cm h
  exact ⟨ns, arrows, an, hinf, han, fun hnb hf => ⟨hne, hlt, hok, hcan, hcv, hnb, hinf, han, hsh, hf, hcm⟩⟩

#print axioms encode_converted_commit
#print axioms roundtrip_commit_canonical
#print axioms decodeCommit_intro

end Prog
