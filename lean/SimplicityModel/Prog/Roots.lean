/-
Identity roots (IMR, IHR), annotated roots (AMR) and the static cost bound of every node of a typed
plan, recomputed from scratch (`src/merkle/{ihr,amr}.rs`, `src/node/redeem.rs` `RedeemData::new`,
`src/analysis.rs` `NodeBounds`).
-/
import SimplicityModel.Prog.Merkle
import Std.Data.HashMap

namespace Prog
open Sha2

def imrIV (name : String) : Nat :=
  if name = "disconnect" ∨ name = "witness" then tag ("Simplicity\x1fIdentity\x1f" ++ name)
  else cmrIV name
def amrIV (name : String) : Nat := tag ("Simplicity\x1fAnnotated\x1f" ++ name)

/-- TMR with the word shortcut (types are trees; word types double) -/
def tmrF : BM4.Ty → Nat
  | .one => ivTyUnit
  | .sum a b =>
    match isWord (.sum a b) with
    | some n => tmrWord n
    | none => update2 ivTySum (tmrF a) (tmrF b)
  | .prod a b =>
    match isWord (.prod a b) with
    | some n => tmrWord n
    | none => update2 ivTyProd (tmrF a) (tmrF b)

deriving instance Hashable for BM4.Ty

/-- `tmrF` with a memo table (types of a program share most of their sub-terms) -/
def tmrM : BM4.Ty → StateM (Std.HashMap BM4.Ty Nat) Nat
  | .one => pure ivTyUnit
  | .sum a b => do
    match (← get)[BM4.Ty.sum a b]? with
    | some v => pure v
    | none =>
      let x ← tmrM a
      let y ← tmrM b
      let v := update2 ivTySum x y
      modify (·.insert (.sum a b) v)
      pure v
  | .prod a b => do
    match (← get)[BM4.Ty.prod a b]? with
    | some v => pure v
    | none =>
      let x ← tmrM a
      let y ← tmrM b
      let v := update2 ivTyProd x y
      modify (·.insert (.prod a b) v)
      pure v

/-- memo table for all types (and sub-types) of a list of arrows -/
def tmrCache (arrows : Array (BM4.Ty × BM4.Ty)) : Std.HashMap BM4.Ty Nat :=
  (arrows.foldl (fun st a => ((tmrM a.1 *> tmrM a.2).run st).2) {})

/-- bytes of a bit string, zero padded (fuel = number of bytes) -/
def packBitsAux : Nat → List Bool → List Nat
  | 0, _ => []
  | f+1, bs =>
    if bs.isEmpty then [] else
    (bs.take 8).foldl (fun acc b => acc * 2 + (if b then 1 else 0)) 0 * 2 ^ (8 - min 8 bs.length)
      :: packBitsAux f (bs.drop 8)

def packBits (bs : List Bool) : List Nat := packBitsAux (bs.length / 8 + 1) bs

/-- `compact_value`: SHA-256 midstate of the compact bits with bit-granular padding -/
def compactValueHash (bits : List Bool) : Nat :=
  let n := bits.length
  let bytes := packBits (bits ++ [true])   -- delimiter bit
  let k := (56 + 64 - bytes.length % 64) % 64
  let msg := bytes ++ List.replicate k 0 ++ bytesOfNat n 8
  natOfState (absorb H0 msg (msg.length / 64 + 1))

structure Annot where
  imr : Nat
  ihr : Nat
  amr : Nat
  cost : Nat
  /-- contains a witness or disconnect node (commit time: no identity root) -/
  unique : Bool
deriving Repr, Inhabited

def U32MAX : Nat := 4294967295
def satAdd (a b : Nat) : Nat := min (a + b) U32MAX
def OVERHEAD : Nat := 100

def ihrOf (tmrF : BM4.Ty → Nat) (imr : Nat) (a : BM4.Ty × BM4.Ty) : Nat :=
  update2 (update2 ivIdentity 0 imr) (tmrF a.1) (tmrF a.2)

/-- annotations of node `i` from those of its children -/
def annotNode (tmrF : BM4.Ty → Nat) (jetCmr : String → Option Nat) (jetCost : String → Option Nat)
    (arr : Nat → BM4.Ty × BM4.Ty) (wit : Nat → Option (List Bool)) (an : Nat → Annot)
    (i : Nat) (nd : Node) : Option Annot :=
  let (a, b) := arr i
  let mk (imr amr cost : Nat) (u : Bool) : Annot := ⟨imr, ihrOf tmrF imr (a, b), amr, cost, u⟩
  let up1 (iv x y : Nat) := update2 iv x y
  match nd with
  | .iden => some (mk ivIden (up1 (amrIV "iden") 0 (tmrF a)) (satAdd OVERHEAD a.bw) false)
  | .unit => some (mk ivUnit (up1 (amrIV "unit") 0 (tmrF a)) OVERHEAD false)
  | .injl c => match b with
    | .sum b1 c1 => let ch := an c
      some (mk (up1 ivInjl 0 ch.imr) (up1 (up1 (amrIV "injl") (tmrF a) (tmrF b1)) (tmrF c1) ch.amr)
        (satAdd OVERHEAD ch.cost) ch.unique)
    | _ => none
  | .injr c => match b with
    | .sum b1 c1 => let ch := an c
      some (mk (up1 ivInjr 0 ch.imr) (up1 (up1 (amrIV "injr") (tmrF a) (tmrF b1)) (tmrF c1) ch.amr)
        (satAdd OVERHEAD ch.cost) ch.unique)
    | _ => none
  | .take c => match a with
    | .prod a1 a2 => let ch := an c
      some (mk (up1 ivTake 0 ch.imr) (up1 (up1 (amrIV "take") (tmrF a1) (tmrF a2)) (tmrF b) ch.amr)
        (satAdd OVERHEAD ch.cost) ch.unique)
    | _ => none
  | .drop c => match a with
    | .prod a1 a2 => let ch := an c
      some (mk (up1 ivDrop 0 ch.imr) (up1 (up1 (amrIV "drop") (tmrF a1) (tmrF a2)) (tmrF b) ch.amr)
        (satAdd OVERHEAD ch.cost) ch.unique)
    | _ => none
  | .comp x y =>
    let l := an x; let r := an y; let m := (arr x).2
    some (mk (up1 ivComp l.imr r.imr)
      (up1 (up1 (up1 (amrIV "comp") 0 (tmrF a)) (tmrF m) (tmrF b)) l.amr r.amr)
      (satAdd (satAdd (satAdd OVERHEAD m.bw) l.cost) r.cost) (l.unique || r.unique))
  | .case x y => match a with
    | .prod (.sum a1 a2) c =>
      let l := an x; let r := an y
      some (mk (up1 ivCase l.imr r.imr)
        (up1 (up1 (up1 (amrIV "case") (tmrF a1) (tmrF a2)) (tmrF c) (tmrF b)) l.amr r.amr)
        (satAdd OVERHEAD (max l.cost r.cost)) (l.unique || r.unique))
    | _ => none
  | .assertl x h => match a with
    | .prod (.sum a1 a2) c =>
      let l := an x
      some (mk (up1 ivCase l.imr h)
        (up1 (up1 (up1 (amrIV "assertl") (tmrF a1) (tmrF a2)) (tmrF c) (tmrF b)) l.amr h)
        (satAdd OVERHEAD l.cost) l.unique)
    | _ => none
  | .assertr h y => match a with
    | .prod (.sum a1 a2) c =>
      let r := an y
      some (mk (up1 ivCase h r.imr)
        (up1 (up1 (up1 (amrIV "assertr") (tmrF a1) (tmrF a2)) (tmrF c) (tmrF b)) h r.amr)
        (satAdd OVERHEAD r.cost) r.unique)
    | _ => none
  | .pair x y =>
    let l := an x; let r := an y
    some (mk (up1 ivPair l.imr r.imr)
      (up1 (up1 (up1 (amrIV "pair") 0 (tmrF a)) (tmrF (arr x).2) (tmrF (arr y).2)) l.amr r.amr)
      (satAdd (satAdd OVERHEAD l.cost) r.cost) (l.unique || r.unique))
  | .disconnect x (some y) => match b with
    | .prod b1 d =>
      let l := an x; let r := an y
      let (ls, lt) := arr x
      let c := (arr y).1
      some (mk (up1 (imrIV "disconnect") l.imr r.imr)
        (up1 (up1 (up1 (amrIV "disconnect") (tmrF a) (tmrF b1)) (tmrF c) (tmrF d)) l.amr r.amr)
        (satAdd (satAdd (satAdd (satAdd (satAdd (satAdd OVERHEAD ls.bw) ls.bw) lt.bw) (lt.bw - c.bw)) l.cost) r.cost)
        true)
    | _ => none
  | .disconnect x none =>
    -- commitment time: no identity root (never shared)
    some ⟨0, 0, 0, (an x).cost, true⟩
  | .witness =>
    match wit i with
    | some bits =>
      let cv := compactValueHash bits
      some (mk (up1 (imrIV "witness") cv (tmrF b))
        (up1 (up1 (amrIV "witness") 0 (tmrF a)) (tmrF b) cv) (satAdd OVERHEAD b.bw) true)
    | none =>
      -- commitment time: no value, no identity root (never shared)
      some ⟨0, 0, 0, satAdd OVERHEAD b.bw, true⟩
  | .fail e => let (l, r) := failBlock e
    some (mk (up1 ivFail l r) (up1 (amrIV "fail") l r) 0 false)
  | .word n bits => let c := cmrWord n bits
    some (mk c c (satAdd OVERHEAD (2 ^ n)) false)
  | .jet name => do
    let c ← jetCmr name; let k ← jetCost name
    pure (mk c c (satAdd OVERHEAD k) false)
  | .hidden h => some ⟨h, h, h, 0, false⟩

/-- annotations of all nodes (children before parents) -/
def annots (jetCmr : String → Option Nat) (jetCost : String → Option Nat) (p : Plan)
    (arrows : Array (BM4.Ty × BM4.Ty)) (wit : Nat → Option (List Bool)) : Option (Array Annot) :=
  let cache := tmrCache arrows
  let tm (t : BM4.Ty) : Nat := match cache[t]? with | some v => v | none => tmrF t
  let rec go (i : Nat) (nodes : List Node) (acc : Array Annot) : Option (Array Annot) :=
    match nodes with
    | [] => some acc
    | nd :: rest => do
      let a ← annotNode tm jetCmr jetCost (fun j => arrows.getD j (.one, .one)) wit (fun j => acc.getD j default) i nd
      go (i + 1) rest (acc.push a)
  go 0 p.toList #[]

end Prog
