/-
Small list facts used by the codec assembly (C02/C01).
-/
namespace Prog.ListAux

theorem eraseDups_length_le : ∀ (n : Nat) (l : List Nat), l.length ≤ n → l.eraseDups.length ≤ l.length := by
  intro n
  induction n with
  | zero => intro l h; have : l = [] := List.length_eq_zero_iff.mp (by omega); subst this; simp
  | succ n ih =>
    intro l h
    cases l with
    | nil => simp
    | cons a as =>
      rw [List.eraseDups_cons]
      simp only [List.length_cons] at h ⊢
      have h1 := List.length_filter_le (fun b => !b == a) as
      have := ih (as.filter fun b => !b == a) (by omega)
      omega

/-- `eraseDups` keeps the length only of a list without repetitions -/
theorem nodup_of_eraseDups_length : ∀ (l : List Nat), l.eraseDups.length = l.length → l.Nodup := by
  intro l
  induction l with
  | nil => intro _; exact List.nodup_nil
  | cons a as ih =>
    intro h
    rw [List.eraseDups_cons] at h
    simp only [List.length_cons, Nat.add_right_cancel_iff] at h
    have h1 := List.length_filter_le (fun b => !b == a) as
    have h2 := eraseDups_length_le _ (as.filter fun b => !b == a) (Nat.le_refl _)
    have hlen : (as.filter fun b => !b == a).length = as.length := by omega
    have hall := List.length_filter_eq_length_iff.mp hlen
    have hfe : as.filter (fun b => !b == a) = as := List.filter_eq_self.mpr hall
    rw [hfe] at h
    refine List.nodup_cons.mpr ⟨?_, ih h⟩
    intro hin
    have := hall a hin
    simp at this

/-- in a duplicate-free `filterMap`, equal images come from equal elements -/
theorem filterMap_nodup_inj {α β : Type} (f : α → Option β) : ∀ (l : List α), (l.filterMap f).Nodup → l.Nodup →
    ∀ a ∈ l, ∀ b ∈ l, ∀ x, f a = some x → f b = some x → a = b := by
  intro l
  induction l with
  | nil => intro _ _ a ha; cases ha
  | cons c l ih =>
    intro h hl a ha b hb x hfa hfb
    have hl' := List.nodup_cons.mp hl
    have key : ∀ y, f c = some y → ∀ d ∈ l, f d ≠ some y := by
      intro y hy d hd hfd
      rw [List.filterMap_cons, hy] at h
      have := (List.nodup_cons.mp h).1
      exact this (List.mem_filterMap.mpr ⟨d, hd, hfd⟩)
    have htail : (l.filterMap f).Nodup := by
      rw [List.filterMap_cons] at h
      cases hc : f c with
      | none => rw [hc] at h; exact h
      | some y => rw [hc] at h; exact (List.nodup_cons.mp h).2
    rcases List.mem_cons.mp ha with rfl | ha' <;> rcases List.mem_cons.mp hb with rfl | hb'
    · rfl
    · exact absurd hfb (key x hfa b hb')
    · exact absurd hfa (key x hfb a ha')
    · exact ih htail hl'.2 a ha' b hb' x hfa hfb

/-- `mapM` in `Option`, element by element -/
theorem mapM_eq_some {α β : Type} (f : α → Option β) : ∀ (l : List α) (m : List β), l.length = m.length →
    (∀ (i : Nat) (a : α), l[i]? = some a → ∃ b, m[i]? = some b ∧ f a = some b) → l.mapM f = some m := by
  intro l
  induction l with
  | nil => intro m hm _; cases m with | nil => rfl | cons _ _ => simp at hm
  | cons a l ih =>
    intro m hm h
    cases m with
    | nil => simp at hm
    | cons b m =>
      obtain ⟨b', hb', hf⟩ := h 0 a (by simp)
      simp only [List.getElem?_cons_zero, Option.some.injEq] at hb'
      subst hb'
      have := ih m (by simpa using hm) (fun i a' hi => by
        have := h (i + 1) a' (by simpa using hi)
        simpa using this)
      simp [List.mapM_cons, hf, this]

/-- `filterMap` by index -/
theorem filterMap_eq_range {α β : Type} (h : α → Option β) (g : Nat → Option β) : ∀ (l : List α) (s : Nat),
    (∀ (i : Nat) (a : α), l[i]? = some a → h a = g (s + i)) →
    l.filterMap h = (List.range' s l.length).filterMap g := by
  intro l
  induction l with
  | nil => intro s _; rfl
  | cons a l ih =>
    intro s hl
    have h0 := hl 0 a (by simp)
    have := ih (s + 1) (fun i a' hi => by
      have := hl (i + 1) a' (by simpa using hi)
      rw [this]; congr 1; omega)
    simp only [List.length_cons, List.range'_succ, List.filterMap_cons, h0, Nat.add_zero, this]

end Prog.ListAux
