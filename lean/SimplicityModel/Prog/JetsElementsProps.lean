/-
The Elements jet table of the driver reads back the names it prints (`parse (display j) = j`, from
the table-wide checks of C14) — the table hypothesis of the assembled codec theorems of C01/C02.
-/
import SimplicityModel.Prog.JetsElements
import SimplicityModel.C14.Elements

namespace Prog.JetsE

theorem ofName_nameOf (j : J) : ofName (nameOf j) = some j := by
  have hj : j.1 < F.rows.length := by
    have := j.2
    simpa [JetTable.Family.codes] using this
  have := JetTable.Family.parse_display C14.Elements.checked j.1 hj
  unfold ofName nameOf row
  unfold JetTable.Family.display at this
  rw [this]
  simp [j.2]

end Prog.JetsE
