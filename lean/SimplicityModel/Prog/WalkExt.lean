/-
Facts about a single run of the index walk `Prog.walk` (C02/C01 assembly, commitment time): one
unfolding is "some child walks, then the final step" (`walk_decomp`); the state only grows (`Ext`):
the item list is extended, look-ups in the tracker persist, every new item had an unseen key that is
seen afterwards, every newly seen key belongs to a new item, the keys of the new items are pairwise
different; and the walk from a root whose key is not the key of any node below it ends with the item
of the root (`walk_root_last`).
-/
import SimplicityModel.Prog.WalkSim

namespace Prog

variable {K : Type} [DecidableEq K]

/-- one unfolding of `walk`: a property `R` of states that holds at the start and is kept by the
walk of every child holds of the state in which the final step is taken -/
theorem walk_decomp (ch : Nat → List Nat) (key : Nat → Option K) (f t : Nat) (st : WalkSt K)
    (R : WalkSt K → Prop) (h0 : R st)
    (hstep : ∀ c ∈ ch t, ∀ s, R s → R (walk ch key f c s).1) :
    ∃ li ri s', R s' ∧ walk ch key (f+1) t st = walkFin key t li ri s' := by
  rw [walk_succ]
  match hc : ch t with
  | [] => exact ⟨none, none, st, h0, rfl⟩
  | [l] =>
    have hl := hstep l (by rw [hc]; simp)
    simp only []
    cases walkBefore key l st with
    | some i => exact ⟨_, _, st, h0, rfl⟩
    | none => exact ⟨_, _, _, hl st h0, rfl⟩
  | l :: r :: rest =>
    have hl := hstep l (by rw [hc]; simp)
    have hr := hstep r (by rw [hc]; simp)
    simp only []
    cases walkBefore key l st with
    | some li =>
      cases walkBefore key r st with
      | some ri => exact ⟨_, _, st, h0, rfl⟩
      | none => exact ⟨_, _, _, hr st h0, rfl⟩
    | none =>
      cases walkBefore key r st with
      | some ri => exact ⟨_, _, _, hl st h0, rfl⟩
      | none => exact ⟨_, _, _, hr _ (hl st h0), rfl⟩

/-- the keys of a list of items -/
def keysOf (key : Nat → Option K) (l : List WOut) : List K := l.filterMap fun o => key o.node

/-- `st'` extends `st` by items of nodes in `P` -/
structure Ext (key : Nat → Option K) (P : Nat → Prop) (st st' : WalkSt K) : Prop where
  outs : ∃ new : List WOut, st'.outs.toList = st.outs.toList ++ new ∧
    (∀ o ∈ new, P o.node ∧ ∀ k, key o.node = some k →
      seenLook st.seen k = none ∧ (seenLook st'.seen k).isSome) ∧
    (∀ k, seenLook st.seen k = none → (seenLook st'.seen k).isSome → ∃ o ∈ new, key o.node = some k) ∧
    (keysOf key new).Nodup
  mono : ∀ k i, seenLook st.seen k = some i → seenLook st'.seen k = some i

theorem Ext.refl (key : Nat → Option K) (P : Nat → Prop) (st : WalkSt K) : Ext key P st st :=
  ⟨⟨[], by simp, (fun o ho => by cases ho), (fun k h1 h2 => by rw [h1] at h2; cases h2),
    (by simp [keysOf])⟩, fun _ _ h => h⟩

theorem Ext.trans {key : Nat → Option K} {P : Nat → Prop} {a b c : WalkSt K}
    (h1 : Ext key P a b) (h2 : Ext key P b c) : Ext key P a c := by
  obtain ⟨n1, e1, p1, v1, d1⟩ := h1.outs
  obtain ⟨n2, e2, p2, v2, d2⟩ := h2.outs
  have unseen_a : ∀ k, seenLook b.seen k = none → seenLook a.seen k = none := by
    intro k hb
    cases ha : seenLook a.seen k with
    | none => rfl
    | some i => rw [h1.mono k i ha] at hb; cases hb
  have seen_c : ∀ k, (seenLook b.seen k).isSome → (seenLook c.seen k).isSome := by
    intro k hb
    obtain ⟨i, hi⟩ := Option.isSome_iff_exists.mp hb
    rw [h2.mono k i hi]; rfl
  refine ⟨⟨n1 ++ n2, by rw [e2, e1, List.append_assoc], ?_, ?_, ?_⟩, fun k i h => h2.mono k i (h1.mono k i h)⟩
  · intro o ho
    rcases List.mem_append.mp ho with ho | ho
    · exact ⟨(p1 o ho).1, fun k hk => ⟨((p1 o ho).2 k hk).1, seen_c k ((p1 o ho).2 k hk).2⟩⟩
    · exact ⟨(p2 o ho).1, fun k hk => ⟨unseen_a k ((p2 o ho).2 k hk).1, ((p2 o ho).2 k hk).2⟩⟩
  · intro k ha hc
    cases hb : seenLook b.seen k with
    | some i =>
      obtain ⟨o, ho, hk⟩ := v1 k ha (by rw [hb]; rfl)
      exact ⟨o, List.mem_append_left _ ho, hk⟩
    | none =>
      obtain ⟨o, ho, hk⟩ := v2 k hb hc
      exact ⟨o, List.mem_append_right _ ho, hk⟩
  · unfold keysOf at d1 d2 ⊢
    rw [List.filterMap_append]
    refine List.nodup_append.mpr ⟨d1, d2, ?_⟩
    intro x hx y hy e
    subst e
    obtain ⟨o1, ho1, hk1⟩ := List.mem_filterMap.mp hx
    obtain ⟨o2, ho2, hk2⟩ := List.mem_filterMap.mp hy
    have s1 := ((p1 o1 ho1).2 x hk1).2
    have s2 := ((p2 o2 ho2).2 x hk2).1
    rw [s2] at s1; cases s1

/-- the final step extends the state -/
theorem ext_fin (key : Nat → Option K) (P : Nat → Prop) (t : Nat) (ht : P t) (li ri : Option Nat)
    (s : WalkSt K) : Ext key P s (walkFin key t li ri s).1 := by
  unfold walkFin
  cases hk : key t with
  | none =>
    simp only []
    refine ⟨⟨[⟨t, s.idx, li, ri⟩], by simp, ?_, ?_, ?_⟩, fun _ _ h => h⟩
    · intro o ho
      simp only [List.mem_singleton] at ho
      subst ho
      exact ⟨ht, fun k hk' => by rw [hk] at hk'; cases hk'⟩
    · intro k h1 h2; rw [h1] at h2; cases h2
    · simp [keysOf, hk]
  | some k =>
    simp only []
    cases hs : seenLook s.seen k with
    | some i => exact Ext.refl key P s
    | none =>
      simp only []
      refine ⟨⟨[⟨t, s.idx, li, ri⟩], by simp, ?_, ?_, ?_⟩, ?_⟩
      · intro o ho
        simp only [List.mem_singleton] at ho
        subst ho
        refine ⟨ht, fun k' hk' => ?_⟩
        rw [hk] at hk'
        cases hk'
        exact ⟨hs, by simp [seenLook_cons]⟩
      · intro k' h1 h2
        refine ⟨_, List.mem_singleton.mpr rfl, ?_⟩
        simp only [seenLook_cons] at h2
        by_cases e : k' = k
        · subst e; exact hk
        · rw [if_neg e, h1] at h2; cases h2
      · simp [keysOf, hk]
      · intro k' i h
        simp only [seenLook_cons]
        by_cases e : k' = k
        · subst e; rw [hs] at h; cases h
        · rw [if_neg e]; exact h

/-- **a walk extends the state** -/
theorem walk_ext (ch : Nat → List Nat) (key : Nat → Option K) (P : Nat → Prop)
    (hcl : ∀ t, P t → ∀ c ∈ ch t, P c) :
    ∀ (f t : Nat) (st : WalkSt K), P t → Ext key P st (walk ch key f t st).1 := by
  intro f
  induction f with
  | zero => intro t st _; exact Ext.refl key P st
  | succ f ih =>
    intro t st ht
    obtain ⟨li, ri, s', hR, he⟩ := walk_decomp ch key f t st (Ext key P st) (Ext.refl key P st)
      (fun c hc s hs => hs.trans (ih c s (hcl t ht c hc)))
    rw [he]
    exact hR.trans (ext_fin key P t ht li ri s')

/-- the new items of a walk from the empty state are all its items -/
theorem Ext.from_empty {key : Nat → Option K} {P : Nat → Prop} {s : WalkSt K}
    (h : Ext key P ⟨#[], [], 0⟩ s) :
    (∀ o ∈ s.outs.toList, P o.node) ∧ (keysOf key s.outs.toList).Nodup ∧
    (∀ k, (seenLook s.seen k).isSome → ∃ o ∈ s.outs.toList, key o.node = some k) := by
  obtain ⟨new, e, p, v, d⟩ := h.outs
  simp only [List.nil_append] at e
  rw [e]
  exact ⟨fun o ho => (p o ho).1, d, fun k hk => v k rfl hk⟩

/-- **the root comes last**: when the key of the root is not the key of any node below it (nodes in
`P`, which contains the children of the root and is closed under children), the walk from the root,
started in the empty state, ends with the item of the root, and all items before it are in `P` -/
theorem walk_root_last (ch : Nat → List Nat) (key : Nat → Option K) (P : Nat → Prop)
    (hcl : ∀ t, P t → ∀ c ∈ ch t, P c) (f root : Nat) (hch : ∀ c ∈ ch root, P c)
    (hfresh : ∀ x, P x → ∀ k, key x = some k → key root ≠ some k) :
    ∃ (pre : List WOut) (last : WOut),
      (walk ch key (f+1) root ⟨#[], [], 0⟩).1.outs.toList = pre ++ [last] ∧ last.node = root ∧
      ∀ o ∈ pre, P o.node := by
  obtain ⟨li, ri, s', hR, he⟩ := walk_decomp ch key f root ⟨#[], [], 0⟩ (Ext key P ⟨#[], [], 0⟩)
    (Ext.refl key P _) (fun c hc s hs => hs.trans (walk_ext ch key P hcl f c s (hch c hc)))
  obtain ⟨hP, _, hprov⟩ := hR.from_empty
  rw [he]
  unfold walkFin
  cases hk : key root with
  | none => exact ⟨s'.outs.toList, ⟨root, s'.idx, li, ri⟩, by simp, rfl, hP⟩
  | some k =>
    simp only []
    cases hs : seenLook s'.seen k with
    | none => exact ⟨s'.outs.toList, ⟨root, s'.idx, li, ri⟩, by simp, rfl, hP⟩
    | some i =>
      obtain ⟨o, ho, hko⟩ := hprov k (by rw [hs]; rfl)
      exact absurd hk (hfresh o.node (hP o ho) k hko)

/-- a node without a key is yielded by its walk (given fuel) -/
theorem walk_keyless_yields (ch : Nat → List Nat) (key : Nat → Option K) (f t : Nat) (st : WalkSt K)
    (hk : key t = none) :
    ∃ (mid : List WOut) (o : WOut), o.node = t ∧
      (walk ch key (f+1) t st).1.outs.toList = st.outs.toList ++ mid ++ [o] := by
  obtain ⟨li, ri, s', ⟨mid, hm⟩, he⟩ := walk_decomp ch key f t st
    (fun s => ∃ mid, s.outs.toList = st.outs.toList ++ mid) ⟨[], by simp⟩
    (fun c _ s ⟨m, hm⟩ => by
      obtain ⟨new, e, _⟩ := (walk_ext ch key (fun _ => True) (fun _ _ _ _ => trivial) f c s trivial).outs
      exact ⟨m ++ new, by rw [e, hm, List.append_assoc]⟩)
  rw [he]
  unfold walkFin
  rw [hk]
  exact ⟨mid, ⟨t, s'.idx, li, ri⟩, rfl, by simp [hm]⟩

/-- in a duplicate-free `filterMap`, equal images come from equal elements -/
theorem filterMap_nodup_eq {α β : Type} (f : α → Option β) : ∀ (l : List α), (l.filterMap f).Nodup →
    ∀ a ∈ l, ∀ b ∈ l, ∀ x, f a = some x → f b = some x → a = b := by
  intro l
  induction l with
  | nil => intro _ a ha; cases ha
  | cons c l ih =>
    intro h a ha b hb x hfa hfb
    have key : ∀ y, f c = some y → ∀ d ∈ l, f d ≠ some y := by
      intro y hy d hd hfd
      rw [List.filterMap_cons, hy] at h
      have := (List.nodup_cons.mp h).1
      exact this (List.mem_filterMap.mpr ⟨d, hd, hfd⟩)
    have htail : (l.filterMap f).Nodup := by
      rw [List.filterMap_cons] at h
      cases hc : f c with
      | none => rw [hc] at h; exact h
      | some y => rw [hc] at h; exact (List.nodup_cons.mp h).2
    rcases List.mem_cons.mp ha with rfl | ha' <;> rcases List.mem_cons.mp hb with rfl | hb'
    · rfl
    · exact absurd hfb (key x hfa b hb')
    · exact absurd hfa (key x hfb a ha')
    · exact ih htail a ha' b hb' x hfa hfb

#print axioms walk_ext
#print axioms walk_root_last

end Prog
