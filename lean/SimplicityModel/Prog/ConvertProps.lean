/-
What an accepted conversion `Prog.convert` says about the plan it returns (C02/C01 assembly):
node for node it is `convNode` of the wire node, the root is not hidden, no two hidden nodes have the
same root.
-/
import SimplicityModel.Prog.Codec

namespace Prog
open Wire

variable {J : Type}

/-- what `convNode` returns, by cases on the wire node -/
theorem convNode_spec (nameOf : J → String) (A : Array (WNode J)) (n : WNode J) (nd : Node)
    (h : convNode nameOf A n = .ok nd) :
    match n with
    | .iden => nd = .iden
    | .unit => nd = .unit
    | .witness => nd = .witness
    | .injl c => nd = .injl c ∧ hiddenAt A c = none
    | .injr c => nd = .injr c ∧ hiddenAt A c = none
    | .take c => nd = .take c ∧ hiddenAt A c = none
    | .drop c => nd = .drop c ∧ hiddenAt A c = none
    | .disc1 c => nd = .disconnect c none ∧ hiddenAt A c = none
    | .comp a b => nd = .comp a b ∧ hiddenAt A a = none ∧ hiddenAt A b = none
    | .pair a b => nd = .pair a b ∧ hiddenAt A a = none ∧ hiddenAt A b = none
    | .disc a b => nd = .disconnect a (some b) ∧ hiddenAt A a = none ∧ hiddenAt A b = none
    | .case a b =>
      (nd = .case a b ∧ hiddenAt A a = none ∧ hiddenAt A b = none) ∨
      (∃ r, nd = .assertl a r ∧ hiddenAt A a = none ∧ hiddenAt A b = some r) ∨
      (∃ r, nd = .assertr r b ∧ hiddenAt A a = some r ∧ hiddenAt A b = none)
    | .fail e => nd = .fail (bitsBytes e)
    | .hidden r => nd = .hidden (bitsNat r)
    | .jet j => nd = .jet (nameOf j)
    | .word k w => nd = .word k w := by
  have nv : ∀ c, (∀ e, needVisible A c ≠ .error e) → hiddenAt A c = none := by
    intro c hc
    unfold needVisible at hc
    cases hh : hiddenAt A c with
    | none => rfl
    | some x => rw [hh] at hc; exact absurd rfl (hc .hidden)
  cases n with
  | iden | unit | witness | fail _ | hidden _ | jet _ | word _ _ =>
    simp only [convNode, Except.ok.injEq] at h; exact h.symm
  | injl c | injr c | take c | drop c | disc1 c =>
    simp only [convNode] at h
    cases hn : needVisible A c with
    | error e => rw [hn] at h; cases h
    | ok u =>
      rw [hn] at h
      simp only [Except.ok.injEq] at h
      exact ⟨h.symm, nv c (by intro e he; rw [hn] at he; cases he)⟩
  | comp a b | pair a b | disc a b =>
    simp only [convNode] at h
    cases hn : needVisible A a with
    | error e => rw [hn] at h; cases h
    | ok u =>
      rw [hn] at h
      cases hm : needVisible A b with
      | error e => rw [hm] at h; cases h
      | ok u' =>
        rw [hm] at h
        simp only [Except.ok.injEq] at h
        exact ⟨h.symm, nv a (by intro e he; rw [hn] at he; cases he),
          nv b (by intro e he; rw [hm] at he; cases he)⟩
  | case a b =>
    simp only [convNode] at h
    dsimp only
    cases ha : hiddenAt A a with
    | none =>
      cases hb : hiddenAt A b with
      | none => rw [ha, hb] at h; simp only [Except.ok.injEq] at h; exact .inl ⟨h.symm, rfl, rfl⟩
      | some r => rw [ha, hb] at h; simp only [Except.ok.injEq] at h; exact .inr (.inl ⟨r, h.symm, rfl, rfl⟩)
    | some r =>
      cases hb : hiddenAt A b with
      | none => rw [ha, hb] at h; simp only [Except.ok.injEq] at h; exact .inr (.inr ⟨r, h.symm, rfl, rfl⟩)
      | some r' => rw [ha, hb] at h; cases h

/-- the loop: node for node, and the hidden roots are new and pairwise different -/
theorem convertGo_spec (nameOf : J → String) (A : Array (WNode J)) :
    ∀ (l : List (WNode J)) (seen : List Nat) (out : List Node),
      convertGo nameOf A l seen = .ok out →
      out.length = l.length ∧
      (∀ (i : Nat) (n : WNode J), l[i]? = some n →
        ∃ nd, out[i]? = some nd ∧ convNode nameOf A n = .ok nd) ∧
      (∀ (i : Nat) (r : List Bool), l[i]? = some (.hidden r) → bitsNat r ∉ seen) ∧
      (∀ (i j : Nat) (r r' : List Bool), l[i]? = some (.hidden r) → l[j]? = some (.hidden r') →
        bitsNat r = bitsNat r' → i = j) := by
  intro l
  induction l with
  | nil =>
    intro seen out h
    simp only [convertGo, Except.ok.injEq] at h
    subst h
    simp
  | cons n rest ih =>
    intro seen out h
    simp only [convertGo] at h
    cases hc : convNode nameOf A n with
    | error e => rw [hc] at h; cases h
    | ok nd =>
      rw [hc] at h
      simp only [] at h
      -- the hidden-root bookkeeping
      split at h
      · cases h
      · next seen' hs =>
        cases hr : convertGo nameOf A rest seen' with
        | error e => rw [hr] at h; cases h
        | ok tl =>
          rw [hr] at h
          simp only [Except.ok.injEq] at h
          subst h
          obtain ⟨hlen, hnode, hnew, hdist⟩ := ih seen' tl hr
          -- how `seen'` relates to `seen`
          have hseen : (∀ x, x ∈ seen → x ∈ seen') ∧
              (∀ r, n = .hidden r → bitsNat r ∉ seen ∧ bitsNat r ∈ seen') := by
            cases n with
            | hidden r0 =>
              simp only [] at hs
              by_cases hm : seen.contains (bitsNat r0) = true
              · rw [if_pos hm] at hs; cases hs
              · rw [if_neg hm] at hs
                simp only [Except.ok.injEq] at hs
                subst hs
                refine ⟨fun x hx => List.mem_cons_of_mem _ hx, ?_⟩
                intro r hr0
                cases hr0
                refine ⟨?_, List.mem_cons_self⟩
                intro hin
                exact hm (List.contains_iff_mem.mpr hin)
            | _ =>
              simp only [Except.ok.injEq] at hs
              subst hs
              exact ⟨fun x hx => hx, fun r hr0 => by cases hr0⟩
          refine ⟨by simp [hlen], ?_, ?_, ?_⟩
          · intro i m hi
            cases i with
            | zero =>
              simp only [List.getElem?_cons_zero, Option.some.injEq] at hi
              subst hi
              exact ⟨nd, by simp, hc⟩
            | succ i =>
              simp only [List.getElem?_cons_succ] at hi ⊢
              exact hnode i m hi
          · intro i r hi
            cases i with
            | zero =>
              simp only [List.getElem?_cons_zero, Option.some.injEq] at hi
              exact (hseen.2 r hi).1
            | succ i =>
              simp only [List.getElem?_cons_succ] at hi
              exact fun hin => hnew i r hi (hseen.1 _ hin)
          · intro i j r r' hi hj he
            cases i with
            | zero =>
              cases j with
              | zero => rfl
              | succ j =>
                simp only [List.getElem?_cons_zero, Option.some.injEq] at hi
                simp only [List.getElem?_cons_succ] at hj
                exact absurd (he ▸ (hseen.2 r hi).2) (hnew j r' hj)
            | succ i =>
              cases j with
              | zero =>
                simp only [List.getElem?_cons_zero, Option.some.injEq] at hj
                simp only [List.getElem?_cons_succ] at hi
                exact absurd (he ▸ (hseen.2 r' hj).2) (hnew i r hi)
              | succ j =>
                simp only [List.getElem?_cons_succ] at hi hj
                rw [hdist i j r r' hi hj he]

/-- **conversion, node for node** -/
theorem convert_spec (nameOf : J → String) (A : Array (WNode J)) (plan : Plan)
    (h : convert nameOf A = .ok plan) :
    plan.size = A.size ∧
    (∀ (i : Nat) (n : WNode J), A[i]? = some n →
      ∃ nd, plan[i]? = some nd ∧ convNode nameOf A n = .ok nd) ∧
    hiddenAt A (A.size - 1) = none ∧
    (∀ (i j : Nat) (r r' : List Bool), A[i]? = some (.hidden r) → A[j]? = some (.hidden r') →
      bitsNat r = bitsNat r' → i = j) := by
  unfold convert at h
  cases hg : convertGo nameOf A A.toList [] with
  | error e => rw [hg] at h; cases h
  | ok out =>
    rw [hg] at h
    simp only [] at h
    obtain ⟨hlen, hnode, _, hdist⟩ := convertGo_spec nameOf A A.toList [] out hg
    by_cases hh : (hiddenAt A (A.size - 1)).isSome = true
    · rw [if_pos hh] at h; cases h
    · rw [if_neg hh] at h
      simp only [Except.ok.injEq] at h
      subst h
      refine ⟨by simp [hlen], ?_, ?_, ?_⟩
      · intro i n hi
        have := hnode i n (by simpa using hi)
        simpa using this
      · cases hx : hiddenAt A (A.size - 1) with
        | none => rfl
        | some x => rw [hx] at hh; exact absurd rfl hh
      · intro i j r r' hi hj
        exact hdist i j r r' (by simpa using hi) (by simpa using hj)

#print axioms convert_spec

end Prog
