/-
The encoder's DAG of a converted plan (plan nodes `2*i`, hidden pseudo-nodes `2*j+1`, shared by identity
root / hidden root) is simulated by the decoder's wire DAG under pointer sharing (C02 assembly): the
hypotheses of `Prog.walk_sim` hold whenever the conversion succeeded, references point backwards,
hidden roots are pairwise different and the identity roots of the visible nodes are pairwise different.
-/
import SimplicityModel.Prog.ConvertProps
import SimplicityModel.Prog.WalkSim
set_option linter.unusedSimpArgs false
namespace Prog
open Wire
variable {J : Type}

def encPhi (A : Array (WNode J)) (t : Nat) : Nat :=
  if t % 2 = 0 then t / 2 else
  match A[t / 2]? with
  | some (.case a b) => if (hiddenAt A b).isSome then b else a
  | _ => 0

def EncD (A : Array (WNode J)) (t : Nat) : Prop :=
  (t % 2 = 0 ∧ t / 2 < A.size ∧ hiddenAt A (t / 2) = none) ∨
  (t % 2 = 1 ∧ ∃ a b, A[t / 2]? = some (.case a b) ∧
    ((hiddenAt A a = none ∧ (hiddenAt A b).isSome) ∨ ((hiddenAt A a).isSome ∧ hiddenAt A b = none)))

/-- what conversion establishes (shared by redemption and commitment time) -/
structure DecFacts0 (nameOf : J → String) (A : Array (WNode J)) (plan : Plan) (an : Array Annot) : Prop where
  size : plan.size = A.size
  ansize : an.size = A.size
  node : ∀ (i : Nat) (n : WNode J), A[i]? = some n → ∃ nd, plan[i]? = some nd ∧ convNode nameOf A n = .ok nd
  ok : ∀ (i : Nat) (n : WNode J), A[i]? = some n → n.Ok i
  hdist : ∀ (i j : Nat) (r r' : List Bool), A[i]? = some (.hidden r) → A[j]? = some (.hidden r') →
    bitsNat r = bitsNat r' → i = j

structure DecFacts (nameOf : J → String) (A : Array (WNode J)) (plan : Plan) (an : Array Annot) : Prop
    extends DecFacts0 nameOf A plan an where
  ihr : ∀ (i j : Nat) (a b : Annot), hiddenAt A i = none → hiddenAt A j = none → an[i]? = some a →
    an[j]? = some b → a.ihr = b.ihr → i = j

theorem two_mul_mod (i : Nat) : (2 * i) % 2 = 0 := by omega
theorem two_mul_div (i : Nat) : (2 * i) / 2 = i := by omega
theorem two_mul_succ_mod (i : Nat) : (2 * i + 1) % 2 = 1 := by omega
theorem two_mul_succ_div (i : Nat) : (2 * i + 1) / 2 = i := by omega


theorem hiddenAt_hidden {A : Array (WNode J)} {i : Nat} {r : List Bool} (h : A[i]? = some (.hidden r)) :
    hiddenAt A i = some (bitsNat r) := by simp [hiddenAt, h]

theorem hiddenAt_some {A : Array (WNode J)} {i x : Nat} (h : hiddenAt A i = some x) :
    ∃ r, A[i]? = some (.hidden r) ∧ bitsNat r = x := by
  unfold hiddenAt at h
  split at h
  · next r hr => exact ⟨r, hr, by simpa using h⟩
  · cases h

/-- the hidden child of an assertion's `case` node -/
theorem encPhi_odd {A : Array (WNode J)} {i a b : Nat} (hA : A[i]? = some (.case a b)) :
    encPhi A (2 * i + 1) = if (hiddenAt A b).isSome then b else a := by
  simp [encPhi, two_mul_succ_mod, two_mul_succ_div, hA]

theorem encPhi_even (A : Array (WNode J)) (i : Nat) : encPhi A (2 * i) = i := by
  simp [encPhi, two_mul_mod, two_mul_div]

theorem enc_ch {nameOf : J → String} {A : Array (WNode J)} {plan : Plan} {an : Array Annot}
    (F : DecFacts0 nameOf A plan an) (t : Nat) (ht : EncD A t) :
    wireChildren A (encPhi A t) = (encChildren plan true t).map (encPhi A) := by
  rcases ht with ⟨h2, hlt, hvis⟩ | ⟨h2, a, b, hA, hh⟩
  · obtain ⟨i, rfl⟩ : ∃ i, t = 2 * i := ⟨t / 2, by omega⟩
    rw [two_mul_div] at hlt hvis
    obtain ⟨n, hA⟩ : ∃ n, A[i]? = some n := ⟨A[i], Array.getElem?_eq_getElem hlt⟩
    obtain ⟨nd, hp, hc⟩ := F.node i _ hA
    have spec := convNode_spec nameOf A _ nd hc
    cases n <;> simp only [] at spec
    all_goals try (simp [spec, encPhi, encChildren, wireChildren, hA, hp]; done)
    rename_i a b
    rcases spec with ⟨rfl, ha, hb⟩ | ⟨r, rfl, ha, hb⟩ | ⟨r, rfl, ha, hb⟩
    · simp [encPhi, encChildren, wireChildren, hA, hp]
    · have := encPhi_odd hA
      simp only [hb, Option.isSome_some, if_true] at this
      simp [encPhi_even, this, encChildren, wireChildren, hA, hp, two_mul_mod, two_mul_div]
    · have := encPhi_odd hA
      simp only [hb, Option.isSome_none] at this
      simp [encPhi_even, this, encChildren, wireChildren, hA, hp, two_mul_mod, two_mul_div]
  · obtain ⟨i, rfl⟩ : ∃ i, t = 2 * i + 1 := ⟨t / 2, by omega⟩
    rw [two_mul_succ_div] at hA
    have hphi := encPhi_odd hA
    have hch : encChildren plan true (2 * i + 1) = [] := by simp [encChildren, two_mul_succ_mod]
    rw [hch, hphi]
    rcases hh with ⟨ha, hb⟩ | ⟨ha, hb⟩
    · rw [if_pos hb]
      obtain ⟨x, hx⟩ := Option.isSome_iff_exists.mp hb
      obtain ⟨r, hr, _⟩ := hiddenAt_some hx
      simp [wireChildren, hr]
    · rw [hb]
      obtain ⟨x, hx⟩ := Option.isSome_iff_exists.mp ha
      obtain ⟨r, hr, _⟩ := hiddenAt_some hx
      simp [wireChildren, hr]

theorem enc_closed {nameOf : J → String} {A : Array (WNode J)} {plan : Plan} {an : Array Annot}
    (F : DecFacts0 nameOf A plan an) (t : Nat) (ht : EncD A t) :
    ∀ c ∈ encChildren plan true t, EncD A c ∧ encPhi A c < encPhi A t ∧
      (if c % 2 = 0 then c + 1 else c - 1) < (if t % 2 = 0 then t + 1 else t - 1) := by
  rcases ht with ⟨h2, hlt, hvis⟩ | ⟨h2, a, b, hA, hh⟩
  · obtain ⟨i, rfl⟩ : ∃ i, t = 2 * i := ⟨t / 2, by omega⟩
    rw [two_mul_div] at hlt hvis
    obtain ⟨n, hA⟩ : ∃ n, A[i]? = some n := ⟨A[i], Array.getElem?_eq_getElem hlt⟩
    obtain ⟨nd, hp, hc⟩ := F.node i _ hA
    have spec := convNode_spec nameOf A _ nd hc
    have hok := F.ok i _ hA
    have even : ∀ c, c < i → hiddenAt A c = none →
        EncD A (2 * c) ∧ encPhi A (2 * c) < encPhi A (2 * i) ∧
        (if (2 * c) % 2 = 0 then 2 * c + 1 else 2 * c - 1) < (if (2 * i) % 2 = 0 then 2 * i + 1 else 2 * i - 1) := by
      intro c hc hv
      refine ⟨.inl ⟨two_mul_mod c, by rw [two_mul_div]; omega, by rw [two_mul_div]; exact hv⟩, ?_, ?_⟩
      · rw [encPhi_even, encPhi_even]; exact hc
      · rw [if_pos (two_mul_mod c), if_pos (two_mul_mod i)]; omega
    cases n <;> simp only [WNode.Ok] at spec hok
    all_goals try (simp only [spec, encChildren, hp, two_mul_mod, two_mul_div]; simp; done)
    all_goals try (
      intro c hcm
      simp only [spec, encChildren, hp, two_mul_mod, two_mul_div] at hcm
      simp at hcm
      subst hcm
      exact even _ hok spec.2; done)
    all_goals try (
      intro c hcm
      simp only [spec, encChildren, hp, two_mul_mod, two_mul_div] at hcm
      simp at hcm
      rcases hcm with rfl | rfl
      · exact even _ hok.1 spec.2.1
      · exact even _ hok.2 spec.2.2
      done)
    rename_i a b
    have odd : ∀ x, encPhi A (2 * i + 1) = x → x < i → EncD A (2 * i + 1) →
        EncD A (2 * i + 1) ∧ encPhi A (2 * i + 1) < encPhi A (2 * i) ∧
        (if (2 * i + 1) % 2 = 0 then 2 * i + 1 + 1 else 2 * i + 1 - 1) <
          (if (2 * i) % 2 = 0 then 2 * i + 1 else 2 * i - 1) := by
      intro x hx hlt hD
      refine ⟨hD, by rw [hx, encPhi_even]; exact hlt, ?_⟩
      rw [if_neg (by rw [two_mul_succ_mod]; decide), if_pos (two_mul_mod i)]; omega
    have hAd : A[(2 * i + 1) / 2]? = some (.case a b) := by rw [two_mul_succ_div]; exact hA
    rcases spec with ⟨rfl, ha, hb⟩ | ⟨r, rfl, ha, hb⟩ | ⟨r, rfl, ha, hb⟩
    · intro c hcm
      simp only [encChildren, hp, two_mul_mod, two_mul_div] at hcm
      simp at hcm
      rcases hcm with rfl | rfl
      · exact even _ hok.1 ha
      · exact even _ hok.2 hb
    · intro c hcm
      simp only [encChildren, hp, two_mul_mod, two_mul_div] at hcm
      simp at hcm
      rcases hcm with rfl | rfl
      · exact even _ hok.1 ha
      · refine odd b ?_ hok.2 (.inr ⟨two_mul_succ_mod i, a, b, hAd, .inl ⟨ha, by simp [hb]⟩⟩)
        rw [encPhi_odd hA]; simp [hb]
    · intro c hcm
      simp only [encChildren, hp, two_mul_mod, two_mul_div] at hcm
      simp at hcm
      rcases hcm with rfl | rfl
      · refine odd a ?_ hok.1 (.inr ⟨two_mul_succ_mod i, a, b, hAd, .inr ⟨by simp [ha], hb⟩⟩)
        rw [encPhi_odd hA]; simp [hb]
      · exact even _ hok.2 hb
  · obtain ⟨i, rfl⟩ : ∃ i, t = 2 * i + 1 := ⟨t / 2, by omega⟩
    have hch : encChildren plan true (2 * i + 1) = [] := by simp [encChildren, two_mul_succ_mod]
    rw [hch]; intro c hc; cases hc

theorem enc_key_even {nameOf : J → String} {A : Array (WNode J)} {plan : Plan} {an : Array Annot}
    (F : DecFacts0 nameOf A plan an) (i : Nat) (hlt : i < A.size) :
    ∃ a, an[i]? = some a ∧ encKey plan an true (2 * i) = some (false, a.ihr) := by
  have : i < an.size := by rw [F.ansize]; exact hlt
  refine ⟨an[i], Array.getElem?_eq_getElem this, ?_⟩
  simp [encKey, two_mul_mod, two_mul_div, Array.getElem?_eq_getElem this]

theorem enc_key_odd {nameOf : J → String} {A : Array (WNode J)} {plan : Plan} {an : Array Annot}
    (F : DecFacts0 nameOf A plan an) (i a b : Nat) (hA : A[i]? = some (.case a b))
    (hh : (hiddenAt A a = none ∧ (hiddenAt A b).isSome) ∨ ((hiddenAt A a).isSome ∧ hiddenAt A b = none)) :
    ∃ r, hiddenAt A (encPhi A (2 * i + 1)) = some r ∧
      encKey plan an true (2 * i + 1) = some (true, r) := by
  obtain ⟨nd, hp, hc⟩ := F.node i _ hA
  have spec := convNode_spec nameOf A _ nd hc
  simp only [] at spec
  rw [encPhi_odd hA]
  rcases spec with ⟨rfl, ha, hb⟩ | ⟨r, rfl, ha, hb⟩ | ⟨r, rfl, ha, hb⟩
  · rcases hh with ⟨_, h⟩ | ⟨h, _⟩
    · rw [hb] at h; cases h
    · rw [ha] at h; cases h
  · exact ⟨r, by simp [hb], by simp [encKey, two_mul_succ_mod, two_mul_succ_div, hp]⟩
  · exact ⟨r, by simp [hb, ha], by simp [encKey, two_mul_succ_mod, two_mul_succ_div, hp]⟩

/-- every node of the encoder's DAG has a sharing key: the identity root of the plan node, or the
root of the hidden node -/
theorem enc_key {nameOf : J → String} {A : Array (WNode J)} {plan : Plan} {an : Array Annot}
    (F : DecFacts nameOf A plan an) (t : Nat) (ht : EncD A t) :
    (∃ a, hiddenAt A (encPhi A t) = none ∧ an[encPhi A t]? = some a ∧
      encKey plan an true t = some (false, a.ihr)) ∨
    (∃ r, hiddenAt A (encPhi A t) = some r ∧ encKey plan an true t = some (true, r)) := by
  rcases ht with ⟨h2, hlt, hvis⟩ | ⟨h2, a, b, hA, hh⟩
  · obtain ⟨i, rfl⟩ : ∃ i, t = 2 * i := ⟨t / 2, by omega⟩
    rw [two_mul_div] at hlt hvis
    obtain ⟨x, hx, hk⟩ := enc_key_even F.toDecFacts0 i hlt
    exact .inl ⟨x, by rw [encPhi_even]; exact hvis, by rw [encPhi_even]; exact hx, hk⟩
  · obtain ⟨i, rfl⟩ : ∃ i, t = 2 * i + 1 := ⟨t / 2, by omega⟩
    rw [two_mul_succ_div] at hA
    exact .inr (enc_key_odd F.toDecFacts0 i a b hA hh)

theorem enc_simHyp {nameOf : J → String} {A : Array (WNode J)} {plan : Plan} {an : Array Annot}
    (F : DecFacts nameOf A plan an) :
    SimHyp (encPhi A) (EncD A) (wireChildren A) (encChildren plan true) (fun i => some i)
      (encKey plan an true) (fun i => i) (fun t => if t % 2 = 0 then t + 1 else t - 1) where
  ch := enc_ch F.toDecFacts0
  closed := fun t ht c hc => (enc_closed F.toDecFacts0 t ht c hc).1
  isSome := by
    intro t ht
    rcases enc_key F t ht with ⟨a, _, _, hk⟩ | ⟨r, _, hk⟩ <;> simp [hk]
  inj := by
    intro t t' ht ht' k1 k1' k2 k2' h1 h1' h2 h2'
    simp only [Option.some.injEq] at h1 h1'
    subst h1 h1'
    rcases enc_key F t ht with ⟨a, hv, ha, hk⟩ | ⟨r, hv, hk⟩ <;>
      rcases enc_key F t' ht' with ⟨a', hv', ha', hk'⟩ | ⟨r', hv', hk'⟩
    · rw [hk] at h2; rw [hk'] at h2'
      cases h2; cases h2'
      constructor
      · intro e; rw [e] at ha; rw [ha] at ha'; cases ha'; rfl
      · intro e
        simp only [Prod.mk.injEq, true_and] at e
        exact F.ihr _ _ a a' hv hv' ha ha' e
    · rw [hk] at h2; rw [hk'] at h2'
      cases h2; cases h2'
      constructor
      · intro e; rw [e] at hv; rw [hv] at hv'; cases hv'
      · intro e; cases e
    · rw [hk] at h2; rw [hk'] at h2'
      cases h2; cases h2'
      constructor
      · intro e; rw [e] at hv; rw [hv] at hv'; cases hv'
      · intro e; cases e
    · rw [hk] at h2; rw [hk'] at h2'
      cases h2; cases h2'
      constructor
      · intro e; rw [e] at hv; rw [hv] at hv'; cases hv'; rfl
      · intro e
        simp only [Prod.mk.injEq, true_and] at e
        obtain ⟨rb, hrb, e1⟩ := hiddenAt_some hv
        obtain ⟨rb', hrb', e2⟩ := hiddenAt_some hv'
        exact F.hdist _ _ rb rb' hrb hrb' (by rw [e1, e2, e])
  rk1 := fun t ht c hc => (enc_closed F.toDecFacts0 t ht c hc).2.1
  rk2 := fun t ht c hc => (enc_closed F.toDecFacts0 t ht c hc).2.2

#print axioms enc_simHyp
end Prog
