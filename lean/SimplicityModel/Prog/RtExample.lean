/-
C01, non-vacuity of the general round trip: the plan `#[unit, unit, comp 1 0]` — one identity root at
two nodes (merged by the encoder) and children out of post-order (renumbered) — satisfies every
hypothesis of `Prog.roundtrip_general` with the Elements tables, the only thing left abstract being
that the SHA-256 identity roots of `unit` and `comp` differ.
-/
import SimplicityModel.Prog.RtGeneral
import SimplicityModel.Prog.RtJets
set_option linter.unusedSimpArgs false
namespace Prog.RtExample
open Prog Wire

/-- the Elements tables of the driver -/
def elemTables : Tables :=
  ⟨JetsE.J, JetsE.jc, JetsE.nameOf, JetsE.ofName, JetsE.jetTy, JetsE.jetCmr, JetsE.jetCost⟩

def dupUnit : Plan := #[Node.unit, Node.unit, Node.comp 1 0]
def arrows3 : Array (BM4.Ty × BM4.Ty) := #[(.one, .one), (.one, .one), (.one, .one)]

theorem dupUnit_infer : infer JetsE.jetTy dupUnit true = .ok arrows3 := by
  have hc : constraints JetsE.jetTy dupUnit true =
      some [(.var 1, .one), (.var 3, .one), (.var 3, .var 0), (.var 4, .var 2), (.var 5, .var 1),
        (.var 4, .one), (.var 5, .one)] := by rfl
  have hu : ∀ n, Inf.unify (n + 8)
      [(.var 1, .one), (.var 3, .one), (.var 3, .var 0), (.var 4, .var 2), (.var 5, .var 1),
        (.var 4, .one), (.var 5, .one)] [] =
      .ok [(2, .one), (5, .one), (4, .one), (0, .one), (3, .one), (1, .one)] := fun _ => rfl
  unfold infer
  rw [hc]
  have : unifyFuel = (unifyFuel - 8) + 8 := by decide
  rw [this]
  simp only [hu]
  congr 1
  have : Array.range dupUnit.size = #[0, 1, 2] := by decide
  rw [this]
  simp [Inf.closeUnit, Inf.lookup, Inf.Tm.eval, tyOfInf, arrows3]

theorem dupUnit_annots : ∃ a c, annots JetsE.jetCmr JetsE.jetCost dupUnit arrows3 (fun _ => none) = some #[a, a, c] := by
  simp [annots, annots.go, annotNode, dupUnit, arrows3]

theorem dupUnit_cases (i : Nat) (nd : Node) (hp : dupUnit[i]? = some nd) :
    (i = 0 ∧ nd = .unit) ∨ (i = 1 ∧ nd = .unit) ∨ (i = 2 ∧ nd = .comp 1 0) := by
  have hi : i < 3 := by
    rcases Nat.lt_or_ge i 3 with h' | h'
    · exact h'
    · rw [Array.getElem?_eq_none (by simpa [dupUnit] using h')] at hp; cases hp
  have : i = 0 ∨ i = 1 ∨ i = 2 := by omega
  rcases this with rfl | rfl | rfl <;> simp [dupUnit] at hp <;> subst hp <;> simp

theorem dupUnit_faithful (a c : Annot) (hne : a.ihr ≠ c.ihr) :
    IhrFaithful dupUnit arrows3 #[a, a, c] (fun _ => none) := by
  intro i i' nd nd' hp hp' e
  rcases dupUnit_cases i nd hp with ⟨rfl, rfl⟩ | ⟨rfl, rfl⟩ | ⟨rfl, rfl⟩ <;>
    rcases dupUnit_cases i' nd' hp' with ⟨rfl, rfl⟩ | ⟨rfl, rfl⟩ | ⟨rfl, rfl⟩ <;>
    first
      | exact absurd (by simpa using e) hne
      | exact absurd (by simpa using e.symm) hne
      | (refine ⟨rfl, ?_, rfl, fun _ => rfl⟩
         intro k c0 c0' h1 h2
         first
           | (rw [h1] at h2; cases h2; rfl)
           | (simp [Node.children] at h1))

theorem dupUnit_encode (a c : Annot) (hne : a.ihr ≠ c.ihr) :
    (walk (encChildren dupUnit true) (encKey dupUnit #[a, a, c] true) (2 * dupUnit.size + 2) (2 * (dupUnit.size - 1))
      ⟨#[], [], 0⟩).1.outs.toList.mapM (wireOf JetsE.ofName dupUnit) = some [.unit, .comp 0 0] := by
  have e1 : ((false, a.ihr) = (false, c.ihr)) = False := by simp [hne]
  have e2 : ((false, c.ihr) = (false, a.ihr)) = False := by simp [Ne.symm hne]
  simp [walk, encChildren, encKey, dupUnit, seenLook, wireOf, e1, e2, hne, Ne.symm hne]

theorem dupUnit_fuel (a c : Annot) (hne : a.ihr ≠ c.ihr) :
    ∀ q, reencodedPlan elemTables dupUnit #[a, a, c] = some q → infer elemTables.jetTy q true ≠ .fuel := by
  intro q hq
  unfold reencodedPlan at hq
  have := dupUnit_encode a c hne
  simp only [elemTables] at hq ⊢
  rw [this] at hq
  simp only at hq
  have hcv : convert JetsE.nameOf ([.unit, .comp 0 0] : List (WNode JetsE.J)).toArray = .ok #[Node.unit, Node.comp 0 0] := by rfl
  rw [hcv] at hq
  simp only [Option.some.injEq] at hq
  subst hq
  have hc : constraints JetsE.jetTy #[Node.unit, Node.comp 0 0] true =
      some [(.var 1, .one), (.var 1, .var 0), (.var 2, .var 0), (.var 3, .var 1), (.var 2, .one), (.var 3, .one)] := by rfl
  have hu : ∀ n, Inf.unify (n + 7)
      [(.var 1, .one), (.var 1, .var 0), (.var 2, .var 0), (.var 3, .var 1), (.var 2, .one), (.var 3, .one)] [] =
      .ok [(3, .one), (2, .one), (0, .one), (1, .one)] := fun _ => rfl
  unfold infer
  rw [hc]
  have : unifyFuel = (unifyFuel - 7) + 7 := by decide
  rw [this]
  simp only [hu]
  intro h; cases h

theorem dupUnit_encode_some (a c : Annot) (hne : a.ihr ≠ c.ihr) :
    ∃ pb wb, encode JetsE.jc JetsE.ofName dupUnit #[a, a, c] true (fun _ => none) = some (pb, wb) := by
  have hm := dupUnit_encode a c hne
  unfold encode
  generalize walk (encChildren dupUnit true) (encKey dupUnit #[a, a, c] true) (2 * dupUnit.size + 2)
    (2 * (dupUnit.size - 1)) ⟨#[], [], 0⟩ = w at hm
  obtain ⟨st, x⟩ := w
  simp only at hm ⊢
  rw [hm]
  exact ⟨_, _, rfl⟩

theorem dupUnit_backward : PlanBackward dupUnit := by
  intro i nd hp cc hc
  rcases dupUnit_cases i nd hp with ⟨rfl, rfl⟩ | ⟨rfl, rfl⟩ | ⟨rfl, rfl⟩ <;> simp [Node.children] at hc
  omega

theorem dupUnit_reach : ∀ i, i < dupUnit.size → PlanReach dupUnit i := by
  intro i hi
  have h2 : PlanReach dupUnit 2 := PlanReach.root
  have hp : dupUnit[2]? = some (.comp 1 0) := rfl
  have : i = 0 ∨ i = 1 ∨ i = 2 := by
    have : dupUnit.size = 3 := rfl
    omega
  rcases this with rfl | rfl | rfl
  · exact PlanReach.child h2 hp (by simp [Node.children])
  · exact PlanReach.child h2 hp (by simp [Node.children])
  · exact h2

/-- **the hypotheses of `roundtrip_general` are met by `#[unit, unit, comp 1 0]`**, given only that
the identity roots of `unit` and of `comp` are different numbers; its conclusion follows -/
theorem dupUnit_roundtrip : ∃ a c,
    annots JetsE.jetCmr JetsE.jetCost dupUnit arrows3 (fun _ => none) = some #[a, a, c] ∧
    (a.ihr ≠ c.ihr → ∃ (pb wb : List Bool) (d : Decoded) (f : Nat → Nat),
      encode JetsE.jc JetsE.ofName dupUnit #[a, a, c] true (fun _ => none) = some (pb, wb) ∧
      decodeRedeem elemTables pb wb = .ok d ∧ f 2 = d.plan.size - 1 ∧
      d.plan[f 0]? = some .unit ∧ d.plan[f 1]? = some .unit ∧ d.plan[f 2]? = some (.comp (f 1) (f 0)) ∧
      d.annots.getD (f 0) default = a ∧ d.annots.getD (f 1) default = a ∧ d.annots.getD (f 2) default = c ∧
      encode JetsE.jc JetsE.ofName d.plan d.annots true (fun i => (d.wits.find? (·.1 = i)).map (·.2)) =
        some (pb, wb)) := by
  obtain ⟨a, c, han⟩ := dupUnit_annots
  refine ⟨a, c, han, fun hne => ?_⟩
  obtain ⟨pb, wb, he⟩ := dupUnit_encode_some a c hne
  obtain ⟨d, f, hdec, hroot, hnodes, _, _, hre⟩ := roundtrip_general elemTables JetsE.ofName_nameOf JetsE.nameOf_ofName
    dupUnit arrows3 #[a, a, c] (fun _ => none) (by decide) (by decide) dupUnit_backward
    (by
      intro i nd hp
      rcases dupUnit_cases i nd hp with ⟨rfl, rfl⟩ | ⟨rfl, rfl⟩ | ⟨rfl, rfl⟩ <;> trivial)
    (by
      intro i x h hp
      rcases hp with hp | hp <;>
        rcases dupUnit_cases i _ hp with ⟨_, e⟩ | ⟨_, e⟩ | ⟨_, e⟩ <;> cases e)
    (by
      intro i e hp
      rcases dupUnit_cases i _ hp with ⟨_, e⟩ | ⟨_, e⟩ | ⟨_, e⟩ <;> cases e)
    (by
      intro i x hp
      rcases dupUnit_cases i _ hp with ⟨_, e⟩ | ⟨_, e⟩ | ⟨_, e⟩ <;> cases e)
    dupUnit_reach dupUnit_infer han
    (by
      intro i hp
      rcases dupUnit_cases i _ hp with ⟨_, e⟩ | ⟨_, e⟩ | ⟨_, e⟩ <;> cases e)
    (dupUnit_faithful a c hne) (dupUnit_fuel a c hne) pb wb he
  have h0 := hnodes 0 .unit rfl
  have h1 := hnodes 1 .unit rfl
  have h2 := hnodes 2 (.comp 1 0) rfl
  exact ⟨pb, wb, d, f, he, hdec, hroot, h0.1, h1.1, h2.1, by simpa using h0.2.2.1, by simpa using h1.2.2.1,
    by simpa using h2.2.2.1, hre⟩

#print axioms dupUnit_roundtrip
end Prog.RtExample
