/-
C02/C01 assembly, program side: on the plan converted from an accepted wire node list, the encoder
`Prog.encode` (redeem mode) re-traces the list — its walk yields one item per wire node, in order,
`wireOf` gives back the wire node, and the witness bit strings it collects are those of the witness
reader.
-/
import SimplicityModel.Prog.EncSim
import SimplicityModel.Prog.WalkCanon
import SimplicityModel.Prog.BitsProps
import SimplicityModel.Prog.ListAux
import SimplicityModel.Prog.WitnessProps
set_option linter.unusedSimpArgs false
namespace Prog
open Wire PO
variable {J : Type}

theorem ok_of_nodesOk : ∀ (l : List (WNode J)) (start : Nat), NodesOk start l →
    ∀ (i : Nat) (n : WNode J), l[i]? = some n → n.Ok (start + i)
  | [], _, _, i, n, h => by simp at h
  | w :: l, start, h, 0, n, hi => by
    simp only [List.getElem?_cons_zero, Option.some.injEq] at hi
    subst hi; exact h.1
  | w :: l, start, h, i + 1, n, hi => by
    simp only [List.getElem?_cons_succ] at hi
    have := ok_of_nodesOk l (start + 1) h.2 i n hi
    have e : start + 1 + i = start + (i + 1) := by omega
    rw [e] at this; exact this

theorem kidsMatch_mapNode (φ : Nat → Nat) (o : WOut) (s : Sh) : kidsMatch (mapNode φ o) s = kidsMatch o s := by
  cases s <;> rfl

/-- **the encoder's walk re-traces the accepted node list**: on the plan converted from an accepted
wire list, the encoder's walk (identity-root sharing, hidden pseudo-nodes) yields exactly one item
per wire node, in order, with the wire node's child references. -/
theorem enc_walk_items {nameOf : J → String} {A : Array (WNode J)} {plan : Plan} {an : Array Annot}
    (F : DecFacts nameOf A plan an) (hw : WellIdx (shapes A)) (hne : 0 < A.size)
    (hroot : hiddenAt A (A.size - 1) = none) (hc : canonicalOk A = true) :
    let outs := (walk (encChildren plan true) (encKey plan an true) (2 * plan.size + 2)
      (2 * (plan.size - 1)) ⟨#[], [], 0⟩).1.outs
    outs.size = A.size ∧
    ∀ (i : Nat) (o : WOut), outs.toList[i]? = some o →
      EncD A o.node ∧ encPhi A o.node = i ∧ o.index = i ∧
        kidsMatch o (((shapes A)[i]?).getD Sh.leaf) := by
  rw [F.size]
  intro outs
  have H := enc_simHyp F
  have hD : EncD A (2 * (A.size - 1)) := by
    refine .inl ⟨two_mul_mod _, ?_, ?_⟩ <;> rw [two_mul_div]
    · omega
    · exact hroot
  have hsim := walk_sim H (2 * A.size + 2) (A.size + 1) (2 * (A.size - 1)) ⟨#[], [], 0⟩
    ⟨#[], [], 0⟩ hD (by simp only [encPhi_even]; omega)
    (by simp only [two_mul_mod, if_true]; omega)
    ⟨by simp, rfl, by simp, by intro t _ k1 k2 _ _; rfl⟩
  obtain ⟨hs, _⟩ := hsim
  rw [encPhi_even] at hs
  obtain ⟨hsz, hit⟩ := canonicalOk_outs A hw hne hc
  have houts' : (walk (wireChildren A) (fun i => some i) (A.size + 1) (A.size - 1) ⟨#[], [], 0⟩).1.outs.toList
      = outs.toList.map (mapNode (encPhi A)) := hs.outs
  refine ⟨?_, ?_⟩
  · have : outs.toList.length = A.size := by
      have := congrArg List.length houts'
      simp only [List.length_map, Array.length_toList] at this
      simp only [Array.length_toList]
      omega
    simpa using this
  · intro i o ho
    have h1 := hit i (mapNode (encPhi A) o) (by rw [houts', List.getElem?_map, ho]; rfl)
    rw [kidsMatch_mapNode] at h1
    exact ⟨hs.dom o (List.mem_of_getElem? ho), h1.1, h1.2.1, h1.2.2⟩

theorem shapes_get {J : Type} (A : Array (WNode J)) (i : Nat) : (shapes A)[i]? = (A[i]?).map shOfW := by
  unfold shapes
  rw [List.getElem?_map, Array.getElem?_toList]

/-- the wire node written for an item of the encoder's walk is the wire node it came from -/
theorem wireOf_item {nameOf : J → String} {ofName : String → Option J} {A : Array (WNode J)}
    {plan : Plan} {an : Array Annot} (F : DecFacts0 nameOf A plan an)
    (hof : ∀ j, ofName (nameOf j) = some j) (o : WOut) (i : Nat) (hD : EncD A o.node)
    (hphi : encPhi A o.node = i) (hk : kidsMatch o (((shapes A)[i]?).getD Sh.leaf)) :
    ∃ n, A[i]? = some n ∧ wireOf ofName plan o = some n := by
  obtain ⟨node, index, li, ri⟩ := o
  simp only at hD hphi
  rcases hD with ⟨h2, hlt, hvis⟩ | ⟨h2, a, b, hA, hh⟩
  · obtain ⟨i', rfl⟩ : ∃ i', node = 2 * i' := ⟨node / 2, by omega⟩
    rw [two_mul_div] at hlt hvis
    rw [encPhi_even] at hphi
    subst hphi
    obtain ⟨n, hA⟩ : ∃ n, A[i']? = some n := ⟨A[i'], Array.getElem?_eq_getElem hlt⟩
    obtain ⟨nd, hp, hc⟩ := F.node i' _ hA
    have spec := convNode_spec nameOf A _ nd hc
    have hok := F.ok i' _ hA
    refine ⟨n, hA, ?_⟩
    rw [shapes_get, hA] at hk
    simp only [Option.map_some, Option.getD_some] at hk
    cases n <;> simp only [WNode.Ok] at spec hok <;> simp only [shOfW, kidsMatch] at hk
    all_goals try (simp [wireOf, two_mul_mod, two_mul_div, hp, spec, hk, hof]; done)
    · -- case
      rename_i a b
      rcases spec with ⟨rfl, _, _⟩ | ⟨r, rfl, _, _⟩ | ⟨r, rfl, _, _⟩ <;>
        simp [wireOf, two_mul_mod, two_mul_div, hp, hk]
    · -- fail
      rename_i e
      simp [wireOf, two_mul_mod, two_mul_div, hp, spec, bytesBits_bitsBytes e (by omega)]
    · -- hidden
      rename_i r
      rw [hiddenAt_hidden hA] at hvis; cases hvis
  · obtain ⟨j, rfl⟩ : ∃ j, node = 2 * j + 1 := ⟨node / 2, by omega⟩
    rw [two_mul_succ_div] at hA
    obtain ⟨r, hr, hkey⟩ := enc_key_odd (plan := plan) F j a b hA hh
    rw [hphi] at hr
    obtain ⟨rb, hrb, e⟩ := hiddenAt_some hr
    have hok := F.ok i _ hrb
    simp only [WNode.Ok] at hok
    refine ⟨_, hrb, ?_⟩
    obtain ⟨nd, hp, hc⟩ := F.node j _ hA
    have spec := convNode_spec nameOf A _ nd hc
    simp only [] at spec
    have hphi' := encPhi_odd hA
    rw [hphi] at hphi'
    rcases spec with ⟨rfl, ha, hb⟩ | ⟨r', rfl, ha, hb⟩ | ⟨r', rfl, ha, hb⟩
    · rcases hh with ⟨_, h⟩ | ⟨h, _⟩
      · rw [hb] at h; cases h
      · rw [ha] at h; cases h
    · simp only [hb, Option.isSome_some, if_true] at hphi'
      subst hphi'
      rw [hb] at hr
      simp only [Option.some.injEq] at hr
      subst hr
      simp [wireOf, two_mul_succ_mod, two_mul_succ_div, hp, ← e, natBits256_bitsNat rb hok]
    · simp only [hb, Option.isSome_none] at hphi'
      subst hphi'
      rw [ha] at hr
      simp only [Option.some.injEq] at hr
      subst hr
      simp [wireOf, two_mul_succ_mod, two_mul_succ_div, hp, ← e, natBits256_bitsNat rb hok]

/-- **the encoder re-writes the accepted node list**: the wire nodes written for the items of the
encoder's walk on the converted plan are exactly the accepted wire nodes, in order -/
theorem enc_nodes {nameOf : J → String} {ofName : String → Option J} {A : Array (WNode J)}
    {plan : Plan} {an : Array Annot} (F : DecFacts nameOf A plan an)
    (hof : ∀ j, ofName (nameOf j) = some j) (hw : WellIdx (shapes A)) (hne : 0 < A.size)
    (hroot : hiddenAt A (A.size - 1) = none) (hc : canonicalOk A = true) :
    (walk (encChildren plan true) (encKey plan an true) (2 * plan.size + 2)
      (2 * (plan.size - 1)) ⟨#[], [], 0⟩).1.outs.toList.mapM (wireOf ofName plan) = some A.toList := by
  obtain ⟨hsz, hit⟩ := enc_walk_items F hw hne hroot hc
  apply ListAux.mapM_eq_some
  · simpa using hsz
  · intro i o ho
    obtain ⟨hD, hphi, _, hk⟩ := hit i o ho
    obtain ⟨n, hA, hwo⟩ := wireOf_item F.toDecFacts0 hof o i hD hphi hk
    exact ⟨n, by simpa using hA, hwo⟩

/-- **the encoder collects the witness values in index order**: the witness bit strings the encoder
collects along its walk are those of the witness nodes in increasing index -/
theorem enc_wits_gen {nameOf : J → String} {A : Array (WNode J)}
    {plan : Plan} {an : Array Annot} (F : DecFacts nameOf A plan an)
    (hw : WellIdx (shapes A)) (hne : 0 < A.size)
    (hroot : hiddenAt A (A.size - 1) = none) (hc : canonicalOk A = true)
    (W : Nat → Option (List Bool)) :
    (walk (encChildren plan true) (encKey plan an true) (2 * plan.size + 2)
      (2 * (plan.size - 1)) ⟨#[], [], 0⟩).1.outs.toList.filterMap (fun o =>
        if o.node % 2 = 0 then
          match plan[o.node / 2]? with
          | some Node.witness => W (o.node / 2)
          | _ => none
        else none) = (wIdx plan.toList 0).filterMap W := by
  obtain ⟨hsz, hit⟩ := enc_walk_items F hw hne hroot hc
  rw [ListAux.filterMap_eq_range _
    (fun j => match plan.toList[j - 0]? with
      | some Node.witness => W j | _ => none) _ 0]
  · have hlen : (walk (encChildren plan true) (encKey plan an true) (2 * plan.size + 2)
        (2 * (plan.size - 1)) ⟨#[], [], 0⟩).1.outs.toList.length = plan.toList.length := by
      simp only [Array.length_toList]; rw [hsz, F.size]
    rw [hlen]
    exact filterMap_wIdx W plan.toList 0
  · intro i o ho
    obtain ⟨hD, hphi, _, _⟩ := hit i o ho
    simp only [Nat.zero_add, Nat.sub_zero, Array.getElem?_toList]
    rcases hD with ⟨h2, hlt, hvis⟩ | ⟨h2, a, b, hA, hh⟩
    · obtain ⟨i', hi'⟩ : ∃ i', o.node = 2 * i' := ⟨o.node / 2, by omega⟩
      rw [hi', encPhi_even] at hphi
      subst hphi
      rw [hi', two_mul_div, if_pos (two_mul_mod _)]
    · obtain ⟨j, hj⟩ : ∃ j, o.node = 2 * j + 1 := ⟨o.node / 2, by omega⟩
      rw [hj, two_mul_succ_div] at hA
      obtain ⟨r, hr, _⟩ := enc_key_odd (plan := plan) F.toDecFacts0 j a b hA hh
      rw [← hj, hphi] at hr
      obtain ⟨rb, hrb, _⟩ := hiddenAt_some hr
      obtain ⟨nd, hp, hcn⟩ := F.node i _ hrb
      have spec := convNode_spec nameOf A _ nd hcn
      simp only at spec
      rw [if_neg (by omega), hp, spec]

/-- **the encoder re-writes the accepted witness values**: the witness bit strings the encoder
collects along its walk are those the witness reader returned, in the same order -/
theorem enc_wits {nameOf : J → String} {A : Array (WNode J)}
    {plan : Plan} {an : Array Annot} (F : DecFacts nameOf A plan an)
    (hw : WellIdx (shapes A)) (hne : 0 < A.size)
    (hroot : hiddenAt A (A.size - 1) = none) (hc : canonicalOk A = true)
    (ws : List (Nat × List Bool)) (hws : ws.map (·.1) = wIdx plan.toList 0) :
    (walk (encChildren plan true) (encKey plan an true) (2 * plan.size + 2)
      (2 * (plan.size - 1)) ⟨#[], [], 0⟩).1.outs.toList.filterMap (fun o =>
        if o.node % 2 = 0 then
          match plan[o.node / 2]? with
          | some Node.witness => (ws.find? (·.1 = o.node / 2)).map (·.2)
          | _ => none
        else none) = ws.map (·.2) := by
  refine (enc_wits_gen F hw hne hroot hc (fun j => (ws.find? (·.1 = j)).map (·.2))).trans ?_
  rw [← hws]
  exact lookup_self ws (by rw [hws]; exact wIdx_nodup _ _)

/-- the encoder on a converted plan, any witness assignment -/
theorem encode_converted {nameOf : J → String} {ofName : String → Option J} (jc : JetCode J)
    {A : Array (WNode J)} {plan : Plan} {an : Array Annot} (F : DecFacts nameOf A plan an)
    (hof : ∀ j, ofName (nameOf j) = some j) (hw : WellIdx (shapes A)) (hne : 0 < A.size)
    (hroot : hiddenAt A (A.size - 1) = none) (hc : canonicalOk A = true)
    (W : Nat → Option (List Bool)) :
    encode jc ofName plan an true W =
      some (padToByte (encProgram jc A.toList), padToByte ((wIdx plan.toList 0).filterMap W).flatten) := by
  have h1 := enc_nodes (ofName := ofName) F hof hw hne hroot hc
  have h2 := enc_wits_gen F hw hne hroot hc W
  unfold encode
  generalize walk (encChildren plan true) (encKey plan an true) (2 * plan.size + 2)
    (2 * (plan.size - 1)) ⟨#[], [], 0⟩ = w at h1 h2
  obtain ⟨st, x⟩ := w
  simp only at h1 h2 ⊢
  rw [h1]
  simp only [Option.bind_eq_bind, Option.bind_some, Option.pure_def, Option.some.injEq, Prod.mk.injEq, true_and]
  exact congrArg (fun l => padToByte l.flatten) h2

/-- **re-encoding a decoded program**: with the facts `DecFacts` that an accepting run of the decoder
establishes about the wire list `A`, the converted plan and its annotations, and with the witness
reader's result `ws`, the encoder returns the (byte-padded) encoding of `A` and the (byte-padded)
concatenation of the witness bit strings. -/
theorem encode_decoded {nameOf : J → String} {ofName : String → Option J} (jc : JetCode J)
    {A : Array (WNode J)} {plan : Plan} {an : Array Annot} (F : DecFacts nameOf A plan an)
    (hof : ∀ j, ofName (nameOf j) = some j) (hw : WellIdx (shapes A)) (hne : 0 < A.size)
    (hroot : hiddenAt A (A.size - 1) = none) (hc : canonicalOk A = true)
    (ws : List (Nat × List Bool)) (hws : ws.map (·.1) = wIdx plan.toList 0) :
    encode jc ofName plan an true (fun i => (ws.find? (·.1 = i)).map (·.2)) =
      some (padToByte (encProgram jc A.toList), padToByte (ws.map (·.2)).flatten) := by
  have h1 := enc_nodes (ofName := ofName) F hof hw hne hroot hc
  have h2 := enc_wits F hw hne hroot hc ws hws
  unfold encode
  generalize walk (encChildren plan true) (encKey plan an true) (2 * plan.size + 2)
    (2 * (plan.size - 1)) ⟨#[], [], 0⟩ = w at h1 h2
  obtain ⟨st, x⟩ := w
  simp only at h1 h2 ⊢
  rw [h1]
  simp only [Option.bind_eq_bind, Option.bind_some, Option.pure_def, Option.some.injEq, Prod.mk.injEq, true_and]
  exact congrArg (fun l => padToByte l.flatten) h2

#print axioms encode_decoded

end Prog
