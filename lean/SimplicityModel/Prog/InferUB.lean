/-
`src/types/arrow.rs` as sequences of operations on the union-bound context (`UnionBound.lean`), and
`inferUB`: type inference of a plan exactly as the library runs it — nodes are constructed in a given
construction order (each `Arrow::…` constructor allocates its types and calls `unify`/`bind_product`),
the root is optionally forced to `1 → 1` (`set_arrow_to_program`), then every node's arrow is
finalised (`finalize_types_non_program`: post order from the root, source before target; then the
harness reads every constructed node's arrow).
-/
import SimplicityModel.Prog.Infer
import SimplicityModel.UnionBound

namespace Prog
open UB (Op Ctx)

abbrev ElemArrow := Nat × Nat   -- (source, target) as `UbElement`s

/-- `Arrow::for_case`: `a b c` free, `sum_a_b`, `prod_sum_a_b_c`, `target` free; then per present
child `bind_product(child.source, a|b, c)` and `unify(target, child.target)` -/
def forCaseOps (l r : Option ElemArrow) (k : Nat) : List Op × ElemArrow :=
  let a := k; let b := k + 1; let c := k + 2
  let sumAB := k + 3; let prodSumABC := k + 4; let target := k + 5
  ([.free, .free, .free, .sum a b, .product sumAB c, .free]
    ++ (match l with | some (ls, lt) => [.bindProduct ls a c, .unify target lt] | none => [])
    ++ (match r with | some (rs, rt) => [.bindProduct rs b c, .unify target rt] | none => []),
   (prodSumABC, target))

/-- `Arrow::for_disconnect` -/
def forDisconnectOps (l r : ElemArrow) (k : Nat) : List Op × ElemArrow :=
  let a := k; let b := k + 1; let w := k + 2; let prodBD := k + 3
  ([.free, .free, .complete (infOfTy (wordTy 8)), .bindProduct l.1 w a, .bindProduct l.2 b r.1,
    .product b r.2],
   (a, prodBD))

/-- the operations `Arrow::<kind>` performs for node `nd` when the context holds `k` elements;
`arrow c` is the arrow of the already constructed child `c` -/
def nodeOps (jt : JetTypes) (arrow : Nat → Option ElemArrow) (k : Nat) :
    Node → Option (List Op × ElemArrow)
  | .iden => some ([.free], (k, k))
  | .unit => some ([.free, .complete .one], (k, k + 1))
  | .injl c => (arrow c).map fun (cs, ct) => ([.free, .sum ct k], (cs, k + 1))
  | .injr c => (arrow c).map fun (cs, ct) => ([.free, .sum k ct], (cs, k + 1))
  | .take c => (arrow c).map fun (cs, ct) => ([.free, .product cs k], (k + 1, ct))
  | .drop c => (arrow c).map fun (cs, ct) => ([.free, .product k cs], (k + 1, ct))
  | .comp a b => do
      let (as, at') ← arrow a; let (bs, bt) ← arrow b
      pure ([.unify at' bs], (as, bt))
  | .case a b => do let l ← arrow a; let r ← arrow b; pure (forCaseOps (some l) (some r) k)
  | .assertl a _ => do let l ← arrow a; pure (forCaseOps (some l) none k)
  | .assertr _ b => do let r ← arrow b; pure (forCaseOps none (some r) k)
  | .pair a b => do
      let (as, at') ← arrow a; let (bs, bt) ← arrow b
      pure ([.unify as bs, .product at' bt], (as, k))
  | .disconnect a (some b) => do
      let l ← arrow a; let r ← arrow b; pure (forDisconnectOps l r k)
  | .disconnect a none => do
      -- `disc_src`, `disc_tgt` free, then `for_disconnect`
      let l ← arrow a
      let (ops, ar) := forDisconnectOps l (k, k + 1) (k + 2)
      pure ([.free, .free] ++ ops, ar)
  | .witness => some ([.free, .free], (k, k + 1))
  | .fail _ => some ([.free, .free], (k, k + 1))
  | .word n _ => some ([.complete .one, .complete (infOfTy (wordTy n))], (k, k + 1))
  | .jet name => (jt name).map fun (s, t) => ([.complete (infOfTy s), .complete (infOfTy t)], (k, k + 1))
  -- a hidden node cannot be constructed on its own; as a placeholder it is typed like `witness`
  | .hidden _ => some ([.free, .free], (k, k + 1))

/-- `ConstructNode::set_arrow_to_program` -/
def programOps (root : ElemArrow) (k : Nat) : List Op :=
  [.complete .one, .unify root.1 k, .unify root.2 k]

inductive UBRes
  | ok (arrows : Array (Option (BM4.Ty × BM4.Ty))) (covered : Bool)
  | typeError   -- `Error::Bind`
  | occurs      -- `Error::OccursCheck`
  | badPlan     -- unknown jet, child not constructed, node out of range
  | fuel        -- the model's fuel did not suffice (never a verdict)
  | panic       -- the code would panic (never observed)
deriving Inhabited

def UBRes.ofErr : UB.Err → UBRes
  | .bind => .typeError | .occurs => .occurs | .fuel => .fuel | .panic => .panic

structure Built where
  ctx : Ctx
  arrows : Array (Option ElemArrow)

/-- construct the nodes of `order` one after the other in the same context -/
def construct (F : Nat) (jt : JetTypes) (p : Plan) : Built → List Nat → Except UBRes Built
  | st, [] => .ok st
  | st, i :: rest =>
    match p[i]? with
    | none => .error .badPlan
    | some nd =>
      match nodeOps jt (fun c => (st.arrows[c]?).join) st.ctx.elems.size nd with
      | none => .error .badPlan
      | some (ops, ar) =>
        match UB.runOps F st.ctx ops with
        | .error e => .error (.ofErr e)
        | .ok c => construct F jt p { ctx := c, arrows := st.arrows.setIfInBounds i (some ar) } rest

/-- the post order in which `convert::<InternalSharing, _, _>` visits the construct DAG below `i`
(children left to right, a shared node once); `acc` = the nodes yielded so far -/
def postOrder (p : Plan) : Nat → Nat → List Nat → List Nat
  | 0, _, acc => acc
  | f+1, i, acc =>
    if acc.contains i then acc else
    match (p[i]?.map Node.children).getD [] with
    | [] => acc ++ [i]
    | [a] => (postOrder p f a acc) ++ [i]
    | a :: b :: _ =>
      let acc := postOrder p f a acc
      if acc.contains i then acc else
      let acc := postOrder p f b acc
      if acc.contains i then acc else acc ++ [i]

/-- `Arrow::finalize` of the listed nodes: source first, then target -/
def finalizeNodes (F : Nat) (arrows : Array (Option ElemArrow)) :
    Ctx → List Nat → UB.M (Ctx × List (Nat × Inf.Ty × Inf.Ty))
  | c, [] => .ok (c, [])
  | c, i :: rest =>
    match (arrows[i]?).join with
    | none => finalizeNodes F arrows c rest
    | some (s, t) =>
      match UB.typeFinalize F c s with
      | .error e => .error e
      | .ok (c, fs) =>
      match UB.typeFinalize F c t with
      | .error e => .error e
      | .ok (c, ft) =>
      match finalizeNodes F arrows c rest with
      | .error e => .error e
      | .ok (c, out) => .ok (c, (i, fs, ft) :: out)

/-- every root of the union–find forest holds a `Bound::Complete` -/
def allFinal (c : Ctx) : Bool :=
  c.elems.toList.all fun i => match i.data with
    | .equalTo _ => true
    | .root b => match c.slab[b]? with | some (.complete _) => true | _ => false

/-- `Type::finalize` of the listed elements, one after the other -/
def finalizeElems (F : Nat) : Ctx → List Nat → UB.M Ctx
  | c, [] => .ok c
  | c, e :: rest =>
    match UB.typeFinalize F c e with
    | .error e => .error e
    | .ok (c, _) => finalizeElems F c rest

/-- *Not part of the algorithm* (the library does not do this): after the run, can every type that
was ever allocated — also those that no node's arrow reaches any more because the bound that
referred to them was dropped in a `unify` — be finalised?  The soundness theorem is stated for runs
where this holds; the driver evaluates it on every case and reports `model-uncovered` otherwise. -/
def covered (F : Nat) (c : Ctx) : Bool :=
  match finalizeElems F c (List.range c.elems.size) with
  | .ok c => allFinal c
  | .error _ => false

def ubFuel : Nat := 100000000

/-- construction: every node of `order`, then `set_arrow_to_program` for programs -/
def buildAll (F : Nat) (jt : JetTypes) (p : Plan) (order : List Nat) (program : Bool) :
    Except UBRes Built :=
  match construct F jt p { ctx := {}, arrows := Array.replicate p.size none } order with
  | .error r => .error r
  | .ok st =>
    match (st.arrows[p.size - 1]?).join with
    | none => .error .badPlan
    | some rootArrow =>
      if program then
        match UB.runOps F st.ctx (programOps rootArrow st.ctx.elems.size) with
        | .error e => .error (.ofErr e)
        | .ok c => .ok { ctx := c, arrows := st.arrows }
      else .ok st

/-- finalisation: `finalize_types_non_program` visits the construct DAG in post order from the root
and finalises every node's arrow; the harness then finalises the arrow of every constructed node,
by index, and reads the types -/
def finalizeAll (F : Nat) (p : Plan) (st : Built) : UBRes :=
  match finalizeNodes F st.arrows st.ctx (postOrder p (p.size + 1) (p.size - 1) []) with
  | .error e => .ofErr e
  | .ok (c, _) =>
    match finalizeNodes F st.arrows c (List.range p.size) with
    | .error e => .ofErr e
    | .ok (c, out) =>
      .ok ((List.range p.size).map fun i =>
            (out.find? (·.1 = i)).map fun r => (tyOfInf r.2.1, tyOfInf r.2.2)).toArray
          (covered F c)

/-- inference as the library runs it.  `order`: the construction order (children before parents);
`program`: `finalize_types` (root forced to `1 → 1`) instead of `finalize_types_non_program`. -/
def inferUBWith (F : Nat) (jt : JetTypes) (p : Plan) (order : List Nat) (program : Bool) : UBRes :=
  match buildAll F jt p order program with
  | .error r => r
  | .ok st => finalizeAll F p st

def inferUB (jt : JetTypes) (p : Plan) (order : List Nat) (program : Bool) : UBRes :=
  inferUBWith ubFuel jt p order program

end Prog
