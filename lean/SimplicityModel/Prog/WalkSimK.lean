/-
Simulation between two runs of the index walk `Prog.walk` when the right-hand DAG has nodes without a
sharing key (C02/C01 assembly, commitment time: witness and disconnect-containing expressions are
never shared, so the encoder visits them every time they are referenced, while the decoder's pointer
walk visits them once).  Conclusion: either the two walks run in lockstep (same items up to `φ`, same
indices), or the right-hand walk yields some node twice.
-/
import SimplicityModel.Prog.WalkExt

namespace Prog

variable {K1 K2 : Type} [DecidableEq K1] [DecidableEq K2]

/-- what relates the two DAGs: as `SimHyp`, but the right-hand key may be absent (the left-hand key
is total) -/
structure SimHypK (φ : Nat → Nat) (D : Nat → Prop) (q : Nat → Bool) (ch1 ch2 : Nat → List Nat)
    (key1 : Nat → Option K1) (key2 : Nat → Option K2) (rk1 rk2 : Nat → Nat) : Prop where
  ch : ∀ t, D t → ch1 (φ t) = (ch2 t).map φ
  closed : ∀ t, D t → ∀ c ∈ ch2 t, D c
  total1 : ∀ t, D t → (key1 (φ t)).isSome
  inj : ∀ t t', D t → D t' → ∀ k1 k1' k2 k2', key1 (φ t) = some k1 → key1 (φ t') = some k1' →
    key2 t = some k2 → key2 t' = some k2' → (k1 = k1' ↔ k2 = k2')
  klInj : ∀ t t', D t → D t' → key2 t = none → key1 (φ t') = key1 (φ t) → t' = t
  klq : ∀ t, D t → key2 t = none → q t = true
  rk1 : ∀ t, D t → ∀ c ∈ ch2 t, rk1 (φ c) < rk1 (φ t)
  rk2 : ∀ t, D t → ∀ c ∈ ch2 t, rk2 c < rk2 t

/-- some node in `q` was yielded twice -/
def DupN {K : Type} (q : Nat → Bool) (s : WalkSt K) : Prop :=
  ¬ ((s.outs.toList.map (·.node)).filter q).Nodup

structure SimK (φ : Nat → Nat) (D : Nat → Prop) (key1 : Nat → Option K1) (key2 : Nat → Option K2)
    (s1 : WalkSt K1) (s2 : WalkSt K2) : Prop where
  outs : s1.outs.toList = s2.outs.toList.map (mapNode φ)
  idx : s1.idx = s2.idx
  dom : ∀ o ∈ s2.outs.toList, D o.node
  seen : ∀ t, D t → ∀ k1 k2, key1 (φ t) = some k1 → key2 t = some k2 →
    seenLook s1.seen k1 = seenLook s2.seen k2
  seenN : ∀ t, D t → key2 t = none → ∀ k1, key1 (φ t) = some k1 → (seenLook s1.seen k1).isSome →
    t ∈ s2.outs.toList.map (·.node)

section single
variable {K : Type} [DecidableEq K] {q : Nat → Bool}

omit [DecidableEq K] in
theorem dup_ext {s s' : WalkSt K} (h : DupN q s) (new : List WOut)
    (e : s'.outs.toList = s.outs.toList ++ new) : DupN q s' := by
  unfold DupN at h ⊢
  rw [e, List.map_append, List.filter_append]
  intro hn
  exact h (List.nodup_append.mp hn).1

theorem dup_walk (ch : Nat → List Nat) (key : Nat → Option K) (f t : Nat) {s : WalkSt K} (h : DupN q s) :
    DupN q (walk ch key f t s).1 := by
  obtain ⟨new, e, _⟩ := (walk_ext ch key (fun _ => True) (fun _ _ _ _ => trivial) f t s trivial).outs
  exact dup_ext h new e

theorem dup_fin (key : Nat → Option K) (t : Nat) (li ri : Option Nat) {s : WalkSt K} (h : DupN q s) :
    DupN q (walkFin key t li ri s).1 := by
  obtain ⟨new, e, _⟩ := (ext_fin key (fun _ => True) t trivial li ri s).outs
  exact dup_ext h new e

theorem mem_walk (ch : Nat → List Nat) (key : Nat → Option K) (f t c : Nat) {s : WalkSt K}
    (h : c ∈ s.outs.toList.map (·.node)) : c ∈ (walk ch key f t s).1.outs.toList.map (·.node) := by
  obtain ⟨new, e, _⟩ := (walk_ext ch key (fun _ => True) (fun _ _ _ _ => trivial) f t s trivial).outs
  rw [e, List.map_append]
  exact List.mem_append_left _ h

/-- walking a keyless node that was yielded before yields it again -/
theorem dup_keyless_walk (ch : Nat → List Nat) (key : Nat → Option K) (f c : Nat) {s : WalkSt K}
    (hk : key c = none) (hq : q c = true) (hin : c ∈ s.outs.toList.map (·.node)) :
    DupN q (walk ch key (f+1) c s).1 := by
  obtain ⟨mid, o, ho, e⟩ := walk_keyless_yields ch key f c s hk
  unfold DupN
  rw [e]
  simp only [List.map_append, List.map_cons, List.map_nil, ho, List.filter_append]
  intro hn
  rw [List.append_assoc] at hn
  have := (List.nodup_append.mp hn).2.2 c (List.mem_filter.mpr ⟨hin, hq⟩) c
    (List.mem_append_right _ (List.mem_filter.mpr ⟨by simp, hq⟩))
  exact this rfl

theorem walkBefore_keyless (key : Nat → Option K) (c : Nat) (s : WalkSt K) (hk : key c = none) :
    walkBefore key c s = none := by
  unfold walkBefore; rw [hk]; rfl

/-- a walk one of whose (first two) children is a keyless node that was yielded before yields that
node again -/
theorem dup_of_keyless_child (ch : Nat → List Nat) (key : Nat → Option K) (f t c : Nat) (s : WalkSt K)
    (hc : c ∈ (ch t).take 2) (hk : key c = none) (hq : q c = true) (hin : c ∈ s.outs.toList.map (·.node)) :
    DupN q (walk ch key (f+2) t s).1 := by
  rw [walk_succ]
  have hb := walkBefore_keyless key c s hk
  match hch : ch t with
  | [] => rw [hch] at hc; simp at hc
  | [l] =>
    rw [hch] at hc
    simp at hc
    subst hc
    simp only [hb]
    exact dup_fin key t _ _ (dup_keyless_walk ch key f c hk hq hin)
  | l :: r :: rest =>
    rw [hch] at hc
    simp at hc
    rcases hc with rfl | rfl
    · simp only [hb]
      cases walkBefore key r s with
      | some ri => exact dup_fin key t _ _ (dup_keyless_walk ch key f c hk hq hin)
      | none => exact dup_fin key t _ _ (dup_walk ch key _ r (dup_keyless_walk ch key f c hk hq hin))
    · simp only [hb]
      cases walkBefore key l s with
      | some li => exact dup_fin key t _ _ (dup_keyless_walk ch key f c hk hq hin)
      | none => exact dup_fin key t _ _ (dup_keyless_walk ch key f c hk hq (mem_walk ch key _ l c hin))

end single

section
variable {φ : Nat → Nat} {D : Nat → Prop} {q : Nat → Bool} {ch1 ch2 : Nat → List Nat}
  {key1 : Nat → Option K1} {key2 : Nat → Option K2} {rk1 rk2 : Nat → Nat}

theorem before_simK (H : SimHypK φ D q ch1 ch2 key1 key2 rk1 rk2) {s1 : WalkSt K1} {s2 : WalkSt K2}
    (h : SimK φ D key1 key2 s1 s2) (c : Nat) (hc : D c) :
    walkBefore key1 (φ c) s1 = walkBefore key2 c s2 ∨
      (key2 c = none ∧ c ∈ s2.outs.toList.map (·.node)) := by
  obtain ⟨k1, h1⟩ := Option.isSome_iff_exists.mp (H.total1 c hc)
  unfold walkBefore
  cases h2 : key2 c with
  | some k2 => left; rw [h1]; simp only [Option.bind_some]; exact h.seen c hc k1 k2 h1 h2
  | none =>
    rw [h1]
    simp only [Option.bind_some, Option.bind_none]
    cases hs : seenLook s1.seen k1 with
    | none => left; rfl
    | some i => right; exact ⟨by simp, h.seenN c hc h2 k1 h1 (by rw [hs]; rfl)⟩

theorem fin_simK (H : SimHypK φ D q ch1 ch2 key1 key2 rk1 rk2) {s1 : WalkSt K1} {s2 : WalkSt K2}
    (h : SimK φ D key1 key2 s1 s2) (t : Nat) (ht : D t) (li ri : Option Nat) :
    (SimK φ D key1 key2 (walkFin key1 (φ t) li ri s1).1 (walkFin key2 t li ri s2).1 ∧
      (walkFin key1 (φ t) li ri s1).2 = (walkFin key2 t li ri s2).2) ∨
    DupN q (walkFin key2 t li ri s2).1 := by
  obtain ⟨k1, h1⟩ := Option.isSome_iff_exists.mp (H.total1 t ht)
  have hdom : ∀ o ∈ (s2.outs.push ⟨t, s2.idx, li, ri⟩).toList, D o.node := by
    intro o ho
    simp only [Array.toList_push, List.mem_append, List.mem_singleton] at ho
    rcases ho with ho | rfl
    · exact h.dom o ho
    · exact ht
  have houts : (s1.outs.push ⟨φ t, s1.idx, li, ri⟩).toList =
      (s2.outs.push ⟨t, s2.idx, li, ri⟩).toList.map (mapNode φ) := by
    simp [h.outs, h.idx, mapNode]
  -- the keyless nodes whose pointer is seen after pushing `t`
  have hseenN : ∀ t', D t' → key2 t' = none → ∀ k1', key1 (φ t') = some k1' →
      (seenLook ((k1, s1.idx) :: s1.seen) k1').isSome →
      t' ∈ (s2.outs.push ⟨t, s2.idx, li, ri⟩).toList.map (·.node) := by
    intro t' ht' hk' k1' h1' hs
    simp only [Array.toList_push, List.map_append, List.map_cons, List.map_nil, List.mem_append,
      List.mem_singleton]
    rw [seenLook_cons] at hs
    by_cases e : k1' = k1
    · right
      exact (H.klInj t' t ht' ht hk' (by rw [h1, h1', e])).symm
    · rw [if_neg e] at hs
      exact .inl (h.seenN t' ht' hk' k1' h1' hs)
  unfold walkFin
  rw [h1]
  simp only []
  cases h2 : key2 t with
  | some k2 =>
    simp only []
    rw [h.seen t ht k1 k2 h1 h2]
    cases hl : seenLook s2.seen k2 with
    | some i => left; exact ⟨h, rfl⟩
    | none =>
      left
      simp only []
      refine ⟨⟨houts, by simp [h.idx], hdom, ?_, hseenN⟩, h.idx⟩
      intro t' ht' k1' k2' h1' h2'
      rw [seenLook_cons, seenLook_cons, h.idx, h.seen t' ht' k1' k2' h1' h2']
      have := H.inj t' t ht' ht k1' k1 k2' k2 h1' h1 h2' h2
      by_cases e : k1' = k1
      · simp [e, this.mp e]
      · have e' : ¬ k2' = k2 := fun x => e (this.mpr x)
        simp [e, e']
  | none =>
    simp only []
    cases hs : seenLook s1.seen k1 with
    | none =>
      left
      simp only []
      refine ⟨⟨houts, by simp [h.idx], hdom, ?_, hseenN⟩, h.idx⟩
      intro t' ht' k1' k2' h1' h2'
      rw [seenLook_cons]
      by_cases e : k1' = k1
      · have := H.klInj t t' ht ht' h2 (by rw [h1, h1', e])
        subst this
        rw [h2] at h2'; cases h2'
      · rw [if_neg e]; exact h.seen t' ht' k1' k2' h1' h2'
    | some i =>
      right
      have hin := h.seenN t ht h2 k1 h1 (by rw [hs]; rfl)
      have hq := H.klq t ht h2
      unfold DupN
      simp only [Array.toList_push, List.map_append, List.map_cons, List.map_nil, List.filter_append]
      intro hn
      exact (List.nodup_append.mp hn).2.2 t (List.mem_filter.mpr ⟨hin, hq⟩) t
        (List.mem_filter.mpr ⟨by simp, hq⟩) rfl

/-- **simulation, keyless nodes on the right**: lockstep, or a node is yielded twice on the right -/
theorem walk_simK (H : SimHypK φ D q ch1 ch2 key1 key2 rk1 rk2) :
    ∀ (f2 f1 t : Nat) (s1 : WalkSt K1) (s2 : WalkSt K2), D t → rk1 (φ t) < f1 → rk2 t < f2 →
      SimK φ D key1 key2 s1 s2 →
      (SimK φ D key1 key2 (walk ch1 key1 f1 (φ t) s1).1 (walk ch2 key2 f2 t s2).1 ∧
        (walk ch1 key1 f1 (φ t) s1).2 = (walk ch2 key2 f2 t s2).2) ∨
      DupN q (walk ch2 key2 f2 t s2).1 := by
  intro f2
  induction f2 with
  | zero => intro f1 t s1 s2 _ _ h; omega
  | succ f2 ih =>
    intro f1 t s1 s2 ht hr1 hr2 h
    obtain ⟨f1, rfl⟩ : ∃ g, f1 = g + 1 := ⟨f1 - 1, by omega⟩
    have hcl := H.closed t ht
    have hk1 := H.rk1 t ht
    have hk2 := H.rk2 t ht
    by_cases hdiv : ∃ c ∈ (ch2 t).take 2, key2 c = none ∧ c ∈ s2.outs.toList.map (·.node)
    · right
      obtain ⟨c, hc, hkc, hin⟩ := hdiv
      have := hk2 c (List.mem_of_mem_take hc)
      obtain ⟨f2, rfl⟩ : ∃ g, f2 = g + 1 := ⟨f2 - 1, by omega⟩
      exact dup_of_keyless_child ch2 key2 f2 t c s2 hc hkc (H.klq c (hcl c (List.mem_of_mem_take hc)) hkc) hin
    have hbef : ∀ c ∈ (ch2 t).take 2, walkBefore key1 (φ c) s1 = walkBefore key2 c s2 := by
      intro c hc
      rcases before_simK H h c (hcl c (List.mem_of_mem_take hc)) with e | ⟨e1, e2⟩
      · exact e
      · exact absurd ⟨c, hc, e1, e2⟩ hdiv
    -- a finished child walk: lockstep continues with the final step, a duplicate stays
    have finish : ∀ (s1' : WalkSt K1) (s2' : WalkSt K2) (li ri : Option Nat),
        SimK φ D key1 key2 s1' s2' →
        (SimK φ D key1 key2 (walkFin key1 (φ t) li ri s1').1 (walkFin key2 t li ri s2').1 ∧
          (walkFin key1 (φ t) li ri s1').2 = (walkFin key2 t li ri s2').2) ∨
        DupN q (walkFin key2 t li ri s2').1 := fun s1' s2' li ri hs => fin_simK H hs t ht li ri
    rw [walk_succ, walk_succ, H.ch t ht]
    match hc : ch2 t with
    | [] => simp only [List.map_nil]; exact finish s1 s2 none none h
    | [l] =>
      rw [hc] at hcl hk1 hk2 hbef
      have hl : D l := hcl l (by simp)
      simp only [List.map_cons, List.map_nil]
      rw [hbef l (by simp)]
      cases walkBefore key2 l s2 with
      | some i => exact finish s1 s2 (some i) none h
      | none =>
        simp only []
        rcases ih f1 l s1 s2 hl (by have := hk1 l (by simp); omega)
          (by have := hk2 l (by simp); omega) h with ⟨hs, hi⟩ | hd
        · rw [hi]; exact finish _ _ _ none hs
        · right; exact dup_fin key2 t _ _ hd
    | l :: r :: rest =>
      rw [hc] at hcl hk1 hk2 hbef
      have hl : D l := hcl l (by simp)
      have hr : D r := hcl r (by simp)
      have hl1 := hk1 l (by simp)
      have hl2 := hk2 l (by simp)
      have hr1' := hk1 r (by simp)
      have hr2' := hk2 r (by simp)
      simp only [List.map_cons]
      rw [hbef l (by simp), hbef r (by simp)]
      cases walkBefore key2 l s2 with
      | some li =>
        cases walkBefore key2 r s2 with
        | some ri => exact finish s1 s2 (some li) (some ri) h
        | none =>
          simp only []
          rcases ih f1 r s1 s2 hr (by omega) (by omega) h with ⟨hs, hi⟩ | hd
          · rw [hi]; exact finish _ _ _ _ hs
          · right; exact dup_fin key2 t _ _ hd
      | none =>
        cases walkBefore key2 r s2 with
        | some ri =>
          simp only []
          rcases ih f1 l s1 s2 hl (by omega) (by omega) h with ⟨hs, hi⟩ | hd
          · rw [hi]; exact finish _ _ _ _ hs
          · right; exact dup_fin key2 t _ _ hd
        | none =>
          simp only []
          rcases ih f1 l s1 s2 hl (by omega) (by omega) h with ⟨hs, hi⟩ | hd
          · rcases ih f1 r _ _ hr (by omega) (by omega) hs with ⟨hs', hi'⟩ | hd'
            · rw [hi, hi']; exact finish _ _ _ _ hs'
            · right; exact dup_fin key2 t _ _ hd'
          · right; exact dup_fin key2 t _ _ (dup_walk ch2 key2 _ r hd)
end

#print axioms walk_simK

end Prog
