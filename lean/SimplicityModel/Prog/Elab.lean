/-
From a plan with its inferred arrows, witness values and a jet table to the intrinsically typed
`BM4.Term` that `eval`, `run`, `run_spec`, `loop_eq_run` and `exec_spec` are about; the evaluator with
failure kinds; the instrumented machine run (high-water marks for C07).
-/
import SimplicityModel.Prog.Merkle
import SimplicityModel.Exec
import SimplicityModel.Loop

namespace Prog
open BM4

def castT {a b a' b' : Ty} (t : Term a b) : Option (Term a' b') :=
  if h1 : a = a' then if h2 : b = b' then some (h1 ▸ h2 ▸ t) else none else none

/-- what a jet does on values: compact input bits ↦ compact output bits, or failure -/
abbrev JetSem := String → List Bool → Option (Option (List Bool))

structure Env where
  plan : Plan
  arrows : Array (Ty × Ty)
  /-- compact bits of the value of witness node `i` -/
  wit : Nat → Option (List Bool)
  cmr : Array Nat
  jets : JetSem

def bitsOfNat256 (n : Nat) : List Bool := (List.range 256).map fun i => (n >>> (255 - i)) % 2 = 1

/-- specification of a jet on values, from the table -/
def jetF (e : Env) (name : String) (a b : Ty) (v : Val) : Option Val :=
  match e.jets name (compact v) with
  | some (some out) => valOfCompact b out
  | _ => none

/-- the "C function" on padded bit buffers -/
def jetJF (e : Env) (name : String) (a b : Ty) (bits : List Bool) : Option (List Bool) :=
  match decPadded a bits with
  | some (v, _) => (jetF e name a b v).map (padded b)
  | none => none

/-- elaborate node `i` at its own arrow (fuel = number of nodes) -/
def elabNode (e : Env) : Nat → Nat → Option (Σ a b, Term a b)
  | 0, _ => none
  | f+1, i => do
    let nd ← e.plan[i]?
    let (a, b) ← e.arrows[i]?
    let sub (c : Nat) (a' b' : Ty) : Option (Term a' b') := do
      let ⟨_, _, t⟩ ← elabNode e f c
      castT t
    match nd with
    | .iden => do let t ← castT (a' := a) (b' := b) (Term.iden (a := a)); pure ⟨a, b, t⟩
    | .unit => do let t ← castT (a' := a) (b' := b) (Term.unit (a := a)); pure ⟨a, b, t⟩
    | .injl c => match b with
      | .sum b1 c1 => do let t ← sub c a b1; pure ⟨a, .sum b1 c1, .injl t⟩
      | _ => none
    | .injr c => match b with
      | .sum b1 c1 => do let t ← sub c a c1; pure ⟨a, .sum b1 c1, .injr t⟩
      | _ => none
    | .take c => match a with
      | .prod a1 a2 => do let t ← sub c a1 b; pure ⟨.prod a1 a2, b, .take t⟩
      | _ => none
    | .drop c => match a with
      | .prod a1 a2 => do let t ← sub c a2 b; pure ⟨.prod a1 a2, b, .drop t⟩
      | _ => none
    | .comp x y => do
      let (_, m) ← e.arrows[x]?
      let s ← sub x a m; let t ← sub y m b
      pure ⟨a, b, .comp s t⟩
    | .case x y => match a with
      | .prod (.sum a1 a2) c => do
        let s ← sub x (.prod a1 c) b; let t ← sub y (.prod a2 c) b
        pure ⟨.prod (.sum a1 a2) c, b, .case s t⟩
      | _ => none
    | .assertl x _ => match a with
      | .prod (.sum a1 a2) c => do
        let s ← sub x (.prod a1 c) b
        pure ⟨.prod (.sum a1 a2) c, b, .assertl s⟩
      | _ => none
    | .assertr _ y => match a with
      | .prod (.sum a1 a2) c => do
        let t ← sub y (.prod a2 c) b
        pure ⟨.prod (.sum a1 a2) c, b, .assertr t⟩
      | _ => none
    | .pair x y => match b with
      | .prod b1 b2 => do
        let s ← sub x a b1; let t ← sub y a b2
        pure ⟨a, .prod b1 b2, .pair s t⟩
      | _ => none
    | .disconnect x (some y) => match b with
      | .prod b1 d => do
        let (c, _) ← e.arrows[y]?
        let cw ← valOfCompact (wordTy 8) (bitsOfNat256 (e.cmr.getD y 0))
        let s ← sub x (.prod (wordTy 8) a) (.prod b1 c); let t ← sub y c d
        pure ⟨a, .prod b1 d, .disconnect (wordTy 8) cw s t⟩
      | _ => none
    | .disconnect _ none => none
    | .witness => do
      let bits ← e.wit i
      let v ← valOfCompact b bits
      pure ⟨a, b, .witness v⟩
    | .fail _ => pure ⟨a, b, .fail⟩
    | .word n bits => do
      let v ← valOfCompact (wordTy n) bits
      let t ← castT (a' := a) (b' := b) (Term.word (a := .one) (b := wordTy n) v)
      pure ⟨a, b, t⟩
    | .jet name => pure ⟨a, b, .jet (jetJF e name a b) (jetF e name a b)⟩
    | .hidden _ => none

/-! ### evaluation with failure kinds -/

inductive Fail | assertion | failNode | jet | stuck
deriving DecidableEq, Repr

def evalK : {a b : Ty} → Term a b → Val → Except Fail Val
  | _, _, .iden, v => .ok v
  | _, _, .unit, _ => .ok .unit
  | _, _, .injl t, v => (evalK t v).map .inl
  | _, _, .injr t, v => (evalK t v).map .inr
  | _, _, .take t, .pair x _ => evalK t x
  | _, _, .take _, _ => .error .stuck
  | _, _, .drop t, .pair _ y => evalK t y
  | _, _, .drop _, _ => .error .stuck
  | _, _, .comp s t, v => (evalK s v).bind (evalK t)
  | _, _, .case s _, .pair (.inl x) z => evalK s (.pair x z)
  | _, _, .case _ t, .pair (.inr y) z => evalK t (.pair y z)
  | _, _, .case _ _, _ => .error .stuck
  | _, _, .pair s t, v => (evalK s v).bind fun x => (evalK t v).map fun y => .pair x y
  | _, _, .fail, _ => .error .failNode
  | _, _, .witness w, _ => .ok w
  | _, _, .assertl s, .pair (.inl x) z => evalK s (.pair x z)
  | _, _, .assertl _, .pair (.inr _) _ => .error .assertion
  | _, _, .assertl _, _ => .error .stuck
  | _, _, .assertr t, .pair (.inr y) z => evalK t (.pair y z)
  | _, _, .assertr _, .pair (.inl _) _ => .error .assertion
  | _, _, .assertr _, _ => .error .stuck
  | _, _, .word w, _ => .ok w
  | _, _, .jet _ f, v => match f v with | some o => .ok o | none => .error .jet
  | _, _, .disconnect _ cw s t, v =>
      (evalK s (.pair cw v)).bind fun
        | .pair x y => (evalK t y).map fun z => .pair x z
        | _ => .error .stuck

/-! ### instrumented machine run: the same interpreter, recording high-water marks -/

structure Marks where
  cells : Nat := 0
  frames : Nat := 0
deriving Repr

def Marks.note (k : Marks) (m : M) : Marks :=
  { cells := max k.cells m.next, frames := max k.frames (m.read.length + m.write.length) }

def newWriteM (n : Nat) (m : M) (k : Marks) : Except Err (M × Marks) := do
  let m ← newWrite n m
  pure (m, k.note m)

def runM : {a b : Ty} → Term a b → M → Marks → Except Err (M × Marks)
  | a, _, .iden, m, k => do let m ← copy a.bw m; pure (m, k)
  | _, _, .unit, m, k => .ok (m, k)
  | _, _, @Term.injl _ b c t, m, k => do
      let m ← writeBit false m
      let m ← skip (padL b c) m
      runM t m k
  | _, _, @Term.injr _ b c t, m, k => do
      let m ← writeBit true m
      let m ← skip (padR b c) m
      runM t m k
  | _, _, .take t, m, k => runM t m k
  | _, _, @Term.drop a _ _ t, m, k => do
      let m ← fwd a.bw m
      let (m, k) ← runM t m k
      let m ← back a.bw m
      pure (m, k)
  | _, _, @Term.comp _ b _ s t, m, k => do
      let (m, k) ← newWriteM b.bw m k
      let (m, k) ← runM s m k
      let m ← moveWriteToRead m
      let (m, k) ← runM t m k
      let m ← dropRead m
      pure (m, k)
  | _, _, @Term.case a b _ _ s t, m, k => do
      let bit ← peek m
      if bit then do
        let m ← fwd (1 + padR a b) m
        let (m, k) ← runM t m k
        let m ← back (1 + padR a b) m
        pure (m, k)
      else do
        let m ← fwd (1 + padL a b) m
        let (m, k) ← runM s m k
        let m ← back (1 + padL a b) m
        pure (m, k)
  | _, _, .pair s t, m, k => do
      let (m, k) ← runM s m k
      runM t m k
  | _, _, .fail, _, _ => .error .fail
  | _, b, .witness w, m, k => do let m ← writeBits (padded b w) m; pure (m, k)
  | _, _, @Term.assertl a b _ _ s, m, k => do
      let bit ← peek m
      if bit then .error .fail
      else do
        let m ← fwd (1 + padL a b) m
        let (m, k) ← runM s m k
        let m ← back (1 + padL a b) m
        pure (m, k)
  | _, _, @Term.assertr a b _ _ t, m, k => do
      let bit ← peek m
      if bit then do
        let m ← fwd (1 + padR a b) m
        let (m, k) ← runM t m k
        let m ← back (1 + padR a b) m
        pure (m, k)
      else .error .fail
  | _, b, .word w, m, k => do let m ← writeBits (padded b w) m; pure (m, k)
  | a, _, .jet jf _, m, k =>
      if (a.bw ≠ 0 ∧ m.read = []) ∨ m.cap < rcur m + a.bw then .error .crash else
      match jf (slice m.cells (rcur m) a.bw) with
      | none => .error .fail
      | some out => do let m ← writeBits out m; pure (m, k)
  | _, _, @Term.disconnect a b c _ w cw s t, m, k => do
      let (m, k) ← newWriteM (w.bw + a.bw) m k
      let m ← writeBits (padded w cw) m
      let m ← copy a.bw m
      let m ← moveWriteToRead m
      let (m, k) ← newWriteM (b.bw + c.bw) m k
      let (m, k) ← runM s m k
      let m ← moveWriteToRead m
      let m ← copy b.bw m
      let m ← fwd b.bw m
      let (m, k) ← runM t m k
      let m ← dropRead m
      let m ← dropRead m
      pure (m, k)

/-- `for_program` + `input` + `exec` with marks: output bits (padded) and the high-water marks -/
def execM {a b : Ty} (t : Term a b) (v : Val) : Except Err (List Bool × Marks) := do
  let m0 := forProgram t
  let (m, k) ← (if a.bw = 0 then pure (m0, ({} : Marks)) else do
    let (m, k) ← newWriteM a.bw m0 {}
    let m ← writeBits (padded a v) m
    let m ← moveWriteToRead m
    pure (m, k) : Except Err (M × Marks))
  if b.bw = 0 then do
    let (_, k) ← runM t m k
    pure ([], k)
  else do
    let (m, k) ← newWriteM b.bw m k
    let (m', k) ← runM t m k
    match m'.write with
    | [] => .error .crash
    | w :: _ => pure (slice m'.cells w.start b.bw, k)

end Prog
