/-
C01, general round trip: the type-root function that `Prog.annots` uses — a look-up in the memo
table `tmrCache arrows`, falling back to `tmrF` — is the plain type Merkle root `tmr`, whatever the
arrows are.  Hence the annotations of two plans with different arrow arrays are computed with one
and the same type-root function (no SHA-256 evaluation: everything is by unfolding).
-/
import SimplicityModel.Prog.Roots
set_option linter.unusedSimpArgs false

namespace Prog
open Sha2

theorem isWord_tmr : ∀ (t : BM4.Ty) (n : Nat), isWord t = some n → tmr t = tmrWord n
  | .one, n, h => by simp [isWord] at h
  | .sum a b, n, h => by
    cases a <;> cases b <;> simp [isWord] at h
    subst h
    rfl
  | .prod a b, n, h => by
    simp only [isWord] at h
    cases ha : isWord a with
    | none => rw [ha] at h; simp at h
    | some x =>
      cases hb : isWord b with
      | none => rw [ha, hb] at h; simp at h
      | some y =>
        rw [ha, hb] at h
        simp only at h
        by_cases e : x = y
        · rw [if_pos e] at h
          simp only [Option.some.injEq] at h
          subst h; subst e
          simp only [tmr, tmrWord, isWord_tmr a x ha, isWord_tmr b x hb]
        · rw [if_neg e] at h; cases h

/-- the word shortcut does not change the root -/
theorem tmrF_eq_tmr : ∀ t : BM4.Ty, tmrF t = tmr t
  | .one => rfl
  | .sum a b => by
    unfold tmrF
    cases h : isWord (.sum a b) with
    | some n => simp only [(isWord_tmr _ n h)]
    | none => simp only [tmr, tmrF_eq_tmr a, tmrF_eq_tmr b]
  | .prod a b => by
    unfold tmrF
    cases h : isWord (.prod a b) with
    | some n => simp only [(isWord_tmr _ n h)]
    | none => simp only [tmr, tmrF_eq_tmr a, tmrF_eq_tmr b]

/-- every entry of a memo table is the root of its key -/
def CacheOk (m : Std.HashMap BM4.Ty Nat) : Prop := ∀ t v, m[t]? = some v → v = tmr t

theorem cacheOk_empty : CacheOk {} := by
  intro t v h
  simp at h

theorem cacheOk_insert {m : Std.HashMap BM4.Ty Nat} (h : CacheOk m) (t : BM4.Ty) :
    CacheOk (m.insert t (tmr t)) := by
  intro t' v hv
  rw [Std.HashMap.getElem?_insert] at hv
  split at hv
  · next e =>
    have : t = t' := by simpa using e
    subst this
    simpa using hv.symm
  · exact h t' v hv

theorem tmrM_ok : ∀ (t : BM4.Ty) (m : Std.HashMap BM4.Ty Nat), CacheOk m →
    ((tmrM t).run m).1 = tmr t ∧ CacheOk ((tmrM t).run m).2
  | .one, m, h => ⟨rfl, h⟩
  | .sum a b, m, h => by
    unfold tmrM
    simp only [bind, StateT.bind, get, getThe, MonadStateOf.get, StateT.get, StateT.run, pure,
      StateT.pure, modify, modifyGet, MonadStateOf.modifyGet, StateT.modifyGet, Id.run]
    cases hm : m[BM4.Ty.sum a b]? with
    | some v => exact ⟨h _ _ hm, h⟩
    | none =>
      obtain ⟨h1, h2⟩ := tmrM_ok a m h
      obtain ⟨h3, h4⟩ := tmrM_ok b _ h2
      simp only [StateT.run] at h1 h2 h3 h4
      simp only [StateT.bind, StateT.pure, StateT.modifyGet, bind, pure]
      rcases hxa : tmrM a m with ⟨x, s1⟩
      rw [hxa] at h1 h2 h3 h4
      simp only at h1 h2 h3 h4 ⊢
      rcases hxb : tmrM b s1 with ⟨y, s2⟩
      rw [hxb] at h3 h4
      simp only at h3 h4 ⊢
      subst h1 h3
      exact ⟨rfl, cacheOk_insert h4 (.sum a b)⟩
  | .prod a b, m, h => by
    unfold tmrM
    simp only [bind, StateT.bind, get, getThe, MonadStateOf.get, StateT.get, StateT.run, pure,
      StateT.pure, modify, modifyGet, MonadStateOf.modifyGet, StateT.modifyGet, Id.run]
    cases hm : m[BM4.Ty.prod a b]? with
    | some v => exact ⟨h _ _ hm, h⟩
    | none =>
      obtain ⟨h1, h2⟩ := tmrM_ok a m h
      obtain ⟨h3, h4⟩ := tmrM_ok b _ h2
      simp only [StateT.run] at h1 h2 h3 h4
      simp only [StateT.bind, StateT.pure, StateT.modifyGet, bind, pure]
      rcases hxa : tmrM a m with ⟨x, s1⟩
      rw [hxa] at h1 h2 h3 h4
      simp only at h1 h2 h3 h4 ⊢
      rcases hxb : tmrM b s1 with ⟨y, s2⟩
      rw [hxb] at h3 h4
      simp only at h3 h4 ⊢
      subst h1 h3
      exact ⟨rfl, cacheOk_insert h4 (.prod a b)⟩

theorem tmrCache_ok (arrows : Array (BM4.Ty × BM4.Ty)) : CacheOk (tmrCache arrows) := by
  unfold tmrCache
  rw [← Array.foldl_toList]
  generalize arrows.toList = l
  have : ∀ (l : List (BM4.Ty × BM4.Ty)) (m : Std.HashMap BM4.Ty Nat), CacheOk m →
      CacheOk (l.foldl (fun st a => ((tmrM a.1 *> tmrM a.2).run st).2) m) := by
    intro l
    induction l with
    | nil => intro m h; exact h
    | cons a l ih =>
      intro m h
      simp only [List.foldl_cons]
      apply ih
      obtain ⟨_, h2⟩ := tmrM_ok a.1 m h
      obtain ⟨_, h4⟩ := tmrM_ok a.2 _ h2
      have e : ((tmrM a.1 *> tmrM a.2).run m).2 = ((tmrM a.2).run ((tmrM a.1).run m).2).2 := by
        simp only [SeqRight.seqRight, StateT.bind, StateT.run, bind, StateT.map, Functor.map]
        rfl
      rw [e]; exact h4
  exact this l {} cacheOk_empty

/-- **the type-root function of `annots` does not depend on the arrows** -/
theorem annots_tm_eq (arrows : Array (BM4.Ty × BM4.Ty)) (t : BM4.Ty) :
    (match (tmrCache arrows)[t]? with | some v => v | none => tmrF t) = tmr t := by
  cases h : (tmrCache arrows)[t]? with
  | some v => exact tmrCache_ok arrows t v h
  | none => exact tmrF_eq_tmr t

#print axioms annots_tm_eq

end Prog
