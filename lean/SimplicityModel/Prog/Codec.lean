/-
Program and witness bit encoding at the level of whole programs: the encoder
(`encode_program` + `encode_witness`: post-order under `EncodeSharing`, back references, the compact
witness stream) and the decoder pipeline of `RedeemNode::decode` / `CommitNode::decode`
(node list, `close`, canonical-order walk, hidden nodes, type inference, witness stream, `close`,
identity-root uniqueness), built on the wire layer `Wire.lean`.
-/
import SimplicityModel.Prog.Roots
import SimplicityModel.Prog.Infer
import SimplicityModel.Wire

namespace Prog
open Wire

/-! ### post-order walk on an index DAG (mirrors `PO.visit`: children looked up before descending) -/

structure WOut where
  node : Nat
  index : Nat
  lidx : Option Nat
  ridx : Option Nat
deriving Repr

abbrev SeenL (K : Type) := List (K × Nat)

def seenLook {K} [DecidableEq K] (seen : SeenL K) (k : K) : Option Nat :=
  (seen.find? (·.1 = k)).map (·.2)

structure WalkSt (K : Type) where
  outs : Array WOut
  seen : SeenL K
  idx : Nat

/-- visit node `t`; returns the new state and the index of `t`'s class -/
def walk {K} [DecidableEq K] (ch : Nat → List Nat) (key : Nat → Option K) :
    Nat → Nat → WalkSt K → WalkSt K × Nat
  | 0, _, st => (st, 0)
  | f+1, t, st =>
    let before (c : Nat) (s : WalkSt K) : Option Nat := (key c).bind (seenLook s.seen)
    let fin (li ri : Option Nat) (s : WalkSt K) : WalkSt K × Nat :=
      match key t with
      | none => ({ s with outs := s.outs.push ⟨t, s.idx, li, ri⟩, idx := s.idx + 1 }, s.idx)
      | some k =>
        match seenLook s.seen k with
        | some i => (s, i)
        | none => ({ outs := s.outs.push ⟨t, s.idx, li, ri⟩, seen := (k, s.idx) :: s.seen, idx := s.idx + 1 }, s.idx)
    match ch t with
    | [] => fin none none st
    | [l] =>
      match before l st with
      | some i => fin (some i) none st
      | none => let (s1, li) := walk ch key f l st; fin (some li) none s1
    | l :: r :: _ =>
      match before l st, before r st with
      | some li, some ri => fin (some li) (some ri) st
      | some li, none => let (s1, ri) := walk ch key f r st; fin (some li) (some ri) s1
      | none, some ri => let (s1, li) := walk ch key f l st; fin (some li) (some ri) s1
      | none, none =>
        let (s1, li) := walk ch key f l st
        let (s2, ri) := walk ch key f r s1
        fin (some li) (some ri) s2

/-! ### encoder -/

/-- the encoder's DAG: plan nodes `2*i`, hidden pseudo-nodes `2*j+1` (one per assertion `j`) -/
def encChildren (p : Plan) (redeem : Bool) (t : Nat) : List Nat :=
  if t % 2 = 1 then [] else
  match p[t / 2]? with
  | some (.injl c) | some (.injr c) | some (.take c) | some (.drop c) => [2 * c]
  | some (.comp a b) | some (.case a b) | some (.pair a b) => [2 * a, 2 * b]
  | some (.assertl a _) => [2 * a, t + 1]
  | some (.assertr _ b) => [t + 1, 2 * b]
  | some (.disconnect a (some b)) => if redeem then [2 * a, 2 * b] else [2 * a]
  | some (.disconnect a none) => [2 * a]
  | _ => []

/-- `EncodeId`: the sharing id of a node, or the root of a hidden node -/
def encKey (p : Plan) (an : Array Annot) (redeem : Bool) (t : Nat) : Option (Bool × Nat) :=
  if t % 2 = 1 then
    match p[t / 2]? with
    | some (.assertl _ h) | some (.assertr h _) => some (true, h)
    | _ => none
  else
    match an[t / 2]? with
    | some a => if redeem || !a.unique then some (false, a.ihr) else none
    | none => none

def natBits256 (n : Nat) : List Bool := (List.range 256).map fun i => (n >>> (255 - i)) % 2 = 1
def bytesBits (bs : List Nat) : List Bool := Drv.bitsOfBytes bs

/-- the wire node written for one item of the walk -/
def wireOf {J : Type} (ofName : String → Option J) (p : Plan) (o : WOut) : Option (WNode J) :=
  if o.node % 2 = 1 then
    match p[o.node / 2]? with
    | some (.assertl _ h) | some (.assertr h _) => some (.hidden (natBits256 h))
    | _ => none
  else
    match p[o.node / 2]?, o.lidx, o.ridx with
    | some .iden, _, _ => some .iden
    | some .unit, _, _ => some .unit
    | some .witness, _, _ => some .witness
    | some (.injl _), some i, _ => some (.injl i)
    | some (.injr _), some i, _ => some (.injr i)
    | some (.take _), some i, _ => some (.take i)
    | some (.drop _), some i, _ => some (.drop i)
    | some (.comp _ _), some i, some j => some (.comp i j)
    | some (.case _ _), some i, some j => some (.case i j)
    | some (.assertl _ _), some i, some j => some (.case i j)
    | some (.assertr _ _), some i, some j => some (.case i j)
    | some (.pair _ _), some i, some j => some (.pair i j)
    | some (.disconnect _ (some _)), some i, some j => some (.disc i j)
    | some (.disconnect _ (some _)), some i, none => some (.disc1 i)
    | some (.disconnect _ none), some i, _ => some (.disc1 i)
    | some (.fail e), _, _ => some (.fail (bytesBits e))
    | some (.word n bits), _, _ => some (.word n bits)
    | some (.jet name), _, _ => (ofName name).map .jet
    | _, _, _ => none

def padToByte (bs : List Bool) : List Bool := bs ++ List.replicate ((8 - bs.length % 8) % 8) false

/-- `to_vec_without_witness` / the program half of `to_vec_with_witness`, and the witness stream -/
def encode {J : Type} (jc : JetCode J) (ofName : String → Option J) (p : Plan) (an : Array Annot)
    (redeem : Bool) (wit : Nat → Option (List Bool)) : Option (List Bool × List Bool) := do
  let (st, _) := walk (encChildren p redeem) (encKey p an redeem) (2 * p.size + 2) (2 * (p.size - 1)) ⟨#[], [], 0⟩
  let nodes ← st.outs.toList.mapM (wireOf ofName p)
  let prog := encProgram jc nodes
  let wits := st.outs.toList.filterMap fun o =>
    if o.node % 2 = 0 then
      match p[o.node / 2]? with
      | some Node.witness => wit (o.node / 2)
      | _ => none
    else none
  pure (padToByte prog, padToByte wits.flatten)

/-! ### decoder -/

inductive DErr
  | eof | natural | jet | close | canonical | hidden | bothHidden | sharing | type | disconnect
deriving DecidableEq, Repr

/-- `BitIter::close`: nothing but zero bits of the last byte may remain -/
def closeOk (rest : List Bool) : Bool := rest.length < 8 && rest.all (· == false)

def wireChildren {J : Type} (ns : Array (WNode J)) (i : Nat) : List Nat :=
  match ns[i]? with
  | some (.injl c) | some (.injr c) | some (.take c) | some (.drop c) | some (.disc1 c) => [c]
  | some (.comp a b) | some (.case a b) | some (.pair a b) | some (.disc a b) => [a, b]
  | _ => []

def bitsNat (bs : List Bool) : Nat := bs.foldl (fun acc b => acc * 2 + (if b then 1 else 0)) 0
def bitsBytes (bs : List Bool) : List Nat := packBits bs

/-- the root of node `i` of the wire list if it is a hidden node -/
def hiddenAt {J : Type} (ns : Array (WNode J)) (i : Nat) : Option Nat :=
  match ns[i]? with | some (.hidden h) => some (bitsNat h) | _ => none

/-- a child that must not be a hidden node -/
def needVisible {J : Type} (ns : Array (WNode J)) (i : Nat) : Except DErr Unit :=
  if (hiddenAt ns i).isSome then .error .hidden else .ok ()

/-- conversion of one node: hidden nodes only under `case`, never both; `case` with a hidden child
becomes an assertion -/
def convNode {J : Type} (nameOf : J → String) (ns : Array (WNode J)) : WNode J → Except DErr Node
  | .iden => .ok Node.iden
  | .unit => .ok Node.unit
  | .witness => .ok Node.witness
  | .injl c => match needVisible ns c with | .error e => .error e | .ok _ => .ok (Node.injl c)
  | .injr c => match needVisible ns c with | .error e => .error e | .ok _ => .ok (Node.injr c)
  | .take c => match needVisible ns c with | .error e => .error e | .ok _ => .ok (Node.take c)
  | .drop c => match needVisible ns c with | .error e => .error e | .ok _ => .ok (Node.drop c)
  | .disc1 c => match needVisible ns c with | .error e => .error e | .ok _ => .ok (Node.disconnect c none)
  | .comp a b => match needVisible ns a with
    | .error e => .error e
    | .ok _ => match needVisible ns b with | .error e => .error e | .ok _ => .ok (Node.comp a b)
  | .pair a b => match needVisible ns a with
    | .error e => .error e
    | .ok _ => match needVisible ns b with | .error e => .error e | .ok _ => .ok (Node.pair a b)
  | .disc a b => match needVisible ns a with
    | .error e => .error e
    | .ok _ => match needVisible ns b with | .error e => .error e | .ok _ => .ok (Node.disconnect a (some b))
  | .case a b =>
    match hiddenAt ns a, hiddenAt ns b with
    | none, none => .ok (Node.case a b)
    | none, some h => .ok (Node.assertl a h)
    | some h, none => .ok (Node.assertr h b)
    | some _, some _ => .error .bothHidden
  | .fail e => .ok (Node.fail (bitsBytes e))
  | .hidden h => .ok (Node.hidden (bitsNat h))
  | .jet j => .ok (Node.jet (nameOf j))
  | .word n w => .ok (Node.word n w)

/-- the conversion loop over the node list, in order: convert the node, then refuse a hidden root
that was seen before (`hiddenSeen` = the roots of the hidden nodes so far) -/
def convertGo {J : Type} (nameOf : J → String) (ns : Array (WNode J)) :
    List (WNode J) → List Nat → Except DErr (List Node)
  | [], _ => .ok []
  | n :: rest, hiddenSeen =>
    match convNode nameOf ns n with
    | .error e => .error e
    | .ok nd =>
      match (match n with
        | .hidden h =>
          if hiddenSeen.contains (bitsNat h) then .error .sharing else .ok (bitsNat h :: hiddenSeen)
        | _ => .ok hiddenSeen : Except DErr (List Nat)) with
      | .error e => .error e
      | .ok seen' =>
        match convertGo nameOf ns rest seen' with
        | .error e => .error e
        | .ok tl => .ok (nd :: tl)

/-- conversion of the decoded node list: hidden nodes only under `case`, never both, never the
root, never repeated; `case` with a hidden child becomes an assertion -/
def convert {J : Type} (nameOf : J → String) (ns : Array (WNode J)) : Except DErr Plan :=
  match convertGo nameOf ns ns.toList [] with
  | .error e => .error e
  | .ok out => if (hiddenAt ns (ns.size - 1)).isSome then .error .hidden else .ok out.toArray

/-- the canonical-order check of `decode_expression`: the pointer-sharing post-order walk from the
last node yields every node at its own index -/
def canonicalOk {J : Type} (ns : Array (WNode J)) : Bool :=
  let (st, _) := walk (wireChildren ns) (fun i => some i) (ns.size + 1) (ns.size - 1) ⟨#[], [], 0⟩
  st.outs.size == ns.size && st.outs.toList.all fun o => o.node == o.index

structure Decoded where
  plan : Plan
  arrows : Array (BM4.Ty × BM4.Ty)
  wits : List (Nat × List Bool)
  annots : Array Annot

/-- the witness reader's loop: node `i` is the head of the list -/
def readGo (arrows : Array (BM4.Ty × BM4.Ty)) :
    List Node → Nat → List Bool → Except DErr (List (Nat × List Bool) × List Bool)
  | [], _, bits => .ok ([], bits)
  | nd :: rest, i, bits =>
    match nd with
    | .witness =>
      match decCompact (arrows.getD i (.one, .one)).2 bits with
      | some (v, r) =>
        match readGo arrows rest (i + 1) r with
        | .ok (ws, r') => .ok ((i, compact v) :: ws, r')
        | .error e => .error e
      | none => .error .eof
    | _ => readGo arrows rest (i + 1) bits

/-- witness values in conversion (post-order = index) order, each of its node's target type -/
def readWitnesses (p : Plan) (arrows : Array (BM4.Ty × BM4.Ty)) (bits : List Bool) :
    Except DErr (List (Nat × List Bool) × List Bool) :=
  readGo arrows p.toList 0 bits

structure Tables where
  J : Type
  jc : JetCode J
  nameOf : J → String
  ofName : String → Option J
  jetTy : JetTypes
  jetCmr : String → Option Nat
  jetCost : String → Option Nat

/-- `RedeemNode::decode` -/
def decodeRedeem (tb : Tables) (prog wit : List Bool) : Except DErr Decoded := do
  let (nodes, rest) ← (match decProgram tb.jc prog with
    | .ok x => pure x
    | .error .eof => throw .eof
    | .error .overflow => throw .natural
    | .error .badIndex => throw .natural
    | .error .jet => throw .jet : Except DErr _)
  if !closeOk rest then throw .close
  let ns := nodes.toArray
  if ns.size = 0 then throw .natural
  if !canonicalOk ns then throw .canonical
  let plan ← convert tb.nameOf ns
  if plan.any (fun nd => match nd with | .disconnect _ none => true | _ => false) then throw .disconnect
  let arrows ← (match infer tb.jetTy plan true with
    | .ok a => pure a
    | _ => throw .type : Except DErr _)
  let (wits, wrest) ← readWitnesses plan arrows wit
  if !closeOk wrest then throw .close
  let witF (i : Nat) : Option (List Bool) := (wits.find? (·.1 = i)).map (·.2)
  let an ← (match annots tb.jetCmr tb.jetCost plan arrows witF with
    | some a => pure a
    | none => throw .type : Except DErr _)
  -- identity roots of all (non-hidden) nodes are pairwise different
  let ihrs := (List.range plan.size).filterMap fun i =>
    match plan[i]? with
    | some (.hidden _) => none
    | _ => (an[i]?).map (·.ihr)
  if ihrs.eraseDups.length ≠ ihrs.length then throw .sharing
  pure ⟨plan, arrows, wits, an⟩

/-- children in the commitment-time DAG: a disconnect node has its left child only -/
def commitChildren (p : Plan) (i : Nat) : List Nat :=
  match p[i]? with
  | some (.disconnect a _) => [a]
  | some nd => nd.children
  | none => []

/-- `CommitNode::decode`: node list, `close`, canonical order, conversion, inference of a 1 → 1
program, and `is_shared_as::<MaxSharing>`: the walk under identity roots (nodes without one are
never shared) visits the same nodes as the pointer walk -/
def decodeCommit (tb : Tables) (prog : List Bool) : Except DErr (Plan × Array Nat) := do
  let (nodes, rest) ← (match decProgram tb.jc prog with
    | .ok x => pure x
    | .error .eof => throw .eof
    | .error .overflow => throw .natural
    | .error .badIndex => throw .natural
    | .error .jet => throw .jet : Except DErr _)
  if !closeOk rest then throw .close
  let ns := nodes.toArray
  if ns.size = 0 then throw .natural
  if !canonicalOk ns then throw .canonical
  let plan ← convert tb.nameOf ns
  let arrows ← (match infer tb.jetTy plan true with
    | .ok a => pure a
    | _ => throw .type : Except DErr _)
  let an ← (match annots tb.jetCmr tb.jetCost plan arrows (fun _ => none) with
    | some a => pure a
    | none => throw .type : Except DErr _)
  let key (i : Nat) : Option Nat := match an[i]? with
    | some a => if a.unique then none else some a.ihr
    | none => none
  let root := plan.size - 1
  let (s1, _) := walk (commitChildren plan) key (plan.size + 1) root ⟨#[], [], 0⟩
  let (s2, _) := walk (commitChildren plan) (fun i => some i) (plan.size + 1) root ⟨#[], [], 0⟩
  let same := (s1.outs.toList.zip s2.outs.toList).all fun (a, b) => a.node == b.node
  if !same then throw .sharing
  let cm ← (match cmrs tb.jetCmr plan with
    | some c => pure c
    | none => throw .jet : Except DErr _)
  pure (plan, cm)

end Prog
