/-
C01, general round trip, commitment roots: `Prog.cmrs` node by node, under a node map, and constant on
the classes of nodes with one identity root — so the decoded program of `roundtrip_general` has, at
`f i`, the commitment root of node `i`.
-/
import SimplicityModel.Prog.RtNodes
set_option linter.unusedSimpArgs false
namespace Prog
open Wire PO

theorem mapCh_hidden (g : Nat → Nat) (nd : Node) (h : Nat) (e : nd.mapCh g = .hidden h) : nd = .hidden h := by
  cases nd <;> simp [Node.mapCh] at e ⊢
  exact e

theorem mapCh_witness (g : Nat → Nat) (nd : Node) (e : nd.mapCh g = .witness) : nd = .witness := by
  cases nd <;> simp [Node.mapCh] at e ⊢

theorem mapCh_open (g : Nat → Nat) (nd : Node) (a : Nat) (e : nd.mapCh g = .disconnect a none) :
    ∃ a', nd = .disconnect a' none := by
  cases nd <;> simp [Node.mapCh] at e
  rename_i a' b'
  cases b' with
  | none => exact ⟨a', rfl⟩
  | some _ => simp at e

theorem hidden_match {α : Type} (nd : Node) (A : Nat → α) (B : α) (h : ∀ x, nd ≠ .hidden x) :
    (match (some nd : Option Node) with | some (Node.hidden x) => A x | _ => B) = B := by
  cases nd
  case hidden x => exact absurd rfl (h x)
  all_goals rfl

/-- `cmrNode` depends on the roots of the children only (and only on the left child of a disconnect) -/
theorem cmrNode_congr2 (jc : String → Option Nat) (cm cm' : Nat → Nat) (nd nd' : Node)
    (hsh : nd.shape = nd'.shape)
    (hc : ∀ (k c c' : Nat), nd.children[k]? = some c → nd'.children[k]? = some c' → cm c = cm' c') :
    cmrNode jc cm nd = cmrNode jc cm' nd' := by
  cases nd
  case disconnect a b =>
    cases nd' <;> simp [Node.shape, Node.mapCh] at hsh
    rename_i a' b'
    have h0 : cm a = cm' a' := by
      cases b <;> cases b' <;> exact hc 0 a a' (by simp [Node.children]) (by simp [Node.children])
    simp [cmrNode, cmrNodeG, h0]
  case iden | unit | witness | hidden h =>
    cases nd' <;> simp [Node.shape, Node.mapCh] at hsh
    all_goals (try subst hsh)
    all_goals rfl
  case fail e | word n bits | jet name =>
    cases nd' <;> simp [Node.shape, Node.mapCh] at hsh
    all_goals (first | (obtain ⟨rfl, rfl⟩ := hsh) | subst hsh)
    all_goals rfl
  case injl c | injr c | take c | drop c =>
    cases nd' <;> simp [Node.shape, Node.mapCh] at hsh
    rename_i c'
    have h0 := hc 0 c c' (by simp [Node.children]) (by simp [Node.children])
    simp [cmrNode, cmrNodeG, h0]
  case comp a b | case a b | pair a b =>
    cases nd' <;> simp [Node.shape, Node.mapCh] at hsh
    rename_i a' b'
    have h0 := hc 0 a a' (by simp [Node.children]) (by simp [Node.children])
    have h1 := hc 1 b b' (by simp [Node.children]) (by simp [Node.children])
    simp [cmrNode, cmrNodeG, h0, h1]
  case assertl a x =>
    cases nd' <;> simp [Node.shape, Node.mapCh] at hsh
    rename_i a' x'
    subst hsh
    have h0 := hc 0 a a' (by simp [Node.children]) (by simp [Node.children])
    simp [cmrNode, cmrNodeG, h0]
  case assertr x b =>
    cases nd' <;> simp [Node.shape, Node.mapCh] at hsh
    rename_i x' b'
    subst hsh
    have h0 := hc 0 b b' (by simp [Node.children]) (by simp [Node.children])
    simp [cmrNode, cmrNodeG, h0]

theorem cmrNode_mapCh (jc : String → Option Nat) (cm cm' : Nat → Nat) (g : Nat → Nat) (nd : Node)
    (hc : ∀ c ∈ nd.children, cm c = cm' (g c)) :
    cmrNode jc cm nd = cmrNode jc cm' (nd.mapCh g) := by
  refine cmrNode_congr2 jc cm cm' nd _ (shape_mapCh g nd).symm ?_
  intro k c c' h1 h2
  rw [mapCh_children, List.getElem?_map, h1] at h2
  simp only [Option.map_some, Option.some.injEq] at h2
  subst h2
  exact hc c (List.mem_of_getElem? h1)

/-- what `cmrs` computes, node by node -/
def CmrOk (jc : String → Option Nat) (p : Plan) (cs : Array Nat) : Prop :=
  cs.size = p.size ∧ ∀ i nd, p[i]? = some nd → cmrNode jc (fun c => cs.getD c 0) nd = some (cs.getD i 0)

theorem cmrs_go_spec (jc : String → Option Nat) (p : Plan) (hb : PlanBackward p) :
    ∀ (nodes : List Node) (i : Nat) (acc r : Array Nat), acc.size = i →
      (∀ k, nodes[k]? = p[i + k]?) → cmrsGo jc nodes acc = some r →
      r.size = i + nodes.length ∧ (∀ j, j < i → r.getD j 0 = acc.getD j 0) ∧
      ∀ k nd, nodes[k]? = some nd → cmrNode jc (fun c => r.getD c 0) nd = some (r.getD (i + k) 0) := by
  intro nodes
  induction nodes with
  | nil =>
    intro i acc r hsz _ h
    simp only [cmrsGo, cmrsGoG, Option.some.injEq] at h
    subst h
    exact ⟨by simp [hsz], fun _ _ => rfl, fun k nd hk => by simp at hk⟩
  | cons nd rest ih =>
    intro i acc r hsz hn h
    simp only [cmrsGo, cmrsGoG] at h
    cases ha : cmrNode jc (fun c => acc.getD c 0) nd with
    | none => rw [ha] at h; cases h
    | some a =>
      rw [ha] at h
      simp only at h
      obtain ⟨h1, h2, h3⟩ := ih (i + 1) (acc.push a) r (by simp [hsz])
        (fun k => by
          have := hn (k + 1)
          simp only [List.getElem?_cons_succ] at this
          rw [this]; congr 1; omega) h
      have hpi : p[i]? = some nd := by
        have := hn 0
        simpa using this.symm
      have hlow : ∀ j, j < i → r.getD j 0 = acc.getD j 0 := by
        intro j hj
        rw [h2 j (by omega)]
        simp only [Array.getD_eq_getD_getElem?, Array.getElem?_push]
        rw [if_neg (by omega)]
      have hri : r.getD i 0 = a := by
        rw [h2 i (by omega)]
        subst hsz
        simp [Array.getD_eq_getD_getElem?, Array.getElem?_push]
      refine ⟨by simp only [List.length_cons]; omega, hlow, ?_⟩
      intro k nd' hk
      cases k with
      | zero =>
        simp only [List.getElem?_cons_zero, Option.some.injEq] at hk
        subst hk
        rw [Nat.add_zero, hri, ← ha]
        refine cmrNode_congr2 jc _ _ nd nd rfl ?_
        intro k c c' e1 e2
        rw [e1] at e2; cases e2
        exact hlow c (hb i nd hpi c (List.mem_of_getElem? e1))
      | succ k =>
        simp only [List.getElem?_cons_succ] at hk
        have := h3 k nd' hk
        rw [show i + 1 + k = i + (k + 1) by omega] at this
        exact this

theorem cmrs_spec (jc : String → Option Nat) (p : Plan) (hb : PlanBackward p) (cs : Array Nat)
    (h : cmrs jc p = some cs) : CmrOk jc p cs := by
  obtain ⟨h1, _, h3⟩ := cmrs_go_spec jc p hb p.toList 0 #[] cs rfl (fun k => by simp) h
  refine ⟨by simpa using h1, ?_⟩
  intro i nd hp
  have := h3 i nd (by simpa using hp)
  simpa using this

theorem cmrs_go_intro (jc : String → Option Nat) (p : Plan) (hb : PlanBackward p) (cs : Array Nat)
    (H : CmrOk jc p cs) :
    ∀ (nodes : List Node) (i : Nat) (acc : Array Nat), acc.size = i →
      (∀ k, nodes[k]? = p[i + k]?) → i + nodes.length = p.size →
      (∀ j, j < i → acc.getD j 0 = cs.getD j 0) → cmrsGo jc nodes acc = some cs := by
  intro nodes
  induction nodes with
  | nil =>
    intro i acc hsz _ hlen hag
    simp only [cmrsGo, cmrsGoG, Option.some.injEq]
    apply Array.ext
    · rw [hsz, H.1]; simpa using hlen
    · intro j h1 h2
      have := hag j (by omega)
      simp only [Array.getD_eq_getD_getElem?, Array.getElem?_eq_getElem h1,
        Array.getElem?_eq_getElem h2, Option.getD_some] at this
      exact this
  | cons nd rest ih =>
    intro i acc hsz hn hlen hag
    have hpi : p[i]? = some nd := by
      have := hn 0
      simpa using this.symm
    have ha : cmrNode jc (fun c => acc.getD c 0) nd = some (cs.getD i 0) := by
      rw [← H.2 i nd hpi]
      refine cmrNode_congr2 jc _ _ nd nd rfl ?_
      intro k c c' e1 e2
      rw [e1] at e2; cases e2
      exact hag c (hb i nd hpi c (List.mem_of_getElem? e1))
    simp only [cmrsGo, cmrsGoG, ha]
    apply ih (i + 1) _ (by simp [hsz])
      (fun k => by
        have := hn (k + 1)
        simp only [List.getElem?_cons_succ] at this
        rw [this]; congr 1; omega)
      (by simp only [List.length_cons] at hlen; omega)
    intro j hj
    simp only [Array.getD_eq_getD_getElem?, Array.getElem?_push]
    by_cases e : j = acc.size
    · rw [if_pos e]; subst e; rw [hsz]; simp [Array.getD_eq_getD_getElem?]
    · rw [if_neg e]
      have := hag j (by omega)
      simpa [Array.getD_eq_getD_getElem?] using this

theorem cmrs_intro (jc : String → Option Nat) (p : Plan) (hb : PlanBackward p) (cs : Array Nat)
    (H : CmrOk jc p cs) : cmrs jc p = some cs :=
  cmrs_go_intro jc p hb cs H p.toList 0 #[] rfl (fun k => by simp) (by simp) (fun j hj => by omega)

/-- nodes with one identity root have one commitment root -/
theorem cmr_const {jc : String → Option Nat} {p : Plan} {arrows : Array (BM4.Ty × BM4.Ty)}
    {wit : Nat → Option (List Bool)} {an : Array Annot} {cs : Array Nat} (hb : PlanBackward p)
    (H : CmrOk jc p cs) (hf : IhrFaithful p arrows an wit) :
    ∀ (m i i' : Nat), i < m → i' < m → i < p.size → i' < p.size →
      (an.getD i default).ihr = (an.getD i' default).ihr → cs.getD i 0 = cs.getD i' 0 := by
  intro m
  induction m with
  | zero => intro i i' h; omega
  | succ m ih =>
    intro i i' him him' hi hi' e
    have hp : p[i]? = some p[i] := Array.getElem?_eq_getElem hi
    have hp' : p[i']? = some p[i'] := Array.getElem?_eq_getElem hi'
    obtain ⟨hsh, hkids, _, _⟩ := hf i i' _ _ hp hp' e
    have e1 := H.2 i _ hp
    have e2 := H.2 i' _ hp'
    have := cmrNode_congr2 jc (fun c => cs.getD c 0) (fun c => cs.getD c 0) p[i] p[i'] hsh
      (by
        intro k c c' h1 h2
        have hc := hb i _ hp c (List.mem_of_getElem? h1)
        have hc' := hb i' _ hp' c' (List.mem_of_getElem? h2)
        exact ih c c' (by omega) (by omega) (by omega) (by omega) (hkids k c c' h1 h2))
    rw [e1, e2] at this
    exact Option.some.inj this


/-- the commitment roots of `p` transported to `q` -/
def cmOf (q : Plan) (cp : Array Nat) (r : Nat → Nat) : Array Nat :=
  (Array.range q.size).map fun j =>
    match q[j]? with
    | some (Node.hidden h) => h
    | _ => cp.getD (r j) 0

theorem cmOf_getD (q : Plan) (cp : Array Nat) (r : Nat → Nat) (j : Nat) (hj : j < q.size) :
    (cmOf q cp r).getD j 0 =
      match q[j]? with
      | some (Node.hidden h) => h
      | _ => cp.getD (r j) 0 := by
  unfold cmOf
  rw [Array.getD_eq_getD_getElem?, Array.getElem?_eq_getElem (by simpa using hj)]
  simp only [Array.getElem_map, Array.getElem_range, Option.getD_some]

/-- **commitment roots along a node map** -/
theorem cmrs_along (jc : String → Option Nat) {p q : Plan} {g r : Nat → Nat} (M : NodeMap p q g r)
    (hb : PlanBackward p) (hbq : PlanBackward q) (hnohid : ∀ (i h : Nat), p[i]? ≠ some (Node.hidden h))
    (cp : Array Nat) (hcp : cmrs jc p = some cp)
    (hconst : ∀ i, i < p.size → r (g i) < p.size → cp.getD (r (g i)) 0 = cp.getD i 0) :
    ∃ cq, cmrs jc q = some cq ∧ ∀ i, i < p.size → cq.getD (g i) 0 = cp.getD i 0 := by
  have H := cmrs_spec jc p hb cp hcp
  have hrepq : ∀ j nd', q[j]? = some nd' → (∀ x, nd' ≠ .hidden x) →
      r j < p.size ∧ g (r j) = j ∧ nd' = (p[r j]?.getD .unit).mapCh g := by
    intro j nd' hq' hnh
    rcases M.sur j nd' hq' with ⟨h, rfl⟩ | ⟨hr, hgr⟩
    · exact absurd rfl (hnh h)
    · have hp : p[r j]? = some p[r j] := Array.getElem?_eq_getElem hr
      have := M.img (r j) _ hp
      rw [hgr, hq'] at this
      refine ⟨hr, hgr, ?_⟩
      rw [hp]; exact Option.some.inj this
  have himg_nh : ∀ (i : Nat) (nd : Node), p[i]? = some nd → ∀ x, nd.mapCh g ≠ .hidden x := by
    intro i nd hp x e
    exact hnohid i x (by rw [hp, mapCh_hidden g _ x e])
  have hkey : ∀ i, i < p.size → (cmOf q cp r).getD (g i) 0 = cp.getD i 0 := by
    intro i hi
    have hp : p[i]? = some p[i] := Array.getElem?_eq_getElem hi
    have hq' := M.img i _ hp
    rw [cmOf_getD q cp r (g i) (M.lt hi), hq', hidden_match _ _ _ (himg_nh i _ hp)]
    obtain ⟨hr, _, _⟩ := hrepq (g i) _ hq' (himg_nh i _ hp)
    exact hconst i hi hr
  refine ⟨cmOf q cp r, cmrs_intro jc q hbq _ ⟨by simp [cmOf], ?_⟩, hkey⟩
  intro j nd' hq'
  have hj : j < q.size := by
    rcases Nat.lt_or_ge j q.size with h | h
    · exact h
    · rw [Array.getElem?_eq_none h] at hq'; cases hq'
  rw [cmOf_getD q cp r j hj, hq']
  by_cases hnh : ∀ x, nd' ≠ .hidden x
  · obtain ⟨hr, hgr, rfl⟩ := hrepq j nd' hq' hnh
    have hp : p[r j]? = some p[r j] := Array.getElem?_eq_getElem hr
    rw [hp] at hnh ⊢
    simp only [Option.getD_some] at hnh ⊢
    rw [hidden_match _ _ _ hnh, ← H.2 (r j) _ hp]
    symm
    refine cmrNode_mapCh jc _ _ g _ ?_
    intro c hc
    have hci : c < p.size := by have := hb (r j) _ hp c hc; omega
    exact (hkey c hci).symm
  · have : ∃ x, nd' = .hidden x := by
      apply Classical.byContradiction
      intro h
      exact hnh (fun x e => h ⟨x, e⟩)
    obtain ⟨x, rfl⟩ := this
    simp [cmrNode, cmrNodeG]

#print axioms cmrs_along
#print axioms cmrs_spec
#print axioms cmrs_intro
#print axioms cmr_const
end Prog
