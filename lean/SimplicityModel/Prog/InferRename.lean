/-
C01, type half of the round trip along a node map: re-inference after decoding works on *renumbered*
type variables (the decoder numbers the nodes of the merged, re-ordered DAG afresh).  If a variable
map `σ` sends the constraints of the original program onto the constraints of the decoded one, and
variables that are identified by `σ` already had equal types, then inference on the decoded program
returns the original types (`σ`-transported) and cannot fail with a clash or an occurs-check.
-/
import SimplicityModel.Infer

namespace Inf

def Tm.rename (σ : Nat → Nat) : Tm → Tm
  | .var n => .var (σ n)
  | .one => .one
  | .sum a b => .sum (a.rename σ) (b.rename σ)
  | .prod a b => .prod (a.rename σ) (b.rename σ)

theorem eval_rename (ρ : Nat → Ty) (σ : Nat → Nat) (t : Tm) :
    (t.rename σ).eval ρ = t.eval (fun x => ρ (σ x)) := by
  induction t with
  | var n => rfl
  | one => rfl
  | sum a b iha ihb => simp [Tm.rename, Tm.eval, iha, ihb]
  | prod a b iha ihb => simp [Tm.rename, Tm.eval, iha, ihb]

/-- the original typing pushed forward along `σ` (unit outside the image) -/
noncomputable def pushforward (σ : Nat → Nat) (ρ : Nat → Ty) (y : Nat) : Ty :=
  open Classical in if h : ∃ x, σ x = y then ρ (Classical.choose h) else .one

theorem pushforward_apply (σ : Nat → Nat) (ρ : Nat → Ty)
    (hwd : ∀ x x', σ x = σ x' → ρ x = ρ x') (x : Nat) : pushforward σ ρ (σ x) = ρ x := by
  unfold pushforward
  have h : ∃ x', σ x' = σ x := ⟨x, rfl⟩
  rw [dif_pos h]
  exact hwd _ _ (Classical.choose_spec h)

/-- the pushed-forward typing solves the renamed constraints -/
theorem pushforward_sol (σ : Nat → Nat) (ρ : Nat → Ty) (E E' : List Eqn)
    (hwd : ∀ x x', σ x = σ x' → ρ x = ρ x')
    (hsur : ∀ e' ∈ E', ∃ e ∈ E, e' = (e.1.rename σ, e.2.rename σ)) (hs : Sol ρ E) :
    Sol (pushforward σ ρ) E' := by
  intro e' he'
  obtain ⟨e, he, rfl⟩ := hsur e' he'
  simp only [eval_rename]
  have : (fun x => pushforward σ ρ (σ x)) = ρ := funext (pushforward_apply σ ρ hwd)
  rw [this]
  exact hs e he

/-- **re-inference along a renaming**: inference on the renamed (merged) system returns the original
types -/
theorem least_of_renaming {f f' : Nat} {E E' : List Eqn} {S S' : List Bind} (σ : Nat → Nat)
    (himg : ∀ e ∈ E, (e.1.rename σ, e.2.rename σ) ∈ E')
    (hsur : ∀ e' ∈ E', ∃ e ∈ E, e' = (e.1.rename σ, e.2.rename σ))
    (h : unify f E [] = .ok S) (h' : unify f' E' [] = .ok S')
    (hwd : ∀ x x', σ x = σ x' → closeUnit S x = closeUnit S x') :
    ∀ x, closeUnit S' (σ x) = closeUnit S x := by
  intro x
  obtain ⟨hs, hl⟩ := unify_least f E S h
  obtain ⟨hs', hl'⟩ := unify_least f' E' S' h'
  apply Le.antisymm
  · have := hl' (pushforward σ (closeUnit S)) (pushforward_sol σ _ E E' hwd hsur hs) (σ x)
    rw [pushforward_apply σ _ hwd] at this
    exact this
  · refine hl (fun y => closeUnit S' (σ y)) ?_ x
    intro e he
    have := hs' _ (himg e he)
    simpa only [eval_rename] using this

/-- … and cannot fail with a clash or an occurs-check -/
theorem renaming_accepts {f f' : Nat} {E E' : List Eqn} {S : List Bind} (σ : Nat → Nat)
    (hsur : ∀ e' ∈ E', ∃ e ∈ E, e' = (e.1.rename σ, e.2.rename σ))
    (h : unify f E [] = .ok S)
    (hwd : ∀ x x', σ x = σ x' → closeUnit S x = closeUnit S x')
    (hbad : unify f' E' [] = .clash ∨ unify f' E' [] = .occurs) : False :=
  quotient_accepts (pushforward_sol σ _ E E' hwd hsur (unify_least f E S h).1) hbad

#print axioms least_of_renaming
#print axioms renaming_accepts

end Inf
