/-
C02/C01 assembly at commitment time: what an accepting run of `Prog.decodeCommit` went through
(`decodeCommit_inv`, converse `decodeCommit_intro`), and what its sharing check
(`is_shared_as::<MaxSharing>`: the walk under identity roots yields the same nodes as the pointer
walk) establishes about the converted plan.
-/
import SimplicityModel.Prog.DecodeProps
import SimplicityModel.Prog.WalkSkip
import SimplicityModel.Prog.WalkSimK
set_option linter.unusedSimpArgs false
namespace Prog
open Wire PO

/-- the sharing key of `MaxSharing` at commitment time: the identity root, if the node has one -/
def commitKey (an : Array Annot) (i : Nat) : Option Nat :=
  match an[i]? with
  | some a => if a.unique then none else some a.ihr
  | none => none

/-- the check `is_shared_as::<MaxSharing>` as `decodeCommit` runs it -/
def sharedOk (plan : Plan) (an : Array Annot) : Bool :=
  ((walk (commitChildren plan) (commitKey an) (plan.size + 1) (plan.size - 1) ⟨#[], [], 0⟩).1.outs.toList.zip
    (walk (commitChildren plan) (fun i => some i) (plan.size + 1) (plan.size - 1) ⟨#[], [], 0⟩).1.outs.toList).all
    fun x => x.1.node == x.2.node

/-- **what an accepting run of `decodeCommit` went through** -/
theorem decodeCommit_inv (tb : Tables) (prog : List Bool) (p : Plan) (cm : Array Nat)
    (h : decodeCommit tb prog = .ok (p, cm)) :
    ∃ ns rest arrows an,
      decProgram tb.jc prog = .ok (ns, rest) ∧ closeOk rest = true ∧
      canonicalOk ns.toArray = true ∧ convert tb.nameOf ns.toArray = .ok p ∧
      infer tb.jetTy p true = .ok arrows ∧
      annots tb.jetCmr tb.jetCost p arrows (fun _ => none) = some an ∧
      sharedOk p an = true ∧ cmrs tb.jetCmr p = some cm := by
  unfold decodeCommit at h
  cases hp : decProgram tb.jc prog with
  | error e => rw [hp] at h; cases e <;> simp [bind, Except.bind, throw, throwThe, MonadExceptOf.throw] at h
  | ok x =>
    obtain ⟨ns, rest⟩ := x
    rw [hp] at h
    simp only [bind, Except.bind, pure, Except.pure, throw, throwThe, MonadExceptOf.throw] at h
    have hcl : closeOk rest = true := by
      cases hc : closeOk rest with
      | true => rfl
      | false => rw [hc] at h; simp at h
    simp only [hcl, Bool.not_true, Bool.false_eq_true, if_false] at h
    by_cases hz : ns.toArray.size = 0
    · simp [hz] at h
    rw [if_neg hz] at h
    have hcan : canonicalOk ns.toArray = true := by
      cases hc : canonicalOk ns.toArray with
      | true => rfl
      | false => rw [hc] at h; simp at h
    simp only [hcan, Bool.not_true, Bool.false_eq_true, if_false] at h
    cases hcv : convert tb.nameOf ns.toArray with
    | error e => rw [hcv] at h; cases h
    | ok plan =>
      rw [hcv] at h
      simp only at h
      cases hinf : infer tb.jetTy plan true with
      | ok arrows =>
        rw [hinf] at h
        simp only at h
        cases han : annots tb.jetCmr tb.jetCost plan arrows (fun _ => none) with
        | none => rw [han] at h; cases h
        | some an =>
          rw [han] at h
          simp only at h
          split at h
          · cases h
          rename_i hne
          have hsh : sharedOk plan an = true := by
            simp only [Bool.not_eq_true', Bool.not_eq_false] at hne
            exact hne
          cases hcm : cmrs tb.jetCmr plan with
          | none => rw [hcm] at h; cases h
          | some c =>
            rw [hcm] at h
            simp only [Except.ok.injEq, Prod.mk.injEq] at h
            obtain ⟨rfl, rfl⟩ := h
            exact ⟨ns, rest, arrows, an, rfl, hcl, hcan, hcv, hinf, han, hsh, hcm⟩
      | typeError => rw [hinf] at h; cases h
      | occurs => rw [hinf] at h; cases h
      | badPlan => rw [hinf] at h; cases h
      | fuel => rw [hinf] at h; cases h

/-- no node is a disconnect with both children (`disc a b` on the wire) -/
def noBinDisc (p : Plan) : Bool :=
  p.all fun nd => match nd with | .disconnect _ (some _) => false | _ => true

theorem noBinDisc_get (p : Plan) (h : noBinDisc p = true) (i a b : Nat) :
    p[i]? ≠ some (.disconnect a (some b)) := by
  intro e
  unfold noBinDisc at h
  rw [Array.all_eq_true] at h
  obtain ⟨hi, he⟩ := Array.getElem?_eq_some_iff.mp e
  have := h i hi
  rw [he] at this
  simp at this

variable {J : Type}

/-- the conversion facts from their sources -/
theorem decFacts0_mk (nameOf : J → String) (ns : List (WNode J)) (plan : Plan)
    (an : Array Annot) (hne : ns ≠ []) (hok : NodesOk 0 ns)
    (hcv : convert nameOf ns.toArray = .ok plan) (hansz : an.size = plan.size) :
    DecFacts0 nameOf ns.toArray plan an ∧ WellIdx (shapes ns.toArray) ∧
      0 < ns.toArray.size ∧ hiddenAt ns.toArray (ns.toArray.size - 1) = none := by
  obtain ⟨hsize, hnode, hroot, hdist⟩ := convert_spec nameOf ns.toArray plan hcv
  have hlen : 0 < ns.length := List.length_pos_iff.mpr hne
  have hw : WellIdx (shapes ns.toArray) := by
    intro i
    have := wellIdx_of_nodesOk ns 0 hok i
    simpa [shapes] using this
  refine ⟨⟨hsize, by rw [hansz, hsize], hnode, ?_, hdist⟩, hw, by simpa using hlen, hroot⟩
  intro i n hi
  have := ok_of_nodesOk ns 0 hok i n (by simpa using hi)
  simpa using this

/-- is node `i` of the wire list a hidden node -/
def hid (A : Array (WNode J)) (i : Nat) : Bool := (hiddenAt A i).isSome

theorem hid_false {A : Array (WNode J)} {i : Nat} : hid A i = false ↔ hiddenAt A i = none := by
  unfold hid; cases hiddenAt A i <;> simp

/-- the commitment-time children of a visible node are the visible wire children (no binary
disconnect), all earlier; a single child is visible, of two children one is -/
theorem commitChildren_wire {nameOf : J → String} {A : Array (WNode J)} {plan : Plan} {an : Array Annot}
    (F : DecFacts0 nameOf A plan an) (hnb : noBinDisc plan = true) (i : Nat) (hlt : i < A.size) :
    commitChildren plan i = (wireChildren A i).filter (fun c => !hid A c) ∧
    (∀ c ∈ wireChildren A i, c < i) ∧ (wireChildren A i).length ≤ 2 ∧
    (∀ c, wireChildren A i = [c] → hid A c = false) ∧
    (∀ l r, wireChildren A i = [l, r] → hid A l = false ∨ hid A r = false) := by
  obtain ⟨n, hA⟩ : ∃ n, A[i]? = some n := ⟨A[i], Array.getElem?_eq_getElem hlt⟩
  obtain ⟨nd, hp, hc⟩ := F.node i _ hA
  have spec := convNode_spec nameOf A _ nd hc
  have hok := F.ok i _ hA
  cases n <;> simp only [WNode.Ok] at spec hok
  all_goals try (simp [commitChildren, wireChildren, hA, hp, spec, Node.children, hid, hok]; done)
  · -- case
    rename_i a b
    rcases spec with ⟨rfl, ha, hb⟩ | ⟨r, rfl, ha, hb⟩ | ⟨r, rfl, ha, hb⟩ <;>
      simp [commitChildren, wireChildren, hA, hp, Node.children, hid, hok, ha, hb]
  · -- disc
    rename_i a b
    exact absurd (spec.1 ▸ hp) (noBinDisc_get plan hnb i a b)

theorem hid_leaf {A : Array (WNode J)} {e : Nat} (h : hid A e = true) : wireChildren A e = [] := by
  unfold hid at h
  obtain ⟨x, hx⟩ := Option.isSome_iff_exists.mp h
  obtain ⟨r, hr, _⟩ := hiddenAt_some hx
  simp [wireChildren, hr]

/-- the decoder's wire DAG (pointer sharing) against the commitment-time DAG of the converted plan
(pointer sharing): the hidden nodes are skipped -/
theorem skip_wire {nameOf : J → String} {A : Array (WNode J)} {plan : Plan} {an : Array Annot}
    (F : DecFacts0 nameOf A plan an) (hnb : noBinDisc plan = true) :
    SkipHyp (K1 := Nat) (K2 := Nat) (fun i => i) (fun i => i < A.size ∧ hid A i = false) (hid A)
      (commitChildren plan) (wireChildren A) (fun i => some i) (fun i => some i)
      (fun i => i) (fun i => i) where
  ch := fun t ht => by rw [(commitChildren_wire F hnb t ht.1).1]; simp
  len := fun t ht => (commitChildren_wire F hnb t ht.1).2.2.1
  notE := fun t ht => ht.2
  closed := fun t ht c hc hE => ⟨by have := (commitChildren_wire F hnb t ht.1).2.1 c hc; omega, hE⟩
  one := fun t ht => (commitChildren_wire F hnb t ht.1).2.2.2.1
  two := fun t ht => (commitChildren_wire F hnb t ht.1).2.2.2.2
  leaf := fun e he => hid_leaf he
  isSome := fun _ _ => rfl
  inj := by
    intro t t' _ _ k1 k1' k2 k2' h1 h1' h2 h2'
    cases h1; cases h1'; cases h2; cases h2'; exact Iff.rfl
  ekey := by
    intro e t he ht k hk hk'
    cases hk
    cases hk'
    rw [he] at ht; cases ht.2
  rk1 := fun t ht c hc _ => (commitChildren_wire F hnb t ht.1).2.1 c hc
  rk2 := fun t ht c hc => (commitChildren_wire F hnb t ht.1).2.1 c hc

/-- the items of the accepted wire walk are the nodes `0, 1, …` in order -/
theorem wire_walk_nodes (A : Array (WNode J)) (hw : WellIdx (shapes A)) (hne : 0 < A.size)
    (hc : canonicalOk A = true) :
    (walk (wireChildren A) (fun i => some i) (A.size + 1) (A.size - 1) ⟨#[], [], 0⟩).1.outs.toList.map (·.node)
      = List.range A.size := by
  obtain ⟨hsz, hit⟩ := canonicalOk_outs A hw hne hc
  apply List.ext_getElem?
  intro i
  rw [List.getElem?_map]
  by_cases hi : i < A.size
  · have hi' : i < (walk (wireChildren A) (fun i => some i) (A.size + 1) (A.size - 1)
        ⟨#[], [], 0⟩).1.outs.toList.length := by simpa [hsz] using hi
    rw [List.getElem?_eq_getElem hi', List.getElem?_range hi]
    simp only [Option.map_some, Option.some.injEq]
    exact (hit i _ (List.getElem?_eq_getElem hi')).1
  · have hi' : (walk (wireChildren A) (fun i => some i) (A.size + 1) (A.size - 1)
        ⟨#[], [], 0⟩).1.outs.toList.length ≤ i := by simp only [Array.length_toList]; omega
    rw [List.getElem?_eq_none hi', List.getElem?_eq_none (by simp only [List.length_range]; omega)]; rfl

/-- **the pointer walk of the sharing check** yields the visible nodes in index order -/
theorem commit_ptr_nodes {nameOf : J → String} {A : Array (WNode J)} {plan : Plan} {an : Array Annot}
    (F : DecFacts0 nameOf A plan an) (hnb : noBinDisc plan = true) (hw : WellIdx (shapes A))
    (hne : 0 < A.size) (hroot : hiddenAt A (A.size - 1) = none) (hc : canonicalOk A = true) :
    (walk (commitChildren plan) (fun i => some i) (plan.size + 1) (plan.size - 1)
      ⟨#[], [], 0⟩).1.outs.toList.map (·.node) = (List.range A.size).filter (fun c => !hid A c) := by
  rw [F.size]
  have hs := walk_skip (skip_wire F hnb) (A.size + 1) (A.size + 1) (A.size - 1) ⟨#[], [], 0⟩ ⟨#[], [], 0⟩
    ⟨by omega, hid_false.mpr hroot⟩ (by omega) (by omega)
    ⟨by simp, fun _ _ _ _ _ _ => rfl⟩
  have := hs.nodes
  rw [wire_walk_nodes A hw hne hc] at this
  simpa using this

/-- without a binary disconnect the encoder's DAG is the same in both modes -/
theorem encChildren_false_eq (p : Plan) (hnb : noBinDisc p = true) (t : Nat) :
    encChildren p false t = encChildren p true t := by
  unfold encChildren
  split
  · rfl
  · cases hp : p[t / 2]? with
    | none => rfl
    | some nd =>
      cases nd
      case disconnect a b =>
        cases b with
        | none => rfl
        | some b => exact absurd hp (noBinDisc_get p hnb _ a b)
      all_goals rfl

/-- the encoder's children of a plan node at commitment time: at most two, a single child is a plan
node, of two children one is, and the plan-node children are the commitment-time children -/
theorem encChildren_commit (p : Plan) (i : Nat) :
    (encChildren p false (2 * i)).length ≤ 2 ∧
    (∀ c, encChildren p false (2 * i) = [c] → decide (c % 2 = 1) = false) ∧
    (∀ l r, encChildren p false (2 * i) = [l, r] → decide (l % 2 = 1) = false ∨ decide (r % 2 = 1) = false) ∧
    commitChildren p i = ((encChildren p false (2 * i)).filter (fun c => !decide (c % 2 = 1))).map (· / 2) := by
  unfold encChildren commitChildren
  rw [two_mul_mod, two_mul_div]
  simp only [show ¬ (0 = 1) by omega, if_false]
  cases hp : p[i]? with
  | none => simp
  | some nd =>
    cases nd
    case disconnect a b => cases b <;> simp [Node.children, two_mul_mod, two_mul_div]
    all_goals simp [Node.children, two_mul_mod, two_mul_div, two_mul_succ_mod, Nat.add_mod]

theorem encKey_even_false (p : Plan) (an : Array Annot) (i : Nat) :
    encKey p an false (2 * i) = (commitKey an i).map (fun k => (false, k)) := by
  unfold encKey commitKey
  rw [two_mul_mod, two_mul_div]
  simp only [show ¬ (0 = 1) by omega, if_false]
  cases an[i]? with
  | none => rfl
  | some a => cases hu : a.unique <;> simp [hu]

theorem encKey_odd_fst (p : Plan) (an : Array Annot) (b : Bool) (e : Nat) (he : e % 2 = 1) (k : Bool × Nat)
    (h : encKey p an b e = some k) : k.1 = true := by
  unfold encKey at h
  rw [if_pos he] at h
  split at h
  · cases h; rfl
  · cases h; rfl
  · cases h

theorem encKey_odd_mode (p : Plan) (an : Array Annot) (b : Bool) (e : Nat) (he : e % 2 = 1) :
    encKey p an b e = encKey p an true e := by
  unfold encKey
  rw [if_pos he, if_pos he]

/-- the plan nodes of the encoder's DAG -/
def EncDE (A : Array (WNode J)) (t : Nat) : Prop := t % 2 = 0 ∧ t / 2 < A.size ∧ hiddenAt A (t / 2) = none

/-- the encoder's DAG at commitment time (identity-root sharing) against the commitment-time DAG of
the plan under `MaxSharing`: the hidden pseudo-nodes are skipped -/
theorem skip_enc {nameOf : J → String} {A : Array (WNode J)} {plan : Plan} {an : Array Annot}
    (F : DecFacts0 nameOf A plan an) (hnb : noBinDisc plan = true) :
    SkipHyp (· / 2) (EncDE A) (fun c => decide (c % 2 = 1))
      (commitChildren plan) (encChildren plan false) (commitKey an) (encKey plan an false)
      (fun i => i) (fun t => if t % 2 = 0 then t + 1 else t - 1) where
  ch := by
    intro t ht
    obtain ⟨i, rfl⟩ : ∃ i, t = 2 * i := ⟨t / 2, by have := ht.1; omega⟩
    rw [two_mul_div]; exact (encChildren_commit plan i).2.2.2
  len := by
    intro t ht
    obtain ⟨i, rfl⟩ : ∃ i, t = 2 * i := ⟨t / 2, by have := ht.1; omega⟩
    exact (encChildren_commit plan i).1
  notE := fun t ht => by simp [ht.1]
  closed := by
    intro t ht c hc hE
    rw [encChildren_false_eq plan hnb] at hc
    rcases (enc_closed F t (.inl ht) c hc).1 with h | h
    · exact h
    · simp [h.1] at hE
  one := by
    intro t ht
    obtain ⟨i, rfl⟩ : ∃ i, t = 2 * i := ⟨t / 2, by have := ht.1; omega⟩
    exact (encChildren_commit plan i).2.1
  two := by
    intro t ht
    obtain ⟨i, rfl⟩ : ∃ i, t = 2 * i := ⟨t / 2, by have := ht.1; omega⟩
    exact (encChildren_commit plan i).2.2.1
  leaf := by
    intro e he
    have : e % 2 = 1 := by simpa using he
    simp [encChildren, this]
  isSome := by
    intro t ht
    obtain ⟨i, rfl⟩ : ∃ i, t = 2 * i := ⟨t / 2, by have := ht.1; omega⟩
    simp only [two_mul_div]
    rw [encKey_even_false]; simp
  inj := by
    intro t t' ht ht' k1 k1' k2 k2' h1 h1' h2 h2'
    obtain ⟨i, rfl⟩ : ∃ i, t = 2 * i := ⟨t / 2, by have := ht.1; omega⟩
    obtain ⟨i', rfl⟩ : ∃ i, t' = 2 * i := ⟨t' / 2, by have := ht'.1; omega⟩
    simp only [two_mul_div] at h1 h1'
    rw [encKey_even_false, h1] at h2
    rw [encKey_even_false, h1'] at h2'
    cases h2; cases h2'
    simp
  ekey := by
    intro e t he ht k hk hk'
    obtain ⟨i, rfl⟩ : ∃ i, t = 2 * i := ⟨t / 2, by have := ht.1; omega⟩
    have h1 := encKey_odd_fst plan an false e (by simpa using he) k hk'
    rw [encKey_even_false] at hk
    cases hc : commitKey an i with
    | none => rw [hc] at hk; cases hk
    | some x => rw [hc] at hk; cases hk; cases h1
  rk1 := by
    intro t ht c hc hE
    rw [encChildren_false_eq plan hnb] at hc
    have h := enc_closed F t (.inl ht) c hc
    have hce : c % 2 = 0 := by simpa using hE
    have := h.2.1
    unfold encPhi at this
    rw [if_pos hce, if_pos ht.1] at this
    exact this
  rk2 := by
    intro t ht c hc
    rw [encChildren_false_eq plan hnb] at hc
    exact (enc_closed F t (.inl ht) c hc).2.2

/-- **the identity-root walk of the sharing check** yields the plan nodes of the encoder's walk, in
the same order -/
theorem commit_key_nodes {nameOf : J → String} {A : Array (WNode J)} {plan : Plan} {an : Array Annot}
    (F : DecFacts0 nameOf A plan an) (hnb : noBinDisc plan = true)
    (hne : 0 < A.size) (hroot : hiddenAt A (A.size - 1) = none) :
    (walk (commitChildren plan) (commitKey an) (plan.size + 1) (plan.size - 1)
      ⟨#[], [], 0⟩).1.outs.toList.map (·.node) =
    (((walk (encChildren plan false) (encKey plan an false) (2 * plan.size + 2) (2 * (plan.size - 1))
      ⟨#[], [], 0⟩).1.outs.toList.map (·.node)).filter (fun c => !decide (c % 2 = 1))).map (· / 2) := by
  rw [F.size]
  have hD : EncDE A (2 * (A.size - 1)) := by
    refine ⟨two_mul_mod _, ?_, ?_⟩ <;> rw [two_mul_div]
    · omega
    · exact hroot
  have hs := walk_skip (skip_enc F hnb) (2 * A.size + 2) (A.size + 1) (2 * (A.size - 1)) ⟨#[], [], 0⟩ ⟨#[], [], 0⟩
    hD (by simp only [two_mul_div]; omega) (by simp only [two_mul_mod, if_true]; omega)
    ⟨by simp, fun _ _ _ _ _ _ => rfl⟩
  have := hs.nodes
  simp only [two_mul_div] at this
  exact this

/-- the identity root of the root node is not the identity root of another visible node (it could
only be by a cycle of SHA-256: every other node is a proper sub-expression of the root) -/
def rootFresh (p : Plan) (an : Array Annot) : Bool :=
  (List.range (p.size - 1)).all fun i =>
    match p[i]? with
    | some (.hidden _) => true
    | _ =>
      match commitKey an i, commitKey an (p.size - 1) with
      | some k, some r => k != r
      | _, _ => true

theorem rootFresh_spec {nameOf : J → String} {A : Array (WNode J)} {plan : Plan} {an : Array Annot}
    (F : DecFacts0 nameOf A plan an) (hf : rootFresh plan an = true) (x : Nat) (hx : x < A.size - 1)
    (hv : hid A x = false) (k : Nat) (hk : commitKey an x = some k) :
    commitKey an (A.size - 1) ≠ some k := by
  intro hr
  unfold rootFresh at hf
  rw [List.all_eq_true] at hf
  have := hf x (List.mem_range.mpr (by rw [F.size]; exact hx))
  obtain ⟨n, hA⟩ : ∃ n, A[x]? = some n := ⟨A[x]'(by omega), Array.getElem?_eq_getElem _⟩
  obtain ⟨nd, hp, hc⟩ := F.node x n hA
  have hnh : ∀ y, nd ≠ .hidden y := by
    refine conv_not_hidden nameOf A n nd hc ?_
    intro r hr'
    subst hr'
    have := hid_false.mp hv
    rw [hiddenAt_hidden hA] at this; cases this
  rw [hp, F.size, hk, hr] at this
  cases nd <;> first | exact absurd rfl (hnh _) | (simp at this)

/-- two lists that both end with `r`, contain `r` nowhere else and agree wherever both have an
element, are equal -/
theorem eq_of_zip_last (r : Nat) : ∀ (a b : List Nat), (∀ x ∈ a, x ≠ r) → (∀ y ∈ b, y ≠ r) →
    ((a ++ [r]).zip (b ++ [r])).all (fun p => p.1 == p.2) = true → a = b := by
  intro a
  induction a with
  | nil =>
    intro b _ hb h
    cases b with
    | nil => rfl
    | cons y b' =>
      simp only [List.nil_append, List.cons_append, List.zip_cons_cons, List.all_cons, Bool.and_eq_true,
        beq_iff_eq] at h
      exact absurd h.1.symm (hb y (by simp))
  | cons x a' ih =>
    intro b ha hb h
    cases b with
    | nil =>
      simp only [List.nil_append, List.cons_append, List.zip_cons_cons, List.all_cons, Bool.and_eq_true,
        beq_iff_eq] at h
      exact absurd h.1 (ha x (by simp))
    | cons y b' =>
      simp only [List.cons_append, List.zip_cons_cons, List.all_cons, Bool.and_eq_true, beq_iff_eq] at h
      rw [h.1, ih b' (fun z hz => ha z (by simp [hz])) (fun z hz => hb z (by simp [hz])) h.2]

/-- **what the sharing check establishes**: if it passes and the root's identity root is fresh, the
identity-root walk yields exactly the nodes of the pointer walk — the visible nodes in index order -/
theorem commit_key_eq_ptr {nameOf : J → String} {A : Array (WNode J)} {plan : Plan} {an : Array Annot}
    (F : DecFacts0 nameOf A plan an) (hnb : noBinDisc plan = true) (hw : WellIdx (shapes A))
    (hne : 0 < A.size) (hroot : hiddenAt A (A.size - 1) = none) (hc : canonicalOk A = true)
    (hf : rootFresh plan an = true) (hsh : sharedOk plan an = true) :
    (walk (commitChildren plan) (commitKey an) (plan.size + 1) (plan.size - 1)
      ⟨#[], [], 0⟩).1.outs.toList.map (·.node) = (List.range A.size).filter (fun c => !hid A c) := by
  rw [← commit_ptr_nodes F hnb hw hne hroot hc]
  unfold sharedOk at hsh
  rw [F.size] at hsh ⊢
  -- both walks end with the root, which occurs nowhere else
  let P : Nat → Prop := fun x => x < A.size - 1 ∧ hid A x = false
  have hcl : ∀ t, P t → ∀ c ∈ commitChildren plan t, P c := by
    intro t ht c hcm
    have h := commitChildren_wire F hnb t (by have := ht.1; omega)
    rw [h.1] at hcm
    obtain ⟨h1, h2⟩ := List.mem_filter.mp hcm
    exact ⟨by have := h.2.1 c h1; have := ht.1; omega, by simpa using h2⟩
  have hch : ∀ c ∈ commitChildren plan (A.size - 1), P c := by
    intro c hcm
    have h := commitChildren_wire F hnb (A.size - 1) (by omega)
    rw [h.1] at hcm
    obtain ⟨h1, h2⟩ := List.mem_filter.mp hcm
    exact ⟨h.2.1 c h1, by simpa using h2⟩
  obtain ⟨pre1, l1, e1, hl1, hp1⟩ := walk_root_last (commitChildren plan) (commitKey an) P hcl A.size
    (A.size - 1) hch (fun x hx k hk => rootFresh_spec F hf x hx.1 hx.2 k hk)
  obtain ⟨pre2, l2, e2, hl2, hp2⟩ := walk_root_last (commitChildren plan) (fun i => some i) P hcl A.size
    (A.size - 1) hch (fun x hx k hk e => by cases hk; cases e; exact absurd hx.1 (by omega))
  rw [e1, e2] at hsh ⊢
  have hz : ((pre1.map (·.node) ++ [A.size - 1]).zip (pre2.map (·.node) ++ [A.size - 1])).all
      (fun p => p.1 == p.2) = true := by
    have e : ∀ (u v : List WOut), ((u.map (·.node)).zip (v.map (·.node))).all (fun p => p.1 == p.2) =
        (u.zip v).all (fun x => x.1.node == x.2.node) := by
      intro u v
      rw [List.zip_map, List.all_map]; rfl
    have := e (pre1 ++ [l1]) (pre2 ++ [l2])
    rw [hsh] at this
    simpa [hl1, hl2] using this
  have := eq_of_zip_last (A.size - 1) (pre1.map (·.node)) (pre2.map (·.node))
    (by intro x hx; obtain ⟨o, ho, rfl⟩ := List.mem_map.mp hx; have := (hp1 o ho).1; omega)
    (by intro x hx; obtain ⟨o, ho, rfl⟩ := List.mem_map.mp hx; have := (hp2 o ho).1; omega) hz
  simp [this, hl1, hl2]

end Prog
