/-
Bridge for C02/C01: the index-based post-order walk the driver runs (`Prog.walk`, used by the
decoder's canonical-order check, the encoder and the commit-time sharing check) is the recursive
walk `PO.visit` on the tree unfolding `PO.U` of the index DAG — the specification that C18 proves
equal to the explicit-stack `PostOrderIter` and that the canonical-order theorems are about.
-/
import SimplicityModel.Prog.Codec
import SimplicityModel.Canon

namespace Prog
open PO Wire

variable {K : Type} [DecidableEq K]

/-- children of node `i` of a shape list -/
def chOfSh (ns : List Sh) (i : Nat) : List Nat :=
  match ns[i]? with
  | some (.un j) => [j]
  | some (.bin j k) => [j, k]
  | _ => []

/-- the tracker map of the list-based state -/
def seenF (s : SeenL K) : Seen K := fun k => seenLook s k

def toW (o : Out) : WOut := ⟨o.node.id, o.index, o.lidx, o.ridx⟩

/-- the key of a tree handle is the key of its index -/
def keyT (key : Nat → Option K) : T → Option K := fun t => key t.id

/-- the list-based state `s` represents the `visit` state `(outs, seen, idx)` reached from `st` -/
structure Rep (st s : WalkSt K) (outs : List Out) (seen : Seen K) (idx : Nat) : Prop where
  outs : s.outs = st.outs ++ (outs.map toW).toArray
  seen : seenF s.seen = seen
  idx : s.idx = idx

theorem seenF_cons (s : SeenL K) (k : K) (i : Nat) :
    seenF ((k, i) :: s) = fun k' => if k' = k then some i else seenF s k' := by
  funext k'
  unfold seenF seenLook
  by_cases h : k = k'
  · subst h; simp
  · have h' : ¬ k' = k := fun e => h e.symm
    simp [List.find?_cons, h, h']

/-- the final step of `walk` (record, maybe yield) is the final step of `visit` -/
theorem fin_rep (key : Nat → Option K) (t : Nat) (tt : T) (hid : tt.id = t)
    (li ri : Option Nat) (st s : WalkSt K) (outs : List Out) (seen : Seen K) (idx : Nat)
    (h : Rep st s outs seen idx) :
    let r := visit.fin (keyT key) tt li ri outs seen idx
    let w : WalkSt K × Nat :=
      match key t with
      | none => ({ s with outs := s.outs.push ⟨t, s.idx, li, ri⟩, idx := s.idx + 1 }, s.idx)
      | some k =>
        match seenLook s.seen k with
        | some i => (s, i)
        | none => ({ outs := s.outs.push ⟨t, s.idx, li, ri⟩, seen := (k, s.idx) :: s.seen, idx := s.idx + 1 }, s.idx)
    Rep st w.1 r.1 r.2.1 r.2.2.1 ∧ w.2 = r.2.2.2 := by
  intro r w
  have hk : keyT key tt = key t := by simp [keyT, hid]
  simp only [r, w, visit.fin, record, hk]
  cases hkt : key t with
  | none =>
    simp only []
    refine ⟨⟨?_, h.seen, by simp [h.idx]⟩, h.idx⟩
    simp [h.outs, h.idx, toW, hid, Array.push, List.map_append]
  | some k =>
    have hs : seenLook s.seen k = seen k := by rw [← h.seen]; rfl
    simp only [hs]
    cases hsk : seen k with
    | some i => exact ⟨⟨h.outs, h.seen, h.idx⟩, rfl⟩
    | none =>
      simp only []
      refine ⟨⟨?_, ?_, by simp [h.idx]⟩, h.idx⟩
      · simp [h.outs, h.idx, toW, hid, Array.push, List.map_append]
      · rw [seenF_cons, h.seen, h.idx]

/-- **the index walk is the tree walk** -/
theorem walk_eq_visit (ns : List Sh) (hw : WellIdx ns) (key : Nat → Option K) :
    ∀ (n t f : Nat) (st : WalkSt K), t ≤ n → t < f →
      let r := visit (keyT key) (U ns t) (seenF st.seen) st.idx
      let w := walk (chOfSh ns) key f t st
      Rep st w.1 r.1 r.2.1 r.2.2.1 ∧ w.2 = r.2.2.2 := by
  intro n
  induction n with
  | zero =>
    intro t f st ht hf
    have : t = 0 := by omega
    subst this
    obtain ⟨f', rfl⟩ : ∃ f', f = f' + 1 := ⟨f - 1, by omega⟩
    intro r w
    have hU := U_eq ns hw 0
    have h0 := hw 0
    have base : Rep st st [] (seenF st.seen) st.idx := ⟨by simp, rfl, rfl⟩
    cases hn : ns[0]? with
    | none =>
      simp only [hn] at hU
      simp only [r, w, hU, visit, walk, chOfSh, hn]
      exact fin_rep key 0 (.leaf 0) rfl none none st st [] _ _ base
    | some s =>
      cases s with
      | leaf =>
        simp only [hn] at hU
        simp only [r, w, hU, visit, walk, chOfSh, hn]
        exact fin_rep key 0 (.leaf 0) rfl none none st st [] _ _ base
      | un j => exact absurd (h0.1 j hn) (by omega)
      | bin j k => exact absurd (h0.2 j k hn).1 (by omega)
  | succ n ih =>
    intro t f st ht hf
    obtain ⟨f', rfl⟩ : ∃ f', f = f' + 1 := ⟨f - 1, by omega⟩
    intro r w
    have hU := U_eq ns hw t
    have base : Rep st st [] (seenF st.seen) st.idx := ⟨by simp, rfl, rfl⟩
    have hbef : ∀ (c : Nat) (s : WalkSt K),
        (key c).bind (seenLook s.seen) = seenBefore (keyT key) (seenF s.seen) (U ns c) := by
      intro c s; simp only [seenBefore, keyT, U_id]; rfl
    cases hn : ns[t]? with
    | none =>
      simp only [hn] at hU
      simp only [r, w, hU, visit, walk, chOfSh, hn]
      exact fin_rep key t (.leaf t) rfl none none st st [] _ _ base
    | some s =>
      cases s with
      | leaf =>
        simp only [hn] at hU
        simp only [r, w, hU, visit, walk, chOfSh, hn]
        exact fin_rep key t (.leaf t) rfl none none st st [] _ _ base
      | un j =>
        have hj : j < t := (hw t).1 j hn
        simp only [hn] at hU
        simp only [r, w, hU, visit, walk, chOfSh, hn, hbef]
        cases hb : seenBefore (keyT key) (seenF st.seen) (U ns j) with
        | some i =>
          simp only []
          exact fin_rep key t (.un t (U ns j)) rfl (some i) none st st [] _ _ base
        | none =>
          simp only []
          obtain ⟨hr, hi⟩ := ih j f' st (by omega) (by omega)
          rw [hi]
          exact fin_rep key t (.un t (U ns j)) rfl
            (some (visit (keyT key) (U ns j) (seenF st.seen) st.idx).2.2.2) none st
            (walk (chOfSh ns) key f' j st).1
            (visit (keyT key) (U ns j) (seenF st.seen) st.idx).1
            (visit (keyT key) (U ns j) (seenF st.seen) st.idx).2.1
            (visit (keyT key) (U ns j) (seenF st.seen) st.idx).2.2.1 hr
      | bin j k =>
        have hjk := (hw t).2 j k hn
        simp only [hn] at hU
        simp only [r, w, hU, visit, walk, chOfSh, hn, hbef]
        cases hbj : seenBefore (keyT key) (seenF st.seen) (U ns j) with
        | some li =>
          cases hbk : seenBefore (keyT key) (seenF st.seen) (U ns k) with
          | some ri =>
            simp only []
            exact fin_rep key t (.bin t (U ns j) (U ns k)) rfl (some li) (some ri) st st [] _ _ base
          | none =>
            simp only []
            obtain ⟨hr, hi⟩ := ih k f' st (by omega) (by omega)
            rw [hi]
            exact fin_rep key t (.bin t (U ns j) (U ns k)) rfl (some li)
              (some (visit (keyT key) (U ns k) (seenF st.seen) st.idx).2.2.2) st
              (walk (chOfSh ns) key f' k st).1
              (visit (keyT key) (U ns k) (seenF st.seen) st.idx).1
              (visit (keyT key) (U ns k) (seenF st.seen) st.idx).2.1
              (visit (keyT key) (U ns k) (seenF st.seen) st.idx).2.2.1 hr
        | none =>
          cases hbk : seenBefore (keyT key) (seenF st.seen) (U ns k) with
          | some ri =>
            simp only []
            obtain ⟨hr, hi⟩ := ih j f' st (by omega) (by omega)
            rw [hi]
            exact fin_rep key t (.bin t (U ns j) (U ns k)) rfl
              (some (visit (keyT key) (U ns j) (seenF st.seen) st.idx).2.2.2) (some ri) st
              (walk (chOfSh ns) key f' j st).1
              (visit (keyT key) (U ns j) (seenF st.seen) st.idx).1
              (visit (keyT key) (U ns j) (seenF st.seen) st.idx).2.1
              (visit (keyT key) (U ns j) (seenF st.seen) st.idx).2.2.1 hr
          | none =>
            simp only []
            obtain ⟨hr1, hi1⟩ := ih j f' st (by omega) (by omega)
            obtain ⟨hr2, hi2⟩ := ih k f' (walk (chOfSh ns) key f' j st).1 (by omega) (by omega)
            rw [hi1, hi2, hr1.seen, hr1.idx]
            have hr : Rep st (walk (chOfSh ns) key f' k (walk (chOfSh ns) key f' j st).1).1
                ((visit (keyT key) (U ns j) (seenF st.seen) st.idx).1 ++
                  (visit (keyT key) (U ns k) (visit (keyT key) (U ns j) (seenF st.seen) st.idx).2.1
                    (visit (keyT key) (U ns j) (seenF st.seen) st.idx).2.2.1).1)
                (visit (keyT key) (U ns k) (visit (keyT key) (U ns j) (seenF st.seen) st.idx).2.1
                    (visit (keyT key) (U ns j) (seenF st.seen) st.idx).2.2.1).2.1
                (visit (keyT key) (U ns k) (visit (keyT key) (U ns j) (seenF st.seen) st.idx).2.1
                    (visit (keyT key) (U ns j) (seenF st.seen) st.idx).2.2.1).2.2.1 := by
              refine ⟨?_, ?_, ?_⟩
              · rw [hr2.outs, hr1.outs, hr1.seen, hr1.idx]
                simp [List.map_append, Array.append_assoc]
              · rw [hr2.seen, hr1.seen, hr1.idx]
              · rw [hr2.idx, hr1.seen, hr1.idx]
            exact fin_rep key t (.bin t (U ns j) (U ns k)) rfl _ _ st _ _ _ _ hr

/-! ### the decoder's canonical-order check, stated on the tree walk -/

/-- shape of a wire node -/
def shOfW {J : Type} : WNode J → Sh
  | .injl c | .injr c | .take c | .drop c | .disc1 c => .un c
  | .comp a b | .case a b | .pair a b | .disc a b => .bin a b
  | _ => .leaf

def shapes {J : Type} (ns : Array (WNode J)) : List Sh := ns.toList.map shOfW

theorem chOfSh_shapes {J : Type} (ns : Array (WNode J)) : chOfSh (shapes ns) = wireChildren ns := by
  funext i
  unfold chOfSh wireChildren shapes
  rw [List.getElem?_map, Array.getElem?_toList]
  cases h : ns[i]? with
  | none => rfl
  | some w => cases w <;> rfl

/-- backward references (what the node-list decoder guarantees) make the shape list well indexed -/
theorem wellIdx_of_nodesOk {J : Type} : ∀ (l : List (WNode J)) (start : Nat), NodesOk start l →
    ∀ (i : Nat), (∀ j, (l.map shOfW)[i]? = some (Sh.un j) → j < start + i) ∧
      (∀ j k, (l.map shOfW)[i]? = some (Sh.bin j k) → j < start + i ∧ k < start + i)
  | [], _, _, i => by simp
  | w :: l, start, h, 0 => by
    have h1 : w.Ok start := h.1
    cases w <;> simp_all [shOfW, WNode.Ok]
  | w :: l, start, h, i + 1 => by
    have := wellIdx_of_nodesOk l (start + 1) h.2 i
    simp only [List.map_cons, List.getElem?_cons_succ]
    have e : start + 1 + i = start + (i + 1) := by omega
    rw [e] at this
    exact this

theorem seenF_nil : seenF ([] : SeenL K) = fun _ => none := by
  funext k; rfl

/-- **C02, the check the decoder runs is the specification's check**: when `canonicalOk` accepts a
node list with backward references, the pointer-sharing post-order walk (the recursive `PO.visit`,
proved equal to the explicit-stack iterator in C18) from the last node yields item `i` at node `i`,
for every `i` — the hypothesis of `canonical_reencode` and `canonical_all_used`. -/
theorem canonicalOk_visit {J : Type} (ns : Array (WNode J)) (hw : WellIdx (shapes ns))
    (hc : canonicalOk ns = true) :
    ∀ (i : Nat) (o : Out),
      (visit ptr (U (shapes ns) (ns.size - 1)) (fun _ => none) 0).1[i]? = some o → o.node.id = i := by
  intro i o ho
  have hb := walk_eq_visit (K := Nat) (shapes ns) hw (fun i => some i) (ns.size - 1) (ns.size - 1)
    (ns.size + 1) ⟨#[], [], 0⟩ (Nat.le_refl _) (by omega)
  simp only [] at hb
  have hk : keyT (fun i => some i) = ptr := rfl
  rw [hk, seenF_nil, chOfSh_shapes] at hb
  obtain ⟨hrep, _⟩ := hb
  obtain ⟨hinv, _, _⟩ := visit_root ptr (U (shapes ns) (ns.size - 1))
  have hidx := hinv.idx i o ho
  unfold canonicalOk at hc
  simp only [Bool.and_eq_true, List.all_eq_true, beq_iff_eq] at hc
  have houts := hrep.outs
  have hmem : toW o ∈ (walk (wireChildren ns) (fun i => some i) (ns.size + 1) (ns.size - 1)
      ⟨#[], [], 0⟩).1.outs.toList := by
    rw [houts]
    simp only [Array.toList_append, List.toList_toArray, Array.toList_empty, List.nil_append]
    exact List.mem_map.mpr ⟨o, List.mem_of_getElem? ho, rfl⟩
  have := hc.2 _ hmem
  simp only [toW] at this
  omega

/-- … hence every node of an accepted list is used … -/
theorem canonicalOk_all_used {J : Type} (ns : Array (WNode J)) (hw : WellIdx (shapes ns))
    (hc : canonicalOk ns = true) :
    (visit ptr (U (shapes ns) (ns.size - 1)) (fun _ => none) 0).1.length = ns.size - 1 + 1 :=
  canonical_all_used (shapes ns) hw (ns.size - 1) (canonicalOk_visit ns hw hc)

/-- … and re-encoding the walk's items gives back exactly the node list's shapes and references -/
theorem canonicalOk_reencode {J : Type} (ns : Array (WNode J)) (hw : WellIdx (shapes ns))
    (hc : canonicalOk ns = true) :
    ∀ (i : Nat) (o : Out),
      (visit ptr (U (shapes ns) (ns.size - 1)) (fun _ => none) 0).1[i]? = some o →
        ((shapes ns)[i]?).getD Sh.leaf = o.shape :=
  canonical_reencode (shapes ns) hw (ns.size - 1) (canonicalOk_visit ns hw hc)

#print axioms walk_eq_visit
#print axioms canonicalOk_visit

end Prog
