/-
A concrete program byte string with a *binary* disconnect node that `Prog.decodeCommit` accepts and
whose commit-mode re-encoding is a different byte string (C02: the hypothesis `noBinDisc` of
`decodeCommit_canonical` is necessary).  The program is `comp (disconnect witness unit) unit` with
the `unit` node shared: wire list `[witness, unit, disc 0 1, comp 2 1]`.  Only `unit` has an
identity root at commitment time, so no SHA-256 value has to be evaluated.
-/
import SimplicityModel.Prog.CommitEnc
import SimplicityModel.Prog.JetsElements
import SimplicityModel.Prog.JetsElementsProps
namespace Prog.CommitExample
open Prog Wire

def T : Tables := ⟨JetsE.J, JetsE.jc, JetsE.nameOf, JetsE.ofName, JetsE.jetTy, JetsE.jetCmr, JetsE.jetCost⟩

def bd : Plan := #[Node.witness, Node.unit, Node.disconnect 0 (some 1), Node.comp 2 1]
def bdN : List (WNode JetsE.J) := [.witness, .unit, .disc 0 1, .comp 2 1]
def bdArrows : Array (BM4.Ty × BM4.Ty) :=
  #[(.prod (wordTy 8) .one, .prod .one (.prod .one .one)), (.prod .one .one, .one),
    (.one, .prod .one .one), (.one, .one)]

theorem tyOfInf_eval_tmOfTy (ρ : Nat → Inf.Ty) (t : BM4.Ty) : tyOfInf ((tmOfTy t).eval ρ) = t := by
  induction t with
  | one => rfl
  | sum a b iha ihb => simp [tmOfTy, Inf.Tm.eval, tyOfInf, iha, ihb]
  | prod a b iha ihb => simp [tmOfTy, Inf.Tm.eval, tyOfInf, iha, ihb]

theorem bd_infer : infer JetsE.jetTy bd true = .ok bdArrows := by
  have hc : constraints JetsE.jetTy bd true =
      some [(.var 3, .one), (.var 0, .prod (tmOfTy (wordTy 8)) (.var 8)), (.var 1, .prod (.var 9) (.var 2)),
        (.var 4, .var 8), (.var 5, .prod (.var 9) (.var 3)), (.var 5, .var 2), (.var 6, .var 4),
        (.var 7, .var 3), (.var 6, .one), (.var 7, .one)] := by rfl
  have hu : ∀ n, Inf.unify (n + 11)
      [(.var 3, .one), (.var 0, .prod (tmOfTy (wordTy 8)) (.var 8)), (.var 1, .prod (.var 9) (.var 2)),
        (.var 4, .var 8), (.var 5, .prod (.var 9) (.var 3)), (.var 5, .var 2), (.var 6, .var 4),
        (.var 7, .var 3), (.var 6, .one), (.var 7, .one)] [] =
      .ok [(8, .one), (7, .one), (6, .one), (2, .prod (.var 9) .one), (5, .prod (.var 9) .one), (4, .one),
        (1, .prod (.var 9) (.prod (.var 9) .one)), (0, .prod (tmOfTy (wordTy 8)) .one), (3, .one)] :=
    fun _ => rfl
  unfold infer
  rw [hc]
  have : unifyFuel = (unifyFuel - 11) + 11 := by decide
  rw [this]
  simp only [hu]
  congr 1
  have : Array.range bd.size = #[0, 1, 2, 3] := by decide
  rw [this]
  simp [Inf.closeUnit, Inf.lookup, Inf.Tm.eval, tyOfInf, tyOfInf_eval_tmOfTy, bdArrows]

theorem bd_annots : ∃ a0 a1 a2 a3, annots JetsE.jetCmr JetsE.jetCost bd bdArrows (fun _ => none) =
      some #[a0, a1, a2, a3] ∧ a0.unique = true ∧ a1.unique = false ∧ a2.unique = true ∧ a3.unique = true := by
  simp [annots, annots.go, annotNode, bd, bdArrows]
  exact ⟨_, _, _, _, ⟨rfl, rfl, rfl, rfl⟩, rfl, rfl, rfl, rfl⟩

theorem bd_shared (a0 a1 a2 a3 : Annot) (h0 : a0.unique = true) (h1 : a1.unique = false)
    (h2 : a2.unique = true) (h3 : a3.unique = true) : sharedOk bd #[a0, a1, a2, a3] = true := by
  simp [sharedOk, walk, bd, commitChildren, commitKey, h0, h1, h2, h3, Node.children, seenLook]

theorem bd_encode (a0 a1 a2 a3 : Annot) (h0 : a0.unique = true) (h1 : a1.unique = false)
    (h2 : a2.unique = true) (h3 : a3.unique = true) (wit : Nat → Option (List Bool)) :
    ∃ w, encode JetsE.jc JetsE.ofName bd #[a0, a1, a2, a3] false wit =
      some (padToByte (encProgram JetsE.jc [.witness, .disc1 0, .unit, .comp 1 2]), w) := by
  simp [encode, walk, bd, encChildren, encKey, h0, h1, h2, h3, seenLook, wireOf]

theorem bd_cmrs : ∃ cm, cmrs JetsE.jetCmr bd = some cm := by
  simp [cmrs, cmrsGo, cmrsGoG, cmrNode, cmrNodeG, bd]

theorem padToByte_length (bs : List Bool) : (padToByte bs).length % 8 = 0 := by
  unfold padToByte
  simp only [List.length_append, List.length_replicate]
  omega

theorem bdN_ok : NodesOk 0 bdN := ⟨trivial, trivial, ⟨by decide, by decide⟩, ⟨by decide, by decide⟩, trivial⟩
theorem bdN'_ok : NodesOk 0 ([.witness, .disc1 0, .unit, .comp 1 2] : List (WNode JetsE.J)) :=
  ⟨trivial, (by show 0 < 1; decide), trivial, ⟨by decide, by decide⟩, trivial⟩

theorem bd_bits_differ :
    padToByte (encProgram JetsE.jc ([.witness, .disc1 0, .unit, .comp 1 2] : List (WNode JetsE.J))) ≠
      padToByte (encProgram JetsE.jc bdN) := by
  intro h
  have h1 := decProgram_encProgram JetsE.jc ([.witness, .disc1 0, .unit, .comp 1 2] : List (WNode JetsE.J))
    (List.cons_ne_nil _ _) (by decide) bdN'_ok
    (List.replicate ((8 - (encProgram JetsE.jc ([.witness, .disc1 0, .unit, .comp 1 2] : List (WNode JetsE.J))).length % 8) % 8) false)
  have h2 := decProgram_encProgram JetsE.jc bdN (List.cons_ne_nil _ _) (by decide) bdN_ok
    (List.replicate ((8 - (encProgram JetsE.jc bdN).length % 8) % 8) false)
  unfold padToByte at h
  rw [h, h2] at h1
  simp only [Except.ok.injEq, Prod.mk.injEq] at h1
  have := h1.1
  simp [bdN] at this

theorem commit_binary_disconnect_not_canonical :
    ∃ (prog : List Bool) (p : Plan) (cm : Array Nat) (arrows : Array (BM4.Ty × BM4.Ty)) (an : Array Annot),
      prog.length % 8 = 0 ∧ decodeCommit T prog = .ok (p, cm) ∧
      infer T.jetTy p true = .ok arrows ∧ annots T.jetCmr T.jetCost p arrows (fun _ => none) = some an ∧
      noBinDisc p = false ∧ rootFresh p an = true ∧
      ∀ wit w, encode T.jc T.ofName p an false wit ≠ some (prog, w) := by
  obtain ⟨a0, a1, a2, a3, ha, h0, h1, h2, h3⟩ := bd_annots
  obtain ⟨cm, hcm⟩ := bd_cmrs
  refine ⟨padToByte (encProgram JetsE.jc bdN), bd, cm, bdArrows, #[a0, a1, a2, a3], padToByte_length _, ?_,
    bd_infer, ha, by simp [noBinDisc, bd], ?_, ?_⟩
  · refine decodeCommit_intro T _ bdN (List.replicate ((8 - (encProgram JetsE.jc bdN).length % 8) % 8) false)
      bd bdArrows _ cm ?_ (closeOk_replicate _ (by omega)) (List.cons_ne_nil _ _) (by decide) (by rfl) bd_infer ha
      (bd_shared a0 a1 a2 a3 h0 h1 h2 h3) hcm
    unfold padToByte
    exact decProgram_encProgram JetsE.jc bdN (List.cons_ne_nil _ _) (by decide) bdN_ok _
  · simp [rootFresh, bd, commitKey, h3]
    intro x _
    split <;> rfl
  · intro wit w he
    obtain ⟨w', hw'⟩ := bd_encode a0 a1 a2 a3 h0 h1 h2 h3 wit
    have := hw'.symm.trans he
    simp only [Option.some.injEq, Prod.mk.injEq] at this
    exact bd_bits_differ this.1
#print axioms commit_binary_disconnect_not_canonical
end Prog.CommitExample
