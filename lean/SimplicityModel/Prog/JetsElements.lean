/-
The Elements jet family for the program codec: a `Wire.JetCode` built from the table regenerated
from `src/jet/init/elements.rs` (`Gen/JetsElements.lean`) — encoder = the `encode` arms, decoder =
the walk of the `decode_bits!` trie — with its two laws (`dec ∘ enc = id`, whatever decodes is a
code) obtained from the table-wide kernel checks of C14; types, roots and costs by name.
-/
import SimplicityModel.Wire
import SimplicityModel.Prog.Infer
import SimplicityModel.C14.ElementsA

namespace Prog.JetsE
open JetTable

abbrev F : Family := Gen.Elements.family

/-- a jet = an index into the table -/
abbrev J := { i : Nat // i < F.codes.length }

def enc (j : J) : List Bool := F.codes[j.1]'j.2

def dec (bs : List Bool) : Option (J × List Bool) :=
  match walk F.trie bs with
  | .ok i r => if h : i < F.codes.length then some (⟨i, h⟩, r) else none
  | _ => none

theorem dec_enc (j : J) (r : List Bool) : dec (enc j ++ r) = some (j, r) := by
  unfold dec enc
  rw [decode_encode_of_check F.trie F.codes C14.Elements.decode j.1 j.2 r]
  simp [j.2]

theorem canonical (bs : List Bool) (j : J) (r : List Bool) (h : dec bs = some (j, r)) :
    bs = enc j ++ r := by
  unfold dec at h
  cases hw : walk F.trie bs with
  | ok i r' =>
    rw [hw] at h
    simp only at h
    obtain ⟨hi, e⟩ := decode_sound_of_check F.trie F.codes C14.Elements.decode C14.Elements.leaves bs i r' hw
    rw [dif_pos hi] at h
    cases h
    exact e
  | invalid => rw [hw] at h; cases h
  | eos => rw [hw] at h; cases h

/-- the jet code of the Elements family, as the wire layer needs it -/
def jc : Wire.JetCode J := ⟨enc, dec, dec_enc, canonical⟩

def row (j : J) : JetRow := F.rows.getD j.1 default

def nameOf (j : J) : String := (row j).name

def ofName (s : String) : Option J :=
  match F.parse s with
  | some i => if h : i < F.codes.length then some ⟨i, h⟩ else none
  | none => none

def tyConv : JetTable.Ty → BM4.Ty
  | .unit => .one
  | .sum a b => .sum (tyConv a) (tyConv b)
  | .prod a b => .prod (tyConv a) (tyConv b)

def jetTy : JetTypes := fun name => do
  let j ← ofName name
  let s ← F.srcTy j.1
  let t ← F.tgtTy j.1
  pure (tyConv s, tyConv t)

def jetCmr (name : String) : Option Nat := (ofName name).map fun j => (row j).cmr
def jetCost (name : String) : Option Nat := (ofName name).map fun j => (row j).cost

end Prog.JetsE
