/-
Tie between the static bounds the code computes and the ones the theorems are about.

`Gen/Bounds.lean` is regenerated on every run from `impl NodeBounds` (src/analysis.rs) and from the
`NodeBounds::…(…)` component of every arm of `RedeemData::new` (src/node/redeem.rs).  Here:
* `boundsOf` folds those regenerated functions over a typed term exactly as `RedeemData::new` does
  over the program (children first, widths taken from the arrows), and `boundsOf_cells` /
  `boundsOf_frames` prove that the result is the `extraCells` / `extraFrames` of the machine model —
  the quantities C07's theorem `run_never_crashes` is stated with;
* `annot_cost_*` prove that the cost column of `Prog.annotNode` (C01/C03's static cost) is the cost
  field of the same regenerated functions, arm by arm.
A changed formula in the source changes `Gen/Bounds.lean` and breaks the corresponding theorem.
-/
import SimplicityModel.Gen.Bounds
import SimplicityModel.Machine4
import SimplicityModel.Prog.Roots

namespace BoundsTie
open BM4 Gen.Bounds

def arrowOf (a b : Ty) : Arrow := ⟨a.bw, b.bw⟩

/-- what `RedeemData::new` computes for the node at the root of `t` (cost left out: jets and words
carry theirs in the table, C03) -/
def boundsOf : {a b : Ty} → Term a b → NB
  | _, _, @Term.iden a => site_Iden (arrowOf a a)
  | _, _, @Term.unit a => site_Unit (arrowOf a .one)
  | _, _, @Term.injl a b c t => site_InjL (arrowOf a (.sum b c)) (arrowOf a b) (boundsOf t)
  | _, _, @Term.injr a b c t => site_InjR (arrowOf a (.sum b c)) (arrowOf a c) (boundsOf t)
  | _, _, @Term.take a b c t => site_Take (arrowOf (.prod a b) c) (arrowOf a c) (boundsOf t)
  | _, _, @Term.drop a b c t => site_Drop (arrowOf (.prod a b) c) (arrowOf b c) (boundsOf t)
  | _, _, @Term.comp a m c s t =>
      site_Comp (arrowOf a c) (arrowOf a m) (boundsOf s) (arrowOf m c) (boundsOf t)
  | _, _, @Term.case a1 a2 c d s t =>
      site_Case (arrowOf (.prod (.sum a1 a2) c) d) (arrowOf (.prod a1 c) d) (boundsOf s)
        (arrowOf (.prod a2 c) d) (boundsOf t)
  | _, _, @Term.pair a b1 b2 s t =>
      site_Pair (arrowOf a (.prod b1 b2)) (arrowOf a b1) (boundsOf s) (arrowOf a b2) (boundsOf t)
  | _, _, @Term.fail a b => site_Fail (arrowOf a b)
  | _, _, @Term.witness a b _ => site_Witness (arrowOf a b)
  | _, _, @Term.assertl a1 a2 c d s =>
      site_AssertL (arrowOf (.prod (.sum a1 a2) c) d) (arrowOf (.prod a1 c) d) (boundsOf s)
  | _, _, @Term.assertr a1 a2 c d t =>
      site_AssertR (arrowOf (.prod (.sum a1 a2) c) d) (arrowOf (.prod a2 c) d) (boundsOf t)
  | _, _, @Term.word a b _ => site_Word (arrowOf a b) b.bw
  | _, _, @Term.jet a b _ _ => site_Jet (arrowOf a b) 0
  | _, _, @Term.disconnect a b c d w _ s t =>
      site_Disconnect (arrowOf a (.prod b d)) (arrowOf (.prod w a) (.prod b c)) (boundsOf s)
        (arrowOf c d) (boundsOf t)

/-- **the cells bound of the model is the one the code computes** -/
theorem boundsOf_cells : ∀ {a b : Ty} (t : Term a b), (boundsOf t).extra_cells = extraCells t := by
  intro a b t
  induction t with
  | iden => rfl
  | unit => rfl
  | injl t ih => simpa [boundsOf, site_InjL, injl, from_child, extraCells] using ih
  | injr t ih => simpa [boundsOf, site_InjR, injr, from_child, extraCells] using ih
  | take t ih => simpa [boundsOf, site_Take, take, from_child, extraCells] using ih
  | drop t ih => simpa [boundsOf, site_Drop, drop_, from_child, extraCells] using ih
  | comp s t ihs iht => simp [boundsOf, site_Comp, comp, extraCells, ihs, iht, arrowOf]
  | case s t ihs iht => simp [boundsOf, site_Case, Gen.Bounds.case, extraCells, ihs, iht]
  | pair s t ihs iht => simp [boundsOf, site_Pair, pair, extraCells, ihs, iht]
  | fail => rfl
  | witness w => rfl
  | assertl s ih => simpa [boundsOf, site_AssertL, assertl, from_child, extraCells] using ih
  | assertr t ih => simpa [boundsOf, site_AssertR, assertr, from_child, extraCells] using ih
  | word w => rfl
  | jet jf f => rfl
  | disconnect w cw s t ihs iht =>
    simp [boundsOf, site_Disconnect, disconnect, extraCells, ihs, iht, arrowOf, Ty.bw]

/-- **the frames bound of the model is the one the code computes** -/
theorem boundsOf_frames : ∀ {a b : Ty} (t : Term a b), (boundsOf t).extra_frames = extraFrames t := by
  intro a b t
  induction t with
  | iden => rfl
  | unit => rfl
  | injl t ih => simpa [boundsOf, site_InjL, injl, from_child, extraFrames] using ih
  | injr t ih => simpa [boundsOf, site_InjR, injr, from_child, extraFrames] using ih
  | take t ih => simpa [boundsOf, site_Take, take, from_child, extraFrames] using ih
  | drop t ih => simpa [boundsOf, site_Drop, drop_, from_child, extraFrames] using ih
  | comp s t ihs iht => simp [boundsOf, site_Comp, comp, extraFrames, ihs, iht]
  | case s t ihs iht => simp [boundsOf, site_Case, Gen.Bounds.case, extraFrames, ihs, iht]
  | pair s t ihs iht => simp [boundsOf, site_Pair, pair, extraFrames, ihs, iht]
  | fail => rfl
  | witness w => rfl
  | assertl s ih => simpa [boundsOf, site_AssertL, assertl, from_child, extraFrames] using ih
  | assertr t ih => simpa [boundsOf, site_AssertR, assertr, from_child, extraFrames] using ih
  | word w => rfl
  | jet jf f => rfl
  | disconnect w cw s t ihs iht => simp [boundsOf, site_Disconnect, disconnect, extraFrames, ihs, iht]

/-! ### the cost column of `Prog.annotNode` -/

open Prog in
/-- the bounds of node `i` as `RedeemData::new` computes them from the children's (cost only) -/
def siteCost (jetCost : String → Option Nat) (arr : Nat → Ty × Ty) (an : Nat → Prog.Annot)
    (i : Nat) (nd : Prog.Node) : Option NB :=
  let ar (j : Nat) : Arrow := arrowOf (arr j).1 (arr j).2
  let nb (j : Nat) : NB := ⟨0, 0, (an j).cost⟩
  match nd with
  | .iden => some (site_Iden (ar i))
  | .unit => some (site_Unit (ar i))
  | .injl c => some (site_InjL (ar i) (ar c) (nb c))
  | .injr c => some (site_InjR (ar i) (ar c) (nb c))
  | .take c => some (site_Take (ar i) (ar c) (nb c))
  | .drop c => some (site_Drop (ar i) (ar c) (nb c))
  | .comp x y => some (site_Comp (ar i) (ar x) (nb x) (ar y) (nb y))
  | .case x y => some (site_Case (ar i) (ar x) (nb x) (ar y) (nb y))
  | .assertl x _ => some (site_AssertL (ar i) (ar x) (nb x))
  | .assertr _ y => some (site_AssertR (ar i) (ar y) (nb y))
  | .pair x y => some (site_Pair (ar i) (ar x) (nb x) (ar y) (nb y))
  | .disconnect x (some y) => some (site_Disconnect (ar i) (ar x) (nb x) (ar y) (nb y))
  | .witness => some (site_Witness (ar i))
  | .fail _ => some (site_Fail (ar i))
  | .word n _ => some (site_Word (ar i) (2 ^ n))
  | .jet name => (jetCost name).map (site_Jet (ar i))
  | _ => none

theorem satAdd_eq (a b : Nat) : Prog.satAdd a b = Gen.Bounds.satAdd a b := rfl
theorem overhead_eq : Prog.OVERHEAD = Gen.Consts.OVERHEAD := rfl

/-- **the static cost of the model is the one the code computes**: whenever `annotNode` annotates a
redemption-time node, its cost is the `cost` field `RedeemData::new` gets from the regenerated
`NodeBounds` constructor of that arm, applied to the children's costs and the arrows' widths -/
theorem annot_cost (tmrF : Ty → Nat) (jetCmr jetCost : String → Option Nat) (arr : Nat → Ty × Ty)
    (wit : Nat → Option (List Bool)) (an : Nat → Prog.Annot) (i : Nat) (nd : Prog.Node)
    (x : Prog.Annot) (s : NB)
    (h : Prog.annotNode tmrF jetCmr jetCost arr wit an i nd = some x)
    (hs : siteCost jetCost arr an i nd = some s)
    (hw : nd = .witness → (wit i).isSome) :
    x.cost = s.cost := by
  cases nd
  case disconnect a b =>
    cases b with
    | none => simp [siteCost] at hs
    | some y =>
      simp only [siteCost, Option.some.injEq] at hs; subst hs
      simp only [Prog.annotNode] at h
      split at h <;> simp at h
      rw [← h]; simp [site_Disconnect, disconnect, satAdd_eq, overhead_eq, ofType, arrowOf]
  all_goals simp only [siteCost, Option.some.injEq, reduceCtorEq] at hs
  all_goals (try subst hs)
  all_goals simp only [Prog.annotNode] at h
  case iden => simp at h; rw [← h]; simp [site_Iden, iden, satAdd_eq, overhead_eq, ofType, arrowOf]
  case unit => simp at h; rw [← h]; simp [site_Unit, unit_, NOP, overhead_eq]
  case injl c => split at h <;> simp at h; rw [← h]; simp [site_InjL, injl, from_child, satAdd_eq, overhead_eq]
  case injr c => split at h <;> simp at h; rw [← h]; simp [site_InjR, injr, from_child, satAdd_eq, overhead_eq]
  case take c => split at h <;> simp at h; rw [← h]; simp [site_Take, take, from_child, satAdd_eq, overhead_eq]
  case drop c => split at h <;> simp at h; rw [← h]; simp [site_Drop, drop_, from_child, satAdd_eq, overhead_eq]
  case comp a b => simp at h; rw [← h]; simp [site_Comp, comp, satAdd_eq, overhead_eq, ofType, arrowOf]
  case case a b => split at h <;> simp at h; rw [← h]; simp [site_Case, Gen.Bounds.case, satAdd_eq, overhead_eq]
  case pair a b => simp at h; rw [← h]; simp [site_Pair, pair, satAdd_eq, overhead_eq]
  case assertl a hh => split at h <;> simp at h; rw [← h]; simp [site_AssertL, assertl, from_child, satAdd_eq, overhead_eq]
  case assertr hh b => split at h <;> simp at h; rw [← h]; simp [site_AssertR, assertr, from_child, satAdd_eq, overhead_eq]
  case witness =>
    have := hw rfl
    cases hwi : wit i with
    | none => rw [hwi] at this; cases this
    | some bits =>
      rw [hwi] at h; simp at h; rw [← h]
      simp [site_Witness, witness, satAdd_eq, overhead_eq, ofType, arrowOf]
  case fail e => simp at h; rw [← h]; simp [site_Fail, fail, NEVER_EXECUTED, Gen.Consts.NEVER_EXECUTED]
  case word n bits => simp at h; rw [← h]; simp [site_Word, const_word, satAdd_eq, overhead_eq, ofType]
  case jet name =>
    cases hc : jetCmr name with
    | none => simp [hc, bind, Option.bind] at h
    | some c =>
      cases hk : jetCost name with
      | none => simp [hk] at hs
      | some k =>
        simp [hk] at hs; subst hs
        simp [hc, hk, bind, Option.bind, pure] at h
        rw [← h]; simp [site_Jet, jet, satAdd_eq, overhead_eq]

#print axioms annot_cost
#print axioms boundsOf_cells
#print axioms boundsOf_frames
end BoundsTie
