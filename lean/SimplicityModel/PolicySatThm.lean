/-
C16 — lemmas about the satisfier model of `PolicySat.lean`: what is a node and what is "hidden" in
each fragment built through the hiding wrapper, the root of the satisfied program, and
`satisfy_internal` returns a node exactly when the policy is true.
-/
import SimplicityModel.PolicySat

namespace Pol

section
variable {N H : Type} (A : Alg N H) (C : Alg H H) (r : N → H)

local notation "HA" => hidAlg A C r

@[simp] theorem isNode_okIf (c : Bool) (x : Hid N H) : (Hid.okIf r c x).isNode = (c && x.isNode) := by
  cases c <;> cases x <;> simp [Hid.okIf, Hid.hide, Hid.isNode]

@[simp] theorem root_okIf (c : Bool) (x : Hid N H) : (Hid.okIf r c x).root r = x.root r := by
  cases c <;> cases x <;> simp [Hid.okIf, Hid.hide, Hid.root]

@[simp] theorem root_hide (x : Hid N H) : (x.hide r).root r = x.root r := by
  cases x <;> simp [Hid.hide, Hid.root]

@[simp] theorem isNode_hide (x : Hid N H) : (x.hide r).isNode = false := by
  cases x <;> simp [Hid.hide, Hid.isNode]

theorem isNode_comp (x y : Hid N H) : ((HA).comp x y).isNode = (x.isNode && y.isNode) := by
  cases x <;> cases y <;> simp [hidAlg, Hid.isNode]
theorem isNode_pair (x y : Hid N H) : ((HA).pair x y).isNode = (x.isNode && y.isNode) := by
  cases x <;> cases y <;> simp [hidAlg, Hid.isNode]
theorem isNode_case (x y : Hid N H) : ((HA).case x y).isNode = (x.isNode || y.isNode) := by
  cases x <;> cases y <;> simp [hidAlg, Hid.isNode]
theorem isNode_drop (x : Hid N H) : ((HA).drop x).isNode = x.isNode := by
  cases x <;> simp [hidAlg, Hid.isNode]
theorem isNode_word (w v : Nat) : ((HA).word w v).isNode = true := rfl
theorem isNode_jet (j : Jet) : ((HA).jet j).isNode = true := rfl
theorem isNode_witness (w : Option Val) : ((HA).witness w).isNode = true := rfl
theorem isNode_unit : ((HA).unit).isNode = true := rfl
theorem isNode_iden : ((HA).iden).isNode = true := rfl
theorem isNode_fail (e : Nat) : ((HA).fail e).isNode = true := rfl

/-- every leaf fragment is built from non-hidden nodes only -/
theorem isNode_leafF (t x : Nat) (w : Option Val) : (leafF (HA) t x w).isNode = true := by
  unfold leafF
  split
  · rfl
  split
  · simp [keyF, isNode_comp, isNode_pair, isNode_word, isNode_jet, isNode_witness]
  split
  · simp [afterF, isNode_comp, isNode_word, isNode_jet]
  split
  · simp [olderF, isNode_comp, isNode_word, isNode_jet]
  split
  · simp [sha256F, verifyBexp, computeSha256, isNode_comp, isNode_pair, isNode_word, isNode_jet,
      isNode_witness]
  · rfl

theorem isNode_andF (x y : Hid N H) : (andF (HA) x y).isNode = (x.isNode && y.isNode) :=
  isNode_comp A C r x y

/-- `case` with one hidden child becomes an assertion: the `or` fragment is a node as soon as one
side is -/
theorem isNode_orF (x y : Hid N H) (w : Option Val) :
    (orF (HA) x y w).isNode = (x.isNode || y.isNode) := by
  simp [orF, selector, isNode_comp, isNode_pair, isNode_case, isNode_drop, isNode_witness,
    isNode_unit]

/-- a summand is a node whatever the child is (a hidden child leaves `assertl (drop 0)`) -/
theorem isNode_summand (c : Hid N H) (w : Option Val) : (summand (HA) c w).isNode = true := by
  simp [summand, selector, isNode_comp, isNode_pair, isNode_case, isNode_drop, isNode_witness,
    isNode_unit, isNode_word]

theorem isNode_sumF : ∀ (ss : List (Hid N H)) (bs : List (Option Val)) (acc : Hid N H),
    acc.isNode = true → (sumF (HA) acc ss bs).isNode = true
  | [], _, _, h => by simp only [sumF]; exact h
  | _ :: _, [], _, h => by simp only [sumF]; exact h
  | s :: ss, b :: bs, acc, h => by
    simp only [sumF]
    apply isNode_sumF ss bs
    simp [addF, isNode_comp, isNode_pair, isNode_drop, isNode_jet, isNode_iden, isNode_summand, h]

theorem isNode_thresholdF (k : Nat) (ss : List (Hid N H)) (bs : List (Option Val)) :
    (thresholdF (HA) k ss bs).isNode = true := by
  match ss, bs with
  | [], _ => simp only [thresholdF]; rfl
  | _ :: _, [] => simp only [thresholdF]; rfl
  | s :: ss, b :: bs =>
    simp [thresholdF, threshVerify, verifyBexp, isNode_comp, isNode_pair, isNode_word, isNode_jet,
      isNode_sumF A C r ss bs _ (isNode_summand A C r s b)]

variable (cost : N → Nat) (W : Secrets)

theorem item_snd (x : Hid N H) : (item cost x).2 = x.isNode := by
  cases x <;> rfl

theorem item_wf (hc : ∀ n, cost n < Thresh.MAX) (xs : List (Hid N H)) :
    Thresh.Wf (xs.map (item cost)) := by
  intro it hit
  rw [List.mem_map] at hit
  obtain ⟨x, _, rfl⟩ := hit
  cases x with
  | node n => have := hc n; simp [item]; omega
  | hidden h => simp [item]

mutual
/-- `satisfy_internal` returns a node (not a "hidden" one) exactly when the satisfier's answers make
the policy true -/
theorem satisfyInternal_isNode (hc : ∀ n, cost n < Thresh.MAX) (a : Avail) :
    ∀ (p : P), dom p = true → (satisfyInternal A C r cost W a p).isNode = sat a p
  | .leaf t x, _ => by
    simp only [satisfyInternal, sat]
    split
    · next h => subst h; simp [leafSat]
    · simp [isNode_leafF]
  | .and l r', hd => by
    simp only [dom, Bool.and_eq_true] at hd
    simp only [satisfyInternal, sat, isNode_andF, satisfyInternal_isNode hc a l hd.1,
      satisfyInternal_isNode hc a r' hd.2]
  | .or l r', hd => by
    simp only [dom, Bool.and_eq_true] at hd
    simp only [satisfyInternal, sat, isNode_okIf, isNode_orF, satisfyInternal_isNode hc a l hd.1,
      satisfyInternal_isNode hc a r' hd.2, Bool.and_self]
  | .thr k s, hd => by
    simp only [dom, Bool.and_eq_true, decide_eq_true_eq] at hd
    obtain ⟨⟨hk, _⟩, hds⟩ := hd
    simp only [satisfyInternal, sat, isNode_okIf, isNode_thresholdF, Bool.and_true]
    have hlen : ((satisfyInternalL A C r cost W a s).map (item cost)).length = lenL s := by
      rw [List.length_map, satisfyInternalL_length hc a s]
    rw [Thresh.selectedOk_spec k _ (item_wf cost hc _) (by rw [hlen]; exact hk)]
    unfold Thresh.thrSat
    rw [satisfyInternalL_count hc a s hds]
theorem satisfyInternalL_count (hc : ∀ n, cost n < Thresh.MAX) (a : Avail) :
    ∀ (s : List P), domL s = true →
      ((satisfyInternalL A C r cost W a s).map (item cost)).countP (·.2) = countSat a s
  | [], _ => rfl
  | p :: ps, hd => by
    simp only [domL, Bool.and_eq_true] at hd
    simp only [satisfyInternalL, List.map, countSat, List.countP_cons, item_snd,
      satisfyInternal_isNode hc a p hd.1, satisfyInternalL_count hc a ps hd.2]
    omega
theorem satisfyInternalL_length (hc : ∀ n, cost n < Thresh.MAX) (a : Avail) :
    ∀ (s : List P), (satisfyInternalL A C r cost W a s).length = lenL s
  | [] => rfl
  | p :: ps => by simp only [satisfyInternalL, List.length_cons, lenL, satisfyInternalL_length hc a ps]
end

/-! ### roots -/

theorem Hom.orF {M : Type} {A' : Alg M H} {B : Alg H H} {h : M → H} (hh : Hom A' B h) (x y : M)
    (w : Option Val) : h (Pol.orF A' x y w) = Pol.orF B (h x) (h y) w := by
  simp only [Pol.orF, selector, hh.comp, hh.pair, hh.case, hh.drop, hh.witness, hh.unit]

/-! the roots-only algebra does not see witness values -/
section irrel
variable {C}
variable (hw : ∀ w, C.witness w = C.witness none)
include hw

theorem summand_irrel (c : H) (w : Option Val) : summand C c w = summand C c none := by
  simp only [summand, selector, hw w]

theorem sumF_irrel : ∀ (ss : List H) (bs bs' : List (Option Val)) (acc : H),
    bs.length = ss.length → bs'.length = ss.length → sumF C acc ss bs = sumF C acc ss bs'
  | [], _, _, _, _, _ => by simp only [sumF]
  | s :: ss, [], _, _, h, _ => by simp at h
  | s :: ss, _ :: _, [], _, _, h => by simp at h
  | s :: ss, b :: bs, b' :: bs', acc, h, h' => by
    simp only [sumF, summand_irrel hw s b, summand_irrel hw s b']
    exact sumF_irrel ss bs bs' _ (by simpa using h) (by simpa using h')

theorem thresholdF_irrel (k : Nat) : ∀ (ss : List H) (bs bs' : List (Option Val)),
    bs.length = ss.length → bs'.length = ss.length → thresholdF C k ss bs = thresholdF C k ss bs'
  | [], _, _, _, _ => by simp only [thresholdF]
  | s :: ss, [], _, h, _ => by simp at h
  | s :: ss, _ :: _, [], _, h => by simp at h
  | s :: ss, b :: bs, b' :: bs', h, h' => by
    simp only [thresholdF, summand_irrel hw s b, summand_irrel hw s b']
    rw [sumF_irrel hw ss bs bs' _ (by simpa using h) (by simpa using h')]

theorem leafF_irrel (t x : Nat) (w : Option Val) : leafF C t x w = leafF C t x none := by
  simp only [leafF, keyF, sha256F, hw w]

theorem orF_irrel (l r' : H) (w : Option Val) : orF C l r' w = orF C l r' none := by
  simp only [orF, selector, hw w]
end irrel

theorem compileL_length {M : Type} (B : Alg M H) : ∀ (s : List P), (compileL B s).length = lenL s
  | [] => rfl
  | p :: ps => by simp only [compileL, List.length_cons, lenL, compileL_length B ps]

theorem satisfyInternalL_length' (a : Avail) :
    ∀ (s : List P), (satisfyInternalL A C r cost W a s).length = lenL s
  | [] => rfl
  | p :: ps => by simp only [satisfyInternalL, List.length_cons, lenL, satisfyInternalL_length' a ps]

mutual
/-- the satisfied program — hidden parts included — has the root that the root-only compilation
of the policy gives -/
theorem satisfyInternal_root (hr : RootHom A C r) (a : Avail) :
    ∀ (p : P), (satisfyInternal A C r cost W a p).root r = compile C p
  | .leaf t x => by
    simp only [satisfyInternal, compile]
    split
    · next h => subst h; rw [root_hide]; exact (hid_hom hr).leafF 0 x none
    · rw [root_okIf, (hid_hom hr).leafF t x]; exact leafF_irrel hr.witness_irrel t x _
  | .and l r' => by
    simp only [satisfyInternal, compile, andF, (hid_hom hr).comp, satisfyInternal_root hr a l,
      satisfyInternal_root hr a r']
  | .or l r' => by
    simp only [satisfyInternal, compile, root_okIf, (hid_hom hr).orF, satisfyInternal_root hr a l,
      satisfyInternal_root hr a r']
    exact orF_irrel hr.witness_irrel _ _ _
  | .thr k s => by
    simp only [satisfyInternal, compile, root_okIf]
    rw [(hid_hom hr).thresholdF, satisfyInternalL_root hr a s]
    apply thresholdF_irrel hr.witness_irrel
    · simp [selBits, compileL_length, satisfyInternalL_length']
    · simp [compileL_length]
theorem satisfyInternalL_root (hr : RootHom A C r) (a : Avail) :
    ∀ (s : List P), (satisfyInternalL A C r cost W a s).map (Hid.root r) = compileL C s
  | [] => rfl
  | p :: ps => by
    simp only [satisfyInternalL, List.map, compileL, satisfyInternal_root hr a p,
      satisfyInternalL_root hr a ps]
end
end

end Pol
