/-
C08: the whole model of `RedeemNode::prune` as one function (`prunePipeline`) and the anti-DoS
evaluation of its result (`Pruned.antiDos`) — the two functions behind the driver's `prune` verb
(`Driver/C08.lean` only parses the line, calls these and prints).
-/
import SimplicityModel.PrunePlan
import SimplicityModel.PruneIds

namespace Prog
open BM4

def isWitness : Node → Bool | .witness => true | _ => false

/-- printed in place of the bits of a witness the model could not prune (never, see
`Props.C08.pipeline_antiDos`) -/
def witMarker : List Bool := [true, false, true, false, true, false, true]

/-- (node, pruned compact bits) of the selected witness nodes of the pruned plan -/
def prunedWits (p1 : Plan) (reach : Array Bool) (wit : Nat → Option (List Bool)) (arr a1 : Array (Ty × Ty)) :
    List (Nat × List Bool) :=
  (List.range p1.size).filterMap fun i =>
    if reach.getD i false && isWitness (p1.getD i .unit) then
      match pruneWit wit arr a1 i with
      | some bits => some (i, bits)
      | none => some (i, witMarker)
    else none

/-- the witness table of the pruned program: the pruned bits where there are any -/
def witOfList (ws : List (Nat × List Bool)) (wit : Nat → Option (List Bool)) : Nat → Option (List Bool) := fun i =>
  match ws.find? (·.1 = i) with
  | some w => some w.2
  | none => wit i

structure Pruned where
  plan : Plan
  reach : Array Bool
  /-- principal arrows of the pruned program (`inferM` with the reachability mask) -/
  codeArrows : Array (Ty × Ty)
  /-- compact bits of the pruned witness values (reachable witness nodes) -/
  wits : List (Nat × List Bool)
  cmr : Array Nat

inductive PruneRes
  | fail (k : Fail)
  | ok (p : Pruned)
  | err (s : String)

/-- run, record, rewrite, re-type, shrink the witnesses -/
def prunePipeline (jetTy : JetTypes) (jetCmr : String → Option Nat) (jetSem : JetSem)
    (wit : Nat → Option (List Bool)) (p : Plan) : PruneRes :=
  if !wf p then .err "bad-plan" else
  let all : Nat → Bool := fun _ => true
  match inferM jetTy p all true, cmrs jetCmr p with
  | .ok arrows, some cm =>
    match ihrs jetCmr p arrows wit with
    | none => .err "model-annot-failed"
    | some an =>
      let ids : Nat → Nat := fun i => (an.getD i (0, 0)).2
      let env : Env := { plan := p, arrows := arrows, wit := wit, cmr := cm, jets := jetSem }
      match elabNode env (p.size + 1) (p.size - 1) with
      | none => .err "model-elab-failed"
      | some x =>
        match evalT x.2.2 (labOf p ids (p.size + 1) (p.size - 1)) .unit with
        | .error f => .fail f
        | .ok r =>
          let p1 := prunePlan r.2.sides ids (fun i => cm.getD i 0) p
          let reach := reachable p1
          match inferM jetTy p1 (fun i => reach.getD i false) true, cmrs jetCmr p1 with
          | .ok a1, some cm1 =>
            .ok { plan := p1, reach := reach, codeArrows := a1, wits := prunedWits p1 reach wit arrows a1, cmr := cm1 }
          | .ok _, none => .err "bad-plan"
          | _, _ => .err "model-reinference-failed"
  | .ok _, none => .err "bad-plan"
  | .typeError, _ => .err "ill-typed"
  | .occurs, _ => .err "ill-typed"
  | .badPlan, _ => .err "bad-plan"
  | .fuel, _ => .err "model-fuel"

/-- the anti-DoS conditions on the model's own run of the pruned plan.  Identities are the
identity roots of the *pruned* program (libsimplicity evaluates the decoded DAG, in which nodes
with one identity root are one node): every reachable node's identity executed, both sides of
every remaining case identity taken. -/
def Pruned.antiDos (q : Pruned) (jetCmr : String → Option Nat) (jetSem : JetSem)
    (wit0 : Nat → Option (List Bool)) : String :=
  let wit := witOfList q.wits wit0
  match ihrs jetCmr q.plan q.codeArrows wit with
  | none => "model-annot-failed"
  | some an =>
    let ids : Nat → Nat := fun i => (an.getD i (0, 0)).2
    let env : Env := { plan := q.plan, arrows := q.codeArrows, wit := wit, cmr := q.cmr, jets := jetSem }
    match elabNode env (q.plan.size + 1) (q.plan.size - 1) with
    | none => "model-elab-failed"
    | some x =>
      match evalT x.2.2 (labOf q.plan ids (q.plan.size + 1) (q.plan.size - 1)) .unit with
      | .error _ => "model-pruned-run-fails"
      | .ok r => if antiDosOK q.plan q.reach ids r.2 then "ok" else "rejected"

end Prog
