/-
Helper lemmas for `Props/C15.lean`: the C side's parsing of what `c_env.rs` serialises gives back
the supplied field (`copyRawConfidential ∘ confArray`, `copyRawAmt ∘ valuePtr`, `ReadBE64 ∘ be64`),
and the writers of `elementsJets.c` on the parsed structures equal the specification's bits.
`Sha256.hash` is never unfolded.
-/
import SimplicityModel.Env

namespace Env

theorem B32.take (x : B32) : x.bytes.take 32 = x.bytes :=
  List.take_of_length_le (by rw [x.len]; exact Nat.le_refl _)

theorem readBE64_be64 (v : UInt64) : readBE64 (be64 v) = v.toNat := by
  have h : v.toNat < 18446744073709551616 := v.toNat_lt
  unfold be64 readBE64
  simp only [UInt8.toNat_ofNat', Nat.reducePow, Nat.mod_mod]
  generalize v.toNat = n at h ⊢
  omega

/-- the C view of a supplied asset / nonce -/
def cconfOf : Conf → CConf
  | .null => { pfx := .none, data := zeros32 }
  | .explicit d => { pfx := .explicit, data := d.bytes }
  | .confidential odd x => { pfx := if odd then .oddY else .evenY, data := x.bytes }

/-- the C view of a supplied amount (a null amount is copied as explicit zero) -/
def camtOf : Amount → CAmt
  | .null => { pfx := .explicit, explicit := 0, confidential := [] }
  | .explicit v => { pfx := .explicit, explicit := v.toNat, confidential := [] }
  | .confidential odd x => { pfx := if odd then .oddY else .evenY, explicit := 0, confidential := x.bytes }

theorem copy_asset (c : Conf) : copyRawConfidential (confArray 0x0a c) = cconfOf c := by
  cases c with
  | null => rfl
  | explicit d => simp [confArray, Conf.isNull, serializeConf, copyRawConfidential, cconfOf, B32.take]
  | confidential odd x =>
    cases odd <;>
      simp [confArray, Conf.isNull, serializeConf, copyRawConfidential, cconfOf, B32.take, parity] <;> decide

theorem copy_nonce (c : Conf) : copyRawConfidential (confArray 0x02 c) = cconfOf c := by
  cases c with
  | null => rfl
  | explicit d => simp [confArray, Conf.isNull, serializeConf, copyRawConfidential, cconfOf, B32.take]
  | confidential odd x =>
    cases odd <;>
      simp [confArray, Conf.isNull, serializeConf, copyRawConfidential, cconfOf, B32.take, parity] <;> decide

theorem copy_amt (a : Amount) : copyRawAmt (valuePtr a) = camtOf a := by
  cases a with
  | null => rfl
  | explicit v => simp [valuePtr, Amount.isNull, serializeAmount, copyRawAmt, camtOf, readBE64_be64]
  | confidential odd x =>
    cases odd <;>
      simp [valuePtr, Amount.isNull, serializeAmount, copyRawAmt, camtOf, B32.take, parity] <;> decide

theorem assetW_cconfOf (c : Conf) : assetW (cconfOf c) = specConf c := by
  cases c with
  | null => simp [assetW, cconfOf, specConf]
  | explicit d => simp [assetW, cconfOf, specConf]
  | confidential odd x => cases odd <;> simp [assetW, cconfOf, specConf]

theorem amtW_camtOf (a : Amount) : amtW (camtOf a) = specAmount a := by
  cases a with
  | null => simp [amtW, camtOf, specAmount]
  | explicit v => simp [amtW, camtOf, specAmount]
  | confidential odd x => cases odd <;> simp [amtW, camtOf, specAmount]

theorem nonceW_cconfOf (c : Conf) : nonceW (cconfOf c) = specNonce c := by
  cases c with
  | null => simp [nonceW, cconfOf, specNonce]
  | explicit d => simp [nonceW, assetW, cconfOf, specNonce, specConf]
  | confidential odd x => cases odd <;> simp [nonceW, assetW, cconfOf, specNonce, specConf]

theorem cconfOf_isConfidential (c : Conf) : (cconfOf c).pfx.isConfidential = c.isConfidential := by
  cases c with
  | null => rfl
  | explicit d => rfl
  | confidential odd x => cases odd <;> rfl

theorem camtOf_isConfidential (a : Amount) : (camtOf a).pfx.isConfidential = a.isConfidential := by
  cases a with
  | null => rfl
  | explicit v => rfl
  | confidential odd x => cases odd <;> rfl

theorem valuePtr_isSome (a : Amount) : (valuePtr a).isSome = !a.isNull := by
  cases a <;> rfl

def emptyHash : Bytes := Sha256.hash []

/-- the C view of the issuance fields of a supplied input -/
def cissOf (i : TxIn) : CIssuance :=
  match i.issKind with
  | .none =>
    { type := .none, blindingNonce := [], contractHash := [], entropy := [], assetAmt := amtZero,
      tokenAmt := amtZero, assetRangeProofHash := emptyHash, tokenRangeProofHash := emptyHash }
  | .new =>
    { type := .new, blindingNonce := i.blindingNonce.bytes, contractHash := i.assetEntropy.bytes,
      entropy := [], assetAmt := camtOf i.amount, tokenAmt := camtOf i.inflationKeys,
      assetRangeProofHash := if i.amount.isConfidential then Sha256.hash i.amountRangeproof else emptyHash,
      tokenRangeProofHash :=
        if i.inflationKeys.isConfidential then Sha256.hash i.inflationKeysRangeproof else emptyHash }
  | .reissuance =>
    { type := .reissuance, blindingNonce := i.blindingNonce.bytes, contractHash := [],
      entropy := i.assetEntropy.bytes, assetAmt := camtOf i.amount, tokenAmt := amtZero,
      assetRangeProofHash := if i.amount.isConfidential then Sha256.hash i.amountRangeproof else emptyHash,
      tokenRangeProofHash := emptyHash }

theorem copyIssuance_marshal (p : TxIn × Utxo) :
    copyIssuance (marshalInput p).issuance = cissOf p.1 := by
  obtain ⟨i, u⟩ := p
  unfold cissOf TxIn.issKind
  by_cases hn : (i.amount.isNull && i.inflationKeys.isNull) = true
  · simp [marshalInput, TxIn.hasIssuance, hn, copyIssuance, noIssuance, emptyHash]
  · have hs : ((valuePtr i.amount).isSome || (valuePtr i.inflationKeys).isSome) = true := by
      rw [valuePtr_isSome, valuePtr_isSome]
      cases h1 : i.amount.isNull <;> cases h2 : i.inflationKeys.isNull <;> simp_all
    by_cases hz : allZero i.blindingNonce.bytes = true
    · simp [marshalInput, TxIn.hasIssuance, hn, copyIssuance, hs, hz, copy_amt, camtOf_isConfidential, emptyHash]
    · simp [marshalInput, TxIn.hasIssuance, hn, copyIssuance, hs, hz, copy_amt, camtOf_isConfidential, emptyHash]


theorem copyInput_issuance (r : RawInput) : (copyInput r).issuance = copyIssuance r.issuance := rfl

theorem amtW_explicit0 :
    amtW { pfx := .explicit, explicit := 0, confidential := [] } = specAmount (.explicit 0) := by
  simp [amtW, specAmount]

theorem issuanceW_marshal (p : TxIn × Utxo) :
    issuanceW (copyInput (marshalInput p)) = specIssuance p.1 := by
  simp only [issuanceW, specIssuance, copyInput_issuance, copyIssuance_marshal, cissOf]
  cases h : p.1.issKind <;> simp [optBits]

theorem inW_marshal (g : InGetter) (p : TxIn × Utxo) :
    inW g (copyInput (marshalInput p)) = specIn g p := by
  cases g with
  | pegin =>
    obtain ⟨i, u⟩ := p
    cases h : i.peginGenesis <;> simp [inW, specIn, copyInput, marshalInput, h, optBits]
  | prevOutpoint => simp [inW, specIn, copyInput, marshalInput]
  | asset => simp [inW, specIn, copyInput, marshalInput, copy_asset, assetW_cconfOf]
  | amount => simp [inW, specIn, copyInput, marshalInput, copy_asset, copy_amt, assetW_cconfOf, amtW_camtOf]
  | scriptHash => simp [inW, specIn, copyInput, marshalInput, hashBits]
  | sequence => simp [inW, specIn, copyInput, marshalInput]
  | scriptSigHash => simp [inW, specIn, copyInput, marshalInput, hashBits]
  | annexHash =>
    obtain ⟨i, u⟩ := p
    cases h : getAnnex i.scriptWitness <;> simp [inW, specIn, copyInput, marshalInput, h, optBits, hashBits]
  | reissuanceBlinding =>
    simp only [inW, specIn, copyInput_issuance, copyIssuance_marshal, cissOf]
    cases h : p.1.issKind <;> simp [optBits]
  | newIssuanceContract =>
    simp only [inW, specIn, copyInput_issuance, copyIssuance_marshal, cissOf]
    cases h : p.1.issKind <;> simp [optBits]
  | reissuanceEntropy =>
    simp only [inW, specIn, copyInput_issuance, copyIssuance_marshal, cissOf]
    cases h : p.1.issKind <;> simp [optBits]
  | issuanceAssetAmount =>
    simp only [inW, specIn, copyInput_issuance, copyIssuance_marshal, cissOf]
    cases h : p.1.issKind <;> simp [optBits, amtW_camtOf]
  | issuanceTokenAmount =>
    simp only [inW, specIn, copyInput_issuance, copyIssuance_marshal, cissOf]
    cases h : p.1.issKind
    · simp [optBits]
    · simp [optBits, amtW_camtOf]
    · simp [optBits, amtW_explicit0]
  | issuanceAssetProof =>
    simp only [inW, specIn, copyInput_issuance, copyIssuance_marshal, cissOf]
    cases h : p.1.issKind <;> cases h2 : p.1.amount.isConfidential <;> simp [hashBits, emptyHash]
  | issuanceTokenProof =>
    simp only [inW, specIn, copyInput_issuance, copyIssuance_marshal, cissOf]
    cases h : p.1.issKind <;> cases h2 : p.1.inflationKeys.isConfidential <;> simp [hashBits, emptyHash]


theorem outW_marshal (g : OutGetter) (o : TxOut) :
    outW g (copyOutput (marshalOutput o)) = specOut g o := by
  cases g with
  | asset => simp [outW, specOut, copyOutput, marshalOutput, copy_asset, assetW_cconfOf]
  | amount => simp [outW, specOut, copyOutput, marshalOutput, copy_asset, copy_amt, assetW_cconfOf, amtW_camtOf]
  | nonce => simp [outW, specOut, copyOutput, marshalOutput, copy_nonce, nonceW_cconfOf]
  | scriptHash => simp [outW, specOut, copyOutput, marshalOutput, hashBits]
  | isFee =>
    simp only [outW, specOut, copyOutput, marshalOutput, copy_asset, copy_amt, isFeeSig, TxOut.isFeeShown]
    cases ha : o.asset with
    | null => simp [cconfOf, Conf.isExplicit]
    | explicit d =>
      cases hv : o.value with
      | null => simp [cconfOf, camtOf, Conf.isExplicit, Amount.isConfidential]
      | explicit v => simp [cconfOf, camtOf, Conf.isExplicit, Amount.isConfidential]
      | confidential odd x => cases odd <;> simp [cconfOf, camtOf, Conf.isExplicit, Amount.isConfidential]
    | confidential odd x => cases odd <;> simp [cconfOf, Conf.isExplicit]
  | surjectionProof =>
    simp [outW, specOut, copyOutput, marshalOutput, copy_asset, cconfOf_isConfidential, hashBits]
  | rangeProof =>
    simp [outW, specOut, copyOutput, marshalOutput, copy_amt, camtOf_isConfidential, hashBits]



set_option maxRecDepth 100000 in
theorem leaf_aux : ∀ n, n < 256 → ∀ b : Bool, (UInt8.ofNat n) &&& 1 = 0 →
    ((UInt8.ofNat n) ||| parity b) &&& 0xfe = UInt8.ofNat n := by decide

theorem leaf_version (lv : UInt8) (b : Bool) (h : lv &&& 1 = 0) : (lv ||| parity b) &&& 0xfe = lv := by
  have := leaf_aux lv.toNat lv.toNat_lt b
  simp only [UInt8.ofNat_toNat] at this
  exact this h

theorem seq_final (s : UInt32) : (!decide (s < 0xffffffff)) = (s == 0xffffffff) := by
  have h := s.toNat_lt
  by_cases hs : s = 0xffffffff
  · subst hs; decide
  · have : s.toNat ≠ 4294967295 := fun e => hs (UInt32.toNat_inj.mp (by rw [e]; rfl))
    have hlt : s < 0xffffffff := by
      rw [UInt32.lt_iff_toNat_lt]
      show s.toNat < 4294967295
      omega
    simp [hlt, hs]

theorem flatten_chunk (br : List B32) (i : Nat) (h : i < br.length) :
    (((br.map (·.bytes)).flatten.drop (32 * i)).take 32) = br[i].bytes := by
  induction br generalizing i with
  | nil => simp at h
  | cons x xs ih =>
    cases i with
    | zero =>
      simp only [List.map_cons, List.flatten_cons, Nat.mul_zero, List.drop_zero, List.getElem_cons_zero]
      exact List.take_left' x.len
    | succ k =>
      have hk : k < xs.length := by simpa using h
      simp only [List.map_cons, List.flatten_cons, List.getElem_cons_succ]
      rw [← ih k hk]
      congr 1
      have : 32 * (k + 1) = x.bytes.length + 32 * k := by rw [x.len]; omega
      rw [this, List.drop_append, List.drop_of_length_le (by omega), Nat.add_sub_cancel_left, List.nil_append]



theorem B32.ext_iff' (a b : B32) : a = b ↔ a.bytes = b.bytes := by
  constructor
  · intro h; rw [h]
  · intro h; cases a; cases b; simp_all

def feePred (id : B32) (o : TxOut) : Bool := o.isFee && decide (o.asset = .explicit id)
def feeAmt (o : TxOut) : Nat := match o.value with | .explicit v => v.toNat | _ => 0
def feePredRaw (id : Bytes) (r : RawOutput) : Bool :=
  isFeeRaw r && (((r.asset.getD []).drop 1).take 32 == id)
def feeAmtRaw (r : RawOutput) : Nat := readBE64 ((r.value.getD []).drop 1)

theorem feePred_marshal (id : B32) (o : TxOut) :
    feePredRaw id.bytes (marshalOutput o) = feePred id o := by
  unfold feePredRaw feePred isFeeRaw TxOut.isFee marshalOutput
  cases ha : o.asset with
  | null => simp [confArray, Conf.isNull, Conf.isExplicit]
  | confidential odd x =>
    cases odd <;> simp [confArray, Conf.isNull, Conf.isExplicit, serializeConf, parity]
  | explicit d =>
    cases hv : o.value with
    | null => simp [valuePtr, Amount.isNull, Amount.isExplicit]
    | confidential odd x =>
      cases odd <;> simp [valuePtr, Amount.isNull, Amount.isExplicit, serializeAmount, parity]
    | explicit v =>
      by_cases hd : d.bytes = id.bytes <;>
        simp [confArray, Conf.isNull, Conf.isExplicit, serializeConf, valuePtr, Amount.isNull,
          Amount.isExplicit, serializeAmount, B32.take, B32.ext_iff', hd]

theorem feeAmt_marshal (id : B32) (o : TxOut) (h : feePred id o = true) :
    feeAmtRaw (marshalOutput o) = feeAmt o := by
  unfold feePred TxOut.isFee at h
  unfold feeAmtRaw feeAmt marshalOutput
  cases hv : o.value with
  | null => simp [hv, Amount.isExplicit] at h
  | confidential odd x => simp [hv, Amount.isExplicit] at h
  | explicit v => simp [valuePtr, Amount.isNull, serializeAmount, readBE64_be64]

theorem fee_list (id : B32) (outs : List TxOut) :
    ((outs.map marshalOutput).filter (feePredRaw id.bytes)).map feeAmtRaw =
    (outs.filter (feePred id)).map feeAmt := by
  induction outs with
  | nil => rfl
  | cons o os ih =>
    simp only [List.map_cons, List.filter_cons, feePred_marshal]
    by_cases h : feePred id o = true
    · simp only [h, if_true, List.map_cons, ih, feeAmt_marshal id o h]
    · simp [h, ih]

theorem feeOf_marshal (outs : List TxOut) (id : B32) :
    feeOf (outs.map marshalOutput) id.bytes = specFee outs id := by
  have := fee_list id outs
  unfold feeOf specFee
  unfold feePredRaw feeAmtRaw feePred feeAmt at this
  rw [this]
  rfl


/-- the update loop of `mallocTransaction` computes, from any starting value, the maximum of that
value and the relative locks (BIP 68) of the given kind among the inputs -/
theorem foldl_lockStep {α : Type} (f : α → UInt32) (dur : Bool) (l : List α) (a : Nat) :
    l.foldl (fun a i => lockStep dur a (f i)) a
      = max a ((l.filterMap fun i => relLock dur (f i)).foldr max 0) := by
  induction l generalizing a with
  | nil => simp
  | cons x xs ih =>
    have hlt : (f x < 0x80000000) ↔ (f x).toNat < 2^31 := by
      rw [UInt32.lt_iff_toNat_lt]; rfl
    simp only [List.foldl_cons, ih, List.filterMap_cons]
    unfold lockStep relLock
    by_cases h1 : f x < 0x80000000
    · have h1' := hlt.mp h1
      by_cases h2 : (((f x &&& 0x400000) != 0) == dur) = true
      · simp only [h1, h1', h2, if_true, and_self, List.foldr_cons]
        split <;> omega
      · simp only [h1, h1', h2, if_true, and_false, if_false, Bool.false_eq_true]
    · have h1' : ¬ (f x).toNat < 2^31 := fun h => h1 (hlt.mpr h)
      simp only [h1, h1', if_false, false_and]

/-- the relative-lock maxima the C environment stores are those of the shown inputs -/
theorem lockRel_marshal (dur : Bool) (e : EnvArgs) :
    (marshal e).tx.inputs.foldl (fun a i => lockStep dur a i.sequence) 0
      = (e.shown.filterMap fun p => relLock dur p.1.sequence).foldr max 0 := by
  rw [foldl_lockStep (fun i : RawInput => i.sequence)]
  simp only [marshal, EnvArgs.shown, List.filterMap_map, Nat.zero_max]
  rfl

end Env
