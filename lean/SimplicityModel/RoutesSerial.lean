/-
C12 — the pruned program's own serialisation decodes: assembly of `infer_renumbered` with C01's
`roundtrip_canonical`.

What `finalize_pruned` returns is described on the indices of the unpruned plan (`Routes.finalizePruned`:
arrows `ar'`, values `r'` at the remaining witness nodes).  Its serialisation is a program in the
decoder's form: a wire node list `N` in canonical order that converts to a plan `q` — the remaining
nodes renumbered, hidden nodes as entries of their own.  `finalizePruned_decodes`: the decoder
accepts the serialisation, infers at every node of `q` exactly the arrow `ar'` has at the
corresponding node, and reads back exactly the values `r'`.
-/
import SimplicityModel.RoutesRenumber
import SimplicityModel.RoutesExecProps
import SimplicityModel.Prog.RoundtripProps

set_option linter.unusedSimpArgs false

namespace Routes
open BM4 Prog Wire
open Inf (Eqn)

/-! ### inference on the renumbered plan does not reject -/

theorem nodeEqns_isSome_of_not_jet {jt : JetTypes} (i : Nat) (nd : Node) (f : Nat)
    (h : ∀ name, nd = .jet name → (jt name).isSome = true) : (nodeEqns jt i nd f).isSome = true := by
  cases nd with
  | jet name =>
    have := h name rfl
    cases hj : jt name with
    | none => rw [hj] at this; cases this
    | some st => simp [nodeEqns, hj]
  | disconnect a ob => cases ob <;> rfl
  | _ => rfl

theorem constraintsMGo_isSome {jt : JetTypes} {mask : Nat → Bool} :
    ∀ (nodes : List Node) (i f : Nat) (acc : List Eqn),
      (∀ (k : Nat) (name : String), nodes[k]? = some (Node.jet name) → (jt name).isSome = true) →
      (constraintsMGo jt mask i nodes f acc).isSome = true
  | [], _, _, _, _ => rfl
  | nd :: rest, i, f, acc, h => by
    simp only [constraintsMGo]
    have h0 := nodeEqns_isSome_of_not_jet (jt := jt) i nd f (fun name e => h 0 name (by simp [e]))
    cases hq : nodeEqns jt i nd f with
    | none => rw [hq] at h0; cases h0
    | some x =>
      simp only
      exact constraintsMGo_isSome rest (i + 1) x.2 _ (fun k name hk => h (k + 1) name (by simpa using hk))

theorem constraintsMGo_jets {jt : JetTypes} {mask : Nat → Bool} :
    ∀ (nodes : List Node) (i f : Nat) (acc E : List Eqn),
      constraintsMGo jt mask i nodes f acc = some E →
      ∀ (k : Nat) (name : String), nodes[k]? = some (Node.jet name) → (jt name).isSome = true
  | [], _, _, _, _, _, k, name, hk => by simp at hk
  | nd :: rest, i, f, acc, E, h, k, name, hk => by
    simp only [constraintsMGo] at h
    cases hq : nodeEqns jt i nd f with
    | none => rw [hq] at h; cases h
    | some x =>
      rw [hq] at h
      simp only at h
      cases k with
      | zero =>
        simp only [List.getElem?_cons_zero, Option.some.injEq] at hk
        subst hk
        cases hj : jt name with
        | none => simp [nodeEqns, hj] at hq
        | some _ => rfl
      | succ k =>
        simp only [List.getElem?_cons_succ] at hk
        exact constraintsMGo_jets rest (i + 1) x.2 _ E h k name hk

/-- when the selected nodes of `P` have least typing `arP`, inference on the renumbered plan `q`
answers `ok` or runs out of the driver's fuel — it does not reject -/
theorem infer_renumbered_accepts {jt : JetTypes} {σ σ' : Nat → Nat} {q P : Plan} {mask : Nat → Bool}
    (hR : Renumbers σ σ' q P mask)
    (hshape : ∀ i nd, P[i]? = some nd → mask i = true → shapeOK nd = true ∧ ∀ c ∈ nd.children, c < P.size)
    {arP : Arrows} (hP : inferM jt P mask true = .ok arP) :
    (∃ arQ, infer jt q true = .ok arQ) ∨ infer jt q true = .fuel := by
  rw [infer_eq_inferM]
  have TP := inferM_typing hP hR.ppos hshape
  refine inferM_accepts (typing_pull hR TP) ?_
  -- every jet of `q` is a jet of `P`, whose constraints were generated
  obtain ⟨E, S, hc, _, _⟩ := inferM_ok hP
  unfold constraintsM at hc
  cases hgo : constraintsMGo jt mask 0 P.toList (2 * P.size) [] with
  | none => rw [hgo] at hc; cases hc
  | some es =>
    have hjets := constraintsMGo_jets P.toList 0 (2 * P.size) [] es hgo
    have hq := constraintsMGo_isSome (jt := jt) (mask := fun _ => true) q.toList 0 (2 * q.size) []
      (by
        intro k name hk
        have hk' : q[k]? = some (Node.jet name) := by simpa using hk
        obtain ⟨_, hPk, _, _⟩ := hR.node k _ hk' rfl
        exact hjets (σ k) name (by simpa [mapCh] using hPk))
    cases hgq : constraintsMGo jt (fun _ => true) 0 q.toList (2 * q.size) [] with
    | none => rw [hgq] at hq; cases hq
    | some eq =>
      obtain ⟨E', hE'⟩ : ∃ E', constraintsM jt q (fun _ => true) true = some E' := by
        unfold constraintsM; rw [hgq]; exact ⟨_, rfl⟩
      unfold inferM
      rw [hE']
      simp only
      cases Inf.unify unifyFuel E' [] <;> simp

/-! ### the pruned plan keeps the shape of the plan -/

theorem shapeOK_pruneNode (S : List (Nat × Bool)) (id : Nat) (cm : Nat → Nat) (nd : Node) :
    shapeOK (pruneNode S id cm nd) = shapeOK nd := by
  cases nd with
  | case a b =>
    simp only [pruneNode]
    cases decide ((id, false) ∈ S) <;> cases decide ((id, true) ∈ S) <;> rfl
  | _ => rfl

theorem children_pruneNode (S : List (Nat × Bool)) (id : Nat) (cm : Nat → Nat) (nd : Node) :
    ∀ c ∈ (pruneNode S id cm nd).children, c ∈ nd.children := by
  cases nd with
  | case a b =>
    simp only [pruneNode]
    cases decide ((id, false) ∈ S) <;> cases decide ((id, true) ∈ S) <;> simp [Node.children]
  | _ => intro c hc; exact hc

theorem prunePlan_size (S : List (Nat × Bool)) (ids : Nat → Nat) (cm : Nat → Nat) (p : Plan) :
    (prunePlan S ids cm p).size = p.size := by
  simp [prunePlan, pruneList_length]

theorem prunePlan_shape {p : Plan} (hok : planOK p = true) (S : List (Nat × Bool)) (ids : Nat → Nat)
    (cm : Nat → Nat) (mask : Nat → Bool) :
    ∀ i nd, (prunePlan S ids cm p)[i]? = some nd → mask i = true →
      shapeOK nd = true ∧ ∀ c ∈ nd.children, c < (prunePlan S ids cm p).size := by
  intro i nd hnd _
  rw [prunePlan_getElem?] at hnd
  cases h0 : p[i]? with
  | none => rw [h0] at hnd; cases hnd
  | some nd0 =>
    rw [h0] at hnd
    simp only [Option.map_some, Option.some.injEq] at hnd
    subst hnd
    have hn := planOK_node hok h0
    have hi := lt_of_get? h0
    refine ⟨by rw [shapeOK_pruneNode]; exact nodeOK_shape hn, ?_⟩
    intro c hc
    have := nodeOK_children hn c (children_pruneNode _ _ _ _ c hc)
    rw [prunePlan_size]; omega

/-! ### witness nodes -/

theorem wIdx_mem : ∀ (l : List Node) (i j : Nat), j ∈ wIdx l i → ∃ k, j = i + k ∧ l[k]? = some .witness
  | [], _, _, h => by simp [wIdx] at h
  | nd :: rest, i, j, h => by
    have step : j ∈ wIdx rest (i + 1) → ∃ k, j = i + k ∧ (nd :: rest)[k]? = some .witness := by
      intro h'
      obtain ⟨k, e, hk⟩ := wIdx_mem rest (i + 1) j h'
      exact ⟨k + 1, by omega, by simpa using hk⟩
    cases nd with
    | witness =>
      simp only [wIdx, List.mem_cons] at h
      rcases h with rfl | h
      · exact ⟨0, rfl, rfl⟩
      · exact step h
    | _ => exact step (by simpa [wIdx] using h)

/-! ### assembly -/

/-- **The serialisation of the pruned program decodes, to the same program.**

Setting: `finalize_unpruned` returned a program (`hu`), the model's run of it succeeded with record
`tr` (`hr`), and pruning by that record returned arrows `ar'` and values `r'` (`h`; re-inference in
a context of its own, `leak = false`).  Let the wire node list `N` — a non-empty list of fewer than
2^32 well-formed nodes in canonical order that converts to the plan `q` — be the pruned program
renumbered: `q`'s visible nodes are exactly the remaining nodes of the pruned plan
(`Prog.prunePlan` by the record, restricted to the nodes `cutOf` keeps), children renamed (`hR`).
Hypotheses that remain, all about the rebuilt plan `q` alone: the driver's unification fuel suffices
for `q` (`hfuel`); `q`'s annotations exist — jets have roots and costs in the tables — and **the
identity roots of `q`'s nodes are pairwise different** (`han`: the sharing rule of the decoder; for
a plan with two nodes of one identity root the encoder would have written one node).

Then: (1) inference on `q` — what `RedeemNode::decode` does — succeeds and gives every visible node
exactly the arrow the pruned program has at the corresponding node (the decoder's types are the
pruned program's types); (2) the encoder writes `N` and the compact encodings of the values `r'` in
`q`'s node order; (3) the decoder accepts these two byte strings and returns `q`, those arrows, the
annotations, and as witness values exactly the values `r'`. -/
theorem finalizePruned_decodes (tb : Tables) (hof : ∀ j, tb.ofName (tb.nameOf j) = some j)
    (p : Plan) (cand : Nat → Option Val) (re : RunEnv) (hok : planOK p = true)
    (ar : Arrows) (r : Witnesses) (tr : Trace) (ar' : Arrows) (r' : Witnesses)
    (hu : routeU tb.jetTy p true cand = .ok ar r) (hr : trackedRun p ar r re = .ok tr)
    (h : finalizePruned tb.jetTy false p true cand re = .ok ar' r')
    (N : List (WNode tb.J)) (q : Plan) (σ σ' : Nat → Nat) (cm : Nat → Nat)
    (hN0 : N ≠ []) (hNlt : N.length < 2 ^ 32) (hNok : NodesOk 0 N)
    (hcan : canonicalOk N.toArray = true) (hconv : convert tb.nameOf N.toArray = .ok q)
    (hdisc : ∀ nd ∈ q.toList, ∀ a, nd ≠ .disconnect a none)
    (hR : Renumbers σ σ' q (prunePlan tr.sides re.ids cm p) (cutOf p (sidesOf re.ids tr.sides)).keep)
    (hfuel : infer tb.jetTy q true ≠ .fuel)
    (han : ∀ arQ, infer tb.jetTy q true = .ok arQ →
      ∃ an, annots tb.jetCmr tb.jetCost q arQ (fun j => witBits r' (σ j)) = some an ∧
        (ihrList q an).eraseDups.length = (ihrList q an).length) :
    ∃ arQ an,
      infer tb.jetTy q true = .ok arQ ∧
      (∀ j nd, q[j]? = some nd → isHidden nd = false →
        srcOf arQ j = srcOf ar' (σ j) ∧ tgtOf arQ j = tgtOf ar' (σ j)) ∧
      encode tb.jc tb.ofName q an true (fun j => witBits r' (σ j)) =
        some (padToByte (encProgram tb.jc N),
          padToByte ((wIdx q.toList 0).filterMap fun j => witBits r' (σ j)).flatten) ∧
      decodeRedeem tb (padToByte (encProgram tb.jc N))
          (padToByte ((wIdx q.toList 0).filterMap fun j => witBits r' (σ j)).flatten) =
        .ok ⟨q, arQ, (wIdx q.toList 0).filterMap (fun j => (witBits r' (σ j)).map fun b => (j, b)), an⟩ := by
  -- the pruned program on the old indices
  rw [finalizePruned_of_ok hu hr] at h
  obtain ⟨hi', hc', ht'⟩ := finalize_pruned_ok_or_error_core h
  rw [inferCut_eq_inferM _ _ _ _ cm, cutPlan_eq_prunePlan] at hi'
  have hshape := prunePlan_shape hok tr.sides re.ids cm (cutOf p (sidesOf re.ids tr.sides)).keep
  -- inference on `q`
  obtain ⟨arQ, hQ⟩ : ∃ arQ, infer tb.jetTy q true = .ok arQ := by
    rcases infer_renumbered_accepts hR hshape hi' with hq | hq
    · exact hq
    · exact absurd hq hfuel
  have hty := infer_renumbered hR hshape hi' hQ
  obtain ⟨an, han1, han2⟩ := han arQ hQ
  refine ⟨arQ, an, hQ, hty, ?_⟩
  -- `q` with these arrows and values is in canonical form
  have hcanon : CanonicalPlan tb N q arQ an (fun j => witBits r' (σ j)) := by
    refine ⟨hN0, hNlt, hNok, hcan, hconv, hdisc, hQ, ?_, han1, han2⟩
    intro j hj
    obtain ⟨k, e, hk⟩ := wIdx_mem q.toList 0 j hj
    rw [Nat.zero_add] at e
    subst e
    have hqj : q[j]? = some .witness := by simpa using hk
    obtain ⟨hm, hPj, _, _⟩ := hR.node j _ hqj rfl
    -- `σ j` is a remaining witness node of the plan
    have hpj : p[σ j]? = some .witness := by
      rw [prunePlan_getElem?] at hPj
      cases h0 : p[σ j]? with
      | none => rw [h0] at hPj; cases hPj
      | some nd0 =>
        rw [h0] at hPj
        simp only [Option.map_some, Option.some.injEq, mapCh] at hPj
        cases nd0 with
        | witness => rfl
        | case a b =>
          simp only [pruneNode] at hPj
          cases hd1 : decide ((re.ids (σ j), false) ∈ tr.sides) <;>
            cases hd2 : decide ((re.ids (σ j), true) ∈ tr.sides) <;> simp [hd1, hd2] at hPj
        | _ => simp [pruneNode] at hPj
    have hmem : σ j ∈ (witnessIdx p).filter (cutOf p (sidesOf re.ids tr.sides)).keep :=
      List.mem_filter.2 ⟨mem_witnessIdx.2 hpj, hm⟩
    obtain ⟨v, _, hb, hv⟩ := witBits_idx hc' (List.Pairwise.filter _ (witnessIdx_nodup p)) ht' hmem
    refine ⟨compact v, v, hb, ?_⟩
    have : (arQ.getD j (.one, .one)).2 = tgtOf ar' (σ j) := (hty j _ hqj rfl).2
    rw [this]
    have := decCompact_compact hv []
    simpa using this
  exact roundtrip_canonical tb hof N q arQ an _ hcanon

end Routes
