/-
C08: the plan-level `prune_case` table (`prunePlan`) and the typed-term rewriting (`pruneTerm`) are
the same thing: elaborating the pruned plan *with the arrows of the original plan* gives the
rewritten term of the original plan, with the rewritten labels.  (Re-typing is the other step.)
-/
import SimplicityModel.PruneTerm

set_option linter.unusedSimpArgs false

namespace Prog
open BM4

def subE (e : Env) (f c : Nat) (a b : Ty) : Option (Term a b) := do
  let x ← elabNode e f c
  castT x.2.snd

def elabStep (e : Env) (f i : Nat) (nd : Node) (a b : Ty) : Option (Σ a b, Term a b) :=
  match nd with
  | .iden => do let t ← castT (a' := a) (b' := b) (Term.iden (a := a)); pure ⟨a, b, t⟩
  | .unit => do let t ← castT (a' := a) (b' := b) (Term.unit (a := a)); pure ⟨a, b, t⟩
  | .injl c => match b with
    | .sum b1 c1 => do let t ← subE e f c a b1; pure ⟨a, .sum b1 c1, .injl t⟩
    | _ => none
  | .injr c => match b with
    | .sum b1 c1 => do let t ← subE e f c a c1; pure ⟨a, .sum b1 c1, .injr t⟩
    | _ => none
  | .take c => match a with
    | .prod a1 a2 => do let t ← subE e f c a1 b; pure ⟨.prod a1 a2, b, .take t⟩
    | _ => none
  | .drop c => match a with
    | .prod a1 a2 => do let t ← subE e f c a2 b; pure ⟨.prod a1 a2, b, .drop t⟩
    | _ => none
  | .comp x y => do
    let xm ← e.arrows[x]?
    let s ← subE e f x a xm.2; let t ← subE e f y xm.2 b
    pure ⟨a, b, .comp s t⟩
  | .case x y => match a with
    | .prod (.sum a1 a2) c => do
      let s ← subE e f x (.prod a1 c) b; let t ← subE e f y (.prod a2 c) b
      pure ⟨.prod (.sum a1 a2) c, b, .case s t⟩
    | _ => none
  | .assertl x _ => match a with
    | .prod (.sum a1 a2) c => do
      let s ← subE e f x (.prod a1 c) b
      pure ⟨.prod (.sum a1 a2) c, b, .assertl s⟩
    | _ => none
  | .assertr _ y => match a with
    | .prod (.sum a1 a2) c => do
      let t ← subE e f y (.prod a2 c) b
      pure ⟨.prod (.sum a1 a2) c, b, .assertr t⟩
    | _ => none
  | .pair x y => match b with
    | .prod b1 b2 => do
      let s ← subE e f x a b1; let t ← subE e f y a b2
      pure ⟨a, .prod b1 b2, .pair s t⟩
    | _ => none
  | .disconnect x (some y) => match b with
    | .prod b1 d => do
      let yc ← e.arrows[y]?
      let cw ← valOfCompact (wordTy 8) (bitsOfNat256 (e.cmr.getD y 0))
      let s ← subE e f x (.prod (wordTy 8) a) (.prod b1 yc.1); let t ← subE e f y yc.1 d
      pure ⟨a, .prod b1 d, .disconnect (wordTy 8) cw s t⟩
    | _ => none
  | .disconnect _ none => none
  | .witness => do
    let bits ← e.wit i
    let v ← valOfCompact b bits
    pure ⟨a, b, .witness v⟩
  | .fail _ => pure ⟨a, b, .fail⟩
  | .word n bits => do
    let v ← valOfCompact (wordTy n) bits
    let t ← castT (a' := a) (b' := b) (Term.word (a := .one) (b := wordTy n) v)
    pure ⟨a, b, t⟩
  | .jet name => pure ⟨a, b, .jet (jetJF e name a b) (jetF e name a b)⟩
  | .hidden _ => none

theorem pruneList_getElem? (S : List (Nat × Bool)) (ids : Nat → Nat) (cm : Nat → Nat) :
    ∀ (ns : List Node) (k j : Nat), (pruneList S ids cm k ns)[j]? = (ns[j]?).map (pruneNode S (ids (k + j)) cm)
  | [], _, _ => by simp [pruneList]
  | nd :: ns, k, 0 => by simp [pruneList]
  | nd :: ns, k, j+1 => by
    simp only [pruneList, List.getElem?_cons_succ]
    rw [pruneList_getElem? S ids cm ns (k+1) j]
    have : k + 1 + j = k + (j + 1) := by omega
    rw [this]

theorem prunePlan_getElem? (S : List (Nat × Bool)) (ids : Nat → Nat) (cm : Nat → Nat) (p : Plan) (i : Nat) :
    (prunePlan S ids cm p)[i]? = (p[i]?).map (pruneNode S (ids i) cm) := by
  simp [prunePlan, pruneList_getElem?]

theorem elabNode_succ (e : Env) (f i : Nat) :
    elabNode e (f+1) i = (do
      let nd ← e.plan[i]?
      let ab ← e.arrows[i]?
      elabStep e f i nd ab.1 ab.2) := by
  simp only [elabNode]
  cases e.plan[i]? with
  | none => rfl
  | some nd =>
    cases e.arrows[i]? with
    | none => rfl
    | some ab =>
      obtain ⟨a, b⟩ := ab
      cases nd <;> rfl

theorem castT_some {a b a' b' : Ty} {t : Term a b} {t2 : Term a' b'} (h : castT t = some t2) :
    ∃ (h1 : a = a') (h2 : b = b'), t2 = h1 ▸ h2 ▸ t := by
  unfold castT at h
  by_cases h1 : a = a'
  · by_cases h2 : b = b'
    · simp only [h1, h2, dite_true, Option.some.injEq] at h
      exact ⟨h1, h2, h.symm⟩
    · simp [h1, h2] at h
  · simp [h1] at h

theorem castT_pruneTerm (S : List (Nat × Bool)) (l : Lab) {a b a' b' : Ty} {t : Term a b} {t2 : Term a' b'}
    (h : castT t = some t2) :
    castT (pruneTerm S t l) = some (pruneTerm S t2 l) ∧ pruneLab S t2 l = pruneLab S t l := by
  obtain ⟨h1, h2, rfl⟩ := castT_some h
  subst h1; subst h2
  simp [castT]

variable (S : List (Nat × Bool)) (ids : Nat → Nat) (cm : Nat → Nat)

def envP (e : Env) : Env := { e with plan := prunePlan S ids cm e.plan }

/-- what the induction hypothesis gives for the children -/
def SubOK (e : Env) (f : Nat) : Prop :=
  ∀ (c : Nat) (a b : Ty) (t : Term a b), subE e f c a b = some t →
    subE (envP S ids cm e) f c a b = some (pruneTerm S t (labOf e.plan ids f c)) ∧
    labOf (prunePlan S ids cm e.plan) ids f c = pruneLab S t (labOf e.plan ids f c)

theorem labOf_succ (p : Plan) (f i : Nat) (nd : Node) (h : p[i]? = some nd) :
    labOf p ids (f+1) i = (match nd.children with
      | [] => .leaf (ids i)
      | [c] => .un (ids i) (labOf p ids f c)
      | c :: d :: _ => .bin (ids i) (labOf p ids f c) (labOf p ids f d)) := by
  simp only [labOf, h]
  rfl


@[simp] theorem envP_arrows (e : Env) : (envP S ids cm e).arrows = e.arrows := rfl
@[simp] theorem envP_wit (e : Env) : (envP S ids cm e).wit = e.wit := rfl
@[simp] theorem envP_cmr (e : Env) : (envP S ids cm e).cmr = e.cmr := rfl
@[simp] theorem envP_plan (e : Env) : (envP S ids cm e).plan = prunePlan S ids cm e.plan := rfl
theorem jetF_envP (e : Env) (n : String) (a b : Ty) : jetF (envP S ids cm e) n a b = jetF e n a b := rfl
theorem jetJF_envP (e : Env) (n : String) (a b : Ty) : jetJF (envP S ids cm e) n a b = jetJF e n a b := rfl

/-- a leaf obtained by a cast of a constant term is left alone -/
theorem leaf_cast (l : Lab) {a b a' b' : Ty} {t0 : Term a b} {t : Term a' b'}
    (h0 : pruneTerm S t0 l = t0) (hl : pruneLab S t0 l = .leaf l.id) (h : castT t0 = some t) :
    pruneTerm S t l = t ∧ pruneLab S t l = .leaf l.id := by
  obtain ⟨h1, h2, rfl⟩ := castT_some h
  subst h1; subst h2
  exact ⟨h0, hl⟩

/-- **one node**: given the statement for the children (`SubOK`), elaborating the rewritten node
gives the rewritten term and labels -/
theorem elabStep_prune (e : Env) (f i : Nat) (nd : Node) (a b : Ty) (x : Σ a b, Term a b)
    (IH : SubOK S ids cm e f) (hnd : e.plan[i]? = some nd) (h : elabStep e f i nd a b = some x) :
    elabStep (envP S ids cm e) f i (pruneNode S (ids i) cm nd) a b =
      some ⟨x.1, x.2.1, pruneTerm S x.2.2 (labOf e.plan ids (f+1) i)⟩ ∧
    labOf (prunePlan S ids cm e.plan) ids (f+1) i = pruneLab S x.2.2 (labOf e.plan ids (f+1) i) := by
  have hnd' : (prunePlan S ids cm e.plan)[i]? = some (pruneNode S (ids i) cm nd) := by
    rw [prunePlan_getElem?, hnd]; rfl
  rw [labOf_succ ids _ f i _ hnd, labOf_succ ids _ f i _ hnd']
  cases nd with
  | injl c =>
    cases b with
    | sum b1 c1 =>
      simp only [elabStep, Option.bind_eq_bind, Option.pure_def, Option.bind_eq_some_iff, Option.some.injEq] at h
      obtain ⟨t, ht, rfl⟩ := h
      obtain ⟨e1, e2⟩ := IH c a b1 t ht
      simp only [elabStep, Option.bind_eq_bind, Option.pure_def, Option.bind_some, Node.children, pruneNode, pruneTerm, pruneLab, Lab.fst_un, Lab.fst_bin, Lab.snd_bin, Lab.id_un, Lab.id_bin, Lab.id_leaf, envP_arrows, envP_wit, envP_cmr, jetF_envP, jetJF_envP, and_self, e1, e2]
    | _ => simp [elabStep] at h
  | injr c =>
    cases b with
    | sum b1 c1 =>
      simp only [elabStep, Option.bind_eq_bind, Option.pure_def, Option.bind_eq_some_iff, Option.some.injEq] at h
      obtain ⟨t, ht, rfl⟩ := h
      obtain ⟨e1, e2⟩ := IH c a c1 t ht
      simp only [elabStep, Option.bind_eq_bind, Option.pure_def, Option.bind_some, Node.children, pruneNode, pruneTerm, pruneLab, Lab.fst_un, Lab.fst_bin, Lab.snd_bin, Lab.id_un, Lab.id_bin, Lab.id_leaf, envP_arrows, envP_wit, envP_cmr, jetF_envP, jetJF_envP, and_self, e1, e2]
    | _ => simp [elabStep] at h
  | take c =>
    cases a with
    | prod a1 a2 =>
      simp only [elabStep, Option.bind_eq_bind, Option.pure_def, Option.bind_eq_some_iff, Option.some.injEq] at h
      obtain ⟨t, ht, rfl⟩ := h
      obtain ⟨e1, e2⟩ := IH c a1 b t ht
      simp only [elabStep, Option.bind_eq_bind, Option.pure_def, Option.bind_some, Node.children, pruneNode, pruneTerm, pruneLab, Lab.fst_un, Lab.fst_bin, Lab.snd_bin, Lab.id_un, Lab.id_bin, Lab.id_leaf, envP_arrows, envP_wit, envP_cmr, jetF_envP, jetJF_envP, and_self, e1, e2]
    | _ => simp [elabStep] at h
  | drop c =>
    cases a with
    | prod a1 a2 =>
      simp only [elabStep, Option.bind_eq_bind, Option.pure_def, Option.bind_eq_some_iff, Option.some.injEq] at h
      obtain ⟨t, ht, rfl⟩ := h
      obtain ⟨e1, e2⟩ := IH c a2 b t ht
      simp only [elabStep, Option.bind_eq_bind, Option.pure_def, Option.bind_some, Node.children, pruneNode, pruneTerm, pruneLab, Lab.fst_un, Lab.fst_bin, Lab.snd_bin, Lab.id_un, Lab.id_bin, Lab.id_leaf, envP_arrows, envP_wit, envP_cmr, jetF_envP, jetJF_envP, and_self, e1, e2]
    | _ => simp [elabStep] at h
  | comp x y =>
    simp only [elabStep, Option.bind_eq_bind, Option.pure_def, Option.bind_eq_some_iff, Option.some.injEq] at h
    obtain ⟨xm, hxm, s, hs, t, ht, rfl⟩ := h
    obtain ⟨e1, e2⟩ := IH x a xm.2 s hs
    obtain ⟨e3, e4⟩ := IH y xm.2 b t ht
    simp only [elabStep, Option.bind_eq_bind, Option.pure_def, Option.bind_some, Node.children, pruneNode, pruneTerm, pruneLab, Lab.fst_un, Lab.fst_bin, Lab.snd_bin, Lab.id_un, Lab.id_bin, Lab.id_leaf, envP_arrows, envP_wit, envP_cmr, jetF_envP, jetJF_envP, and_self, hxm, e1, e2, e3, e4]
  | pair x y =>
    cases b with
    | prod b1 b2 =>
      simp only [elabStep, Option.bind_eq_bind, Option.pure_def, Option.bind_eq_some_iff, Option.some.injEq] at h
      obtain ⟨s, hs, t, ht, rfl⟩ := h
      obtain ⟨e1, e2⟩ := IH x a b1 s hs
      obtain ⟨e3, e4⟩ := IH y a b2 t ht
      simp only [elabStep, Option.bind_eq_bind, Option.pure_def, Option.bind_some, Node.children, pruneNode, pruneTerm, pruneLab, Lab.fst_un, Lab.fst_bin, Lab.snd_bin, Lab.id_un, Lab.id_bin, Lab.id_leaf, envP_arrows, envP_wit, envP_cmr, jetF_envP, jetJF_envP, and_self, e1, e2, e3, e4]
    | _ => simp [elabStep] at h
  | assertl x hh =>
    cases a with
    | prod a0 c =>
      cases a0 with
      | sum a1 a2 =>
        simp only [elabStep, Option.bind_eq_bind, Option.pure_def, Option.bind_eq_some_iff, Option.some.injEq] at h
        obtain ⟨s, hs, rfl⟩ := h
        obtain ⟨e1, e2⟩ := IH x (.prod a1 c) b s hs
        simp only [elabStep, Option.bind_eq_bind, Option.pure_def, Option.bind_some, Node.children, pruneNode, pruneTerm, pruneLab, Lab.fst_un, Lab.fst_bin, Lab.snd_bin, Lab.id_un, Lab.id_bin, Lab.id_leaf, envP_arrows, envP_wit, envP_cmr, jetF_envP, jetJF_envP, and_self, e1, e2]
      | _ => simp [elabStep] at h
    | _ => simp [elabStep] at h
  | assertr hh y =>
    cases a with
    | prod a0 c =>
      cases a0 with
      | sum a1 a2 =>
        simp only [elabStep, Option.bind_eq_bind, Option.pure_def, Option.bind_eq_some_iff, Option.some.injEq] at h
        obtain ⟨t, ht, rfl⟩ := h
        obtain ⟨e1, e2⟩ := IH y (.prod a2 c) b t ht
        simp only [elabStep, Option.bind_eq_bind, Option.pure_def, Option.bind_some, Node.children, pruneNode, pruneTerm, pruneLab, Lab.fst_un, Lab.fst_bin, Lab.snd_bin, Lab.id_un, Lab.id_bin, Lab.id_leaf, envP_arrows, envP_wit, envP_cmr, jetF_envP, jetJF_envP, and_self, e1, e2]
      | _ => simp [elabStep] at h
    | _ => simp [elabStep] at h
  | case x y =>
    cases a with
    | prod a0 c =>
      cases a0 with
      | sum a1 a2 =>
        simp only [elabStep, Option.bind_eq_bind, Option.pure_def, Option.bind_eq_some_iff, Option.some.injEq] at h
        obtain ⟨s, hs, t, ht, rfl⟩ := h
        obtain ⟨e1, e2⟩ := IH x (.prod a1 c) b s hs
        obtain ⟨e3, e4⟩ := IH y (.prod a2 c) b t ht
        by_cases n1 : (ids i, false) ∈ S <;> by_cases n2 : (ids i, true) ∈ S <;>
          simp [elabStep, Option.bind_eq_bind, Option.pure_def, Option.bind_some, Node.children, pruneNode, pruneTerm, pruneLab, Lab.fst_un, Lab.fst_bin, Lab.snd_bin, Lab.id_un, Lab.id_bin, Lab.id_leaf, envP_arrows, envP_wit, envP_cmr, jetF_envP, jetJF_envP, and_self, n1, n2, e1, e2, e3, e4]
      | _ => simp [elabStep] at h
    | _ => simp [elabStep] at h
  | disconnect x oy =>
    cases oy with
    | none => simp [elabStep] at h
    | some y =>
      cases b with
      | prod b1 d =>
        simp only [elabStep, Option.bind_eq_bind, Option.pure_def, Option.bind_eq_some_iff, Option.some.injEq] at h
        obtain ⟨yc, hyc, cw, hcw, s, hs, t, ht, rfl⟩ := h
        obtain ⟨e1, e2⟩ := IH x (.prod (wordTy 8) a) (.prod b1 yc.1) s hs
        obtain ⟨e3, e4⟩ := IH y yc.1 d t ht
        simp only [elabStep, Option.bind_eq_bind, Option.pure_def, Option.bind_some, Node.children, pruneNode, pruneTerm, pruneLab, Lab.fst_un, Lab.fst_bin, Lab.snd_bin, Lab.id_un, Lab.id_bin, Lab.id_leaf, envP_arrows, envP_wit, envP_cmr, jetF_envP, jetJF_envP, and_self, hyc, hcw, e1, e2, e3, e4]
      | _ => simp [elabStep] at h
  | iden =>
    simp only [elabStep, Option.bind_eq_bind, Option.pure_def, Option.bind_eq_some_iff, Option.some.injEq] at h
    obtain ⟨t, ht, rfl⟩ := h
    obtain ⟨p1, p2⟩ := leaf_cast S (.leaf (ids i)) (t0 := (Term.iden : Term a a)) rfl rfl ht
    simp only [elabStep, Option.bind_eq_bind, Option.pure_def, Option.bind_some, Node.children, pruneNode, pruneTerm, pruneLab, Lab.fst_un, Lab.fst_bin, Lab.snd_bin, Lab.id_un, Lab.id_bin, Lab.id_leaf, envP_arrows, envP_wit, envP_cmr, jetF_envP, jetJF_envP, and_self, ht, p1, p2]
  | unit =>
    simp only [elabStep, Option.bind_eq_bind, Option.pure_def, Option.bind_eq_some_iff, Option.some.injEq] at h
    obtain ⟨t, ht, rfl⟩ := h
    obtain ⟨p1, p2⟩ := leaf_cast S (.leaf (ids i)) (t0 := (Term.unit : Term a .one)) rfl rfl ht
    simp only [elabStep, Option.bind_eq_bind, Option.pure_def, Option.bind_some, Node.children, pruneNode, pruneTerm, pruneLab, Lab.fst_un, Lab.fst_bin, Lab.snd_bin, Lab.id_un, Lab.id_bin, Lab.id_leaf, envP_arrows, envP_wit, envP_cmr, jetF_envP, jetJF_envP, and_self, ht, p1, p2]
  | witness =>
    simp only [elabStep, Option.bind_eq_bind, Option.pure_def, Option.bind_eq_some_iff, Option.some.injEq] at h
    obtain ⟨bits, hb, v, hv, rfl⟩ := h
    simp only [elabStep, Option.bind_eq_bind, Option.pure_def, Option.bind_some, Node.children, pruneNode, pruneTerm, pruneLab, Lab.fst_un, Lab.fst_bin, Lab.snd_bin, Lab.id_un, Lab.id_bin, Lab.id_leaf, envP_arrows, envP_wit, envP_cmr, jetF_envP, jetJF_envP, and_self, hb, hv]
  | fail en =>
    simp only [elabStep, Option.bind_eq_bind, Option.pure_def, Option.bind_eq_some_iff, Option.some.injEq] at h
    subst h
    simp only [elabStep, Option.bind_eq_bind, Option.pure_def, Option.bind_some, Node.children, pruneNode, pruneTerm, pruneLab, Lab.fst_un, Lab.fst_bin, Lab.snd_bin, Lab.id_un, Lab.id_bin, Lab.id_leaf, envP_arrows, envP_wit, envP_cmr, jetF_envP, jetJF_envP, and_self]
  | word n bits =>
    simp only [elabStep, Option.bind_eq_bind, Option.pure_def, Option.bind_eq_some_iff, Option.some.injEq] at h
    obtain ⟨v, hv, t, ht, rfl⟩ := h
    obtain ⟨p1, p2⟩ := leaf_cast S (.leaf (ids i)) (t0 := (Term.word v : Term .one (wordTy n))) rfl rfl ht
    simp only [elabStep, Option.bind_eq_bind, Option.pure_def, Option.bind_some, Node.children, pruneNode, pruneTerm, pruneLab, Lab.fst_un, Lab.fst_bin, Lab.snd_bin, Lab.id_un, Lab.id_bin, Lab.id_leaf, envP_arrows, envP_wit, envP_cmr, jetF_envP, jetJF_envP, and_self, hv, ht, p1, p2]
  | jet name =>
    simp only [elabStep, Option.bind_eq_bind, Option.pure_def, Option.bind_eq_some_iff, Option.some.injEq] at h
    subst h
    simp only [elabStep, Option.bind_eq_bind, Option.pure_def, Option.bind_some, Node.children, pruneNode, pruneTerm, pruneLab, Lab.fst_un, Lab.fst_bin, Lab.snd_bin, Lab.id_un, Lab.id_bin, Lab.id_leaf, envP_arrows, envP_wit, envP_cmr, jetF_envP, jetJF_envP, and_self]
  | hidden hh => simp [elabStep] at h

/-- **plan level = term level** for the `Pruner` step: if node `i` of the plan elaborates (with its
arrows, witnesses, roots and jets) to the term `t`, then node `i` of the pruned plan elaborates —
with the *same* arrows — to `pruneTerm S t` taken at the labels of the plan, and the labels of
the pruned plan are `pruneLab S t` of them -/
theorem elabNode_prunePlan (e : Env) : ∀ (f i : Nat) (x : Σ a b, Term a b), elabNode e f i = some x →
    elabNode (envP S ids cm e) f i = some ⟨x.1, x.2.1, pruneTerm S x.2.2 (labOf e.plan ids f i)⟩ ∧
    labOf (prunePlan S ids cm e.plan) ids f i = pruneLab S x.2.2 (labOf e.plan ids f i) := by
  intro f
  induction f with
  | zero => intro i x h; simp [elabNode] at h
  | succ f ih =>
    intro i x h
    have IH : SubOK S ids cm e f := by
      intro c a b t ht
      simp only [subE, Option.bind_eq_bind, Option.bind_eq_some_iff] at ht
      obtain ⟨y, hy, hc⟩ := ht
      obtain ⟨e1, e2⟩ := ih c y hy
      obtain ⟨c1, c2⟩ := castT_pruneTerm S (labOf e.plan ids f c) hc
      refine ⟨?_, ?_⟩
      · simp only [subE, Option.bind_eq_bind, e1, Option.bind_some]
        exact c1
      · rw [e2, c2]
    rw [elabNode_succ] at h ⊢
    simp only [Option.bind_eq_bind, Option.bind_eq_some_iff] at h
    obtain ⟨nd, hnd, ab, hab, hstep⟩ := h
    obtain ⟨e1, e2⟩ := elabStep_prune S ids cm e f i nd ab.1 ab.2 x IH hnd hstep
    refine ⟨?_, e2⟩
    simp only [envP_plan, envP_arrows, prunePlan_getElem?, hnd, hab, Option.map_some, Option.bind_eq_bind,
      Option.bind_some]
    exact e1

end Prog
