/-
Termination of the union–find part: ranks strictly increase along parent links and are bounded by
the number of elements (each rank bump removes a root), so `root_element` finds a root with fuel
`elems.size + 1`; linking two roots by rank keeps this invariant and removes one root.
-/
import SimplicityModel.UnionBoundSpec

namespace UB
open Inf (Ty)

def isRootAt (c : Ctx) (e : Nat) : Bool :=
  match c.elems[e]? with
  | some i => (match i.data with | .root _ => true | .equalTo _ => false)
  | none => false

/-- number of roots among the elements `0 … n-1` -/
def rootsBelow (c : Ctx) : Nat → Nat
  | 0 => 0
  | n+1 => rootsBelow c n + (if isRootAt c n then 1 else 0)

/-- number of classes -/
def nroots (c : Ctx) : Nat := rootsBelow c c.elems.size

theorem rootsBelow_congr {c c' : Ctx} : ∀ n, (∀ e, e < n → isRootAt c' e = isRootAt c e) →
    rootsBelow c' n = rootsBelow c n
  | 0, _ => rfl
  | n+1, h => by
    simp only [rootsBelow, h n (Nat.lt_succ_self n),
      rootsBelow_congr n (fun e he => h e (Nat.lt_succ_of_lt he))]

theorem rootsBelow_le (c : Ctx) : ∀ n, rootsBelow c n ≤ n
  | 0 => Nat.le_refl 0
  | n+1 => by
    have := rootsBelow_le c n
    simp only [rootsBelow]; split <;> omega

/-- turning the root `Y` into a child removes exactly one root -/
theorem rootsBelow_unroot {c c' : Ctx} {Y : Nat} (hY : isRootAt c Y = true) (hY' : isRootAt c' Y = false)
    (hoth : ∀ e, e ≠ Y → isRootAt c' e = isRootAt c e) :
    ∀ n, Y < n → rootsBelow c' n + 1 = rootsBelow c n
  | 0, h => absurd h (Nat.not_lt_zero _)
  | n+1, h => by
    simp only [rootsBelow]
    by_cases hn : Y = n
    · subst hn
      rw [hY, hY', rootsBelow_congr Y (fun e he => hoth e (Nat.ne_of_lt he))]
      simp
    · have hlt : Y < n := by omega
      rw [hoth n (Ne.symm hn), ← rootsBelow_unroot hY hY' hoth n hlt]
      omega

/-- ranks strictly increase along parent links and `rank + #roots ≤ #elements` -/
structure RankInv (c : Ctx) : Prop where
  par : ∀ (e : Nat) (i : UbInner) (p : Nat), c.elems[e]? = some i → i.data = .equalTo p →
    ∃ ip : UbInner, c.elems[p]? = some ip ∧ i.rank < ip.rank
  bound : ∀ (e : Nat) (i : UbInner), c.elems[e]? = some i → i.rank + nroots c ≤ c.elems.size

/-- a step that only rewires non-root parent pointers -/
structure Stable (c c' : Ctx) : Prop where
  rank : RankInv c'
  esize : c'.elems.size = c.elems.size
  slab : c'.slab = c.slab
  roots : nroots c' = nroots c

theorem Stable.refl {c : Ctx} (r : RankInv c) : Stable c c := ⟨r, rfl, rfl, rfl⟩

theorem Stable.trans {a b c : Ctx} (h : Stable a b) (h' : Stable b c) : Stable a c :=
  ⟨h'.rank, h'.esize.trans h.esize, h'.slab.trans h.slab, h'.roots.trans h.roots⟩

theorem isRootAt_setData_ne (c : Ctx) (x : Nat) (d : UbData) {e : Nat} (h : e ≠ x) :
    isRootAt (setData c x d) e = isRootAt c e := by
  unfold isRootAt
  rw [setData_get, if_neg (Ne.symm h)]

theorem setData_size (c : Ctx) (x : Nat) (d : UbData) : (setData c x d).elems.size = c.elems.size := by
  simp [setData]

/-- every record keeps its rank under `setData` -/
theorem setData_rank (c : Ctx) (x : Nat) (d : UbData) {e : Nat} {i : UbInner}
    (h : c.elems[e]? = some i) : ∃ i', (setData c x d).elems[e]? = some i' ∧ i'.rank = i.rank := by
  rw [setData_get]
  split
  · exact ⟨{ i with data := d }, by rw [h]; rfl, rfl⟩
  · exact ⟨i, h, rfl⟩

theorem setData_rank' (c : Ctx) (x : Nat) (d : UbData) {e : Nat} {i' : UbInner}
    (h : (setData c x d).elems[e]? = some i') :
    ∃ i, c.elems[e]? = some i ∧ i'.rank = i.rank ∧ (e ≠ x → i' = i) ∧ (e = x → i'.data = d) := by
  rw [setData_get] at h
  split at h
  · next hx =>
    cases hc : c.elems[e]? with
    | none => rw [hc] at h; cases h
    | some i =>
      rw [hc] at h
      simp only [Option.map_some, Option.some.injEq] at h
      subst h
      exact ⟨i, rfl, rfl, fun hne => absurd hx.symm hne, fun _ => rfl⟩
  · next hx => exact ⟨i', h, rfl, fun _ => rfl, fun he => absurd he.symm hx⟩

/-- path halving keeps the invariant -/
theorem halve_stable {c : Ctx} (ri : RankInv c) {x p g : Nat} {ix ip : UbInner}
    (hx : c.elems[x]? = some ix) (hxd : ix.data = .equalTo p)
    (hp : c.elems[p]? = some ip) (hpd : ip.data = .equalTo g) :
    Stable c (setData c x (.equalTo g)) := by
  have hroots : nroots (setData c x (.equalTo g)) = nroots c := by
    unfold nroots
    rw [setData_size]
    apply rootsBelow_congr
    intro e _
    by_cases he : e = x
    · subst he
      unfold isRootAt
      rw [setData_get, if_pos rfl, hx]
      simp [hxd]
    · exact isRootAt_setData_ne c x _ he
  refine ⟨⟨?_, ?_⟩, setData_size _ _ _, rfl, hroots⟩
  · intro e i' q hi hd
    obtain ⟨i, hi0, hr, hne, heq⟩ := setData_rank' c x _ hi
    by_cases he : e = x
    · subst he
      rw [hx] at hi0; cases hi0
      have := heq rfl
      rw [this] at hd; cases hd
      obtain ⟨ip', hip', hlt1⟩ := ri.par e ix p hx hxd
      rw [hp] at hip'; cases hip'
      obtain ⟨ig, hig, hlt2⟩ := ri.par p ip g hp hpd
      obtain ⟨ig', hig', hr'⟩ := setData_rank c e (.equalTo g) hig
      exact ⟨ig', hig', by omega⟩
    · have := hne he
      subst this
      obtain ⟨iq, hiq, hlt⟩ := ri.par e i' q hi0 hd
      obtain ⟨iq', hiq', hr'⟩ := setData_rank c x (.equalTo g) hiq
      exact ⟨iq', hiq', by omega⟩
  · intro e i' hi
    obtain ⟨i, hi0, hr, _, _⟩ := setData_rank' c x _ hi
    rw [hroots, setData_size, hr]
    exact ri.bound e i hi0

/-- **`root_element` terminates**: with fuel above `elems.size - rank x` it returns a root -/
theorem rootElement_total : ∀ (F : Nat) (c : Ctx) (x : Nat), RankInv c → 0 < F →
    (∀ ix, c.elems[x]? = some ix → c.elems.size < F + ix.rank) →
    (∀ e, rootElement F c x = .error e → e = .panic) ∧
    (∀ c' r, rootElement F c x = .ok (c', r) → Stable c c')
  | 0, c, x, ri, h0, hF => absurd h0 (Nat.lt_irrefl 0)
  | F+1, c, x, ri, _, hF => by
    unfold rootElement
    split
    · next e he => exact ⟨(fun e' h => by cases h; exact getElem_err he), (fun c' r h => by cases h)⟩
    · next ix hix =>
      have hix' := getElem_ok.1 hix
      split
      · exact ⟨(fun e h => by cases h), (fun c' r h => by cases h; exact Stable.refl ri)⟩
      · next p hp =>
        split
        · next e he => exact ⟨(fun e' h => by cases h; exact getElem_err he), (fun c' r h => by cases h)⟩
        · next ip hip =>
          have hip' := getElem_ok.1 hip
          split
          · exact ⟨(fun e h => by cases h), (fun c' r h => by cases h; exact Stable.refl ri)⟩
          · next g hg =>
            have st := halve_stable ri hix' hp hip' hg
            obtain ⟨ip2, hip2, hlt1⟩ := ri.par x ix p hix' hp
            rw [hip'] at hip2; cases hip2
            obtain ⟨ig, hig, hlt2⟩ := ri.par p ip g hip' hg
            have hsz := hF ix hix'
            have hbg := ri.bound g ig hig
            have hF' : ∀ ig', (setData c x (.equalTo g)).elems[g]? = some ig' →
                (setData c x (.equalTo g)).elems.size < F + ig'.rank := by
              intro ig' hig'
              obtain ⟨i0, hi0, hr, _, _⟩ := setData_rank' c x _ hig'
              rw [hig] at hi0; cases hi0
              rw [setData_size, hr]; omega
            have hFpos : 0 < F := by omega
            obtain ⟨h1, h2⟩ := rootElement_total F (setData c x (.equalTo g)) g st.rank hFpos hF'
            exact ⟨h1, fun c' r h => st.trans (h2 c' r h)⟩

/-- an outcome that is not "out of fuel" -/
def NoFuel {α : Type} (r : M α) : Prop := r ≠ .error .fuel

theorem NoFuel.of_panic {α : Type} {r : M α} (h : ∀ e, r = .error e → e = .panic) : NoFuel r := by
  intro hr; have := h _ hr; cases this

theorem rootElement_nofuel {F : Nat} {c : Ctx} (ri : RankInv c) (hF : c.elems.size < F) (x : Nat) :
    NoFuel (rootElement F c x) ∧ ∀ c' r, rootElement F c x = .ok (c', r) → Stable c c' := by
  obtain ⟨h1, h2⟩ := rootElement_total F c x ri (by omega) (fun ix _ => by omega)
  exact ⟨NoFuel.of_panic h1, h2⟩

theorem rootRef_nofuel {F : Nat} {c : Ctx} (ri : RankInv c) (hF : c.elems.size < F) (x : Nat) :
    NoFuel (rootRef F c x) ∧ ∀ c' b, rootRef F c x = .ok (c', b) → Stable c c' := by
  obtain ⟨h1, h2⟩ := rootElement_nofuel ri hF x
  unfold rootRef
  split
  · next e he => exact ⟨(fun h => by cases h; exact h1 he), (fun c' b h => by cases h)⟩
  · next c1 r hr =>
    have st := h2 c1 r hr
    unfold unwrapRoot
    split
    · next e he =>
      constructor
      · intro h; cases h
        split at he
        · next e' he' => cases he; exact absurd (getElem_err he') (by decide)
        · split at he <;> cases he
      · intro c' b h; cases h
    · next b hb =>
      exact ⟨(fun h => by cases h), (fun c' b' h => by cases h; exact st)⟩

theorem completePairData_nofuel {F : Nat} {c : Ctx} (ri : RankInv c) (hF : c.elems.size < F)
    (i1 i2 : Nat) : NoFuel (completePairData F c i1 i2) ∧
    ∀ c' res, completePairData F c i1 i2 = .ok (c', res) → Stable c c' := by
  unfold completePairData
  obtain ⟨h1, h2⟩ := rootRef_nofuel ri hF i1
  split
  · next e he => exact ⟨(fun h => by cases h; exact h1 he), (fun c' res h => by cases h)⟩
  · next c1 idx1 hr1 =>
    have st1 := h2 c1 idx1 hr1
    obtain ⟨h3, h4⟩ := rootRef_nofuel st1.rank (st1.esize ▸ hF) i2
    split
    · next e he => exact ⟨(fun h => by cases h; exact h3 he), (fun c' res h => by cases h)⟩
    · next c2 idx2 hr2 =>
      have st2 := st1.trans (h4 c2 idx2 hr2)
      split
      · next e he => exact ⟨(fun h => by cases h; exact absurd (getBound_err he) (by decide)), (fun c' res h => by cases h)⟩
      · next e he _ => exact ⟨(fun h => by cases h; exact absurd (getBound_err he) (by decide)), (fun c' res h => by cases h)⟩
      · exact ⟨(fun h => by cases h), (fun c' res h => by cases h; exact st2)⟩
      · exact ⟨(fun h => by cases h), (fun c' res h => by cases h; exact st2)⟩

/-- linking the root `Y` below the root `X` (whose rank goes up by `δ ≤ 1`, above `Y`'s) -/
theorem link_general {c c' : Ctx} (ri : RankInv c) {X Y δ : Nat} {ix iy : UbInner}
    (hX : c.elems[X]? = some ix) (hXr : isRootAt c X = true)
    (hY : c.elems[Y]? = some iy) (hYr : isRootAt c Y = true) (hne : X ≠ Y) (hδ : δ ≤ 1)
    (hlt : iy.rank < ix.rank + δ) (hsz : c'.elems.size = c.elems.size)
    (hget : ∀ (e : Nat) (i : UbInner), c.elems[e]? = some i → ∃ i' : UbInner, c'.elems[e]? = some i' ∧
      (e ≠ Y → i'.data = i.data) ∧ (e = Y → i'.data = .equalTo X) ∧
      (e ≠ X → i'.rank = i.rank) ∧ (e = X → i'.rank = i.rank + δ))
    (hget' : ∀ (e : Nat) (i' : UbInner), c'.elems[e]? = some i' → ∃ i : UbInner, c.elems[e]? = some i) :
    RankInv c' ∧ nroots c' + 1 = nroots c := by
  have hYlt : Y < c.elems.size := by
    rcases Nat.lt_or_ge Y c.elems.size with h | h
    · exact h
    · rw [Array.getElem?_eq_none h] at hY; cases hY
  have hroot_ne : ∀ e, e ≠ Y → isRootAt c' e = isRootAt c e := by
    intro e he
    unfold isRootAt
    cases hc : c.elems[e]? with
    | none =>
      cases hc' : c'.elems[e]? with
      | none => rfl
      | some i' => obtain ⟨i, hi⟩ := hget' e i' hc'; rw [hc] at hi; cases hi
    | some i =>
      obtain ⟨i', hi', hd, _, _, _⟩ := hget e i hc
      rw [hi']
      dsimp only
      rw [hd he]
  have hrootY : isRootAt c' Y = false := by
    obtain ⟨i', hi', _, hd, _, _⟩ := hget Y iy hY
    unfold isRootAt; rw [hi']; dsimp only; rw [hd rfl]
  have hroots : nroots c' + 1 = nroots c := by
    unfold nroots; rw [hsz]
    exact rootsBelow_unroot hYr hrootY hroot_ne _ hYlt
  refine ⟨⟨?_, ?_⟩, hroots⟩
  · intro e i' q hi' hd
    obtain ⟨i, hi⟩ := hget' e i' hi'
    obtain ⟨i2, hi2, hdne, hdY, hrne, hrX⟩ := hget e i hi
    rw [hi'] at hi2; cases hi2
    by_cases heY : e = Y
    · subst heY
      rw [hY] at hi; cases hi
      rw [hdY rfl] at hd; cases hd
      obtain ⟨ix', hix', _, _, _, hr⟩ := hget X ix hX
      exact ⟨ix', hix', by rw [hr rfl, hrne (Ne.symm hne)]; exact hlt⟩
    · rw [hdne heY] at hd
      have heX : e ≠ X := by
        rintro rfl
        rw [hX] at hi; cases hi
        unfold isRootAt at hXr; rw [hX] at hXr; dsimp only at hXr; rw [hd] at hXr; cases hXr
      obtain ⟨iq, hiq, hlt'⟩ := ri.par e i q hi hd
      obtain ⟨iq', hiq', _, _, hqne, hqX⟩ := hget q iq hiq
      refine ⟨iq', hiq', ?_⟩
      rw [hrne heX]
      by_cases hq : q = X
      · rw [hqX hq]; omega
      · rw [hqne hq]; exact hlt'
  · intro e i' hi'
    obtain ⟨i, hi⟩ := hget' e i' hi'
    obtain ⟨i2, hi2, _, _, hrne, hrX⟩ := hget e i hi
    rw [hi'] at hi2; cases hi2
    have hb := ri.bound e i hi
    rw [hsz]
    by_cases heX : e = X
    · rw [hrX heX]; omega
    · rw [hrne heX]; omega

end UB
