/-
C06 — the Rust Bit Machine and libsimplicity's evaluator reach the same verdict.

What is proved here is about the *model's* verdict, `Prog.evalK` (the evaluator with failure kinds
that the driver's `verdict` verb runs on the term elaborated from the plan, jets answering from the
calls recorded on the Rust run): it is a function of program, witness and the recorded jet calls;
failures are decided left to right, first failure wins; and the Bit Machine model of C05
(`for_program` + `input` + `exec`) has exactly that verdict.  libsimplicity's TCO evaluator is *not*
modelled: it is tied to this verdict only by the sampled three-way comparison of the harness.
-/
import SimplicityModel.EvalCalls
import SimplicityModel.Prog.ElabProps
import SimplicityModel.Exec

namespace Props.C06
open BM4 Prog

/-- **The verdict is a function of program, witness and the recorded jet calls.**  Replace the
specification of every jet of the program by any other (`mapJets φ`): as long as the new
specifications agree with the old ones on the calls this run makes (`calls t v`: left to right, up
to and including a failing call), the result is the same — same success, same failure kind, same
value.  In particular a jet table holding exactly the calls recorded on a run is enough to
reproduce that run's verdict, whatever the real jets do elsewhere. -/
theorem eval_deterministic (φ : Ty → Ty → (Val → Option Val) → (Val → Option Val))
    {a b : Ty} (t : Term a b) (v : Val)
    (h : ∀ c ∈ calls t v, φ c.a c.b c.f c.x = c.f c.x) :
    evalK (mapJets φ t) v = evalK t v :=
  evalK_mapJets φ t v h

/-- **Left to right, first failure wins** (`comp`): a failure of the first part is the failure of
the whole, whatever the second part would do; otherwise the second part decides. -/
theorem failure_kind_order_comp {a b c : Ty} (s : Term a b) (t : Term b c) (v : Val) :
    (∀ f, evalK s v = .error f → evalK (.comp s t) v = .error f) ∧
    (∀ x, evalK s v = .ok x → evalK (.comp s t) v = evalK t x) := by
  constructor
  · intro f h; simp only [evalK, h]; rfl
  · intro x h; simp only [evalK, h]; rfl

/-- (`pair`): the left component runs first; its failure hides whatever the right one would do;
when it succeeds a failure of the right component is the failure of the pair. -/
theorem failure_kind_order_pair {a b c : Ty} (s : Term a b) (t : Term a c) (v : Val) :
    (∀ f, evalK s v = .error f → evalK (.pair s t) v = .error f) ∧
    (∀ x f, evalK s v = .ok x → evalK t v = .error f → evalK (.pair s t) v = .error f) ∧
    (∀ x y, evalK s v = .ok x → evalK t v = .ok y → evalK (.pair s t) v = .ok (.pair x y)) := by
  refine ⟨?_, ?_, ?_⟩
  · intro f h; simp only [evalK, h]; rfl
  · intro x f h1 h2; simp only [evalK, h1, h2]; rfl
  · intro x y h1 h2; simp only [evalK, h1, h2]; rfl

/-- (`disconnect`): the committed part runs first on `(cmr, input)`; its failure is the failure of
the whole; then the disconnected part runs on the second component of its result. -/
theorem failure_kind_order_disconnect {a b c d : Ty} (w : Ty) (cw : Val)
    (s : Term (.prod w a) (.prod b c)) (t : Term c d) (v : Val) :
    (∀ f, evalK s (.pair cw v) = .error f → evalK (.disconnect w cw s t) v = .error f) ∧
    (∀ x y f, evalK s (.pair cw v) = .ok (.pair x y) → evalK t y = .error f →
      evalK (.disconnect w cw s t) v = .error f) ∧
    (∀ x y z, evalK s (.pair cw v) = .ok (.pair x y) → evalK t y = .ok z →
      evalK (.disconnect w cw s t) v = .ok (.pair x z)) := by
  refine ⟨?_, ?_, ?_⟩
  · intro f h; simp only [evalK, h]; rfl
  · intro x y f h1 h2; simp only [evalK, h1]; simp only [Except.bind, h2]; rfl
  · intro x y z h1 h2; simp only [evalK, h1]; simp only [Except.bind, h2]; rfl

/-- (`case`, assertions, injections): only the branch the input selects is run; an assertion whose
hidden side is selected fails with kind `assertion`; a `fail` node with `failNode`; a jet whose
specification is undefined on its input with `jet`. -/
theorem failure_kind_order_case {a b c d : Ty} (s : Term (.prod a c) d) (t : Term (.prod b c) d)
    (x y z : Val) :
    evalK (.case s t) (.pair (.inl x) z) = evalK s (.pair x z) ∧
    evalK (.case s t) (.pair (.inr y) z) = evalK t (.pair y z) ∧
    evalK (.assertl (b := b) s) (.pair (.inl x) z) = evalK s (.pair x z) ∧
    evalK (.assertl (b := b) s) (.pair (.inr y) z) = .error .assertion ∧
    evalK (.assertr (a := a) t) (.pair (.inr y) z) = evalK t (.pair y z) ∧
    evalK (.assertr (a := a) t) (.pair (.inl x) z) = .error .assertion :=
  ⟨rfl, rfl, rfl, rfl, rfl, rfl⟩

theorem failure_kinds_of_leaves {a b : Ty} (jf : List Bool → Option (List Bool)) (f : Val → Option Val) (v : Val) :
    evalK (.fail : Term a b) v = .error .failNode ∧
    (f v = none → evalK (.jet jf f : Term a b) v = .error .jet) ∧
    (∀ o, f v = some o → evalK (.jet jf f : Term a b) v = .ok o) := by
  refine ⟨rfl, ?_, ?_⟩
  · intro h; simp only [evalK, h]
  · intro o h; simp only [evalK, h]

/-- **The machine has that verdict.**  For a well-typed term (every witness and word value of its
node's target type, every jet computing its specification on every padded encoding: `WT`) and an
input of the source type, `for_program` + `input` + `exec` succeeds with an encoding of the value
exactly when `evalK` succeeds with that value, and fails (never crashes) exactly when `evalK`
fails. -/
theorem machine_verdict {a b : Ty} (t : Term a b) (v : Val) (hv : HasTy v a) (hwt : WT t) :
    match evalK t v with
    | .ok out => ∃ bits, execProgram t v = .ok bits ∧ Enc b out bits
    | .error _ => execProgram t v = .error .fail := by
  have h := exec_spec t v hv hwt
  rw [← evalK_eval t v] at h
  cases he : evalK t v with
  | ok out => simpa [he, okOpt] using h
  | error f => simpa [he, okOpt] using h

/-! Non-vacuity. -/

/-- a run that makes two jet calls and fails at the second: the call list is what the harness
records, and swapping the jets for the table of these calls keeps the verdict -/
example :
    let inc : Val → Option Val := fun v => match v with | .inl _ => some (.inr .unit) | _ => none
    let t : Term (.sum .one .one) (.sum .one .one) :=
      .comp (.jet (fun _ => none) inc : Term (.sum .one .one) (.sum .one .one)) (.jet (fun _ => none) inc)
    evalK t (.inl .unit) = .error .jet ∧ (calls t (.inl .unit)).length = 2 := by
  refine ⟨rfl, by simp [calls, evalK]⟩

/-- first failure wins: the assertion on the left fails before the `fail` node on the right is reached -/
example : evalK (.pair (.assertl (b := .one) (d := .one) (.unit : Term (.prod .one .one) .one)) .fail :
    Term (.prod (.sum .one .one) .one) (.prod .one .one)) (.pair (.inr .unit) .unit) = .error .assertion := rfl

example : let t : Term .one .one := .comp (.witness (.inl .unit) : Term .one (.sum .one .one))
            (.comp (.pair .iden .unit) (.case .unit .unit))
          WT t ∧ HasTy .unit .one ∧ evalK t .unit = .ok .unit := by
  refine ⟨⟨.inl .unit, ⟨trivial, trivial⟩, trivial, trivial⟩, .unit, rfl⟩

end Props.C06
