/-
C11 — Value equality, ordering and hashing are semantic.

Property theorems only.  They are about `RVal.eqV / cmpV / hashV` and `WordM.eqW / cmpW / hashW`
(`ValueCmp.lean`), the model of `impl PartialEq / Ord / Hash for Value` and of the derived traits
of `Word` as they are in `src/value.rs` now: equality of (type, compact bits); order by type, then
the compact bits lexicographically; hash over a tag, the type and the compact bits.  The driver
runs exactly these definitions on `RVal`, the byte-buffer model of `Value`.

Assumption, stated as a hypothesis where it is used: the code compares types by their TMR; the
model compares them through a key `key : Ty → Nat` (the driver is given the TMRs the
implementation reports), and `KeyInj key` says that no two types share a key — collision-freedom
of the TMR.  Such keys exist (`injective_key_exists`).  Nothing else is assumed about the key: the
order of types among themselves is whatever the key says.

`a.Den x`: `a` is well-formed (buffer covers offset + width, holds bytes) and its own bits are a
padded encoding, with any padding content, of the element `x` of `a.ty`.  Every value obtainable
from the library's operations, in any order, is well-formed and denotes exactly one element
(`Props.C10.every_history_wf`, `every_value_denotes`).
-/
import SimplicityModel.ValueBuilt

namespace Props.C11
open Vl Vl.RVal

/-- Two values compare equal exactly when they have the same type and denote the same element of
it — however each was produced: whatever their buffers, bit offsets, padding content, and the
bits beyond their width. -/
theorem eq_iff_sem {key : Ty → Nat} (hk : KeyInj key) {a b : RVal} {x y : Val}
    (ha : a.Den x) (hb : b.Den y) : eqV key a b = true ↔ a.ty = b.ty ∧ x = y :=
  RVal.eq_iff_sem hk ha hb

/-- The same for any two values with a history, the element being read off each value's own bits
by the type-directed decoder (`abs`). -/
theorem eq_iff_sem_built {key : Ty → Nat} (hk : KeyInj key) {a b : RVal} (ha : Built a) (hb : Built b) :
    eqV key a b = true ↔ a.ty = b.ty ∧ a.view.abs = b.view.abs :=
  RVal.eq_iff_abs hk ha.wf hb.wf

/-- Equal values hash equally (the hash is a function of what `Hash` feeds the hasher, and that
is the same byte string). -/
theorem hash_congr {key : Ty → Nat} {a b : RVal} (h : eqV key a b = true) :
    hashInput key a = hashInput key b ∧ hashV key a = hashV key b := by
  have h' := h
  simp only [eqV, Bool.and_eq_true, beq_iff_eq] at h'
  exact ⟨by simp only [hashInput, h'.1, h'.2], RVal.hash_congr h⟩

/-- Values denoting the same element of the same type hash equally, whatever their histories. -/
theorem hash_sem {key : Ty → Nat} (hk : KeyInj key) {a b : RVal} {x : Val}
    (ha : a.Den x) (hb : b.Den x) (ht : a.ty = b.ty) : hashV key a = hashV key b :=
  RVal.hash_congr ((RVal.eq_iff_sem hk ha hb).2 ⟨ht, rfl⟩)

/-- The ordering is consistent with equality: `cmp` answers `Equal` exactly for `==` values … -/
theorem cmp_eq_iff_eq (key : Ty → Nat) (a b : RVal) : cmpV key a b = .eq ↔ eqV key a b = true :=
  RVal.cmp_eq_iff_eq key a b

/-- … hence exactly for values of the same type denoting the same element. -/
theorem cmp_eq_iff_sem {key : Ty → Nat} (hk : KeyInj key) {a b : RVal} {x y : Val}
    (ha : a.Den x) (hb : b.Den y) : cmpV key a b = .eq ↔ a.ty = b.ty ∧ x = y := by
  rw [RVal.cmp_eq_iff_eq, RVal.eq_iff_sem hk ha hb]

/-- The ordering is a total order (modulo `==`): reflexive; total and antisymmetric — comparing
the other way round gives the mirrored answer, so exactly one of `<`, `==`, `>` holds; transitive
(`<` and `≤`); and equal values are interchangeable on either side of a comparison. -/
theorem cmp_total_order (key : Ty → Nat) (a b c : RVal) :
    cmpV key a a = .eq ∧
    (cmpV key a b).swap = cmpV key b a ∧
    (cmpV key a b = .lt → cmpV key b c = .lt → cmpV key a c = .lt) ∧
    (cmpV key a b ≠ .gt → cmpV key b c ≠ .gt → cmpV key a c ≠ .gt) ∧
    (eqV key a b = true → cmpV key a c = cmpV key b c ∧ cmpV key c a = cmpV key c b) :=
  ⟨cmp_refl key a, cmp_swap key a b, cmp_lt_trans key a b c, cmp_le_trans key a b c,
    fun h => ⟨cmp_congr_left h c, cmp_congr_right h c⟩⟩

/-- `==` itself is an equivalence relation. -/
theorem eq_equivalence (key : Ty → Nat) (a b c : RVal) :
    eqV key a a = true ∧ (eqV key a b = true → eqV key b a = true) ∧
    (eqV key a b = true → eqV key b c = true → eqV key a c = true) := by
  refine ⟨by simp [eqV], ?_, ?_⟩
  · simp only [eqV, Bool.and_eq_true, beq_iff_eq]
    exact fun ⟨h1, h2⟩ => ⟨h1.symm, h2.symm⟩
  · simp only [eqV, Bool.and_eq_true, beq_iff_eq]
    exact fun ⟨h1, h2⟩ ⟨h3, h4⟩ => ⟨h1.trans h3, h2.trans h4⟩

/-- `Word { value, n }` with its derived traits: since `n` is determined by the value's type
(`Inv`), equality, order and hash congruence of words are those of their values — semantic too. -/
theorem word_traits {key : Ty → Nat} (hk : KeyInj key) {a b : WordM} (ha : a.Inv) (hb : b.Inv) :
    WordM.eqW key a b = eqV key a.value b.value ∧
    WordM.cmpW key a b = cmpV key a.value b.value ∧
    (WordM.eqW key a b = true → WordM.hashW key a = WordM.hashW key b) :=
  ⟨WordM.eqW_iff hk ha hb, WordM.cmpW_eq hk ha hb, WordM.hashW_congr⟩

/-- The assumption is satisfiable: there are injective type keys. -/
theorem injective_key_exists : ∃ key : Ty → Nat, KeyInj key := ⟨Ty.code, Ty.code_inj⟩

/-! ### non-vacuity

The two findings recorded for the tree before the repair (DESIGN.md sec. 6): the first component
of `product(u1(0), u1(1))`, viewed in the product's buffer `[0x40]`, against `u1(0)` = `[0x00]` at
offset 7; and `from_padded_bits([0x7f, 0x80], 1 + 2^8)` against `left(unit, 2^8)`.  In each pair the
raw bytes differ and the values denote the same element, so by `eq_iff_sem` they are `==`, hash
equally and compare `Equal`. -/

def u1in : RVal := ⟨[0x40], 0, Ty.word 0⟩
def u1zero : RVal := ⟨[0x00], 7, Ty.word 0⟩
def dirty : RVal := ⟨[0x7f, 0x80], 0, .sum .one (Ty.word 3)⟩
def clean : RVal := RVal.left RVal.unit (Ty.word 3)

theorem u1in_den : u1in.Den (.inl .unit) :=
  ⟨⟨by decide, by intro x hx; simp [u1in] at hx; omega⟩, Enc.inl (a := .one) (b := .one) (pad := []) Enc.unit rfl⟩
theorem u1zero_den : u1zero.Den (.inl .unit) :=
  ⟨⟨by decide, by intro x hx; simp [u1zero] at hx; omega⟩, Enc.inl (a := .one) (b := .one) (pad := []) Enc.unit rfl⟩
theorem dirty_den : dirty.Den (.inl .unit) :=
  ⟨⟨by decide, by intro x hx; simp [dirty] at hx; omega⟩,
    Enc.inl (a := .one) (b := Ty.word 3) (pad := [true, true, true, true, true, true, true, true]) Enc.unit rfl⟩
theorem clean_den : clean.Den (.inl .unit) := (den_left den_unit (Ty.word 3)).1

example : u1in.buf ≠ u1zero.buf ∧ eqV Ty.code u1in u1zero = true ∧ cmpV Ty.code u1in u1zero = .eq ∧
    hashV Ty.code u1in = hashV Ty.code u1zero :=
  ⟨by decide, (eq_iff_sem Ty.code_inj u1in_den u1zero_den).2 ⟨rfl, rfl⟩,
    (cmp_eq_iff_sem Ty.code_inj u1in_den u1zero_den).2 ⟨rfl, rfl⟩,
    hash_sem Ty.code_inj u1in_den u1zero_den rfl⟩
example : dirty.iterPadded ≠ clean.iterPadded ∧ eqV Ty.code dirty clean = true := by
  refine ⟨?_, (eq_iff_sem Ty.code_inj dirty_den clean_den).2 ⟨rfl, rfl⟩⟩
  rw [iterPadded_eq_bits dirty_den.1, iterPadded_eq_bits clean_den.1]; decide
/-- a near miss: same type, the other element -/
example : eqV Ty.code u1in ⟨[0x01], 7, Ty.word 0⟩ = false := by
  have h : (⟨[0x01], 7, Ty.word 0⟩ : RVal).Den (.inr .unit) :=
    ⟨⟨by decide, by intro x hx; simp at hx; omega⟩, Enc.inr (a := .one) (b := .one) (pad := []) Enc.unit rfl⟩
  cases e : eqV Ty.code u1in ⟨[0x01], 7, Ty.word 0⟩ with
  | false => rfl
  | true => have := ((eq_iff_sem Ty.code_inj u1in_den h).1 e).2; cases this

end Props.C11
