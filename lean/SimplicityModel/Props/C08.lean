/-
C08 — pruning preserves commitment and behaviour and satisfies anti-DoS.

Three layers, and which theorem is about which:

(P) **plan level** — the executable functions behind the driver's `prune` verb (`PrunePlan.lean`,
    `PrunePipeline.lean`): `evalT` (tracker), `pruneNode`/`prunePlan` (the `prune_case` table),
    `Prog.cmrNode`/`cmrs`, `constraintsM`/`inferM` (re-inference), `reachable`, `pruneV`/`pruneWit`
    (`Value::prune`), `antiDosOK`, and the whole pipeline `prunePipeline` / `Pruned.antiDos`.
    Full statements about these functions:
    * `cmr_prune`, `cmr_prune_plan`, `tracker_is_eval`, `types_shrink`, `reinference_succeeds`,
      `witness_prune_defined`, `prune_table_idempotent`;
    * **the re-typed pruned program** (`PruneRetype.lean` …): `eval_prune_retyping` — the pruned plan
      elaborated with its RE-INFERRED arrows and `pruneWit`-pruned witnesses maps the pruned input to
      the pruned output and leaves the same tracker record; `antiDoS_plan`/`antiDoS_driver` — on that
      run every reachable node is executed and every remaining case takes both sides, `disconnect`
      included, when the identities of the first run are pairwise distinct on the plan;
      `prune_idempotent_plan`/`prune_idempotent_reachable` — pruning again for the same run leaves the
      pruned program, its reachable set, its re-inferred arrows and its witness bits as they are;
      `pipeline_antiDos` — all of it for `prunePipeline`/`Pruned.antiDos` themselves.
(T) **typed-term level** — `Prog.pruneTerm` on the intrinsically typed terms the driver evaluates
    (every node kind, `disconnect` included), types kept: `eval_prune_pruner_step` (same output, same
    tracker record, pruning again changes nothing).  Connected to the plan level by
    `plan_pruning_is_term_pruning` (`PruneBridge.lean`: elaborating the pruned plan with the arrows of
    the original plan gives `pruneTerm` of the original term), whence the plan-level statement
    `eval_prune_plan_original_types`.
(A) **abstract models** — `Prune.lean` (`ShrinkOn`, `eval_shrink`) and `PruneTrace.lean`
    (identity-labelled skeletons without `disconnect`: `prune_spec`, `antiDoS` under `IdsFaithful`).
    Kept, still named `…_partial` because they are not about the plan-level functions; each is now
    accompanied by a full plan-level theorem (see their comments for what the plan-level theorem
    does *not* cover: plans in which two different nodes carry the same identity root).
-/
import SimplicityModel.PrunePlanProps
import SimplicityModel.PruneTerm
import SimplicityModel.PruneBridge
import SimplicityModel.Prune
import SimplicityModel.PruneTrace
import SimplicityModel.PruneRetypeThm
import SimplicityModel.PruneAntiDos
import SimplicityModel.PruneThms
import SimplicityModel.PrunePipelineThm

namespace Props.C08
open BM4 Prog

/-! ## (P) plan level -/

/-- **Same commitment, node by node.**  An assertion node hashes exactly like the case node it
replaces, the hidden child entering through its commitment root: for every tracker content `S`,
identity `id` and root table `cm`, the rewritten node has the root of the original node. -/
theorem cmr_prune (S : List (Nat × Bool)) (id : Nat) (jetCmr : String → Option Nat) (cm : Nat → Nat)
    (nd : Node) : cmrNode jetCmr cm (pruneNode S id cm nd) = cmrNode jetCmr cm nd :=
  cmrNode_pruneNode S id jetCmr cm nd

/-- **Same commitment, whole plan.**  For a plan whose children precede their parents (`wf`, what
the plan parser produces) with commitment roots `cm`, the pruned plan — hidden roots taken from
`cm` — has the roots `cm` again, at every node and in particular at the root. -/
theorem cmr_prune_plan (jetCmr : String → Option Nat) (S : List (Nat × Bool)) (ids : Nat → Nat)
    (p : Plan) (cm : Array Nat) (hwf : wf p = true) (h : cmrs jetCmr p = some cm) :
    cmrs jetCmr (prunePlan S ids (fun i => cm.getD i 0) p) = some cm :=
  cmrs_prunePlan jetCmr S ids p cm hwf h

/-- **The tracker does not disturb the run.**  The instrumented evaluator returns exactly what
`evalK` returns (value or failure kind), for every labelling. -/
theorem tracker_is_eval {a b : Ty} (t : Term a b) (l : Lab) (v : Val) :
    resOf (evalT t l v) = evalK t v :=
  evalT_fst t l v

theorem prunePlan_listSub (jt : JetTypes) (S : List (Nat × Bool)) (ids : Nat → Nat) (cm : Nat → Nat)
    (p : Plan) : ListSub jt (prunePlan S ids cm p).toList p.toList := by
  simpa [prunePlan] using listSub_pruneList jt S ids cm p.toList 0

/-- **Types shrink.**  Let `arr` be the arrows inferred for the plan (all nodes) and `arr'` the
arrows inferred for the pruned plan restricted to any set of nodes (`mask`: in use, the nodes still
reachable).  The typing constraints of the second system are literally a subset of those of the
first (an assertion keeps three of the five equations of its case node, dropped nodes contribute
nothing, fresh variables are numbered alike), hence — both being least solutions — every arrow of
the pruned program is below the original arrow of the same node: `1 ≤ T`, sums and products
componentwise. -/
theorem types_shrink (jt : JetTypes) (S : List (Nat × Bool)) (ids : Nat → Nat) (cm : Nat → Nat)
    (p : Plan) (mask : Nat → Bool) (prog : Bool) {arr arr' : Array (Ty × Ty)}
    (h : inferM jt p (fun _ => true) prog = .ok arr)
    (h' : inferM jt (prunePlan S ids cm p) mask prog = .ok arr') :
    ∀ i, i < p.size →
      Le (arr'.getD i (.one, .one)).1 (arr.getD i (.one, .one)).1 ∧
      Le (arr'.getD i (.one, .one)).2 (arr.getD i (.one, .one)).2 :=
  inferM_mono jt (fun _ _ => rfl) (prunePlan_listSub jt S ids cm p) prog h h'

/-- **Re-inference cannot fail** (the `expect("pruned types should check out if unpruned types
check out")` of the code): when the plan is typable the unifier never answers `typeError` or
`occurs` on the pruned plan; the only other outcome of the model is running out of its fuel. -/
theorem reinference_succeeds (jt : JetTypes) (S : List (Nat × Bool)) (ids : Nat → Nat) (cm : Nat → Nat)
    (p : Plan) (mask : Nat → Bool) (prog : Bool) {arr : Array (Ty × Ty)}
    (h : inferM jt p (fun _ => true) prog = .ok arr) :
    (∃ arr', inferM jt (prunePlan S ids cm p) mask prog = .ok arr') ∨
      inferM jt (prunePlan S ids cm p) mask prog = .fuel :=
  inferM_sub_succeeds jt (fun _ _ => rfl) (prunePlan_listSub jt S ids cm p) prog h

/-- **Witness pruning cannot panic** (the `expect("pruned type should be shrunken version of
unpruned type")` of the code): a witness value of its node's original target type is pruned
successfully to the node's re-inferred target type; the result has exactly that type and is the
value `pr` that the behavioural theorem `eval_prune_retyping` speaks about. -/
theorem witness_prune_defined (jt : JetTypes) (S : List (Nat × Bool)) (ids : Nat → Nat) (cm : Nat → Nat)
    (p : Plan) (mask : Nat → Bool) (prog : Bool) {arr arr' : Array (Ty × Ty)}
    (h : inferM jt p (fun _ => true) prog = .ok arr)
    (h' : inferM jt (prunePlan S ids cm p) mask prog = .ok arr')
    (i : Nat) (hi : i < p.size) (v : Val) (hv : HasTy v (arr.getD i (.one, .one)).2) :
    ∃ w, pruneV v (arr'.getD i (.one, .one)).2 = some w ∧ HasTy w (arr'.getD i (.one, .one)).2 ∧
      w = pr (arr'.getD i (.one, .one)).2 v := by
  obtain ⟨w, hw⟩ := pruneV_of_le hv (types_shrink jt S ids cm p mask prog h h' i hi).2
  exact ⟨w, hw, pruneV_hasTy _ _ _ hw, pruneV_eq_pr _ _ _ hw⟩

/-- **The table is idempotent**, and a plan in which every case identity has both or neither side
recorded is a fixed point. -/
theorem prune_table_idempotent (S : List (Nat × Bool)) (ids : Nat → Nat) (cm : Nat → Nat) (p : Plan) :
    prunePlan S ids cm (prunePlan S ids cm p) = prunePlan S ids cm p :=
  prunePlan_idem S ids cm p

theorem prune_table_fixpoint (S : List (Nat × Bool)) (id : Nat) (cm : Nat → Nat) (nd : Node)
    (h : ∀ a b, nd = .case a b → ((id, false) ∈ S ↔ (id, true) ∈ S)) : pruneNode S id cm nd = nd :=
  pruneNode_fix S id cm nd h

/-- **Why the pruned program must be re-inferred on its own.**  Inference over *all* nodes of the
pruned plan (the constraints of the hidden branches still in force — what `prune` did before it
re-inferred in a context of its own) gives types above the principal types of the pruned program
(inference over the reachable nodes) … -/
theorem stale_constraints_above_principal (jt : JetTypes) (p' : Plan) (mask : Nat → Bool) (prog : Bool)
    {arrAll arrPrincipal : Array (Ty × Ty)}
    (h : inferM jt p' (fun _ => true) prog = .ok arrAll) (h' : inferM jt p' mask prog = .ok arrPrincipal) :
    ∀ i, i < p'.size →
      Le (arrPrincipal.getD i (.one, .one)).1 (arrAll.getD i (.one, .one)).1 ∧
      Le (arrPrincipal.getD i (.one, .one)).2 (arrAll.getD i (.one, .one)).2 :=
  inferM_mono jt (fun _ _ => rfl) (ListSub.refl jt _) prog h h'

/-- … and strictly above on the ten-node program of the harness's regression case
(`comp (pair wit wit) (assertl unit #h)` where the same `unit` node also ends `comp word unit` inside
the hidden branch): the target of the second witness (variable 5) is `2` with the stale constraints
and `1` principally — the serialisation of the former does not decode. -/
def stalePlan : Plan :=
  #[.unit, .witness, .witness, .pair 1 2, .word 1 [false, true], .comp 4 0, .unit, .comp 6 5, .assertl 0 7, .comp 3 8]

example : ∃ es S es' S',
    constraintsM (fun _ => none) stalePlan (fun _ => true) true = some es ∧ Inf.unify unifyFuel es [] = .ok S ∧
    constraintsM (fun _ => none) stalePlan (fun i => i ≤ 3 || 8 ≤ i) true = some es' ∧
    Inf.unify unifyFuel es' [] = .ok S' ∧
    tyOfInf (Inf.closeUnit S 5) = .sum .one .one ∧ tyOfInf (Inf.closeUnit S' 5) = .one :=
  ⟨_, _, _, _, rfl, rfl, rfl, rfl, rfl, rfl⟩

/-! ## (P) plan level: the re-typed pruned program -/

/-- **Same behaviour after re-typing, plan level** (the functions the driver runs).

Let `p` be a plan whose children precede their parents (`wf`), `arr` the arrows inferred for it
(`inferM`, all nodes), `x` the term node `i` elaborates to (`elabNode`, any witness bits `wit`, root
table `cm`, jet semantics `jets`), and suppose its run on a well-typed input `v`, labelled by the
identities `ids`, succeeds with output `o` and tracker record `tr`.  Let `S` be any tracker content
that covers `tr.sides` (in use `S = tr.sides`), `p1 = prunePlan S ids cmf p` the pruned plan, `mask` a
set of nodes of the plan that contains `i` and is closed under the children *of the pruned plan* (in
use: the `reachable` nodes), `a1` the arrows **re-inferred** for `p1` restricted to `mask`, and `wit'`
witness bits that agree with `pruneWit` (decode at the old type, `pruneV` to the new type, encode) on
the selected witness nodes.  Then node `i` of `p1` elaborates with `a1` and `wit'` to a term `t'` at
the re-inferred arrow `a1[i]`, and `t'` maps the pruned input to the pruned output:
`evalK t' (pr a' v) = ok (pr b' o)`.  Moreover the tracker record of that run — under any labelling
`ids'`, e.g. the identity roots of the pruned program — is the record of the original run, read in
plan indices (`trI`) and relabelled by `ids'`. -/
theorem eval_prune_retyping (jt : JetTypes) (p : Plan) (wit : Nat → Option (List Bool)) (cm : Array Nat)
    (jets : JetSem) (S : List (Nat × Bool)) (ids ids' : Nat → Nat) (cmf : Nat → Nat) (mask : Nat → Bool)
    (prog : Bool) {arr a1 : Array (Ty × Ty)} (wit' : Nat → Option (List Bool))
    (hwf : wf p = true)
    (harr : inferM jt p (fun _ => true) prog = .ok arr)
    (ha1 : inferM jt (prunePlan S ids cmf p) mask prog = .ok a1)
    (hlt : ∀ j, mask j = true → j < p.size)
    (hclosed : ∀ j nd', mask j = true → (prunePlan S ids cmf p)[j]? = some nd' →
      ∀ c ∈ nd'.children, mask c = true)
    (hwit : ∀ j bits, mask j = true → p[j]? = some .witness → pruneWit wit arr a1 j = some bits →
      wit' j = some bits)
    (f i : Nat) (hmi : mask i = true) (x : Σ a b, Term a b)
    (hx : elabNode { plan := p, arrows := arr, wit := wit, cmr := cm, jets := jets } f i = some x)
    (v o : Val) (tr : Trace) (hv : HasTy v x.1)
    (hrun : evalT x.2.2 (labOf p ids f i) v = .ok (o, tr))
    (hS : ∀ s ∈ tr.sides, s ∈ S) :
    ∃ (t' : Term (a1.getD i (.one, .one)).1 (a1.getD i (.one, .one)).2) (trI : Trace),
      elabNode { plan := prunePlan S ids cmf p, arrows := a1, wit := wit', cmr := cm, jets := jets } f i
        = some ⟨_, _, t'⟩ ∧
      evalK t' (pr (a1.getD i (.one, .one)).1 v) = .ok (pr (a1.getD i (.one, .one)).2 o) ∧
      tr = trI.map ids ∧
      evalT t' (labOf (prunePlan S ids cmf p) ids' f i) (pr (a1.getD i (.one, .one)).1 v)
        = .ok (pr (a1.getD i (.one, .one)).2 o, trI.map ids') := by
  obtain ⟨t', trI, h1, h2, _, h3, _⟩ := eval_retyped_prune jt p wit cm jets S ids ids' cmf mask prog wit'
    hwf harr ha1 hlt hclosed hwit f i hmi x hx v o tr hv hrun hS
  refine ⟨t', trI, h1, ?_, h2, h3⟩
  have := evalT_fst t' (labOf (prunePlan S ids cmf p) ids' f i) (pr (a1.getD i (.one, .one)).1 v)
  rw [h3] at this
  exact this.symm

/-- the same with the driver's selection: the nodes `reachable` in the pruned plan (contains the
root, is closed under children — `reachable_root`, `reachable_closed`), the tracker's own record,
the root node of a non-empty plan.  With `cmrs_prunePlan` (the root table of the pruned plan is
the root table of the plan) this is every ingredient of `Drv.C08.prunePipeline`/`antiDos`. -/
theorem eval_prune_retyping_reachable (jt : JetTypes) (p : Plan) (wit : Nat → Option (List Bool))
    (cm : Array Nat) (jets : JetSem) (ids ids' : Nat → Nat) (cmf : Nat → Nat) (prog : Bool)
    {arr a1 : Array (Ty × Ty)} (wit' : Nat → Option (List Bool)) (hwf : wf p = true) (hp : 0 < p.size)
    (harr : inferM jt p (fun _ => true) prog = .ok arr)
    (f : Nat) (x : Σ a b, Term a b)
    (hx : elabNode { plan := p, arrows := arr, wit := wit, cmr := cm, jets := jets } f (p.size - 1) = some x)
    (v o : Val) (tr : Trace) (hv : HasTy v x.1)
    (hrun : evalT x.2.2 (labOf p ids f (p.size - 1)) v = .ok (o, tr))
    (ha1 : inferM jt (prunePlan tr.sides ids cmf p)
      (fun j => (reachable (prunePlan tr.sides ids cmf p)).getD j false) prog = .ok a1)
    (hwit : ∀ j bits, (reachable (prunePlan tr.sides ids cmf p)).getD j false = true → p[j]? = some .witness →
      pruneWit wit arr a1 j = some bits → wit' j = some bits) :
    ∃ (t' : Term (a1.getD (p.size - 1) (.one, .one)).1 (a1.getD (p.size - 1) (.one, .one)).2),
      elabNode { plan := prunePlan tr.sides ids cmf p, arrows := a1, wit := wit', cmr := cm, jets := jets } f
        (p.size - 1) = some ⟨_, _, t'⟩ ∧
      evalK t' (pr (a1.getD (p.size - 1) (.one, .one)).1 v) = .ok (pr (a1.getD (p.size - 1) (.one, .one)).2 o) := by
  have hwf1 := wf_prunePlan tr.sides ids cmf p hwf
  have hsz := prunePlan_size tr.sides ids cmf p
  obtain ⟨t', _, h1, h2, _, _⟩ := eval_prune_retyping jt p wit cm jets tr.sides ids ids' cmf _ prog wit' hwf harr ha1
    (fun j hj => by have := reachable_lt _ hj; rwa [hsz] at this)
    (fun j nd' hj hnd' => reachable_closed _ hwf1 hj hnd')
    hwit f (p.size - 1)
    (by have := reachable_root (prunePlan tr.sides ids cmf p) (by rw [hsz]; exact hp); rwa [hsz] at this)
    x hx v o tr hv hrun (fun _ hs => hs)
  exact ⟨t', h1, h2⟩

/-! non-vacuity of `eval_prune_retyping`: `comp (pair wit iden) (case unit (take (case unit unit)))`,
the witness `inl ()` of type `1 + (2 × 1)` selects the left branch; pruning turns node 7 into
`assertl`, nodes 4, 5, 6 become unreachable, the witness is re-typed to `1 + 1 = 2`. -/
section Example
def exPlan : Plan := #[.witness, .iden, .pair 0 1, .unit, .unit, .case 4 4, .take 5, .case 3 6, .comp 2 7]
def exWit : Nat → Option (List Bool) := fun i => if i = 0 then some [false] else none
def exT0 : Ty := .sum .one (.prod (.sum .one .one) .one)
def exArr : Array (Ty × Ty) :=
  #[(.one, exT0), (.one, .one), (.one, .prod exT0 .one), (.prod .one .one, .one), (.prod .one .one, .one),
    (.prod (.sum .one .one) .one, .one), (.prod (.prod (.sum .one .one) .one) .one, .one),
    (.prod exT0 .one, .one), (.one, .one)]
def exArr1 : Array (Ty × Ty) :=
  #[(.one, .sum .one .one), (.one, .one), (.one, .prod (.sum .one .one) .one), (.prod .one .one, .one),
    (.one, .one), (.one, .one), (.one, .one), (.prod (.sum .one .one) .one, .one), (.one, .one)]
def exPlan1 : Plan := prunePlan [(7, false)] (fun j => j) (fun _ => 0) exPlan

theorem ex_infer : inferM (fun _ => none) exPlan (fun _ => true) true = .ok exArr := by
  have : ∃ es S, constraintsM (fun _ => none) exPlan (fun _ => true) true = some es ∧
      Inf.unify unifyFuel es [] = .ok S ∧ arrowsOf 9 (Inf.closeUnit S) = exArr :=
    ⟨_, _, rfl, rfl, by decide +kernel⟩
  obtain ⟨es, S, h1, h2, h3⟩ := this
  simp only [inferM, h1, h2]
  exact congrArg _ h3

theorem ex_infer1 :
    inferM (fun _ => none) exPlan1 (fun j => (reachable exPlan1).getD j false) true = .ok exArr1 := by
  have : ∃ es S, constraintsM (fun _ => none) exPlan1 (fun j => (reachable exPlan1).getD j false) true = some es ∧
      Inf.unify unifyFuel es [] = .ok S ∧ arrowsOf 9 (Inf.closeUnit S) = exArr1 :=
    ⟨_, _, rfl, rfl, by decide +kernel⟩
  obtain ⟨es, S, h1, h2, h3⟩ := this
  simp only [inferM, h1, h2]
  exact congrArg _ h3

/-- the hypotheses of `eval_prune_retyping_reachable` on this input: typable, elaborates, runs to
`()` taking the left side of node 7 only; the pruned plan has `assertl` at 7 and re-infers; the
witness type shrinks strictly and the pruned witness bits exist -/
example : wf exPlan = true ∧
    inferM (fun _ => none) exPlan (fun _ => true) true = .ok exArr ∧
    (∃ (t : Term .one .one) (tr : Trace),
      elabNode { plan := exPlan, arrows := exArr, wit := exWit, cmr := #[], jets := fun _ _ => none } 10 8
        = some ⟨.one, .one, t⟩ ∧
      evalT t (labOf exPlan (fun j => j) 10 8) .unit = .ok (.unit, tr) ∧ tr.sides = [(7, false)]) ∧
    exPlan1 = #[.witness, .iden, .pair 0 1, .unit, .unit, .case 4 4, .take 5, .assertl 3 0, .comp 2 7] ∧
    inferM (fun _ => none) exPlan1 (fun j => (reachable exPlan1).getD j false) true = .ok exArr1 ∧
    pruneWit exWit exArr exArr1 0 = some [false] ∧
    (exArr.getD 0 (.one, .one)).2 = .sum .one (.prod (.sum .one .one) .one) ∧
    (exArr1.getD 0 (.one, .one)).2 = .sum .one .one :=
  ⟨rfl, ex_infer, ⟨_, _, rfl, rfl, rfl⟩, rfl, ex_infer1, rfl, rfl, rfl⟩
end Example

/-! ## (P) plan level: anti-DoS and idempotence of the re-typed pruned program -/

/-- **Anti-DoS, plan level** (`disconnect` included; identities need only be pairwise distinct).

Hypotheses of `eval_prune_retyping` with `S = tr.sides` (the tracker's own record), the node
selection `mask` consisting of nodes reachable from `i` in the pruned plan `p1` (in use: exactly the
`reachable` ones), and the identities `ids` the first run was labelled with **pairwise distinct on
the plan** — what the decoder guarantees for identity roots.  Then the run of the re-typed pruned
program (node `i` of `p1` with arrows `a1`, witnesses `wit'`, labelled by *any* `ids'`, e.g. the
identity roots of the pruned program) leaves a record `tr2` in which every selected node is executed
and every selected node that is still a `case` has both sides taken: libsimplicity's conditions. -/
theorem antiDoS_plan (jt : JetTypes) (p : Plan) (wit : Nat → Option (List Bool)) (cm : Array Nat)
    (jets : JetSem) (ids ids' : Nat → Nat) (cmf : Nat → Nat) (mask : Nat → Bool)
    (prog : Bool) {arr a1 : Array (Ty × Ty)} (wit' : Nat → Option (List Bool))
    (hwf : wf p = true)
    (harr : inferM jt p (fun _ => true) prog = .ok arr)
    (f i : Nat) (x : Σ a b, Term a b)
    (hx : elabNode { plan := p, arrows := arr, wit := wit, cmr := cm, jets := jets } f i = some x)
    (v o : Val) (tr : Trace) (hv : HasTy v x.1)
    (hrun : evalT x.2.2 (labOf p ids f i) v = .ok (o, tr))
    (ha1 : inferM jt (prunePlan tr.sides ids cmf p) mask prog = .ok a1)
    (hlt : ∀ j, mask j = true → j < p.size)
    (hclosed : ∀ j nd', mask j = true → (prunePlan tr.sides ids cmf p)[j]? = some nd' →
      ∀ c ∈ nd'.children, mask c = true)
    (hwit : ∀ j bits, mask j = true → p[j]? = some .witness → pruneWit wit arr a1 j = some bits →
      wit' j = some bits)
    (hmi : mask i = true)
    (hreach : ∀ j, mask j = true → Reach (prunePlan tr.sides ids cmf p) i j)
    (hinj : ∀ j k, j < p.size → k < p.size → ids j = ids k → j = k) :
    ∃ (t' : Term (a1.getD i (.one, .one)).1 (a1.getD i (.one, .one)).2) (tr2 : Trace),
      elabNode { plan := prunePlan tr.sides ids cmf p, arrows := a1, wit := wit', cmr := cm, jets := jets } f i
        = some ⟨_, _, t'⟩ ∧
      evalT t' (labOf (prunePlan tr.sides ids cmf p) ids' f i) (pr (a1.getD i (.one, .one)).1 v)
        = .ok (pr (a1.getD i (.one, .one)).2 o, tr2) ∧
      ∀ j, mask j = true → ids' j ∈ tr2.nodes ∧
        ∀ a b, (prunePlan tr.sides ids cmf p)[j]? = some (.case a b) →
          (ids' j, false) ∈ tr2.sides ∧ (ids' j, true) ∈ tr2.sides :=
  Prog.antiDoS_plan jt p wit cm jets ids ids' cmf mask prog wit' hwf harr f i x hx v o tr hv hrun ha1 hlt hclosed hwit hmi hreach hinj

/-- **Anti-DoS, as the driver evaluates it**: the root of a non-empty plan, the `reachable` nodes
of the pruned plan, any labelling `ids'` of the second run: `antiDosOK` (the function behind the
driver's `antidos=` field) answers `true` on the record of the re-typed pruned program. -/
theorem antiDoS_driver (jt : JetTypes) (p : Plan) (wit : Nat → Option (List Bool)) (cm : Array Nat)
    (jets : JetSem) (ids ids' : Nat → Nat) (cmf : Nat → Nat)
    (prog : Bool) {arr a1 : Array (Ty × Ty)} (wit' : Nat → Option (List Bool))
    (hwf : wf p = true) (hp : 0 < p.size)
    (harr : inferM jt p (fun _ => true) prog = .ok arr)
    (f : Nat) (x : Σ a b, Term a b)
    (hx : elabNode { plan := p, arrows := arr, wit := wit, cmr := cm, jets := jets } f (p.size - 1) = some x)
    (v o : Val) (tr : Trace) (hv : HasTy v x.1)
    (hrun : evalT x.2.2 (labOf p ids f (p.size - 1)) v = .ok (o, tr))
    (ha1 : inferM jt (prunePlan tr.sides ids cmf p)
      (fun j => (reachable (prunePlan tr.sides ids cmf p)).getD j false) prog = .ok a1)
    (hwit : ∀ j bits, (reachable (prunePlan tr.sides ids cmf p)).getD j false = true → p[j]? = some .witness →
      pruneWit wit arr a1 j = some bits → wit' j = some bits)
    (hinj : ∀ j k, j < p.size → k < p.size → ids j = ids k → j = k) :
    ∃ (t' : Term (a1.getD (p.size - 1) (.one, .one)).1 (a1.getD (p.size - 1) (.one, .one)).2) (tr2 : Trace),
      elabNode { plan := prunePlan tr.sides ids cmf p, arrows := a1, wit := wit', cmr := cm, jets := jets } f
        (p.size - 1) = some ⟨_, _, t'⟩ ∧
      evalT t' (labOf (prunePlan tr.sides ids cmf p) ids' f (p.size - 1))
        (pr (a1.getD (p.size - 1) (.one, .one)).1 v) = .ok (pr (a1.getD (p.size - 1) (.one, .one)).2 o, tr2) ∧
      antiDosOK (prunePlan tr.sides ids cmf p) (reachable (prunePlan tr.sides ids cmf p)) ids' tr2 = true :=
  Prog.antiDoS_driver jt p wit cm jets ids ids' cmf prog wit' hwf hp harr f x hx v o tr hv hrun ha1 hwit hinj

/-- **Idempotence, plan level, types included.**  Under the hypotheses of `antiDoS_plan`, prune
the pruned program again *for the same run*: take the record `tr2` of the re-typed pruned program
(labelled by any `ids'`, hidden roots from any `cmf'`).  Then (1) the `prune_case` table leaves every
selected node of the pruned plan as it is, (2) re-inference on the twice-pruned plan returns the
same arrows `a1`, (3) pruning the already pruned witness bits to `a1` again returns them.  (Nodes
outside the selection are not part of the pruned program; the table may rewrite them, which does
not influence the selected nodes' types — `inferM_prunePlan_agree`.) -/
theorem prune_idempotent_plan (jt : JetTypes) (p : Plan) (wit : Nat → Option (List Bool)) (cm : Array Nat)
    (jets : JetSem) (ids ids' : Nat → Nat) (cmf cmf' : Nat → Nat) (mask : Nat → Bool)
    (prog : Bool) {arr a1 : Array (Ty × Ty)} (wit' : Nat → Option (List Bool))
    (hwf : wf p = true)
    (harr : inferM jt p (fun _ => true) prog = .ok arr)
    (f i : Nat) (x : Σ a b, Term a b)
    (hx : elabNode { plan := p, arrows := arr, wit := wit, cmr := cm, jets := jets } f i = some x)
    (v o : Val) (tr : Trace) (hv : HasTy v x.1)
    (hrun : evalT x.2.2 (labOf p ids f i) v = .ok (o, tr))
    (ha1 : inferM jt (prunePlan tr.sides ids cmf p) mask prog = .ok a1)
    (hlt : ∀ j, mask j = true → j < p.size)
    (hclosed : ∀ j nd', mask j = true → (prunePlan tr.sides ids cmf p)[j]? = some nd' →
      ∀ c ∈ nd'.children, mask c = true)
    (hwit : ∀ j bits, mask j = true → p[j]? = some .witness → pruneWit wit arr a1 j = some bits →
      wit' j = some bits)
    (hmi : mask i = true)
    (hreach : ∀ j, mask j = true → Reach (prunePlan tr.sides ids cmf p) i j)
    (hinj : ∀ j k, j < p.size → k < p.size → ids j = ids k → j = k) :
    ∃ (t' : Term (a1.getD i (.one, .one)).1 (a1.getD i (.one, .one)).2) (tr2 : Trace),
      elabNode { plan := prunePlan tr.sides ids cmf p, arrows := a1, wit := wit', cmr := cm, jets := jets } f i
        = some ⟨_, _, t'⟩ ∧
      evalT t' (labOf (prunePlan tr.sides ids cmf p) ids' f i) (pr (a1.getD i (.one, .one)).1 v)
        = .ok (pr (a1.getD i (.one, .one)).2 o, tr2) ∧
      (∀ j, mask j = true →
        (prunePlan tr2.sides ids' cmf' (prunePlan tr.sides ids cmf p))[j]? = (prunePlan tr.sides ids cmf p)[j]?) ∧
      inferM jt (prunePlan tr2.sides ids' cmf' (prunePlan tr.sides ids cmf p)) mask prog = .ok a1 ∧
      (∀ j bits, mask j = true → p[j]? = some .witness → pruneWit wit arr a1 j = some bits →
        pruneWit wit' a1 a1 j = some bits) :=
  Prog.prune_idempotent_plan jt p wit cm jets ids ids' cmf cmf' mask prog wit' hwf harr f i x hx v o tr hv hrun ha1 hlt hclosed hwit hmi hreach hinj

/-- … and the reachable set does not change either: with the driver's selection (`reachable`),
the twice-pruned plan has the reachable set of the pruned plan, so the second `inferM` runs on the
same selection. -/
theorem prune_idempotent_reachable (p1 : Plan) (S2 : List (Nat × Bool)) (ids' cmf' : Nat → Nat)
    (h : ∀ j, (reachable p1).getD j false = true → (prunePlan S2 ids' cmf' p1)[j]? = p1[j]?) (hwf : wf p1 = true) :
    reachable (prunePlan S2 ids' cmf' p1) = reachable p1 :=
  Prog.prune_idempotent_reachable p1 S2 ids' cmf' h hwf

/-- **End to end, on the two functions behind the driver's `prune` verb.**  If `prunePipeline`
(types, roots, identity roots, elaboration, tracked run, `prune_case` table, reachability,
re-inference, witness pruning) answers `ok q` and the identity roots it labelled the first run with
are pairwise distinct on the plan, then `q.antiDos` — which elaborates the pruned plan with its **re-inferred** arrows and pruned witness
bits, runs it and evaluates the anti-DoS conditions at identity-root granularity — answers `"ok"`:
the re-typed pruned program elaborates, its run does not fail, every reachable node is executed and
both sides of every remaining case are taken.  (No concrete instance is given in Lean because the
hypotheses contain SHA-256 computations (`cmrs`, `ihrs`); every `ok … antidos=ok` line of the
correspondence run is an instance.) -/
theorem pipeline_antiDos (jetTy : JetTypes) (jetCmr : String → Option Nat) (jetSem : JetSem)
    (wit : Nat → Option (List Bool)) (p : Plan) (q : Pruned)
    (h : prunePipeline jetTy jetCmr jetSem wit p = .ok q)
    (hinj : ∀ arrows an, inferM jetTy p (fun _ => true) true = .ok arrows → ihrs jetCmr p arrows wit = some an →
      ∀ j k, j < p.size → k < p.size → (an.getD j (0, 0)).2 = (an.getD k (0, 0)).2 → j = k) :
    q.antiDos jetCmr jetSem wit = "ok" :=
  Prog.pipeline_antiDos jetTy jetCmr jetSem wit p q h hinj

/-- non-vacuity of `antiDoS_driver` / `prune_idempotent_plan`: their hypotheses hold on the example
program above (identities = plan indices, pairwise distinct; second run labelled `j ↦ j + 100`) -/
example : (∃ tr2 : Trace, antiDosOK exPlan1 (reachable exPlan1) (fun j => j + 100) tr2 = true) ∧
    (∃ tr2 : Trace, inferM (fun _ => none) (prunePlan tr2.sides (fun j => j + 100) (fun _ => 1) exPlan1)
      (fun j => (reachable exPlan1).getD j false) true = .ok exArr1) := by
  obtain ⟨t, tr, hx, hrun, hs⟩ : ∃ (t : Term .one .one) (tr : Trace),
      elabNode { plan := exPlan, arrows := exArr, wit := exWit, cmr := #[], jets := fun _ _ => none } 10 8
        = some ⟨.one, .one, t⟩ ∧
      evalT t (labOf exPlan (fun j => j) 10 8) .unit = .ok (.unit, tr) ∧ tr.sides = [(7, false)] :=
    ⟨_, _, rfl, rfl, rfl⟩
  have ha1 : inferM (fun _ => none) (prunePlan tr.sides (fun j => j) (fun _ => 0) exPlan)
      (fun j => (reachable (prunePlan tr.sides (fun j => j) (fun _ => 0) exPlan)).getD j false) true = .ok exArr1 := by
    rw [hs]; exact ex_infer1
  obtain ⟨t', tr2, _, _, h3⟩ := antiDoS_driver (fun _ => none) exPlan exWit #[] (fun _ _ => none) (fun j => j)
    (fun j => j + 100) (fun _ => 0) true (pruneWit exWit exArr exArr1) rfl (by decide) ex_infer 10
    ⟨.one, .one, t⟩ hx .unit .unit tr .unit hrun ha1 (fun j bits _ _ h => h) (fun j k _ _ h => h)
  obtain ⟨t'', tr2', _, _, _, h4', _⟩ := prune_idempotent_plan (fun _ => none) exPlan exWit #[] (fun _ _ => none)
    (fun j => j) (fun j => j + 100) (fun _ => 0) (fun _ => 1)
    (fun j => (reachable (prunePlan tr.sides (fun j => j) (fun _ => 0) exPlan)).getD j false) true
    (pruneWit exWit exArr exArr1) rfl ex_infer 10 8 ⟨.one, .one, t⟩ hx .unit .unit tr .unit hrun ha1
    (fun j hj => by have := reachable_lt _ hj; rwa [prunePlan_size] at this)
    (fun j nd' hj hnd' => reachable_closed _ (wf_prunePlan _ _ _ _ rfl) hj hnd')
    (fun j bits _ _ h => h)
    (by rw [hs]; rfl)
    (fun j hj => by have := reachable_sound _ hj; rwa [prunePlan_size] at this)
    (fun j k _ _ h => h)
  rw [hs] at h3 h4'
  exact ⟨⟨tr2, h3⟩, ⟨tr2', h4'⟩⟩

/-! ## (T) typed terms: the `Pruner` step -/

/-- **Same output, same tracker record, idempotent** — on the typed terms the driver evaluates, all
node kinds: if the run of `t` (labelled `l`) on `v` succeeds with output `o` and record `tr`, then
the term rewritten by `tr.sides` runs to the same `o` with the same record `tr`, and rewriting it
again by the record of its own run changes neither the term nor its labels.  (More generally
`Prog.evalT_pruneTerm`: any tracker content covering `tr.sides` will do — the situation of a
shared node that other runs of the same node have also marked.) -/
theorem eval_prune_pruner_step {a b : Ty} (t : Term a b) (l : Lab) (v o : Val) (tr : Trace)
    (h : evalT t l v = .ok (o, tr)) :
    evalT (pruneTerm tr.sides t l) (pruneLab tr.sides t l) v = .ok (o, tr) ∧
    pruneTerm tr.sides (pruneTerm tr.sides t l) (pruneLab tr.sides t l) = pruneTerm tr.sides t l ∧
    pruneLab tr.sides (pruneTerm tr.sides t l) (pruneLab tr.sides t l) = pruneLab tr.sides t l :=
  prune_spec_term t l v o tr h

/-- **Plan level = term level.**  If node `i` of a plan elaborates — with the plan's arrows,
witnesses, roots and jet table `e` — to the term `t`, then node `i` of the pruned plan elaborates,
*with the same arrows*, to `pruneTerm S t` taken at the plan's labels, and the labels of the pruned
plan are `pruneLab S t` of the plan's labels: the plan-level `prune_case` table is exactly the
term-level rewriting, for every tracker content, identity assignment and root table. -/
theorem plan_pruning_is_term_pruning (S : List (Nat × Bool)) (ids : Nat → Nat) (cm : Nat → Nat) (e : Env)
    (f i : Nat) (x : Σ a b, Term a b) (h : elabNode e f i = some x) :
    elabNode (envP S ids cm e) f i = some ⟨x.1, x.2.1, pruneTerm S x.2.2 (labOf e.plan ids f i)⟩ ∧
    labOf (prunePlan S ids cm e.plan) ids f i = pruneLab S x.2.2 (labOf e.plan ids f i) :=
  elabNode_prunePlan S ids cm e f i x h

/-- **Same output, same record, idempotent — on plans, with the original arrows.**  If the term of
node `i` of the plan runs on `v` to `o` with tracker record `tr`, then the plan pruned by `tr.sides`
still elaborates at node `i` (same arrows, witnesses, roots, jets), the resulting term — run with the
labels of the pruned plan — gives the same output `o` and the same record `tr`, and pruning the pruned
plan by that record once more changes nothing. -/
theorem eval_prune_plan_original_types (ids : Nat → Nat) (cm : Nat → Nat) (e : Env) (f i : Nat)
    (x : Σ a b, Term a b) (v o : Val) (tr : Trace) (hx : elabNode e f i = some x)
    (hrun : evalT x.2.2 (labOf e.plan ids f i) v = .ok (o, tr)) :
    ∃ t' : Term x.1 x.2.1,
      elabNode (envP tr.sides ids cm e) f i = some ⟨x.1, x.2.1, t'⟩ ∧
      evalT t' (labOf (prunePlan tr.sides ids cm e.plan) ids f i) v = .ok (o, tr) ∧
      prunePlan tr.sides ids cm (prunePlan tr.sides ids cm e.plan) = prunePlan tr.sides ids cm e.plan := by
  obtain ⟨h1, h2⟩ := elabNode_prunePlan tr.sides ids cm e f i x hx
  refine ⟨_, h1, ?_, prunePlan_idem _ _ _ _⟩
  rw [h2]
  exact evalT_pruneTerm tr.sides x.2.2 _ v o tr hrun (fun _ hp => hp)

/-! ## (A) abstract models (each accompanied by a full plan-level theorem above) -/

/-- **Same behaviour after re-typing** (`Prune.lean`).  If `t'` is `t` with arbitrary other types,
witness values pruned to the new types (`pr`), jets and words unchanged, and case nodes possibly
replaced by assertions hiding the branch *not taken on input `v`* (`ShrinkOn t' t v`), then a
successful run of `t` on `v` with output `out` implies that `t'` maps the pruned input to the pruned
output.  *Partial* only in that it speaks about the abstract relation `ShrinkOn`; the statement
for the plan-level pipeline (`prunePlan` + `inferM` + `pruneWit`, elaborated by `elabNode`) is the
full theorem `eval_prune_retyping` above, proved directly by induction over the plan (it also gives
the tracker record, which `ShrinkOn` does not speak about).  That the elaborated pair of terms is
`ShrinkOn`-related is not stated separately. -/
theorem eval_prune_retyping_partial {a' b' a b : Ty} {t' : Term a' b'} {t : Term a b} {v : Val}
    (h : ShrinkOn t' t v) (out : Val) (he : eval t v = some out) :
    eval t' (pr a' v) = some (pr b' out) :=
  eval_shrink h out he

/-- **Prune succeeds when the run does, same output and record, pruning again changes nothing**
(`PruneTrace.lean`, identity-labelled skeletons).  *Partial*: skeletons have no `disconnect` node,
no types, and are not derived from plans.  The plan-level statements are `eval_prune_pruner_step`
/ `eval_prune_plan_original_types` (types kept, every node kind) and `prune_idempotent_plan`
(re-inferred types, witness bits and reachable set included; it needs the identities of the first
run pairwise distinct on the plan, because the identity roots of the re-typed program differ from
those of the original and the second tracker record can only be compared through plan indices). -/
theorem prune_idempotent_partial (s : PT.Sk) (v o : PT.Val) (tr : PT.Tr) (h : PT.eval s v = some (o, tr)) :
    ∃ p, PT.prune s v = some p ∧ PT.eval p v = some (o, tr) ∧ PT.prune p v = some p :=
  PT.prune_spec s v o tr h

/-- **Anti-DoS** (`PruneTrace.lean`).  When identities are faithful (one identity, one sub-DAG:
identity roots do not collide), the run of the pruned program records every node of the pruned
program as executed and both sides of every remaining case node — including the case nodes kept
with *neither* side recorded, which are shown to be unreachable.  *Partial*: skeletons, no
`disconnect`.  The plan-level statements are `antiDoS_plan`, `antiDoS_driver` and `pipeline_antiDos`
(every node kind; hypothesis: identity roots pairwise distinct on the plan, which is what the
decoder enforces).  What neither covers: plans in which two *different* nodes carry the same
identity root (the harness builds such programs without decoding them).  There the tracker merges
the records of the two nodes while re-inference may give them different types, hence different
identity roots in the pruned program; `IdsFaithful` of the skeleton model has no types and does not
see this.  That case is sampled: the driver evaluates the conditions at identity-root granularity
on its own run of every pruned plan (`antidos=`) and the harness compares with
`evalTCOExpression(CHECK_ALL)`; libsimplicity itself is not modelled. -/
theorem antiDoS_partial (s : PT.Sk) (hf : PT.IdsFaithful s) (v o : PT.Val) (tr : PT.Tr)
    (h : PT.eval s v = some (o, tr)) :
    PT.eval (PT.pruneBy tr.sides s) v = some (o, tr) ∧
      ∀ w ∈ PT.sub (PT.pruneBy tr.sides s), PT.AllUsed tr w :=
  PT.antiDoS s hf v o tr h

/-! ## Non-vacuity -/

/-- a run that takes the left side of a witness-selected case: the tracker records it, the table
turns the case into `assertl`, the rewritten term gives the same output -/
example :
    let t : Term .one .one := .comp (.pair (.witness (.inl .unit) : Term .one (.sum .one .one)) .iden)
      (.case (.unit : Term (.prod .one .one) .one) (.unit : Term (.prod .one .one) .one))
    let l : Lab := .bin 9 (.bin 3 (.leaf 1) (.leaf 2)) (.bin 8 (.leaf 0) (.leaf 7))
    (∃ tr, evalT t l .unit = .ok (.unit, tr) ∧ tr.sides = [(8, false)]) ∧
    pruneTerm [(8, false)] t l =
      .comp (.pair (.witness (.inl .unit) : Term .one (.sum .one .one)) .iden)
        (.assertl (b := .one) (.unit : Term (.prod .one .one) .one)) := by
  refine ⟨⟨_, rfl, rfl⟩, ?_⟩
  simp [pruneTerm]

/-- the table on a plan node; both sides recorded keeps the case -/
example : pruneNode [(5, true)] 5 (fun i => 100 + i) (.case 1 2) = .assertr 101 2 ∧
    pruneNode [(5, true), (5, false)] 5 (fun i => 100 + i) (.case 1 2) = .case 1 2 ∧
    pruneNode [] 5 (fun i => 100 + i) (.case 1 2) = .case 1 2 := by
  refine ⟨by simp [pruneNode], by simp [pruneNode], by simp [pruneNode]⟩

/-- a value pruned to a strictly smaller type -/
example : pruneV (.pair (.inl (.inr .unit)) (.inr .unit)) (.prod (.sum .one .one) .one) =
    some (.pair (.inl .unit) .unit) ∧
    Le (.prod (.sum .one .one) .one) (.prod (.sum (.sum .one .one) .one) (.sum .one .one)) :=
  ⟨rfl, .prod (.sum (.one _) (.one _)) (.one _)⟩

end Props.C08
