/-
C14 — Jet tables and foreign bindings match libsimplicity.

Property theorems only.  The tables they speak about (`Gen/Jets{Core,Elements,Bitcoin,C}.lean`,
`Gen/Externs.lean`) are regenerated from the Rust and C sources on every run by
`tools/translate_jets.py` / `tools/translate_externs.py`; the table-wide computations are in
`SimplicityModel/C14/*.lean` (closed Boolean checks evaluated by the kernel), the general lemmas that
lift a passed check to every row in `JetTable.lean`, `JetCross.lean`, `ExternTable.lean`.

Model of the four methods of a family `F` (`JetTable.Family`): `F.encode i` = the bits `Jet::encode`
writes for the i-th variant of the enum, `F.decode` = the walk of the `decode_bits!` trie,
`F.display i` = what `Display` prints, `F.parse` = the first matching arm of `FromStr::from_str`
(= `Jet::parse`), `F.srcTy i`/`F.tgtTy i` = `source_ty()/target_ty().to_final()`.
-/
import SimplicityModel.C14.Core
import SimplicityModel.C14.Elements
import SimplicityModel.C14.Bitcoin
import SimplicityModel.C14.Cross
import SimplicityModel.C14.Externs

namespace Props.C14
open JetTable JetTable.Family ExternTable

abbrev core : Family := Gen.Core.family
abbrev elements : Family := Gen.Elements.family
abbrev bitcoin : Family := Gen.Bitcoin.family
/-- the three jet families of the library -/
def families : List Family := [core, elements, bitcoin]

theorem all_checked : ∀ F ∈ families, F.Checked := by
  intro F hF
  simp only [families, List.mem_cons, List.not_mem_nil, or_false] at hF
  rcases hF with rfl | rfl | rfl
  · exact C14.Core.checked
  · exact C14.Elements.checked
  · exact C14.Bitcoin.checked

/-- Tie to the source: in each of the three regenerated tables there are as many rows as the enum has
variants (368, 471, 428); the string literals of the rows (name, source and target type name) are the
byte strings the kernel computes with; and `code` is `write_bits_be(n, len)` of the `(n, len)` arm that
`encode` has for the variant in the source.  The same for the strings of the C rows. -/
theorem gen_tables_tie :
    core.rows.length = 368 ∧ elements.rows.length = 471 ∧ bitcoin.rows.length = 428 ∧ Gen.C.rows.length = 471 ∧
    (∀ F ∈ families,
      F.rows.map (fun r => (r.name, r.src, r.tgt)) = F.keys.map (fun k => (strOfKey k.1, strOfKey k.2.1, strOfKey k.2.2)) ∧
      F.codes = F.enc.map (fun e => Spk.bitsBE e.1 e.2)) ∧
    Gen.C.rows.map (fun r => (r.name, r.src, r.tgt)) = Gen.C.keys.map (fun k => (strOfKey k.1, strOfKey k.2.1, strOfKey k.2.2.1)) :=
  ⟨C14.Core.count, C14.Elements.count, C14.Bitcoin.count, (all2_spec _ _ _ C14.Cross.c_roots_costs).1 ▸ C14.Elements.count,
   fun F hF => ⟨(all_checked F hF).keys_tie, (all_checked F hF).enc_tie⟩, C14.Cross.c_keys_tie⟩

/-- For every jet of every family, decoding what `encode` wrote — followed by any further bits — returns
that jet and leaves exactly the further bits. -/
theorem decode_encode : ∀ F ∈ families, ∀ (i : Nat), i < F.rows.length → ∀ (r : List Bool),
    F.decode (F.encode i ++ r) = .ok i r :=
  fun F hF i h r => Family.decode_encode (all_checked F hF) i h r

/-- No jet's code is a prefix of another jet's code (in particular no two jets share a code). -/
theorem codes_prefix_free : ∀ F ∈ families, ∀ (i j : Nat), i < F.rows.length → j < F.rows.length →
    F.encode i <+: F.encode j → i = j :=
  fun F hF i j hi hj hp => Family.prefix_free (all_checked F hF) i j hi hj hp

/-- Whatever bit string `decode` accepts, it returns a jet of the family whose code is exactly the
consumed prefix: there is no second, non-canonical spelling of a jet. -/
theorem decode_only_codes : ∀ F ∈ families, ∀ (bs : List Bool) (i : Nat) (r : List Bool),
    F.decode bs = .ok i r → i < F.rows.length ∧ bs = F.encode i ++ r :=
  fun F hF bs i r h => Family.decode_sound (all_checked F hF) bs i r h

/-- The name of every jet parses back to that jet. -/
theorem parse_display : ∀ F ∈ families, ∀ (i : Nat), i < F.rows.length → F.parse (F.display i) = some i :=
  fun F hF i h => Family.parse_display (all_checked F hF) i h

/-- Different jets of a family have different names. -/
theorem names_unique : ∀ F ∈ families, ∀ (i j : Nat), i < F.rows.length → j < F.rows.length →
    F.display i = F.display j → i = j :=
  fun F hF i j hi hj e => Family.display_inj (all_checked F hF) i j hi hj e

/-- Every source and target type name of every jet is legal type-name syntax (`to_final` does not panic). -/
theorem type_names_legal : ∀ F ∈ families, ∀ (i : Nat), i < F.rows.length →
    (F.srcTy i).isSome = true ∧ (F.tgtTy i).isSome = true :=
  fun F hF i h => Family.types_legal (all_checked F hF) i h

/-- `TypeName::to_bit_width` is the bit width of `TypeName::to_final`, for every byte string (the two
stack machines of src/jet/type_name.rs fail on the same strings); hence the buffers `exec_jet` sizes from
`to_bit_width` have the width of the jet's types. -/
theorem typeName_width (name : List Nat) : widthOfName name = (typeOfName name).map Ty.bitWidth :=
  JetTable.typeName_width name

/-- The same for any value computed bottom-up over the type by the same stack machine (the type Merkle
root `TypeName::tmr` is the instance with `Tmr::unit`, `Tmr::TWO_TWO_N[n]`, `Tmr::sum`, `Tmr::product`,
provided those constants are the roots of the word types). -/
theorem typeName_fold {α : Type} (A : TyAlg α) (h : Ty → α) (H : TyHom h tyAlg A) (name : List Nat) :
    tyRun A name = (typeOfName name).map h :=
  tyRun_hom H name

/-- Each Core jet has an Elements namesake with the same source and target type and the same code behind
the family prefix bit `0`. -/
theorem core_eq_elements : ∀ (i : Nat), i < core.rows.length → ∃ j, j < elements.rows.length ∧
    elements.display j = core.display i ∧
    elements.srcTy j = core.srcTy i ∧ elements.tgtTy j = core.tgtTy i ∧
    elements.encode j = false :: core.encode i := by
  intro i hi
  have Cc := C14.Core.checked
  have Ce := C14.Elements.checked
  obtain ⟨hl, hm⟩ := coreInElements_spec _ _ _ _ C14.Cross.core_in_elements
  have hik : i < core.keys.length := by rw [← length_keys Cc]; exact hi
  obtain ⟨j, h1, h2, h3, h4, e1, e2, e3, e4⟩ := hm i hik
  have hj : j < elements.rows.length := by rw [length_keys Ce]; exact h3
  refine ⟨j, hj, ?_, ?_, ?_, ?_⟩
  · rw [display_eq Ce j hj, display_eq Cc i hi]
    simp only [nameKeys, List.getElem_map]
    rw [e1]
  · simp only [srcTy, List.getD_eq_getElem?_getD, List.getElem?_eq_getElem h3, List.getElem?_eq_getElem h1, Option.getD_some]
    exact (sameTy_spec e2).symm
  · simp only [tgtTy, List.getD_eq_getElem?_getD, List.getElem?_eq_getElem h3, List.getElem?_eq_getElem h1, Option.getD_some]
    exact (sameTy_spec e3).symm
  · rw [encode_eq j hj, encode_eq i hi]
    exact e4

/-- `TypeName::to_final` of the i-th C row's source / target type (the C type behind `sourceIx` /
`targetIx`, spelt by the translator with the letters of type_name.rs) -/
def cSrcTy (i : Nat) : Option Ty := typeOfName (bytesOfKey (Gen.C.keys.getD i default).2.1)
def cTgtTy (i : Nat) : Option Ty := typeOfName (bytesOfKey (Gen.C.keys.getD i default).2.2.1)

/-- Elements versus the C tables of libsimplicity, row by row (the two enums list the jets in the same
order): same name (the C function behind `.jet`, which is also the name of the `jetName` entry the row
initialises), same commitment root, same source and target type, same cost, and the code `encode`
writes is the family bit followed by the naturals that `decodePrimitive`'s nested switches read on the
way to that jet. -/
theorem elements_eq_C : Gen.C.rows.length = elements.rows.length ∧
    ∀ (i : Nat) (h : i < elements.rows.length) (hc : i < Gen.C.rows.length) (hp : i < Gen.C.paths.length),
      (Gen.C.rows[i]'hc).name = elements.display i ∧
      (elements.rows[i]'h).cmr = (Gen.C.rows[i]'hc).cmr ∧
      (elements.rows[i]'h).cost = (Gen.C.rows[i]'hc).cost ∧
      elements.srcTy i = cSrcTy i ∧ elements.tgtTy i = cTgtTy i ∧
      elements.encode i = (Gen.C.paths[i]'hp).1 :: encodeNats (Gen.C.paths[i]'hp).2 := by
  have Ce := C14.Elements.checked
  obtain ⟨l1, r1⟩ := all2_spec _ _ _ C14.Cross.c_roots_costs
  obtain ⟨l2, r2⟩ := all2_spec _ _ _ C14.Cross.c_names
  obtain ⟨_, r3⟩ := all2_spec _ _ _ C14.Cross.c_types
  obtain ⟨l4, r4⟩ := all2_spec _ _ _ C14.Cross.c_paths
  refine ⟨l1.symm, fun i h hc hp => ?_⟩
  have hk : i < elements.keys.length := by rw [← length_keys Ce]; exact h
  have hck : i < Gen.C.keys.length := by rw [← l2]; exact hk
  have a1 := r1 i h hc
  have a2 := r2 i hk hck
  have a3 := r3 i hk hck
  have a4 := r4 i (by simpa [codes] using h) hp
  simp only [Bool.and_eq_true] at a1 a2 a3
  have tie := (map_eq_map_getElem C14.Cross.c_keys_tie).2 i hc hck
  simp only [Prod.mk.injEq] at tie
  refine ⟨?_, Nat.eq_of_beq_eq_true a1.1, Nat.eq_of_beq_eq_true a1.2, ?_, ?_, ?_⟩
  · rw [tie.1, display_eq Ce i h]
    simp only [nameKeys, List.getElem_map]
    rw [Nat.eq_of_beq_eq_true a2.1]
  · simp only [srcTy, cSrcTy, List.getD_eq_getElem?_getD, List.getElem?_eq_getElem hk, List.getElem?_eq_getElem hck, Option.getD_some]
    exact sameTy_spec a3.1
  · simp only [tgtTy, cTgtTy, List.getD_eq_getElem?_getD, List.getElem?_eq_getElem hk, List.getElem?_eq_getElem hck, Option.getD_some]
    exact sameTy_spec a3.2
  · rw [encode_eq i h]
    exact pathOk_spec a4

/-- The binding chain of every Elements jet goes by the jet's own name at every link: `c_jet_ptr` returns
the `jets_wrapper` function of that name, which calls the `elements_ffi` function of that name, whose
`link_name` is `rustsimplicity_0_7_c_<name>`, which `WRAP_(<name>)` of jets_wrapper.c defines (and forwards
to `rustsimplicity_0_7_<name>`, the `.jet` of the C row of that name by `elements_eq_C`). -/
theorem elements_binding_chain : Gen.Elements.cptr = Gen.C.chain.map (·.1) ∧
    ∀ (i : Nat) (h : i < elements.keys.length) (hc : i < Gen.C.chain.length),
      (Gen.C.chain[i]'hc).1 = (elements.keys[i]'h).1 ∧ (Gen.C.chain[i]'hc).2.1 = (elements.keys[i]'h).1 ∧
      (Gen.C.chain[i]'hc).2.2.1 = (elements.keys[i]'h).1 ∧ (Gen.C.chain[i]'hc).2.2.2 = (elements.keys[i]'h).1 := by
  refine ⟨C14.Cross.cptr_is_chain, fun i h hc => ?_⟩
  have a := (all2_spec _ _ _ C14.Cross.c_chain).2 i h hc
  simp only [Bool.and_eq_true] at a
  exact ⟨Nat.eq_of_beq_eq_true a.1.1.1, Nat.eq_of_beq_eq_true a.1.1.2, Nat.eq_of_beq_eq_true a.1.2, Nat.eq_of_beq_eq_true a.2⟩

/-! ## extern declarations -/

/-- Every `extern "C"` function declared in simplicity-sys has a C prototype or definition of the symbol
it links to, with the same number of parameters. -/
theorem externs_arity : ∀ r ∈ Gen.Externs.decls, r.cFound = true ∧ r.params.length = r.cParams.length := by
  intro r hr
  have := allB_spec _ _ C14.Externs.arity r hr
  simpa [arityOk] using this

/-- Every parameter is, on the reference target of this check (x86-64 Linux, LP64, glibc), a value of the
same class on both sides (pointer, bool, integer of the same width and signedness, struct by value). -/
theorem externs_abi : ∀ r ∈ Gen.Externs.decls, r.params.length = r.cParams.length ∧
    ∀ (i : Nat) (h : i < r.params.length) (hc : i < r.cParams.length), r.params[i].abi = r.cParams[i].abi := by
  intro r hr
  have := all2_spec _ _ _ (allB_spec _ _ C14.Externs.abi r hr)
  refine ⟨this.1, fun i h hc => ?_⟩
  have := this.2 i h hc
  simpa [abiCompat] using this

/-- Every parameter of every extern function declaration has, by name (typedefs and aliases resolved on
both sides down to the C standard name — `c_size_t`/`usize` = `size_t`, `c_uint_fast32_t` = `uint_fast32_t`,
`ubounded` = `uint_least32_t`, …; Rust struct names mapped to the C typedef they mirror; function-pointer
types compared structurally, return type included; constness not compared; a pointer to `void` stands for
any object pointer), the type of the corresponding parameter of the C prototype. -/
theorem externs_param_types : ∀ r ∈ Gen.Externs.decls, ∀ (i : Nat), i < r.params.length →
    nameCompat (r.params.getD i default) (r.cParams.getD i default) = true := by
  intro r hr i hi
  have h := allB_spec _ _ C14.Externs.names r hr
  cases hc : nameCompat (r.params.getD i default) (r.cParams.getD i default) with
  | true => rfl
  | false =>
    have hd : i ∈ nameDiffs r := by
      simp only [nameDiffs, List.mem_filter, List.mem_range, hc]
      exact ⟨hi, rfl⟩
    simp only [List.isEmpty_iff] at h
    rw [h] at hd
    cases hd

/-- The `WRAP_` macro through which every jet is bound forwards `(dst, *src, env)` to
`rustsimplicity_0_7_<jet>`; every one of the 471 wrapped C jets is declared
`bool f(frameItem* dst, frameItem src, const txEnv* env)`. -/
theorem wrap_forwards : Gen.Externs.wrapForwards = true ∧ Gen.Externs.wrappedNotJetShaped = [] ∧
    Gen.Externs.wrapCount = 471 ∧ Gen.C.wrapCount = 471 := by decide +kernel

/-! ## non-vacuity: the hypotheses are met by concrete rows -/

set_option maxRecDepth 20000 in
example : 1 < elements.rows.length ∧ elements.encode 1 ≠ [] ∧
    elements.decode (elements.encode 1 ++ [true, false]) = .ok 1 [true, false] := by decide +kernel
example : families.length = 3 := rfl
example : typeOfName [42, 105, 105] = some (.prod (Ty.word 5) (Ty.word 5)) ∧ widthOfName [42, 105, 105] = some 64 := by decide +kernel
example : widthOfName [42, 105] = none ∧ typeOfName [42, 105] = none := by decide +kernel
set_option maxRecDepth 20000 in
example : 400 < Gen.Externs.decls.length := by decide +kernel

end Props.C14
