/-
C01 — program and witness bit-encoding round-trips.

The encoder `Prog.encode` (types by the reference unifier, identity roots by SHA-256, post-order
walk under the encoder's sharing keys, back references, compact witness stream) and the decoder
`Prog.decodeRedeem` are what the driver runs; their outputs are compared with
`to_vec_with_witness` / `to_vec_without_witness` / `RedeemNode::decode` on every generated program,
and the driver checks on every `enc R` operation that its own decoder accepts its own encoding with
the same roots.  The round trip is proved layer by layer; the assembled statement is `_partial`.
-/
import SimplicityModel.Prog.Codec
import SimplicityModel.Prog.JetsElements
import SimplicityModel.Roundtrip
import SimplicityModel.Value
import SimplicityModel.Infer

namespace Props.C01
open Wire Prog

/-- **Naturals** round-trip, consuming exactly the written bits. -/
theorem natural_roundtrip (n : Nat) (h1 : 1 ≤ n) (h32 : n < 2 ^ 32) (r : List Bool) :
    Spk.decodeNat (Spk.encodeNat n ++ r) = .ok (n, r) :=
  Spk.decode_encode n h1 h32 r

/-- **Jets** (Elements table regenerated from the source): decoding the code of a jet gives that
jet and leaves the rest untouched. -/
theorem jet_roundtrip (j : JetsE.J) (r : List Bool) : JetsE.dec (JetsE.enc j ++ r) = some (j, r) :=
  JetsE.dec_enc j r

/-- **Node list**: any non-empty list of fewer than 2^32 well-formed nodes (children strictly
earlier, 512-bit fail entropy, 256-bit hidden roots, words of 2^n bits with n < 32) is read back
exactly from its encoding, whatever follows. -/
theorem node_list_roundtrip (ns : List (WNode JetsE.J)) (h0 : ns ≠ []) (hl : ns.length < 2 ^ 32)
    (hok : NodesOk 0 ns) (r : List Bool) :
    decProgram JetsE.jc (encProgram JetsE.jc ns ++ r) = .ok (ns, r) :=
  decProgram_encProgram JetsE.jc ns h0 hl hok r

/-- **Structure**: the node list the encoder writes for a program whose sharing identities are
total and congruent (identity roots are), rebuilt as a DAG and walked with pointer sharing as the
decoder does, has every item at its own index (the decoder's canonical-order check passes) and
re-encodes to the same node list. -/
theorem structural_roundtrip {K : Type} [DecidableEq K] (key : PO.T → Option K) (d : PO.T)
    (hc : PO.Congr key) (hk : PO.KeyTotal key) :
    let ns := PO.encodeList key d
    let root := (PO.visit key d (fun _ => none) 0).2.2.2
    let P := (PO.visit PO.ptr (PO.U ns root) (fun _ => none) 0).1
    (∀ (i : Nat) (o' : PO.Out), P[i]? = some o' → o'.node.id = i) ∧ P.map PO.Out.shape = ns :=
  PO.encode_decode_walk key d hc hk

/-- **Witness stream**: well-typed values come back bit for bit, in order, whatever follows. -/
theorem witness_stream_roundtrip (vs : List Vl.Val) (ts : List Vl.Ty) (rest : List Bool)
    (h : Vl.HasTys vs ts) : Vl.decWitness ts (Vl.encWitness vs ++ rest) = some (vs, rest) :=
  Vl.decWitness_encWitness vs ts rest h

/-- **Types**: decoding merges nodes with equal identity roots, which only adds equations between
type variables that already had equal types; if the original (principal) typing solves the enlarged
system, inference on the decoded program returns exactly the original types — and cannot fail. -/
theorem reinference_returns_original_types {f f' : Nat} {E E' : List Inf.Eqn} {S S' : List Inf.Bind}
    (hsub : ∀ e ∈ E, e ∈ E') (h : Inf.unify f E [] = .ok S) (h' : Inf.unify f' E' [] = .ok S')
    (hsol : Inf.Sol (Inf.closeUnit S) E') : ∀ x, Inf.closeUnit S' x = Inf.closeUnit S x :=
  Inf.least_of_quotient hsub h h' hsol

theorem reinference_accepts {f' : Nat} {E' : List Inf.Eqn} {ρ : Nat → Inf.Ty} (hsol : Inf.Sol ρ E')
    (h : Inf.unify f' E' [] = .clash ∨ Inf.unify f' E' [] = .occurs) : False :=
  Inf.quotient_accepts hsol h

/-- **Assembled, first stage** (about the functions the driver runs): whenever the encoder produces
a program stream from a node list, the node-list decoder reads that list back and `close` accepts the
zero padding.  The full statement `decodeRedeem (encode r) = ok r' ∧ r' ≅ r` is the assembly of the
layers above and is checked by the driver on every generated program: `roundtrip_partial`. -/
theorem roundtrip_partial (ns : List (WNode JetsE.J)) (h0 : ns ≠ []) (hl : ns.length < 2 ^ 32)
    (hok : NodesOk 0 ns) :
    ∃ rest, decProgram JetsE.jc (padToByte (encProgram JetsE.jc ns)) = .ok (ns, rest) ∧
      closeOk rest = true := by
  refine ⟨List.replicate ((8 - (encProgram JetsE.jc ns).length % 8) % 8) false, ?_, ?_⟩
  · unfold padToByte
    exact decProgram_encProgram JetsE.jc ns h0 hl hok _
  · unfold closeOk
    simp only [List.length_replicate, Bool.and_eq_true, decide_eq_true_eq, List.all_eq_true]
    refine ⟨by omega, ?_⟩
    intro b hb
    simp [List.eq_of_mem_replicate hb]

end Props.C01
