/-
C01 — program and witness bit-encoding round-trips.

The encoder `Prog.encode` (types by the reference unifier, identity roots by SHA-256, post-order
walk under the encoder's sharing keys, back references, compact witness stream) and the decoder
`Prog.decodeRedeem` are what the driver runs; their outputs are compared with
`to_vec_with_witness` / `to_vec_without_witness` / `RedeemNode::decode` on every generated program,
and the driver checks on every `enc R` operation that its own decoder accepts its own encoding with
the same roots.  The round trip is proved layer by layer and assembled for programs in the decoder's
canonical form (`roundtrip_canonical`) and for arbitrary programs all of whose nodes are used —
nodes in any order, several nodes with one identity root, which the encoder renumbers and merges —
along the encoder's node map (`roundtrip_general`).  For plans with *unused* nodes only the
structural and conversion stages hold in general (`roundtrip_nodemap_partial`,
`roundtrip_nodemap_convert`): an unused node can constrain the types of used ones, which no encoding
preserves (the property's quantifier is "built in a fresh context holding only its own nodes").
-/
import SimplicityModel.Prog.Codec
import SimplicityModel.Prog.JetsElements
import SimplicityModel.Roundtrip
import SimplicityModel.Value
import SimplicityModel.Infer
import SimplicityModel.Prog.RoundtripProps
import SimplicityModel.Prog.JetsElementsProps
import SimplicityModel.Prog.CommitEnc
import SimplicityModel.Prog.EncSelf
import SimplicityModel.Prog.EncConvert
import SimplicityModel.Prog.InferRename
import SimplicityModel.Prog.RtGeneral
import SimplicityModel.Prog.RtJets
import SimplicityModel.Prog.RtExample

namespace Props.C01
open Wire Prog

/-- **Naturals** round-trip, consuming exactly the written bits. -/
theorem natural_roundtrip (n : Nat) (h1 : 1 ≤ n) (h32 : n < 2 ^ 32) (r : List Bool) :
    Spk.decodeNat (Spk.encodeNat n ++ r) = .ok (n, r) :=
  Spk.decode_encode n h1 h32 r

/-- **Jets** (Elements table regenerated from the source): decoding the code of a jet gives that
jet and leaves the rest untouched. -/
theorem jet_roundtrip (j : JetsE.J) (r : List Bool) : JetsE.dec (JetsE.enc j ++ r) = some (j, r) :=
  JetsE.dec_enc j r

/-- **Node list**: any non-empty list of fewer than 2^32 well-formed nodes (children strictly
earlier, 512-bit fail entropy, 256-bit hidden roots, words of 2^n bits with n < 32) is read back
exactly from its encoding, whatever follows. -/
theorem node_list_roundtrip (ns : List (WNode JetsE.J)) (h0 : ns ≠ []) (hl : ns.length < 2 ^ 32)
    (hok : NodesOk 0 ns) (r : List Bool) :
    decProgram JetsE.jc (encProgram JetsE.jc ns ++ r) = .ok (ns, r) :=
  decProgram_encProgram JetsE.jc ns h0 hl hok r

/-- **Structure**: the node list the encoder writes for a program whose sharing identities are
total and congruent (identity roots are), rebuilt as a DAG and walked with pointer sharing as the
decoder does, has every item at its own index (the decoder's canonical-order check passes) and
re-encodes to the same node list. -/
theorem structural_roundtrip {K : Type} [DecidableEq K] (key : PO.T → Option K) (d : PO.T)
    (hc : PO.Congr key) (hk : PO.KeyTotal key) :
    let ns := PO.encodeList key d
    let root := (PO.visit key d (fun _ => none) 0).2.2.2
    let P := (PO.visit PO.ptr (PO.U ns root) (fun _ => none) 0).1
    (∀ (i : Nat) (o' : PO.Out), P[i]? = some o' → o'.node.id = i) ∧ P.map PO.Out.shape = ns :=
  PO.encode_decode_walk key d hc hk

/-- **Witness stream**: well-typed values come back bit for bit, in order, whatever follows. -/
theorem witness_stream_roundtrip (vs : List Vl.Val) (ts : List Vl.Ty) (rest : List Bool)
    (h : Vl.HasTys vs ts) : Vl.decWitness ts (Vl.encWitness vs ++ rest) = some (vs, rest) :=
  Vl.decWitness_encWitness vs ts rest h

/-- **Types**: decoding merges nodes with equal identity roots, which only adds equations between
type variables that already had equal types; if the original (principal) typing solves the enlarged
system, inference on the decoded program returns exactly the original types — and cannot fail. -/
theorem reinference_returns_original_types {f f' : Nat} {E E' : List Inf.Eqn} {S S' : List Inf.Bind}
    (hsub : ∀ e ∈ E, e ∈ E') (h : Inf.unify f E [] = .ok S) (h' : Inf.unify f' E' [] = .ok S')
    (hsol : Inf.Sol (Inf.closeUnit S) E') : ∀ x, Inf.closeUnit S' x = Inf.closeUnit S x :=
  Inf.least_of_quotient hsub h h' hsol

theorem reinference_accepts {f' : Nat} {E' : List Inf.Eqn} {ρ : Nat → Inf.Ty} (hsol : Inf.Sol ρ E')
    (h : Inf.unify f' E' [] = .clash ∨ Inf.unify f' E' [] = .occurs) : False :=
  Inf.quotient_accepts hsol h

/-- **Assembled, first stage** (about the functions the driver runs): whenever the encoder produces
a program stream from a node list, the node-list decoder reads that list back and `close` accepts the
zero padding.  The full statement `decodeRedeem (encode r) = ok r' ∧ r' ≅ r` is the assembly of the
layers above and is checked by the driver on every generated program: `roundtrip_partial`. -/
theorem roundtrip_partial (ns : List (WNode JetsE.J)) (h0 : ns ≠ []) (hl : ns.length < 2 ^ 32)
    (hok : NodesOk 0 ns) :
    ∃ rest, decProgram JetsE.jc (padToByte (encProgram JetsE.jc ns)) = .ok (ns, rest) ∧
      closeOk rest = true := by
  refine ⟨List.replicate ((8 - (encProgram JetsE.jc ns).length % 8) % 8) false, ?_, ?_⟩
  · unfold padToByte
    exact decProgram_encProgram JetsE.jc ns h0 hl hok _
  · unfold closeOk
    simp only [List.length_replicate, Bool.and_eq_true, decide_eq_true_eq, List.all_eq_true]
    refine ⟨by omega, ?_⟩
    intro b hb
    simp [List.eq_of_mem_replicate hb]

/-- the Elements jet table the driver runs reads back the name it prints for a jet -/
theorem elements_ofName_nameOf (j : JetsE.J) : JetsE.ofName (JetsE.nameOf j) = some j :=
  JetsE.ofName_nameOf j

/-- **Round trip of an arbitrary plan along the encoder's node map, structural stage** (about the
function the driver runs: `Prog.encode`, redeem mode; first stages of `Prog.decodeRedeem`).  Let `p`
be *any* plan — nodes in any topological order, unused nodes, several nodes with one identity root —
with annotations `an`, such that children are earlier nodes (`PlanBackward`, what the plan parser
guarantees), fail/word payloads have wire sizes (`PayloadOk`) and the sharing identities are a
congruence on the encoder's DAG (`EncCongr`: nodes with equal identity roots have children with
pairwise equal identity roots — true of identity roots up to SHA-256 collisions, kept as a
hypothesis since SHA-256 stays abstract).  Let `S` be the final state of the encoder's walk and
`f t` the position at which the sharing class of node `t` of the encoder's DAG (plan node `i` is
`2*i`, the hidden pseudo-node of assertion `j` is `2*j+1`) was written.  If the encoder succeeds,
then the node list `N` it wrote

* is non-empty and well formed (`NodesOk`: child references strictly backwards, payload sizes), so —
  if it has fewer than 2^32 nodes — the node-list decoder reads exactly `N` back from the program
  bytes and `close` accepts the padding;
* passes the decoder's canonical-order check `canonicalOk` (the pointer-sharing post-order walk from
  the last node yields node `j` at position `j`: no unused node, post-order, nothing unshared);
* has the root of `p` as its last node, and for every node `t` whose class was written (the root;
  and with `t` all its children — so every node reachable from the root): node `f t` of `N` is the
  wire node written for an item with the identity of `t`, and its child references are `f` of the
  children of `t`.

This is `decode (encode p) ≅ p` along `f` as far as the *structure* goes.  The full statement
`decodeRedeem (encode p) = ok d` with `d.plan[f i]` of the kind of `p[i]`, the same arrow, roots,
cost and witness value is `roundtrip_general` below, for plans all of whose nodes are reachable from
the root.  What stays partial here is exactly the case of a plan with *unused* nodes: the structure
and the conversion (`roundtrip_nodemap_convert`) are as stated, but the types need not come back — an
unused node `comp a b` equates the target of `a` with the source of `b` in the inference context of
`p`, the encoding drops it, and re-inference on the decoded program then returns a strictly more
general arrow at `f a` (so also other identity and annotated roots).  The implementation behaves
the same way (a sibling abandoned in the same inference context), which is why the property
quantifies over programs built in a fresh context holding only their own nodes; the driver still
checks every generated `enc R` operation at run time (`model-roundtrip-differs` /
`model-rejects-own-encoding` would be printed). -/
theorem roundtrip_nodemap_partial {J : Type} (jc : JetCode J) (ofName : String → Option J) (p : Plan)
    (an : Array Annot) (wit : Nat → Option (List Bool)) (hsz : an.size = p.size) (hpos : 0 < p.size)
    (hb : PlanBackward p) (hpl : PayloadOk p) (hcong : EncCongr p an) (pb wb : List Bool)
    (he : encode jc ofName p an true wit = some (pb, wb)) :
    let S := (walk (encChildren p true) (encKey p an true) (2 * p.size + 2) (2 * (p.size - 1)) ⟨#[], [], 0⟩).1
    let f := clsPos (encKey p an true) S
    ∃ N : List (WNode J), S.outs.toList.mapM (wireOf ofName p) = some N ∧
      pb = padToByte (encProgram jc N) ∧ N ≠ [] ∧ NodesOk 0 N ∧
      canonicalOk N.toArray = true ∧
      (N.length < 2 ^ 32 → ∃ rest, decProgram jc pb = .ok (N, rest) ∧ closeOk rest = true) ∧
      f (2 * (p.size - 1)) = N.length - 1 ∧
      (∃ i, Cls (encKey p an true) S (2 * (p.size - 1)) i) ∧
      (∀ t, EncDom p t → (∃ i, Cls (encKey p an true) S t i) →
        f t < N.length ∧ wireChildren N.toArray (f t) = (encChildren p true t).map f ∧
        (∃ o n, S.outs.toList[f t]? = some o ∧ encKey p an true o.node = encKey p an true t ∧
          N[f t]? = some n ∧ wireOf ofName p o = some n) ∧
        ∀ c ∈ encChildren p true t, ∃ i, Cls (encKey p an true) S c i) :=
  Prog.enc_structure jc ofName p an wit hsz hpos hb hpl hcong pb wb he

/-- **… and the conversion stage**: under the same hypotheses and with 256-bit assertion hashes
(`HashOk`), `convert` accepts the node list `N` the encoder wrote (hidden nodes occur only as one
child of a `case` node, are pairwise different, the root is not hidden), and the converted plan `q`
has, at every position, the conversion of the wire node written there — so (`convNode_spec`) node
`f t` of `q` has the kind of the wire node written for the class of `t`, with the child references
`f (children of t)` of `roundtrip_nodemap_partial`, assertions restored from `case` + hidden child. -/
theorem roundtrip_nodemap_convert {J : Type} (nameOf : J → String) (ofName : String → Option J) (p : Plan)
    (an : Array Annot) (hsz : an.size = p.size) (hpos : 0 < p.size)
    (hb : PlanBackward p) (hh : HashOk p) (hcong : EncCongr p an) (N : List (WNode J))
    (hm : (walk (encChildren p true) (encKey p an true) (2 * p.size + 2) (2 * (p.size - 1))
      ⟨#[], [], 0⟩).1.outs.toList.mapM (wireOf ofName p) = some N) :
    ∃ q, convert nameOf N.toArray = .ok q ∧ q.size = N.length ∧
      ∀ (i : Nat) (n : WNode J), N[i]? = some n →
        ∃ nd, q[i]? = some nd ∧ convNode nameOf N.toArray n = .ok nd := by
  obtain ⟨q, hq⟩ := enc_convert nameOf ofName p an hsz hpos hb hh hcong N hm
  obtain ⟨h1, h2, _, _⟩ := convert_spec nameOf N.toArray q hq
  exact ⟨q, hq, by simpa using h1, fun i n hn => h2 i n (by simpa using hn)⟩

/-- **Types along a node map**: re-inference on renumbered variables.  If a variable map `σ` sends
the constraints `E` of the original program into and onto the constraints `E'` of the decoded one,
and variables identified by `σ` had equal inferred types, then inference on `E'` returns the original
types transported along `σ` — and cannot end in a clash or an occurs-check failure
(`reinference_returns_original_types` is the case `σ = id`). -/
theorem reinference_along_renaming {f f' : Nat} {E E' : List Inf.Eqn} {S S' : List Inf.Bind} (σ : Nat → Nat)
    (himg : ∀ e ∈ E, (e.1.rename σ, e.2.rename σ) ∈ E')
    (hsur : ∀ e' ∈ E', ∃ e ∈ E, e' = (e.1.rename σ, e.2.rename σ))
    (h : Inf.unify f E [] = .ok S) (h' : Inf.unify f' E' [] = .ok S')
    (hwd : ∀ x x', σ x = σ x' → Inf.closeUnit S x = Inf.closeUnit S x') :
    ∀ x, Inf.closeUnit S' (σ x) = Inf.closeUnit S x :=
  Inf.least_of_renaming σ himg hsur h h' hwd

theorem reinference_along_renaming_accepts {f f' : Nat} {E E' : List Inf.Eqn} {S : List Inf.Bind} (σ : Nat → Nat)
    (hsur : ∀ e' ∈ E', ∃ e ∈ E, e' = (e.1.rename σ, e.2.rename σ))
    (h : Inf.unify f E [] = .ok S)
    (hwd : ∀ x x', σ x = σ x' → Inf.closeUnit S x = Inf.closeUnit S x')
    (hbad : Inf.unify f' E' [] = .clash ∨ Inf.unify f' E' [] = .occurs) : False :=
  Inf.renaming_accepts σ hsur h hwd hbad

/-- non-vacuity of `roundtrip_nodemap_partial`: a plan that is *not* in canonical form — the unit
node twice (one identity root at two nodes, written once), out of post-order — satisfies its
hypotheses for any annotations that give the two `unit` nodes one identity and the `comp` node
another -/
example (a c : Annot) (hne : a.ihr ≠ c.ihr) :
    let p : Plan := #[Node.unit, Node.unit, Node.comp 1 0]
    let an : Array Annot := #[a, a, c]
    an.size = p.size ∧ 0 < p.size ∧ PlanBackward p ∧ PayloadOk p ∧ EncCongr p an := by
  intro p an
  have hdom : ∀ t, EncDom p t → t = 0 ∨ t = 2 ∨ t = 4 := by
    intro t ht
    rcases ht with ⟨h2, hlt⟩ | ⟨h2, x, h, hp | hp⟩
    · have : t / 2 < 3 := hlt
      omega
    · have : t / 2 < 3 := by
        rcases Nat.lt_or_ge (t / 2) 3 with h' | h'
        · exact h'
        · rw [Array.getElem?_eq_none (by simpa [p] using h')] at hp; cases hp
      have : t / 2 = 0 ∨ t / 2 = 1 ∨ t / 2 = 2 := by omega
      rcases this with e | e | e <;> rw [e] at hp <;> simp [p] at hp
    · have : t / 2 < 3 := by
        rcases Nat.lt_or_ge (t / 2) 3 with h' | h'
        · exact h'
        · rw [Array.getElem?_eq_none (by simpa [p] using h')] at hp; cases hp
      have : t / 2 = 0 ∨ t / 2 = 1 ∨ t / 2 = 2 := by omega
      rcases this with e | e | e <;> rw [e] at hp <;> simp [p] at hp
  refine ⟨rfl, by decide, ?_, ?_, ?_⟩
  · intro i nd hp cc hc
    have hi : i < 3 := by
      rcases Nat.lt_or_ge i 3 with h' | h'
      · exact h'
      · rw [Array.getElem?_eq_none (by simpa [p] using h')] at hp; cases hp
    have : i = 0 ∨ i = 1 ∨ i = 2 := by omega
    rcases this with rfl | rfl | rfl <;> simp [p] at hp <;> subst hp <;> simp [Node.children] at hc
    omega
  · intro i nd hp
    have hi : i < 3 := by
      rcases Nat.lt_or_ge i 3 with h' | h'
      · exact h'
      · rw [Array.getElem?_eq_none (by simpa [p] using h')] at hp; cases hp
    have : i = 0 ∨ i = 1 ∨ i = 2 := by omega
    rcases this with rfl | rfl | rfl <;> simp [p] at hp <;> subst hp <;> trivial
  · intro t t' ht ht' hk
    rcases hdom t ht with rfl | rfl | rfl <;> rcases hdom t' ht' with rfl | rfl | rfl <;>
      simp [encKey, encChildren, p, an] at hk ⊢ <;> first | exact absurd hk hne | exact absurd hk.symm hne

/-- **Round trip, assembled** (about the functions the driver runs: `Prog.encode`, redeem mode, and
`Prog.decodeRedeem`).  Let `p` be a plan with arrows, annotations and witness bit strings that is in
the decoder's canonical form (`Prog.CanonicalPlan`, witnessed by a wire node list `N`): `N` is a
non-empty list of fewer than 2^32 well-formed nodes that passes the canonical-order check and
converts to `p`; no disconnect node is open; `p` is well typed as a program with exactly these
arrows; every witness node carries the compact bits of a value of its target type; the annotations
are those of `p`; the identity roots of the non-hidden nodes are pairwise different.  Then

* the encoder succeeds and writes exactly `N` (byte padded) and the witness values in index order
  (byte padded), and
* the decoder accepts these two bit strings and returns the same plan, the same arrows, the same
  annotations (so the same CMR/IHR/AMR/cost at every node) and the same witness values.

Hypothesis on the tables: the jet table reads back the names it prints (`elements_ofName_nameOf` for
the driver's table).  What is *not* covered (and is checked at run time by the driver on every
generated program, `roundtrip_partial` being the proved first stage): plans that are not already in
canonical form — nodes out of post-order, unused nodes, or distinct nodes with equal identity roots,
which the encoder renumbers/merges, so that the decoded plan is a quotient of the original and the
equality of arrows needs `reinference_returns_original_types` along that quotient. -/
theorem roundtrip_canonical (tb : Tables) (hof : ∀ j, tb.ofName (tb.nameOf j) = some j)
    (N : List (WNode tb.J)) (p : Plan) (arrows : Array (BM4.Ty × BM4.Ty)) (an : Array Annot)
    (wit : Nat → Option (List Bool)) (H : CanonicalPlan tb N p arrows an wit) :
    encode tb.jc tb.ofName p an true wit =
      some (padToByte (encProgram tb.jc N), padToByte ((wIdx p.toList 0).filterMap wit).flatten) ∧
    decodeRedeem tb (padToByte (encProgram tb.jc N))
        (padToByte ((wIdx p.toList 0).filterMap wit).flatten) =
      .ok ⟨p, arrows, (wIdx p.toList 0).filterMap (fun j => (wit j).map (fun b => (j, b))), an⟩ :=
  Prog.roundtrip_canonical tb hof N p arrows an wit H

/-- the driver's tables -/
def elementsTables : Tables :=
  ⟨JetsE.J, JetsE.jc, JetsE.nameOf, JetsE.ofName, JetsE.jetTy, JetsE.jetCmr, JetsE.jetCost⟩

/-- **Every decoded program round-trips**: whatever `decodeRedeem` returns is in canonical form, so
encoding it and decoding again returns the same plan, arrows, annotations and witness values
(`decode ∘ encode ∘ decode = decode`, with C02's `decodeRedeem_canonical` saying that the middle
encoding is the original input). -/
theorem decoded_is_canonical (tb : Tables) (prog wit : List Bool) (d : Decoded)
    (h : decodeRedeem tb prog wit = .ok d) :
    ∃ N, CanonicalPlan tb N d.plan d.arrows d.annots (fun i => (d.wits.find? (·.1 = i)).map (·.2)) := by
  obtain ⟨ns, rest, wrest, hp, hcl, hcan, hcv, hdisc, hinf, hrw, hcl2, han, hihr⟩ :=
    decodeRedeem_inv tb prog wit d h
  obtain ⟨hprog, hne, hlt, hok⟩ := decProgram_canonical tb.jc prog ns rest hp
  exact ⟨ns, hne, hlt, hok, hcan, hcv, hdisc, hinf,
    readGo_wit_typed d.arrows d.plan.toList 0 wit d.wits wrest hrw, han, hihr⟩

/-- non-vacuity of `roundtrip_canonical` (and of C02's `decodeRedeem_canonical`): the one-node
program `unit` with the Elements tables is in canonical form — its identity root is some SHA-256
value that is not evaluated here, and a single node has nothing to collide with — so its encoding
is accepted by the whole of `decodeRedeem`. -/
theorem unit_canonical :
    ∃ an, CanonicalPlan elementsTables [.unit] #[Node.unit] #[(.one, .one)] an (fun _ => none) := by
  obtain ⟨a, ha⟩ : ∃ a, annots JetsE.jetCmr JetsE.jetCost #[Node.unit] #[(.one, .one)] (fun _ => none) = some #[a] := by
    simp [annots, annots.go, annotNode]
  refine ⟨#[a], by simp, by decide, ⟨trivial, trivial⟩, by decide, by rfl, ?_, ?_, ?_, ha, ?_⟩
  · intro nd hnd a' e
    simp at hnd
    subst hnd
    cases e
  · -- type inference on the three equations of `unit : 1 → 1`
    have hc : constraints JetsE.jetTy #[Node.unit] true =
        some [(tgt 0, .one), (src 0, .one), (tgt 0, .one)] := by rfl
    have hu : ∀ n, Inf.unify (n + 4) [(tgt 0, .one), (src 0, .one), (tgt 0, .one)] [] =
        .ok [(0, .one), (1, .one)] := fun _ => rfl
    show infer JetsE.jetTy #[Node.unit] true = .ok #[(.one, .one)]
    unfold infer
    rw [hc]
    have : unifyFuel = (unifyFuel - 4) + 4 := by decide
    rw [this]
    simp only [hu]
    congr 1
    have : Array.range #[Node.unit].size = #[0] := by decide
    rw [this]
    simp [Inf.closeUnit, Inf.lookup, Inf.Tm.eval, tyOfInf]
  · intro j hj
    simp [wIdx] at hj
  · simp [ihrList, List.range, List.range.loop, List.eraseDups_cons]

example : ∃ pb wb d, encode JetsE.jc JetsE.ofName #[Node.unit] d.annots true (fun _ => none) = some (pb, wb) ∧
    decodeRedeem elementsTables pb wb = .ok d ∧ d.plan = #[Node.unit] ∧ d.arrows = #[(.one, .one)] := by
  obtain ⟨an, H⟩ := unit_canonical
  obtain ⟨h1, h2⟩ := roundtrip_canonical elementsTables elements_ofName_nameOf _ _ _ _ _ H
  exact ⟨_, _, ⟨#[Node.unit], #[(.one, .one)], _, an⟩, h1, h2, rfl, rfl⟩

/-- a three-node program with a witness: `comp witness unit : 1 → 1` (the witness has type `1 → 1`,
its value is the unit value, compact bits `[]`) -/
def compWitnessUnit : Plan := #[Node.witness, Node.unit, Node.comp 0 1]

/-- non-vacuity of `roundtrip_canonical` on a program with several nodes and a witness: every
hypothesis of `CanonicalPlan` holds for `comp witness unit` — canonical order, conversion, type
inference (evaluated), witness typing, existence of the annotations — *except* that the pairwise
difference of its three identity roots, which are SHA-256 values, is not evaluated in the kernel and
stays a hypothesis here (the driver evaluates it on every generated program). -/
theorem compWitnessUnit_canonical :
    ∃ an, annots JetsE.jetCmr JetsE.jetCost compWitnessUnit #[(.one, .one), (.one, .one), (.one, .one)]
        (fun i => if i = 0 then some [] else none) = some an ∧
      ((ihrList compWitnessUnit an).eraseDups.length = (ihrList compWitnessUnit an).length →
        CanonicalPlan elementsTables [.witness, .unit, .comp 0 1] compWitnessUnit
          #[(.one, .one), (.one, .one), (.one, .one)] an (fun i => if i = 0 then some [] else none)) := by
  obtain ⟨an, ha⟩ : ∃ an, annots JetsE.jetCmr JetsE.jetCost compWitnessUnit
      #[(.one, .one), (.one, .one), (.one, .one)] (fun i => if i = 0 then some [] else none) = some an := by
    simp [annots, annots.go, annotNode, compWitnessUnit]
  refine ⟨an, ha, fun hihr => ⟨by simp, by decide, ⟨trivial, trivial, ⟨by decide, by decide⟩, trivial⟩,
    by decide, by rfl, ?_, ?_, ?_, ha, hihr⟩⟩
  · intro nd hnd a' e
    subst e
    simp [compWitnessUnit] at hnd
  · have hc : constraints JetsE.jetTy compWitnessUnit true =
        some [(.var 3, .one), (.var 1, .var 2), (.var 4, .var 0), (.var 5, .var 3), (.var 4, .one), (.var 5, .one)] := by rfl
    have hu : ∀ n, Inf.unify (n + 7)
        [(.var 3, .one), (.var 1, .var 2), (.var 4, .var 0), (.var 5, .var 3), (.var 4, .one), (.var 5, .one)] [] =
        .ok [(0, .one), (5, .one), (4, .one), (1, .var 2), (3, .one)] := fun _ => rfl
    show infer JetsE.jetTy compWitnessUnit true = .ok #[(.one, .one), (.one, .one), (.one, .one)]
    unfold infer
    rw [hc]
    have : unifyFuel = (unifyFuel - 7) + 7 := by decide
    rw [this]
    simp only [hu]
    congr 1
    have : Array.range compWitnessUnit.size = #[0, 1, 2] := by decide
    rw [this]
    simp [Inf.closeUnit, Inf.lookup, Inf.Tm.eval, tyOfInf]
  · intro j hj
    simp [wIdx, compWitnessUnit] at hj
    subst hj
    exact ⟨[], .unit, by simp, by rfl⟩

/-- **Round trip of an arbitrary program, assembled** (about the functions the driver runs:
`Prog.encode`, redeem mode, and `Prog.decodeRedeem`).  Let `p` be *any* plan all of whose nodes are
reachable from the root (`PlanReach`) — nodes in any topological order, several nodes with one
identity root: the encoder renumbers and merges — such that

* children are earlier nodes (`PlanBackward`), there are fewer than 2^31 nodes, fail entropy is 64
  bytes, words have wire sizes, assertion hashes are 256-bit numbers, no disconnect node is open;
* `p` is well typed as a 1 → 1 program with arrows `arrows` (`infer … p true = ok arrows`), `an` are
  its annotations (`annots … = some an`: CMR-independent roots IMR/IHR/AMR and cost of every node),
  and every witness node carries the compact bits of a value of its target type;
* **identity roots separate the nodes of `p`** (`Prog.IhrFaithful`, the hypothesis that stands for
  collision-freedom of the hash): two nodes with one identity root have the same kind and payload,
  the same arrow, the same witness bits, and children with pairwise equal identity roots.  The first
  three are what an injective hash gives (the identity root commits to the identity Merkle root —
  kind, payload, witness value, the children's identity Merkle roots — and to the type Merkle roots
  of source and target); it is stated on the nodes of `p` rather than as injectivity of SHA-256,
  which is false of any function into 256 bits.  The last part — the children agree in their
  *identity roots*, i.e. also in their arrows — is in addition the condition that nodes merged by
  the encoder have their children merged as well (it can fail without any collision when two
  `comp` nodes differ only in the type between their halves: then the annotated roots differ and
  no decoder could return both);
* the unifier's fuel suffices on the plan the decoder rebuilds (`Prog.reencodedPlan`; `fuel` is
  never a verdict of the model, the driver prints `model-fuel`);
* the jet table reads back the names it prints and prints the names it reads
  (`elements_ofName_nameOf`, `elements_nameOf_ofName` for the driver's table).

If the encoder returns `(pb, wb)`, then `decodeRedeem` accepts `(pb, wb)` and returns a program `d`
for which there is a map `f` from the nodes of `p` to the nodes of `d.plan` with

* `f root = root`; node `f i` of `d.plan` is node `i` of `p` with its child references mapped by `f`
  (same kind, jet, word, fail entropy, assertion hash);
* `d.arrows[f i] = arrows[i]`, `d.annots[f i] = an[i]` (identity Merkle root, identity root,
  annotated root, cost);
* the commitment roots `Prog.cmrs` of `d.plan` are, at `f i`, those of `p` at `i` (in particular the
  commitment root of the program);
* the witness bits returned for node `f i` are those of witness node `i`;
* every node of `d.plan` is `f i` for some `i`, or the hidden placeholder of an assertion;
* re-encoding `d` gives `(pb, wb)` again.

Not covered: plans with unused nodes (see `roundtrip_nodemap_partial`: the statement is false for
them), and commitment-time encodings of non-canonical plans (`roundtrip_commit_canonical`). -/
theorem roundtrip_general (tb : Tables) (hof : ∀ j, tb.ofName (tb.nameOf j) = some j)
    (hnm : ∀ name j, tb.ofName name = some j → tb.nameOf j = name)
    (p : Plan) (arrows : Array (BM4.Ty × BM4.Ty)) (an : Array Annot) (wit : Nat → Option (List Bool))
    (hpos : 0 < p.size) (hlt : p.size < 2 ^ 31) (hb : PlanBackward p) (hpl : PayloadOk p)
    (hh : HashOk p) (hfb : ∀ (i : Nat) (e : List Nat), p[i]? = some (.fail e) → ∀ b ∈ e, b < 256)
    (hopen : ∀ (i a : Nat), p[i]? ≠ some (Node.disconnect a none))
    (hall : ∀ i, i < p.size → PlanReach p i)
    (hinf : infer tb.jetTy p true = .ok arrows)
    (han : annots tb.jetCmr tb.jetCost p arrows wit = some an)
    (hwt : ∀ i, p[i]? = some .witness → ∃ bits v, wit i = some bits ∧
      decCompact (arrows.getD i (.one, .one)).2 bits = some (v, []))
    (hf : IhrFaithful p arrows an wit)
    (hfuel : ∀ q, reencodedPlan tb p an = some q → infer tb.jetTy q true ≠ .fuel)
    (pb wb : List Bool) (he : encode tb.jc tb.ofName p an true wit = some (pb, wb)) :
    ∃ (d : Decoded) (f : Nat → Nat),
      decodeRedeem tb pb wb = .ok d ∧
      f (p.size - 1) = d.plan.size - 1 ∧
      (∀ i nd, p[i]? = some nd →
        d.plan[f i]? = some (nd.mapCh f) ∧
        d.arrows.getD (f i) (.one, .one) = arrows.getD i (.one, .one) ∧
        d.annots.getD (f i) default = an.getD i default ∧
        (nd = .witness → (d.wits.find? (·.1 = f i)).map (·.2) = wit i)) ∧
      (∀ j nd', d.plan[j]? = some nd' → (∃ h, nd' = .hidden h) ∨ ∃ i, i < p.size ∧ f i = j) ∧
      (∀ cp, cmrs tb.jetCmr p = some cp → ∃ cq, cmrs tb.jetCmr d.plan = some cq ∧
        ∀ i, i < p.size → cq.getD (f i) 0 = cp.getD i 0) ∧
      encode tb.jc tb.ofName d.plan d.annots true (fun i => (d.wits.find? (·.1 = i)).map (·.2)) =
        some (pb, wb) :=
  Prog.roundtrip_general tb hof hnm p arrows an wit hpos hlt hb hpl hh hfb hopen hall hinf han hwt hf
    hfuel pb wb he

/-- **The hypothesis `IhrFaithful` of `roundtrip_general`, layer by layer**: for an annotated plan
(backward references, no hidden node, no open disconnect, every witness node with bits) identity
roots separate the nodes as soon as (1) the last hashing step of the identity root — two SHA-256
compressions over the identity Merkle root and the type Merkle roots of source and target, `ihrOf` —
has no collision among the nodes of the plan (equal outputs: equal identity Merkle roots and equal
arrows), (2) the identity Merkle root has no collision among the nodes of the plan (equal roots: same
kind and payload, children with pairwise equal identity Merkle roots, equal witness bits), and
(3) nodes with one identity root have children with pairwise equal arrows — implied by (1) and the
typing rules for every combinator except for the type between the halves of `comp` and the source of
the right child of `disconnect`, to which the identity root does not commit.  (1) and (2) are
injectivity of the hash on the finitely many inputs that occur; no statement about SHA-256 outside
the plan is assumed. -/
theorem identity_roots_separate_of_layers {jc jk : String → Option Nat} {p : Plan}
    {arrows : Array (BM4.Ty × BM4.Ty)} {wit : Nat → Option (List Bool)} {an : Array Annot}
    (hb : PlanBackward p) (han : annots jc jk p arrows wit = some an)
    (hnh : ∀ (i x : Nat), p[i]? ≠ some (Node.hidden x))
    (hopen : ∀ (i a : Nat), p[i]? ≠ some (Node.disconnect a none))
    (hwit : ∀ i, p[i]? = some .witness → (wit i).isSome)
    (h1 : ∀ i i', i < p.size → i' < p.size →
      ihrOf tmr (an.getD i default).imr (arrows.getD i (.one, .one)) =
        ihrOf tmr (an.getD i' default).imr (arrows.getD i' (.one, .one)) →
      (an.getD i default).imr = (an.getD i' default).imr ∧
        arrows.getD i (.one, .one) = arrows.getD i' (.one, .one))
    (h2 : ∀ (i i' : Nat) (nd nd' : Node), p[i]? = some nd → p[i']? = some nd' →
      (an.getD i default).imr = (an.getD i' default).imr →
      nd.shape = nd'.shape ∧
      (∀ (k c c' : Nat), nd.children[k]? = some c → nd'.children[k]? = some c' →
        (an.getD c default).imr = (an.getD c' default).imr) ∧
      (nd = .witness → wit i = wit i'))
    (h3 : ∀ (i i' : Nat) (nd nd' : Node), p[i]? = some nd → p[i']? = some nd' →
      (an.getD i default).ihr = (an.getD i' default).ihr →
      ∀ (k c c' : Nat), nd.children[k]? = some c → nd'.children[k]? = some c' →
        arrows.getD c (.one, .one) = arrows.getD c' (.one, .one)) :
    IhrFaithful p arrows an wit :=
  Prog.ihrFaithful_of_layers hb (annots_spec jc jk p hb arrows wit an han) hnh hopen hwit h1 h2 h3

/-- the Elements jet table the driver runs prints the name a jet was read from -/
theorem elements_nameOf_ofName (name : String) (j : JetsE.J) (h : JetsE.ofName name = some j) :
    JetsE.nameOf j = name :=
  JetsE.nameOf_ofName name j h

/-- the types of a program do not depend on the fuel-independent details of the encoding: the
ingredient of `roundtrip_general` for the types.  If `g` maps the nodes of `p` onto the non-hidden
nodes of `q`, preserving kinds and child references (`Prog.NodeMap`), nodes identified by `g` have
one kind and one arrow, and no disconnect node of `p` is open, then inference on `q` — unless its
fuel runs out — succeeds and returns at `g i` the arrow of node `i` of `p`. -/
theorem reinference_along_nodemap (jt : JetTypes) (p q : Plan) (g r : Nat → Nat)
    (arrows : Array (BM4.Ty × BM4.Ty)) (hpos : 0 < p.size) (hb : PlanBackward p) (M : NodeMap p q g r)
    (hopen : ∀ (i a : Nat), p[i]? ≠ some (Node.disconnect a none))
    (hinf : infer jt p true = .ok arrows)
    (hshape : ∀ i i' nd nd', p[i]? = some nd → p[i']? = some nd' → g i = g i' → nd.shape = nd'.shape)
    (harr : ∀ i i', i < p.size → i' < p.size → g i = g i' →
      arrows.getD i (.one, .one) = arrows.getD i' (.one, .one))
    (hfuel : ∀ E', constraints jt q true = some E' → Inf.unify unifyFuel E' [] ≠ .fuel) :
    ∃ arrows', infer jt q true = .ok arrows' ∧
      ∀ i, i < p.size → arrows'.getD (g i) (.one, .one) = arrows.getD i (.one, .one) :=
  Prog.reinfer_along jt p q g r arrows hpos hb M hopen hinf hshape harr hfuel

/-- non-vacuity of `roundtrip_general`: the plan `#[unit, unit, comp 1 0]` — the `unit` node twice
(one identity root at two nodes, merged by the encoder) and referenced out of post-order (renumbered)
— with the Elements tables satisfies every hypothesis: backward references, reachability, payloads,
evaluated type inference (arrows `1 → 1` everywhere), annotations `#[a, a, c]` (SHA-256 values, not
evaluated), `IhrFaithful`, the fuel condition on the rebuilt plan `#[unit, comp 0 0]` (evaluated),
a successful encoder run (evaluated with the abstract roots) — given only that the identity roots
`a.ihr` of `unit` and `c.ihr` of `comp` are different numbers.  The conclusion: the decoder accepts
the encoding, both `unit` nodes go to one node of the decoded program, annotated `a`, the root to
the root, annotated `c`, with children `f 1`, `f 0`, and re-encoding reproduces the bits. -/
example : ∃ a c,
    annots JetsE.jetCmr JetsE.jetCost #[Node.unit, Node.unit, Node.comp 1 0]
      #[(.one, .one), (.one, .one), (.one, .one)] (fun _ => none) = some #[a, a, c] ∧
    (a.ihr ≠ c.ihr → ∃ (pb wb : List Bool) (d : Decoded) (f : Nat → Nat),
      encode JetsE.jc JetsE.ofName #[Node.unit, Node.unit, Node.comp 1 0] #[a, a, c] true (fun _ => none) =
        some (pb, wb) ∧
      decodeRedeem elementsTables pb wb = .ok d ∧ f 2 = d.plan.size - 1 ∧
      d.plan[f 0]? = some .unit ∧ d.plan[f 1]? = some .unit ∧ d.plan[f 2]? = some (.comp (f 1) (f 0)) ∧
      d.annots.getD (f 0) default = a ∧ d.annots.getD (f 1) default = a ∧ d.annots.getD (f 2) default = c ∧
      encode JetsE.jc JetsE.ofName d.plan d.annots true (fun i => (d.wits.find? (·.1 = i)).map (·.2)) =
        some (pb, wb)) :=
  Prog.RtExample.dupUnit_roundtrip

/-- **Commitment-time round trip, assembled** (about the functions the driver runs: `Prog.encode` in
commit mode — what `enc C` runs, the model of `CommitNode::to_vec_without_witness` — and
`Prog.decodeCommit`, the model of `CommitNode::decode`).  Let `p` be a plan with arrows,
commitment-time annotations `an` (identity roots computed without witness data) and commitment
roots `cm` that is in the commitment-time decoder's canonical form (`Prog.CanonicalCommitPlan`,
witnessed by a wire node list `N`): `N` is a non-empty list of fewer than 2^32 well-formed nodes that
passes the canonical-order check and converts to `p`; no disconnect node has both children; `p` is
well typed as a 1 → 1 program with exactly these arrows; `an` and `cm` are the annotations and
commitment roots of `p`; the sharing check `is_shared_as::<MaxSharing>` passes; the root's identity
root is not that of one of its sub-expressions.  Then

* the encoder (commit mode, any witness assignment) writes exactly `N` (byte padded), and
* `decodeCommit` accepts these bytes and returns the same plan and the same commitment roots at
  every node (its annotations — identity roots — are recomputed from the same plan and the same
  inferred arrows, so they are `an` again).

Not covered: a disconnect node with both children (the commit-mode encoder writes `disc1 a` and the
decoder returns a one-child disconnect: a different plan, see C02
`commit_binary_disconnect_not_canonical`), and plans not in canonical form (`enc C` on generated
plans out of post-order or with unshared duplicates: checked at run time against the implementation). -/
theorem roundtrip_commit_canonical (tb : Tables) (hof : ∀ j, tb.ofName (tb.nameOf j) = some j)
    (N : List (WNode tb.J)) (p : Plan) (arrows : Array (BM4.Ty × BM4.Ty)) (an : Array Annot)
    (cm : Array Nat) (H : CanonicalCommitPlan tb N p arrows an cm) (wit : Nat → Option (List Bool)) :
    encode tb.jc tb.ofName p an false wit =
      some (padToByte (encProgram tb.jc N), padToByte ((wIdx p.toList 0).filterMap wit).flatten) ∧
    decodeCommit tb (padToByte (encProgram tb.jc N)) = .ok (p, cm) :=
  Prog.roundtrip_commit_canonical tb hof N p arrows an cm H wit

/-- **Every program decoded at commitment time round-trips**: whatever `decodeCommit` returns is
well typed and annotated, and — when no disconnect node has both children and the root's identity
root is fresh, the two things `CommitNode::decode` does not check — it is in canonical form, so
encoding it in commit mode and decoding again returns the same plan and commitment roots. -/
theorem decodedCommit_is_canonical (tb : Tables) (prog : List Bool) (p : Plan) (cm : Array Nat)
    (h : decodeCommit tb prog = .ok (p, cm)) :
    ∃ N arrows an, infer tb.jetTy p true = .ok arrows ∧
      annots tb.jetCmr tb.jetCost p arrows (fun _ => none) = some an ∧
      (noBinDisc p = true → rootFresh p an = true → CanonicalCommitPlan tb N p arrows an cm) :=
  Prog.decodedCommit_is_canonical tb prog p cm h

/-- non-vacuity of `roundtrip_commit_canonical` on a program with several nodes, one of which
(`witness`) is never shared at commitment time: every hypothesis of `CanonicalCommitPlan` holds for
`comp witness unit` — here nothing about SHA-256 values is needed: only `unit` has an identity root
at commitment time, so there is nothing it could collide with. -/
theorem compWitnessUnit_commit_canonical :
    ∃ an cm, CanonicalCommitPlan elementsTables [.witness, .unit, .comp 0 1] compWitnessUnit
      #[(.one, .one), (.one, .one), (.one, .one)] an cm := by
  obtain ⟨a0, a1, a2, ha, h0, h1, h2⟩ : ∃ a0 a1 a2, annots JetsE.jetCmr JetsE.jetCost compWitnessUnit
      #[(.one, .one), (.one, .one), (.one, .one)] (fun _ => none) = some #[a0, a1, a2] ∧
      a0.unique = true ∧ a1.unique = false ∧ a2.unique = true := by
    simp [annots, annots.go, annotNode, compWitnessUnit]
    exact ⟨_, _, _, ⟨rfl, rfl, rfl⟩, rfl, rfl, rfl⟩
  obtain ⟨cm, hcm⟩ : ∃ cm, cmrs JetsE.jetCmr compWitnessUnit = some cm := by
    simp [cmrs, cmrsGo, cmrsGoG, cmrNode, cmrNodeG, compWitnessUnit]
  refine ⟨#[a0, a1, a2], cm, by simp, by decide, ⟨trivial, trivial, ⟨by decide, by decide⟩, trivial⟩,
    by decide, by rfl, by simp [noBinDisc, compWitnessUnit], ?_, ha, ?_, ?_, hcm⟩
  · have hc : constraints JetsE.jetTy compWitnessUnit true =
        some [(.var 3, .one), (.var 1, .var 2), (.var 4, .var 0), (.var 5, .var 3), (.var 4, .one), (.var 5, .one)] := by rfl
    have hu : ∀ n, Inf.unify (n + 7)
        [(.var 3, .one), (.var 1, .var 2), (.var 4, .var 0), (.var 5, .var 3), (.var 4, .one), (.var 5, .one)] [] =
        .ok [(0, .one), (5, .one), (4, .one), (1, .var 2), (3, .one)] := fun _ => rfl
    show infer JetsE.jetTy compWitnessUnit true = .ok #[(.one, .one), (.one, .one), (.one, .one)]
    unfold infer
    rw [hc]
    have : unifyFuel = (unifyFuel - 7) + 7 := by decide
    rw [this]
    simp only [hu]
    congr 1
    have : Array.range compWitnessUnit.size = #[0, 1, 2] := by decide
    rw [this]
    simp [Inf.closeUnit, Inf.lookup, Inf.Tm.eval, tyOfInf]
  · simp [sharedOk, walk, compWitnessUnit, commitChildren, commitKey, h0, h1, h2, Node.children, seenLook]
  · simp [rootFresh, compWitnessUnit, commitKey, h2]
    intro x _
    split <;> rfl

example : ∃ an cm pb wb, encode JetsE.jc JetsE.ofName compWitnessUnit an false (fun _ => none) = some (pb, wb) ∧
    decodeCommit elementsTables pb = .ok (compWitnessUnit, cm) := by
  obtain ⟨an, cm, H⟩ := compWitnessUnit_commit_canonical
  obtain ⟨h1, h2⟩ := roundtrip_commit_canonical elementsTables elements_ofName_nameOf _ _ _ _ _ H (fun _ => none)
  exact ⟨an, cm, _, _, h1, h2⟩

#print axioms roundtrip_canonical
#print axioms roundtrip_general
#print axioms identity_roots_separate_of_layers
#print axioms reinference_along_nodemap
#print axioms elements_nameOf_ofName
#print axioms roundtrip_nodemap_partial
#print axioms roundtrip_nodemap_convert
#print axioms reinference_along_renaming
#print axioms roundtrip_commit_canonical
#print axioms decodedCommit_is_canonical
#print axioms compWitnessUnit_commit_canonical
#print axioms compWitnessUnit_canonical
#print axioms decoded_is_canonical
#print axioms unit_canonical

end Props.C01
