/-
C13 — Bit streams and natural numbers code exactly.

Property theorems only.  The models are
  `NatCodec.lean`   `encodeNat` / `decodeNat` (the code and `read_natural::<u32>(None)` on bit lists),
  `NatCodecW.lean`  `decodeNatAs maxVal bound` (`read_natural::<N>(bound)`; `maxVal` = the largest
                    value `N::try_from(u32)` accepts),
  `BitStream.lean`, `BitReader.lean`, `BitOps.lean`
                    the byte-cached reader `LReader` (five fields of `BitIter`, including the bit
                    budget `remaining` of the repaired `byte_slice_window`) and writer `Writer`
                    (four fields of `BitWriter`), operation by operation.
`Drv.C13.handle` runs exactly these definitions (`LReader.step`, `LReader.closeE`, `LReader.len`,
`Writer.step`, `window`, `LReader.toList`, `collectBits`, `LReader.readNatural`,
`Writer.encodeNatural`) and is compared with the Rust functions on every generated operation.

`LReader.remaining` / `Writer.written` are the bit-list abstractions the statements are made in:
the bits the reader will still deliver / the bits the writer has taken.
-/
import SimplicityModel.BitOps
import SimplicityModel.Gen.BitConsts

namespace Props.C13
open Spk BitStream

/-! ## 0. tie to the source -/

/-- **Tie to the source**: the constants, comparison operators and loop shapes that
`tools/translate_bitconsts.py` reads from `bititer.rs`, `bitwriter.rs` and `encode.rs` on every run
are the ones the hand model is written with: a fresh reader (`cached_byte`, `read_bits = 8`,
counter), the 8-bit cache and the bit mask of `next`, `size_hint`, the pair order of `read_u2`,
the budget test / counter / shifts of `read_u8`, the `len > 31` and `ret > bound` checks and the
`1`, `2 * n + bit` accumulator of `read_natural` (conversion before bound), the padding test of
`close`, the zero padding of `collect_bits`, the cache and mask of `write_bit`, the test and resets
of `flush_all`, most-significant-first order of `write_bits_be` and of byte writes, and the two
loops / `⌊log2⌋` length of `encode_natural`; windows start at counter 0 with budget `end - start`. -/
theorem gen_matches_model :
    (Gen.BitConsts.NEW_CACHED = (Reader.new []).cached ∧
     Gen.BitConsts.NEW_READ_BITS = (Reader.new []).readBits ∧
     Gen.BitConsts.NEW_TOTAL = (Reader.new []).total ∧
     Gen.BitConsts.WINDOW_TOTAL = (window [0, 0] 3 9).r.total ∧
     Gen.BitConsts.WINDOW_BUDGET_IS_END_MINUS_START = true ∧
     (window [0, 0] 3 9).limit = some (9 - 3)) ∧
    (Gen.BitConsts.NEXT_STOPS_AT_BUDGET = 0 ∧ Gen.BitConsts.NEXT_CACHE_BITS = 8 ∧
     Gen.BitConsts.NEXT_MASK_BASE = 8 ∧ Gen.BitConsts.NEXT_REFILL_READ_BITS = 0 ∧
     Gen.BitConsts.HINT_CACHE_BITS = 8 ∧ Gen.BitConsts.HINT_BYTE_BITS = 8 ∧
     Gen.BitConsts.U2_IS_BIG_ENDIAN_PAIR = true) ∧
    (Gen.BitConsts.U8_BUDGET_OP = "lt" ∧ Gen.BitConsts.U8_BUDGET = 8 ∧
     Gen.BitConsts.U8_TOTAL_INC = 8 ∧ Gen.BitConsts.U8_BUDGET_DEC = 8 ∧
     Gen.BitConsts.U8_SHL_OVERFLOW_VALUE = 0 ∧ Gen.BitConsts.U8_SHR_BASE = 8) ∧
    (Gen.BitConsts.NAT_LEN_OP = "gt" ∧ Gen.BitConsts.NAT_LEN_MAX = 31 ∧
     Gen.BitConsts.NAT_BOUND_OP = "gt" ∧ Gen.BitConsts.NAT_ACC_INIT = 1 ∧
     Gen.BitConsts.NAT_ACC_MUL = 2 ∧ Gen.BitConsts.NAT_LEN_INIT = 0 ∧
     Gen.BitConsts.NAT_TRY_FROM_THEN_BOUND = true) ∧
    (Gen.BitConsts.CLOSE_BITS_BASE = 8 ∧ Gen.BitConsts.CLOSE_PAD_OP = "ne" ∧
     Gen.BitConsts.CLOSE_PAD_CMP = 0 ∧ Gen.BitConsts.COLLECT_BYTE_BITS = 8 ∧
     Gen.BitConsts.COLLECT_PAD_BIT = false) ∧
    (Gen.BitConsts.WRITER_CACHE_BITS = 8 ∧ Gen.BitConsts.WRITER_MASK_BASE = 8 ∧
     Gen.BitConsts.FLUSH_OP = "gt" ∧ Gen.BitConsts.FLUSH_CMP = 0 ∧
     Gen.BitConsts.FLUSH_CACHE_LEN = Writer.new.cacheLen ∧ Gen.BitConsts.FLUSH_CACHE = Writer.new.cache ∧
     Gen.BitConsts.BE_MSB_FIRST = true ∧ Gen.BitConsts.WRITE_BYTE_BITS = 8 ∧
     Gen.BitConsts.WRITE_BYTE_MASK_BASE = 7 ∧ Gen.BitConsts.ENC_LEN_IS_FLOOR_LOG2 = true ∧
     Gen.BitConsts.ENC_TWO_LOOPS = true) := by
  refine ⟨⟨rfl, rfl, rfl, rfl, rfl, rfl⟩, ⟨rfl, rfl, rfl, rfl, rfl, rfl, rfl⟩, ⟨by decide, rfl, rfl, rfl, rfl, rfl⟩,
    ⟨by decide, rfl, by decide, rfl, rfl, rfl, rfl⟩, ⟨rfl, by decide, rfl, rfl, rfl⟩,
    ⟨rfl, rfl, by decide, rfl, rfl, rfl, rfl, rfl, rfl, rfl, rfl⟩⟩

/-! ## 1. naturals -/

/-- **Round trip, on the reader and the writer themselves.**  `encode_natural(n)` appends exactly
the code `encodeNat n` to whatever the writer holds and advances `n_total_written` by its length
(any `n`); and a reader whose stream starts with that code — at any alignment, whatever follows —
`read_natural::<N>(bound)` returns `n`, leaves the reader exactly behind the code and advances
`n_total_read` by the code's length, for every `1 ≤ n < 2^32` (in particular `1 … 2^31 - 1`)
that fits the result type and the bound. -/
theorem nat_roundtrip (n mv : Nat) (bound : Option Nat) (hn : 1 ≤ n) (hlt : n < 2^32) (hmv : n ≤ mv)
    (hb : ∀ b, bound = some b → n ≤ b) :
    (∀ w : Writer, w.Inv → (w.encodeNatural n).written = w.written ++ encodeNat n ∧
        (w.encodeNatural n).total = w.total + (encodeNat n).length) ∧
    (∀ (l : LReader) (rest : List Bool), l.WF → l.remaining = encodeNat n ++ rest →
        ∃ l', l.readNatural mv bound = .ok (n, l') ∧ l'.remaining = rest ∧
          l'.r.total = l.r.total + (encodeNat n).length ∧ l'.WF) := by
  refine ⟨fun w hw => ⟨(w.encodeNatural_spec n hw).1, (w.encodeNatural_spec n hw).2.1⟩, ?_⟩
  intro l rest hw hrem
  have hs := l.readNatural_sim mv bound hw
  have hd : decodeNatAs mv bound l.remaining = .ok (n, rest) := by
    rw [decodeNatAs_eq, hrem, decode_encode n hn hlt rest]
    have : finish mv bound n = .ok n := by
      unfold finish
      rw [if_neg (by omega)]
      cases bound with
      | none => rfl
      | some b => simp only []; rw [if_neg (by have := hb b rfl; omega)]
    simp [viaPlain, this]
  cases hr : l.readNatural mv bound with
  | error e => rw [hr] at hs; simp only [Sim] at hs; rw [hd] at hs; cases hs
  | ok p =>
    obtain ⟨v, l'⟩ := p
    rw [hr] at hs
    simp only [Sim] at hs
    obtain ⟨h1, h2, h3⟩ := hs
    rw [hd] at h1
    simp only [Except.ok.injEq, Prod.mk.injEq] at h1
    obtain ⟨rfl, rfl⟩ := h1
    refine ⟨l', rfl, rfl, ?_, h3⟩
    rw [hrem, List.length_append] at h2
    omega

/-- **The reader's `read_natural` is the list decoder** on the bits the reader still holds: same
value and the reader is left at the list decoder's rest with `n_total_read` advanced by the bits
consumed, or the same error.  (All statements below about `decodeNatAs` therefore hold for
`BitIter::read_natural` at every alignment and inside windows.) -/
theorem read_natural_is_decode (mv : Nat) (bound : Option Nat) (l : LReader) (h : l.WF) :
    match l.readNatural mv bound with
    | .ok (v, l') => decodeNatAs mv bound l.remaining = .ok (v, l'.remaining) ∧
        l'.r.total + l'.remaining.length = l.r.total + l.remaining.length ∧ l'.WF
    | .error e => decodeNatAs mv bound l.remaining = .error e :=
  l.readNatural_sim mv bound h

/-- **Canonicity: at most one number per string, and its code is that string.**  Whatever
`read_natural::<N>(bound)` accepts is the code of the number it returns followed by the untouched
rest; the number is in `1 … 2^32 - 1`, fits the result type and respects the bound. -/
theorem nat_canonical (mv : Nat) (bound : Option Nat) (bs : List Bool) (n : Nat) (rest : List Bool)
    (h : decodeNatAs mv bound bs = .ok (n, rest)) :
    bs = encodeNat n ++ rest ∧ 1 ≤ n ∧ n < 2^32 ∧ n ≤ mv ∧ ∀ b, bound = some b → n ≤ b := by
  rw [decodeNatAs_eq] at h
  unfold viaPlain at h
  cases hp : decodeNat bs with
  | error e => rw [hp] at h; simp at h
  | ok q =>
    obtain ⟨v, r⟩ := q
    rw [hp] at h
    simp only [] at h
    obtain ⟨hc, h1, h2⟩ := decode_canonical bs v r hp
    unfold finish at h
    by_cases hv : v > mv
    · simp [hv] at h
    · rw [if_neg hv] at h
      cases bound with
      | none =>
        simp only [Except.ok.injEq, Prod.mk.injEq] at h
        obtain ⟨rfl, rfl⟩ := h
        exact ⟨hc, h1, h2, by omega, by intro b hb; cases hb⟩
      | some b =>
        simp only [] at h
        by_cases hvb : v > b
        · simp [hvb] at h
        · rw [if_neg hvb] at h
          simp only [Except.ok.injEq, Prod.mk.injEq] at h
          obtain ⟨rfl, rfl⟩ := h
          exact ⟨hc, h1, h2, by omega, by intro b' hb; cases hb; omega⟩

/-- two numbers of the accepted range never share a code, even as prefixes of longer strings -/
theorem nat_code_prefix_free (n m : Nat) (r r' : List Bool) (hn : 1 ≤ n) (hn' : n < 2^32)
    (hm : 1 ≤ m) (hm' : m < 2^32) (h : encodeNat n ++ r = encodeNat m ++ r') : n = m ∧ r = r' :=
  encodeNat_prefix_free n m r r' hn hn' hm hm' h

/-- **Numbers of 33 bits and more are rejected** (`Overflow`), whatever the result type, the
bound and the bits that follow — proved from the shape of the code, not from canonicity alone. -/
theorem decode_large (n mv : Nat) (bound : Option Nat) (rest : List Bool) (h : 2^32 ≤ n) :
    decodeNatAs mv bound (encodeNat n ++ rest) = .error .overflow := by
  rw [decodeNatAs_eq, decodeNat_large n h rest]; rfl

/-- **A number that does not fit the result type is `Overflow`, never a truncated value.** -/
theorem decode_width (n mv : Nat) (bound : Option Nat) (rest : List Bool) (hn : 1 ≤ n) (h : mv < n) :
    decodeNatAs mv bound (encodeNat n ++ rest) = .error .overflow := by
  by_cases hlt : n < 2^32
  · rw [decodeNatAs_eq, decode_encode n hn hlt rest]
    simp [viaPlain, finish, h]
  · exact decode_large n mv bound rest (by omega)

/-- **A number above the bound is `BadIndex { got: n, max: bound }`, never a smaller value.** -/
theorem decode_bound (n mv b : Nat) (rest : List Bool) (hn : 1 ≤ n) (hlt : n < 2^32) (hmv : n ≤ mv)
    (h : b < n) : decodeNatAs mv (some b) (encodeNat n ++ rest) = .error (.badIndex n b) := by
  rw [decodeNatAs_eq, decode_encode n hn hlt rest]
  have : ¬ n > mv := by omega
  simp [viaPlain, finish, this, h]

/-- **No truncation, in one statement**: on the code of any `n ≥ 1` followed by anything, the
decoder answers `n` itself (consuming exactly the code) or an error — never another number. -/
theorem never_truncated (n mv : Nat) (bound : Option Nat) (rest : List Bool) (hn : 1 ≤ n) :
    decodeNatAs mv bound (encodeNat n ++ rest) = .ok (n, rest) ∨
    ∃ e, decodeNatAs mv bound (encodeNat n ++ rest) = .error e := by
  cases h : decodeNatAs mv bound (encodeNat n ++ rest) with
  | error e => exact .inr ⟨e, rfl⟩
  | ok p =>
    obtain ⟨v, r⟩ := p
    left
    by_cases hlt : n < 2^32
    · obtain ⟨hc, h1, h2, _, _⟩ := nat_canonical mv bound _ v r h
      obtain ⟨rfl, rfl⟩ := encodeNat_prefix_free n v rest r hn hlt h1 h2 hc
      rfl
    · rw [decode_large n mv bound rest (by omega)] at h; cases h

/-- the 32-bit accumulator `n = 2 * n + bit` of `read_natural` cannot overflow: after the
`len > 31` check at most 31 bits are read onto the initial `1` -/
theorem accumulator_fits_u32 (len : Nat) (bs : List Bool) (v : Nat) (rest : List Bool) (hl : len ≤ 31)
    (h : readBits len 1 bs = .ok (v, rest)) : v < 2^32 :=
  readBits_one_lt len bs v rest hl h

/-! ## 2. the bit reader -/

/-- **`read_bit` / `next`**: the next bit of the stream; `n_total_read` + 1; fails exactly at the
end of the stream (or of the window's budget) and then changes nothing. -/
theorem read_bit_spec (l : LReader) (h : l.WF) :
    match l.next with
    | some (b, l') => l.remaining = b :: l'.remaining ∧ l'.r.total = l.r.total + 1 ∧ l'.WF
    | none => l.remaining = [] :=
  l.next_spec' h

/-- **`read_u2`**: the next two bits; fails exactly when fewer than two are left, and then has
consumed the one that was there (both `next` calls are made). -/
theorem read_u2_spec (l : LReader) (h : l.WF) :
    match l.readU2 with
    | (some (b0, b1), l') => l.remaining = b0 :: b1 :: l'.remaining ∧ l'.r.total = l.r.total + 2 ∧ l'.WF
    | (none, l') => l.remaining.length < 2 ∧ l'.remaining = [] ∧
        l'.r.total = l.r.total + l.remaining.length :=
  l.readU2_spec h

/-- **`read_u8`** at every alignment: the next eight bits, most significant first, as a byte below
256 (the `u8` shift-and-add does not overflow); `n_total_read` + 8; fails exactly when fewer than
eight bits are left (in the bytes or in the window's budget). -/
theorem read_u8_spec (l : LReader) (h : l.WF) :
    match l.readU8 with
    | some (v, l') => l.remaining = byteBits v ++ l'.remaining ∧ v < 256 ∧
        l'.r.total = l.r.total + 8 ∧ l'.WF
    | none => l.remaining.length < 8 :=
  l.readU8_spec h

/-- **`len` / `size_hint`** is the number of bits still to be delivered. -/
theorem len_spec (l : LReader) (h : l.WF) : l.len = l.remaining.length := l.len_spec h.2.1

/-- **Any interleaving of successful `read_bit`, `read_u2`, `read_u8`, `read_natural`**, starting
at any alignment: the results, laid out as bits (`[b]`, `[b0, b1]`, the eight bits of the byte, the
code of the natural), in order and followed by what the reader still holds, are the stream; and
`n_total_read` has advanced by exactly their number. -/
theorem reads_return_stream (ops : List ROp) (l : LReader) (h : l.WF) (outs : List ROut) (l' : LReader)
    (bs : List Bool) (hr : l.run ops = (outs, some l')) (hb : outBits outs = some bs) :
    l.remaining = bs ++ l'.remaining ∧ l'.r.total = l.r.total + bs.length ∧ l'.WF :=
  LReader.run_spec ops l h outs l' bs hr hb

/-- **`close` succeeds exactly when only zero padding remains**: fewer than eight bits are left in
the underlying bytes and all of them are zero (a whole unread byte = `TrailingBytes`, a set bit =
`IllegalPadding`).  `close` looks at the bytes, not at a window's budget. -/
theorem close_ok_iff (l : LReader) (h : l.WF) :
    l.closeE = .ok ↔ l.r.remaining.length < 8 ∧ ∀ b ∈ l.r.remaining, b = false :=
  l.close_spec h

/-- for a reader over a whole byte string (no budget) these are the reader's own remaining bits -/
theorem close_ok_iff_plain (l : LReader) (h : l.WF) (hl : l.limit = none) :
    l.closeE = .ok ↔ l.remaining.length < 8 ∧ ∀ b ∈ l.remaining, b = false := by
  have : l.remaining = l.r.remaining := by simp [LReader.remaining, hl]
  rw [this]; exact l.close_spec h

/-- a fresh reader over bytes holds exactly their bits, and is well-formed -/
theorem new_reader (bytes : List Nat) (h : ∀ b ∈ bytes, b < 256) :
    (LReader.new bytes).WF ∧ (LReader.new bytes).remaining = bitsOf bytes ∧ (LReader.new bytes).r.total = 0 :=
  ⟨LReader.new_wf bytes h, LReader.new_remaining bytes, rfl⟩

/-- **Windows**: `byte_slice_window(sl, start, end)` is a well-formed reader that holds — and,
drained with `next`, yields — exactly the bits `start .. end` of the slice; its `len` is
`end - start`; its counter starts at 0.  (So every reader statement above applies inside a window.) -/
theorem window_exact (bytes : List Nat) (s e : Nat) (hb : ∀ b ∈ bytes, b < 256) (hse : s ≤ e)
    (he : e ≤ 8 * bytes.length) :
    (window bytes s e).WF ∧
    (window bytes s e).remaining = ((bitsOf bytes).drop s).take (e - s) ∧
    (window bytes s e).toList = ((bitsOf bytes).drop s).take (e - s) ∧
    (window bytes s e).len = e - s ∧ (window bytes s e).r.total = 0 := by
  have hw := window_wf bytes s e hb
  have hx := BitStream.window_exact bytes s e hse he
  refine ⟨hw, hx, by rw [LReader.toList_spec _ hw, hx], ?_, ?_⟩
  · rw [LReader.len_spec _ hw.2.1, hx, List.length_take, List.length_drop, bitsOf_length]; omega
  · unfold window; simp only []; split
    · rfl
    · split <;> rfl

/-! ## 3. the bit writer -/

/-- **Any sequence of `write_bit`, `write_bits_be`, byte writes, `encode_natural` and `flush_all`**:
the writer holds exactly the bits of the operations in order (`flush_all` = zero padding to the
next byte boundary), `n_total_written` counts the bits of the operations (not the padding). -/
theorem writes_spec (ops : List WOp) :
    (Writer.new.run ops).written = stream [] ops ∧ (Writer.new.run ops).total = counted [] ops := by
  obtain ⟨h1, h2, _⟩ := Writer.run_spec ops Writer.new Writer.new_inv
  rw [Writer.new_written] at h1 h2
  exact ⟨h1, by simpa [Writer.new] using h2⟩

/-- single operations: `write_bit` appends the bit, `write_bits_be(n, len)` the `len` low bits of
`n` most significant first, a byte write the eight bits of each byte -/
theorem write_bit_spec (w : Writer) (b : Bool) (h : w.Inv) :
    (w.writeBit b).written = w.written ++ [b] ∧ (w.writeBit b).total = w.total + 1 :=
  ⟨(w.writeBit_spec b h).1, (w.writeBit_spec b h).2.1⟩

theorem write_bits_be_spec (w : Writer) (n len : Nat) (h : w.Inv) :
    (w.writeBitsBE n len).written = w.written ++ (List.range len).map (fun i => n.testBit (len - 1 - i)) ∧
    (w.writeBitsBE n len).total = w.total + len :=
  w.writeBitsBE_spec n len h

/-- **`flush_all`**: the sink's bytes are the written bits followed by fewer than eight zero bits
up to the byte boundary; the counter is unchanged. -/
theorem flush_all_spec (w : Writer) (h : w.Inv) :
    bitsOf w.flushAll.out = w.written ++ List.replicate ((8 - w.written.length % 8) % 8) false ∧
    w.flushAll.total = w.total := by
  obtain ⟨h1, h2, _, _, h5⟩ := w.flushAll_written h
  exact ⟨by rw [← h5, h1], h2⟩

/-- **Written, flushed, read back**: after any sequence of writes and a final `flush_all` the sink
is a byte string whose fresh reader is well-formed and holds — and yields bit by bit — exactly the
written stream (so by `reads_return_stream` every interleaving of reads returns those bits). -/
theorem write_then_read (ops : List WOp) :
    let bytes := (Writer.new.run (ops ++ [.flush])).out
    (LReader.new bytes).WF ∧
    (LReader.new bytes).remaining = stream [] (ops ++ [.flush]) ∧
    (LReader.new bytes).toList = stream [] (ops ++ [.flush]) := by
  intro bytes
  have hb : ∀ b ∈ bytes, b < 256 := (Writer.run_outOk (ops ++ [.flush]) Writer.new Writer.new_outOk).2
  have hw := LReader.new_wf bytes hb
  have hr : (LReader.new bytes).remaining = stream [] (ops ++ [.flush]) := by
    rw [LReader.new_remaining]; exact Writer.run_flush_bytes ops
  exact ⟨hw, hr, by rw [LReader.toList_spec _ hw, hr]⟩

/-- **`collect_bits`**: the bytes are the bits followed by fewer than eight zeros, the length is
the number of bits, and reading that many bits back returns the bits. -/
theorem collect_bits_spec (bs : List Bool) :
    (∃ pad, bitsOf (collectBits bs).1 = bs ++ List.replicate pad false ∧ pad < 8 ∧
      (bs.length + pad) % 8 = 0) ∧
    (collectBits bs).2 = bs.length ∧
    (Reader.take bs.length (Reader.new (collectBits bs).1)).1 = bs :=
  ⟨BitStream.collectBits_spec bs, rfl, write_read bs⟩

/-! ## non-vacuity: the hypotheses are met by concrete, non-trivial inputs -/

-- a natural that needs two levels of length prefix, a small result type and a bound
example : (1 ≤ 200 ∧ 200 < 2^32 ∧ 200 ≤ 255) ∧ ∀ b, some 200 = some b → 200 ≤ b :=
  ⟨by decide, by intro b h; cases h; exact Nat.le_refl _⟩
example : decodeNatAs 255 (some 200) (encodeNat 200 ++ [true, false]) = .ok (200, [true, false]) := by
  rw [decodeNatAs_eq, decode_encode 200 (by decide) (by decide)]
  simp [viaPlain, finish]
-- rejected rather than truncated: 2^32 + 6, 300 as `u8`, 200 under the bound 199
example : decodeNatAs (2^64 - 1) none (encodeNat (2^32 + 6)) = .error .overflow := by
  simpa using decode_large (2^32 + 6) (2^64 - 1) none [] (by decide)
example : decodeNatAs 255 none (encodeNat 300) = .error .overflow := by
  simpa using decode_width 300 255 none [] (by decide) (by decide)
example : decodeNatAs 255 (some 199) (encodeNat 200) = .error (.badIndex 200 199) := by
  simpa using decode_bound 200 255 199 [] (by decide) (by decide) (by decide) (by decide)
-- a window that starts and ends inside bytes (the case of the repaired defect): 16 bits, not 20
example : (window [0x12, 0x23, 0x34] 4 20).WF := window_wf _ _ _ (by decide)
example : (window [0x12, 0x23, 0x34] 4 20).toList =
    [false, false, true, false, false, false, true, false, false, false, true, true, false, false, true, true] ∧
    (window [0x12, 0x23, 0x34] 4 20).len = 16 := by decide
-- an unaligned `read_u8` and a `close` that fails on a set padding bit / succeeds on zero padding
example : ((LReader.new [0x0f, 0xaa]).next.bind fun p => p.2.readU8.map (·.1)) = some 0x1f := by decide
example : (LReader.new [0x80]).closeE = .trailing 0x80 := by decide
example : ((LReader.new [0x80]).next.map fun p => p.2.closeE) = some .ok := by decide
example : ((LReader.new [0x81]).next.map fun p => p.2.closeE) = some (.padding 1 7) := by decide
-- a writer sequence with a flush in the middle: padding is in the stream, not in the counter
example : (Writer.new.run [.bit true, .bitsBE 5 3, .flush, .bytes [0xff], .bit false, .flush]).out = [0xd0, 0xff, 0x00] ∧
    (Writer.new.run [.bit true, .bitsBE 5 3, .flush, .bytes [0xff], .bit false, .flush]).total = 13 := by decide

end Props.C13
