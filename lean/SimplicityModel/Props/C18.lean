import SimplicityModel.IterProps
import SimplicityModel.IterTie
import SimplicityModel.IterCert
import SimplicityModel.IterAssert
import SimplicityModel.IterVerboseSpec
set_option linter.unusedSectionVars false
set_option linter.unusedVariables false
/-!
# C18 — DAG iteration visits every node once, children first, with true indices

Objects.  A DAG handle is `PO.T`, the tree unfolding of the pointer DAG with the pointer identity
`id` at every node (`IdsFaithful root`: one pointer, one sub-DAG — true of every handle the driver
builds, `indexDag_handles_faithful`).  A sharing policy (tracker) is `key : T → Option K`: `none` =
never shared.  The three policies of the property: `noKey` (NoSharing), `ptr` (InternalSharing),
`shape tag` (identity hash: the key is the structure; nodes without sharing id and their ancestors
have none); any other function is a user tracker.

What the theorems speak about are the *stack machines* the driver executes:
`run key (init root)` (the loop of `PostOrderIter::next`: stack of `{elem, processed, left_idx,
right_idx, previous}`, the seven child patterns, back-patching through `Previous`, tracker),
`rtl key root` (the same machine on the child-swapped handle, then `unswap`),
`prun key (pinit root)` (`PreOrderIter::next`), `vrun key max_depth (vinit root)`
(`VerbosePreOrderIter::next`), `isSharedAsRun key root` (`is_shared_as`: zip of two runs).  `Same key a c` = "a and c are one sharing class" (the same object, or equal keys);
`Rep key outs j c` = "item j is of c's class".

Hypotheses, and why the three policies meet them (`*_hypotheses` below):
* none for termination, absence of assertion failures, numbering, children-first, true child indices,
  at-most-once, the mirror image, parent-first, the verbose iterator;
* `CongrOn key root` (nodes of the DAG with one key have children in the same classes) for
  *every class is yielded* — without it a class can be lost: the walk skips a node whose key was
  seen, and nothing forces that node's children to have been walked (example
  `class_lost_without_congruence`);
* `RootFresh key root` (no proper descendant has the root's key) for the sharing check — `zip`
  stops at the shorter walk, so a tracker that identifies the root with a descendant makes
  `is_shared_as` accept a strict prefix (example `prefix_accepted_without_rootFresh`).
-/
namespace Props.C18
open PO
variable {K : Type} [DecidableEq K] (key : T → Option K)

/-! ## the iterators terminate -/

/-- Every iteration of the loops of `PostOrderIter::next`, `PreOrderIter::next` and
`VerbosePreOrderIter::next` strictly decreases a weight of the stack (for every DAG, every tracker,
every depth limit); `run`, `prun`, `vrun` are defined by recursion on these weights. -/
theorem iterators_terminate :
    (∀ (s s' : St K) o, step key s = some (s', o) → stackWeight s'.stack < stackWeight s.stack) ∧
    (∀ (s s' : PSt K) o, pstep key s = some (s', o) → pWeight s'.stack < pWeight s.stack) ∧
    (∀ md (s s' : VSt K) o, vstep key md s = some (s', o) → vWeight s'.stack < vWeight s.stack) :=
  ⟨step_decreases key, pstep_decreases key, vstep_decreases key⟩

/-- **no `assert!` of `PostOrderIter::next` fails**, and its accesses `self.stack[stack_len - 1]`,
`self.stack[stack_len - 2]` are in range, in every state the iteration passes through: a popped
processed item with `Previous::Root` finds the stack empty, with `ParentLeft`/`ParentRight` finds its
processed parent on top, with `SiblingLeft` its sibling and below it the processed parent (so the
model's total `patch` never takes the pass-through case the Rust code would panic on). -/
theorem post_asserts_never_fail (root : T) (s : St K) (h : Reach key (init root) s) : assertOK s = true :=
  asserts_hold key root s h

/-- the checked condition is not trivially true: a processed left child without a parent below it -/
example : assertOK (K := Nat) ⟨0, [⟨.leaf 0, true, none, none, .parentLeft⟩], fun _ => none⟩ = false := rfl
example : Reach ptr (init (T.leaf 0)) ⟨0, [⟨.leaf 0, true, none, none, .root⟩], fun _ => none⟩ :=
  .step (.refl _) (o := none) (by simp [step, init, unprocessed, childStatus, T.left])

/-! ## post-order -/

/-- The stack machine computes the recursive walk `visit` (children's statuses looked up before
descending, as the code does); every theorem below transports along this equation. -/
theorem post_machine_eq_spec (root : T) : run key (init root) = (visit key root (fun _ => none) 0).1 :=
  run_eq_visit key root

/-- **numbers the items consecutively**: item `i` carries index `i`. -/
theorem post_numbered_consecutively (root : T) (i : Nat) (o : Out)
    (h : (run key (init root))[i]? = some o) : o.index = i := by
  rw [run_eq_visit] at h
  exact (visit_root key root).1.idx i o h

/-- **always after all of its children, with the indices at which the actual children were
yielded**: a node without left/right child reports `none`; otherwise the reported index `j` is
strictly earlier than the item and item `j` is of the class of the actual left/right child. -/
theorem post_children_first_true_indices (root : T) (i : Nat) (o : Out)
    (h : (run key (init root))[i]? = some o) :
    (match o.node.left with
      | none => o.lidx = none
      | some c => ∃ j, o.lidx = some j ∧ j < i ∧ Rep key (run key (init root)) j c) ∧
    (match o.node.right with
      | none => o.ridx = none
      | some c => ∃ j, o.ridx = some j ∧ j < i ∧ Rep key (run key (init root)) j c) := by
  rw [run_eq_visit] at h ⊢
  exact (visit_root key root).1.kids i o h

/-- **each sharing class at most once**: two items with one key are the same item. -/
theorem post_class_at_most_once (root : T) (i j : Nat) (oi oj : Out) (k : K)
    (hi : (run key (init root))[i]? = some oi) (hj : (run key (init root))[j]? = some oj)
    (hki : key oi.node = some k) (hkj : key oj.node = some k) : i = j := by
  rw [run_eq_visit] at hi hj
  exact (visit_root key root).1.unique key hi hj hki hkj

/-- only nodes of the DAG are yielded -/
theorem post_only_reachable (root : T) (o : Out) (h : o ∈ run key (init root)) : Desc root o.node := by
  rw [run_eq_visit] at h
  exact visit_desc key root _ 0 o h

/-- **every sharing class is yielded** (congruent key): every node reachable from the root is
represented by an item. -/
theorem post_every_class_yielded (root : T) (hc : CongrOn key root) (d : T) (hd : Desc root d) :
    ∃ j, Rep key (run key (init root)) j d := by
  rw [run_eq_visit]
  exact visit_complete_on key root hc d hd

/-- **each keyed sharing class exactly once** (congruent key). -/
theorem post_keyed_class_exactly_once (root : T) (hc : CongrOn key root) (d : T) (hd : Desc root d)
    (k : K) (hk : key d = some k) :
    ∃ (i : Nat) (o : Out), (run key (init root))[i]? = some o ∧ key o.node = some k ∧
      ∀ (j : Nat) (o' : Out), (run key (init root))[j]? = some o' → key o'.node = some k → j = i := by
  obtain ⟨i, o, ho, hs⟩ := post_every_class_yielded key root hc d hd
  have hko : key o.node = some k := by
    rcases hs with rfl | ⟨k', h1, h2⟩
    · exact hk
    · rw [hk] at h2; cases h2; exact h1
  exact ⟨i, o, ho, hko, fun j o' ho' hk' => post_class_at_most_once key root j i o' o k ho' ho hk' hko⟩

/-- **NoSharing**: the iteration is the unfolded tree in post order — every occurrence (path) of
every node exactly once, `size` items. -/
theorem post_noSharing_is_unfolded_tree (root : T) :
    (run noKey (init root)).map (·.node) = root.postList ∧ (run noKey (init root)).length = root.size := by
  rw [run_eq_visit]
  have h := (visit_noKey root (fun _ => none) 0).1
  refine ⟨h, ?_⟩
  have := congrArg List.length h
  simpa [postList_length] using this

/-- **pointer sharing**: every node object of the DAG exactly once. -/
theorem post_pointer_every_object_once (root : T) (hi : IdsFaithful root) :
    ((run ptr (init root)).map (·.node)).Nodup ∧
    ∀ d, Desc root d ↔ d ∈ (run ptr (init root)).map (·.node) := by
  rw [run_eq_visit]
  exact ptr_each_once root hi

/-- under `RootFresh` the root object is the last item and occurs nowhere else -/
theorem post_root_last (root : T) (hf : RootFresh key root) :
    (∃ o, (run key (init root))[(run key (init root)).length - 1]? = some o ∧ o.node = root ∧
      0 < (run key (init root)).length) ∧
    ∀ i o, (run key (init root))[i]? = some o → o.node = root → i + 1 = (run key (init root)).length := by
  rw [run_eq_visit]
  exact root_last key root hf

/-! ## right-to-left post-order -/

/-- `rtl_post_order_iter` as written: the post-order machine on `SwapChildren(root)` (tracker
looking through the wrapper), then `unswap`. -/
theorem rtl_as_written (root : T) :
    rtl key root = (run (mkey key) (init root.mirror)).map Out.unswap := rfl

/-- **the right-to-left variant is the mirror image**: it is the recursive walk of the *original*
DAG that descends into the right child first (`visitR` = `visit` with the two recursive calls
exchanged), reporting left/right indices for the original left/right children. -/
theorem rtl_is_mirror_image (root : T) : rtl key root = (visitR key root (fun _ => none) 0).1 :=
  rtl_eq_visitR key root

/-- the whole post-order invariant holds for the right-to-left iteration against the original
children: consecutive numbering, keyed classes at most once, children earlier with true indices. -/
theorem rtl_numbered_children_first_true_indices (root : T) (i : Nat) (o : Out)
    (h : (rtl key root)[i]? = some o) :
    o.index = i ∧
    (match o.node.left with
      | none => o.lidx = none
      | some c => ∃ j, o.lidx = some j ∧ j < i ∧ Rep key (rtl key root) j c) ∧
    (match o.node.right with
      | none => o.ridx = none
      | some c => ∃ j, o.ridx = some j ∧ j < i ∧ Rep key (rtl key root) j c) := by
  have hinv := (visit_root (mkey key) root.mirror).1.unswap key
  rw [← run_eq_visit] at hinv
  exact ⟨hinv.idx i o h, hinv.kids i o h⟩

theorem rtl_class_at_most_once (root : T) (i j : Nat) (oi oj : Out) (k : K)
    (hi : (rtl key root)[i]? = some oi) (hj : (rtl key root)[j]? = some oj)
    (hki : key oi.node = some k) (hkj : key oj.node = some k) : i = j := by
  have hinv := (visit_root (mkey key) root.mirror).1.unswap key
  rw [← run_eq_visit] at hinv
  exact hinv.unique key hi hj hki hkj

/-- every class is yielded by the right-to-left iteration too (congruent key) -/
theorem rtl_every_class_yielded (root : T) (hc : CongrOn key root) (d : T) (hd : Desc root d) :
    ∃ j, Rep key (rtl key root) j d := by
  obtain ⟨j, hr⟩ := visit_complete_on (mkey key) root.mirror (hc.mirror key) d.mirror hd.mirror
  rw [← run_eq_visit] at hr
  have := hr.unswap key
  rw [T.mirror_mirror] at this
  exact ⟨j, this⟩

/-! ## pre-order -/

theorem pre_machine_eq_spec (root : T) : prun key (pinit root) = (pre key root (fun _ => none)).1 :=
  prun_eq_pre key root

/-- **parent-first**: the first item is the root, and every other item has one of its parent
objects among the items before it. -/
theorem pre_parent_first (root : T) :
    (∃ rest, prun key (pinit root) = root :: rest) ∧
    ∀ before o after, prun key (pinit root) = before ++ o :: after →
      before = [] ∨ ∃ p ∈ before, p.left = some o ∨ p.right = some o := by
  rw [prun_eq_pre]
  refine ⟨?_, pre_parentFirst key root _⟩
  rcases pre_head key root (fun _ => none) with h | h
  · obtain ⟨_, _, ⟨o, ho, _⟩, _⟩ := pre_root key root
    rw [h] at ho; cases ho
  · exact h

/-- keyed classes at most once; only nodes of the DAG -/
theorem pre_class_at_most_once (root : T) :
    ((prun key (pinit root)).filterMap key).Nodup ∧ ∀ o ∈ prun key (pinit root), Desc root o := by
  rw [prun_eq_pre]
  obtain ⟨h1, h2, _, _⟩ := pre_root key root
  exact ⟨h1, h2⟩

/-- **pre-order yields the same set**: (congruent key) a node of the DAG is represented in the
pre-order iteration and in the post-order iteration — both yield exactly the classes of the DAG. -/
theorem pre_same_classes_as_post (root : T) (hc : CongrOn key root) (d : T) (hd : Desc root d) :
    (∃ o ∈ prun key (pinit root), Same key o d) ∧ (∃ j, Rep key (run key (init root)) j d) := by
  rw [prun_eq_pre]
  exact ⟨pre_complete_on key root hc d hd, post_every_class_yielded key root hc d hd⟩

/-- NoSharing: the unfolded tree in pre order -/
theorem pre_noSharing_is_unfolded_tree (root : T) : prun noKey (pinit root) = root.preList := by
  rw [prun_eq_pre, pre_noKey]

/-- pointer sharing: exactly the node objects of the DAG, each once — the same set as post-order -/
theorem pre_pointer_same_objects_as_post (root : T) (hi : IdsFaithful root) :
    (prun ptr (pinit root)).Nodup ∧
    ∀ d, d ∈ prun ptr (pinit root) ↔ d ∈ (run ptr (init root)).map (·.node) := by
  have hpost := (post_pointer_every_object_once root hi).2
  rw [prun_eq_pre]
  obtain ⟨hnd, hdesc, _, _⟩ := pre_root ptr root
  refine ⟨?_, ?_⟩
  · have : ((pre ptr root (fun _ => none)).1.map T.id).Nodup := by
      have e : (pre ptr root (fun _ => none)).1.filterMap ptr = (pre ptr root (fun _ => none)).1.map T.id := by
        induction (pre ptr root (fun _ => none)).1 with
        | nil => rfl
        | cons a l ih => simp [List.filterMap_cons, ptr, ih]
      rw [← e]; exact hnd
    exact List.Pairwise.of_map T.id (fun a b hne heq => hne (by rw [heq])) this
  · intro d
    rw [← hpost d]
    constructor
    · exact hdesc d
    · intro hd
      obtain ⟨o, ho, hs⟩ := pre_complete_on ptr root (congrOn_ptr root hi) d hd
      have := same_ptr_eq root hi (hdesc o ho) hd hs
      rw [← this]; exact ho

/-! ## verbose pre-order -/

/-- The stack machine of `VerbosePreOrderIter::next` computes the recursive specification `vspec`:
a node whose class was not seen is yielded with `n_children_yielded = 0` (index = number of first
yields so far, depth and parent of the path it was reached by, `is_complete` iff it has no
children), then — unless `depth < max_depth` fails — the walk of its left child, the node again with
count 1, the walk of its right child, the node with count 2; `is_complete` exactly on the last. -/
theorem verbose_machine_eq_spec (md : Option Nat) (root : T) :
    vrun key md (vinit root) = (vspec key md root 0 none (fun _ => none) 0).1 :=
  vrun_eq_vspec key md root

/-- without a depth limit the first yields of the verbose iterator are the pre-order iteration -/
theorem verbose_first_yields_are_preorder (root : T) :
    (firsts (vrun key none (vinit root))).map (·.node) = prun key (pinit root) := by
  rw [vrun_eq_vspec, prun_eq_pre]
  exact (vspec_firsts_pre key root 0 none (fun _ => none) 0).1

/-- first yields are numbered 0, 1, 2, … (with or without a depth limit) -/
theorem verbose_first_yields_numbered (md : Option Nat) (root : T) :
    (firsts (vrun key md (vinit root))).map (·.index) = List.range (firsts (vrun key md (vinit root))).length := by
  rw [vrun_eq_vspec]
  obtain ⟨c, _, h⟩ := vspec_indices key md root 0 none (fun _ => none) 0
  have hl := congrArg List.length h
  simp only [List.length_map, List.length_range'] at hl
  rw [h, hl, List.range_eq_range']

/-- nothing deeper than `max_depth` is yielded -/
theorem verbose_depth_limit_respected (m : Nat) (root : T) (v : VItem)
    (h : v ∈ vrun key (some m) (vinit root)) : v.depth ≤ m := by
  rw [vrun_eq_vspec] at h
  exact vspec_depth key m root 0 none (fun _ => none) 0 (Nat.zero_le _) v h

/-! ## the sharing check -/

/-- **`is_shared_as` accepts exactly when the pointer structure already equals the requested
sharing**: the walk under the requested policy visits the same node objects, in the same order, as
the walk under pointer identity. -/
theorem isSharedAs_iff_same_walk (root : T) (hi : IdsFaithful root) (hf : RootFresh key root) :
    isSharedAsRun key root = true ↔
      (run ptr (init root)).map (·.node.id) = (run key (init root)).map (·.node.id) := by
  rw [isSharedAsRun_eq, run_eq_visit, run_eq_visit]
  exact isSharedAs_iff key root hi hf

/-- for a key defined on every node of the DAG: accepted exactly when no two distinct node objects
have the same key, i.e. the partition into sharing classes is the partition into objects -/
theorem isSharedAs_iff_partition (root : T) (hi : IdsFaithful root) (hf : RootFresh key root)
    (htot : ∀ d, Desc root d → (key d).isSome) :
    isSharedAsRun key root = true ↔
      ∀ a c, Desc root a → Desc root c → key a = key c → a = c := by
  rw [isSharedAs_iff_same_walk key root hi hf, run_eq_visit, run_eq_visit]
  exact same_walk_iff_injective key root hi htot

/-- the pointer policy itself is always accepted -/
theorem isSharedAs_pointer_accepts (root : T) : isSharedAsRun ptr root = true := by
  rw [isSharedAsRun_eq]; exact isSharedAs_ptr root

/-! ## the hypotheses are met by the three policies of the property -/

/-- NoSharing: no node has a key — congruence and root-freshness hold vacuously -/
theorem noSharing_hypotheses (root : T) : CongrOn noKey root ∧ RootFresh noKey root :=
  ⟨congr_noKey.on noKey root, rootFresh_noKey root⟩

/-- pointer sharing: equal keys = the same object (on a handle whose ids are pointer identities) -/
theorem pointer_hypotheses (root : T) (hi : IdsFaithful root) : CongrOn ptr root ∧ RootFresh ptr root :=
  ⟨congrOn_ptr root hi, rootFresh_ptr root hi⟩

/-- identity-hash sharing: equal keys = equal structure, so the children have equal structure (a
congruence) and a proper descendant, being smaller, never has the root's key -/
theorem identityHash_hypotheses (tag : Nat → Option Nat) (root : T) :
    Congr (shape tag) ∧ CongrOn (shape tag) root ∧ RootFresh (shape tag) root :=
  ⟨congr_shape tag, (congr_shape tag).on _ root, rootFresh_shape tag root⟩

/-- every handle the driver builds from a node list with backward references (`wellIdxB`) is the
unfolding `U ns i` of that list, whose ids are pointer identities -/
theorem indexDag_handles_faithful (ns : List Sh) (hw : wellIdxB ns = true) (i : Nat) (hi : i < ns.length) :
    (build ns)[i]? = some (U ns i) ∧ IdsFaithful (U ns i) :=
  ⟨build_spec ns hw i hi, idsFaithful_U ns (wellIdx_of_B ns hw) i⟩

/-- the handle of the child-swapped node list is the mirrored handle (`SwapChildren`) -/
theorem indexDag_mirror (ns : List Sh) (hw : wellIdxB ns = true) (i : Nat) :
    U (ns.map mirrorSh) i = (U ns i).mirror :=
  U_mirror ns (wellIdx_of_B ns hw) i

/-- the driver's identity-hash policy: the class table it computes (`classify`) is used only if it
passes the check `certB` (a class iff a signature; same class iff same tag and same classes of the
children), and *every* table that passes gives the iteration under the structural key `shape` -/
theorem identityHash_table_checked (nodes : List (Option Nat × Sh)) (tbl : Array (Option Nat))
    (hw : wellIdxB (nodes.map (·.2)) = true) (hc : certB nodes tbl = true) (r : Nat) (hr : r < nodes.length) :
    run (keyOf tbl) (init (U (nodes.map (·.2)) r)) =
      run (shape (tagOf nodes)) (init (U (nodes.map (·.2)) r)) := by
  rw [run_eq_visit, run_eq_visit]
  exact cert_visit nodes tbl hw hc r hr

example : certB [(some 0, .leaf), (some 0, .leaf), (none, .leaf), (some 1, .bin 0 1), (some 1, .bin 1 0), (some 0, .un 2)]
    (classify [(some 0, .leaf), (some 0, .leaf), (none, .leaf), (some 1, .bin 0 1), (some 1, .bin 1 0), (some 0, .un 2)]) = true ∧
    classify [(some 0, .leaf), (some 0, .leaf), (none, .leaf), (some 1, .bin 0 1), (some 1, .bin 1 0), (some 0, .un 2)] =
      #[some 0, some 0, none, some 1, some 1, none] := by decide

/-- two keys with the same classes on the DAG give the same iteration -/
theorem post_depends_on_classes_only {K' : Type} [DecidableEq K'] (key' : T → Option K') (root : T)
    (h : ∀ a c, Desc root a → Desc root c →
      ((∃ k, key a = some k ∧ key c = some k) ↔ (∃ k, key' a = some k ∧ key' c = some k))) :
    run key (init root) = run key' (init root) := by
  rw [run_eq_visit, run_eq_visit]
  exact visit_same_classes key key' root h

/-! ## non-vacuity: a DAG with a diamond and a node that is both child and grandchild -/

/-- `3 = bin(2, 1)`, `2 = bin(1, 0)`, `1 = un(0)`, `0 = leaf` -/
def exNs : List Sh := [.leaf, .un 0, .bin 1 0, .bin 2 1]
def ex : T := U exNs 3

example : wellIdxB exNs = true := by decide
example : IdsFaithful ex := idsFaithful_U exNs (wellIdx_of_B exNs (by decide)) 3
example : CongrOn ptr ex ∧ RootFresh ptr ex := pointer_hypotheses ex (idsFaithful_U exNs (wellIdx_of_B exNs (by decide)) 3)

/-- pointer sharing: 4 items, node 1 yielded once although reached three times -/
example : (run ptr (init ex)).map (fun o => (o.node.id, o.index, o.lidx, o.ridx)) =
    [(0, 0, none, none), (1, 1, some 0, none), (2, 2, some 1, some 0), (3, 3, some 2, some 1)] := by
  rw [run_eq_visit]; decide

/-- right-to-left: node 1 first (the right child of the root), then 2 = bin(1, 0) whose *left* index
is 1's and *right* index is 0's -/
example : (rtl ptr ex).map (fun o => (o.node.id, o.index, o.lidx, o.ridx)) =
    [(0, 0, none, none), (1, 1, some 0, none), (2, 2, some 1, some 0), (3, 3, some 2, some 1)] := by
  rw [rtl_eq_visitR]; decide

/-- a DAG on which right-to-left differs: `2 = bin(0, 1)` with two leaves -/
example : (rtl ptr (U [.leaf, .leaf, .bin 0 1] 2)).map (fun o => (o.node.id, o.index, o.lidx, o.ridx)) =
    [(1, 0, none, none), (0, 1, none, none), (2, 2, some 1, some 0)] := by
  rw [rtl_eq_visitR]; decide

/-- NoSharing on `ex`: the 8 nodes of the unfolded tree -/
example : (run noKey (init ex)).map (·.node.id) = [0, 1, 0, 2, 0, 1, 3] := by
  rw [run_eq_visit]; decide

/-- identity hash with all tags equal on `bin(leaf, leaf)`: the two leaves are one class -/
example : (run (shape fun _ => some 0) (init (U [.leaf, .leaf, .bin 0 1] 2))).map
    (fun o => (o.node.id, o.index, o.lidx, o.ridx)) = [(0, 0, none, none), (2, 1, some 0, some 0)] := by
  rw [run_eq_visit]; decide

example : (prun ptr (pinit ex)).map T.id = [3, 2, 1, 0] := by
  rw [prun_eq_pre]; decide

/-- on `ex` with pointer sharing: 3 is yielded three times, 2 three times, 1 twice, 0 once -/
example : (vrun ptr none (vinit ex)).map (fun v => (v.node.id, v.index, v.depth, v.ncy, v.complete)) =
    [(3, 0, 0, 0, false), (2, 1, 1, 0, false), (1, 2, 2, 0, false), (0, 3, 3, 0, true), (1, 2, 2, 1, true),
     (2, 1, 1, 1, false), (2, 1, 1, 2, true), (3, 0, 0, 1, false), (3, 0, 0, 2, true)] := by
  rw [vrun_eq_vspec]; decide

/-- the sharing check: `bin(leaf, leaf)` with two leaf objects is *not* shared as the identity hash
wants it, and is shared as pointers -/
example : isSharedAsRun (shape fun _ => some 0) (U [.leaf, .leaf, .bin 0 1] 2) = false := by
  rw [isSharedAsRun_eq]; decide
example : isSharedAsRun (shape fun _ => some 0) (U [.leaf, .bin 0 0] 1) = true := by
  rw [isSharedAsRun_eq]; decide

/-- **why `RootFresh` is needed**: a tracker that gives every node one key yields a single item; the
`zip` of `is_shared_as` compares that one item and accepts although the walks differ -/
theorem prefix_accepted_without_rootFresh :
    isSharedAsRun (fun _ => some 0) ex = true ∧
    (run ptr (init ex)).map (·.node.id) ≠ (run (fun _ => some 0) (init ex)).map (·.node.id) := by
  rw [isSharedAsRun_eq, run_eq_visit, run_eq_visit]; decide

/-- **why congruence is needed for completeness**: `5 = bin(3, 4)`, `4 = un(2)`, `2 = un(1)`,
`1 = un(0)`, leaves `0`, `3`; a tracker that gives the leaf `3` and the inner node `2` one key.  When
`4` is processed its child `2` counts as already yielded (as item 0, the leaf), so `2` is not walked
and its children `1` and `0` — whose classes nothing else represents — are never yielded. -/
theorem class_lost_without_congruence :
    (run (fun t => if t.id = 2 ∨ t.id = 3 then some 7 else none)
      (init (U [.leaf, .un 0, .un 1, .leaf, .un 2, .bin 3 4] 5))).map (·.node.id) = [3, 4, 5] := by
  rw [run_eq_visit]; decide

end Props.C18
