/-
C19 — Budget padding is sufficient and minimal.

Property theorems only; the model (`Cost`) is in `SimplicityModel/Cost.lean`, the constants and the
padding table *as the code has them now* are regenerated into `Gen/Consts.lean` by
`tools/translate_consts.py` on every run and tied to the hand model by `gen_matches_model`.
-/
import SimplicityModel.Cost
import SimplicityModel.Gen.Consts

namespace Props.C19
open Cost

/-- Tie to the source: every constant and every arm of the `match deficit` table that the
translator read from `/repo/src/analysis.rs` equals the one the hand model is proved about. -/
theorem gen_matches_model :
    Gen.Consts.CONSENSUS_MAX = CONSENSUS_MAX ∧ Gen.Consts.FREE_BUDGET = 50 ∧
    Gen.Consts.VALID_STRICT = false ∧ Gen.Consts.VALID_MUL = 1000 ∧
    Gen.Consts.WEIGHT_ADD = 999 ∧ Gen.Consts.WEIGHT_DIV = 1000 ∧ Gen.Consts.COST_MUL = 1000 ∧
    Gen.Consts.PAD_NONE_STRICT = false ∧ Gen.Consts.paddingUnderflowArms = 0 ∧
    Gen.Consts.ANNEX_TAG = 0x50 ∧ Gen.Consts.ANNEX_FILL = 0 ∧
    (∀ d, Gen.Consts.paddingLen d = paddingLen d) := by
  refine ⟨rfl, rfl, rfl, rfl, rfl, rfl, rfl, rfl, rfl, rfl, rfl, ?_⟩
  intro d
  unfold Gen.Consts.paddingLen paddingLen
  repeat' (first | omega | split)

/-- `Weight -> Cost`: `saturating_mul(1000)` -/
def costOfWeight (w : Nat) : Nat := min (w * 1000) U32MAX

/-- The cost is reported as within budget exactly when its weight does not exceed the stack's
serialized size plus fifty (every cost up to the consensus maximum, every stack whose size fits
the `u32` the code `expect`s). -/
theorem within_budget_iff (c : Nat) (items : List Nat) (hc : c ≤ CONSENSUS_MAX)
    (hs : stackLen items + 50 ≤ U32MAX) :
    isBudgetValid c items = true ↔ weight c ≤ stackLen items + 50 :=
  valid_iff c items hc hs

/-- No padding is returned exactly when the cost is within budget. -/
theorem padding_none_iff (c : Nat) (items : List Nat) (hc : c ≤ CONSENSUS_MAX)
    (hs : stackLen items + 50 ≤ U32MAX) :
    getPadding c items = none ↔ isBudgetValid c items = true := by
  rw [valid_iff c items hc hs]
  unfold getPadding budget
  have : min (stackLen items + 50) U32MAX = stackLen items + 50 := by omega
  rw [this]
  split <;> simp_all

/-- The returned annex, appended to the stack, brings the cost within budget. -/
theorem padding_is_sufficient (c : Nat) (items : List Nat) (hc : c ≤ CONSENSUS_MAX)
    (hs : stackLen items + 50 + 4300000 ≤ U32MAX) (L : Nat) (h : getPadding c items = some L) :
    isBudgetValid c (items ++ [L]) = true :=
  padding_sufficient c items hc hs L h

/-- Unless the item count itself sits on a compact-size boundary, no shorter annex would do. -/
theorem padding_is_minimal (c : Nat) (items : List Nat) (hc : c ≤ CONSENSUS_MAX)
    (hs : stackLen items + 50 + 4300000 ≤ U32MAX)
    (hcount : cs (items.length + 1) = cs items.length)
    (L : Nat) (h : getPadding c items = some L) (L' : Nat) (h1 : 1 ≤ L') (h2 : L' < L) :
    isBudgetValid c (items ++ [L']) = false :=
  padding_minimal c items hc hs hcount L h L' h1 h2

/-- the annex is never empty (it starts with the 0x50 tag) -/
theorem padding_pos (c : Nat) (items : List Nat) (L : Nat) (h : getPadding c items = some L) :
    1 ≤ L := by
  unfold getPadding at h; split at h
  · cases h
  · cases h; omega

/-- Cost → weight is monotone … -/
theorem weight_monotone {a b : Nat} (h : a ≤ b) : weight a ≤ weight b := weight_mono h

/-- … rounds up (least weight whose thousandfold covers the cost) … -/
theorem weight_rounds_up (c : Nat) (hc : c ≤ CONSENSUS_MAX) :
    c ≤ weight c * 1000 ∧ ∀ w, c ≤ w * 1000 → weight c ≤ w := by
  unfold weight CONSENSUS_MAX U32MAX at *
  constructor
  · omega
  · intro w hw; omega

/-- … and weight → cost → weight is the identity, cost → weight → cost never decreases. -/
theorem weight_cost_weight (w : Nat) (hw : w * 1000 ≤ U32MAX) : weight (costOfWeight w) = w := by
  unfold weight costOfWeight U32MAX at *; omega

theorem cost_weight_cost (c : Nat) (hc : c ≤ CONSENSUS_MAX) : c ≤ costOfWeight (weight c) := by
  unfold weight costOfWeight CONSENSUS_MAX U32MAX at *; omega

theorem costOfWeight_monotone {a b : Nat} (h : a ≤ b) : costOfWeight a ≤ costOfWeight b := by
  unfold costOfWeight; omega

/-! Non-vacuity: the hypotheses are met by concrete non-trivial inputs (the hash-loop example of
the repository's own test, and the consensus maximum on the empty stack). -/
example : 8045103 ≤ CONSENSUS_MAX ∧ stackLen [0, 497, 32, 33] + 50 + 4300000 ≤ U32MAX ∧
    cs ([0, 497, 32, 33].length + 1) = cs [0, 497, 32, 33].length ∧
    getPadding 8045103 [0, 497, 32, 33] = some 7424 := by decide
example : getPadding CONSENSUS_MAX [] = some 3999994 := by decide
example : isBudgetValid 51000 [] = true ∧ isBudgetValid 51001 [] = false := by decide

end Props.C19
