/-
C05 — Bit Machine execution equals the denotational semantics.

Model: `BM4` (types, values, intrinsically typed terms, `eval`, the bit-cell machine `run`, the
explicit call stack `loop`, the byte-buffer machine `runB`, `for_program`/`input`/`exec`) and the
driver-level definitions of `Prog/Elab.lean` that the correspondence runs (`evalK`, `runM`).
-/
import SimplicityModel.Exec
import SimplicityModel.Loop
import SimplicityModel.MachineBytes
import SimplicityModel.Prog.ElabProps

namespace Props.C05
open BM4

/-- **Whole path.** For every well-typed term `t : a ⊢ b` (`WT`: every witness and word value has
its node's target type, every jet computes its specification on every padded encoding), every value
`v` of the source type: the machine that `for_program` builds, loaded by `input`, run by `exec`,
never crashes; it returns a padded encoding of exactly `eval t v` when the semantics succeeds and
fails when (and only when) the semantics fails. -/
theorem exec_equals_semantics {a b : Ty} (t : Term a b) (v : Val) (hv : HasTy v a) (hwt : WT t) :
    match eval t v with
    | some out => ∃ bits, execProgram t v = .ok bits ∧ Enc b out bits
    | none => execProgram t v = .error .fail :=
  exec_spec t v hv hwt

/-- **Independence of memory placement.** Anywhere in a machine: whatever the read cursor's
offset, whatever the content of padding bits and of all other cells (`Pre`: an encoding `Enc`, with
arbitrary padding, of `v` sits at the read cursor; the write area is disjoint), a run of `t` leaves
an encoding of `eval t v` at the write cursor, restores cursors, frames and the allocation
pointer, changes no live cell outside the output area — or fails iff `eval` fails. -/
theorem run_equals_semantics {a b : Ty} (t : Term a b) (m : M) (v : Val)
    (hwt : WT t) (pre : Pre m a b v) (cap : Cap m t) : Spec t m v :=
  run_spec t m v hwt pre cap

/-- The interpreter the code actually has — an explicit call stack of `Goto / MoveWriteFrameToRead
/ DropReadFrame / CopyFwd / Back` items — computes what the structural `run` computes. -/
theorem call_stack_loop_is_run {a b : Ty} (t : Term a b) (m : M) :
    ∃ fuel, loop fuel [.goto ⟨a, b, t⟩] m = some (run t m) :=
  loop_eq_run t m

/-- The machine on a byte buffer (bit `i` is bit `7 - i % 8` of byte `i / 8`, `|= mask`/`&= !mask`)
computes, through the abstraction `abs`, exactly what the machine on cells computes. -/
theorem byte_machine_simulates {a b : Ty} (t : Term a b) (bm : BM) :
    Sim (runB t bm) (run t (abs bm)) :=
  sim_run t bm

/-- Failure kinds: the evaluator the driver runs (`assertion | failNode | jet`) succeeds exactly
when `eval` does, with the same value. -/
theorem failure_kinds_refine_eval {a b : Ty} (t : Term a b) (v : Val) :
    Prog.okOpt (Prog.evalK t v) = eval t v :=
  Prog.evalK_eval t v

/-- `disconnect s t` runs the same instruction sequence as
`comp (pair (word cmr) iden) (comp s (pair (take iden) (drop t)))`. -/
theorem disconnect_is_composite {a b c d : Ty} (w : Ty) (cw : Val) (s : Term (.prod w a) (.prod b c))
    (t : Term c d) (m : M) : run (Term.disconnect w cw s t) m = run (disconnectAs w cw s t) m :=
  run_disconnect w cw s t m

/-! Non-vacuity: a concrete program with a case, on a concrete input, satisfies the hypotheses. -/
example : let t : Term (.prod (.sum .one .one) .one) (.sum .one .one) :=
            .case (.injr .unit) (.injl .unit)
          WT t ∧ HasTy (.pair (.inl .unit) .unit) (.prod (.sum .one .one) .one) ∧
          eval t (.pair (.inl .unit) .unit) = some (.inr .unit) := by
  refine ⟨⟨trivial, trivial⟩, .pair (.inl .unit) .unit, rfl⟩

end Props.C05
