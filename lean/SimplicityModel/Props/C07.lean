/-
C07 — static resource bounds cover every execution.

In the machine model a cell access outside the buffer, a frame allocation beyond the cell
capacity and a frame push beyond the frame capacity are `crash` results (the Rust index panics and
debug assertions).  `extraCells`/`extraFrames` are the formulas of `src/analysis.rs`.
-/
import SimplicityModel.Exec
import SimplicityModel.BoundsTie
import SimplicityModel.Prog.ElabProps
import SimplicityModel.Gen.Consts

namespace Props.C07
open BM4

/-- **Bounds cover every execution.** A machine with *exactly* `source + target + extra_cells`
cells and `extra_frames + 2` frames — not one more — runs every well-typed program on every input
without a crash, on failing executions too: no execution uses more than the static bounds plus
the IO allowance. -/
theorem bounds_cover_every_execution {a b : Ty} (t : Term a b) (v : Val) (hv : HasTy v a) (hwt : WT t) :
    execProgramC t v (a.bw + b.bw + extraCells t) ≠ .error .crash :=
  exec_within_bounds t v hv hwt

/-- The same inside any machine state: with `extraCells t` free cells above the allocation pointer
and `extraFrames t` free frame slots (`Cap`), a run never crashes (`Spec` has no crash outcome). -/
theorem run_never_crashes {a b : Ty} (t : Term a b) (m : M) (v : Val)
    (hwt : WT t) (pre : Pre m a b v) (cap : Cap m t) : run t m ≠ .error .crash := by
  have h := run_spec t m v hwt pre cap
  unfold Spec at h
  cases he : eval t v with
  | none => rw [he] at h; simp only at h; rw [h]; intro hc; cases hc
  | some out => rw [he] at h; obtain ⟨m', hr, _⟩ := h; rw [hr]; intro hc; cases hc

/-- The instrumented interpreter whose high-water marks the correspondence compares with the
`verif-hooks` counters is the interpreter. -/
theorem instrumented_run_is_run {a b : Ty} (t : Term a b) (m : M) (k : Prog.Marks) :
    Prog.fstE (Prog.runM t m k) = run t m :=
  Prog.runM_run t m k

/-- `LimitError::check_program` as a function of the three numbers it looks at -/
def checkProgram (src tgt xcells xframes : Nat) : Bool :=
  src ≤ Gen.Consts.MAX_CELLS && tgt ≤ Gen.Consts.MAX_CELLS && xcells ≤ Gen.Consts.MAX_CELLS &&
  src + tgt ≤ Gen.Consts.MAX_CELLS && src + tgt + xcells ≤ Gen.Consts.MAX_CELLS &&
  xframes ≤ Gen.Consts.MAX_FRAMES && xframes + Gen.Consts.IO_EXTRA_FRAMES ≤ Gen.Consts.MAX_FRAMES

/-- **Hard limits.** A program is accepted only if the buffer `for_program` would allocate has at
most `MAX_CELLS` cells and its frame stacks at most `MAX_FRAMES` entries; beyond that it is refused
before any allocation. -/
theorem limits_refuse (src tgt xcells xframes : Nat) :
    checkProgram src tgt xcells xframes = true ↔
      src + tgt + xcells ≤ Gen.Consts.MAX_CELLS ∧ xframes + Gen.Consts.IO_EXTRA_FRAMES ≤ Gen.Consts.MAX_FRAMES := by
  unfold checkProgram
  simp only [Bool.and_eq_true, decide_eq_true_eq]
  constructor
  · intro h; omega
  · intro h; omega

/-- **The refusal test is the one in the source**: `LimitError::check_program` — regenerated check by
check from src/bit_machine/limits.rs on every run — accepts exactly when the buffer and the frame
stacks `for_program` would allocate are within the hard limits. -/
theorem check_program_as_in_source (src tgt xcells xframes : Nat) :
    Gen.Consts.checkProgramSrc src tgt xcells xframes = true ↔
      src + tgt + xcells ≤ Gen.Consts.MAX_CELLS ∧ xframes + Gen.Consts.IO_EXTRA_FRAMES ≤ Gen.Consts.MAX_FRAMES := by
  unfold Gen.Consts.checkProgramSrc
  simp only [Bool.and_eq_true, decide_eq_true_eq]
  constructor
  · intro h; omega
  · intro h; omega

/-- the limits the theorems speak about are the ones in the source (regenerated every run) and
leave room for the `usize` arithmetic of the code -/
theorem limits_as_in_source :
    Gen.Consts.MAX_CELLS = 2147483647 ∧ Gen.Consts.MAX_FRAMES = 1048576 ∧ Gen.Consts.IO_EXTRA_FRAMES = 2 := by
  decide

/-- **The bounds the theorems speak about are the bounds the code computes**: folding the
constructors of `impl NodeBounds` (src/analysis.rs) over a program the way `RedeemData::new`
(src/node/redeem.rs) does — both regenerated from the source on every run into `Gen/Bounds.lean` —
gives exactly the `extraCells` and `extraFrames` with which `run_never_crashes` and
`bounds_cover_every_execution` are stated. -/
theorem bounds_as_in_source {a b : BM4.Ty} (t : BM4.Term a b) :
    (BoundsTie.boundsOf t).extra_cells = BM4.extraCells t ∧
    (BoundsTie.boundsOf t).extra_frames = BM4.extraFrames t :=
  ⟨BoundsTie.boundsOf_cells t, BoundsTie.boundsOf_frames t⟩

example : (BoundsTie.boundsOf (BM4.Term.comp (BM4.Term.unit (a := .sum .one .one)) (BM4.Term.witness (b := .sum .one .one) (.inl .unit)))).extra_frames = 1 := by decide

example : checkProgram 8 8 100 3 = true ∧ checkProgram 8 8 2147483640 3 = false := by decide

end Props.C07
